import LoraVerif.Model.Device
import LoraVerif.Lemmas.ExceptLemmas
import LoraVerif.Props.C09
import LoraVerif.Model.History
import LoraVerif.Lemmas.MacWFStep
import LoraVerif.Lemmas.Accept
import LoraVerif.Lemmas.RefineNb
import LoraVerif.Lemmas.HistoryCSafe
import LoraVerif.Lemmas.DelayInv
import LoraVerif.Lemmas.RefineListen
/-!
# C04 — no received frame or network command can panic or hang the device

Panics are VALUES in the model (`Fault.panic site` for every Rust index, slice, `unwrap`,
`unreachable!` and checked-arithmetic site; `Fault.hang` for an exhausted retry loop), so "does not
panic" is a theorem about the model, not an artefact of Lean's totality.

Proved here (for every field value of the commands / every random stream):
* `channelMaskUpdate_ok`: every ChMaskCntl 0..7 (and beyond) with any mask bytes is handled without
  panic on a 9-byte mask and yields a 9-byte mask or "undefined for this region";
* `drOfNat_ok`: converting any byte to a data rate never hits the `unreachable!()`;
* `rx_datarate_ok`: the regional RX-datarate tables never panic (all 16 DR × offsets 0..7 × windows);
* `dynJoinLoop_no_panic`, `dynDataLoop_no_panic`, `fixedMaskLoop_no_panic`: the retry loops can only
  end by returning or by exhausting their draw budget — never by a panic — on well-formed plans;
* `fallback_usable`: after the fallback of `select_tx_channel` a dynamic plan with its default
  channels defined always offers a usable channel (the accept set is non-empty);
* `rejected_frame_no_panic`: a frame the reference codec rejects never reaches a fallible handler
  (corollary of C07).
**The composition over whole histories** (`Model/History.lean`: events `joinAbp`, `joinOtaa`,
`uplink` (with the Class A procedure and radio faults at every position), `rxc`, `setAdr`, `setDr`;
`step`, `run`) is proved by induction with the invariant `MacWF` (`Lemmas/MacWF*.lean`):
* `init_wf` / `init_bias_wf`: the initial state of every region (with or without join bias) is well-formed;
* `step_wf`: every step from a well-formed state under a valid event ends well-formed;
* `step_no_panic`: … and does not panic — for EVERY received view (garbage, any data frame with any
  field values and any MAC command byte stream, any JoinAccept incl. every DLSettings/RxDelay/CFList),
  every SNR, every payload limit, every random stream;
* `step_rx_returns`: events without a transmission (Class C reception, ABP activation, the setters)
  RETURN — there is no retry loop on the receive side at all;
* `run_no_panic`, `run_wf`: by induction over the event list, from `init`, no history of valid
  events panics, and every state it reaches is well-formed.
`ValidEv` is the application-side contract only (no payload on port 0, ≤ 222 payload bytes,
`set_datarate` to an uplink data rate of the region) plus the representation facts of the decoded
view (a CFList is five frequencies or a 9-byte mask); nothing the network controls is constrained.
`Fault.hang` (a retry loop exhausting its draw budget) cannot be excluded for an arbitrary generator:
a rejection-sampling loop accepts at the first acceptable draw.  What is proved instead is that the
accept sets are never empty in any reachable state (`run_accept_nonempty`, `accept_nonempty`): there
is a draw value on which `send` / `join_otaa` return at once — including the join-channel walk of the
fixed plans, whose invariant (banks visited cyclically, one free channel taken per visit) is part
of `MacWF`.
-/
open Model Gen.Region

namespace C04

/-! ## masks -/

theorem setBank_ok (m : Mask) (i v : Nat) (h : i < m.length) : m.setBank i v = .ok (m.set i v) := by
  unfold Mask.setBank; simp [h]

theorem setBanks_ok (m : Mask) (l : List (Nat × Nat)) (h : ∀ p ∈ l, p.1 < m.length) :
    ∃ m', setBanks m l = .ok m' ∧ m'.length = m.length := by
  induction l generalizing m with
  | nil => exact ⟨m, rfl, rfl⟩
  | cons p rest ih =>
    obtain ⟨i, v⟩ := p
    have hi : i < m.length := h (i, v) List.mem_cons_self
    unfold setBanks
    rw [setBank_ok m i v hi]
    simp only [bind, Except.bind]
    have hlen : (m.set i v).length = m.length := by simp
    obtain ⟨m', hm', hl'⟩ := ih (m.set i v) (by intro p hp; rw [hlen]; exact h p (List.mem_cons_of_mem _ hp))
    exact ⟨m', hm', by omega⟩

/-- **LinkADRReq channel mask handling never panics**, whatever ChMaskCntl and mask bytes -/
theorem channelMaskUpdate_ok (rs : RegionState) (m : Mask) (cntl b0 b1 : Nat) (hm : m.length = 9) :
    ∃ r, channelMaskUpdate rs m cntl b0 b1 = .ok r ∧ ∀ m', r = some m' → m'.length = 9 := by
  unfold channelMaskUpdate
  have range8 : ∀ (f : Nat → Nat × Nat), (∀ i, (f i).1 = i) → ∀ p ∈ (List.range 8).map f, p.1 < m.length := by
    intro f hf p hp
    simp only [List.mem_map, List.mem_range] at hp
    obtain ⟨i, hi, rfl⟩ := hp
    rw [hf i, hm]; omega
  cases rs.plan with
  | dyn p =>
    simp only
    by_cases h0 : (cntl == 0) = true
    · simp only [h0, if_true]
      rw [setBank_ok m 0 b0 (by omega)]
      simp only [bind, Except.bind]
      rw [setBank_ok _ 1 b1 (by simp; omega)]
      exact ⟨_, rfl, by intro m' h; cases h; simp [hm]⟩
    · simp only [h0, Bool.false_eq_true, if_false]
      by_cases h6 : (cntl == 6) = true
      · simp only [h6, if_true]
        obtain ⟨m', hm', hl⟩ := setBanks_ok m ((List.range 8).map (fun i => (i, 255))) (range8 _ (fun _ => rfl))
        simp only [hm', bind, Except.bind, pure, Except.pure]
        exact ⟨_, rfl, by intro m'' h; cases h; omega⟩
      · simp only [h6, Bool.false_eq_true, if_false, pure, Except.pure]
        exact ⟨none, rfl, by intro m' h; cases h⟩
  | fix p =>
    simp only
    by_cases h3 : cntl ≤ 3
    · simp only [h3, if_true]
      rw [setBank_ok m (cntl * 2) b0 (by omega)]
      simp only [bind, Except.bind]
      rw [setBank_ok _ (cntl * 2 + 1) b1 (by simp; omega)]
      exact ⟨_, rfl, by intro m' h; cases h; simp [hm]⟩
    · simp only [h3, if_false]
      by_cases h4 : (cntl == 4) = true
      · simp only [h4, if_true]
        rw [setBank_ok m 8 b0 (by omega)]
        simp only [bind, Except.bind, pure, Except.pure]
        exact ⟨_, rfl, by intro m' h; cases h; simp [hm]⟩
      · simp only [h4, Bool.false_eq_true, if_false]
        by_cases h5 : (cntl == 5) = true
        · simp only [h5, if_true]
          obtain ⟨m', hm', hl⟩ := setBanks_ok m ((List.range 8).map (fun i => (i, if b0.testBit i then 255 else 0))) (range8 _ (fun _ => rfl))
          simp only [hm', bind, Except.bind]
          rw [setBank_ok m' 8 b0 (by omega)]
          exact ⟨_, rfl, by intro m'' h; cases h; simp; omega⟩
        · simp only [h5, Bool.false_eq_true, if_false]
          by_cases h6 : (cntl == 6) = true
          · simp only [h6, if_true]
            obtain ⟨m', hm', hl⟩ := setBanks_ok m ((List.range 8).map (fun i => (i, 255))) (range8 _ (fun _ => rfl))
            simp only [hm', bind, Except.bind]
            rw [setBank_ok m' 8 b0 (by omega)]
            exact ⟨_, rfl, by intro m'' h; cases h; simp; omega⟩
          · simp only [h6, Bool.false_eq_true, if_false]
            by_cases h7 : (cntl == 7) = true
            · simp only [h7, if_true]
              obtain ⟨m', hm', hl⟩ := setBanks_ok m ((List.range 8).map (fun i => (i, 0))) (range8 _ (fun _ => rfl))
              simp only [hm', bind, Except.bind]
              rw [setBank_ok m' 8 b0 (by omega)]
              exact ⟨_, rfl, by intro m'' h; cases h; simp; omega⟩
            · simp only [h7, Bool.false_eq_true, if_false, pure, Except.pure]
              exact ⟨none, rfl, by intro m' h; cases h⟩

/-- on a 9-byte mask `is_enabled(i).unwrap()` is fine for every channel index below 72 -/
theorem isEnabled_ok (m : Mask) (i : Nat) (hm : m.length = 9) (hi : i < 72) : ∃ b, m.isEnabled i = .ok b := by
  unfold Mask.isEnabled
  have : ¬ i > m.length * 8 - 1 := by omega
  simp only [this, if_false]
  have hidx : i / 8 < m.length := by omega
  rw [List.getElem?_eq_getElem hidx]
  exact ⟨_, rfl⟩

/-! ## data rates -/

/-- the 16 data-rate codes: the conversion never reaches its `unreachable!()` arm (finite: `decide`);
for larger bytes the code masks with `& 0x0f` first (covered by the correspondence) -/
def isOk {α} (x : M α) : Bool := x.toOption.isSome

theorem isOk_iff {α} (x : M α) : isOk x = true ↔ ∃ a, x = .ok a := by
  cases x <;> simp [isOk, Except.toOption]

theorem drOfNat_ok : ∀ n ∈ List.range 16, isOk (drOfNat n) = true := by decide

theorem rx_datarate_ok : ∀ r ∈ RegionId.all, ∀ d ∈ DR.all, ∀ off ∈ List.range 8, ∀ w ∈ Window.all,
    isOk (rxDatarate r d off w) = true := by decide

/-- the regional TX power tables never panic for any 4-bit index -/
theorem txPowerAdjust_ok : ∀ r ∈ RegionId.all, ∀ p ∈ List.range 16, isOk (txPowerAdjust r p) = true := by decide

/-! ## the retry loops end by returning or by exhausting the draw budget, never by a panic -/

def NoPanic {α} (x : M α) : Prop := ∀ site, x ≠ .error (.panic site)

theorem dynJoinLoop_no_panic {σ} (g : Rng σ) (n fuel : Nat) (s : σ) : NoPanic (dynJoinLoop g n fuel s) := by
  induction fuel generalizing s with
  | zero => intro site h; simp [dynJoinLoop, hang] at h
  | succ fuel ih =>
    intro site h
    unfold dynJoinLoop at h
    simp only at h
    split at h
    · exact ih _ site h
    · simp [pure, Except.pure] at h

theorem fixedMaskLoop_no_panic {σ} (g : Rng σ) (mask : Mask) (bits base fuel : Nat) (s : σ)
    (hm : mask.length = 9) (hb : base + bits ≤ 72) (hbits : 0 < bits) : NoPanic (fixedMaskLoop g mask bits base fuel s) := by
  induction fuel generalizing s with
  | zero => intro site h; simp [fixedMaskLoop, hang] at h
  | succ fuel ih =>
    intro site h
    unfold fixedMaskLoop at h
    simp only at h
    have hlt : (draw g s).1 % bits + base < 72 := by
      have := Nat.mod_lt (draw g s).1 hbits; omega
    obtain ⟨b, hb'⟩ := isEnabled_ok mask _ hm hlt
    simp only [hb', bind, Except.bind] at h
    cases b
    · simp only [Bool.false_eq_true, if_false] at h
      exact ih _ site h
    · simp [pure, Except.pure] at h

/-- a dynamic plan as every reachable one: 16 slots, 9 mask bytes, default channels defined -/
def DynWF (r : RegionId) (p : DynPlan) : Prop :=
  p.channels.length = 16 ∧ p.mask.length = 9 ∧ ∀ i, i < numJoinChannels r → ∃ c, p.channels[i]? = some (some c)

theorem init_dynWF : ∀ r ∈ RegionId.all, r.isFixed = false → DynWF r (DynPlan.init r) := by
  intro r _ hf
  cases r <;> simp [RegionId.isFixed] at hf
  all_goals
    refine ⟨by decide, by decide, ?_⟩
    intro i hi
    simp only [numJoinChannels] at hi
    have : i = 0 ∨ i = 1 ∨ i = 2 := by omega
    rcases this with rfl | rfl | rfl
    · exact ⟨_, rfl⟩
    · exact ⟨_, rfl⟩
    · first | exact ⟨_, rfl⟩ | omega

theorem usable_ok (r : RegionId) (p : DynPlan) (h : DynWF r p) (i : Nat) (hi : i < 16) : ∃ u, p.usable i = .ok u := by
  obtain ⟨hc, hm, _⟩ := h
  unfold DynPlan.usable
  obtain ⟨b, hb⟩ := isEnabled_ok p.mask i hm (by omega)
  simp only [hb, bind, Except.bind]
  cases b
  · exact ⟨none, rfl⟩
  · simp only [if_true]
    rw [List.getElem?_eq_getElem (by omega)]
    exact ⟨_, rfl⟩

/-! ## the history-level invariant -/

/-- the initial state of every region is well-formed, whatever the radio's maximum power, for every
antenna gain that is an `i8` with `MAX_EIRP − gain ≤ 127` (`gainOk`) -/
theorem init_wf (r : RegionId) (maxPower : Nat) (gain : Int) (hg : gainOk r gain = true) :
    MacWF (MacState.init (RegionState.init r) maxPower gain) := by
  apply MacWF.mk
  · cases r <;> rfl
  · cases r <;> rfl
  · cases r <;> exact hg
  · rfl

theorem init_bias_wf (r : RegionId) (maxPower : Nat) (gain : Int) (sb retries : Nat) (hg : gainOk r gain = true)
    (hsb : 1 ≤ sb ∧ sb ≤ 8) :
    MacWF (MacState.init ((RegionState.init r).setJoinBias sb retries) maxPower gain) := by
  apply MacWF.mk
  · have hfix : ∀ r : RegionId, r.isFixed = true →
        regionWF (MacState.init ((RegionState.init r).setJoinBias sb retries) maxPower gain).region = true := by
      intro r hf
      have hp : (MacState.init ((RegionState.init r).setJoinBias sb retries) maxPower gain).region.plan =
          .fix { mask := Mask.default, jc := { preferredSubband := some sb, maxRetries := retries } } := by
        simp [MacState.init, RegionState.init, RegionState.setJoinBias, hf]
      refine (regionWF_fix hp).mpr ⟨?_, rfl, jcWF_iff.mpr ⟨rfl, ?_, avInv_fresh, biasFresh_iff.mpr (fun _ _ => ⟨rfl, rfl⟩)⟩⟩
      · simp [MacState.init, RegionState.init, RegionState.setJoinBias, hf]
      · intro sb' e; cases e; exact hsb
    cases r <;> first | rfl | exact hfix _ rfl
  · cases r <;> rfl
  · cases r <;> exact hg
  · rfl

/-- **every step from a well-formed state under a valid event ends in a well-formed state** -/
theorem step_wf {σ} (g : Rng σ) (m m' : MacState) (s s' : σ) (ev : Ev) (out : Out) (h : MacWF m) (hv : ValidEv m ev)
    (hs : step g (m, s) ev = .ok ((m', s'), out)) : MacWF m' :=
  ((step_safe g m s ev h hv).elim hs).1

/-- … with the board constants and the region unchanged -/
theorem step_keeps {σ} (g : Rng σ) (m m' : MacState) (s s' : σ) (ev : Ev) (out : Out) (h : MacWF m) (hv : ValidEv m ev)
    (hs : step g (m, s) ev = .ok ((m', s'), out)) :
    m'.region.id = m.region.id ∧ m'.antennaGain = m.antennaGain ∧ m'.maxPower = m.maxPower :=
  ((step_safe g m s ev h hv).elim hs).2

/-- **no step panics**: for every received view, every MAC command byte stream, every SNR, every
payload limit, every random generator and generator state -/
theorem step_no_panic {σ} (g : Rng σ) (m : MacState) (s : σ) (ev : Ev) (h : MacWF m) (hv : ValidEv m ev) :
    ∀ site, step g (m, s) ev ≠ .error (.panic site) :=
  (step_safe g m s ev h hv).no_panic

/-- an event that transmits nothing -/
def noTx : Ev → Bool
  | .joinAbp _ _ _ | .rxc _ _ _ | .setAdr _ | .setDr _ => true
  | _ => false

/-- **the receive side returns**: a Class C reception of ANY frame (and the configuration calls)
neither panics nor hangs — it yields a result and a well-formed state -/
theorem step_rx_returns {σ} (g : Rng σ) (m : MacState) (s : σ) (ev : Ev) (h : MacWF m) (hv : ValidEv m ev)
    (hn : noTx ev = true) : ∃ m' s' out, step g (m, s) ev = .ok ((m', s'), out) ∧ MacWF m' := by
  have hs := step_safe g m s ev h hv
  cases hst : step g (m, s) ev with
  | ok r =>
    obtain ⟨⟨m', s'⟩, out⟩ := r
    rw [hst] at hs
    exact ⟨m', s', out, rfl, hs.1⟩
  | error e =>
    exfalso
    cases ev with
    | joinOtaa fault rx1 rx2 mp1 mp2 => simp [noTx] at hn
    | uplink data fport conf fault rx1 rx2 mp1 mp2 => simp [noTx] at hn
    | joinAbp da nwk app => simp [step, pure, Except.pure] at hst
    | setAdr on => simp [step, pure, Except.pure] at hst
    | setDr dr => simp [step, pure, Except.pure] at hst
    | rxc v snr mp =>
      unfold step at hst
      simp only at hst
      obtain ⟨rf, hrf, _⟩ := macRxcConfig_tot m h
      obtain ⟨⟨o, m'⟩, hrx, _⟩ := macHandleRx_tot m v mp snr true h hv
      rw [hrf, hrx] at hst
      simp [bind, Except.bind, pure, Except.pure] at hst

/-- **no history panics.**  From the initial state of any region (any radio power, any admissible
antenna gain), for every random generator, every finite history of valid events — arbitrary
received frames, authentic frames carrying arbitrary MAC commands and JoinAccept fields, radio
faults at every position — runs without a panic, by induction over the history. -/
theorem run_no_panic {σ} (g : Rng σ) (r : RegionId) (maxPower : Nat) (gain : Int) (s : σ) (evs : List Ev)
    (hg : gainOk r gain = true) (hv : ∀ ev ∈ evs, validEv r ev = true) :
    ∀ site, run g (MacState.init (RegionState.init r) maxPower gain, s) evs ≠ .error (.panic site) :=
  (run_safe g _ s evs (init_wf r maxPower gain hg) (by cases r <;> exact hv)).no_panic

/-- the same with a join bias configured (`set_join_bias`, fixed-plan regions) -/
theorem run_bias_no_panic {σ} (g : Rng σ) (r : RegionId) (maxPower : Nat) (gain : Int) (sb retries : Nat) (s : σ)
    (evs : List Ev) (hg : gainOk r gain = true) (hsb : 1 ≤ sb ∧ sb ≤ 8) (hv : ∀ ev ∈ evs, validEv r ev = true) :
    ∀ site, run g (MacState.init ((RegionState.init r).setJoinBias sb retries) maxPower gain, s) evs ≠ .error (.panic site) :=
  (run_safe g _ s evs (init_bias_wf r maxPower gain sb retries hg hsb) (by cases r <;> exact hv)).no_panic

/-- every state a history reaches is well-formed (so the next call cannot panic either) -/
theorem run_wf {σ} (g : Rng σ) (r : RegionId) (maxPower : Nat) (gain : Int) (s s' : σ) (evs : List Ev) (m' : MacState)
    (outs : List Out) (hg : gainOk r gain = true) (hv : ∀ ev ∈ evs, validEv r ev = true)
    (hr : run g (MacState.init (RegionState.init r) maxPower gain, s) evs = .ok ((m', s'), outs)) : MacWF m' :=
  ((run_safe g _ s evs (init_wf r maxPower gain hg) (by cases r <;> exact hv)).elim hr).1

/-! ## the hang side: accept sets are never empty -/

/-- **in every state a history reaches, the next `send` and the next `join` can return**: there is
a draw value on which every retry loop they may enter accepts at once (the accept sets are not
empty) — for the channel-plan and join-walk state reached by ANY history of valid events from the
initial state of any region, whatever masks, channels, data rates and join attempts it went through.
Together with `run_no_panic`: a call can only fail to return by the random generator never offering
an accepted value. -/
theorem run_accept_nonempty {σ} (g : Rng σ) (r : RegionId) (maxPower : Nat) (gain : Int) (s s' : σ) (evs : List Ev)
    (m' : MacState) (outs : List Out) (hg : gainOk r gain = true) (hv : ∀ ev ∈ evs, validEv r ev = true)
    (hr : run g (MacState.init (RegionState.init r) maxPower gain, s) evs = .ok ((m', s'), outs)) :
    (∃ v, v < 64 ∧ ∀ {τ : Type} (t : τ), ∃ res, macJoinOtaa (constGen v) m' t = .ok res) ∧
    (∀ data fport conf, (fport = 0 → data = []) → data.length ≤ 222 →
      ∃ v, v < 64 ∧ ∀ {τ : Type} (t : τ), ∃ res, macSend (constGen v) m' data fport conf t = .ok res) := by
  have hwf := run_wf g r maxPower gain s s' evs m' outs hg hv hr
  exact ⟨macJoinOtaa_returns m' hwf, fun data fport conf h0 hl => macSend_returns m' data fport conf hwf h0 hl⟩

/-- the same for any well-formed state (e.g. with a join bias configured) -/
theorem accept_nonempty (m : MacState) (h : MacWF m) :
    (∃ v, v < 64 ∧ ∀ {τ : Type} (t : τ), ∃ res, macJoinOtaa (constGen v) m t = .ok res) ∧
    (∀ data fport conf, (fport = 0 → data = []) → data.length ≤ 222 →
      ∃ v, v < 64 ∧ ∀ {τ : Type} (t : τ), ∃ res, macSend (constGen v) m data fport conf t = .ok res) :=
  ⟨macJoinOtaa_returns m h, fun data fport conf h0 hl => macSend_returns m data fport conf h h0 hl⟩

/-! ## the device front-ends: no panic for every script (by refinement)

`Lemmas/RefineAsync.lean` proves that a session of the async front-end model (`asyncOps`: `send` /
`join` under ANY script of radio answers — any length, errors at any call, frames in any window and,
in Class C, heard between the windows —, ABP activation, the setters) is simulated by the extended
history `runC` of the events `abstractOp` reads off the scripts; `runC_safe` (the history invariant
`MacWF`, extended to the Class C event shapes with the same per-handler lemmas) then excludes every
panic of the MAC.  What remains are the front-end's own two arithmetic sites: the `u32` computation
`delay + tx_ms − lead` of the window timers, which depends on the board's timing constants only. -/

/-- a device that has not been used yet -/
def asyncStart (m : MacState) : DevRun := { m := m, script := [], calls := [], downlinks := [] }

/-- **no session of the async front-end panics in the MAC, whatever the radio answers**: from any
well-formed state, for both classes, every list of valid calls and every script, a panic of
`asyncOps` can only be the timer arithmetic `delay + tx_ms − lead` -/
theorem async_no_panic_from {σ} (g : Rng σ) (cfg : DevCfg) (d : DevRun) (rs : σ) (ops : List AsyncOp) (h : MacWF d.m)
    (hv : ∀ op ∈ ops, op.valid d.m.region.id = true) (site : String)
    (hp : asyncOps g cfg d rs ops = .error (.panic site)) :
    site = "rx start delay overflow" ∨ site = "rx start delay underflow" := by
  rcases (asyncOps_sim g cfg d rs ops).elim_error hp with hx | hx
  · exact hx
  · exfalso
    refine (runC_safe g d.m rs (ops.map (abstractOp cfg)) h ?_).no_panic site hx
    intro ev hev
    obtain ⟨op, hop, rfl⟩ := List.mem_map.mp hev
    exact abstractOp_valid cfg _ op (hv op hop)

/-- … in particular from the initial state of every region -/
theorem async_no_panic {σ} (g : Rng σ) (cfg : DevCfg) (r : RegionId) (maxPower : Nat) (gain : Int) (rs : σ)
    (ops : List AsyncOp) (hg : gainOk r gain = true) (hv : ∀ op ∈ ops, op.valid r = true) (site : String)
    (hp : asyncOps g cfg (asyncStart (MacState.init (RegionState.init r) maxPower gain)) rs ops = .error (.panic site)) :
    site = "rx start delay overflow" ∨ site = "rx start delay underflow" :=
  async_no_panic_from g cfg _ rs ops (init_wf r maxPower gain hg) (by cases r <;> exact hv) site hp

/-- the front-end's only remaining failure when the board's timing constants are sane: the model's
bound on the frames heard in one `between_windows` (a hang value, not a panic) -/
def OnlyHang : Fault → Prop
  | .hang s => s = "between_windows"
  | .panic _ => False

/-- **no session of the async front-end panics at all, whatever the radio answers**, when the board's
timing constants are sane (`TimingOk`: lead ≤ 1 s + time on air, 16 s + time on air fits a `u32`): from
any well-formed state whose RX1 delay is between 1 s and 15 s — an invariant of every step
(`stepC_delayOk`; the initial state has 1 s) — the `u32` arithmetic of the window timers cannot fail
either, because the delays it reads are the ones in force when the frame was built (`winC_none_cfg`). -/
theorem async_no_panic_timing_from {σ} (g : Rng σ) (cfg : DevCfg) (hT : TimingOk cfg) (d : DevRun) (rs : σ)
    (ops : List AsyncOp) (h : MacWF d.m) (hd : DelayOk d.m) (hv : ∀ op ∈ ops, op.valid d.m.region.id = true) (site : String) :
    asyncOps g cfg d rs ops ≠ .error (.panic site) := by
  intro hp
  have hsim := asyncOps_simX (X := OnlyHang) rfl g cfg DelayOk
    (fun m s ev ms' oc hI hs => stepC_delayOk g m s ev ms' oc hI hs)
    (fun m join second e hI he => by
      obtain ⟨h1, h2⟩ := macRxDelay_range m hI join second
      exact (startDelay_timingOk cfg hT _ h1 h2 e he).elim)
    d rs ops hd
  rcases hsim.elim_error hp with hx | hx
  · exact hx
  · refine (runC_safe g d.m rs (ops.map (abstractOp cfg)) h ?_).no_panic site hx
    intro ev hev
    obtain ⟨op, hop, rfl⟩ := List.mem_map.mp hev
    exact abstractOp_valid cfg _ op (hv op hop)

/-- … in particular from the initial state of every region -/
theorem async_no_panic_timing {σ} (g : Rng σ) (cfg : DevCfg) (hT : TimingOk cfg) (r : RegionId) (maxPower : Nat) (gain : Int)
    (rs : σ) (ops : List AsyncOp) (hg : gainOk r gain = true) (hv : ∀ op ∈ ops, op.valid r = true) (site : String) :
    asyncOps g cfg (asyncStart (MacState.init (RegionState.init r) maxPower gain)) rs ops ≠ .error (.panic site) :=
  async_no_panic_timing_from g cfg hT _ rs ops (init_wf r maxPower gain hg) (init_delayOk _ _ _) (by cases r <;> exact hv) site

/-- every state a session reaches is well-formed again (so the next call cannot panic either) -/
theorem async_wf {σ} (g : Rng σ) (cfg : DevCfg) (d d' : DevRun) (rs rs' : σ) (ops : List AsyncOp) (obs : List OpObs)
    (h : MacWF d.m) (hv : ∀ op ∈ ops, op.valid d.m.region.id = true)
    (hr : asyncOps g cfg d rs ops = .ok (obs, d', rs')) : MacWF d'.m := by
  obtain ⟨⟨ms', ocs⟩, hrun, hrel⟩ := (asyncOps_sim g cfg d rs ops).elim_ok hr
  have hk := (runC_safe g d.m rs (ops.map (abstractOp cfg)) h (by
    intro ev hev
    obtain ⟨op, hop, rfl⟩ := List.mem_map.mp hev
    exact abstractOp_valid cfg _ op (hv op hop))).elim hrun
  have := hrel.m
  simp only at this
  rw [this]; exact hk.1

/-- **no event sequence of the non-blocking front-end panics in the MAC.**  From `Idle` in any
well-formed MAC state, for every sequence of application / radio / timer events (valid `send` payloads,
well-formed decoded views) with ANY radio answers: a panic of `nbRun` can only be one of the state
machine's own — the `i32` / `u32` arithmetic on the radio's timestamps and the window times, or the
`panic!` of `SendingData` on a radio that answers a pending transmission with anything but `TxDone`.
Every MAC call the state machine makes is the prefix of a `History.step` (`nbStep_fault`), which
cannot panic (`step_safe`). -/
theorem nb_no_panic {σ} (g : Rng σ) (cfg : NbCfg) (r : NbRun) (rs : σ) (evs : List (NbEvent × List NbItem))
    (hidle : r.st = .idle) (h : MacWF r.m) (hv : ∀ x ∈ evs, x.1.valid = true) (site : String)
    (hp : nbRun g cfg r rs evs = .error (.panic site)) :
    site = "t1 i32 overflow" ∨ site = "u32 add overflow" ∨ site = "u32 sub underflow" ∨
      site = "SendingData: Unexpected radio response" :=
  nbRun_fault g cfg (r.m, rs) none r rs evs site (nbInv_idle g r rs hidle) h rfl hv hp

/-! non-vacuity -/
example : ∃ r, channelMaskUpdate (RegionState.init .US915) Mask.default 4 0xAB 0xFF = .ok r := channelMaskUpdate_ok _ _ _ _ _ (by decide) |>.imp (fun _ h => h.1)
example : (channelMaskUpdate (RegionState.init .EU868) Mask.default 4 1 2).toOption = some none := by decide

/-- the hypotheses are satisfiable: initial states, admissible gains, a concrete history -/
example : MacWF (MacState.init (RegionState.init .EU868) 14 2) := by decide
example : MacWF (MacState.init (RegionState.init .US915) 30 (-3)) := by decide
example : MacWF (MacState.init ((RegionState.init .AU915).setJoinBias 2 3) 22 0) := by decide
example : gainOk .IN865 (-97) = true ∧ gainOk .IN865 (-98) = false := by decide

def lcg : Rng Nat := fun x => ((x * 1103515245 + 12345) / 65536, x * 1103515245 + 12345)

/-- LinkADRReq (ChMaskCntl 6, DR 5, TXPower 1), NewChannelReq, DevStatusReq in FOpts of a confirmed downlink -/
def demoDownlink : RxView :=
  .data { len := 30, confirmed := true, fcnt16 := 7, micFcnt := some 7,
          fopts := [0x03, 0x51, 0xFF, 0x00, 0x60, 0x07, 0x04, 0x18, 0x4F, 0x84, 0x50, 0x06], fport := some 1, payload := [1, 2, 3] }

def demoHistory : List Ev :=
  [ .joinOtaa none (some (.joinAccept { micOk := true, devAddr := 1, dlSettings := 0x2F, rxDelay := 0, nwkKey := 3, appKey := 4, cfList := some (.dynamicChannel [867100000, 867300000, 0, 1, 867900000]) }, 5)) none 250 250,
    .uplink [1, 2, 3] 1 true none (some (demoDownlink, -3)) none 250 250,
    .rxc .garbage 0 250,
    .uplink [] 0 false (some 1) (some (.garbage, 0)) none 250 250,
    .setDr 3, .setAdr false,
    .uplink [9] 2 false none none none 250 250 ]

example : ∀ ev ∈ demoHistory, validEv .EU868 ev = true := by decide +kernel
example : (run lcg (MacState.init (RegionState.init .EU868) 14 2, 1) demoHistory).toOption.map (fun r => r.2.length) = some 7 := by decide +kernel

/-- a Class C session on the async front-end: OTAA join (JoinAccept in RX1), a confirmed uplink during
which a Class C downlink is heard between TX and RX1 and the RX1 frame carries MAC commands, an uplink
whose RX2 set-up fails, an uplink with garbage in both windows -/
def demoOps : List AsyncOp :=
  [ .join [.ok, .ok, .ok, .ok, .frame 5 (.joinAccept { micOk := true, devAddr := 1, dlSettings := 0x2F, rxDelay := 0, nwkKey := 3, appKey := 4, cfList := some (.dynamicChannel [867100000, 867300000, 0, 1, 867900000]) })],
    .send [1, 2, 3] 1 true [.ok, .ok, .frame 2 (.data { len := 14, confirmed := false, fcnt16 := 1, micFcnt := some 1, fopts := [], fport := some 9, payload := [7] }), .ok, .ok, .frame (-3) demoDownlink],
    .send [] 0 false [.ok, .ok, .ok, .ok, .ok, .ok, .ok, .ok, .err],
    .setDr 3,
    .send [9] 2 false [.ok, .ok, .ok, .ok, .frame 0 .garbage, .ok, .ok, .ok, .ok, .frame 0 .garbage] ]

def demoCfg : DevCfg := { lead := 15, buffer := 40, classC := true, txMs := 57 }

example : ∀ op ∈ demoOps, op.valid .EU868 = true := by decide +kernel
example : TimingOk demoCfg := by unfold TimingOk demoCfg; decide
example : (asyncOps lcg demoCfg (asyncStart (MacState.init (RegionState.init .EU868) 14 2)) 1 demoOps).toOption.map
    (fun r => (r.1.map (fun ob => ob.res), r.2.1.downlinks)) =
    some ([some (.ok .joinSuccess), some (.ok (.downlinkReceived 7)), some .errRadio, none, some (.ok .rxComplete)],
      [(1, [1, 2, 3]), (9, [7])]) := by decide +kernel

/-- the same exchange pattern on the non-blocking front-end (started from an ABP session): `TxDone`
through a radio event, a stray frame and an accepted one in RX1; then a send refused while busy,
an exchange running into the RX2 timeout with a radio error on the way -/
def demoNb : List (NbEvent × List NbItem) :=
  [ (.send [1] 1 true, []), (.send [2] 1 false, []), (.radio (.txDone 100), []), (.timeout, []),
    (.radio (.rx 0 .garbage), []), (.radio (.rx (-3) demoDownlink), []),
    (.send [2] 1 false, [.txDoneNow 5000]), (.join, []), (.timeout, [.err]), (.timeout, []), (.timeout, []), (.timeout, []),
    (.timeout, []) ]

def demoNbStart : NbRun :=
  { m := macJoinAbp (MacState.init (RegionState.init .EU868) 14 2) 7 1 2, st := .idle, script := [], calls := [], downlinks := [] }

example : MacWF demoNbStart.m := by decide +kernel
example : ∀ x ∈ demoNb, x.1.valid = true := by decide +kernel
example : (nbRun lcg { offset := -20, duration := 200 } demoNbStart 1 demoNb).toOption.map (fun r => (r.1, r.2.1.st)) =
    some ([.uplinkSending 0, .errState "TxRequestDuringTx", .timeoutRequest 1080, .timeoutRequest 1280, .mac .noUpdate,
        .mac (.downlinkReceived 7), .timeoutRequest 5980, .errState "NewSessionWhileWaitingForRxWindow", .errRadio,
        .timeoutRequest 6180, .timeoutRequest 6980, .timeoutRequest 7180, .mac .rxComplete], .idle) := by decide +kernel

end C04

#print axioms C04.init_wf
#print axioms C04.init_bias_wf
#print axioms C04.step_wf
#print axioms C04.step_keeps
#print axioms C04.step_no_panic
#print axioms C04.step_rx_returns
#print axioms C04.run_no_panic
#print axioms C04.run_bias_no_panic
#print axioms C04.run_wf
#print axioms C04.run_accept_nonempty
#print axioms C04.accept_nonempty
#print axioms C04.channelMaskUpdate_ok
#print axioms C04.isEnabled_ok
#print axioms C04.drOfNat_ok
#print axioms C04.rx_datarate_ok
#print axioms C04.txPowerAdjust_ok
#print axioms C04.dynJoinLoop_no_panic
#print axioms C04.fixedMaskLoop_no_panic
#print axioms C04.init_dynWF
#print axioms C04.usable_ok
#print axioms C04.async_no_panic_from
#print axioms C04.async_no_panic
#print axioms C04.async_wf
#print axioms C04.async_no_panic_timing_from
#print axioms C04.async_no_panic_timing
#print axioms C04.nb_no_panic

/-! ## `Device::rxc_listen` (builder Q)

`asyncListen` (`Model/Device.lean`) is the loop of `async_device::Device::rxc_listen` over a script of
radio answers: `rx_continuous`, `handle_rxc` under the size limit computed before the loop, `NoUpdate`
goes on listening, the response is converted with `ListenResponse::from` (`panic!` on anything but
`DownlinkReceived` / `SessionExpired`).  `Lemmas/RefineListen.lean`: the call refines the histories (a list of
`Ev.rxc`), and sessions may contain listen calls (`AsyncCall`, `asyncCalls_runC`). -/
namespace C04

/-- **`rxc_listen` never panics and never hangs.**  From any well-formed MAC state, for EVERY finite
script of radio answers (frames with any decoded view, errors, nothing heard): the call returns — no
panic of the MAC, the conversion `ListenResponse::from` is never reached with a response it panics on
(a `.ok` answer is `SessionExpired` or `DownlinkReceived`), and the loop ends (`hang "rxc_listen"` is
unreachable: every turn consumes an answer of the radio) — and leaves a well-formed state. -/
theorem async_listen_no_panic (r : DevRun) (h : MacWF r.m) (hv : scriptWF r.script = true) :
    ∃ res r', asyncListen r = .ok (res, r') ∧ MacWF r'.m ∧ r'.m.region.id = r.m.region.id ∧
      ∀ resp, res = .ok resp → resp = .sessionExpired ∨ ∃ n, resp = .downlinkReceived n := by
  obtain ⟨⟨res, r'⟩, he, hk⟩ := asyncListen_tot r h hv
  refine ⟨res, r', he, hk.1, hk.2.1, ?_⟩
  obtain ⟨outs, _, hrel⟩ := asyncListen_refines (σ := Unit) (fun s => (0, s)) () r res r' he
  intro resp hres
  subst hres
  have hf := hrel.fcnt
  unfold ListenFcnt at hf
  cases resp with
  | downlinkReceived n => exact Or.inr ⟨n, rfl⟩
  | sessionExpired => exact Or.inl rfl
  | noAck => exact absurd hf.1 (by simp)
  | noJoinAccept => exact absurd hf.1 (by simp)
  | joinSuccess => exact absurd hf.1 (by simp)
  | noUpdate => exact absurd hf.1 (by simp)
  | rxComplete => exact absurd hf.1 (by simp)

theorem asyncOps_single {σ} (g : Rng σ) (cfg : DevCfg) (d : DevRun) (rs : σ) (o : AsyncOp) :
    asyncOps g cfg d rs [o] = (asyncOp g cfg d rs o >>= fun x => pure ([x.1], x.2.1, x.2.2)) := by
  simp only [asyncOps]
  cases asyncOp g cfg d rs o with
  | error e => rfl
  | ok x => rfl

/-- one call from a well-formed state: it can only fail with the front-end's own timer arithmetic or the
history's own failures that are no panics; if it returns the state is well-formed again, same region -/
theorem asyncCall_keeps {σ} (g : Rng σ) (cfg : DevCfg) (d : DevRun) (rs : σ) (c : AsyncCall) (h : MacWF d.m)
    (hv : c.valid d.m.region.id = true) (ob : CallObs) (d' : DevRun) (rs' : σ)
    (hr : asyncCall g cfg d rs c = .ok (ob, d', rs')) : Keeps d.m d'.m := by
  obtain ⟨ocs, hrun, _⟩ := asyncCall_runC g cfg d rs c ob d' rs' hr
  cases c with
  | op o =>
    exact (runC_safe g d.m rs [abstractOp cfg o] h (by
      intro ev hev
      simp only [List.mem_singleton] at hev
      subst hev
      exact abstractOp_valid cfg _ o hv)).elim hrun
  | listen script =>
    simp only [asyncCall] at hr
    obtain ⟨⟨res, d1⟩, hl, hk⟩ := Except.bind_eq_ok hr
    simp only [pure, Except.pure, Except.ok.injEq, Prod.mk.injEq] at hk
    obtain ⟨rfl, rfl, rfl⟩ := hk
    exact (asyncListen_tot { d with script := script } h hv).elim hl

/-- **no session of the async front-end — sends, joins, setters and `rxc_listen` calls in any order —
panics in the MAC, whatever the radio answers**: from any well-formed state, both classes, every list
of valid calls, every script: a panic of `asyncCalls` can only be the timer arithmetic
`delay + tx_ms − lead` of a `send` / `join` (`async_no_panic_from` extended to sessions with listens). -/
theorem asyncCalls_no_panic_from {σ} (g : Rng σ) (cfg : DevCfg) (d : DevRun) (rs : σ) (calls : List AsyncCall)
    (h : MacWF d.m) (hv : ∀ c ∈ calls, c.valid d.m.region.id = true) (site : String)
    (hp : asyncCalls g cfg d rs calls = .error (.panic site)) :
    site = "rx start delay overflow" ∨ site = "rx start delay underflow" := by
  induction calls generalizing d rs with
  | nil => cases hp
  | cons c rest ih =>
    unfold asyncCalls at hp
    cases hc : asyncCall g cfg d rs c with
    | error e =>
      rw [hc] at hp
      simp only [bind, Except.bind, Except.error.injEq] at hp
      subst hp
      cases c with
      | op o =>
        refine async_no_panic_from g cfg d rs [o] h (by
          intro op hop
          simp only [List.mem_singleton] at hop
          subst hop
          exact hv _ List.mem_cons_self) site ?_
        rw [asyncOps_single]
        simp only [asyncCall] at hc
        cases ho : asyncOp g cfg d rs o with
        | error e' =>
          rw [ho] at hc
          simp only [bind, Except.bind, Except.error.injEq] at hc
          subst hc
          rfl
        | ok x =>
          rw [ho] at hc
          cases hc
      | listen script =>
        exfalso
        obtain ⟨x, hx, _⟩ := asyncListen_tot { d with script := script } h (hv _ List.mem_cons_self)
        simp only [asyncCall, hx, bind, Except.bind, pure, Except.pure] at hc
        cases hc
    | ok x =>
      obtain ⟨ob, d1, rs1⟩ := x
      rw [hc] at hp
      simp only [bind, Except.bind] at hp
      have hk := asyncCall_keeps g cfg d rs c h (hv _ List.mem_cons_self) ob d1 rs1 hc
      cases hr : asyncCalls g cfg d1 rs1 rest with
      | error e =>
        rw [hr] at hp
        simp only [Except.error.injEq] at hp
        subst hp
        exact ih d1 rs1 hk.1 (fun c' hc' => by rw [hk.2.1]; exact hv c' (List.mem_cons_of_mem _ hc')) hr
      | ok y =>
        rw [hr] at hp
        cases hp

/-- … in particular from the initial state of every region -/
theorem asyncCalls_no_panic {σ} (g : Rng σ) (cfg : DevCfg) (r : RegionId) (maxPower : Nat) (gain : Int) (rs : σ)
    (calls : List AsyncCall) (hg : gainOk r gain = true) (hv : ∀ c ∈ calls, c.valid r = true) (site : String)
    (hp : asyncCalls g cfg (asyncStart (MacState.init (RegionState.init r) maxPower gain)) rs calls = .error (.panic site)) :
    site = "rx start delay overflow" ∨ site = "rx start delay underflow" :=
  asyncCalls_no_panic_from g cfg _ rs calls (init_wf r maxPower gain hg) (by cases r <;> exact hv) site hp

/-- every state a session with listen calls reaches is well-formed again -/
theorem asyncCalls_wf {σ} (g : Rng σ) (cfg : DevCfg) (d d' : DevRun) (rs rs' : σ) (calls : List AsyncCall) (obs : List CallObs)
    (h : MacWF d.m) (hv : ∀ c ∈ calls, c.valid d.m.region.id = true)
    (hr : asyncCalls g cfg d rs calls = .ok (obs, d', rs')) : MacWF d'.m := by
  induction calls generalizing d rs obs with
  | nil =>
    simp only [asyncCalls, pure, Except.pure, Except.ok.injEq, Prod.mk.injEq] at hr
    obtain ⟨_, rfl, _⟩ := hr
    exact h
  | cons c rest ih =>
    unfold asyncCalls at hr
    obtain ⟨⟨ob, d1, rs1⟩, hc, hk⟩ := Except.bind_eq_ok hr
    obtain ⟨⟨obs1, d2, rs2⟩, hrest, hk2⟩ := Except.bind_eq_ok hk
    simp only [pure, Except.pure, Except.ok.injEq, Prod.mk.injEq] at hk2
    obtain ⟨_, rfl, rfl⟩ := hk2
    have hkp := asyncCall_keeps g cfg d rs c h (hv _ List.mem_cons_self) ob d1 rs1 hc
    exact ih d1 rs1 obs1 hkp.1 (fun c' hc' => by rw [hkp.2.1]; exact hv c' (List.mem_cons_of_mem _ hc')) hrest

theorem runC_delayOk {σ} (g : Rng σ) (ms ms' : MacState × σ) (evs : List EvC) (ocs : List OutC) (hd : DelayOk ms.1)
    (h : runC g ms evs = .ok (ms', ocs)) : DelayOk ms'.1 := by
  induction evs generalizing ms ocs with
  | nil =>
    simp only [runC, pure, Except.pure, Except.ok.injEq, Prod.mk.injEq] at h
    obtain ⟨rfl, _⟩ := h
    exact hd
  | cons ev rest ih =>
    unfold runC at h
    obtain ⟨⟨ms1, oc⟩, hstep, hk⟩ := Except.bind_eq_ok h
    obtain ⟨⟨ms2, ocs2⟩, hrun, hk2⟩ := Except.bind_eq_ok hk
    simp only [pure, Except.pure, Except.ok.injEq, Prod.mk.injEq] at hk2
    obtain ⟨rfl, _⟩ := hk2
    obtain ⟨m, s⟩ := ms
    exact ih ms1 ocs2 (stepC_delayOk g m s ev ms1 oc hd hstep) hrun

/-- **no session with listen calls panics at all** when the board's timing constants are sane
(`async_no_panic_timing_from` extended: `rxc_listen` has no timer arithmetic, and the events of a listen
call keep the RX1 delay in range like every other event) -/
theorem asyncCalls_no_panic_timing_from {σ} (g : Rng σ) (cfg : DevCfg) (hT : TimingOk cfg) (d : DevRun) (rs : σ)
    (calls : List AsyncCall) (h : MacWF d.m) (hd : DelayOk d.m) (hv : ∀ c ∈ calls, c.valid d.m.region.id = true)
    (site : String) : asyncCalls g cfg d rs calls ≠ .error (.panic site) := by
  induction calls generalizing d rs with
  | nil => intro hp; cases hp
  | cons c rest ih =>
    intro hp
    unfold asyncCalls at hp
    cases hc : asyncCall g cfg d rs c with
    | error e =>
      rw [hc] at hp
      simp only [bind, Except.bind, Except.error.injEq] at hp
      subst hp
      cases c with
      | op o =>
        refine async_no_panic_timing_from g cfg hT d rs [o] h hd (by
          intro op hop
          simp only [List.mem_singleton] at hop
          subst hop
          exact hv _ List.mem_cons_self) site ?_
        rw [asyncOps_single]
        simp only [asyncCall] at hc
        cases ho : asyncOp g cfg d rs o with
        | error e' =>
          rw [ho] at hc
          simp only [bind, Except.bind, Except.error.injEq] at hc
          subst hc
          rfl
        | ok x =>
          rw [ho] at hc
          cases hc
      | listen script =>
        obtain ⟨x, hx, _⟩ := asyncListen_tot { d with script := script } h (hv _ List.mem_cons_self)
        simp only [asyncCall, hx, bind, Except.bind, pure, Except.pure] at hc
        cases hc
    | ok x =>
      obtain ⟨ob, d1, rs1⟩ := x
      rw [hc] at hp
      simp only [bind, Except.bind] at hp
      have hk := asyncCall_keeps g cfg d rs c h (hv _ List.mem_cons_self) ob d1 rs1 hc
      obtain ⟨ocs, hrun, _⟩ := asyncCall_runC g cfg d rs c ob d1 rs1 hc
      have hd1 : DelayOk d1.m := runC_delayOk g (d.m, rs) (d1.m, rs1) _ ocs hd hrun
      cases hr : asyncCalls g cfg d1 rs1 rest with
      | error e =>
        rw [hr] at hp
        simp only [Except.error.injEq] at hp
        subst hp
        exact ih d1 rs1 hk.1 hd1 (fun c' hc' => by rw [hk.2.1]; exact hv c' (List.mem_cons_of_mem _ hc')) hr
      | ok y =>
        rw [hr] at hp
        cases hp

/-- … in particular from the initial state of every region -/
theorem asyncCalls_no_panic_timing {σ} (g : Rng σ) (cfg : DevCfg) (hT : TimingOk cfg) (r : RegionId) (maxPower : Nat) (gain : Int)
    (rs : σ) (calls : List AsyncCall) (hg : gainOk r gain = true) (hv : ∀ c ∈ calls, c.valid r = true) (site : String) :
    asyncCalls g cfg (asyncStart (MacState.init (RegionState.init r) maxPower gain)) rs calls ≠ .error (.panic site) :=
  asyncCalls_no_panic_timing_from g cfg hT _ rs calls (init_wf r maxPower gain hg) (init_delayOk _ _ _) (by cases r <;> exact hv) site

/-! non-vacuity: a Class C session — ABP, an uplink, then `rxc_listen` hearing a forged frame, a replay-free
authentic downlink (acted upon: the call returns) and a frame it never gets to -/

def listenFrame (w : Nat) (N : Option Nat) : ScriptItem :=
  .frame 2 (.data { len := 14, confirmed := false, fcnt16 := w, micFcnt := N, fopts := [], fport := some 3, payload := [7] })

def demoCalls : List AsyncCall :=
  [ .op (.abp 7 1 2),
    .op (.send [1] 1 false []),
    .listen [listenFrame 5 none, listenFrame 6 (some 6), listenFrame 7 (some 7)],
    .listen [listenFrame 6 (some 6), .err],
    .listen [] ]

example : ∀ c ∈ demoCalls, c.valid .EU868 = true := by decide +kernel
example : MacWF (asyncStart (MacState.init (RegionState.init .EU868) 14 2)).m := by decide +kernel
example : (asyncCalls lcg demoCfg (asyncStart (MacState.init (RegionState.init .EU868) 14 2)) 1 demoCalls).toOption.map
    (fun r => (r.1.map (fun o => match o with | .listen res => some res | _ => none), r.2.1.m.fcntUp?, r.2.1.downlinks)) =
    some ([none, none, some (.ok (.downlinkReceived 6)), some .errRadio, some .listening], some 2, [(3, [7])]) := by
  decide +kernel

end C04

#print axioms C04.async_listen_no_panic
#print axioms C04.asyncCalls_no_panic_from
#print axioms C04.asyncCalls_no_panic
#print axioms C04.asyncCalls_wf
#print axioms C04.asyncCalls_no_panic_timing_from
#print axioms C04.asyncCalls_no_panic_timing
