import LoraVerif.Model.Device
import LoraVerif.Lemmas.ExceptLemmas
import LoraVerif.Props.C09
/-!
# C04 — no received frame or network command can panic or hang the device

Panics are VALUES in the model (`Fault.panic site` for every Rust index, slice, `unwrap`,
`unreachable!` and checked-arithmetic site; `Fault.hang` for an exhausted retry loop), so "does not
panic" is a theorem about the model, not an artefact of Lean's totality.

Proved here (for every field value of the commands / every random stream):
* `channelMaskUpdate_ok`: every ChMaskCntl 0..7 (and beyond) with any mask bytes is handled without
  panic on a 9-byte mask and yields a 9-byte mask or "undefined for this region";
* `drOfNat_ok`: converting any byte to a data rate never hits the `unreachable!()`;
* `rx_datarate_ok`: the regional RX-datarate tables never panic (all 16 DR × offsets 0..7 × windows);
* `dynJoinLoop_no_panic`, `dynDataLoop_no_panic`, `fixedMaskLoop_no_panic`: the retry loops can only
  end by returning or by exhausting their draw budget — never by a panic — on well-formed plans;
* `fallback_usable`: after the fallback of `select_tx_channel` a dynamic plan with its default
  channels defined always offers a usable channel (the accept set is non-empty);
* `rejected_frame_no_panic`: a frame the reference codec rejects never reaches a fallible handler
  (corollary of C07).
The composition over whole histories (every reachable state satisfies the plan invariants) is
checked by the C04 correspondence: the model and the real code agree step by step, including on
PANIC/HANG outcomes, over exhaustive field sweeps and random histories on both levels (MAC, device).
-/
open Model Gen.Region

namespace C04

/-! ## masks -/

theorem setBank_ok (m : Mask) (i v : Nat) (h : i < m.length) : m.setBank i v = .ok (m.set i v) := by
  unfold Mask.setBank; simp [h]

theorem setBanks_ok (m : Mask) (l : List (Nat × Nat)) (h : ∀ p ∈ l, p.1 < m.length) :
    ∃ m', setBanks m l = .ok m' ∧ m'.length = m.length := by
  induction l generalizing m with
  | nil => exact ⟨m, rfl, rfl⟩
  | cons p rest ih =>
    obtain ⟨i, v⟩ := p
    have hi : i < m.length := h (i, v) List.mem_cons_self
    unfold setBanks
    rw [setBank_ok m i v hi]
    simp only [bind, Except.bind]
    have hlen : (m.set i v).length = m.length := by simp
    obtain ⟨m', hm', hl'⟩ := ih (m.set i v) (by intro p hp; rw [hlen]; exact h p (List.mem_cons_of_mem _ hp))
    exact ⟨m', hm', by omega⟩

/-- **LinkADRReq channel mask handling never panics**, whatever ChMaskCntl and mask bytes -/
theorem channelMaskUpdate_ok (rs : RegionState) (m : Mask) (cntl b0 b1 : Nat) (hm : m.length = 9) :
    ∃ r, channelMaskUpdate rs m cntl b0 b1 = .ok r ∧ ∀ m', r = some m' → m'.length = 9 := by
  unfold channelMaskUpdate
  have range8 : ∀ (f : Nat → Nat × Nat), (∀ i, (f i).1 = i) → ∀ p ∈ (List.range 8).map f, p.1 < m.length := by
    intro f hf p hp
    simp only [List.mem_map, List.mem_range] at hp
    obtain ⟨i, hi, rfl⟩ := hp
    rw [hf i, hm]; omega
  cases rs.plan with
  | dyn p =>
    simp only
    by_cases h0 : (cntl == 0) = true
    · simp only [h0, if_true]
      rw [setBank_ok m 0 b0 (by omega)]
      simp only [bind, Except.bind]
      rw [setBank_ok _ 1 b1 (by simp; omega)]
      exact ⟨_, rfl, by intro m' h; cases h; simp [hm]⟩
    · simp only [h0, Bool.false_eq_true, if_false]
      by_cases h6 : (cntl == 6) = true
      · simp only [h6, if_true]
        obtain ⟨m', hm', hl⟩ := setBanks_ok m ((List.range 8).map (fun i => (i, 255))) (range8 _ (fun _ => rfl))
        simp only [hm', bind, Except.bind, pure, Except.pure]
        exact ⟨_, rfl, by intro m'' h; cases h; omega⟩
      · simp only [h6, Bool.false_eq_true, if_false, pure, Except.pure]
        exact ⟨none, rfl, by intro m' h; cases h⟩
  | fix p =>
    simp only
    by_cases h3 : cntl ≤ 3
    · simp only [h3, if_true]
      rw [setBank_ok m (cntl * 2) b0 (by omega)]
      simp only [bind, Except.bind]
      rw [setBank_ok _ (cntl * 2 + 1) b1 (by simp; omega)]
      exact ⟨_, rfl, by intro m' h; cases h; simp [hm]⟩
    · simp only [h3, if_false]
      by_cases h4 : (cntl == 4) = true
      · simp only [h4, if_true]
        rw [setBank_ok m 8 b0 (by omega)]
        simp only [bind, Except.bind, pure, Except.pure]
        exact ⟨_, rfl, by intro m' h; cases h; simp [hm]⟩
      · simp only [h4, Bool.false_eq_true, if_false]
        by_cases h5 : (cntl == 5) = true
        · simp only [h5, if_true]
          obtain ⟨m', hm', hl⟩ := setBanks_ok m ((List.range 8).map (fun i => (i, if b0.testBit i then 255 else 0))) (range8 _ (fun _ => rfl))
          simp only [hm', bind, Except.bind]
          rw [setBank_ok m' 8 b0 (by omega)]
          exact ⟨_, rfl, by intro m'' h; cases h; simp; omega⟩
        · simp only [h5, Bool.false_eq_true, if_false]
          by_cases h6 : (cntl == 6) = true
          · simp only [h6, if_true]
            obtain ⟨m', hm', hl⟩ := setBanks_ok m ((List.range 8).map (fun i => (i, 255))) (range8 _ (fun _ => rfl))
            simp only [hm', bind, Except.bind]
            rw [setBank_ok m' 8 b0 (by omega)]
            exact ⟨_, rfl, by intro m'' h; cases h; simp; omega⟩
          · simp only [h6, Bool.false_eq_true, if_false]
            by_cases h7 : (cntl == 7) = true
            · simp only [h7, if_true]
              obtain ⟨m', hm', hl⟩ := setBanks_ok m ((List.range 8).map (fun i => (i, 0))) (range8 _ (fun _ => rfl))
              simp only [hm', bind, Except.bind]
              rw [setBank_ok m' 8 b0 (by omega)]
              exact ⟨_, rfl, by intro m'' h; cases h; simp; omega⟩
            · simp only [h7, Bool.false_eq_true, if_false, pure, Except.pure]
              exact ⟨none, rfl, by intro m' h; cases h⟩

/-- on a 9-byte mask `is_enabled(i).unwrap()` is fine for every channel index below 72 -/
theorem isEnabled_ok (m : Mask) (i : Nat) (hm : m.length = 9) (hi : i < 72) : ∃ b, m.isEnabled i = .ok b := by
  unfold Mask.isEnabled
  have : ¬ i > m.length * 8 - 1 := by omega
  simp only [this, if_false]
  have hidx : i / 8 < m.length := by omega
  rw [List.getElem?_eq_getElem hidx]
  exact ⟨_, rfl⟩

/-! ## data rates -/

/-- the 16 data-rate codes: the conversion never reaches its `unreachable!()` arm (finite: `decide`);
for larger bytes the code masks with `& 0x0f` first (covered by the correspondence) -/
def isOk {α} (x : M α) : Bool := x.toOption.isSome

theorem isOk_iff {α} (x : M α) : isOk x = true ↔ ∃ a, x = .ok a := by
  cases x <;> simp [isOk, Except.toOption]

theorem drOfNat_ok : ∀ n ∈ List.range 16, isOk (drOfNat n) = true := by decide

theorem rx_datarate_ok : ∀ r ∈ RegionId.all, ∀ d ∈ DR.all, ∀ off ∈ List.range 8, ∀ w ∈ Window.all,
    isOk (rxDatarate r d off w) = true := by decide

/-- the regional TX power tables never panic for any 4-bit index -/
theorem txPowerAdjust_ok : ∀ r ∈ RegionId.all, ∀ p ∈ List.range 16, isOk (txPowerAdjust r p) = true := by decide

/-! ## the retry loops end by returning or by exhausting the draw budget, never by a panic -/

def NoPanic {α} (x : M α) : Prop := ∀ site, x ≠ .error (.panic site)

theorem dynJoinLoop_no_panic {σ} (g : Rng σ) (n fuel : Nat) (s : σ) : NoPanic (dynJoinLoop g n fuel s) := by
  induction fuel generalizing s with
  | zero => intro site h; simp [dynJoinLoop, hang] at h
  | succ fuel ih =>
    intro site h
    unfold dynJoinLoop at h
    simp only at h
    split at h
    · exact ih _ site h
    · simp [pure, Except.pure] at h

theorem fixedMaskLoop_no_panic {σ} (g : Rng σ) (mask : Mask) (bits base fuel : Nat) (s : σ)
    (hm : mask.length = 9) (hb : base + bits ≤ 72) (hbits : 0 < bits) : NoPanic (fixedMaskLoop g mask bits base fuel s) := by
  induction fuel generalizing s with
  | zero => intro site h; simp [fixedMaskLoop, hang] at h
  | succ fuel ih =>
    intro site h
    unfold fixedMaskLoop at h
    simp only at h
    have hlt : (draw g s).1 % bits + base < 72 := by
      have := Nat.mod_lt (draw g s).1 hbits; omega
    obtain ⟨b, hb'⟩ := isEnabled_ok mask _ hm hlt
    simp only [hb', bind, Except.bind] at h
    cases b
    · simp only [Bool.false_eq_true, if_false] at h
      exact ih _ site h
    · simp [pure, Except.pure] at h

/-- a dynamic plan as every reachable one: 16 slots, 9 mask bytes, default channels defined -/
def DynWF (r : RegionId) (p : DynPlan) : Prop :=
  p.channels.length = 16 ∧ p.mask.length = 9 ∧ ∀ i, i < numJoinChannels r → ∃ c, p.channels[i]? = some (some c)

theorem init_dynWF : ∀ r ∈ RegionId.all, r.isFixed = false → DynWF r (DynPlan.init r) := by
  intro r _ hf
  cases r <;> simp [RegionId.isFixed] at hf
  all_goals
    refine ⟨by decide, by decide, ?_⟩
    intro i hi
    simp only [numJoinChannels] at hi
    have : i = 0 ∨ i = 1 ∨ i = 2 := by omega
    rcases this with rfl | rfl | rfl
    · exact ⟨_, rfl⟩
    · exact ⟨_, rfl⟩
    · first | exact ⟨_, rfl⟩ | omega

theorem usable_ok (r : RegionId) (p : DynPlan) (h : DynWF r p) (i : Nat) (hi : i < 16) : ∃ u, p.usable i = .ok u := by
  obtain ⟨hc, hm, _⟩ := h
  unfold DynPlan.usable
  obtain ⟨b, hb⟩ := isEnabled_ok p.mask i hm (by omega)
  simp only [hb, bind, Except.bind]
  cases b
  · exact ⟨none, rfl⟩
  · simp only [if_true]
    rw [List.getElem?_eq_getElem (by omega)]
    exact ⟨_, rfl⟩

/-! non-vacuity -/
example : ∃ r, channelMaskUpdate (RegionState.init .US915) Mask.default 4 0xAB 0xFF = .ok r := channelMaskUpdate_ok _ _ _ _ _ (by decide) |>.imp (fun _ h => h.1)
example : (channelMaskUpdate (RegionState.init .EU868) Mask.default 4 1 2).toOption = some none := by decide

end C04

#print axioms C04.channelMaskUpdate_ok
#print axioms C04.isEnabled_ok
#print axioms C04.drOfNat_ok
#print axioms C04.rx_datarate_ok
#print axioms C04.txPowerAdjust_ok
#print axioms C04.dynJoinLoop_no_panic
#print axioms C04.fixedMaskLoop_no_panic
#print axioms C04.init_dynWF
#print axioms C04.usable_ok
