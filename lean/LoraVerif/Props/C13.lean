import LoraVerif.Lemmas.PhyLemmas
import LoraVerif.Lemmas.PhyEffect127
import LoraVerif.Lemmas.PhyEffectMod127
import LoraVerif.Lemmas.PhyEffectPkt127
import LoraVerif.Lemmas.PhyEffectTx127
import LoraVerif.Lemmas.PhyEffectFifo127
/-!
# C13 — the SX126x / SX127x drivers emit the same SPI bytes as Semtech's reference driver

`Model.Phy.Sx126x.*` (transliteration of lora-phy, tied by the C13 correspondence, codes regenerated
from `radio_kind_params.rs`) against `Spec.Semtech.Sx126x.Ref.*` (my transcription of SWL2001
`sx126x.c`, validated against the compiled C on every run).  `spiTrace p c` is the list of MOSI byte
streams the program `p` clocks out on chip `c` (whose register file answers the reads), so an
equation `spiTrace model c = spiTrace ref c` for all `c` says: byte-identical SPI transactions
given the same register state.
-/
open Model.Phy Spec.Semtech Spec.Semtech.S126
open Gen.PhyCodes126

namespace C13

/-- unfolding set for symbolic execution of both drivers -/
syntax "phy_simp" ("[" Lean.Parser.Tactic.simpLemma,* "]")? : tactic
macro_rules
  | `(tactic| phy_simp) => `(tactic| phy_simp [])
  | `(tactic| phy_simp [$ls,*]) => `(tactic|
  simp +decide [$ls,*, spiTrace, intfWrite, intfWriteWithPayload, intfRead, intfReadWithStatus, halWrite, halRead,
    Prog.req, Prog.xfer, ofOpt, byte, u8, b2u, hi8, lo8,
    Model.Phy.Sx126x.op, Model.Phy.Sx126x.addr2, Model.Phy.Sx126x.regR8, Model.Phy.Sx126x.regW8,
    Model.Phy.Sx126x.timeout1, Model.Phy.Sx126x.timeout2, Model.Phy.Sx126x.timeout3,
    OpCode.value, OpCode.toInt, Register.toInt, Register.addr2, Rt.wrap, Rt.andI, Rt.ITy.bits,
    StandbyMode.value, StandbyMode.toInt, RegulatorMode.value, RegulatorMode.toInt, PacketType.value, PacketType.toInt,
    RampTime.value, RampTime.toInt, CADSymbols.value, CADSymbols.toInt,
    readRegister, writeRegister,
    SET_SLEEP, SET_STANDBY, SET_TX, SET_RX, SET_STOP_TIMER_ON_PREAMBLE, SET_RX_DUTY_CYCLE, SET_CAD,
    SET_TX_CONTINUOUS_WAVE, SET_REGULATOR_MODE, CALIBRATE, CALIBRATE_IMAGE, SET_PA_CFG, WRITE_REGISTER,
    READ_REGISTER, WRITE_BUFFER, READ_BUFFER, SET_DIO_IRQ_PARAMS, GET_IRQ_STATUS, CLR_IRQ_STATUS,
    SET_DIO2_AS_RF_SWITCH_CTRL, SET_DIO3_AS_TCXO_CTRL, SET_RF_FREQUENCY, SET_PKT_TYPE, SET_TX_PARAMS,
    SET_MODULATION_PARAMS, SET_PKT_PARAMS, SET_CAD_PARAMS, SET_BUFFER_BASE_ADDRESS, SET_LORA_SYMB_NUM_TIMEOUT,
    GET_STATUS, GET_RX_BUFFER_STATUS, GET_PKT_STATUS, GET_RSSI_INST, CLR_DEVICE_ERRORS, NOP,
    REG_LR_SYNCWORD, REG_RXGAIN, REG_IQ_POLARITY, REG_TX_MODULATION, REG_TX_CLAMP_CFG, REG_TX_CLAMP_CFG_MASK,
    REG_RTC_CTRL, REG_EVT_CLR, REG_EVT_CLR_TIMEOUT_MASK, REG_LR_SYNCH_TIMEOUT, REG_RETENTION_LIST_BASE_ADDRESS])

private theorem shl2 : ((1 : UInt8) <<< 2) = 4 := by decide
private theorem nshl2 : ~~~((1 : UInt8) <<< 2) = 0xfb := by decide
private theorem n4 : ~~~(4 : UInt8) = 251 := by decide
private theorem shl1 : ((1 : UInt8) <<< 1) = 2 := by decide
private theorem fshl1 : ((0x0F : UInt8) <<< 1) = 0x1e := by decide

/-! ### operating modes -/

theorem sleep_eq (warm : Bool) (c : Chip) :
    spiTrace (Sx126x.setSleep warm) c = spiTrace (Ref.sleep warm) c := by
  cases warm <;> phy_simp [Sx126x.setSleep, Ref.sleep, S126.setSleep, SleepParams.value, Rt.shlC, Rt.b2i, Rt.orI]

theorem standby_eq (c : Chip) : spiTrace Sx126x.setStandby c = spiTrace Ref.standby c := by
  phy_simp [Sx126x.setStandby, Ref.standby, S126.setStandby]

theorem start_tx_eq (c : Chip) : spiTrace Sx126x.doTx c = spiTrace Ref.startTx c := by
  phy_simp [Sx126x.doTx, Ref.startTx, setTxWithTimeoutInRtcStep]

theorem tx_cw_eq (c : Chip) : spiTrace Sx126x.setTxContinuousWaveMode c = spiTrace Ref.txContinuousWave c := by
  phy_simp [Sx126x.setTxContinuousWaveMode, Ref.txContinuousWave, setTxCw]

theorem clear_irq_eq (c : Chip) : spiTrace Sx126x.clearIrqStatus c = spiTrace Ref.clearIrq c := by
  phy_simp [Sx126x.clearIrqStatus, Ref.clearIrq, S126.clearIrqStatus]

/-- waking the chip (`ensure_ready` in `Sleep` and in RX duty cycle) is the reference's GetStatus -/
theorem wake_eq (c : Chip) :
    spiTrace (Sx126x.ensureReady .sleep) c = spiTrace Ref.wake c ∧
    ∀ a b, spiTrace (Sx126x.ensureReady (.receive (.dutyCycle a b))) c = spiTrace Ref.wake c := by
  constructor
  · phy_simp [Sx126x.ensureReady, Ref.wake, getStatus]
  · intro a b; phy_simp [Sx126x.ensureReady, Ref.wake, getStatus]

/-- in every other mode `ensure_ready` only polls BUSY: no SPI traffic -/
theorem ensure_ready_silent (m : RadioMode) (c : Chip) (h1 : m ≠ .sleep) (h2 : ∀ a b, m ≠ .receive (.dutyCycle a b)) :
    spiTrace (Sx126x.ensureReady m) c = [] := by
  cases m with
  | receive r => cases r <;> simp_all [Sx126x.ensureReady, spiTrace, Prog.req]
  | _ => simp_all [Sx126x.ensureReady, spiTrace, Prog.req]

/-! ### RF frequency -/

/-- where the driver's checked `u32` arithmetic does not overflow it computes the reference's PLL word -/
theorem pll_eq (f p : Nat) (h : Sx126x.pllStep f = some p) : p = convertFreqInHzToPllStep f := by
  unfold Sx126x.pllStep at h
  unfold convertFreqInHzToPllStep
  simp only at h ⊢
  split at h
  · rename_i hlt
    simp only [Option.some.injEq] at h
    subst h
    exact (Nat.mod_eq_of_lt hlt).symm
  · simp at h

/-- no overflow up to 2³⁰ Hz (the chips reach 1.02 GHz) -/
theorem pll_defined (f : Nat) (h : f < 1073741824) : (Sx126x.pllStep f).isSome := by
  unfold Sx126x.pllStep
  simp only
  rw [if_pos (by omega)]
  rfl

theorem channel_eq (f : Nat) (c : Chip) (h : (Sx126x.pllStep f).isSome) :
    spiTrace (Sx126x.setChannel f) c = spiTrace (Ref.rfFrequency f) c := by
  obtain ⟨p, hp⟩ := Option.isSome_iff_exists.mp h
  have := pll_eq f p hp
  subst this
  phy_simp [Sx126x.setChannel, Ref.rfFrequency, setRfFreq, hp]

example : (Sx126x.pllStep 868100000).isSome := by decide

/-! ### modulation parameters (all SF × BW × CR × LDRO) -/

def sfNum : SpreadingFactor → Nat
  | ._5 => 5 | ._6 => 6 | ._7 => 7 | ._8 => 8 | ._9 => 9 | ._10 => 10 | ._11 => 11 | ._12 => 12
def crDenom : CodingRate → Nat
  | ._4_5 => 5 | ._4_6 => 6 | ._4_7 => 7 | ._4_8 => 8

/-- tie A: the generated SF / BW / CR code tables are the reference's enums -/
theorem sf_code (sf : SpreadingFactor) :
    spreading_factor_value sf = some (sfNum sf : Int) ∧ Ref.sfCode (sfNum sf) = some (sfNum sf) := by
  cases sf <;> decide
theorem cr_code (cr : CodingRate) :
    ∃ k : Nat, coding_rate_value cr = some (k : Int) ∧ Ref.crCode (crDenom cr) = some k ∧ k < 256 := by
  refine ⟨((coding_rate_value cr).getD 0).toNat, ?_⟩
  cases cr <;> decide
theorem sfNum_lt (sf : SpreadingFactor) : sfNum sf < 256 := by cases sf <;> decide

theorem modulation_eq (sf : SpreadingFactor) (bw : Bandwidth) (cr : CodingRate) (ldro : UInt8) (f : Nat) (c : Chip)
    (hl : ldro = 0 ∨ ldro = 1) :
    ∃ p, Ref.modulation (sfNum sf) (Bandwidth.hz bw).toNat (crDenom cr) ldro = some p ∧
      spiTrace (Sx126x.setModulationParams { sf := sf, bw := bw, cr := cr, ldro := ldro, freq := f }) c = spiTrace p c := by
  obtain ⟨hs1, hs2⟩ := sf_code sf
  obtain ⟨kc, hc1, hc2, hc3⟩ := cr_code cr
  have hl' : ldro &&& 1 = ldro := by rcases hl with rfl | rfl <;> decide
  have hsm := Nat.mod_eq_of_lt (sfNum_lt sf)
  have hcm := Nat.mod_eq_of_lt hc3
  cases bw <;>
  · refine ⟨_, by simp +decide [Ref.modulation, hs2, hc2, loraBwCode]; rfl, ?_⟩
    phy_simp [Sx126x.setModulationParams, setLoraModParams, txModulationWorkaroundLora, hs1, hc1, hl',
      Sx126x.errUnavailable, bandwidth_value, LORA_BW_500, shl2, nshl2, n4, hsm, hcm]

example : ∃ p, Ref.modulation 12 125000 5 1 = some p := ⟨_, rfl⟩

/-! ### packet parameters (all flags, preamble lengths, payload lengths) -/

theorem packet_eq (p : PacketParams) (c : Chip) :
    spiTrace (Sx126x.setPacketParams p) c
      = spiTrace (Ref.packet p.preambleLength p.implicitHeader p.payloadLength p.crcOn p.iqInverted) c := by
  obtain ⟨pre, imp, len, crc, iq⟩ := p
  cases imp <;> cases crc <;> cases iq <;>
    phy_simp [Sx126x.setPacketParams, Ref.packet, setLoraPktParams, shl2, nshl2, n4]

/-! ### buffer base addresses, FIFO writes -/

theorem buffer_base_eq (tx rx : Nat) (c : Chip) (ht : tx ≤ 255) (hr : rx ≤ 255) :
    spiTrace (Sx126x.setTxRxBufferBaseAddress tx rx) c = spiTrace (Ref.bufferBase (UInt8.ofNat tx) (UInt8.ofNat rx)) c := by
  have : ¬ (tx > 255 ∨ rx > 255) := by omega
  phy_simp [Sx126x.setTxRxBufferBaseAddress, Ref.bufferBase, setBufferBaseAddress, this]

theorem fifo_write_eq (payload : Bytes) (c : Chip) :
    spiTrace (Sx126x.setPayload payload) c = spiTrace (Ref.fifoWrite payload) c := by
  phy_simp [Sx126x.setPayload, Ref.fifoWrite, writeBuffer]

/-! ### PA configuration and TX parameters (every power level, every variant) -/

theorem tx_power_eq (cfg : Sx126x.Config) (power : Int) (freq : Option Nat) (prep : Bool) (c : Chip)
    (e : Sx126x.PaEntry) (txp : UInt8) (hl : cfg.chip.paTable.lookup power = some (e, txp))
    (hok : cfg.chip.highPower = false → ∀ f, freq = some f → ¬ (power ≥ 15 ∧ f < 400000000)) :
    spiTrace (Sx126x.setTxPowerAndRampTime cfg power freq prep) c
      = spiTrace (Ref.txPower cfg.chip.highPower e.duty e.hpMax txp prep) c := by
  cases hp : cfg.chip.highPower
  · have hds : cfg.chip.deviceSel = 1 := by simp [Sx126x.Variant.deviceSel, hp]
    cases freq with
    | none => cases prep <;>
        phy_simp [Sx126x.setTxPowerAndRampTime, Ref.txPower, hp, hl, hds, Sx126x.setPaConfig, setPaCfg, setTxParams]
    | some f =>
      have := hok hp f rfl
      cases prep <;>
        phy_simp [Sx126x.setTxPowerAndRampTime, Ref.txPower, hp, hl, hds, this, Sx126x.setPaConfig, setPaCfg, setTxParams]
  · have hds : cfg.chip.deviceSel = 0 := by simp [Sx126x.Variant.deviceSel, hp]
    cases prep <;>
      phy_simp [Sx126x.setTxPowerAndRampTime, Ref.txPower, hp, hl, hds, Sx126x.setPaConfig, setPaCfg, setTxParams,
        cfgTxClamp, fshl1]

/-- the lookup never fails (no variant has an empty table), so the hypothesis of `tx_power_eq` is satisfiable for every power -/
theorem pa_lookup_total (v : Sx126x.Variant) (power : Int) : (v.paTable.lookup power).isSome := by
  rcases v with _ | _ | ⟨_ | _⟩ <;> simp [Sx126x.Variant.paTable, Sx126x.PaTable.lookup, Sx126x.sx1261Table,
    Sx126x.sx1262Table, Sx126x.stm32wlHpTable]

/-! ### IRQ masks -/

theorem irq_masks_eq (mode : Option RadioMode) (c : Chip) :
    spiTrace (Sx126x.setIrqParams mode) c
      = spiTrace (Ref.irqMasks (Sx126x.irqMasks mode).1 (Sx126x.irqMasks mode).2) c := by
  phy_simp [Sx126x.setIrqParams, Ref.irqMasks, setDioIrqParams]

/-- the mask policy: TX = TxDone|Timeout, CAD = CadDone|CadDetected, RX and standby = all sixteen
bits (the reference's `SX126X_IRQ_ALL` is 0x43FF: the driver additionally sets reserved bits), else none -/
theorem irq_mask_policy :
    Sx126x.irqMasks (some .transmit) = (0x0201, 0x0201) ∧ Sx126x.irqMasks (some .cad) = (0x0180, 0x0180) ∧
    Sx126x.irqMasks (some .standby) = (0xFFFF, 0xFFFF) ∧ (∀ m, Sx126x.irqMasks (some (.receive m)) = (0xFFFF, 0xFFFF)) ∧
    Sx126x.irqMasks none = (0, 0) ∧ Sx126x.irqMasks (some .sleep) = (0, 0) ∧ Sx126x.irqMasks (some .listen) = (0, 0) := by
  refine ⟨by decide, by decide, by decide, fun m => rfl, by decide, by decide, by decide⟩

/-! ### symbol-count RX timeout, RX / CAD start -/

theorem mantExp_same (m e fuel : Nat) : Sx126x.mantExp m e fuel = S126.mantExp m e fuel := by
  induction fuel generalizing m e with
  | zero => rfl
  | succ k ih => simp [Sx126x.mantExp, S126.mantExp, ih]

/-- the mantissa/exponent loop on a clamped count ends after at most one round, with a 5-bit mantissa -/
theorem mantExp_bounds (m0 : Nat) (h : m0 ≤ 124) :
    (S126.mantExp m0 0 8).1 ≤ 31 ∧ (S126.mantExp m0 0 8).2 ≤ 1 := by
  by_cases h1 : m0 > 31
  · have h2 : ¬ (m0 + 3) / 4 > 31 := by omega
    simp [S126.mantExp, h1, h2]; omega
  · simp [S126.mantExp, h1]; omega

/-- `set_lora_symbol_num_timeout` = `sx126x_set_lora_symb_nb_timeout` for every symbol count
(the `u8` additions of the driver cannot overflow) -/
theorem symbol_timeout_eq (n : Nat) (c : Chip) :
    spiTrace (Sx126x.setLoraSymbolNumTimeout n) c = spiTrace (S126.setLoraSymbNbTimeout n) c := by
  have hc : (if n > MAX_LORA_SYMB_NUM_TIMEOUT then MAX_LORA_SYMB_NUM_TIMEOUT else n) = min n 248 := by
    simp only [MAX_LORA_SYMB_NUM_TIMEOUT]; by_cases h : n > 248 <;> simp [h] <;> omega
  have hb := mantExp_bounds ((min n 248 + 1) / 2) (by omega)
  unfold Sx126x.setLoraSymbolNumTimeout S126.setLoraSymbNbTimeout
  simp only [hc, Sx126x.SX126X_MAX_LORA_SYMB_NUM_TIMEOUT, mantExp_same]
  generalize S126.mantExp ((min n 248 + 1) / 2) 0 8 = me at hb
  obtain ⟨m, e⟩ := me
  simp only at hb
  have hov : ¬ (e + m * 8 > 255) := by omega
  by_cases hn : n > 0 <;> phy_simp [hn, hov]

theorem start_rx_eq (cfg : Sx126x.Config) (m : RxMode) (c : Chip) :
    spiTrace (Sx126x.doRx cfg m) c
      = spiTrace (Ref.startRx cfg.rxBoost (match m with
          | .single n => .single n | .continuous => .continuous | .dutyCycle a b => .dutyCycle a b)) c := by
  have key : ∀ (n : Nat) (k1 k2 : Prog Unit) (c : Chip),
      (∀ c', spiTrace k1 c' = spiTrace k2 c') →
      spiTrace (do Sx126x.setLoraSymbolNumTimeout n; k1) c = spiTrace (do S126.setLoraSymbNbTimeout n; k2) c := by
    intro n k1 k2 c hk
    have hc : (if n > MAX_LORA_SYMB_NUM_TIMEOUT then MAX_LORA_SYMB_NUM_TIMEOUT else n) = min n 248 := by
      simp only [MAX_LORA_SYMB_NUM_TIMEOUT]; by_cases h : n > 248 <;> simp [h] <;> omega
    have hb := mantExp_bounds ((min n 248 + 1) / 2) (by omega)
    unfold Sx126x.setLoraSymbolNumTimeout S126.setLoraSymbNbTimeout
    simp only [hc, Sx126x.SX126X_MAX_LORA_SYMB_NUM_TIMEOUT, mantExp_same]
    generalize S126.mantExp ((min n 248 + 1) / 2) 0 8 = me at hb
    obtain ⟨mm, e⟩ := me
    simp only at hb
    have hov : ¬ (e + mm * 8 > 255) := by omega
    simp only [spiTrace] at hk
    by_cases hn : n > 0 <;> phy_simp [hn, hov, hk]
  cases hb : cfg.rxBoost <;> cases m <;>
  · simp only [Sx126x.doRx, Ref.startRx, hb]
    phy_simp [stopTimerOnPreamble]
    refine key _ _ _ _ (fun c' => ?_)
    phy_simp [cfgRxBoosted, setRxWithTimeoutInRtcStep, setRxDutyCycleWithTimingsInRtcStep, Sx126x.RX_CONTINUOUS_TIMEOUT]

theorem start_cad_eq (cfg : Sx126x.Config) (sf : SpreadingFactor) (bw : Bandwidth) (cr : CodingRate) (ldro : UInt8) (f : Nat)
    (c : Chip) :
    spiTrace (Sx126x.doCad cfg { sf := sf, bw := bw, cr := cr, ldro := ldro, freq := f }) c
      = spiTrace (Ref.startCad cfg.rxBoost (sfNum sf)) c := by
  obtain ⟨hs1, _⟩ := sf_code sf
  have h13 : ¬ ((sfNum sf : Int) + 13 > 255) := by have := sfNum_lt sf; cases sf <;> decide
  cases hb : cfg.rxBoost <;>
    phy_simp [Sx126x.doCad, Ref.startCad, hb, hs1, Sx126x.errUnavailable, h13, cfgRxBoosted, setCadParams, setCad]
  all_goals (cases sf <;> decide)

/-! ### image calibration -/

theorem image_calibration_eq (f : Nat) (c : Chip) :
    spiTrace (Sx126x.calibrateImage f) c = spiTrace (Ref.imageCalibration f) c := by
  have : Sx126x.calFreq f = Ref.calTable f := by
    unfold Sx126x.calFreq Ref.calTable
    repeat' split
    all_goals rfl
  phy_simp [Sx126x.calibrateImage, Ref.imageCalibration, calImg, this]

/-! ### the RxDone workaround (implicit-header timeout, datasheet §15.3) -/

theorem rx_done_workaround_eq (c : Chip) :
    spiTrace Sx126x.handleImplicitHeaderMode c = spiTrace Ref.rxDoneWorkaround c := by
  phy_simp [Sx126x.handleImplicitHeaderMode, Ref.rxDoneWorkaround, stopRtc, shl1]

/-! ### sync word

The reference API takes the legacy byte `0xYZ` and read-modify-writes the two high nibbles of
registers 0x0740/0x0741; lora-phy takes the 16-bit register word and writes both bytes without
reading.  For the words that have a legacy form (`0xY4Z4`) on a chip whose two registers hold their
documented low nibbles (`0x_4`, reset value 0x1424), the *write* is byte-identical. -/

private theorem nib_hi : ∀ y, y < 16 → ∀ z, z < 16 → ∀ r : UInt8, r &&& 0x0F = 4 →
    (r &&& ~~~(240 : UInt8)) + (UInt8.ofNat y * 16 + UInt8.ofNat z &&& 240) = UInt8.ofNat y * 16 + 4 := by
  intro y hy z hz r hr
  have h1 : r &&& ~~~(240 : UInt8) = 4 := by rw [show ~~~(240 : UInt8) = 0x0F by decide]; exact hr
  rw [h1]
  have : ∀ y, y < 16 → ∀ z, z < 16 → (4 : UInt8) + (UInt8.ofNat y * 16 + UInt8.ofNat z &&& 240) = UInt8.ofNat y * 16 + 4 := by decide
  exact this y hy z hz

private theorem nib_lo : ∀ y, y < 16 → ∀ z, z < 16 → ∀ r : UInt8, r &&& 0x0F = 4 →
    (r &&& ~~~(240 : UInt8)) + (UInt8.ofNat y * 16 + UInt8.ofNat z &&& 15) <<< 4 = UInt8.ofNat z * 16 + 4 := by
  intro y hy z hz r hr
  have h1 : r &&& ~~~(240 : UInt8) = 4 := by rw [show ~~~(240 : UInt8) = 0x0F by decide]; exact hr
  rw [h1]
  have : ∀ y, y < 16 → ∀ z, z < 16 → (4 : UInt8) + (UInt8.ofNat y * 16 + UInt8.ofNat z &&& 15) <<< 4 = UInt8.ofNat z * 16 + 4 := by decide
  exact this y hy z hz

theorem sync_word_eq (y z : Nat) (hy : y < 16) (hz : z < 16) (c : Chip) (hk : c.kind = .sx126x)
    (h0 : c.regs 0x740 &&& 0x0F = 4) (h1 : c.regs 0x741 &&& 0x0F = 4) :
    spiTrace (Sx126x.setLoraSyncWord ((y * 16 + 4) * 256 + (z * 16 + 4))) c
      = (spiTrace (Ref.syncWord (UInt8.ofNat (y * 16 + z))) c).filter (fun t => t.take 3 != [0x1D, 0x07, 0x40]) := by
  have e1 : ((y * 16 + 4) * 256 + (z * 16 + 4)) / 256 % 256 = y * 16 + 4 := by omega
  have e2 : ((y * 16 + 4) * 256 + (z * 16 + 4)) % 256 = z * 16 + 4 := by omega
  phy_simp [Sx126x.setLoraSyncWord, Ref.syncWord, S126.setLoraSyncWord, e1, e2, Chip.transact, hk, Chip.miso126,
    byteAt, List.range, List.range.loop]
  simp [List.filter, nib_hi y hy z hz _ h0, nib_lo y hy z hz _ h1]
  rfl

example : (0x34 * 256 + 0x44 : Nat) = (3 * 16 + 4) * 256 + (4 * 16 + 4) := by decide

/-! ## SX127x

Register based: the reference burst-writes and read-modify-writes where lora-phy issues single
register accesses, so equality is on the chip-visible effect — the value every register holds
afterwards (`(trace p c).2.1.regs`).  Proved here: RF frequency (after the rounding fix), sync word.
Proved in `Lemmas/PhyEffect127.lean` / `Lemmas/PhyEffectMod127.lean` (same namespace `C13`): standby,
sleep, the symbol-count timeout (all 10-bit values, the other bits preserved) and the RX start that
uses it, the modulation parameters of SX1276 and SX1272 (all SF × BW × CR × LDRO, every prior register
content, errata paths) on the bits `eff_mask` compares; in `Lemmas/PhyEffectPkt127.lean`,
`PhyEffectTx127.lean`, `PhyEffectFifo127.lean`: packet parameters (both variants, all flags / lengths /
preambles), the IRQ mask of every mode, TX power and ramp for both PA pins and every requested power,
the FIFO write of every payload.  Everything is also compared three-way
(incl. the compiled C) by the correspondence suite, see `props/C13.json`. -/

/-- the driver's frequency word (rounded to nearest since the fix) is the reference's, for every `u32` frequency -/
theorem sx127x_pll_eq (f : Nat) (h : f < 4294967296) :
    Sx127x.freqToPllStep f = S127.convertFreqInHzToPllStep f := by
  unfold Sx127x.freqToPllStep S127.convertFreqInHzToPllStep
  simp only
  have e1 : (f / 15625 * 256) % 4294967296 = f / 15625 * 256 := Nat.mod_eq_of_lt (by omega)
  have e2 : ((f - f / 15625 * 15625) * 256) % 4294967296 = (f - f / 15625 * 15625) * 256 := Nat.mod_eq_of_lt (by omega)
  rw [e1, e2]
  have e3 : (f * 524288 + 16000000) / 32000000 = f / 15625 * 256 + ((f - f / 15625 * 15625) * 256 + 15625 / 2) / 15625 := by
    omega
  rw [e3]

example : Sx127x.freqToPllStep 867700000 = 0xD8ECCD := by decide

theorem sx127x_channel_effect_eq (f : Nat) (hf : f < 4294967296) (c : Chip) (hk : c.kind = .sx127x) :
    (trace (Sx127x.setChannel f) c).2.1.regs = (trace (S127.setRfFreq f) c).2.1.regs := by
  rw [show S127.setRfFreq f = S127.writeRegister S127.REG_FRF_MSB
        [u8 (Sx127x.freqToPllStep f / 65536), u8 (Sx127x.freqToPllStep f / 256), u8 (Sx127x.freqToPllStep f)] by
      simp [S127.setRfFreq, sx127x_pll_eq f hf]]
  funext a
  simp +decide [Sx127x.setChannel, Sx127x.writeRegister, Sx127x.wr, S127.writeRegister, S127.REG_FRF_MSB, intfWrite,
    halWrite, Prog.req, Prog.xfer, byte, u8, Gen.PhyCodes127.Register.write_addr, Gen.PhyCodes127.Register.toInt,
    Rt.orI, Rt.wrap, Rt.ITy.bits, Chip.transact, hk, Chip.write127, setAt]

theorem sx127x_sync_word_effect_eq (y z : Nat) (hy : y < 16) (hz : z < 16) (c : Chip) (hk : c.kind = .sx127x) :
    (trace (Sx127x.setLoraSyncWord ((y * 16 + 4) * 256 + (z * 16 + 4))) c).2.1.regs
      = (trace (S127.setLoraSyncWord (UInt8.ofNat (y * 16 + z))) c).2.1.regs := by
  have hl : Sx127x.syncWordToLegacy ((y * 16 + 4) * 256 + (z * 16 + 4)) = some (UInt8.ofNat (y * 16 + z)) := by
    unfold Sx127x.syncWordToLegacy
    have e1 : ((y * 16 + 4) * 256 + (z * 16 + 4)) / 256 % 256 = y * 16 + 4 := by omega
    have e2 : ((y * 16 + 4) * 256 + (z * 16 + 4)) % 256 = z * 16 + 4 := by omega
    simp only [e1, e2]
    rw [if_pos (by omega)]
    congr 2; omega
  funext a
  simp +decide [Sx127x.setLoraSyncWord, hl, Sx127x.errOr, Sx127x.writeRegister, Sx127x.wr, S127.setLoraSyncWord,
    S127.writeRegister, S127.REG_LORA_SYNC_WORD, intfWrite, halWrite, Prog.req, Prog.xfer, byte, u8,
    Gen.PhyCodes127.Register.write_addr, Gen.PhyCodes127.Register.toInt, Rt.orI, Rt.wrap, Rt.ITy.bits,
    Chip.transact, hk, Chip.write127, setAt]

/-! ### the hypotheses of the SX127x effect theorems are satisfiable -/

example : ((0x81 : UInt8) &&& 7 ≠ 0) ∧ ((0x85 : UInt8) &&& 7 ≠ 0) := by decide
example : Gen.PhyCodes127.SpreadingFactor._12 ≠ ._5 ∧ Sx127x.hzOf ._125KHz ≥ 125000 := by decide
example : ∃ p, S127.modulation false (sfNum127 ._12) (Sx127x.hzOf ._125KHz) (crDenom127 ._4_5) 1 = some p := ⟨_, rfl⟩
example : ∃ p, S127.modulation true (sfNum127 ._7) (Sx127x.hzOf ._500KHz) (crDenom127 ._4_8) 0 = some p := ⟨_, rfl⟩
/-- the compared bits are exactly those of `eff_mask("modparams", ·)` in harness/src/c13b.rs -/
example : (modMask 0x1d, modMask 0x1e, modMask 0x37, modMask 0x26, modMask 0x31, modMask 0x2f, modMask 0x36)
    = (0xff, 0xff, 0xff, 0xfb, 0x07, 0, 0) := by decide

/-- the masks of the packet-parameter and TX-power theorems are `eff_mask` of harness/src/c13b.rs -/
example : (pktMask true 0x1d, pktMask true 0x22, pktMask false 0x22, pktMask true 0x33) = (0xff, 0xff, 0, 0) := by decide
example : (txMask ⟨.sx1276, false, false, false⟩ 0x09, txMask ⟨.sx1276, false, true, false⟩ 0x09, txMask ⟨.sx1272, false, false, false⟩ 0x5a,
    txMask ⟨.sx1272, false, false, false⟩ 0x4d, txMask ⟨.sx1276, false, true, false⟩ 0x0a) = (0xff, 0x8f, 0x07, 0, 0x0f) := by decide
example : (refIrqOf (some .transmit), refIrqOf (some (.receive .continuous)), refIrqOf (some .cad), refIrqOf none) = (1, 0x252, 0x180, 0) := by
  decide

/-! ## from traces to what the interpreter records -/

/-- equal traces mean: run by the interpreter with nothing scheduled to fail, both programs leave
the same SPI bytes (MOSI streams) in the transcript -/
theorem bytes_identical_of_trace_eq {α β : Type} (p : Prog α) (q : Prog β) (w : World)
    (hf : w.fault = none) (hp : w.pendAt = none) (h : spiTrace p w.chip = spiTrace q w.chip) :
    mosi (run p w).2.log = mosi (run q w).2.log := by
  rw [(run_eq_trace p w hf hp).2.2.1, (run_eq_trace q w hf hp).2.2.1]
  simp only [spiTrace] at h
  rw [h]

end C13
