import LoraVerif.Model.Aes
import LoraVerif.Lemmas.C01Lemmas
import LoraVerif.Lemmas.AesKat
import LoraVerif.Lemmas.CmacKat
import LoraVerif.Lemmas.CmacKat2
import LoraVerif.Lemmas.C01Vectors
/-!
# C01 — every frame the library builds is byte-exact LoRaWAN 1.0.x

Model: `Codec.DataFrame.buildInto`, `Codec.JoinRequest.buildInto`, `Codec.JoinAccept.buildInto`
(hand transliteration of `lorawan-encoding/src/creator.rs` + `securityhelpers.rs`, tied to the real
code by the correspondence run of `harness/src/c01.rs`).  Specification: `Spec.encodeData`,
`Spec.encodeJoinRequest`, `Spec.encodeJoinAccept` (`Spec/LoRaWAN.lean`, written from the LoRaWAN
1.0.x text).  All theorems hold for an arbitrary `Cipher` (any three functions `enc dec cmac`) and
every caller buffer (any length, any prior content).

`Outcome.ofExcept` embeds the specification's `Except Err Bytes` into the model's three-valued
outcome; an equation `model = ofExcept spec` therefore also says *the builder never panics*.

The only hypothesis: `payloadLen d ≤ 4064` for data frames.  Beyond 4064 bytes (254 blocks) the `u8`
block counter of `encrypt_frm_data_payload` overflows; the property's quantifier (FRMPayload 0..242)
and the 255-byte PHY limit are far inside.
-/
open Lora Lora.Codec Lora.CodecLemmas Lora.C01Lemmas

namespace C01

/-- **C01 (data frames).** -/
theorem build_data_eq_spec (c : Cipher) (d : DataFrame) (buf : Bytes) (nwk : Key) (app : Option Key)
    (hmax : payloadLen d ≤ 4064) :
    d.buildInto c buf nwk app = Outcome.ofExcept (Spec.encodeData c nwk app d.toSpec buf.length) := by
  unfold DataFrame.buildInto Spec.encodeData
  have hfo : d.toSpec.fopts = d.fOpts := rfl
  rw [hfo]
  by_cases h15 : d.fOpts.length > 15
  · simp only [h15, if_true, Outcome.ofExcept]
  · simp only [h15, if_false]
    have hfo15 : d.fOpts.length ≤ 15 := by omega
    cases hp : d.payload with
    | none =>
      have hbody : d.toSpec.body = none := by simp [DataFrame.toSpec, hp]
      simp only [Spec.payloadKey, hbody]
      exact writeFrame_eq c d buf nwk none [] nwk hfo15 (by simp) (fun _ => rfl) hbody
    | data port nz bytes =>
      have hbody : d.toSpec.body = some (port, bytes) := by simp [DataFrame.toSpec, hp]
      simp only [Spec.payloadKey, hbody, nz, if_false]
      cases app with
      | none => rfl
      | some k =>
        simp only []
        exact writeFrame_eq c d buf nwk (some port) bytes k hfo15 (by simpa [payloadLen, hp] using hmax) (by simp) hbody
    | macCommands cmds =>
      have hbody : d.toSpec.body = some (0, cmds) := by simp [DataFrame.toSpec, hp]
      simp only [Spec.payloadKey, hbody, if_true, hfo]
      by_cases he : d.fOpts.length = 0
      · have : d.fOpts.isEmpty = true := by simpa [List.isEmpty_iff, List.length_eq_zero_iff] using he
        simp only [this, he, Bool.not_true, Bool.false_eq_true, if_false, ne_eq, not_true_eq_false]
        exact writeFrame_eq c d buf nwk (some 0) cmds nwk hfo15 (by simpa [payloadLen, hp] using hmax) (by simp) hbody
      · have : d.fOpts.isEmpty = false := by
          cases hq : d.fOpts with
          | nil => simp [hq] at he
          | cons _ _ => rfl
        simp only [this, he, Bool.not_false, if_true, ne_eq, not_false_eq_true, Outcome.ofExcept]

/-- **C01 (refusals).** The builder refuses exactly the descriptions the specification forbids
(FOpts longer than 15 bytes, FOpts together with port 0, missing AppSKey for application data, buffer
too small); it then returns an error and no frame, and otherwise it returns a frame — it never panics. -/
theorem build_data_refused_iff (c : Cipher) (d : DataFrame) (buf : Bytes) (nwk : Key) (app : Option Key)
    (hmax : payloadLen d ≤ 4064) :
    ((∃ e, d.buildInto c buf nwk app = .err e) ↔ Spec.DataForbidden app d.toSpec buf.length)
    ∧ ((∃ frame, d.buildInto c buf nwk app = .ok frame) ↔ ¬ Spec.DataForbidden app d.toSpec buf.length)
    ∧ d.buildInto c buf nwk app ≠ .panic := by
  rw [build_data_eq_spec c d buf nwk app hmax]
  have key : (∃ e, Spec.encodeData c nwk app d.toSpec buf.length = .error e) ↔ Spec.DataForbidden app d.toSpec buf.length := by
    unfold Spec.encodeData Spec.DataForbidden Spec.payloadKey
    by_cases h15 : d.toSpec.fopts.length > 15
    · simp [h15]
    · simp only [h15, if_false, false_or]
      cases hb : d.toSpec.body with
      | none =>
        simp only [Spec.dataMsg, hb, List.append_nil, List.length_cons, fhdr_length]
        constructor
        · intro ⟨e, he⟩; split at he
          · right; right; (try simp); omega
          · cases he
        · intro h
          rcases h with ⟨_, h, _⟩ | ⟨_, _, h, _⟩ | h
          · cases h
          · cases h
          · have : buf.length < 7 + d.toSpec.fopts.length + 1 + 4 := by (try simp at h); omega
            simp [this]
      | some pp =>
        obtain ⟨port, pld⟩ := pp
        by_cases hp0 : port = 0
        · subst hp0
          by_cases hfe : d.toSpec.fopts.length = 0
          · have hfn : d.toSpec.fopts = [] := List.length_eq_zero_iff.mp hfe
            simp only [hfe, ne_eq, not_true_eq_false, if_true, if_false, Spec.dataMsg, hb, List.length_cons,
              List.length_append, fhdr_length, cryptPayload_length]
            constructor
            · intro ⟨e, he⟩; split at he
              · right; right; (try simp); omega
              · cases he
            · intro h
              rcases h with ⟨_, _, h⟩ | ⟨p, _, h1, h2, _⟩ | h
              · exact absurd hfn h
              · cases h1; exact absurd rfl h2
              · have : buf.length < 7 + 0 + (pld.length + 1) + 1 + 4 := by (try simp at h); omega
                simp [this]
          · have hfn : d.toSpec.fopts ≠ [] := fun h => hfe (by simp [h])
            simp only [hfe, ne_eq, not_false_eq_true, if_true]
            constructor
            · intro _; left; exact ⟨pld, rfl, hfn⟩
            · intro _; exact ⟨_, rfl⟩
        · simp only [hp0, if_false]
          cases app with
          | none =>
            simp only []
            constructor
            · intro _; right; left; exact ⟨port, pld, rfl, hp0, by trivial⟩
            · intro _; exact ⟨_, rfl⟩
          | some k =>
            simp only [Spec.dataMsg, hb, List.length_cons, List.length_append, fhdr_length, cryptPayload_length]
            constructor
            · intro ⟨e, he⟩; split at he
              · right; right; (try simp); omega
              · cases he
            · intro h
              rcases h with ⟨_, h, _⟩ | ⟨_, _, _, _, h⟩ | h
              · cases h; exact absurd rfl hp0
              · cases h
              · have : buf.length < 7 + d.toSpec.fopts.length + (pld.length + 1) + 1 + 4 := by (try simp at h); omega
                simp [this]
  refine ⟨?_, ?_, ?_⟩
  · rw [← key]
    cases Spec.encodeData c nwk app d.toSpec buf.length <;> simp [Outcome.ofExcept]
  · rw [← key]
    cases Spec.encodeData c nwk app d.toSpec buf.length <;> simp [Outcome.ofExcept]
  · cases Spec.encodeData c nwk app d.toSpec buf.length <;> simp [Outcome.ofExcept]

/-- **C01 (JoinRequest).** -/
theorem build_join_request_eq_spec (c : Cipher) (d : JoinRequest) (buf : Bytes) (appKey : Key) :
    d.buildInto buf ⟨c, appKey⟩ = Outcome.ofExcept (Spec.encodeJoinRequest c appKey d.toSpec buf.length) := by
  unfold JoinRequest.buildInto Spec.encodeJoinRequest
  have hml : (Spec.joinRequestMsg d.toSpec).length = 19 := by simp [Spec.joinRequestMsg, le_length]
  simp only [hml]
  by_cases hb : 23 ≤ buf.length
  · have : ¬ buf.length < 19 + 4 := by omega
    simp only [hb, this, if_true, if_false, bind, Outcome.bind, pure, Outcome.ofExcept]
    generalize hout : buf.take 23 = out0
    have hlen0 : out0.length = 23 := by rw [← hout]; simp; omega
    clear hout
    have e1 := set_next [] out0 0 0x00 rfl (by omega)
    simp only [List.nil_append] at e1
    simp only [e1]
    rw [copy_next _ _ _ _ _ (by simp) (by simp) (by simp; omega)]
    simp only []
    rw [copy_next _ _ _ _ _ (by simp) (by simp) (by simp; omega)]
    simp only []
    rw [copy_next _ _ _ _ _ (by simp) (by simp) (by simp; omega)]
    simp only []
    rw [writeMic_tail _ _ _ (by simp; omega)]
    simp only [Spec.joinRequestMsg, Spec.joinMic, JoinRequest.toSpec, Spec.mhdrJoinRequest]
    rw [le_u64 _ (by simp), le_u64 _ (by simp), le_u16 _ (by simp)]
    simp
  · have : buf.length < 19 + 4 := by omega
    simp only [hb, this, if_true, if_false, bind, Outcome.bind, Outcome.ofExcept]

/-- **C01 (JoinAccept)**, without CFList and with CFList type 0 and 1, including the AES-decrypt
wrapping of everything after MHDR and `rx_delay & 0x0f`. -/
theorem build_join_accept_eq_spec (c : Cipher) (d : JoinAccept) (buf : Bytes) (appKey : Key) :
    d.buildInto buf ⟨c, appKey⟩ = Outcome.ofExcept (Spec.encodeJoinAccept c appKey d.toSpec buf.length) := by
  unfold JoinAccept.buildInto Spec.encodeJoinAccept
  simp only [ja_msg_length]
  cases hcf : d.cFList with
  | none =>
    have hs : d.toSpec.cfList = none := by simp [JoinAccept.toSpec, hcf]
    simp only [hs, Option.isSome_none, Bool.false_eq_true, if_false]
    by_cases hb : 17 ≤ buf.length
    · have : ¬ buf.length < 13 + 4 := by omega
      simp only [hb, this, if_true, if_false, bind, Outcome.bind, pure, Outcome.ofExcept]
      rw [ja_fixed d _ (by simp; omega)]
      simp only [writeCfList, pure]
      rw [writeMic_tail _ _ _ (by simp; omega)]
      simp only [List.cons_append]
      rw [ja_finish c appKey _ (by simp [le_length])]
      simp [Spec.joinAcceptMsg, hs, Spec.joinMic, Spec.mhdrJoinAccept, le_length]
    · have : buf.length < 13 + 4 := by omega
      simp only [hb, this, if_true, if_false, bind, Outcome.bind, Outcome.ofExcept]
  | some cf =>
    have hs : d.toSpec.cfList = some cf.toSpec := by simp [JoinAccept.toSpec, hcf]
    simp only [hs, Option.isSome_some, if_true]
    by_cases hb : 33 ≤ buf.length
    · have : ¬ buf.length < 29 + 4 := by omega
      simp only [hb, this, if_true, if_false, bind, Outcome.bind, pure, Outcome.ofExcept]
      rw [ja_fixed d _ (by simp; omega)]
      simp only []
      generalize hH : (0x20 :: (Spec.le 3 d.toSpec.joinNonce ++ Spec.le 3 d.toSpec.netId ++ Spec.le 4 d.toSpec.devAddr.toNat
            ++ [d.toSpec.dlSettings, UInt8.ofNat (d.toSpec.rxDelay.toNat % 16)])) = H
      have hHl : H.length = 13 := by rw [← hH]; simp [le_length]
      generalize hR : List.drop 13 (List.take 33 buf) = R
      have hRl : R.length = 20 := by rw [← hR]; simp; omega
      have hcfw : writeCfList (some cf) (H ++ R) = .ok (H ++ Spec.encodeCfList cf.toSpec ++ R.drop 16) := by
        cases cf with
        | dynamicChannel freqs =>
          simp only [writeCfList, bind, Outcome.bind, vec5_toList, writeFreqs]
          rw [copy_next _ _ _ _ _ (by simp [hHl]) (by simp) (by simp [hRl])]
          simp only []
          rw [copy_next _ _ _ _ _ (by simp [hHl]) (by simp) (by simp [hRl])]
          simp only []
          rw [copy_next _ _ _ _ _ (by simp [hHl]) (by simp) (by simp [hRl])]
          simp only []
          rw [copy_next _ _ _ _ _ (by simp [hHl]) (by simp) (by simp [hRl])]
          simp only []
          rw [copy_next _ _ _ _ _ (by simp [hHl]) (by simp) (by simp [hRl])]
          simp only []
          rw [set_next _ _ _ _ (by simp [hHl]) (by simp [hRl])]
          simp [Spec.encodeCfList, CfList.toSpec, le3]
        | fixedChannel mask =>
          simp only [writeCfList, bind, Outcome.bind]
          rw [copy_next _ _ _ _ _ (by simp [hHl]) (by simp) (by simp [hRl])]
          simp only []
          rw [copy_next _ _ _ _ _ (by simp [hHl]) (by simp) (by simp [hRl])]
          simp only []
          rw [set_next _ _ _ _ (by simp [hHl]) (by simp [hRl])]
          simp [Spec.encodeCfList, CfList.toSpec, le9]
      rw [hcfw]
      simp only []
      have hcl : (Spec.encodeCfList cf.toSpec).length = 16 := by
        cases cf <;> simp [Spec.encodeCfList, CfList.toSpec, le_length]
      rw [writeMic_tail _ _ _ (by simp [hRl])]
      rw [← hH]
      simp only [List.cons_append]
      rw [ja_finish c appKey _ (by simp [le_length, hcl])]
      simp [Spec.joinAcceptMsg, hs, Spec.joinMic, Spec.mhdrJoinAccept, le_length, hcl]
    · have : buf.length < 29 + 4 := by omega
      simp only [hb, this, if_true, if_false, bind, Outcome.bind, Outcome.ofExcept]

/-! ## Non-vacuity: the published frames of `lorawan-encoding/tests/lorawan.rs`

`Lemmas/C01Vectors.lean` evaluates the model (with the Lean AES, in the kernel) on the descriptions
behind the repository's pinned vectors and obtains exactly those vectors.  Here: the hypotheses of
the theorems hold of these descriptions, and through the theorems the *specification* yields the
same published bytes (so both sides of every equation are inhabited by real frames, and by real
refusals). -/

section Vectors
open C01Vectors

example : payloadLen upDesc ≤ 4064 := by decide

/-- the specification's encoder yields the repository's `phy_dataup_payload` -/
example : Spec.encodeData aes k02 (some k01) upDesc.toSpec 64
    = .ok [0x40, 0x04, 0x03, 0x02, 0x01, 0x80, 0x01, 0x00, 0x01, 0xa6, 0x94, 0x64, 0x26, 0x15, 0xd6, 0xc3, 0xb5, 0x82] := by
  have h := build_data_eq_spec aes upDesc (List.replicate 64 0) k02 (some k01) (by decide)
  rw [up_model] at h
  simp only [List.length_replicate] at h
  cases hs : Spec.encodeData aes k02 (some k01) upDesc.toSpec 64 with
  | ok b => rw [hs] at h; simp only [Outcome.ofExcept, Outcome.ok.injEq] at h; rw [h]
  | error e => rw [hs] at h; simp [Outcome.ofExcept] at h

/-- … and `phy_datadown_payload` (32-bit counter 76543, downlink direction bit) -/
example : Outcome.ofExcept (Spec.encodeData aes k02 (some k01) downDesc.toSpec 64)
    = .ok [0xa0, 0x04, 0x03, 0x02, 0x01, 0x80, 0xff, 0x2a, 0x2a, 0x0a, 0xf1, 0xa3, 0x6a, 0x05, 0xd0, 0x12, 0x5f, 0x88,
           0x5d, 0x88, 0x1d, 0x49, 0xe1] := by
  have h := build_data_eq_spec aes downDesc (List.replicate 64 0xaa) k02 (some k01) (by decide)
  rw [down_model] at h
  simpa using h.symm

/-- refusals are inhabited: the same description without AppSKey, and with a buffer one byte short -/
example : Spec.DataForbidden none upDesc.toSpec 64 :=
  ((build_data_refused_iff aes upDesc (List.replicate 64 0) k02 none (by decide)).1.1 ⟨_, up_missing_key⟩)
example : Spec.DataForbidden (some k01) upDesc.toSpec 17 := by
  have := (build_data_refused_iff aes upDesc (List.replicate 17 0) k02 (some k01) (by decide)).1.1 ⟨_, up_short_buffer⟩
  simpa using this
example : ¬ Spec.DataForbidden (some k01) upDesc.toSpec 64 := by
  have := (build_data_refused_iff aes upDesc (List.replicate 64 0) k02 (some k01) (by decide)).2.1.1 ⟨_, up_model⟩
  simpa using this

/-- the specification's JoinRequest encoder yields `phy_join_request_payload` -/
example : Outcome.ofExcept (Spec.encodeJoinRequest aes k01 jrDesc.toSpec 23)
    = .ok [0x00, 0x04, 0x03, 0x02, 0x01, 0x04, 0x03, 0x02, 0x01, 0x05, 0x04, 0x03, 0x02, 0x05, 0x04, 0x03, 0x02, 0x2d, 0x10,
           0x6a, 0x99, 0x0e, 0x12] := by
  have h := build_join_request_eq_spec aes jrDesc (List.replicate 23 0) k01
  rw [jr_model] at h
  simpa using h.symm

/-- the specification's JoinAccept encoder yields `phy_join_accept_payload` -/
example : Outcome.ofExcept (Spec.encodeJoinAccept aes appKey jaDesc.toSpec 17)
    = .ok [0x20, 0x49, 0x3e, 0xeb, 0x51, 0xfb, 0xa2, 0x11, 0x6f, 0x81, 0x0e, 0xdb, 0x37, 0x42, 0x97, 0x51, 0x42] := by
  have h := build_join_accept_eq_spec aes jaDesc (List.replicate 17 0) appKey
  rw [ja_model] at h
  simpa using h.symm

end Vectors

#print axioms build_data_eq_spec
#print axioms build_data_refused_iff
#print axioms build_join_request_eq_spec
#print axioms build_join_accept_eq_spec

end C01
