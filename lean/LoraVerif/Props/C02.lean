import LoraVerif.Model.Aes
import LoraVerif.Lemmas.C02Lemmas
import LoraVerif.Props.C01
/-!
# C02 — received frames are authenticated and decoded exactly per spec, else untouched

Model: `Codec.parse*`, `DataPayload.view` (every accessor), `DataPayload.validateMic`,
`Codec.decryptInPlace`, `Codec.checkMicAndDecryptInPlace`, the JoinRequest / JoinAccept parsers
(hand transliteration of `lorawan-encoding/src/parser.rs` + `securityhelpers.rs`, tied to the real code
by the correspondence run of `harness/src/c02.rs`).  Specification: `Spec.decodeData`,
`Spec.dataAuthentic`, `Spec.decryptData`, … (`Spec/LoRaWAN.lean`).  All theorems hold for an arbitrary
`Cipher`; in-place operations return the caller's buffer explicitly, so "untouched" is a statement.

Only hypothesis, where present: the byte string has at most 4064 bytes (`u8` block counter of the
keystream loop); the property's quantifier is 0..255.
-/
open Lora Lora.Codec Lora.CodecLemmas Lora.C01Lemmas Lora.C02Lemmas
set_option maxRecDepth 100000

namespace C02

/-- **C02 (structure).** For every byte string: parsing and then running every accessor of the view
(`frame_type`, `is_uplink`, `is_confirmed`, `fhdr().dev_addr()`, `fctrl()` and its five accessors,
`fcnt()`, `f_opts()`, `f_port()`, the FRMPayload range, `mic()`) yields exactly what the independent
decoder yields — the same fields or the same refusal — and never panics. -/
theorem parse_eq_spec (b : Bytes) : (dataViewOf b).map DataView.toSpec = Outcome.ofExcept (Spec.decodeData b) :=
  Lora.C02Lemmas.parse_eq_spec b

/-- **C02 (authentication).** For every byte string, key and 32-bit counter, `validate_mic` (after
`parse`) answers exactly as the specification: the same refusal for an unparseable string, else
`true` iff the MIC computed over B0 | msg with the given counter and the frame's own direction equals
the transmitted one. -/
theorem validate_mic_eq_spec (c : Cipher) (k : Key) (N : UInt32) (b : Bytes) :
    ((parseData b).bind fun p => p.validateMic ⟨c, k⟩ N)
      = Outcome.ofExcept ((Spec.decodeData b).map fun v => Spec.dataAuthentic c k N b v) := by
  rcases validate_cases b with ⟨e, hm, hs⟩ | ⟨mhdr, a0, a1, a2, a3, fc, c0, c1, fo, body, m0, m1, m2, m3, ft, rfl, hfo, hft, hmaj, hm, hs⟩
  · simp only [parseData, hm, hs, bind, Outcome.bind, Except.map, Outcome.ofExcept]
  · simp only [parseData, hm, hs, bind, pure, bind_ok, Except.map, Outcome.ofExcept]
    rw [validateMic_pieces c k N mhdr a0 a1 a2 a3 fc c0 c1 fo body m0 m1 m2 m3 ft _ hft]
    congr 1
    unfold Spec.dataAuthentic
    rw [msgOf_pieces _ _ _ _ _ _ _ _ _ _ _ rfl]
    simp only [specViewOf]
    exact BEq.comm

/-- `validate_mic` in the words of the property: authentic exactly when the independently computed
MIC equals the MIC in the frame. -/
theorem validate_mic_iff (c : Cipher) (k : Key) (N : UInt32) (b : Bytes) (p : DataPayload)
    (hp : parseData b = .ok p) :
    ∃ v, Spec.decodeData b = .ok v ∧
      (p.validateMic ⟨c, k⟩ N = .ok true ↔
        Spec.dataMic c k (Spec.dirOf v.ftype) v.devAddr N (Spec.msgOf b) = v.mic) ∧
      (p.validateMic ⟨c, k⟩ N = .ok false ↔
        Spec.dataMic c k (Spec.dirOf v.ftype) v.devAddr N (Spec.msgOf b) ≠ v.mic) := by
  have h := validate_mic_eq_spec c k N b
  rw [hp] at h
  simp only [bind_ok] at h
  cases hs : Spec.decodeData b with
  | error e =>
    exfalso
    rcases validate_cases b with ⟨e', hm, _⟩ | ⟨_, _, _, _, _, _, _, _, _, _, _, _, _, _, _, _, _, _, _, _, hs'⟩
    · simp [parseData, hm, bind, Outcome.bind] at hp
    · rw [hs] at hs'; cases hs'
  | ok v =>
    rw [hs] at h
    refine ⟨v, rfl, ?_, ?_⟩ <;> rw [h] <;> simp [Except.map, Outcome.ofExcept, Spec.dataAuthentic]


/-- **C02 (decryption).** For every byte string (up to 4064 bytes), optional keys and counter,
`decrypt_in_place` does what the specification says: the same refusal with the buffer untouched, or
the buffer with FRMPayload replaced by the specification's plaintext (key selected by FPort: NwkSKey
for port 0, AppSKey otherwise; counter = upper half of the caller's, lower half from the wire), and
a view whose layout is the one parsing the new buffer yields. -/
theorem decrypt_eq_spec (c : Cipher) (b : Bytes) (nwk app : Option Key) (N : UInt32) (hlen : b.length ≤ 4064) :
    match Spec.decryptData c nwk app N b with
    | .error e => decryptInPlace c b nwk app N = (.err e, b)
    | .ok (v, plain) =>
      ∃ l, decryptInPlace c b nwk app N = (.ok ⟨Spec.withPayload b v plain, l⟩, Spec.withPayload b v plain)
        ∧ Layout.validate (Spec.withPayload b v plain) = .ok l
        ∧ Spec.decodeData (Spec.withPayload b v plain) = .ok { v with frm := plain } := by
  rcases validate_cases b with ⟨e, hm, hs⟩ | ⟨mhdr, a0, a1, a2, a3, fc, c0, c1, fo, body, m0, m1, m2, m3, ft, rfl, hfo, hft, hmaj, hm, hs⟩
  · simp only [Spec.decryptData, hs]
    simp only [decryptInPlace, hm]
  · simp only [Spec.decryptData, hs]
    by_cases hb1 : body.length ≤ 1
    · have hvf : (specViewOf ft a0 a1 a2 a3 fc c0 c1 fo body [m0, m1, m2, m3]).frm.length = 0 := by
        simp only [specViewOf]
        match body, hb1 with
        | [], _ => rfl
        | [_], _ => rfl
      simp only [hvf, if_true]
      have hw := withPayload_nil _ _ mhdr a0 a1 a2 a3 fc c0 c1 fo body [m0, m1, m2, m3] ft rfl rfl rfl hb1
      have hfe : (specViewOf ft a0 a1 a2 a3 fc c0 c1 fo body [m0, m1, m2, m3]).frm = [] := List.length_eq_zero_iff.mp hvf
      refine ⟨layoutOf ft fo body, ?_, ?_, ?_⟩
      · rw [hw]; exact decrypt_pieces_empty c nwk app N _ ft fo body hm hb1
      · rw [hw]; exact hm
      · rw [hw, hs]; congr 1
        cases hsv : specViewOf ft a0 a1 a2 a3 fc c0 c1 fo body [m0, m1, m2, m3]
        rw [hsv] at hfe
        simp only at hfe
        simp [hfe]
    · obtain ⟨p, x, xs, rfl⟩ : ∃ p x xs, body = p :: x :: xs := by
        match body, hb1 with
        | [], h => simp at h
        | [_], h => simp at h
        | p :: x :: xs, _ => exact ⟨p, x, xs, rfl⟩
      have hfrm : (specViewOf ft a0 a1 a2 a3 fc c0 c1 fo (p :: x :: xs) [m0, m1, m2, m3]).frm = x :: xs := rfl
      have hport : (specViewOf ft a0 a1 a2 a3 fc c0 c1 fo (p :: x :: xs) [m0, m1, m2, m3]).port = some p := rfl
      have hne : ¬ ((x :: xs).length = 0) := by simp
      simp only [hfrm, hne, if_false, Spec.receiveKey, hport]
      have hmax : (x :: xs).length ≤ 4064 := by simp [frameOf] at hlen ⊢; omega
      have hd := decrypt_pieces c nwk app N mhdr a0 a1 a2 a3 fc c0 c1 fo p (x :: xs) [m0, m1, m2, m3] ft hft (by simp) hmax hm
      rw [hd]
      cases hk : (if p = 0 then nwk else app) with
      | none => simp only []
      | some key =>
        simp only []
        have hdev : (specViewOf ft a0 a1 a2 a3 fc c0 c1 fo (p :: x :: xs) [m0, m1, m2, m3]).devAddr = UInt32.ofNat (Spec.fromLe [a0, a1, a2, a3]) := rfl
        have hft' : (specViewOf ft a0 a1 a2 a3 fc c0 c1 fo (p :: x :: xs) [m0, m1, m2, m3]).ftype = ft := rfl
        have hc16 : (specViewOf ft a0 a1 a2 a3 fc c0 c1 fo (p :: x :: xs) [m0, m1, m2, m3]).fcnt16 = UInt16.ofNat (Spec.fromLe [c0, c1]) := rfl
        rw [hdev, hft', hc16]
        rw [withPayload_pieces _ _ _ _ _ _ _ _ _ _ _ _ _ ft rfl]
        refine ⟨layoutOf ft fo (p :: x :: xs), rfl, ?_, ?_⟩
        · have := layout_pieces mhdr a0 a1 a2 a3 fc c0 c1 fo
            (p :: Spec.cryptPayload c key (Spec.dirOf ft) (UInt32.ofNat (Spec.fromLe [a0, a1, a2, a3]))
              (Spec.fullFcnt N (UInt16.ofNat (Spec.fromLe [c0, c1]))) (x :: xs)) [m0, m1, m2, m3] ft hmaj hft hfo rfl
          rw [this]
          simp [layoutOf, cryptPayload_length]
        · rw [decode_pieces mhdr a0 a1 a2 a3 fc c0 c1 fo _ [m0, m1, m2, m3] ft hmaj hft hfo rfl]
          rfl

/-- a failing `decrypt_in_place` leaves the caller's buffer as it was (all lengths, no hypothesis) -/
theorem decrypt_fail_untouched (c : Cipher) (b : Bytes) (nwk app : Option Key) (N : UInt32) (e : Err)
    (h : (decryptInPlace c b nwk app N).1 = .err e) : (decryptInPlace c b nwk app N).2 = b := by
  rcases decrypt_untouched_or_ok c b nwk app N with h1 | ⟨p, h2⟩
  · exact h1
  · rw [h2] at h; cases h

/-- **C02 (checked decoding).** `check_mic_and_decrypt_in_place` refuses an unparseable string with
the parser's error, refuses with `InvalidMic` exactly when the specification says "not authentic",
and otherwise is `decrypt_in_place` with the NwkSKey present. -/
theorem checked_decrypt_eq_spec (c : Cipher) (b : Bytes) (nwk : Key) (app : Option Key) (N : UInt32) :
    checkMicAndDecryptInPlace c b nwk app N =
      match Spec.decodeData b with
      | .error e => (.err e, b)
      | .ok v => if Spec.dataAuthentic c nwk N b v then decryptInPlace c b (some nwk) app N else (.err .invalidMic, b) := by
  have hmic := validate_mic_eq_spec c nwk N b
  unfold checkMicAndDecryptInPlace
  rcases validate_cases b with ⟨e, hm, hs⟩ | ⟨mhdr, a0, a1, a2, a3, fc, c0, c1, fo, body, m0, m1, m2, m3, ft, hb, hfo, hft, hmaj, hm, hs⟩
  · simp only [parseData, hm, hs, bind, Outcome.bind]
  · simp only [parseData, hm, hs, bind, pure, bind_ok, Except.map, Outcome.ofExcept] at hmic
    simp only [parseData, hm, hs, bind, pure, bind_ok, hmic]
    cases Spec.dataAuthentic c nwk N b (specViewOf ft a0 a1 a2 a3 fc c0 c1 fo body [m0, m1, m2, m3]) <;> simp

/-- **C02 (else untouched).** Whenever checked decoding of a data frame fails — unparseable, wrong
MIC, missing key — the caller's buffer is byte-identical to what was received. -/
theorem checked_decrypt_fail_untouched (c : Cipher) (b : Bytes) (nwk : Key) (app : Option Key) (N : UInt32) (e : Err)
    (h : (checkMicAndDecryptInPlace c b nwk app N).1 = .err e) :
    (checkMicAndDecryptInPlace c b nwk app N).2 = b := by
  rw [checked_decrypt_eq_spec] at h ⊢
  cases hs : Spec.decodeData b with
  | error e' => rfl
  | ok v =>
    rw [hs] at h
    simp only at h ⊢
    by_cases ha : Spec.dataAuthentic c nwk N b v = true
    · simp only [ha, if_true] at h ⊢
      exact decrypt_fail_untouched c b (some nwk) app N e h
    · simp only [ha, if_false, Bool.false_eq_true]

/-- **C02 (counter reconstruction).** `((fcnt >> 16) << 16) | wire` is the specification's "upper
half from the receiver, lower half from the wire", and it is the sender's counter whenever the
receiver's counter agrees with it in the upper half. -/
theorem full_fcnt_eq (N : UInt32) (wire : UInt16) :
    ((N >>> 16) <<< 16) ||| wire.toUInt32 = Spec.fullFcnt N wire
    ∧ (N.toNat % 65536 = wire.toNat → Spec.fullFcnt N wire = N)
    ∧ ∀ M : UInt32, M.toNat / 65536 = N.toNat / 65536 → M.toNat % 65536 = wire.toNat → Spec.fullFcnt N wire = M := by
  have hw := wire.toNat_lt
  have hN := N.toNat_lt
  refine ⟨?_, ?_, ?_⟩
  · apply UInt32.toNat_inj.mp
    simp only [UInt32.toNat_or, UInt32.toNat_shiftLeft, UInt32.toNat_shiftRight, UInt16.toNat_toUInt32, Spec.fullFcnt]
    simp only [UInt32.toNat_ofNat', Nat.shiftRight_eq_div_pow, Nat.shiftLeft_eq]
    have h3 : N.toNat / 2 ^ (16 % 32) * 2 ^ (16 % 32) % 2 ^ 32 = (N.toNat / 65536) <<< 16 := by
      simp [Nat.shiftLeft_eq]; omega
    rw [show (UInt32.toNat 16) = 16 from rfl, h3, ← Nat.shiftLeft_add_eq_or_of_lt (by omega), Nat.shiftLeft_eq]
    omega
  · intro h
    apply UInt32.toNat_inj.mp
    simp only [Spec.fullFcnt, UInt32.toNat_ofNat']
    omega
  · intro M h1 h2
    have hM := M.toNat_lt
    apply UInt32.toNat_inj.mp
    simp only [Spec.fullFcnt, UInt32.toNat_ofNat']
    omega

/-- **C02 (involution).** Decrypting twice restores the ciphertext: if `decrypt_in_place` succeeds, a
second `decrypt_in_place` (same keys, same counter) on the resulting buffer succeeds and gives back
the received bytes. -/
theorem decrypt_involutive (c : Cipher) (b : Bytes) (nwk app : Option Key) (N : UInt32) (p : DataPayload) (b' : Bytes)
    (hlen : b.length ≤ 4064) (h : decryptInPlace c b nwk app N = (.ok p, b')) :
    ∃ p', decryptInPlace c b' nwk app N = (.ok p', b) := by
  rcases validate_cases b with ⟨e, hm, hs⟩ | ⟨mhdr, a0, a1, a2, a3, fc, c0, c1, fo, body, m0, m1, m2, m3, ft, rfl, hfo, hft, hmaj, hm, hs⟩
  · simp [decryptInPlace, hm] at h
  · by_cases hb1 : body.length ≤ 1
    · rw [decrypt_pieces_empty c nwk app N _ ft fo body hm hb1] at h
      cases h
      exact ⟨_, decrypt_pieces_empty c nwk app N _ ft fo body hm hb1⟩
    · obtain ⟨q, x, xs, rfl⟩ : ∃ p x xs, body = p :: x :: xs := by
        match body, hb1 with
        | [], h => simp at h
        | [_], h => simp at h
        | p :: x :: xs, _ => exact ⟨p, x, xs, rfl⟩
      have hmax : (x :: xs).length ≤ 4064 := by simp [frameOf] at hlen ⊢; omega
      rw [decrypt_pieces c nwk app N mhdr a0 a1 a2 a3 fc c0 c1 fo q (x :: xs) [m0, m1, m2, m3] ft hft (by simp) hmax hm] at h
      cases hk : (if q = 0 then nwk else app) with
      | none => rw [hk] at h; cases h
      | some key =>
        rw [hk] at h
        simp only [Prod.mk.injEq] at h
        obtain ⟨_, rfl⟩ := h
        have hl2 := cryptPayload_length c key (Spec.dirOf ft) (UInt32.ofNat (Spec.fromLe [a0, a1, a2, a3]))
          (Spec.fullFcnt N (UInt16.ofNat (Spec.fromLe [c0, c1]))) (x :: xs)
        have hv2 := layout_pieces mhdr a0 a1 a2 a3 fc c0 c1 fo
          (q :: Spec.cryptPayload c key (Spec.dirOf ft) (UInt32.ofNat (Spec.fromLe [a0, a1, a2, a3]))
            (Spec.fullFcnt N (UInt16.ofNat (Spec.fromLe [c0, c1]))) (x :: xs)) [m0, m1, m2, m3] ft hmaj hft hfo rfl
        rw [decrypt_pieces c nwk app N mhdr a0 a1 a2 a3 fc c0 c1 fo q _ [m0, m1, m2, m3] ft hft (by rw [hl2]; simp)
          (by rw [hl2]; exact hmax) hv2, hk]
        simp only [crypt_involutive]
        exact ⟨_, rfl⟩
theorem view_of_layout (b : Bytes) (l : Layout) (h : Layout.validate b = .ok l) :
    (DataPayload.view ⟨b, l⟩).map DataView.toSpec = Outcome.ofExcept (Spec.decodeData b) := by
  have := parse_eq_spec b
  simpa [dataViewOf, parseData, h, bind, pure] using this

/-- the round trip at the level of the specification's description -/
theorem roundtrip_desc (c : Cipher) (s : Spec.DataDesc) (nwk : Key) (app : Option Key) (encKey : Key)
    (hfo : s.fopts.length ≤ 15) (hkey : Spec.payloadKey nwk app s = .ok encKey)
    (hmax : ∀ port pld, s.body = some (port, pld) → pld.length ≤ 4064) :
    let msg := Spec.dataMsg c encKey s
    let frame := msg ++ Spec.dataMic c nwk (Spec.dirOf s.ftype) s.devAddr s.fcnt msg
    ∃ p clear v, checkMicAndDecryptInPlace c frame nwk app s.fcnt = (.ok p, clear) ∧ p.bytes = clear
      ∧ (p.view).map DataView.toSpec = .ok v ∧ v.toDesc s.fcnt v.frm = s.norm := by
  intro msg frame
  obtain ⟨a0, a1, a2, a3, ha⟩ := le_cons4 s.devAddr.toNat
  obtain ⟨c0, c1, hc⟩ := le_cons2 (s.fcnt.toNat % 65536)
  obtain ⟨hmaj, hft⟩ := mhdr_read s.ftype
  obtain ⟨hf1, hf2, hf3, hf4, hf5⟩ := fctrl_read ⟨s.fopts.length, by omega⟩ s.ftype.isUplink s.adr s.adrAckReq s.ack s.fPending
  obtain ⟨m0, m1, m2, m3, hmic⟩ := list4 (Spec.dataMic c nwk (Spec.dirOf s.ftype) s.devAddr s.fcnt msg) (mic_length ..)
  have haddr : UInt32.ofNat (Spec.fromLe [a0, a1, a2, a3]) = s.devAddr := by
    rw [← ha, fromLe_le]
    apply UInt32.toNat_inj.mp
    have := s.devAddr.toNat_lt
    simp [UInt32.toNat_ofNat']
  have hcnt : Spec.fullFcnt s.fcnt (UInt16.ofNat (Spec.fromLe [c0, c1])) = s.fcnt := by
    apply (full_fcnt_eq s.fcnt _).2.1
    rw [← hc, fromLe_le]
    simp [UInt16.toNat_ofNat']
  -- the frame in pieces
  let body : Bytes := match s.body with
    | none => []
    | some (port, pld) => port :: Spec.cryptPayload c encKey (Spec.dirOf s.ftype) s.devAddr s.fcnt pld
  have hframe : frame = frameOf (Spec.mhdrData s.ftype) a0 a1 a2 a3 (Spec.fctrl s) c0 c1 s.fopts body [m0, m1, m2, m3] := by
    show msg ++ _ = _
    rw [hmic]
    simp only [msg, Spec.dataMsg, Spec.fhdr, ha, hc, frameOf, body]
    cases s.body with
    | none => simp
    | some pp => obtain ⟨port, pld⟩ := pp; simp
  have hfo' : s.fopts.length = (Spec.fctrl s).toNat % 16 := hf1.symm
  have hval := layout_pieces (Spec.mhdrData s.ftype) a0 a1 a2 a3 (Spec.fctrl s) c0 c1 s.fopts body [m0, m1, m2, m3] s.ftype hmaj hft hfo' rfl
  have hdec := decode_pieces (Spec.mhdrData s.ftype) a0 a1 a2 a3 (Spec.fctrl s) c0 c1 s.fopts body [m0, m1, m2, m3] s.ftype hmaj hft hfo' rfl
  rw [hframe, checked_decrypt_eq_spec, hdec]
  simp only []
  -- authentic
  have hauth : Spec.dataAuthentic c nwk s.fcnt (frameOf (Spec.mhdrData s.ftype) a0 a1 a2 a3 (Spec.fctrl s) c0 c1 s.fopts body [m0, m1, m2, m3])
      (specViewOf s.ftype a0 a1 a2 a3 (Spec.fctrl s) c0 c1 s.fopts body [m0, m1, m2, m3]) = true := by
    unfold Spec.dataAuthentic
    rw [msgOf_pieces _ _ _ _ _ _ _ _ _ _ _ rfl]
    simp only [specViewOf, haddr]
    have hmsg : msg = Spec.mhdrData s.ftype :: a0 :: a1 :: a2 :: a3 :: Spec.fctrl s :: c0 :: c1 :: (s.fopts ++ body) := by
      simp only [msg, Spec.dataMsg, Spec.fhdr, ha, hc, body]
      cases s.body with
      | none => simp
      | some pp => obtain ⟨port, pld⟩ := pp; simp
    rw [← hmsg, hmic]; simp
  rw [hauth]
  simp only [if_true]
  cases hsb : s.body with
  | none =>
    have hbody : body = [] := by simp only [body, hsb]
    rw [hbody] at hval hdec ⊢
    refine ⟨_, _, specViewOf s.ftype a0 a1 a2 a3 (Spec.fctrl s) c0 c1 s.fopts [] [m0, m1, m2, m3], decrypt_pieces_empty c (some nwk) app s.fcnt _ s.ftype s.fopts [] hval (by simp), rfl, ?_, ?_⟩
    · rw [view_of_layout _ _ hval, hdec]; rfl
    · exact toDesc_norm s a0 a1 a2 a3 c0 c1 [] [m0, m1, m2, m3] hfo haddr (by rw [hsb]; rfl)
  | some pp =>
    obtain ⟨port, pld⟩ := pp
    have hbody : body = port :: Spec.cryptPayload c encKey (Spec.dirOf s.ftype) s.devAddr s.fcnt pld := by simp only [body, hsb]
    rw [hbody] at hval hdec ⊢
    by_cases hpl : pld.length = 0
    · have hpe : pld = [] := List.length_eq_zero_iff.mp hpl
      subst hpe
      have hce : Spec.cryptPayload c encKey (Spec.dirOf s.ftype) s.devAddr s.fcnt [] = [] := rfl
      rw [hce] at hval hdec ⊢
      refine ⟨_, _, specViewOf s.ftype a0 a1 a2 a3 (Spec.fctrl s) c0 c1 s.fopts [port] [m0, m1, m2, m3], decrypt_pieces_empty c (some nwk) app s.fcnt _ s.ftype s.fopts [port] hval (by simp), rfl, ?_, ?_⟩
      · rw [view_of_layout _ _ hval, hdec]; rfl
      · exact toDesc_norm s a0 a1 a2 a3 c0 c1 [port] [m0, m1, m2, m3] hfo haddr (by rw [hsb]; rfl)
    · have hcl := cryptPayload_length c encKey (Spec.dirOf s.ftype) s.devAddr s.fcnt pld
      have hd := decrypt_pieces c (some nwk) app s.fcnt (Spec.mhdrData s.ftype) a0 a1 a2 a3 (Spec.fctrl s) c0 c1 s.fopts port
        (Spec.cryptPayload c encKey (Spec.dirOf s.ftype) s.devAddr s.fcnt pld) [m0, m1, m2, m3] s.ftype hft
        (by rw [hcl]; omega) (by rw [hcl]; exact hmax port pld hsb) hval
      -- the key the receiver selects is the key the sender used
      have hk : (if port = 0 then some nwk else app) = some encKey := by
        unfold Spec.payloadKey at hkey
        rw [hsb] at hkey
        simp only at hkey
        by_cases hp0 : port = 0
        · simp only [hp0, if_true] at hkey ⊢
          split at hkey
          · cases hkey
          · cases hkey; rfl
        · simp only [hp0, if_false] at hkey ⊢
          cases app with
          | none => cases hkey
          | some k => cases hkey; rfl
      rw [hk] at hd
      simp only [haddr, hcnt, crypt_involutive] at hd
      rw [hd]
      have hval' := layout_pieces (Spec.mhdrData s.ftype) a0 a1 a2 a3 (Spec.fctrl s) c0 c1 s.fopts (port :: pld) [m0, m1, m2, m3] s.ftype hmaj hft hfo' rfl
      have hdec' := decode_pieces (Spec.mhdrData s.ftype) a0 a1 a2 a3 (Spec.fctrl s) c0 c1 s.fopts (port :: pld) [m0, m1, m2, m3] s.ftype hmaj hft hfo' rfl
      rw [layoutOf_congr s.ftype s.fopts (port :: pld) (port :: Spec.cryptPayload c encKey (Spec.dirOf s.ftype) s.devAddr s.fcnt pld)
        (by simp [hcl])] at hval'
      refine ⟨_, _, specViewOf s.ftype a0 a1 a2 a3 (Spec.fctrl s) c0 c1 s.fopts (port :: pld) [m0, m1, m2, m3], rfl, rfl, ?_, ?_⟩
      · rw [view_of_layout _ _ hval', hdec']; rfl
      · exact toDesc_norm s a0 a1 a2 a3 c0 c1 (port :: pld) [m0, m1, m2, m3] hfo haddr (by rw [hsb]; rfl)

/-- **C02 (round trip).** Parsing any built frame returns the description it was built from: if
`build_into` yields a frame, then `check_mic_and_decrypt_in_place` on that frame with the same keys
and counter succeeds, and the accessors of the result denote the (normalised) description — all
header fields, FOpts, port and the plaintext.  `norm` clears the flag that does not exist in the
frame's direction (ADRACKReq on downlinks, FPending on uplinks), which the builder does not write. -/
theorem parse_build (c : Cipher) (d : DataFrame) (buf : Bytes) (nwk : Key) (app : Option Key) (frame : Bytes)
    (hmax : payloadLen d ≤ 4064) (hb : d.buildInto c buf nwk app = .ok frame) :
    ∃ p clear v, checkMicAndDecryptInPlace c frame nwk app d.fcnt = (.ok p, clear) ∧ p.bytes = clear
      ∧ (p.view).map DataView.toSpec = .ok v ∧ v.toDesc d.fcnt v.frm = d.toSpec.norm := by
  rw [C01.build_data_eq_spec c d buf nwk app hmax] at hb
  unfold Spec.encodeData at hb
  by_cases h15 : d.toSpec.fopts.length > 15
  · simp [h15, Outcome.ofExcept] at hb
  · simp only [h15, if_false] at hb
    cases hk : Spec.payloadKey nwk app d.toSpec with
    | error e => rw [hk] at hb; simp [Outcome.ofExcept] at hb
    | ok key =>
      rw [hk] at hb
      simp only at hb
      split at hb
      · simp [Outcome.ofExcept] at hb
      · simp only [Outcome.ofExcept, Outcome.ok.injEq] at hb
        have := roundtrip_desc c d.toSpec nwk app key (by omega) hk (by
          intro port pld hbody
          have : payloadLen d = pld.length := by
            unfold payloadLen
            unfold DataFrame.toSpec at hbody
            simp only at hbody
            cases hp : d.payload with
            | none => rw [hp] at hbody; cases hbody
            | data p nz bytes => rw [hp] at hbody; cases hbody; rfl
            | macCommands cmds => rw [hp] at hbody; cases hbody; rfl
          omega)
        simp only at this
        rw [hb] at this
        exact this

#print axioms parse_eq_spec
#print axioms validate_mic_eq_spec
#print axioms validate_mic_iff
#print axioms decrypt_eq_spec
#print axioms checked_decrypt_eq_spec
#print axioms checked_decrypt_fail_untouched
#print axioms decrypt_involutive
#print axioms full_fcnt_eq
#print axioms roundtrip_desc
#print axioms parse_build

end C02
