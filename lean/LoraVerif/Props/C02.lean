import LoraVerif.Model.Aes
import LoraVerif.Lemmas.C02Lemmas
import LoraVerif.Lemmas.C02JoinLemmas
import LoraVerif.Lemmas.C02Vectors
import LoraVerif.Lemmas.AesLemmas
import LoraVerif.Props.C01
/-!
# C02 — received frames are authenticated and decoded exactly per spec, else untouched

Model: `Codec.parse*`, `DataPayload.view` (every accessor), `DataPayload.validateMic`,
`Codec.decryptInPlace`, `Codec.checkMicAndDecryptInPlace`, the JoinRequest / JoinAccept parsers
(hand transliteration of `lorawan-encoding/src/parser.rs` + `securityhelpers.rs`, tied to the real code
by the correspondence run of `harness/src/c02.rs`).  Specification: `Spec.decodeData`,
`Spec.dataAuthentic`, `Spec.decryptData`, … (`Spec/LoRaWAN.lean`).  All theorems hold for an arbitrary
`Cipher`; in-place operations return the caller's buffer explicitly, so "untouched" is a statement.

Only hypothesis, where present: the byte string has at most 4064 bytes (`u8` block counter of the
keystream loop); the property's quantifier is 0..255.
-/
open Lora Lora.Codec Lora.CodecLemmas Lora.C01Lemmas Lora.C02Lemmas
set_option maxRecDepth 100000

namespace C02

/-- **C02 (structure).** For every byte string: parsing and then running every accessor of the view
(`frame_type`, `is_uplink`, `is_confirmed`, `fhdr().dev_addr()`, `fctrl()` and its five accessors,
`fcnt()`, `f_opts()`, `f_port()`, the FRMPayload range, `mic()`) yields exactly what the independent
decoder yields — the same fields or the same refusal — and never panics. -/
theorem parse_eq_spec (b : Bytes) : (dataViewOf b).map DataView.toSpec = Outcome.ofExcept (Spec.decodeData b) :=
  Lora.C02Lemmas.parse_eq_spec b

/-- **C02 (authentication).** For every byte string, key and 32-bit counter, `validate_mic` (after
`parse`) answers exactly as the specification: the same refusal for an unparseable string, else
`true` iff the MIC computed over B0 | msg with the given counter and the frame's own direction equals
the transmitted one. -/
theorem validate_mic_eq_spec (c : Cipher) (k : Key) (N : UInt32) (b : Bytes) :
    ((parseData b).bind fun p => p.validateMic ⟨c, k⟩ N)
      = Outcome.ofExcept ((Spec.decodeData b).map fun v => Spec.dataAuthentic c k N b v) := by
  rcases validate_cases b with ⟨e, hm, hs⟩ | ⟨mhdr, a0, a1, a2, a3, fc, c0, c1, fo, body, m0, m1, m2, m3, ft, rfl, hfo, hft, hmaj, hm, hs⟩
  · simp only [parseData, hm, hs, bind, Outcome.bind, Except.map, Outcome.ofExcept]
  · simp only [parseData, hm, hs, bind, pure, bind_ok, Except.map, Outcome.ofExcept]
    rw [validateMic_pieces c k N mhdr a0 a1 a2 a3 fc c0 c1 fo body m0 m1 m2 m3 ft _ hft]
    congr 1
    unfold Spec.dataAuthentic
    rw [msgOf_pieces _ _ _ _ _ _ _ _ _ _ _ rfl]
    simp only [specViewOf]
    exact BEq.comm

/-- `validate_mic` in the words of the property: authentic exactly when the independently computed
MIC equals the MIC in the frame. -/
theorem validate_mic_iff (c : Cipher) (k : Key) (N : UInt32) (b : Bytes) (p : DataPayload)
    (hp : parseData b = .ok p) :
    ∃ v, Spec.decodeData b = .ok v ∧
      (p.validateMic ⟨c, k⟩ N = .ok true ↔
        Spec.dataMic c k (Spec.dirOf v.ftype) v.devAddr N (Spec.msgOf b) = v.mic) ∧
      (p.validateMic ⟨c, k⟩ N = .ok false ↔
        Spec.dataMic c k (Spec.dirOf v.ftype) v.devAddr N (Spec.msgOf b) ≠ v.mic) := by
  have h := validate_mic_eq_spec c k N b
  rw [hp] at h
  simp only [bind_ok] at h
  cases hs : Spec.decodeData b with
  | error e =>
    exfalso
    rcases validate_cases b with ⟨e', hm, _⟩ | ⟨_, _, _, _, _, _, _, _, _, _, _, _, _, _, _, _, _, _, _, _, hs'⟩
    · simp [parseData, hm, bind, Outcome.bind] at hp
    · rw [hs] at hs'; cases hs'
  | ok v =>
    rw [hs] at h
    refine ⟨v, rfl, ?_, ?_⟩ <;> rw [h] <;> simp [Except.map, Outcome.ofExcept, Spec.dataAuthentic]


/-- **C02 (decryption).** For every byte string (up to 4064 bytes), optional keys and counter,
`decrypt_in_place` does what the specification says: the same refusal with the buffer untouched, or
the buffer with FRMPayload replaced by the specification's plaintext (key selected by FPort: NwkSKey
for port 0, AppSKey otherwise; counter = upper half of the caller's, lower half from the wire), and
a view whose layout is the one parsing the new buffer yields. -/
theorem decrypt_eq_spec (c : Cipher) (b : Bytes) (nwk app : Option Key) (N : UInt32) (hlen : b.length ≤ 4064) :
    match Spec.decryptData c nwk app N b with
    | .error e => decryptInPlace c b nwk app N = (.err e, b)
    | .ok (v, plain) =>
      ∃ l, decryptInPlace c b nwk app N = (.ok ⟨Spec.withPayload b v plain, l⟩, Spec.withPayload b v plain)
        ∧ Layout.validate (Spec.withPayload b v plain) = .ok l
        ∧ Spec.decodeData (Spec.withPayload b v plain) = .ok { v with frm := plain } := by
  rcases validate_cases b with ⟨e, hm, hs⟩ | ⟨mhdr, a0, a1, a2, a3, fc, c0, c1, fo, body, m0, m1, m2, m3, ft, rfl, hfo, hft, hmaj, hm, hs⟩
  · simp only [Spec.decryptData, hs]
    simp only [decryptInPlace, hm]
  · simp only [Spec.decryptData, hs]
    by_cases hb1 : body.length ≤ 1
    · have hvf : (specViewOf ft a0 a1 a2 a3 fc c0 c1 fo body [m0, m1, m2, m3]).frm.length = 0 := by
        simp only [specViewOf]
        match body, hb1 with
        | [], _ => rfl
        | [_], _ => rfl
      simp only [hvf, if_true]
      have hw := withPayload_nil _ _ mhdr a0 a1 a2 a3 fc c0 c1 fo body [m0, m1, m2, m3] ft rfl rfl rfl hb1
      have hfe : (specViewOf ft a0 a1 a2 a3 fc c0 c1 fo body [m0, m1, m2, m3]).frm = [] := List.length_eq_zero_iff.mp hvf
      refine ⟨layoutOf ft fo body, ?_, ?_, ?_⟩
      · rw [hw]; exact decrypt_pieces_empty c nwk app N _ ft fo body hm hb1
      · rw [hw]; exact hm
      · rw [hw, hs]; congr 1
        cases hsv : specViewOf ft a0 a1 a2 a3 fc c0 c1 fo body [m0, m1, m2, m3]
        rw [hsv] at hfe
        simp only at hfe
        simp [hfe]
    · obtain ⟨p, x, xs, rfl⟩ : ∃ p x xs, body = p :: x :: xs := by
        match body, hb1 with
        | [], h => simp at h
        | [_], h => simp at h
        | p :: x :: xs, _ => exact ⟨p, x, xs, rfl⟩
      have hfrm : (specViewOf ft a0 a1 a2 a3 fc c0 c1 fo (p :: x :: xs) [m0, m1, m2, m3]).frm = x :: xs := rfl
      have hport : (specViewOf ft a0 a1 a2 a3 fc c0 c1 fo (p :: x :: xs) [m0, m1, m2, m3]).port = some p := rfl
      have hne : ¬ ((x :: xs).length = 0) := by simp
      simp only [hfrm, hne, if_false, Spec.receiveKey, hport]
      have hmax : (x :: xs).length ≤ 4064 := by simp [frameOf] at hlen ⊢; omega
      have hd := decrypt_pieces c nwk app N mhdr a0 a1 a2 a3 fc c0 c1 fo p (x :: xs) [m0, m1, m2, m3] ft hft (by simp) hmax hm
      rw [hd]
      cases hk : (if p = 0 then nwk else app) with
      | none => simp only []
      | some key =>
        simp only []
        have hdev : (specViewOf ft a0 a1 a2 a3 fc c0 c1 fo (p :: x :: xs) [m0, m1, m2, m3]).devAddr = UInt32.ofNat (Spec.fromLe [a0, a1, a2, a3]) := rfl
        have hft' : (specViewOf ft a0 a1 a2 a3 fc c0 c1 fo (p :: x :: xs) [m0, m1, m2, m3]).ftype = ft := rfl
        have hc16 : (specViewOf ft a0 a1 a2 a3 fc c0 c1 fo (p :: x :: xs) [m0, m1, m2, m3]).fcnt16 = UInt16.ofNat (Spec.fromLe [c0, c1]) := rfl
        rw [hdev, hft', hc16]
        rw [withPayload_pieces _ _ _ _ _ _ _ _ _ _ _ _ _ ft rfl]
        refine ⟨layoutOf ft fo (p :: x :: xs), rfl, ?_, ?_⟩
        · have := layout_pieces mhdr a0 a1 a2 a3 fc c0 c1 fo
            (p :: Spec.cryptPayload c key (Spec.dirOf ft) (UInt32.ofNat (Spec.fromLe [a0, a1, a2, a3]))
              (Spec.fullFcnt N (UInt16.ofNat (Spec.fromLe [c0, c1]))) (x :: xs)) [m0, m1, m2, m3] ft hmaj hft hfo rfl
          rw [this]
          simp [layoutOf, cryptPayload_length]
        · rw [decode_pieces mhdr a0 a1 a2 a3 fc c0 c1 fo _ [m0, m1, m2, m3] ft hmaj hft hfo rfl]
          rfl

/-- a failing `decrypt_in_place` leaves the caller's buffer as it was (all lengths, no hypothesis) -/
theorem decrypt_fail_untouched (c : Cipher) (b : Bytes) (nwk app : Option Key) (N : UInt32) (e : Err)
    (h : (decryptInPlace c b nwk app N).1 = .err e) : (decryptInPlace c b nwk app N).2 = b := by
  rcases decrypt_untouched_or_ok c b nwk app N with h1 | ⟨p, h2⟩
  · exact h1
  · rw [h2] at h; cases h

/-- **C02 (checked decoding).** `check_mic_and_decrypt_in_place` refuses an unparseable string with
the parser's error, refuses with `InvalidMic` exactly when the specification says "not authentic",
and otherwise is `decrypt_in_place` with the NwkSKey present. -/
theorem checked_decrypt_eq_spec (c : Cipher) (b : Bytes) (nwk : Key) (app : Option Key) (N : UInt32) :
    checkMicAndDecryptInPlace c b nwk app N =
      match Spec.decodeData b with
      | .error e => (.err e, b)
      | .ok v => if Spec.dataAuthentic c nwk N b v then decryptInPlace c b (some nwk) app N else (.err .invalidMic, b) := by
  have hmic := validate_mic_eq_spec c nwk N b
  unfold checkMicAndDecryptInPlace
  rcases validate_cases b with ⟨e, hm, hs⟩ | ⟨mhdr, a0, a1, a2, a3, fc, c0, c1, fo, body, m0, m1, m2, m3, ft, hb, hfo, hft, hmaj, hm, hs⟩
  · simp only [parseData, hm, hs, bind, Outcome.bind]
  · simp only [parseData, hm, hs, bind, pure, bind_ok, Except.map, Outcome.ofExcept] at hmic
    simp only [parseData, hm, hs, bind, pure, bind_ok, hmic]
    cases Spec.dataAuthentic c nwk N b (specViewOf ft a0 a1 a2 a3 fc c0 c1 fo body [m0, m1, m2, m3]) <;> simp

/-- **C02 (else untouched).** Whenever checked decoding of a data frame fails — unparseable, wrong
MIC, missing key — the caller's buffer is byte-identical to what was received. -/
theorem checked_decrypt_fail_untouched (c : Cipher) (b : Bytes) (nwk : Key) (app : Option Key) (N : UInt32) (e : Err)
    (h : (checkMicAndDecryptInPlace c b nwk app N).1 = .err e) :
    (checkMicAndDecryptInPlace c b nwk app N).2 = b := by
  rw [checked_decrypt_eq_spec] at h ⊢
  cases hs : Spec.decodeData b with
  | error e' => rfl
  | ok v =>
    rw [hs] at h
    simp only at h ⊢
    by_cases ha : Spec.dataAuthentic c nwk N b v = true
    · simp only [ha, if_true] at h ⊢
      exact decrypt_fail_untouched c b (some nwk) app N e h
    · simp only [ha, if_false, Bool.false_eq_true]

/-- **C02 (counter reconstruction).** `((fcnt >> 16) << 16) | wire` is the specification's "upper
half from the receiver, lower half from the wire", and it is the sender's counter whenever the
receiver's counter agrees with it in the upper half. -/
theorem full_fcnt_eq (N : UInt32) (wire : UInt16) :
    ((N >>> 16) <<< 16) ||| wire.toUInt32 = Spec.fullFcnt N wire
    ∧ (N.toNat % 65536 = wire.toNat → Spec.fullFcnt N wire = N)
    ∧ ∀ M : UInt32, M.toNat / 65536 = N.toNat / 65536 → M.toNat % 65536 = wire.toNat → Spec.fullFcnt N wire = M := by
  have hw := wire.toNat_lt
  have hN := N.toNat_lt
  refine ⟨?_, ?_, ?_⟩
  · apply UInt32.toNat_inj.mp
    simp only [UInt32.toNat_or, UInt32.toNat_shiftLeft, UInt32.toNat_shiftRight, UInt16.toNat_toUInt32, Spec.fullFcnt]
    simp only [UInt32.toNat_ofNat', Nat.shiftRight_eq_div_pow, Nat.shiftLeft_eq]
    have h3 : N.toNat / 2 ^ (16 % 32) * 2 ^ (16 % 32) % 2 ^ 32 = (N.toNat / 65536) <<< 16 := by
      simp [Nat.shiftLeft_eq]; omega
    rw [show (UInt32.toNat 16) = 16 from rfl, h3, ← Nat.shiftLeft_add_eq_or_of_lt (by omega), Nat.shiftLeft_eq]
    omega
  · intro h
    apply UInt32.toNat_inj.mp
    simp only [Spec.fullFcnt, UInt32.toNat_ofNat']
    omega
  · intro M h1 h2
    have hM := M.toNat_lt
    apply UInt32.toNat_inj.mp
    simp only [Spec.fullFcnt, UInt32.toNat_ofNat']
    omega

/-- **C02 (involution).** Decrypting twice restores the ciphertext: if `decrypt_in_place` succeeds, a
second `decrypt_in_place` (same keys, same counter) on the resulting buffer succeeds and gives back
the received bytes. -/
theorem decrypt_involutive (c : Cipher) (b : Bytes) (nwk app : Option Key) (N : UInt32) (p : DataPayload) (b' : Bytes)
    (hlen : b.length ≤ 4064) (h : decryptInPlace c b nwk app N = (.ok p, b')) :
    ∃ p', decryptInPlace c b' nwk app N = (.ok p', b) := by
  rcases validate_cases b with ⟨e, hm, hs⟩ | ⟨mhdr, a0, a1, a2, a3, fc, c0, c1, fo, body, m0, m1, m2, m3, ft, rfl, hfo, hft, hmaj, hm, hs⟩
  · simp [decryptInPlace, hm] at h
  · by_cases hb1 : body.length ≤ 1
    · rw [decrypt_pieces_empty c nwk app N _ ft fo body hm hb1] at h
      cases h
      exact ⟨_, decrypt_pieces_empty c nwk app N _ ft fo body hm hb1⟩
    · obtain ⟨q, x, xs, rfl⟩ : ∃ p x xs, body = p :: x :: xs := by
        match body, hb1 with
        | [], h => simp at h
        | [_], h => simp at h
        | p :: x :: xs, _ => exact ⟨p, x, xs, rfl⟩
      have hmax : (x :: xs).length ≤ 4064 := by simp [frameOf] at hlen ⊢; omega
      rw [decrypt_pieces c nwk app N mhdr a0 a1 a2 a3 fc c0 c1 fo q (x :: xs) [m0, m1, m2, m3] ft hft (by simp) hmax hm] at h
      cases hk : (if q = 0 then nwk else app) with
      | none => rw [hk] at h; cases h
      | some key =>
        rw [hk] at h
        simp only [Prod.mk.injEq] at h
        obtain ⟨_, rfl⟩ := h
        have hl2 := cryptPayload_length c key (Spec.dirOf ft) (UInt32.ofNat (Spec.fromLe [a0, a1, a2, a3]))
          (Spec.fullFcnt N (UInt16.ofNat (Spec.fromLe [c0, c1]))) (x :: xs)
        have hv2 := layout_pieces mhdr a0 a1 a2 a3 fc c0 c1 fo
          (q :: Spec.cryptPayload c key (Spec.dirOf ft) (UInt32.ofNat (Spec.fromLe [a0, a1, a2, a3]))
            (Spec.fullFcnt N (UInt16.ofNat (Spec.fromLe [c0, c1]))) (x :: xs)) [m0, m1, m2, m3] ft hmaj hft hfo rfl
        rw [decrypt_pieces c nwk app N mhdr a0 a1 a2 a3 fc c0 c1 fo q _ [m0, m1, m2, m3] ft hft (by rw [hl2]; simp)
          (by rw [hl2]; exact hmax) hv2, hk]
        simp only [crypt_involutive]
        exact ⟨_, rfl⟩
theorem view_of_layout (b : Bytes) (l : Layout) (h : Layout.validate b = .ok l) :
    (DataPayload.view ⟨b, l⟩).map DataView.toSpec = Outcome.ofExcept (Spec.decodeData b) := by
  have := parse_eq_spec b
  simpa [dataViewOf, parseData, h, bind, pure] using this

/-- the round trip at the level of the specification's description -/
theorem roundtrip_desc (c : Cipher) (s : Spec.DataDesc) (nwk : Key) (app : Option Key) (encKey : Key)
    (hfo : s.fopts.length ≤ 15) (hkey : Spec.payloadKey nwk app s = .ok encKey)
    (hmax : ∀ port pld, s.body = some (port, pld) → pld.length ≤ 4064) :
    let msg := Spec.dataMsg c encKey s
    let frame := msg ++ Spec.dataMic c nwk (Spec.dirOf s.ftype) s.devAddr s.fcnt msg
    ∃ p clear v, checkMicAndDecryptInPlace c frame nwk app s.fcnt = (.ok p, clear) ∧ p.bytes = clear
      ∧ (p.view).map DataView.toSpec = .ok v ∧ v.toDesc s.fcnt v.frm = s.norm := by
  intro msg frame
  obtain ⟨a0, a1, a2, a3, ha⟩ := le_cons4 s.devAddr.toNat
  obtain ⟨c0, c1, hc⟩ := le_cons2 (s.fcnt.toNat % 65536)
  obtain ⟨hmaj, hft⟩ := mhdr_read s.ftype
  obtain ⟨hf1, hf2, hf3, hf4, hf5⟩ := fctrl_read ⟨s.fopts.length, by omega⟩ s.ftype.isUplink s.adr s.adrAckReq s.ack s.fPending
  obtain ⟨m0, m1, m2, m3, hmic⟩ := list4 (Spec.dataMic c nwk (Spec.dirOf s.ftype) s.devAddr s.fcnt msg) (mic_length ..)
  have haddr : UInt32.ofNat (Spec.fromLe [a0, a1, a2, a3]) = s.devAddr := by
    rw [← ha, fromLe_le]
    apply UInt32.toNat_inj.mp
    have := s.devAddr.toNat_lt
    simp [UInt32.toNat_ofNat']
  have hcnt : Spec.fullFcnt s.fcnt (UInt16.ofNat (Spec.fromLe [c0, c1])) = s.fcnt := by
    apply (full_fcnt_eq s.fcnt _).2.1
    rw [← hc, fromLe_le]
    simp [UInt16.toNat_ofNat']
  -- the frame in pieces
  let body : Bytes := match s.body with
    | none => []
    | some (port, pld) => port :: Spec.cryptPayload c encKey (Spec.dirOf s.ftype) s.devAddr s.fcnt pld
  have hframe : frame = frameOf (Spec.mhdrData s.ftype) a0 a1 a2 a3 (Spec.fctrl s) c0 c1 s.fopts body [m0, m1, m2, m3] := by
    show msg ++ _ = _
    rw [hmic]
    simp only [msg, Spec.dataMsg, Spec.fhdr, ha, hc, frameOf, body]
    cases s.body with
    | none => simp
    | some pp => obtain ⟨port, pld⟩ := pp; simp
  have hfo' : s.fopts.length = (Spec.fctrl s).toNat % 16 := hf1.symm
  have hval := layout_pieces (Spec.mhdrData s.ftype) a0 a1 a2 a3 (Spec.fctrl s) c0 c1 s.fopts body [m0, m1, m2, m3] s.ftype hmaj hft hfo' rfl
  have hdec := decode_pieces (Spec.mhdrData s.ftype) a0 a1 a2 a3 (Spec.fctrl s) c0 c1 s.fopts body [m0, m1, m2, m3] s.ftype hmaj hft hfo' rfl
  rw [hframe, checked_decrypt_eq_spec, hdec]
  simp only []
  -- authentic
  have hauth : Spec.dataAuthentic c nwk s.fcnt (frameOf (Spec.mhdrData s.ftype) a0 a1 a2 a3 (Spec.fctrl s) c0 c1 s.fopts body [m0, m1, m2, m3])
      (specViewOf s.ftype a0 a1 a2 a3 (Spec.fctrl s) c0 c1 s.fopts body [m0, m1, m2, m3]) = true := by
    unfold Spec.dataAuthentic
    rw [msgOf_pieces _ _ _ _ _ _ _ _ _ _ _ rfl]
    simp only [specViewOf, haddr]
    have hmsg : msg = Spec.mhdrData s.ftype :: a0 :: a1 :: a2 :: a3 :: Spec.fctrl s :: c0 :: c1 :: (s.fopts ++ body) := by
      simp only [msg, Spec.dataMsg, Spec.fhdr, ha, hc, body]
      cases s.body with
      | none => simp
      | some pp => obtain ⟨port, pld⟩ := pp; simp
    rw [← hmsg, hmic]; simp
  rw [hauth]
  simp only [if_true]
  cases hsb : s.body with
  | none =>
    have hbody : body = [] := by simp only [body, hsb]
    rw [hbody] at hval hdec ⊢
    refine ⟨_, _, specViewOf s.ftype a0 a1 a2 a3 (Spec.fctrl s) c0 c1 s.fopts [] [m0, m1, m2, m3], decrypt_pieces_empty c (some nwk) app s.fcnt _ s.ftype s.fopts [] hval (by simp), rfl, ?_, ?_⟩
    · rw [view_of_layout _ _ hval, hdec]; rfl
    · exact toDesc_norm s a0 a1 a2 a3 c0 c1 [] [m0, m1, m2, m3] hfo haddr (by rw [hsb]; rfl)
  | some pp =>
    obtain ⟨port, pld⟩ := pp
    have hbody : body = port :: Spec.cryptPayload c encKey (Spec.dirOf s.ftype) s.devAddr s.fcnt pld := by simp only [body, hsb]
    rw [hbody] at hval hdec ⊢
    by_cases hpl : pld.length = 0
    · have hpe : pld = [] := List.length_eq_zero_iff.mp hpl
      subst hpe
      have hce : Spec.cryptPayload c encKey (Spec.dirOf s.ftype) s.devAddr s.fcnt [] = [] := rfl
      rw [hce] at hval hdec ⊢
      refine ⟨_, _, specViewOf s.ftype a0 a1 a2 a3 (Spec.fctrl s) c0 c1 s.fopts [port] [m0, m1, m2, m3], decrypt_pieces_empty c (some nwk) app s.fcnt _ s.ftype s.fopts [port] hval (by simp), rfl, ?_, ?_⟩
      · rw [view_of_layout _ _ hval, hdec]; rfl
      · exact toDesc_norm s a0 a1 a2 a3 c0 c1 [port] [m0, m1, m2, m3] hfo haddr (by rw [hsb]; rfl)
    · have hcl := cryptPayload_length c encKey (Spec.dirOf s.ftype) s.devAddr s.fcnt pld
      have hd := decrypt_pieces c (some nwk) app s.fcnt (Spec.mhdrData s.ftype) a0 a1 a2 a3 (Spec.fctrl s) c0 c1 s.fopts port
        (Spec.cryptPayload c encKey (Spec.dirOf s.ftype) s.devAddr s.fcnt pld) [m0, m1, m2, m3] s.ftype hft
        (by rw [hcl]; omega) (by rw [hcl]; exact hmax port pld hsb) hval
      -- the key the receiver selects is the key the sender used
      have hk : (if port = 0 then some nwk else app) = some encKey := by
        unfold Spec.payloadKey at hkey
        rw [hsb] at hkey
        simp only at hkey
        by_cases hp0 : port = 0
        · simp only [hp0, if_true] at hkey ⊢
          split at hkey
          · cases hkey
          · cases hkey; rfl
        · simp only [hp0, if_false] at hkey ⊢
          cases app with
          | none => cases hkey
          | some k => cases hkey; rfl
      rw [hk] at hd
      simp only [haddr, hcnt, crypt_involutive] at hd
      rw [hd]
      have hval' := layout_pieces (Spec.mhdrData s.ftype) a0 a1 a2 a3 (Spec.fctrl s) c0 c1 s.fopts (port :: pld) [m0, m1, m2, m3] s.ftype hmaj hft hfo' rfl
      have hdec' := decode_pieces (Spec.mhdrData s.ftype) a0 a1 a2 a3 (Spec.fctrl s) c0 c1 s.fopts (port :: pld) [m0, m1, m2, m3] s.ftype hmaj hft hfo' rfl
      rw [layoutOf_congr s.ftype s.fopts (port :: pld) (port :: Spec.cryptPayload c encKey (Spec.dirOf s.ftype) s.devAddr s.fcnt pld)
        (by simp [hcl])] at hval'
      refine ⟨_, _, specViewOf s.ftype a0 a1 a2 a3 (Spec.fctrl s) c0 c1 s.fopts (port :: pld) [m0, m1, m2, m3], rfl, rfl, ?_, ?_⟩
      · rw [view_of_layout _ _ hval', hdec']; rfl
      · exact toDesc_norm s a0 a1 a2 a3 c0 c1 (port :: pld) [m0, m1, m2, m3] hfo haddr (by rw [hsb]; rfl)

/-- **C02 (round trip).** Parsing any built frame returns the description it was built from: if
`build_into` yields a frame, then `check_mic_and_decrypt_in_place` on that frame with the same keys
and counter succeeds, and the accessors of the result denote the (normalised) description — all
header fields, FOpts, port and the plaintext.  `norm` clears the flag that does not exist in the
frame's direction (ADRACKReq on downlinks, FPending on uplinks), which the builder does not write. -/
theorem parse_build (c : Cipher) (d : DataFrame) (buf : Bytes) (nwk : Key) (app : Option Key) (frame : Bytes)
    (hmax : payloadLen d ≤ 4064) (hb : d.buildInto c buf nwk app = .ok frame) :
    ∃ p clear v, checkMicAndDecryptInPlace c frame nwk app d.fcnt = (.ok p, clear) ∧ p.bytes = clear
      ∧ (p.view).map DataView.toSpec = .ok v ∧ v.toDesc d.fcnt v.frm = d.toSpec.norm := by
  rw [C01.build_data_eq_spec c d buf nwk app hmax] at hb
  unfold Spec.encodeData at hb
  by_cases h15 : d.toSpec.fopts.length > 15
  · simp [h15, Outcome.ofExcept] at hb
  · simp only [h15, if_false] at hb
    cases hk : Spec.payloadKey nwk app d.toSpec with
    | error e => rw [hk] at hb; simp [Outcome.ofExcept] at hb
    | ok key =>
      rw [hk] at hb
      simp only at hb
      split at hb
      · simp [Outcome.ofExcept] at hb
      · simp only [Outcome.ofExcept, Outcome.ok.injEq] at hb
        have := roundtrip_desc c d.toSpec nwk app key (by omega) hk (by
          intro port pld hbody
          have : payloadLen d = pld.length := by
            unfold payloadLen
            unfold DataFrame.toSpec at hbody
            simp only at hbody
            cases hp : d.payload with
            | none => rw [hp] at hbody; cases hbody
            | data p nz bytes => rw [hp] at hbody; cases hbody; rfl
            | macCommands cmds => rw [hp] at hbody; cases hbody; rfl
          omega)
        simp only at this
        rw [hb] at this
        exact this

/-! ## Join frames and classification -/

/-- **C02 (JoinRequest).** parse + every accessor = the specification's decoder, for all byte strings -/
theorem parse_join_request_eq_spec (b : Bytes) :
    ((parseJoinRequest b).bind joinRequestView).map JoinRequestView.toSpec = Outcome.ofExcept (Spec.decodeJoinRequest b) := by
  unfold parseJoinRequest Spec.decodeJoinRequest
  cases b with
  | nil => rfl
  | cons mhdr rest =>
    simp only [bind, pure, checkMhdr_spec mhdr rest 0 (by decide)]
    by_cases hmaj : mhdr.toNat % 4 ≠ 0
    · simp only [hmaj, ne_eq, not_false_eq_true, if_true, Outcome.bind, Outcome.map, Outcome.ofExcept]
    · simp only [hmaj, if_false]
      by_cases ht : mhdr.toNat / 32 ≠ (0 : UInt8).toNat
      · have ht' : mhdr.toNat / 32 ≠ 0 := ht
        simp only [ht, ht', ne_eq, not_false_eq_true, if_true, Outcome.bind, Outcome.map, Outcome.ofExcept]
      · have ht' : ¬ mhdr.toNat / 32 ≠ 0 := ht
        simp only [ht, ht', if_false, bind_ok, List.length_cons]
        by_cases hl : rest.length + 1 = 23
        · have hl' : ¬ rest.length ≠ 22 := by omega
          simp only [hl, hl', if_true, if_false, bind_ok]
          unfold joinRequestView extractMic
          simp only [bind, pure]
          rw [slice_cons _ _ 1 9 (by omega) (by omega) (by omega), slice_cons _ _ 9 17 (by omega) (by omega) (by omega),
            slice_cons _ _ 17 19 (by omega) (by omega) (by omega)]
          have hu : usizeSub (mhdr :: rest).length 4 = .ok 19 := by simp [usizeSub, hl]
          rw [hu]
          simp only [bind_ok]
          rw [slice_cons _ _ 19 (mhdr :: rest).length (by omega) (by simp; omega) (by simp)]
          simp only [arr, List.length_take, List.length_drop, List.length_cons]
          have e1 : min (9 - 1) (rest.length - (1 - 1)) = 8 := by omega
          have e2 : min (17 - 9) (rest.length - (9 - 1)) = 8 := by omega
          have e3 : min (19 - 17) (rest.length - (17 - 1)) = 2 := by omega
          have e4 : min (rest.length + 1 - 19) (rest.length - (19 - 1)) = 4 := by omega
          simp only [e1, e2, e3, e4, if_true, bind_ok, Outcome.map, Outcome.ofExcept, JoinRequestView.toSpec]
          have : rest.length + 1 - 19 = 4 := by omega
          rw [this]
          simp only [Nat.sub_self, List.drop_zero, Nat.add_one_sub_one]
          rw [List.take_of_length_le (l := List.drop 18 rest) (by simp; omega)]
          have ha : arr 4 (List.drop 18 rest) = .ok (List.drop 18 rest) := by
            unfold arr; rw [if_pos (by simp; omega)]
          simp only [ha, bind_ok, leValue_eq]
        · have hl' : rest.length ≠ 22 := by omega
          simp only [hl, hl', ne_eq, not_false_eq_true, if_true, if_false, Outcome.bind, Outcome.map, Outcome.ofExcept]

/-- `JoinRequestPayload::validate_mic` = the specification's verdict, for all byte strings and keys -/
theorem join_request_mic_eq_spec (c : Cipher) (k : Key) (b : Bytes) :
    ((parseJoinRequest b).bind fun x => joinRequestValidateMic x ⟨c, k⟩)
      = Outcome.ofExcept ((Spec.decodeJoinRequest b).map fun v => Spec.joinRequestAuthentic c k b v) := by
  unfold parseJoinRequest Spec.decodeJoinRequest
  cases b with
  | nil => rfl
  | cons mhdr rest =>
    simp only [bind, pure, checkMhdr_spec mhdr rest 0 (by decide)]
    by_cases hmaj : mhdr.toNat % 4 ≠ 0
    · simp only [hmaj, ne_eq, not_false_eq_true, if_true, Outcome.bind, Except.map, Outcome.ofExcept]
    · simp only [hmaj, if_false]
      by_cases ht : mhdr.toNat / 32 ≠ (0 : UInt8).toNat
      · have ht' : mhdr.toNat / 32 ≠ 0 := ht
        simp only [ht, ht', ne_eq, not_false_eq_true, if_true, Outcome.bind, Except.map, Outcome.ofExcept]
      · have ht' : ¬ mhdr.toNat / 32 ≠ 0 := ht
        simp only [ht, ht', if_false, bind_ok, List.length_cons]
        by_cases hl : rest.length + 1 = 23
        · have hl' : ¬ rest.length ≠ 22 := by omega
          simp only [hl, hl', if_true, if_false, bind_ok]
          unfold joinRequestValidateMic extractMic
          simp only [bind, pure]
          have hs : slice (mhdr :: rest) 0 (23 - 4) = .ok (mhdr :: rest.take 18) := by
            unfold slice
            rw [if_pos (by simp; omega)]; simp
          have hu : usizeSub (mhdr :: rest).length 4 = .ok 19 := by simp [usizeSub, hl]
          rw [hs, hu]
          simp only [bind_ok]
          rw [slice_cons _ _ 19 (mhdr :: rest).length (by omega) (by simp; omega) (by simp)]
          have ha : arr 4 (List.take ((mhdr :: rest).length - 19) (List.drop (19 - 1) rest)) = .ok (List.drop 18 rest) := by
            have : (mhdr :: rest).length - 19 = 4 := by simp; omega
            rw [this]
            rw [List.take_of_length_le (l := List.drop (19 - 1) rest) (by simp; omega)]
            unfold arr; rw [if_pos (by simp; omega)]
          simp only [ha, bind_ok, Except.map, Outcome.ofExcept, Spec.joinRequestAuthentic, Spec.msgOf, calculateMic,
            Crypto.calculateMic, Spec.joinMic, List.nil_append]
          congr 1
          have : (mhdr :: rest).length - 4 = 19 := by simp; omega
          rw [this]
          simp only [List.take_succ_cons]
          exact BEq.comm
        · have hl' : rest.length ≠ 22 := by omega
          simp only [hl, hl', ne_eq, not_false_eq_true, if_true, if_false, Outcome.bind, Except.map, Outcome.ofExcept]

/-- **C02 (JoinAccept decryption).** `decrypt_in_place` on a JoinAccept refuses exactly the strings
the specification refuses (buffer untouched) and otherwise leaves MHDR | aes128_encrypt-ECB of the rest
in the buffer, for all byte strings. -/
theorem join_accept_decrypt_eq_spec (c : Cipher) (k : Key) (b : Bytes) :
    joinAcceptDecryptInPlace b ⟨c, k⟩ =
      match Spec.checkJoinAccept b with
      | .error e => (.err e, b)
      | .ok _ => (.ok (Spec.joinAcceptClear c k b), Spec.joinAcceptClear c k b) := by
  unfold joinAcceptDecryptInPlace
  rw [validate_ja_structure_spec]
  cases hs : Spec.checkJoinAccept b with
  | error e => rfl
  | ok u =>
    simp only [Outcome.ofExcept]
    cases b with
    | nil => simp [Spec.checkJoinAccept] at hs
    | cons mhdr rest =>
      have hl : rest.length = 16 ∨ rest.length = 32 := by
        unfold Spec.checkJoinAccept at hs
        simp only at hs
        split at hs; · cases hs
        split at hs; · cases hs
        split at hs; · cases hs
        omega
      have hT : 16 * (rest.length / 16) ≤ rest.length := by omega
      have hdo : (do
          let tail ← slice (mhdr :: rest) 1 (mhdr :: rest).length
          let tail ← forChunks16 (Crypto.encryptBlock ⟨c, k⟩) (tail.length / 16) tail
          copyFromSlice (mhdr :: rest) 1 (mhdr :: rest).length tail : Outcome Bytes)
          = .ok (mhdr :: Spec.ecb (c.enc k) (rest.length / 16) rest) := by
        simp only [bind]
        rw [slice_tail _ _ _ (by simp)]
        simp only [bind_ok]
        rw [forChunks16_block (c.enc k) _ (fun bs => by rfl) _ _ hT]
        simp only [bind_ok]
        have hl2 := ecb_length (c.enc k) (rest.length / 16) rest hT
        have := copy_next [mhdr] rest (Spec.ecb (c.enc k) (rest.length / 16) rest) 1 (mhdr :: rest).length rfl
          (by simp [hl2]; omega) (by omega)
        simp only [List.singleton_append] at this
        rw [this]
        simp [hl2]
      rw [hdo]
      rfl

/-- every accessor of a decrypted JoinAccept (incl. `c_f_list` for type 0 / 1 / RFU) = the specification's
reading, for every 17- or 33-byte string -/
theorem join_accept_view_eq_spec (clear : Bytes) (hl : clear.length = 17 ∨ clear.length = 33) :
    (joinAcceptView clear).map JoinAcceptView.toSpec = .ok (Spec.joinAcceptView clear) := by
  cases clear with
  | nil => simp at hl
  | cons mhdr p =>
    rcases hl with hl | hl
    · obtain ⟨x0, x1, x2, x3, x4, x5, x6, x7, x8, x9, x10, x11, x12, x13, x14, x15, rfl⟩ := list16 p (by simpa using hl)
      simp [joinAcceptView, joinAcceptCfList, extractMic, slice, arr, getByte, Outcome.ofOption, usizeSub, bind, pure,
        Outcome.bind, Outcome.map, JoinAcceptView.toSpec, Spec.joinAcceptView, leValue_eq, and_0f]
    · obtain ⟨x0, x1, x2, x3, x4, x5, x6, x7, x8, x9, x10, x11, x12, x13, x14, x15, x16, x17, x18, x19, x20, x21, x22, x23,
        x24, x25, x26, x27, x28, x29, x30, x31, rfl⟩ := list32 p (by simpa using hl)
      by_cases h0 : x27 = 0
      · subst h0
        simp [joinAcceptView, joinAcceptCfList, extractMic, slice, arr, getByte, Outcome.ofOption, usizeSub, bind, pure,
          Outcome.bind, Outcome.map, JoinAcceptView.toSpec, Spec.joinAcceptView, leValue_eq, and_0f, freqChunks,
          Spec.decodeCfList, CfListView.toSpec]
      · by_cases h1 : x27 = 1
        · subst h1
          simp [joinAcceptView, joinAcceptCfList, extractMic, slice, arr, getByte, Outcome.ofOption, usizeSub, bind, pure,
            Outcome.bind, Outcome.map, JoinAcceptView.toSpec, Spec.joinAcceptView, leValue_eq, and_0f, freqChunks,
            Spec.decodeCfList, CfListView.toSpec]
        · simp [joinAcceptView, joinAcceptCfList, extractMic, slice, arr, getByte, Outcome.ofOption, usizeSub, bind, pure,
            Outcome.bind, Outcome.map, JoinAcceptView.toSpec, Spec.joinAcceptView, leValue_eq, and_0f, freqChunks,
            Spec.decodeCfList, CfListView.toSpec, h0, h1]

/-- `DecryptedJoinAcceptPayload::validate_mic` = "aes128_cmac(AppKey, MHDR | … )[0..3] equals the last
four octets", for every 17- or 33-byte string -/
theorem join_accept_mic_eq_spec (c : Cipher) (k : Key) (clear : Bytes) (hl : clear.length = 17 ∨ clear.length = 33) :
    joinAcceptValidateMic clear ⟨c, k⟩
      = .ok (Spec.joinMic c k (Spec.msgOf clear) == (Spec.joinAcceptView clear).mic) := by
  cases clear with
  | nil => simp at hl
  | cons mhdr p =>
    have hp : p.length = 16 ∨ p.length = 32 := by simp at hl; omega
    unfold joinAcceptValidateMic extractMic
    have hu : usizeSub (mhdr :: p).length 4 = .ok (p.length - 3) := by simp [usizeSub]; omega
    simp only [bind, pure, hu, bind_ok]
    have hs : slice (mhdr :: p) 0 (p.length - 3) = .ok (Spec.msgOf (mhdr :: p)) := by
      unfold slice Spec.msgOf
      rw [if_pos (by simp; omega)]
      simp
    rw [hs, slice_cons _ _ (p.length - 3) (mhdr :: p).length (by omega) (by simp; omega) (by simp)]
    have ha : arr 4 (List.take ((mhdr :: p).length - (p.length - 3)) (List.drop (p.length - 3 - 1) p)) = .ok (p.drop (p.length - 4)) := by
      have e1 : (mhdr :: p).length - (p.length - 3) = 4 := by simp; omega
      have e2 : p.length - 3 - 1 = p.length - 4 := by omega
      rw [e1, e2, List.take_of_length_le (by simp; omega)]
      unfold arr; rw [if_pos (by simp; omega)]
    simp only [ha, bind_ok, calculateMic, Crypto.calculateMic, List.nil_append, Spec.joinMic, Spec.joinAcceptView,
      List.drop_succ_cons, List.drop_zero]
    congr 1
    exact BEq.comm

/-- **C02 (JoinAccept, checked).** `check_mic_and_decrypt_in_place` on a JoinAccept: the
specification's refusal with the buffer untouched; otherwise the buffer holds the decrypted frame and
the result is `Ok` exactly when the specification finds it authentic, `InvalidMic` otherwise. -/
theorem join_accept_check_eq_spec (c : Cipher) (k : Key) (b : Bytes) :
    joinAcceptCheckMicAndDecryptInPlace b ⟨c, k⟩ =
      match Spec.decodeJoinAccept c k b with
      | .error e => (.err e, b)
      | .ok (clear, _, authentic) => (if authentic then .ok clear else .err .invalidMic, clear) := by
  unfold joinAcceptCheckMicAndDecryptInPlace Spec.decodeJoinAccept
  rw [join_accept_decrypt_eq_spec]
  cases hs : Spec.checkJoinAccept b with
  | error e => rfl
  | ok u =>
    obtain ⟨mhdr, rest, rfl, hl⟩ := ja_cases b u hs
    simp only []
    rw [join_accept_mic_eq_spec c k _ (by rw [clear_length c k mhdr rest hl]; omega)]
    cases Spec.joinMic c k (Spec.msgOf (Spec.joinAcceptClear c k (mhdr :: rest)))
      == (Spec.joinAcceptView (Spec.joinAcceptClear c k (mhdr :: rest))).mic <;> rfl

/-- `derive_nwkskey` / `derive_appskey` = aes128_encrypt(AppKey, tag | AppNonce | NetID | DevNonce | pad16) -/
theorem derive_session_key_eq_spec (c : Cipher) (k : Key) (clear : Bytes) (tag : UInt8) (dn : DevNonce)
    (hl : clear.length = 17 ∨ clear.length = 33) :
    deriveSessionKey clear tag dn ⟨c, k⟩
      = .ok (Spec.sessionKey c k tag (Spec.joinAcceptView clear).joinNonce (Spec.joinAcceptView clear).netId
          (Spec.fromLe dn.toList)).toList := by
  obtain ⟨d0, d1, hd⟩ := vec2_toList dn
  cases clear with
  | nil => simp at hl
  | cons mhdr p =>
    have h6 : 6 ≤ p.length := by simp at hl; omega
    obtain ⟨j0, j1, j2, n0, n1, n2, rest, rfl⟩ : ∃ j0 j1 j2 n0 n1 n2 rest, p = j0 :: j1 :: j2 :: n0 :: n1 :: n2 :: rest := by
      rcases p with _ | ⟨j0, p⟩; · simp at h6
      rcases p with _ | ⟨j1, p⟩; · simp at h6
      rcases p with _ | ⟨j2, p⟩; · simp at h6
      rcases p with _ | ⟨n0, p⟩; · simp at h6
      rcases p with _ | ⟨n1, p⟩; · simp at h6
      rcases p with _ | ⟨n2, p⟩; · simp at h6
      exact ⟨_, _, _, _, _, _, _, rfl⟩
    simp only [deriveSessionKey, bind, hd, Spec.sessionKey, Spec.joinAcceptView, List.drop_succ_cons, List.drop_zero,
      List.take_succ_cons, List.take_zero, le3_fromLe, le2_fromLe]
    simp [setByte, slice, arr, copyFromSlice, Outcome.bind, Crypto.encryptBlock, Block.ofList?, List.replicate]
    rfl

/-- **C02 (classification).** `parse` classifies every byte string as the specification does and the
classified view reads as the specification's: JoinRequest fields, the opaque (still encrypted)
JoinAccept, or the data-frame view; same refusals (TooShort, UnsupportedMajorVersion,
UnsupportedMessageType for RFU/Proprietary, and the per-type structure errors). -/
theorem parse_top_eq_spec (b : Bytes) : (parse b).bind phyToSpec = Outcome.ofExcept (Spec.decode b) := by
  unfold parse Spec.decode
  cases b with
  | nil => rfl
  | cons mhdr rest =>
    simp only []
    have h1 := major_eq mhdr
    by_cases hmaj : mhdr.toNat % 4 ≠ 0
    · have : mhdr &&& 0b11 ≠ 0 := by simpa [hmaj] using h1
      simp only [this, hmaj, ne_eq, not_false_eq_true, if_true, Outcome.bind, Outcome.ofExcept]
    · have : ¬ (mhdr &&& 0b11 ≠ 0) := by simpa [hmaj] using h1
      simp only [this, hmaj, if_false]
      have hlt : mhdr.toNat / 32 < 8 := by have := mhdr.toNat_lt; omega
      have hjr := parse_join_request_eq_spec (mhdr :: rest)
      have hd := parse_eq_spec (mhdr :: rest)
      have hja := validate_ja_structure_spec (mhdr :: rest)
      have hdata : ∀ t : UInt8, (2 : UInt8) ≤ t ∧ t ≤ (5 : UInt8) → mhdr >>> 5 = t →
          ((if mhdr >>> 5 = 0 then (parseJoinRequest (mhdr :: rest)).bind fun b => pure (PhyPayload.joinRequest b)
            else if mhdr >>> 5 = 1 then (parseJoinAccept (mhdr :: rest)).bind fun b => pure (PhyPayload.joinAccept b)
            else if (2 : UInt8) ≤ mhdr >>> 5 ∧ mhdr >>> 5 ≤ (5 : UInt8) then (parseData (mhdr :: rest)).bind fun p => pure (PhyPayload.data p)
            else Outcome.err Err.unsupportedMessageType).bind phyToSpec)
          = Outcome.ofExcept ((Spec.decodeData (mhdr :: rest)).map Spec.Decoded.data) := by
        intro t ht he
        have h0 : ¬ (mhdr >>> 5 = 0) := by rw [he]; intro h; rw [h] at ht; exact absurd ht.1 (by decide)
        have h1' : ¬ (mhdr >>> 5 = 1) := by rw [he]; intro h; rw [h] at ht; exact absurd ht.1 (by decide)
        have h2 : (2 : UInt8) ≤ mhdr >>> 5 ∧ mhdr >>> 5 ≤ (5 : UInt8) := by rw [he]; exact ht
        simp only [h0, h1', h2, and_self, if_true, if_false, pure]
        rw [bind_bind]
        simp only [bind_ok, phyToSpec]
        rw [bind_map_comp, ofExcept_map, ← hd, map_map]
        rfl
      match hq : mhdr.toNat / 32, hlt with
      | 0, _ =>
        have e : mhdr >>> 5 = 0 := shift_lit mhdr 0 (by omega) hq
        simp only [e, if_true, pure]
        rw [bind_bind]
        simp only [bind_ok, phyToSpec]
        rw [bind_map_comp, ofExcept_map, ← hjr, map_map]
        rfl
      | 1, _ =>
        have e : mhdr >>> 5 = 1 := shift_lit mhdr 1 (by omega) hq
        have : ¬ ((1 : UInt8) = 0) := by decide
        simp only [e, this, if_true, if_false, pure]
        rw [bind_bind]
        simp only [bind_ok, phyToSpec, parseJoinAccept, bind, pure]
        rw [hja]
        cases Spec.checkJoinAccept (mhdr :: rest) <;> rfl
      | 2, _ => exact hdata 2 (by decide) (shift_lit mhdr 2 (by omega) hq)
      | 3, _ => exact hdata 3 (by decide) (shift_lit mhdr 3 (by omega) hq)
      | 4, _ => exact hdata 4 (by decide) (shift_lit mhdr 4 (by omega) hq)
      | 5, _ => exact hdata 5 (by decide) (shift_lit mhdr 5 (by omega) hq)
      | 6, _ =>
        have e : mhdr >>> 5 = 6 := shift_lit mhdr 6 (by omega) hq
        rw [e]; rfl
      | 7, _ =>
        have e : mhdr >>> 5 = 7 := shift_lit mhdr 7 (by omega) hq
        rw [e]; rfl
      | n + 8, h => omega

/-- **C02 (JoinAccept round trip).** For a cipher whose decryption inverts its encryption (as AES
does): decrypting-and-checking a built JoinAccept with the same key succeeds, leaves the plaintext
frame in the buffer, and every accessor (nonce, NetID, DevAddr, DLSettings, RxDelay (low nibble),
CFList type 0/1 or absent) reads back the description it was built from. -/
theorem join_accept_round_trip (c : Cipher) (hc : LawfulCipher c) (d : JoinAccept) (buf : Bytes) (k : Key) (frame : Bytes)
    (hb : d.buildInto buf ⟨c, k⟩ = .ok frame) :
    ∃ clear mic, joinAcceptCheckMicAndDecryptInPlace frame ⟨c, k⟩ = (.ok clear, clear)
      ∧ (joinAcceptView clear).map JoinAcceptView.toSpec = .ok (jaExpected d.toSpec mic) := by
  rw [C01.build_join_accept_eq_spec] at hb
  unfold Spec.encodeJoinAccept at hb
  simp only at hb
  split at hb
  · simp [Outcome.ofExcept] at hb
  · simp only [Outcome.ofExcept, Outcome.ok.injEq] at hb
    obtain ⟨hjn, hni, hcf⟩ := toSpec_bounds d
    generalize hs : d.toSpec = s at *
    have hml := ja_msg_length s
    obtain ⟨m0, m1, m2, m3, hmic⟩ := list4 (Spec.joinMic c k (Spec.joinAcceptMsg s)) (joinMic_length ..)
    -- msg = 0x20 :: tail
    obtain ⟨tl, htl⟩ : ∃ tl, Spec.joinAcceptMsg s = 0x20 :: tl := ⟨_, rfl⟩
    have htll : tl.length = 12 ∨ tl.length = 28 := by
      rw [htl] at hml; simp only [List.length_cons] at hml
      split at hml <;> omega
    rw [htl] at hmic
    rw [htl, hmic] at hb
    simp only [List.drop_succ_cons, List.drop_zero] at hb
    have hXl : (tl ++ [m0, m1, m2, m3]).length = 16 ∨ (tl ++ [m0, m1, m2, m3]).length = 32 := by simp; omega
    have hX16 : 16 * ((tl ++ [m0, m1, m2, m3]).length / 16) ≤ (tl ++ [m0, m1, m2, m3]).length := by omega
    have hrl := ecb_length (c.dec k) _ _ hX16
    refine ⟨0x20 :: (tl ++ [m0, m1, m2, m3]), [m0, m1, m2, m3], ?_, ?_⟩
    · rw [join_accept_check_eq_spec, ← hb]
      unfold Spec.decodeJoinAccept
      have hchk : Spec.checkJoinAccept (Spec.mhdrJoinAccept :: Spec.ecb (c.dec k) ((tl ++ [m0, m1, m2, m3]).length / 16) (tl ++ [m0, m1, m2, m3]))
          = .ok () := by
        unfold Spec.checkJoinAccept
        simp only [Spec.mhdrJoinAccept, hrl]
        have : ¬ ((tl ++ [m0, m1, m2, m3]).length ≠ 16 ∧ (tl ++ [m0, m1, m2, m3]).length ≠ 32) := by omega
        rw [if_neg this]
        have e1 : ¬ (UInt8.toNat 32 % 4 ≠ 0) := by decide
        have e2 : ¬ (UInt8.toNat 32 / 32 ≠ 1) := by decide
        rw [if_neg e1, if_neg e2]
      rw [hchk]
      simp only []
      have hclear : Spec.joinAcceptClear c k (Spec.mhdrJoinAccept :: Spec.ecb (c.dec k) ((tl ++ [m0, m1, m2, m3]).length / 16) (tl ++ [m0, m1, m2, m3]))
          = 0x20 :: (tl ++ [m0, m1, m2, m3]) := by
        simp only [Spec.joinAcceptClear, hrl, Spec.mhdrJoinAccept]
        rw [ecb_inv _ _ (hc.enc_dec k) _ _ hX16]
      rw [hclear]
      have hview := ja_view_of_msg s m0 m1 m2 m3 hjn hni hcf
      rw [htl] at hview
      simp only [List.cons_append] at hview
      have hauth : (Spec.joinMic c k (Spec.msgOf (0x20 :: (tl ++ [m0, m1, m2, m3])))
          == (Spec.joinAcceptView (0x20 :: (tl ++ [m0, m1, m2, m3]))).mic) = true := by
        rw [hview]
        have : Spec.msgOf (0x20 :: (tl ++ [m0, m1, m2, m3])) = 0x20 :: tl := by
          unfold Spec.msgOf
          have : (0x20 :: (tl ++ [m0, m1, m2, m3])).length - 4 = (0x20 :: tl).length := by simp
          rw [this, ← List.cons_append, List.take_left']
          rfl
        rw [this, hmic]
        simp [jaExpected]
      rw [hauth]
      rfl
    · rw [join_accept_view_eq_spec _ (by simp; omega)]
      have hview := ja_view_of_msg s m0 m1 m2 m3 hjn hni hcf
      rw [htl] at hview
      simp only [List.cons_append] at hview
      rw [hview]

/-- The JoinAccept round trip for the concrete AES-128 of `Model/Aes.lean` — no hypothesis left:
`LawfulCipher aes` is a theorem (`Lora.aes_lawful`). -/
theorem join_accept_round_trip_aes (d : JoinAccept) (buf : Bytes) (k : Key) (frame : Bytes)
    (hb : d.buildInto buf ⟨aes, k⟩ = .ok frame) :
    ∃ clear mic, joinAcceptCheckMicAndDecryptInPlace frame ⟨aes, k⟩ = (.ok clear, clear)
      ∧ (joinAcceptView clear).map JoinAcceptView.toSpec = .ok (jaExpected d.toSpec mic) :=
  join_accept_round_trip aes aes_lawful d buf k frame hb

/-- **C02 (JoinRequest round trip).** Parsing a built JoinRequest returns the EUIs and nonce it was
built from, and its MIC validates under the same key. -/
theorem join_request_round_trip (c : Cipher) (d : JoinRequest) (buf : Bytes) (k : Key) (frame : Bytes)
    (hb : d.buildInto buf ⟨c, k⟩ = .ok frame) :
    ((parseJoinRequest frame).bind joinRequestView).map JoinRequestView.toSpec
        = .ok { joinEui := d.toSpec.joinEui, devEui := d.toSpec.devEui, devNonce := d.toSpec.devNonce
                mic := Spec.joinMic c k (Spec.joinRequestMsg d.toSpec) }
    ∧ ((parseJoinRequest frame).bind fun x => joinRequestValidateMic x ⟨c, k⟩) = .ok true := by
  rw [C01.build_join_request_eq_spec] at hb
  unfold Spec.encodeJoinRequest at hb
  simp only at hb
  split at hb
  · simp [Outcome.ofExcept] at hb
  · simp only [Outcome.ofExcept, Outcome.ok.injEq] at hb
    rw [parse_join_request_eq_spec, join_request_mic_eq_spec, ← hb]
    generalize d.toSpec = s
    obtain ⟨m0, m1, m2, m3, hmic⟩ := list4 (Spec.joinMic c k (Spec.joinRequestMsg s)) (joinMic_length ..)
    have hje : (Spec.le 8 s.joinEui.toNat).length = 8 := le_length ..
    have hde : (Spec.le 8 s.devEui.toNat).length = 8 := le_length ..
    have hdn : (Spec.le 2 s.devNonce.toNat).length = 2 := le_length ..
    have vJ : UInt64.ofNat (Spec.fromLe (Spec.le 8 s.joinEui.toNat)) = s.joinEui := by
      rw [fromLe_le]; apply UInt64.toNat_inj.mp; have := s.joinEui.toNat_lt; simp [UInt64.toNat_ofNat']
    have vD : UInt64.ofNat (Spec.fromLe (Spec.le 8 s.devEui.toNat)) = s.devEui := by
      rw [fromLe_le]; apply UInt64.toNat_inj.mp; have := s.devEui.toNat_lt; simp [UInt64.toNat_ofNat']
    have vN : UInt16.ofNat (Spec.fromLe (Spec.le 2 s.devNonce.toNat)) = s.devNonce := by
      rw [fromLe_le]; apply UInt16.toNat_inj.mp; have := s.devNonce.toNat_lt; simp [UInt16.toNat_ofNat']
    have hmsg : Spec.joinRequestMsg s = 0x00 :: (Spec.le 8 s.joinEui.toNat ++ Spec.le 8 s.devEui.toNat ++ Spec.le 2 s.devNonce.toNat) := rfl
    generalize Spec.le 8 s.joinEui.toNat = J at *
    generalize Spec.le 8 s.devEui.toNat = D at *
    generalize Spec.le 2 s.devNonce.toNat = N at *
    have hdec : Spec.decodeJoinRequest (Spec.joinRequestMsg s ++ Spec.joinMic c k (Spec.joinRequestMsg s))
        = .ok { joinEui := s.joinEui, devEui := s.devEui, devNonce := s.devNonce, mic := [m0, m1, m2, m3] } := by
      rw [hmic, hmsg]
      unfold Spec.decodeJoinRequest
      simp only [List.cons_append]
      have e1 : ¬ (UInt8.toNat 0 % 4 ≠ 0) := by decide
      have e2 : ¬ (UInt8.toNat 0 / 32 ≠ 0) := by decide
      have e3 : ¬ ((J ++ D ++ N ++ [m0, m1, m2, m3]).length ≠ 22) := by simp [hje, hde, hdn]
      rw [if_neg e1, if_neg e2, if_neg e3]
      apply congrArg Except.ok
      have t1 : (J ++ D ++ N ++ [m0, m1, m2, m3]).take 8 = J := by
        rw [List.append_assoc, List.append_assoc, List.take_left' hje]
      have t2 : ((J ++ D ++ N ++ [m0, m1, m2, m3]).drop 8).take 8 = D := by
        rw [List.append_assoc, List.append_assoc, List.drop_left' hje, List.take_left' hde]
      have hJD : (J ++ D).length = 16 := by simp [hje, hde]
      have t3 : ((J ++ D ++ N ++ [m0, m1, m2, m3]).drop 16).take 2 = N := by
        rw [List.append_assoc (J ++ D), List.drop_left' hJD, List.take_left' hdn]
      have hJDN : (J ++ D ++ N).length = 18 := by simp [hje, hde, hdn]
      have t4 : (J ++ D ++ N ++ [m0, m1, m2, m3]).drop 18 = [m0, m1, m2, m3] := List.drop_left' hJDN
      rw [t1, t2, t3, t4, vJ, vD, vN]
    rw [hdec]
    refine ⟨by rw [hmic]; rfl, ?_⟩
    simp only [Except.map, Outcome.ofExcept, Spec.joinRequestAuthentic]
    congr 1
    have : Spec.msgOf (Spec.joinRequestMsg s ++ Spec.joinMic c k (Spec.joinRequestMsg s)) = Spec.joinRequestMsg s := by
      unfold Spec.msgOf
      rw [List.length_append, joinMic_length, Nat.add_sub_cancel, List.take_left' rfl]
    rw [this, hmic]
    exact beq_self_eq_true _

/-! ## Non-vacuity: the published frames of `lorawan-encoding/tests/lorawan.rs`

`Lemmas/C02Vectors.lean` runs the model (Lean AES, kernel evaluation) on the repository's pinned
frames.  Here the hypotheses of the theorems are shown satisfiable on them, and through the theorems
the *specification* gives the same verdicts. -/

section Vectors
open C02Vectors

/-- the published uplink parses; every accessor as the tests expect (`header_accessors`) -/
example : dataViewOf upFrame = .ok
    { frameType := .unconfirmedUp, isUplink := true, isConfirmed := false, devAddr := [0x04, 0x03, 0x02, 0x01],
      fctrlRaw := 0x80, adr := true, adrAckReq := false, ack := false, fPending := false, fOptsLen := 0, fcnt := 1,
      fOpts := [], fPort := some 1, frm := [0xa6, 0x94, 0x64, 0x26, 0x15], mic := [0xd6, 0xc3, 0xb5, 0x82] } := by
  decide +kernel
example : upFrame.length ≤ 4064 := by decide
/-- structural refusals are inhabited -/
example : Outcome.ofExcept (Spec.decodeData (upFrame.take 11)) = .err .tooShort := by decide +kernel
example : Outcome.ofExcept (Spec.decodeData (0x41 :: upFrame.drop 1)) = .err .unsupportedMajorVersion := by decide +kernel
example : Outcome.ofExcept (Spec.decodeData [0x80, 0x04, 0x03, 0x02, 0x01, 0x0f, 0xff, 0x04, 0x01, 0x02, 0x03, 0x04])
    = .err .truncatedFhdr := by decide +kernel

/-- `checked_decrypt_fail_untouched` has an inhabited hypothesis: a frame with one flipped MIC bit fails
with `InvalidMic`, and the theorem (not evaluation) says the buffer is the received one -/
example : (checkMicAndDecryptInPlace aes upBad k02 (some k01) 1).2 = upBad :=
  checked_decrypt_fail_untouched aes upBad k02 (some k01) 1 .invalidMic (by rw [bad_checked])

/-- through `checked_decrypt_eq_spec`: the specification finds the published uplink authentic for counter 1 -/
example : ∃ v, Spec.decodeData upFrame = .ok v ∧ Spec.dataAuthentic aes k02 1 upFrame v = true := by
  have h := checked_decrypt_eq_spec aes upFrame k02 (some k01) 1
  have hu := up_checked
  cases hd : Spec.decodeData upFrame with
  | error e => rw [hd] at h; rw [h] at hu; simp at hu
  | ok v =>
    refine ⟨v, rfl, ?_⟩
    rw [hd] at h
    by_cases ha : Spec.dataAuthentic aes k02 1 upFrame v = true
    · exact ha
    · simp only [ha, if_false, Bool.false_eq_true] at h; rw [h] at hu; simp at hu

/-- … and not authentic for the counter 65537 of another epoch (`validate_mic_eq_spec`) -/
example : ∃ v, Spec.decodeData upFrame = .ok v ∧ Spec.dataAuthentic aes k02 65537 upFrame v = false := by
  have h := validate_mic_eq_spec aes k02 65537 upFrame
  rw [up_mic_other_epoch] at h
  cases hd : Spec.decodeData upFrame with
  | error e => rw [hd] at h; simp [Except.map, Outcome.ofExcept] at h
  | ok v =>
    rw [hd] at h
    simp only [Except.map, Outcome.ofExcept, Outcome.ok.injEq] at h
    exact ⟨v, rfl, h.symm⟩

/-- the published JoinAccept: through `join_accept_check_eq_spec` the specification decrypts it to the
plaintext the tests pin and finds it authentic -/
example : ∃ v, Spec.decodeJoinAccept aes appKey [0x20, 0x49, 0x3e, 0xeb, 0x51, 0xfb, 0xa2, 0x11, 0x6f, 0x81, 0x0e, 0xdb, 0x37,
      0x42, 0x97, 0x51, 0x42]
    = .ok ([0x20, 0xc7, 0x0b, 0x57, 0x01, 0x11, 0x22, 0x80, 0x19, 0x03, 0x02, 0x00, 0x00, 0x43, 0x48, 0x5b, 0xbc], v, true) := by
  have h := join_accept_check_eq_spec aes appKey [0x20, 0x49, 0x3e, 0xeb, 0x51, 0xfb, 0xa2, 0x11, 0x6f, 0x81, 0x0e, 0xdb, 0x37,
      0x42, 0x97, 0x51, 0x42]
  rw [ja_checked] at h
  cases hd : Spec.decodeJoinAccept aes appKey [0x20, 0x49, 0x3e, 0xeb, 0x51, 0xfb, 0xa2, 0x11, 0x6f, 0x81, 0x0e, 0xdb, 0x37,
      0x42, 0x97, 0x51, 0x42] with
  | error e => rw [hd] at h; simp at h
  | ok r =>
    obtain ⟨clear, v, a⟩ := r
    rw [hd] at h
    simp only [Prod.mk.injEq] at h
    obtain ⟨h1, h2⟩ := h
    cases a
    · simp at h1
    · exact ⟨v, by rw [h2]⟩

/-- the hypothesis of `join_accept_round_trip` is satisfiable — by the very cipher the driver runs:
`Lemmas/AesLemmas.lean` proves that the Lean AES-128 decrypts what it encrypts and vice versa -/
example : LawfulCipher aes := aes_lawful

end Vectors

#print axioms parse_eq_spec
#print axioms validate_mic_eq_spec
#print axioms validate_mic_iff
#print axioms decrypt_eq_spec
#print axioms checked_decrypt_eq_spec
#print axioms checked_decrypt_fail_untouched
#print axioms decrypt_involutive
#print axioms full_fcnt_eq
#print axioms roundtrip_desc
#print axioms parse_build
#print axioms parse_join_request_eq_spec
#print axioms join_request_mic_eq_spec
#print axioms join_accept_decrypt_eq_spec
#print axioms join_accept_view_eq_spec
#print axioms join_accept_mic_eq_spec
#print axioms join_accept_check_eq_spec
#print axioms derive_session_key_eq_spec
#print axioms parse_top_eq_spec
#print axioms join_accept_round_trip
#print axioms join_accept_round_trip_aes
#print axioms Lora.aes_lawful
#print axioms join_request_round_trip

end C02
