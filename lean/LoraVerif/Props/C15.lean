import LoraVerif.Gen.Modulation
import LoraVerif.Spec.Airtime
import LoraVerif.Spec.SemtechArith
import LoraVerif.Model.PhyArith
/-!
# C15 — low-data-rate optimisation is decided identically everywhere

`Gen.Modulation` is regenerated from `lora-modulation/src/lib.rs` on every run (tie A); the drivers'
`create_modulation_params` / `set_modulation_params` fragments are the hand model `Model.PhyArith`,
tied to the real drivers exhaustively over chip × SF × BW × band × prior register content by
`harness/src/c15.rs` (tie B).  After the three `fix:` commits the drivers call the generated
`BaseBandModulationParams::new`, so the decision itself is tie A for all four implementations.

The rule the property states is about the symbol time `2^SF / BW` of the bandwidth the chip
realises.  The specification therefore carries its OWN table of the ten bandwidths
(`Spec.Airtime.Bw.hz6`, exact, in sixths of a hertz) and every theorem below compares the code's
decision with `Spec.Airtime.ldroPhys` on that table — not with a rule evaluated on the code's own
`Bandwidth::hz()` constants (until round 4 it was: specification and code then shared the rounded
15 630 Hz and nobody noticed that SF8 / 15.625 kHz = 16.384 ms was left OFF; DESIGN §9.36).

Property theorems: `modulation_ldro`, `driver_ldro`, `programmed_bit`, `ldro_everywhere`,
`hz_constants_faithful`, `thresholds_agree`, `ral_agrees`.
-/
open Gen.Modulation Spec.Semtech Model.PhyArith

namespace C15

/-- **Airtime calculator.** `BaseBandModulationParams::new` never overflows and its `ldro` flag is the
exact (untruncated, unrounded) symbol-time rule on the physical bandwidth, `2^SF / BW ≥ 16.38 ms`, for
all 80 pairs and every coding rate. -/
theorem modulation_ldro (sf : SpreadingFactor) (bw : Bandwidth) (cr : CodingRate) :
    (BaseBandModulationParams.new sf bw cr).map (·.ldro) = some (Spec.Airtime.ldroPhys sf.factor (specBw bw)) := by
  cases sf <;> cases bw <;> cases cr <;> decide

/-- **Drivers.** For every chip variant, every SF, BW, CR and *every* RF frequency (unbounded `Int`):
`create_modulation_params` fails exactly on the pairs the chip does not offer, and otherwise returns
— without panic — the symbol-time rule's decision as 0/1. -/
theorem driver_ldro (c : Chip) (sf : SpreadingFactor) (bw : Bandwidth) (cr : CodingRate) (rf : Int) :
    createModParams c sf bw cr rf =
      if supports c sf.factor (specBw bw) rf then .ok (Rt.b2i (Spec.Semtech.ldro sf.factor (specBw bw))) else .err := by
  unfold createModParams supports supportsAt
  by_cases h : rf < 400000000 <;> simp only [h, decide_true, decide_false] <;>
    cases c <;> cases sf <;> cases bw <;> cases cr <;> decide

/-- **Programmed bit.** Whatever the prior content of the read-modified-written register (all 256
values) and whatever the coding rate / bandwidth sharing that register, the flag the chip finds at
its datasheet position equals the `low_data_rate_optimize` field (0 or 1). -/
theorem programmed_bit (c : Chip) (f : Fin 2) (prior : Fin 256) (bw : Bandwidth) (cr : CodingRate) :
    ldroBit c (ldroByte c f.val prior.val (sx1272BwCode bw) (crCode cr)) = f.val := by
  cases c
  case sx1272 => revert prior; revert f; cases bw <;> cases cr <;> decide +kernel
  case sx1276 => simp only [ldroByte, ldroBit]; revert prior; revert f; decide +kernel
  all_goals simp only [ldroByte, ldroBit]

/-- **C15 (main).** For every chip and every (SF, BW, CR, RF) the chip supports, the airtime
calculator's flag, the driver's `low_data_rate_optimize` field and the bit the chip decodes from
the programmed byte (for any prior register content) are all equal to the symbol-time rule on the
physical bandwidth. -/
theorem ldro_everywhere (c : Chip) (sf : SpreadingFactor) (bw : Bandwidth) (cr : CodingRate) (rf : Int)
    (prior : Fin 256) (hs : supports c sf.factor (specBw bw) rf = true) :
    ∃ f : Int, createModParams c sf bw cr rf = .ok f ∧
      f = Rt.b2i (Spec.Airtime.ldroPhys sf.factor (specBw bw)) ∧
      (BaseBandModulationParams.new sf bw cr).map (fun p => Rt.b2i p.ldro) = some f ∧
      (ldroBit c (ldroByte c f.toNat prior.val (sx1272BwCode bw) (crCode cr)) : Int) = f := by
  refine ⟨Rt.b2i (Spec.Airtime.ldroPhys sf.factor (specBw bw)), ?_, rfl, ?_, ?_⟩
  · rw [driver_ldro, hs]; rfl
  · have := modulation_ldro sf bw cr
    cases h : BaseBandModulationParams.new sf bw cr with
    | none => simp [h] at this
    | some p => simp [h] at this; simp [this]
  · cases hl : Spec.Airtime.ldroPhys sf.factor (specBw bw)
    · have := programmed_bit c 0 prior bw cr
      simp only [Rt.b2i] at *; simpa using congrArg (Int.ofNat) this
    · have := programmed_bit c 1 prior bw cr
      simp only [Rt.b2i] at *; simpa using congrArg (Int.ofNat) this

/-- **The code's bandwidth constants.** The symbol-time rule evaluated on the whole-hertz constant
`Bandwidth::hz()` decides like the rule on the physical bandwidth of the setting, for every spreading
factor: no rounded constant sits on the other side of the 16.38 ms boundary from the bandwidth it
stands for.  (`hz()` = 15 630 for the 15.625 kHz setting broke exactly this at SF8: 16.379 ms instead
of 16.384 ms.  Only the decision is constrained — any constant that decides alike is accepted.) -/
theorem hz_constants_faithful (sf : SpreadingFactor) (bw : Bandwidth) :
    Spec.Airtime.ldro sf.factor bw.hz = Spec.Airtime.ldroPhys sf.factor (specBw bw) := by
  cases sf <;> cases bw <;> decide

/-- **Side lemma.** On the 80-entry table the thresholds 16.38 ms (datasheets), 16.384 ms (= 2^14 µs,
the calculator's constant) and the calculator's truncated-microsecond comparison select the same
pairs: no pair has a symbol time in [16.380, 16.384) ms (the boundary pairs SF11/125 kHz,
SF12/250 kHz, SF10/62.5 kHz, SF9/31.25 kHz, SF8/15.625 kHz, SF7/7.8125 kHz are all exactly
16.384 ms, on). -/
theorem thresholds_agree (sf : SpreadingFactor) (bw : Bandwidth) :
    Spec.Airtime.ldroPhys sf.factor (specBw bw) = decide (2 ^ sf.factor.toNat * 6000000 ≥ 16384 * (specBw bw).hz6) ∧
    Spec.Airtime.ldroPhys sf.factor (specBw bw) = decide (Spec.Airtime.tsym sf.factor bw.hz ≥ 16384) := by
  cases sf <;> cases bw <;> decide

/-- **Cross-check of the specification against the vendor table.** Semtech's `ral_compute_lora_ldro`
(a per-bandwidth table) equals the symbol-time rule for every pair with BW ≥ 62.5 kHz — in
particular for every LoRaWAN data rate — and is never *off* where the rule says *on*
(the vendor table is coarser below: it also enables LDRO for SF9/41.67 kHz = 12.3 ms and for every
SF at ≤ 31.25 kHz). -/
theorem ral_agrees (sf : SpreadingFactor) (bw : Bandwidth) :
    ((specBw bw).hz6 ≥ 375000 → ralLdro sf.factor (specBw bw) = Spec.Airtime.ldroPhys sf.factor (specBw bw)) ∧
    (Spec.Airtime.ldroPhys sf.factor (specBw bw) = true → ralLdro sf.factor (specBw bw) = true) := by
  cases sf <;> cases bw <;> decide

/-! Non-vacuity: the LoRaWAN boundary pairs named in the property text, on chips that support them. -/
example : supports .sx1276 11 .k125 868100000 = true := by decide
example : createModParams .sx1276 ._11 ._125KHz ._4_5 868100000 = .ok 1 := by decide
example : createModParams .sx1272 ._12 ._250KHz ._4_5 868100000 = .ok 1 := by decide
example : createModParams .sx1262 ._10 ._62KHz ._4_5 868100000 = .ok 1 := by decide
example : createModParams .lr1110 ._12 ._41KHz ._4_8 433050000 = .ok 1 := by decide
example : createModParams .sx1261 ._8 ._15KHz ._4_5 169400000 = .ok 1 := by decide   -- 16.384 ms
example : createModParams .sx1261 ._7 ._7KHz ._4_5 169400000 = .ok 1 := by decide    -- 16.384 ms
example : createModParams .sx1261 ._8 ._20KHz ._4_5 169400000 = .ok 0 := by decide   -- 12.288 ms
example : createModParams .sx1276 ._12 ._500KHz ._4_5 169400000 = .err := by decide   -- band rule
example : ldroBit .sx1276 (ldroByte .sx1276 1 0xff 0 1) = 1 ∧ ldroBit .sx1276 (ldroByte .sx1276 0 0xff 0 1) = 0 := by decide
/-- the specification's table disagrees with a rule evaluated on the rounded 15 630 Hz exactly at SF8 -/
example : Spec.Airtime.ldro 8 15630 = false ∧ Spec.Airtime.ldroPhys 8 .k15 = true ∧ Spec.Airtime.ldro 8 15625 = true := by decide

end C15

#print axioms C15.modulation_ldro
#print axioms C15.driver_ldro
#print axioms C15.programmed_bit
#print axioms C15.ldro_everywhere
#print axioms C15.hz_constants_faithful
#print axioms C15.thresholds_agree
#print axioms C15.ral_agrees
