import LoraVerif.Lemmas.PhyWp
import LoraVerif.Model.ChipIrq
/-!
# C14, the IRQ-mode defect (builder I): `radio_mode` was recorded BEFORE the IRQ routing was programmed

`prepare_for_tx` / `prepare_for_rx` / `prepare_for_cad` (and `continuous_wave`) assigned
`self.radio_mode = Transmit / Receive / ChannelActivityDetection` before the final
`set_irq_params(Some(self.radio_mode)).await?`.  One SPI / busy fault at that last write: the call
returns `Err`, the mode is already set, the next `tx()` / `start_rx()` / `cad()` is accepted and starts
the operation with the IRQ routing of ANOTHER operation in place (SX126x after a CAD: only the CAD bits
are routed to DIO1, TxDone never raises the line, `tx()` waits forever).

Here:
* `irq_mode_unfixed_counterexample*` / `irq_mode_fixed*`: the history on the model of the code as it
  was (`prepareForTxUnfixed` …) and as it is after `fix-irq-mode` (`Model/PhyState.lean`), judged by the
  mode-specific tracker of `Model/ChipIrq.lean`;
* `prepare_for_*_failure_keeps_mode`: for EVERY radio kind (any `RadioKindOps`, no assumption on the
  chip operations), every driver state, every chip answer, a fault at any I/O step and a drop at any
  `await_irq`: a `prepare_for_tx` (rx, cad) that does not return `Ok` leaves `radio_mode` as it was or
  `Standby` — it never newly records the operation's mode; and when it returns `Ok` the mode is the
  operation's.  (False for the code as it was: `*_unfixed_breaks_it`.)

NOT proved here (full statement, kept for the record):
  `∀ history, Inv' …` with `Inv'` = `Inv` of `Lemmas/PhyInv.lean` plus
  `d.radioMode = .transmit → it.cls.tx`, `d.radioMode = .receive _ → it.cls.rx`, `d.radioMode = .cad → it.cls.cad`
  for `it = irqTrack` of the history's transcript, hence `startedWrongIrq = false ∧ rxStartedWrongIrq = false`
  (`listen` exempt).  It needs the `wp` calculus of `Lemmas/PhyWp.lean` re-done over `ChipTrack × IrqTrack`
  and one more `OpsSpec` field per operation ("leaves `cls` alone" / "`set_irq_params m` programs `classOf m`
  or, when it fails, a class that no accepted operation needs").  Until then the clause is DECIDED on the
  bounded exploration by the correspondence (`C14 inv` lines: the Rust tracker on the real transcript and
  this tracker on the model's transcript must both say `ok`).
-/
open Model.Phy Model.Phy.M
namespace Model.Phy

/-! ### the three programs as they were before `fix-irq-mode` -/
section
variable {σ μ : Type} (rk : RadioKindOps σ μ)

def prepareForTxUnfixed (m : μ) (pkt : PacketParams) (power : Int) (payload : Bytes) : M σ Unit := do
  prepareModem rk (rk.freqOf m)
  let d ← get
  call (rk.setModulationParams d.rk m)
  call (rk.setTxPowerAndRampTime power (some m) true)
  toStandby rk
  if payload.length > 255 then throw (.PayloadSizeUnexpected payload.length) else
  call (rk.setPacketParams { pkt with payloadLength := payload.length })
  call (rk.setChannel (rk.freqOf m))
  call (rk.setPayload payload)
  setMode .transmit
  call (rk.setIrqParams (some .transmit))

def prepareForRxUnfixed (mode : RxMode) (m : μ) (pkt : PacketParams) : M σ Unit := do
  prepareModem rk (rk.freqOf m)
  let d ← get
  call (rk.setModulationParams d.rk m)
  call (rk.setPacketParams pkt)
  call (rk.setChannel (rk.freqOf m))
  setMode (.receive mode)
  call (rk.setIrqParams (some (.receive mode)))

def prepareForCadUnfixed (m : μ) : M σ Unit := do
  prepareModem rk (rk.freqOf m)
  let d ← get
  call (rk.setModulationParams d.rk m)
  call (rk.setChannel (rk.freqOf m))
  setMode .cad
  call (rk.setIrqParams (some .cad))
end

end Model.Phy

namespace C14
namespace IrqMode

/-! ### for all radio kinds, states, answers, faults and drops: a failed `prepare_for_*` never newly records the mode -/
section
variable {kind : Kind} {n : Needs} {σ μ : Type}

/-- `wp` with trivial postconditions holds of every program -/
theorem wp_top {α : Type} (p : Prog α) (t : ChipTrack) : wp kind n p (fun _ _ => True) (fun _ _ => True) t := by
  induction p generalizing t with
  | ret a => simp only [wp]
  | fail e => simp only [wp]
  | panic s => simp only [wp]
  | io req k ih => simp only [wp]; exact ⟨fun _ => trivial, fun _ => trivial, fun bs => ih bs _⟩
  | ioE req k ih => simp only [wp]; exact ⟨fun _ => trivial, fun _ => ih none _, fun bs => ih (some bs) _⟩

/-- a `RadioKind` operation never touches the driver's bookkeeping, whatever it does to the chip -/
theorem mwp_call_keep {α : Type} {p : Prog α} {Q : α → DriverState σ → ChipTrack → Prop} {E} {d : DriverState σ} {t : ChipTrack}
    (hq : ∀ a t', Q a d t') (he : ∀ a t', E a d t') : mwp kind n (M.call p : M σ α) Q E d t :=
  mwp_call (wp_mono _ _ p (wp_top p t) (fun a t' _ => hq a t') (fun a t' _ => he a t'))

/-- the mode is what it was, or `Standby` -/
def ModeKept (d d' : DriverState σ) : Prop := d'.radioMode = d.radioMode ∨ d'.radioMode = .standby

variable (rk : RadioKindOps σ μ)

theorem toStandby_mode {d : DriverState σ} {t : ChipTrack} :
    mwp kind n (toStandby rk) (fun _ d' _ => d'.radioMode = .standby) (fun _ d' _ => ModeKept d d') d t := by
  unfold toStandby
  refine mwp_bind (mwp_get ?_)
  refine mwp_bind (mwp_call_keep (fun _ _ => ?_) (fun _ _ => Or.inl rfl))
  by_cases hm : d.radioMode = .standby
  · simp only [ne_eq, hm, not_true_eq_false, if_false]
    exact mwp_pure hm
  · simp only [ne_eq, hm, not_false_eq_true, if_true]
    refine mwp_bind (mwp_call_keep (fun _ _ => ?_) (fun _ _ => Or.inl rfl))
    exact mwp_setMode rfl

theorem doColdStart_mode {d : DriverState σ} {t : ChipTrack} :
    mwp kind n (doColdStart rk) (fun _ d' _ => d'.radioMode = d.radioMode) (fun _ d' _ => d'.radioMode = d.radioMode) d t := by
  unfold doColdStart
  refine mwp_bind (mwp_get ?_)
  refine mwp_bind (mwp_call_keep (fun _ _ => ?_) (fun _ _ => rfl))
  refine mwp_bind (mwp_modify ?_)
  refine mwp_bind (mwp_call_keep (fun _ _ => ?_) (fun _ _ => rfl))
  refine mwp_bind (mwp_get ?_)
  refine mwp_bind (mwp_call_keep (fun _ _ => ?_) (fun _ _ => rfl))
  exact mwp_modify rfl

theorem prepareModem_mode (freq : Nat) {d : DriverState σ} {t : ChipTrack} :
    mwp kind n (prepareModem rk freq) (fun _ d' _ => d'.radioMode = .standby) (fun _ d' _ => ModeKept d d') d t := by
  unfold prepareModem
  refine mwp_bind (mwp_mono (toStandby_mode rk) (fun _ d1 t1 h1 => ?_) (fun a d' t' he => he))
  refine mwp_bind (mwp_get ?_)
  have step2 : ∀ (d2 : DriverState σ) (t2 : ChipTrack), d2.radioMode = .standby →
      mwp kind n
        (do let d ← M.get
            if d.calibrateImage then
              M.call (rk.calibrateImage freq)
              M.modify (fun d => { d with calibrateImage := false }))
        (fun _ d' _ => d'.radioMode = .standby) (fun _ d' _ => ModeKept d d') d2 t2 := by
    intro d2 t2 m2
    refine mwp_bind (mwp_get ?_)
    by_cases hc : d2.calibrateImage = true
    · simp only [hc, if_true]
      refine mwp_bind (mwp_call_keep (fun _ _ => ?_) (fun _ _ => Or.inr m2))
      exact mwp_modify m2
    · simp only [hc, Bool.false_eq_true, if_false]
      exact mwp_pure m2
  by_cases hcs : d1.coldStart = true
  · simp only [hcs, if_true]
    refine mwp_bind (mwp_mono (doColdStart_mode rk) (fun _ d2 t2 h2 => ?_) (fun a d' t' he => Or.inr (he.trans h1)))
    exact step2 _ _ (h2.trans h1)
  · simp only [hcs, Bool.false_eq_true, if_false]
    refine mwp_bind (mwp_pure ?_)
    exact step2 _ _ h1

/-- **`prepare_for_tx`**: `Ok` ⇒ the mode is `Transmit` (and the last step, `set_irq_params(Transmit)`,
succeeded); anything else ⇒ the mode is what it was or `Standby`. -/
theorem prepare_for_tx_failure_keeps_mode (m : μ) (pkt : PacketParams) (power : Int) (payload : Bytes)
    {d : DriverState σ} {t : ChipTrack} :
    mwp kind n (prepareForTx rk m pkt power payload)
      (fun _ d' _ => d'.radioMode = .transmit) (fun _ d' _ => ModeKept d d') d t := by
  unfold prepareForTx
  refine mwp_bind (mwp_mono (prepareModem_mode rk _) (fun _ d1 t1 h1 => ?_) (fun a d' t' he => he))
  refine mwp_bind (mwp_get ?_)
  refine mwp_bind (mwp_call_keep (fun _ _ => ?_) (fun _ _ => Or.inr h1))
  refine mwp_bind (mwp_call_keep (fun _ _ => ?_) (fun _ _ => Or.inr h1))
  refine mwp_bind (mwp_mono (toStandby_mode rk) (fun _ d4 t4 h4 => ?_)
    (fun a d' t' he => Or.inr (he.elim (fun e => e.trans h1) id)))
  by_cases hp : payload.length > 255
  · simp only [hp, if_true]
    exact mwp_throw (Or.inr h4)
  · simp only [hp, if_false]
    refine mwp_bind (mwp_call_keep (fun _ _ => ?_) (fun _ _ => Or.inr h4))
    refine mwp_bind (mwp_call_keep (fun _ _ => ?_) (fun _ _ => Or.inr h4))
    refine mwp_bind (mwp_call_keep (fun _ _ => ?_) (fun _ _ => Or.inr h4))
    refine mwp_bind (mwp_call_keep (fun _ _ => ?_) (fun _ _ => Or.inr h4))
    exact mwp_setMode rfl

/-- **`prepare_for_rx`** -/
theorem prepare_for_rx_failure_keeps_mode (mode : RxMode) (m : μ) (pkt : PacketParams)
    {d : DriverState σ} {t : ChipTrack} :
    mwp kind n (prepareForRx rk mode m pkt)
      (fun _ d' _ => d'.radioMode = .receive mode) (fun _ d' _ => ModeKept d d') d t := by
  unfold prepareForRx
  refine mwp_bind (mwp_mono (prepareModem_mode rk _) (fun _ d1 t1 h1 => ?_) (fun a d' t' he => he))
  refine mwp_bind (mwp_get ?_)
  refine mwp_bind (mwp_call_keep (fun _ _ => ?_) (fun _ _ => Or.inr h1))
  refine mwp_bind (mwp_call_keep (fun _ _ => ?_) (fun _ _ => Or.inr h1))
  refine mwp_bind (mwp_call_keep (fun _ _ => ?_) (fun _ _ => Or.inr h1))
  refine mwp_bind (mwp_call_keep (fun _ _ => ?_) (fun _ _ => Or.inr h1))
  exact mwp_setMode rfl

/-- **`prepare_for_cad`** -/
theorem prepare_for_cad_failure_keeps_mode (m : μ) {d : DriverState σ} {t : ChipTrack} :
    mwp kind n (prepareForCad rk m)
      (fun _ d' _ => d'.radioMode = .cad) (fun _ d' _ => ModeKept d d') d t := by
  unfold prepareForCad
  refine mwp_bind (mwp_mono (prepareModem_mode rk _) (fun _ d1 t1 h1 => ?_) (fun a d' t' he => he))
  refine mwp_bind (mwp_get ?_)
  refine mwp_bind (mwp_call_keep (fun _ _ => ?_) (fun _ _ => Or.inr h1))
  refine mwp_bind (mwp_call_keep (fun _ _ => ?_) (fun _ _ => Or.inr h1))
  refine mwp_bind (mwp_call_keep (fun _ _ => ?_) (fun _ _ => Or.inr h1))
  exact mwp_setMode rfl

end

/-! ### the tracker's clause, for all tracker states -/

theorem set_tx_checks_the_routing (t : IrqTrack) (args : Bytes) :
    (irqStep126 t (0x83 :: args)).startedWrongIrq = (t.startedWrongIrq || !t.cls.tx) := by
  simp +decide [irqStep126, decode126, IrqTrack.startTx]

theorem set_cad_checks_the_routing (t : IrqTrack) (args : Bytes) :
    (irqStep126 t (0xC5 :: args)).startedWrongIrq = (t.startedWrongIrq || !t.cls.cad) := by
  simp +decide [irqStep126, decode126, IrqTrack.startCad]

theorem cold_sleep_forgets_the_routing (t : IrqTrack) : (irqStep126 t [0x84, 0x00]).cls = {} := by
  simp +decide [irqStep126, decode126]

theorem half_written_routing_is_no_routing127 (t : IrqTrack) (v : UInt8) : (irqStep127 t [0x91, v]).cls = {} := by
  simp +decide [irqStep127]

/-! ### the history, on the model of the code as it was and as it is -/

def cfg126 : Sx126x.Config := { chip := .sx1262, tcxo := none, useDcdc := true, rxBoost := false }
def cfg127 : Sx127x.Config := { chip := .sx1276, tcxoUsed := false, txBoost := false, rxBoost := false }
def mod126 : Sx126x.ModulationParams := { sf := ._7, bw := ._125KHz, cr := ._4_5, ldro := 0, freq := 868100000 }
def mod127 : Sx127x.ModulationParams := { sf := ._7, bw := ._125KHz, cr := ._4_5, ldro := 0, freq := 868100000 }
def txPkt : PacketParams := { preambleLength := 8, implicitHeader := false, payloadLength := 0, crcOn := true, iqInverted := false }
def chip126 : Chip := { kind := .sx126x, regs := fun _ => 0, buffer := fun _ => 0 }
def chip127 : Chip := { kind := .sx127x, regs := fun _ => 0, buffer := fun _ => 0 }
def start126 : DriverState Unit × World := ({ rk := (), syncWord := 0x3444 }, { chip := chip126 })
def start127 : DriverState Sx127x.Data × World := ({ rk := {}, syncWord := 0x3444 }, { chip := chip127 })
def ops126 := sx126xOps cfg126
def ops127 := sx127xOps cfg127

/-- run API programs one after the other (each with a fresh transcript), feed every transcript to the
IRQ-routing tracker; also: the number of I/O steps the last program took -/
def scenario {σ : Type} (kind : Kind) (s : DriverState σ × World) (t : IrqTrack) :
    List (M σ Unit × Env) → (DriverState σ × World) × IrqTrack
  | [] => (s, t)
  | (m, env) :: rest =>
    let w : World := { chip := { s.2.chip with irqScript := env.irq, irqDefault := env.irqDefault },
                       log := [], step := 0, fault := env.fault, pendAt := env.pendAt }
    let r := m (s.1, w)
    scenario kind r.2 (irqTrack kind t r.2.2.log) rest

/-- the position of the last write of `prepare_for_tx` in these histories (found by evaluation; the
theorems below check that it IS the `CfgDIOIrq` / `RegDioMapping1` write by their conclusions) -/
def K126 : Nat := 29
def K127 : Nat := 76

/-- **The defect, SX126x.** `init; prepare_for_cad; prepare_for_tx` with one fault at its last SPI write
(`CfgDIOIrq`), then `tx()`, on the model of the code as it was: the failed `prepare_for_tx` left
`radio_mode = Transmit`, `tx()` was accepted and SetTx executed with the CAD routing in place. -/
theorem irq_mode_unfixed_counterexample126 :
    let r := scenario .sx126x start126 {}
      [(init ops126, {}), (prepareForCad ops126 mod126, {}),
       (prepareForTxUnfixed ops126 mod126 txPkt 14 [1, 2, 3], { fault := some K126 }), (tx ops126 8, { irqDefault := 1 })]
    r.2.startedWrongIrq = true ∧ r.2.cls = { cad := true } := by decide +kernel

/-- the same history on the code as it is: the mode stayed `Standby`, `tx()` is refused, nothing started -/
theorem irq_mode_fixed126 :
    let r := scenario .sx126x start126 {}
      [(init ops126, {}), (prepareForCad ops126 mod126, {}),
       (prepareForTx ops126 mod126 txPkt 14 [1, 2, 3], { fault := some K126 }), (tx ops126 8, { irqDefault := 1 })]
    r.2.startedWrongIrq = false ∧ r.2.cls = { cad := true } ∧ r.1.1.radioMode = .standby ∧ r.1.2.log = [] := by
  decide +kernel

/-- … and without the fault the transmission starts with the TX routing (the hypothesis is not vacuous) -/
theorem irq_mode_fault_free126 :
    let r := scenario .sx126x start126 {}
      [(init ops126, {}), (prepareForCad ops126 mod126, {}),
       (prepareForTx ops126 mod126 txPkt 14 [1, 2, 3], {}), (tx ops126 8, { irqDefault := 1 })]
    r.2.startedWrongIrq = false ∧ r.2.cls = { tx := true } ∧ r.1.2.log ≠ [] := by decide +kernel

/-- **The defect, SX127x**: a fault at the `RegDioMapping1` write (the last of the four transactions of
`set_irq_params`): RegIrqFlagsMask already unmasks TxDone only, but DIO0 is still mapped to CadDone. -/
theorem irq_mode_unfixed_counterexample127 :
    let r := scenario .sx127x start127 {}
      [(init ops127, {}), (prepareForCad ops127 mod127, {}),
       (prepareForTxUnfixed ops127 mod127 txPkt 14 [1, 2, 3], { fault := some K127 }), (tx ops127 8, { irqDefault := 8 })]
    r.2.startedWrongIrq = true := by decide +kernel

theorem irq_mode_fixed127 :
    let r := scenario .sx127x start127 {}
      [(init ops127, {}), (prepareForCad ops127 mod127, {}),
       (prepareForTx ops127 mod127 txPkt 14 [1, 2, 3], { fault := some K127 }), (tx ops127 8, { irqDefault := 8 })]
    r.2.startedWrongIrq = false ∧ r.1.1.radioMode = .standby ∧ r.1.2.log = [] := by decide +kernel

/-- the general theorem is false of the code as it was: a failed `prepare_for_tx` newly recorded `Transmit` -/
theorem prepare_for_tx_unfixed_breaks_it :
    let r := scenario .sx126x start126 {}
      [(init ops126, {}), (prepareForCad ops126 mod126, {}),
       (prepareForTxUnfixed ops126 mod126 txPkt 14 [1, 2, 3], { fault := some K126 })]
    r.1.1.radioMode = .transmit := by decide +kernel

/-- the hypotheses of `prepare_for_tx_failure_keeps_mode` are satisfiable, and both outcomes occur -/
example : (prepareForTx ops126 mod126 txPkt 14 [1, 2, 3] (start126.1, { chip := chip126, fault := some 3 })).2.1.radioMode ≠ .transmit := by
  decide +kernel
example : (prepareForTx ops126 mod126 txPkt 14 [1, 2, 3] (start126.1, { chip := chip126 })).2.1.radioMode = .transmit := by
  decide +kernel

end IrqMode
end C14

#print axioms C14.IrqMode.prepare_for_tx_failure_keeps_mode
#print axioms C14.IrqMode.prepare_for_rx_failure_keeps_mode
#print axioms C14.IrqMode.prepare_for_cad_failure_keeps_mode
#print axioms C14.IrqMode.irq_mode_unfixed_counterexample126
#print axioms C14.IrqMode.irq_mode_fixed126
#print axioms C14.IrqMode.irq_mode_unfixed_counterexample127
#print axioms C14.IrqMode.irq_mode_fixed127
