import LoraVerif.Model.Device
import LoraVerif.Props.C05
import LoraVerif.Lemmas.MacWFStep
import LoraVerif.Lemmas.GhostC
import LoraVerif.Lemmas.RefineC
import LoraVerif.Lemmas.HistoryCSafe
import LoraVerif.Lemmas.RefineListen
/-!
# C07 — frames that are not accepted change nothing

"Rejected" is defined on the reference codec's view of the byte string (`RxView`), never by the
implementation's own decision: unparseable bytes, a data frame whose MIC verifies under no counter
(forged, bit-flipped, other session) or under a counter that is not fresh (replay, far future), a
JoinAccept whose MIC does not verify.

* `rejected_noop`: such a frame is answered `NoUpdate` and leaves the whole MAC state — session,
  configuration, channel plan, pending answers, counters — exactly as it was (a frame longer than
  the window's limit is the one exception the property allows and is excluded by `len ≤ max + 5`);
* `rejected_list_noop`: any number of them, in any receive opportunity;
* `twin`: the MAC model is a function of its state, so a run with rejected frames inserted anywhere
  is indistinguishable from the run without them (2-safety by determinism + no-op).
* HISTORIES: `history_rejected_invisible` — for every history (`Model/History.lean`) and every script
  deleting frames the REFERENCE rejects where they are heard (Class C receptions, frames in RX1/RX2 of
  uplinks and join attempts; rejection judged by `Spec/Freshness.lean` under the reference tracker of
  `Lemmas/Ghost.lean`, never by the model), the thinned history reaches the same state and produces
  the same outputs at every remaining event (`step_mask_eq`, `step_drop_eq`); conversely
  (`history_rejected_insertable`) rejected frames can be inserted anywhere into a running history.
-/
open Model Spec.Freshness

namespace C07

/-- the reference view rejects the frame in state `m` for a window limited to `mp` bytes of MAC payload -/
def Rejected (m : MacState) (v : RxView) (mp : Nat) : Prop :=
  match v with
  | .garbage => True
  | .joinAccept j => (match m.st with | .otaa _ => j.micOk = false | _ => True)
  | .data d =>
    match m.st with
    | .joined s => d.len ≤ mp + 5 ∧ ¬ ∃ N, C05.Accept s d mp N
    | _ => True

/-- **one-step non-interference.** -/
theorem rejected_noop (m : MacState) (v : RxView) (mp : Nat) (snr : Int) (classC : Bool)
    (h : Rejected m v mp) :
    macHandleRx m v mp snr classC = .ok (some { resp := .noUpdate, downlink := none }, m)
    ∨ macHandleRx m v mp snr classC = .ok (none, m) := by
  unfold macHandleRx
  cases hst : m.st with
  | unjoined =>
    cases classC <;> simp [pure, Except.pure]
  | otaa o =>
    cases classC
    · cases v with
      | garbage => left; rfl
      | data d => left; rfl
      | joinAccept j =>
        left
        unfold Rejected at h
        simp only [hst] at h
        simp [h, pure, Except.pure]
    · right; rfl
  | joined s =>
    cases v with
    | garbage => left; rfl
    | joinAccept j => left; rfl
    | data d =>
      left
      unfold Rejected at h
      simp only [hst] at h
      obtain ⟨hlen, hrej⟩ := h
      simp only []
      cases hr : sessionHandleRx s m.cfg m.region d mp snr classC with
      | error e =>
        -- a rejected frame never reaches the MAC command handlers, which are the only fallible part
        exfalso
        unfold sessionHandleRx at hr
        have hl : ¬ d.len > mp + 5 := by omega
        simp only [hl, if_false] at hr
        cases hn : nextFcntDown s.fcntDown d.fcnt16 with
        | none => simp [hn, pure, Except.pure] at hr
        | some N =>
          simp only [hn] at hr
          by_cases hm : d.micFcnt = some N
          · exact hrej ⟨N, hlen, hn, hm⟩
          · have : (d.micFcnt != some N) = true := by simp [hm]
            simp [this, pure, Except.pure] at hr
      | ok res =>
        obtain ⟨o, s', cfg', region'⟩ := res
        have := C05.rejected_keeps_counter s m.cfg m.region d mp snr classC o s' cfg' region' hr hrej
        obtain ⟨_, hdl, hreg, hrest⟩ := this
        obtain ⟨hresp, hs, hcfg⟩ := hrest hlen
        subst hs hcfg hreg
        simp only [bind, Except.bind, pure, Except.pure]
        have : o = { resp := .noUpdate, downlink := none } := by
          cases o; simp_all
        subst this
        congr 2
        cases m; simp_all

/-- a rejected frame is still rejected after a rejected frame (the state did not change) -/
def AllRejected (m : MacState) (fs : List (RxView × Nat × Int × Bool)) : Prop :=
  ∀ f ∈ fs, Rejected m f.1 f.2.1

/-- feed a list of frames to the MAC, keeping only the state -/
def feed (m : MacState) : List (RxView × Nat × Int × Bool) → M MacState
  | [] => pure m
  | (v, mp, snr, cc) :: rest => do
    let (_, m') ← macHandleRx m v mp snr cc
    feed m' rest

/-- **any number of rejected frames, in any windows, leave the state untouched** -/
theorem rejected_list_noop (m : MacState) (fs : List (RxView × Nat × Int × Bool)) (h : AllRejected m fs) :
    feed m fs = .ok m := by
  induction fs with
  | nil => rfl
  | cons f rest ih =>
    obtain ⟨v, mp, snr, cc⟩ := f
    have h1 : Rejected m v mp := h (v, mp, snr, cc) List.mem_cons_self
    have hrest : AllRejected m rest := fun g hg => h g (List.mem_cons_of_mem _ hg)
    unfold feed
    rcases rejected_noop m v mp snr cc h1 with e | e <;> simp only [e, bind, Except.bind] <;> exact ih hrest

/-- **twin runs.** Whatever the device does next is a function `k` of its MAC state (the model is
deterministic: later uplinks, radio configurations and responses are computed from the state and
the later events only); a run that first hears rejected frames continues exactly like the twin that
never heard them. -/
theorem twin {α} (m : MacState) (fs : List (RxView × Nat × Int × Bool)) (h : AllRejected m fs)
    (k : MacState → M α) : (feed m fs >>= k) = k m := by
  rw [rejected_list_noop m fs h]; rfl

/-! non-vacuity: a joined session, a forged frame and a replay -/
def m0 : MacState := macJoinAbp (MacState.init (RegionState.init .EU868) 14 0) 7 1 2
def forged : RxData := { len := 13, confirmed := false, fcnt16 := 5, micFcnt := none, fopts := [], fport := none, payload := [] }
example : Rejected m0 (.data forged) 59 := by
  unfold Rejected m0 macJoinAbp; simp [forged, C05.Accept]
example : macHandleRx m0 (.data forged) 59 0 false = .ok (some { resp := .noUpdate, downlink := none }, m0) := by rfl


/-! ## histories: deleting rejected frames anywhere is invisible -/

/-- the REFERENCE rejects frame `f` heard in a Class A window of an uplink, `gh` being the reference
tracker when the uplink is sent: anything that is not a data frame (garbage, a JoinAccept sent to a
joined device), and a data frame that fits the window but whose MIC verifies under no fresh counter
(forged, corrupted, other session, replayed, too far ahead).  Oversized frames are NOT rejected
frames (they may end the procedure).  A device without a session opens no window at all. -/
def RejWin (gh : Gh) (f : RxView × Int) (mp : Nat) : Prop :=
  match gh with
  | none => True
  | some last =>
    match f.1 with
    | .data d => d.len ≤ mp + 5 ∧ accepts last d mp = none
    | _ => True

/-- … heard in a window of a join attempt: everything but a JoinAccept with a valid MIC -/
def RejJoin (f : RxView × Int) : Prop :=
  match f.1 with
  | .joinAccept j => j.micOk = false
  | _ => True

/-- … heard between uplinks (Class C): everything the reference does not accept -/
def RejRxc (gh : Gh) (v : RxView) (mp : Nat) : Prop :=
  match gh with
  | none => True
  | some last =>
    match v with
    | .data d => accepts last d mp = none
    | _ => True

instance (gh : Gh) (f : RxView × Int) (mp : Nat) : Decidable (RejWin gh f mp) := by
  unfold RejWin
  cases gh with
  | none => exact isTrue trivial
  | some last => obtain ⟨v, snr⟩ := f; cases v <;> (simp only; infer_instance)

instance (f : RxView × Int) : Decidable (RejJoin f) := by
  unfold RejJoin
  obtain ⟨v, snr⟩ := f; cases v <;> (simp only; infer_instance)

instance (gh : Gh) (v : RxView) (mp : Nat) : Decidable (RejRxc gh v mp) := by
  unfold RejRxc
  cases gh with
  | none => exact isTrue trivial
  | some last => cases v <;> (simp only; infer_instance)

/-- `P` holds of the frame heard, if any -/
def heard (P : RxView × Int → Prop) : Option (RxView × Int) → Prop
  | some f => P f
  | none => True

instance (P : RxView × Int → Prop) [DecidablePred P] (o : Option (RxView × Int)) : Decidable (heard P o) := by
  cases o <;> (unfold heard; infer_instance)

/-- what a deletion script does to one event: keep it, delete a Class C reception, or delete the
frames heard in RX1 / RX2 of an uplink or join attempt -/
inductive Del where
  | keep
  | drop
  | mask (rx1 rx2 : Bool)
  deriving DecidableEq, Repr

def maskRx (b : Bool) (f : Option (RxView × Int)) : Option (RxView × Int) := if b then none else f

def maskEv (b1 b2 : Bool) : Ev → Ev
  | .uplink data fport conf fault rx1 rx2 mp1 mp2 => .uplink data fport conf fault (maskRx b1 rx1) (maskRx b2 rx2) mp1 mp2
  | .joinOtaa fault rx1 rx2 mp1 mp2 => .joinOtaa fault (maskRx b1 rx1) (maskRx b2 rx2) mp1 mp2
  | ev => ev

def thinEvs : List Del → List Ev → List Ev
  | .keep :: ds, ev :: evs => ev :: thinEvs ds evs
  | .drop :: ds, _ :: evs => thinEvs ds evs
  | .mask b1 b2 :: ds, ev :: evs => maskEv b1 b2 ev :: thinEvs ds evs
  | _, evs => evs

def thinOuts : List Del → List Out → List Out
  | .keep :: ds, o :: os => o :: thinOuts ds os
  | .drop :: ds, _ :: os => thinOuts ds os
  | .mask _ _ :: ds, o :: os => o :: thinOuts ds os
  | _, os => os

/-- the deletion hits only frames the reference rejects at that point of the history -/
def LegalDel (gh : Gh) : Del → Ev → Prop
  | .keep, _ => True
  | .drop, .rxc v _ mp => RejRxc gh v mp
  | .drop, _ => False
  | .mask b1 b2, .uplink _ _ _ _ rx1 rx2 mp1 mp2 =>
    (b1 = true → heard (RejWin gh · mp1) rx1) ∧ (b2 = true → heard (RejWin gh · mp2) rx2)
  | .mask b1 b2, .joinOtaa _ rx1 rx2 _ _ =>
    (b1 = true → heard RejJoin rx1) ∧ (b2 = true → heard RejJoin rx2)
  | .mask _ _, _ => True

def Legal : Gh → List Del → List Ev → Prop
  | gh, d :: ds, ev :: evs => LegalDel gh d ev ∧ Legal (ghStep gh ev) ds evs
  | _, _, _ => True

instance (gh : Gh) (d : Del) (ev : Ev) : Decidable (LegalDel gh d ev) := by
  cases d <;> cases ev <;> (simp only [LegalDel]; infer_instance)

instance : (gh : Gh) → (ds : List Del) → (evs : List Ev) → Decidable (Legal gh ds evs)
  | _, [], _ => isTrue (by simp [Legal])
  | _, _ :: _, [] => isTrue (by simp [Legal])
  | gh, d :: ds, ev :: evs =>
    have := instDecidableLegal (ghStep gh ev) ds evs
    by simp only [Legal]; infer_instance

theorem specWindow_mask (last : Option Nat) (b : Bool) (f : Option (RxView × Int)) (mp : Nat)
    (h : b = true → heard (RejWin (some last) · mp) f) : specWindow last (maskRx b f) mp = specWindow last f mp := by
  cases b with
  | false => rfl
  | true =>
    cases f with
    | none => rfl
    | some x =>
      have hr : _ := h rfl
      simp only [heard] at hr
      obtain ⟨v, snr⟩ := x
      unfold RejWin at hr
      simp only [maskRx, if_true, specWindow]
      cases v with
      | garbage => rfl
      | joinAccept j => rfl
      | data d =>
        simp only at hr ⊢
        have : ¬ d.len > mp + 5 := by omega
        simp only [this, if_false, hr.2]

theorem joinAcc_mask (b : Bool) (f : Option (RxView × Int)) (h : b = true → heard RejJoin f) :
    joinAcc (maskRx b f) = joinAcc f := by
  cases b with
  | false => rfl
  | true =>
    cases f with
    | none => rfl
    | some x =>
      have hr : _ := h rfl
      simp only [heard] at hr
      obtain ⟨v, snr⟩ := x
      unfold RejJoin at hr
      simp only [maskRx, if_true, joinAcc]
      cases v with
      | garbage => rfl
      | data d => rfl
      | joinAccept j => simp only at hr ⊢; simp [hr]

theorem rxOk_mask (b : Bool) (f : Option (RxView × Int)) (h : rxOk f = true) : rxOk (maskRx b f) = true := by
  cases b
  · exact h
  · rfl

/-- **masking rejected frames does not change the step at all**: same state, same random stream, same output -/
theorem step_mask_eq {σ} (g : Rng σ) (m : MacState) (rs : σ) (gh : Gh) (hr : GhRel m gh) (ev : Ev) (hv : evOk ev = true)
    (b1 b2 : Bool) (hl : LegalDel gh (.mask b1 b2) ev) : step g (m, rs) (maskEv b1 b2 ev) = step g (m, rs) ev := by
  cases ev with
  | joinAbp da nwk app => rfl
  | setAdr on => rfl
  | setDr dr => rfl
  | rxc v snr mp => rfl
  | joinOtaa fault rx1 rx2 mp1 mp2 =>
    simp only [LegalDel] at hl
    simp only [maskEv, step]
    cases hj : macJoinOtaa g m rs with
    | error e => rfl
    | ok r =>
      obtain ⟨jo, m1, rs1⟩ := r
      obtain ⟨dr, tx, region', pw, r1, r2, _, _, hm1, _, _⟩ := macJoinOtaa_ok g m rs rs1 jo m1 hj
      have hst1 : m1.st = .otaa { devNonce := (draw g rs).1 % 65536 } := by rw [hm1]
      simp only [bind, Except.bind]
      cases fault with
      | none =>
        simp only []
        rw [classACycle_otaa m1 _ hst1, classACycle_otaa m1 _ hst1]
        simp only [specJoin, joinAcc_mask b1 rx1 hl.1, joinAcc_mask b2 rx2 hl.2]
      | some k =>
        simp only []
        rw [faultedCycle_otaa m1 _ hst1, faultedCycle_otaa m1 _ hst1]
        simp only [specJoinFaulted, specJoin, joinAcc_mask b1 rx1 hl.1, joinAcc_mask b2 rx2 hl.2]
  | uplink data fport conf fault rx1 rx2 mp1 mp2 =>
    simp only [LegalDel] at hl
    simp only [evOk, Bool.and_eq_true] at hv
    simp only [maskEv, step]
    cases gh with
    | none =>
      rw [macSend_notJoined g m hr]
      rfl
    | some last =>
      obtain ⟨s, hst, rfl, hlo⟩ := hr
      cases hs : macSend g m data fport conf rs with
      | error e => rfl
      | ok r =>
        obtain ⟨o, m1, rs1⟩ := r
        obtain ⟨dr, tx, region', pw, r1, r2, _, _, _, hm1, _, rfl⟩ := macSend_joined g m s hst data fport conf rs rs1 o m1 hs
        have hst1 : m1.st = .joined (sentSession s conf) := by rw [hm1]
        have hl1 : LastOk (sentSession s conf).fcntDown := hlo
        have e1 := specWindow_mask s.fcntDown b1 rx1 mp1 hl.1
        have e2 := specWindow_mask s.fcntDown b2 rx2 mp2 hl.2
        have e1' : specWindow (sentSession s conf).fcntDown (maskRx b1 rx1) mp1 = specWindow (sentSession s conf).fcntDown rx1 mp1 := e1
        have e2' : specWindow (sentSession s conf).fcntDown (maskRx b2 rx2) mp2 = specWindow (sentSession s conf).fcntDown rx2 mp2 := e2
        simp only [bind, Except.bind]
        cases fault with
        | none =>
          simp only []
          rw [classACycle_joined m1 _ hst1 hl1 _ _ mp1 mp2 (rxOk_mask b1 rx1 hv.1) (rxOk_mask b2 rx2 hv.2),
            classACycle_joined m1 _ hst1 hl1 _ _ mp1 mp2 hv.1 hv.2]
          simp only [specCycle, e1', e2']
        | some k =>
          simp only []
          rw [faultedCycle_joined m1 _ hst1 hl1 k _ _ mp1 mp2 (rxOk_mask b1 rx1 hv.1) (rxOk_mask b2 rx2 hv.2),
            faultedCycle_joined m1 _ hst1 hl1 k _ _ mp1 mp2 hv.1 hv.2]
          simp only [specFaulted, specCycle, e1', e2']

/-- a rejected Class C reception leaves state and random stream as they were -/
theorem step_drop_eq {σ} (g : Rng σ) (m m' : MacState) (rs rs' : σ) (gh : Gh) (hr : GhRel m gh) (ev : Ev) (hv : evOk ev = true)
    (hl : LegalDel gh .drop ev) (out : Out) (h : step g (m, rs) ev = .ok ((m', rs'), out)) : m' = m ∧ rs' = rs := by
  cases ev with
  | rxc v snr mp =>
    simp only [LegalDel] at hl
    simp only [evOk] at hv
    cases gh with
    | none =>
      obtain ⟨rfl, rfl, _⟩ := step_rxc_notJoined g m m' rs rs' hr v snr mp out h
      exact ⟨rfl, rfl⟩
    | some last =>
      obtain ⟨s, hst, rfl, hlo⟩ := hr
      obtain ⟨rfl, rf, _, ht⟩ := step_rxc_joined g m m' rs rs' s hst hlo v snr mp hv out h
      have : specRxc s.fcntDown v mp = none := by
        unfold RejRxc at hl
        unfold specRxc
        cases v with
        | garbage => rfl
        | joinAccept j => rfl
        | data d => simp only at hl ⊢; rw [hl]; rfl
      simp only [this] at ht
      exact ⟨ht.1, rfl⟩
  | joinAbp da nwk app => exact hl.elim
  | setAdr on => exact hl.elim
  | setDr dr => exact hl.elim
  | joinOtaa fault rx1 rx2 mp1 mp2 => exact hl.elim
  | uplink data fport conf fault rx1 rx2 mp1 mp2 => exact hl.elim

/-- **C07 over every history.**  Take any history `evs` and any script `ds` deleting frames the
REFERENCE rejects at the point where they are heard — a Class C reception (`drop`), the frame heard
in RX1 and/or RX2 of an uplink or of a join attempt (`mask`) — anywhere, any number of them.  The
thinned history runs to the SAME final state and random stream and produces the SAME output at
every remaining event (uplink bytes, counters, MAC answers, ACK bit, radio configurations,
responses): the device is indistinguishable from the twin that never heard those frames.  (Applied
to every prefix: the same state before every remaining event.) -/
theorem history_rejected_invisible {σ} (g : Rng σ) (m : MacState) (rs : σ) (gh : Gh) (hr : GhRel m gh)
    (evs : List Ev) (hv : ∀ ev ∈ evs, evOk ev = true) (ds : List Del) (hl : Legal gh ds evs)
    (ms' : MacState × σ) (outs : List Out) (h : run g (m, rs) evs = .ok (ms', outs)) :
    run g (m, rs) (thinEvs ds evs) = .ok (ms', thinOuts ds outs) := by
  induction evs generalizing m rs gh ds outs with
  | nil =>
    have : outs = [] := by unfold run at h; cases Except.pure_eq_ok h; rfl
    subst this
    cases ds with
    | nil => exact h
    | cons d ds => cases d <;> exact h
  | cons ev rest ih =>
    cases ds with
    | nil => exact h
    | cons d ds =>
      have hrun := h
      unfold run at h
      obtain ⟨⟨⟨m1, rs1⟩, o⟩, hstep, h⟩ := Except.bind_eq_ok h
      obtain ⟨⟨ms2, os⟩, hrest, h⟩ := Except.bind_eq_ok h
      cases Except.pure_eq_ok h
      have hve := hv ev List.mem_cons_self
      have hr1 := step_ghRel g m m1 rs rs1 ev o gh hr hve hstep
      have hvr : ∀ e ∈ rest, evOk e = true := fun e he => hv e (List.mem_cons_of_mem _ he)
      simp only [Legal] at hl
      have ih' := ih m1 rs1 (ghStep gh ev) hr1 hvr ds hl.2 os hrest
      cases d with
      | keep =>
        simp only [thinEvs, thinOuts, run, hstep, ih', bind, Except.bind, pure, Except.pure]
      | mask b1 b2 =>
        simp only [thinEvs, thinOuts, run, step_mask_eq g m rs gh hr ev hve b1 b2 hl.1, hstep, ih', bind, Except.bind, pure,
          Except.pure]
      | drop =>
        obtain ⟨rfl, rfl⟩ := step_drop_eq g m m1 rs rs1 gh hr ev hve hl.1 o hstep
        simp only [thinEvs, thinOuts]
        exact ih'



/-- a Class C reception returns in every well-formed state -/
theorem step_rxc_returns {σ} (g : Rng σ) (m : MacState) (rs : σ) (v : RxView) (snr : Int) (mp : Nat) (hwf : MacWF m)
    (hv : viewWF v = true) : ∃ m' out, step g (m, rs) (.rxc v snr mp) = .ok ((m', rs), out) := by
  obtain ⟨rf, hrf, _⟩ := macRxcConfig_tot m hwf
  obtain ⟨⟨o, m'⟩, hrx, _⟩ := macHandleRx_tot m v mp snr true hwf hv
  refine ⟨m', .rxc rf o, ?_⟩
  simp only [step, hrf, hrx, bind, Except.bind, pure, Except.pure]

/-- **the converse: rejected frames can be INSERTED anywhere.**  If the thinned history runs, so
does the history with the rejected frames present — to the same final state and random stream, with
the same outputs at the events of the thinned history — from any well-formed state under valid
events.  Together with `history_rejected_invisible`: the two runs of the pair exist together and
agree. -/
theorem history_rejected_insertable {σ} (g : Rng σ) (m : MacState) (rs : σ) (gh : Gh) (hr : GhRel m gh) (hwf : MacWF m)
    (evs : List Ev) (hv : ∀ ev ∈ evs, evOk ev = true ∧ validEv m.region.id ev = true) (ds : List Del) (hl : Legal gh ds evs)
    (ms' : MacState × σ) (outs' : List Out) (h : run g (m, rs) (thinEvs ds evs) = .ok (ms', outs')) :
    ∃ outs, run g (m, rs) evs = .ok (ms', outs) ∧ thinOuts ds outs = outs' := by
  induction evs generalizing m rs gh ds outs' with
  | nil =>
    have e : thinEvs ds [] = [] := by cases ds with | nil => rfl | cons d ds => cases d <;> rfl
    rw [e] at h
    refine ⟨outs', h, ?_⟩
    have : outs' = [] := by unfold run at h; cases Except.pure_eq_ok h; rfl
    subst this
    cases ds with | nil => rfl | cons d ds => cases d <;> rfl
  | cons ev rest ih =>
    have hve := hv ev List.mem_cons_self
    -- one kept (or masked) step, then the induction hypothesis
    have keep : ∀ (ds' : List Del), Legal (ghStep gh ev) ds' rest →
        ∀ outs', run g (m, rs) (ev :: thinEvs ds' rest) = .ok (ms', outs') →
        ∃ o os, run g (m, rs) (ev :: rest) = .ok (ms', o :: os) ∧ outs' = o :: thinOuts ds' os := by
      intro ds' hl' outs' h
      unfold run at h
      obtain ⟨⟨⟨m1, rs1⟩, o⟩, hstep, h⟩ := Except.bind_eq_ok h
      obtain ⟨⟨ms2, os'⟩, hrest, h⟩ := Except.bind_eq_ok h
      cases Except.pure_eq_ok h
      have hk : Keeps m m1 := (step_safe g m rs ev hwf hve.2).elim hstep
      have hr1 := step_ghRel g m m1 rs rs1 ev o gh hr hve.1 hstep
      obtain ⟨os, hos, hth⟩ := ih m1 rs1 (ghStep gh ev) hr1 hk.1
        (fun e he => by rw [hk.2.1]; exact hv e (List.mem_cons_of_mem _ he)) ds' hl' os' hrest
      refine ⟨o, os, ?_, by rw [hth]⟩
      simp only [run, hstep, hos, bind, Except.bind, pure, Except.pure]
    cases ds with
    | nil =>
      obtain ⟨o, os, h1, h2⟩ := keep [] (by cases rest <;> trivial) outs' (by
        have : thinEvs [] rest = rest := by cases rest <;> rfl
        rw [this]; exact h)
      refine ⟨o :: os, h1, ?_⟩
      rw [h2]
      have : thinOuts [] os = os := by cases os <;> rfl
      rw [this]; rfl
    | cons d ds =>
      simp only [Legal] at hl
      cases d with
      | keep =>
        obtain ⟨o, os, h1, h2⟩ := keep ds hl.2 outs' h
        exact ⟨o :: os, h1, by rw [h2]; rfl⟩
      | mask b1 b2 =>
        simp only [thinEvs] at h
        have h' : run g (m, rs) (ev :: thinEvs ds rest) = .ok (ms', outs') := by
          unfold run at h ⊢
          rw [step_mask_eq g m rs gh hr ev hve.1 b1 b2 hl.1] at h
          exact h
        obtain ⟨o, os, h1, h2⟩ := keep ds hl.2 outs' h'
        exact ⟨o :: os, h1, by rw [h2]; rfl⟩
      | drop =>
        simp only [thinEvs] at h
        cases ev with
        | rxc v snr mp =>
          have hvw : viewWF v = true := by
            have := hve.2; simpa [validEv] using this
          obtain ⟨m1, o, hstep⟩ := step_rxc_returns g m rs v snr mp hwf hvw
          have e1 := (step_drop_eq g m m1 rs rs gh hr _ hve.1 hl.1 o hstep).1
          rw [e1] at hstep
          have hr1 := step_ghRel g m m rs rs _ o gh hr hve.1 hstep
          obtain ⟨os, hos, hth⟩ := ih m rs _ hr1 hwf (fun e he => hv e (List.mem_cons_of_mem _ he)) ds hl.2 outs' h
          refine ⟨o :: os, ?_, by simp only [thinOuts]; exact hth⟩
          simp only [run, hstep, hos, bind, Except.bind, pure, Except.pure]
        | joinAbp da nwk app => exact hl.1.elim
        | setAdr on => exact hl.1.elim
        | setDr dr => exact hl.1.elim
        | joinOtaa fault rx1 rx2 mp1 mp2 => exact hl.1.elim
        | uplink data fport conf fault rx1 rx2 mp1 mp2 => exact hl.1.elim

/-! non-vacuity: a session; a replay in RX1, garbage between uplinks, a forged frame in RX1 and a
JoinAccept in RX2 are deleted — same final state, same remaining outputs -/
def lcg : Rng Nat := fun x => ((x * 1103515245 + 12345) / 65536, x * 1103515245 + 12345)

def fr (w : Nat) (N : Option Nat) : RxView :=
  .data { len := 14, confirmed := true, fcnt16 := w, micFcnt := N, fopts := [0x06], fport := some 1, payload := [w] }

def badJa : RxView := .joinAccept { micOk := true, devAddr := 9, dlSettings := 0, rxDelay := 1, cfList := none, nwkKey := 5, appKey := 6 }

def demoHistory : List Ev :=
  [ .joinAbp 7 1 2,
    .uplink [1] 1 false none (some (fr 5 (some 5), 0)) none 51 51,
    .uplink [2] 1 false none (some (fr 5 (some 5), 0)) (some (fr 6 (some 6), 3)) 51 51,
    .rxc .garbage 0 51,
    .uplink [3] 1 true none (some (fr 9 none, 0)) (some (badJa, 0)) 51 51 ]

def demoScript : List Del := [.keep, .keep, .mask true false, .drop, .mask true true]

example : Legal none demoScript demoHistory := by decide
example : ∀ ev ∈ demoHistory, evOk ev = true := by decide
example : thinEvs demoScript demoHistory =
  [ .joinAbp 7 1 2,
    .uplink [1] 1 false none (some (fr 5 (some 5), 0)) none 51 51,
    .uplink [2] 1 false none none (some (fr 6 (some 6), 3)) 51 51,
    .uplink [3] 1 true none none none 51 51 ] := by rfl
example : (run lcg (MacState.init (RegionState.init .EU868) 14 0, 1) demoHistory).toOption.map (fun r => r.2.length) = some 5 := by
  decide +kernel

/-! ## extended histories: deleting rejected frames heard INSIDE the receive procedure is invisible

`Model/HistoryC.lean`: a Class C device hands the frames it hears on the RXC parameters between TX and
RX1 (`c1`) and between RX1 and RX2 (`c2`) to `handle_rxc` in the middle of the procedure.  A deletion
script may now also delete frames from `c1` / `c2` (flag lists), each judged by the reference under
the counter the reference holds AT THAT POINT of the procedure (`LegalCs`, `lastAfterCs`). -/

/-- what an extended deletion script does to one event: keep it, delete a Class C reception between
uplinks, or delete frames heard during a receive procedure: from `c1` (flag per frame, `true` =
delete), RX1, from `c2`, RX2 -/
inductive DelC where
  | keep
  | drop
  | thin (k1 : List Bool) (b1 : Bool) (k2 : List Bool) (b2 : Bool)
  deriving DecidableEq, Repr

def thinCs {α} : List Bool → List α → List α
  | true :: ks, _ :: cs => thinCs ks cs
  | false :: ks, c :: cs => c :: thinCs ks cs
  | _, cs => cs

/-- during a JOIN procedure ANY frame heard on the RXC parameters may be deleted: a device without a
session accepts none of them (`joinC_rxc_frames_invisible` below) -/
def thinEvC (k1 : List Bool) (b1 : Bool) (k2 : List Bool) (b2 : Bool) : EvC → EvC
  | .uplinkC cc data fport conf fault c1 rx1 c2 rx2 =>
    .uplinkC cc data fport conf fault (thinCs k1 c1) (maskRx b1 rx1) (thinCs k2 c2) (maskRx b2 rx2)
  | .joinC cc fault c1 rx1 c2 rx2 => .joinC cc fault (thinCs k1 c1) (maskRx b1 rx1) (thinCs k2 c2) (maskRx b2 rx2)
  | .base e => .base (maskEv b1 b2 e)

def thinEvsC : List DelC → List EvC → List EvC
  | .keep :: ds, ev :: evs => ev :: thinEvsC ds evs
  | .drop :: ds, _ :: evs => thinEvsC ds evs
  | .thin k1 b1 k2 b2 :: ds, ev :: evs => thinEvC k1 b1 k2 b2 ev :: thinEvsC ds evs
  | _, evs => evs

def thinOutsC : List DelC → List OutC → List OutC
  | .keep :: ds, o :: os => o :: thinOutsC ds os
  | .drop :: ds, _ :: os => thinOutsC ds os
  | .thin _ _ _ _ :: ds, o :: os => o :: thinOutsC ds os
  | _, os => os

/-- an output without the `NoUpdate` entries of its `heard` list (one per rejected frame heard on the
RXC parameters inside the procedure; they carry nothing: no response, no downlink) -/
def strip (oc : OutC) : OutC := { oc with heard := oc.heard.filter (· != noUp) }

/-- the reference's counter after one more frame heard on the RXC parameters -/
def nextLast (last : Option Nat) (v : RxView) (mpc : Nat) : Option Nat :=
  match specRxc last v mpc with
  | some (N, _) => some N
  | none => last

/-- … after a list of them -/
def lastAfterCs (last : Option Nat) (mpc : Nat) (cs : List (RxView × Int)) : Option Nat :=
  cs.foldl (fun l c => nextLast l c.1 mpc) last

/-- every frame deleted from a list heard on the RXC parameters is one the reference rejects under
the counter it holds when that frame is heard -/
def LegalCs (mpc : Nat) : Option Nat → List Bool → List (RxView × Int) → Prop
  | last, k :: ks, c :: cs => (k = true → RejRxc (some last) c.1 mpc) ∧ LegalCs mpc (nextLast last c.1 mpc) ks cs
  | _, _, _ => True

instance (mpc : Nat) : (last : Option Nat) → (ks : List Bool) → (cs : List (RxView × Int)) → Decidable (LegalCs mpc last ks cs)
  | _, [], _ => isTrue (by simp [LegalCs])
  | _, _ :: _, [] => isTrue (by simp [LegalCs])
  | last, k :: ks, c :: cs =>
    have := instDecidableLegalCs mpc (nextLast last c.1 mpc) ks cs
    by simp only [LegalCs]; infer_instance

/-- the deletion hits only frames the reference rejects at that point of the extended history
(`out`: the output of the event — the payload limits of the two windows are those of the uplink the
MAC built) -/
def LegalDelC (gh : Gh) (e : EvL) (out : OutC) : DelC → Prop
  | .keep => True
  | .drop =>
    (match e.2 with
     | .base ev => LegalDel gh .drop ev
     | _ => False)
  | .thin k1 b1 k2 b2 =>
    (match e.2 with
     | .base ev => LegalDel gh (.mask b1 b2) ev
     | .joinC _ _ _ rx1 _ rx2 => (b1 = true → heard RejJoin rx1) ∧ (b2 = true → heard RejJoin rx2)
     | .uplinkC cc _ _ _ _ c1 rx1 c2 rx2 =>
       (match gh, out.out with
        | some last, .up so _ _ =>
          (cc = true → LegalCs e.1 last k1 c1) ∧
          (b1 = true → heard (RejWin (some (if cc then lastAfterCs last e.1 c1 else last)) · so.tx.rx1.maxPayload.toNat) rx1) ∧
          (cc = true → LegalCs e.1 (lastAfterCs last e.1 c1) k2 c2) ∧
          (b2 = true → heard (RejWin (some (if cc then lastAfterCs (lastAfterCs last e.1 c1) e.1 c2 else last)) · so.tx.rx2.maxPayload.toNat) rx2)
        | _, _ => True))

def LegalC : Gh → List DelC → List (EvL × OutC) → Prop
  | gh, d :: ds, x :: t => LegalDelC gh x.1 x.2 d ∧ LegalC (ghNextC gh x.1 x.2) ds t
  | _, _, _ => True

theorem thinCs_ok (ks : List Bool) (cs : List (RxView × Int)) (h : csOk cs = true) : csOk (thinCs ks cs) = true := by
  induction cs generalizing ks with
  | nil => cases ks with | nil => exact h | cons k ks => cases k <;> exact h
  | cons c rest ih =>
    simp only [csOk, List.all_cons, Bool.and_eq_true] at h
    cases ks with
    | nil => simp only [thinCs, csOk, List.all_cons, Bool.and_eq_true]; exact h
    | cons k ks =>
      cases k with
      | true => simp only [thinCs]; exact ih ks h.2
      | false =>
        simp only [thinCs, csOk, List.all_cons, Bool.and_eq_true]
        exact ⟨h.1, ih ks h.2⟩

theorem refRxcs_last (mpc : Nat) (cs : List (RxView × Int)) :
    ∀ p : PSt, (refRxcs p mpc cs).st.last = lastAfterCs p.last mpc cs := by
  induction cs with
  | nil => intro p; rfl
  | cons c rest ih =>
    intro p
    obtain ⟨v, snr⟩ := c
    unfold refRxcs
    simp only [lastAfterCs, List.foldl_cons, nextLast]
    cases hs : specRxc p.last v mpc with
    | none => simp only []; exact ih p
    | some q => obtain ⟨N, d⟩ := q; simp only []; exact ih ⟨some N, bumpFu p.fu⟩

/-- **deleting rejected frames from what is heard on the RXC parameters**: same state; the reports
differ by the `NoUpdate` entries of the deleted frames only -/
theorem rxcs_thin (mp : Nat) (cs : List (RxView × Int)) (hv : csOk cs = true) :
    ∀ (ks : List Bool) (m : MacState) (s : Session), m.st = .joined s → LastOk s.fcntDown → LegalCs mp s.fcntDown ks cs →
      ∃ os os' m', rxcs m mp cs = .ok (os, true, m') ∧ rxcs m mp (thinCs ks cs) = .ok (os', true, m') ∧
        os'.filter (· != noUp) = os.filter (· != noUp) := by
  induction cs with
  | nil =>
    intro ks m s hst hl _
    refine ⟨[], [], m, rfl, ?_, rfl⟩
    cases ks with | nil => rfl | cons k ks => cases k <;> rfl
  | cons c rest ih =>
    intro ks m s hst hl hleg
    obtain ⟨v, snr⟩ := c
    simp only [csOk, List.all_cons, Bool.and_eq_true] at hv
    have hrest : csOk rest = true := hv.2
    -- the frame is handled (kept on both sides): one common first step
    have keep : ∀ ks', LegalCs mp (nextLast s.fcntDown v mp) ks' rest →
        ∃ os os' m', rxcs m mp ((v, snr) :: rest) = .ok (os, true, m') ∧
          rxcs m mp ((v, snr) :: thinCs ks' rest) = .ok (os', true, m') ∧ os'.filter (· != noUp) = os.filter (· != noUp) := by
      intro ks' hleg'
      cases hs : specRxc s.fcntDown v mp with
      | none =>
        have hnl : nextLast s.fcntDown v mp = s.fcntDown := by simp only [nextLast, hs]
        rw [hnl] at hleg'
        obtain ⟨os, os', m', h1, h2, h3⟩ := ih hrest ks' m s hst hl hleg'
        refine ⟨noUp :: os, noUp :: os', m', ?_, ?_, ?_⟩
        · simp only [rxcs, macHandleRxc_joined_none m s hst hl v mp snr hv.1 hs, bind, Except.bind, pure, Except.pure, h1]
        · simp only [rxcs, macHandleRxc_joined_none m s hst hl v mp snr hv.1 hs, bind, Except.bind, pure, Except.pure, h2]
        · simp only [List.filter_cons, h3]
      | some q =>
        obtain ⟨N, d⟩ := q
        obtain ⟨hrx, ha, hw⟩ := macHandleRxc_joined_some m s hst hl v mp snr hv.1 N d hs
        have hnl : nextLast s.fcntDown v mp = some N := by simp only [nextLast, hs]
        rw [hnl] at hleg'
        have hfd : (acceptFinish s d N (ctxC m s)).2.1.fcntDown = some N := by rw [acceptFinish_session_eq]
        have hl1 : LastOk (acceptFinish s d N (ctxC m s)).2.1.fcntDown := by
          rw [hfd]; exact fresh_lastOk hw (accepts_some.mp ha).2.1
        rw [← hfd] at hleg'
        obtain ⟨os, os', m', h1, h2, h3⟩ :=
          ih hrest ks' (acceptState m s d N (ctxC m s)) _ (acceptState_st m s d N (ctxC m s)) hl1 hleg'
        refine ⟨acceptOut s d N (ctxC m s) :: os, acceptOut s d N (ctxC m s) :: os', m', ?_, ?_, ?_⟩
        · simp only [rxcs, hrx, bind, Except.bind, pure, Except.pure, h1]
        · simp only [rxcs, hrx, bind, Except.bind, pure, Except.pure, h2]
        · simp only [List.filter_cons, h3]
    cases ks with
    | nil =>
      have := keep [] (by cases rest <;> simp [LegalCs])
      have e : thinCs ([] : List Bool) rest = rest := by cases rest <;> rfl
      rw [e] at this
      exact this
    | cons k ks =>
      simp only [LegalCs] at hleg
      cases k with
      | false => exact keep ks hleg.2
      | true =>
        -- the frame is deleted: the reference rejects it, the model answers `NoUpdate` and moves on
        have hrej := hleg.1 rfl
        have hs : specRxc s.fcntDown v mp = none := by
          unfold RejRxc at hrej
          unfold specRxc
          cases v with
          | garbage => rfl
          | joinAccept j => rfl
          | data d => simp only at hrej ⊢; rw [hrej]; rfl
        have hnl : nextLast s.fcntDown v mp = s.fcntDown := by simp only [nextLast, hs]
        rw [hnl] at hleg
        obtain ⟨os, os', m', h1, h2, h3⟩ := ih hrest ks m s hst hl hleg.2
        refine ⟨noUp :: os, os', m', ?_, h2, ?_⟩
        · simp only [rxcs, macHandleRxc_joined_none m s hst hl v mp snr hv.1 hs, bind, Except.bind, pure, Except.pure, h1]
        · rw [h3]
          simp [List.filter_cons, noUp]

theorem window_mask_joined (m : MacState) (s : Session) (hst : m.st = .joined s) (hl : LastOk s.fcntDown)
    (f : Option (RxView × Int)) (mp : Nat) (b : Bool) (hf : rxOk f = true)
    (hb : b = true → heard (RejWin (some s.fcntDown) · mp) f) : window m (maskRx b f) mp = window m f mp := by
  rw [window_joined m s hst hl _ mp (rxOk_mask b f hf), window_joined m s hst hl f mp hf, specWindow_mask s.fcntDown b f mp hb]

theorem filter_append_eq {os os' : List RxOut} (o : List RxOut) (h : os'.filter (· != noUp) = os.filter (· != noUp)) :
    (os' ++ o).filter (· != noUp) = (os ++ o).filter (· != noUp) := by
  rw [List.filter_append, List.filter_append, h]

/-- one window with what precedes it: deleting rejected frames (heard on the RXC parameters before it,
or in it) changes neither its verdict nor the state it leaves -/
theorem winC_thin (cc : Bool) (m : MacState) (s : Session) (hst : m.st = .joined s) (hl : LastOk s.fcntDown)
    (cs : List (RxView × Int)) (f : Option (RxView × Int)) (mp : Nat) (eb ea : Bool) (hv : csOk cs = true) (hf : rxOk f = true)
    (ks : List Bool) (b : Bool) (hk : cc = true → LegalCs (rxcMp m) s.fcntDown ks cs)
    (hb : b = true → heard (RejWin (some (if cc then lastAfterCs s.fcntDown (rxcMp m) cs else s.fcntDown)) · mp) f)
    (r : Option (Option RxOut)) (os : List RxOut) (m' : MacState) (h : winC cc m cs f mp eb ea = .ok (r, os, m')) :
    ∃ os', winC cc m (thinCs ks cs) (maskRx b f) mp eb ea = .ok (r, os', m') ∧ os'.filter (· != noUp) = os.filter (· != noUp) := by
  unfold winC at h ⊢
  obtain ⟨⟨os1, fin, m1⟩, hbw, hk1⟩ := Except.bind_eq_ok h
  clear h
  -- the state before the window, on both sides
  have hbt : ∃ osB s1, fin = true ∧ between cc m (thinCs ks cs) = .ok (osB, true, m1) ∧ osB.filter (· != noUp) = os1.filter (· != noUp) ∧
      m1.st = .joined s1 ∧ LastOk s1.fcntDown ∧ s1.fcntDown = (if cc then lastAfterCs s.fcntDown (rxcMp m) cs else s.fcntDown) := by
    unfold between at hbw ⊢
    cases cc with
    | false =>
      simp only [Bool.false_eq_true, if_false, pure, Except.pure, Except.ok.injEq, Prod.mk.injEq] at hbw
      obtain ⟨rfl, rfl, rfl⟩ := hbw
      exact ⟨[], s, rfl, rfl, rfl, hst, hl, rfl⟩
    | true =>
      simp only [if_true] at hbw ⊢
      obtain ⟨rf, hrf, hbw⟩ := Except.bind_eq_ok hbw
      rw [rxcMp_of_ok hrf] at hbw
      obtain ⟨osA, osB, m2, h1, h2, h3⟩ := rxcs_thin (rxcMp m) cs hv ks m s hst hl (hk rfl)
      obtain ⟨m3, s3, h4, _, hst3, _, _, hp3, hl3, _⟩ := rxcs_joined (rxcMp m) cs hv m s hst hl
      rw [h1] at hbw h4
      simp only [Except.ok.injEq, Prod.mk.injEq] at hbw h4
      obtain ⟨rfl, rfl, rfl⟩ := hbw
      obtain ⟨_, _, rfl⟩ := h4
      refine ⟨osB, s3, rfl, ?_, h3, hst3, hl3, ?_⟩
      · simp only [hrf, bind, Except.bind, rxcMp_of_ok hrf, h2]
      · have : s3.fcntDown = (stOf s3).last := rfl
        rw [this, hp3, refRxcs_last]; rfl
  obtain ⟨osB, s1, rfl, hbt, hfil, hst1, hl1, hfd1⟩ := hbt
  rw [← hfd1] at hb
  simp only [hbt, bind, Except.bind, Bool.not_true, Bool.false_or] at hk1 ⊢
  cases eb with
  | true =>
    simp only [if_true, pure, Except.pure, Except.ok.injEq, Prod.mk.injEq] at hk1 ⊢
    obtain ⟨rfl, rfl, rfl⟩ := hk1
    exact ⟨osB, ⟨rfl, rfl, rfl⟩, hfil⟩
  | false =>
    simp only [Bool.false_eq_true, if_false] at hk1 ⊢
    rw [window_mask_joined m1 s1 hst1 hl1 f mp b hf hb]
    cases hw : window m1 f mp with
    | error e => rw [hw] at hk1; cases hk1
    | ok wr =>
      obtain ⟨o, m2⟩ := wr
      rw [hw] at hk1
      simp only at hk1 ⊢
      cases hc : closeWindow cc m2 with
      | error e => rw [hc] at hk1; cases hk1
      | ok u =>
        rw [hc] at hk1
        simp only at hk1 ⊢
        cases ea with
        | true =>
          simp only [if_true, pure, Except.pure, Except.ok.injEq, Prod.mk.injEq] at hk1 ⊢
          obtain ⟨rfl, rfl, rfl⟩ := hk1
          exact ⟨_, ⟨rfl, rfl, rfl⟩, filter_append_eq _ hfil⟩
        | false =>
          simp only [Bool.false_eq_true, if_false, pure, Except.pure, Except.ok.injEq, Prod.mk.injEq] at hk1 ⊢
          obtain ⟨rfl, rfl, rfl⟩ := hk1
          exact ⟨_, ⟨rfl, rfl, rfl⟩, filter_append_eq _ hfil⟩

theorem refWin_none_last (cc : Bool) (p : PSt) (conf : Bool) (mpc : Nat) (cs : List (RxView × Int)) (f : Option (RxView × Int))
    (mp : Nat) (eb ea : Bool) (h : (refWin cc p conf mpc cs f mp eb ea).res = some none) :
    (refWin cc p conf mpc cs f mp eb ea).st.last = (if cc then lastAfterCs p.last mpc cs else p.last) := by
  unfold refWin at h ⊢
  have hb : (if cc then refRxcs p mpc cs else ⟨[], [], p⟩ : Ref).st.last = (if cc then lastAfterCs p.last mpc cs else p.last) := by
    cases cc
    · rfl
    · exact refRxcs_last mpc cs p
  generalize (if cc then refRxcs p mpc cs else ⟨[], [], p⟩ : Ref) = b at h hb ⊢
  simp only [] at h ⊢
  cases eb with
  | true => simp at h
  | false =>
    simp only [Bool.false_eq_true, if_false] at h ⊢
    cases hsw : specWindow b.st.last f mp with
    | nothing => exact hb
    | ended => rw [hsw] at h; cases ea <;> simp at h
    | accepted N d snr => rw [hsw] at h; cases ea <;> simp at h

/-- the receive procedure of a device with a session: deleting rejected frames — from `c1`, RX1, `c2`,
RX2, each judged under the counter the reference holds when it is heard — changes neither how the
procedure ends nor the state it leaves, and removes only `NoUpdate` entries from the reports -/
theorem cycleC_thin (cc : Bool) (m : MacState) (s : Session) (hst : m.st = .joined s) (hl : LastOk s.fcntDown)
    (fault : Option FaultPos) (c1 : List (RxView × Int)) (rx1 : Option (RxView × Int)) (c2 : List (RxView × Int))
    (rx2 : Option (RxView × Int)) (mp1 mp2 : Nat) (hv1 : csOk c1 = true) (hf1 : rxOk rx1 = true) (hv2 : csOk c2 = true)
    (hf2 : rxOk rx2 = true) (k1 : List Bool) (b1 : Bool) (k2 : List Bool) (b2 : Bool)
    (hk1 : cc = true → LegalCs (rxcMp m) s.fcntDown k1 c1)
    (hb1 : b1 = true → heard (RejWin (some (if cc then lastAfterCs s.fcntDown (rxcMp m) c1 else s.fcntDown)) · mp1) rx1)
    (hk2 : cc = true → LegalCs (rxcMp m) (lastAfterCs s.fcntDown (rxcMp m) c1) k2 c2)
    (hb2 : b2 = true → heard (RejWin (some (if cc then lastAfterCs (lastAfterCs s.fcntDown (rxcMp m) c1) (rxcMp m) c2 else s.fcntDown)) · mp2) rx2)
    (fin : ProcEnd) (hd : List RxOut) (m' : MacState) (h : cycleC cc m fault c1 rx1 c2 rx2 mp1 mp2 = .ok (fin, hd, m')) :
    ∃ hd', cycleC cc m fault (thinCs k1 c1) (maskRx b1 rx1) (thinCs k2 c2) (maskRx b2 rx2) mp1 mp2 = .ok (fin, hd', m') ∧
      hd'.filter (· != noUp) = hd.filter (· != noUp) := by
  unfold cycleC at h ⊢
  by_cases htx : fault = some .tx
  · simp only [htx, if_true, pure, Except.pure, Except.ok.injEq, Prod.mk.injEq] at h ⊢
    obtain ⟨rfl, rfl, rfl⟩ := h
    exact ⟨[], ⟨rfl, rfl, rfl⟩, rfl⟩
  · simp only [htx, if_false] at h ⊢
    obtain ⟨⟨r1, h1, ma⟩, hw1, hk⟩ := Except.bind_eq_ok h
    clear h
    obtain ⟨h1', hw1', hfil1⟩ := winC_thin cc m s hst hl c1 rx1 mp1 _ _ hv1 hf1 k1 b1 hk1 hb1 r1 h1 ma hw1
    obtain ⟨hr1, _, _, sa, hsta, hpa, hla, _, hkeep⟩ := winC_joined cc m s hst hl c1 rx1 mp1 _ _ hv1 hf1 r1 h1 ma hw1
    simp only [hw1', bind, Except.bind]
    cases r1 with
    | none =>
      simp only [pure, Except.pure, Except.ok.injEq, Prod.mk.injEq] at hk ⊢
      obtain ⟨rfl, rfl, rfl⟩ := hk
      exact ⟨h1', ⟨rfl, rfl, rfl⟩, hfil1⟩
    | some o1 =>
      cases o1 with
      | some o =>
        simp only [pure, Except.pure, Except.ok.injEq, Prod.mk.injEq] at hk ⊢
        obtain ⟨rfl, rfl, rfl⟩ := hk
        exact ⟨h1', ⟨rfl, rfl, rfl⟩, hfil1⟩
      | none =>
        simp only at hk ⊢
        obtain ⟨hca, hra⟩ := hkeep rfl
        have hmp : rxcMp ma = rxcMp m := rxcMp_congr m ma hca (by rw [hra])
        have hfda : sa.fcntDown = (if cc then lastAfterCs s.fcntDown (rxcMp m) c1 else s.fcntDown) := by
          have : sa.fcntDown = (stOf sa).last := rfl
          rw [this, hpa, refWin_none_last _ _ _ _ _ _ _ _ _ hr1.symm]; rfl
        obtain ⟨⟨r2, h2, mb⟩, hw2, hk2'⟩ := Except.bind_eq_ok hk
        clear hk
        have hk2a : cc = true → LegalCs (rxcMp ma) sa.fcntDown k2 c2 := by
          intro hcc; rw [hmp, hfda, if_pos hcc]; exact hk2 hcc
        have hb2a : b2 = true → heard (RejWin (some (if cc then lastAfterCs sa.fcntDown (rxcMp ma) c2 else sa.fcntDown)) · mp2) rx2 := by
          intro hb; rw [hmp, hfda]
          cases cc
          · exact hb2 hb
          · exact hb2 hb
        obtain ⟨h2', hw2', hfil2⟩ := winC_thin cc ma sa hsta hla c2 rx2 mp2 _ _ hv2 hf2 k2 b2 hk2a hb2a r2 h2 mb hw2
        simp only [hw2']
        have hfil : (h1' ++ h2').filter (· != noUp) = (h1 ++ h2).filter (· != noUp) := by
          rw [List.filter_append, List.filter_append, hfil1, hfil2]
        cases r2 with
        | none =>
          simp only [pure, Except.pure, Except.ok.injEq, Prod.mk.injEq] at hk2' ⊢
          obtain ⟨rfl, rfl, rfl⟩ := hk2'
          exact ⟨_, ⟨rfl, rfl, rfl⟩, hfil⟩
        | some o2 =>
          cases o2 <;>
            (simp only [pure, Except.pure, Except.ok.injEq, Prod.mk.injEq] at hk2' ⊢
             obtain ⟨rfl, rfl, rfl⟩ := hk2'
             exact ⟨_, ⟨rfl, rfl, rfl⟩, hfil⟩)

/-! a device that is joining -/

theorem winC_thin_otaa (cc : Bool) (m : MacState) (o : OtaaState) (hst : m.st = .otaa o) (cs cs' : List (RxView × Int))
    (f : Option (RxView × Int)) (mp : Nat) (eb ea : Bool) (b : Bool) (hb : b = true → heard RejJoin f) :
    winC cc m cs' (maskRx b f) mp eb ea = winC cc m cs f mp eb ea := by
  unfold winC
  rw [between_notJoined_eq cc m (fun s hs => by rw [hst] at hs; cases hs) cs' cs]
  cases hbw : between cc m cs with
  | error e => rfl
  | ok r =>
    obtain ⟨os, fin, m1⟩ := r
    obtain ⟨_, rfl, _⟩ := between_notJoined cc m (fun s hs => by rw [hst] at hs; cases hs) cs os fin m1 hbw
    simp only [bind, Except.bind]
    rw [window_otaa m1 o hst, window_otaa m1 o hst, joinAcc_mask b f hb]

/-- the receive procedure of a joining device: whatever is heard on the RXC parameters, and rejected
frames in the windows, play no part -/
theorem cycleC_thin_otaa (cc : Bool) (m : MacState) (o : OtaaState) (hst : m.st = .otaa o) (fault : Option FaultPos)
    (c1 c1' : List (RxView × Int)) (rx1 : Option (RxView × Int)) (c2 c2' : List (RxView × Int)) (rx2 : Option (RxView × Int))
    (mp1 mp2 : Nat) (b1 b2 : Bool) (hb1 : b1 = true → heard RejJoin rx1) (hb2 : b2 = true → heard RejJoin rx2) :
    cycleC cc m fault c1' (maskRx b1 rx1) c2' (maskRx b2 rx2) mp1 mp2 = cycleC cc m fault c1 rx1 c2 rx2 mp1 mp2 := by
  unfold cycleC
  by_cases htx : fault = some .tx
  · simp only [htx, if_true]
  · simp only [htx, if_false]
    rw [winC_thin_otaa cc m o hst c1 c1' rx1 mp1 _ _ b1 hb1]
    cases hw1 : winC cc m c1 rx1 mp1 (fault == some .before1) (fault == some .close1) with
    | error e => rfl
    | ok r =>
      obtain ⟨r1, h1, ma⟩ := r
      simp only [bind, Except.bind]
      cases r1 with
      | none => rfl
      | some o1 =>
        cases o1 with
        | some x => rfl
        | none =>
          simp only
          have hma : ma = m := by
            have hw := winC_otaa cc m o hst c1 rx1 mp1 _ _ _ h1 ma hw1
            split at hw
            · cases hw.1
            · split at hw
              · have := hw.2.1; split at this <;> cases this
              · exact hw.1
          subst hma
          rw [winC_thin_otaa cc ma o hst c2 c2' rx2 mp2 _ _ b2 hb2]

/-- **while joining, what is heard on the RXC parameters changes NOTHING** (the repaired clause:
`C07-join-aborted-by-rxc-frame`): the join procedure of a Class C device with ANY frames heard between
TX and RX1 and between RX1 and RX2 — garbage, frames of other devices, even a JoinAccept on the wrong
parameters — is, as a computation, the join procedure of the twin that heard none of them: same
state, same random stream, same output, same failures.  For every state, class, fault position and
every frame list. -/
theorem joinC_rxc_frames_invisible {σ} (g : Rng σ) (ms : MacState × σ) (cc : Bool) (fault : Option FaultPos)
    (c1 c2 : List (RxView × Int)) (rx1 rx2 : Option (RxView × Int)) :
    stepC g ms (.joinC cc fault c1 rx1 c2 rx2) = stepC g ms (.joinC cc fault [] rx1 [] rx2) := by
  simp only [stepC]
  cases hj : macJoinOtaa g ms.1 ms.2 with
  | error e => rfl
  | ok r =>
    obtain ⟨jo, m1, rs1⟩ := r
    obtain ⟨dr, tx, region', pw, r1, r2, _, _, hm1, _, _⟩ := macJoinOtaa_ok g ms.1 ms.2 rs1 jo m1 hj
    have hst1 : m1.st = .otaa { devNonce := (draw g ms.2).1 % 65536 } := by rw [hm1]
    simp only [bind, Except.bind]
    have := cycleC_thin_otaa cc m1 _ hst1 fault [] c1 rx1 [] c2 rx2 jo.tx.rx1.maxPayload.toNat jo.tx.rx2.maxPayload.toNat false false
      (fun e => by cases e) (fun e => by cases e)
    simp only [maskRx, Bool.false_eq_true, if_false] at this
    rw [this]

/-- **thinning one extended event by rejected frames**: same state, same random stream, same output
up to the `NoUpdate` entries of the deleted frames -/
theorem stepC_thin {σ} (g : Rng σ) (m m' : MacState) (rs rs' : σ) (gh : Gh) (hr : GhRel m gh) (ev : EvC) (hv : evOkC ev = true)
    (out : OutC) (h : stepC g (m, rs) ev = .ok ((m', rs'), out)) (k1 : List Bool) (b1 : Bool) (k2 : List Bool) (b2 : Bool)
    (hl : LegalDelC gh (rxcMp m, ev) out (.thin k1 b1 k2 b2)) :
    ∃ out', stepC g (m, rs) (thinEvC k1 b1 k2 b2 ev) = .ok ((m', rs'), out') ∧ strip out' = strip out := by
  cases ev with
  | base e =>
    simp only [LegalDelC] at hl
    simp only [evOkC] at hv
    refine ⟨out, ?_, rfl⟩
    simp only [thinEvC, stepC, step_mask_eq g m rs gh hr e hv b1 b2 hl]
    simpa only [stepC] using h
  | joinC cc fault c1 rx1 c2 rx2 =>
    simp only [LegalDelC] at hl
    refine ⟨out, ?_, rfl⟩
    simp only [thinEvC, stepC] at h ⊢
    cases hj : macJoinOtaa g m rs with
    | error e => rw [hj] at h; cases h
    | ok r =>
      obtain ⟨jo, m1, rs1⟩ := r
      obtain ⟨dr, tx, region', pw, r1, r2, _, _, hm1, _, _⟩ := macJoinOtaa_ok g m rs rs1 jo m1 hj
      have hst1 : m1.st = .otaa { devNonce := (draw g rs).1 % 65536 } := by rw [hm1]
      rw [hj] at h
      simp only [bind, Except.bind] at h ⊢
      rw [cycleC_thin_otaa cc m1 _ hst1 fault c1 _ rx1 c2 _ rx2 _ _ b1 b2 hl.1 hl.2]
      exact h
  | uplinkC cc data fport conf fault c1 rx1 c2 rx2 =>
    simp only [evOkC, Bool.and_eq_true] at hv
    obtain ⟨⟨⟨hv1, hf1⟩, hv2⟩, hf2⟩ := hv
    cases gh with
    | none =>
      refine ⟨out, ?_, rfl⟩
      simp only [thinEvC, stepC, macSend_notJoined g m hr] at h ⊢
      exact h
    | some last =>
      obtain ⟨s, hst, rfl, hlo⟩ := hr
      simp only [thinEvC, stepC] at h ⊢
      obtain ⟨⟨o, m1, rs1⟩, hsend, hk⟩ := Except.bind_eq_ok h
      clear h
      obtain ⟨dr, tx, region', pw, r1, r2, _, _, hsel, hm1, _, ho⟩ := macSend_joined g m s hst data fport conf rs rs1 o m1 hsend
      subst ho
      have hst1 : m1.st = .joined (sentSession s conf) := by rw [hm1]
      have hcfg1 : m1.cfg = m.cfg := by rw [hm1]
      have hid1 : m1.region.id = m.region.id := by rw [hm1]; exact selectTxChannel_id g m.region region' dr .data rs rs1 tx hsel
      have hl1 : LastOk (sentSession s conf).fcntDown := hlo
      have hmp : rxcMp m1 = rxcMp m := rxcMp_congr m m1 hcfg1 hid1
      simp only [hsend, bind, Except.bind] at hk ⊢
      obtain ⟨⟨fin, hd, m2⟩, hcy, hk2⟩ := Except.bind_eq_ok hk
      clear hk
      have hout : ∃ r d, out.out = .up (⟨⟨pw, rfOf tx.datarate tx.frequency, r1, r2⟩, descOf s m.cfg m.region.id data fport conf⟩ : SendOut) r d := by
        cases fin <;> simp only [pure, Except.pure, Except.ok.injEq, Prod.mk.injEq] at hk2 <;>
          (obtain ⟨_, rfl⟩ := hk2; exact ⟨_, _, rfl⟩)
      obtain ⟨rr, dd, hout⟩ := hout
      simp only [LegalDelC, hout] at hl
      obtain ⟨hk1, hb1, hk2l, hb2⟩ := hl
      have hfd : (sentSession s conf).fcntDown = s.fcntDown := rfl
      obtain ⟨hd', hcy', hfil⟩ := cycleC_thin cc m1 _ hst1 hl1 fault c1 rx1 c2 rx2 _ _ hv1 hf1 hv2 hf2 k1 b1 k2 b2
        (by rw [hmp, hfd]; exact hk1) (by rw [hmp, hfd]; exact hb1) (by rw [hmp, hfd]; exact hk2l) (by rw [hmp, hfd]; exact hb2)
        fin hd m2 hcy
      rw [hcy']
      cases fin with
      | resp ro =>
        simp only [pure, Except.pure, Except.ok.injEq, Prod.mk.injEq] at hk2 ⊢
        obtain ⟨⟨rfl, rfl⟩, rfl⟩ := hk2
        exact ⟨_, ⟨⟨rfl, rfl⟩, rfl⟩, by simp only [strip, hfil]⟩
      | complete =>
        simp only [pure, Except.pure, Except.ok.injEq, Prod.mk.injEq] at hk2 ⊢
        obtain ⟨⟨rfl, rfl⟩, rfl⟩ := hk2
        exact ⟨_, ⟨⟨rfl, rfl⟩, rfl⟩, by simp only [strip, hfil]⟩
      | cut =>
        simp only [pure, Except.pure, Except.ok.injEq, Prod.mk.injEq] at hk2 ⊢
        obtain ⟨⟨rfl, rfl⟩, rfl⟩ := hk2
        exact ⟨_, ⟨⟨rfl, rfl⟩, rfl⟩, by simp only [strip, hfil]⟩

/-- a rejected Class C reception between uplinks leaves state and random stream as they were -/
theorem stepC_drop {σ} (g : Rng σ) (m m' : MacState) (rs rs' : σ) (gh : Gh) (hr : GhRel m gh) (ev : EvC) (hv : evOkC ev = true)
    (out : OutC) (h : stepC g (m, rs) ev = .ok ((m', rs'), out)) (hl : LegalDelC gh (rxcMp m, ev) out .drop) :
    m' = m ∧ rs' = rs := by
  cases ev with
  | base e =>
    simp only [LegalDelC] at hl
    exact step_drop_eq g m m' rs rs' gh hr e hv hl out.out (stepC_base g _ _ e out h).1
  | joinC cc fault c1 rx1 c2 rx2 => exact hl.elim
  | uplinkC cc data fport conf fault c1 rx1 c2 rx2 => exact hl.elim

/-- **C07 over every extended history.**  Take any extended history (Class C receptions inside the
receive procedure included) and any script deleting frames the REFERENCE rejects at the point where
they are heard — between uplinks (`drop`); during `send` + receive procedure: on the RXC parameters
before RX1, in RX1, on the RXC parameters before RX2, in RX2, each under the counter the reference
holds at that very point of the procedure; in RX1/RX2 of a join procedure — anywhere, any number.
The thinned history runs to the SAME final state and random stream, and produces the SAME output at
every remaining event (uplink bytes, counters, MAC answers, ACK bit, radio configurations, responses,
delivered payloads); its `heard` lists lack the `NoUpdate` entries of the deleted frames, nothing else. -/
theorem historyC_rejected_invisible {σ} (g : Rng σ) (m : MacState) (rs : σ) (gh : Gh) (hr : GhRel m gh)
    (evs : List EvC) (hv : ∀ ev ∈ evs, evOkC ev = true) (ds : List DelC) (ms' : MacState × σ) (outs : List OutC)
    (h : runC g (m, rs) evs = .ok (ms', outs)) (hl : LegalC gh ds ((annotC g (m, rs) evs).zip outs)) :
    ∃ outs', runC g (m, rs) (thinEvsC ds evs) = .ok (ms', outs') ∧ outs'.map strip = (thinOutsC ds outs).map strip := by
  induction evs generalizing m rs gh ds outs with
  | nil =>
    have : outs = [] := by unfold runC at h; cases Except.pure_eq_ok h; rfl
    subst this
    refine ⟨[], ?_, ?_⟩
    · cases ds with
      | nil => exact h
      | cons d ds => cases d <;> exact h
    · cases ds with
      | nil => rfl
      | cons d ds => cases d <;> rfl
  | cons ev rest ih =>
    cases ds with
    | nil => exact ⟨outs, h, rfl⟩
    | cons d ds =>
      have hrun := h
      unfold runC at h
      obtain ⟨⟨⟨m1, rs1⟩, o⟩, hstep, h⟩ := Except.bind_eq_ok h
      obtain ⟨⟨ms2, os⟩, hrest, h⟩ := Except.bind_eq_ok h
      cases Except.pure_eq_ok h
      have hve := hv ev List.mem_cons_self
      have hr1 := stepC_ghRel g m m1 rs rs1 ev o gh hr hve hstep
      have hvr : ∀ e ∈ rest, evOkC e = true := fun e he => hv e (List.mem_cons_of_mem _ he)
      rw [annotC_cons g (m, rs) (m1, rs1) ev rest o hstep, List.zip_cons_cons] at hl
      simp only [LegalC] at hl
      obtain ⟨outs2, hrun2, hmap2⟩ := ih m1 rs1 _ hr1 hvr ds os hrest hl.2
      cases d with
      | keep =>
        refine ⟨o :: outs2, ?_, ?_⟩
        · simp only [thinEvsC, runC, hstep, hrun2, bind, Except.bind, pure, Except.pure]
        · simp only [thinOutsC, List.map_cons, hmap2]
      | thin k1 b1 k2 b2 =>
        obtain ⟨o', hstep', hstrip⟩ := stepC_thin g m m1 rs rs1 gh hr ev hve o hstep k1 b1 k2 b2 hl.1
        refine ⟨o' :: outs2, ?_, ?_⟩
        · simp only [thinEvsC, runC, hstep', hrun2, bind, Except.bind, pure, Except.pure]
        · simp only [thinOutsC, List.map_cons, hmap2, hstrip]
      | drop =>
        obtain ⟨rfl, rfl⟩ := stepC_drop g m m1 rs rs1 gh hr ev hve o hstep hl.1
        exact ⟨outs2, hrun2, hmap2⟩

instance (gh : Gh) (e : EvL) (out : OutC) (d : DelC) : Decidable (LegalDelC gh e out d) := by
  obtain ⟨mpc, ev⟩ := e
  obtain ⟨oo, hd⟩ := out
  cases d with
  | keep => exact isTrue trivial
  | drop => cases ev <;> (simp only [LegalDelC]; infer_instance)
  | thin k1 b1 k2 b2 =>
    cases ev with
    | base e => simp only [LegalDelC]; infer_instance
    | joinC cc fault c1 rx1 c2 rx2 => simp only [LegalDelC]; infer_instance
    | uplinkC cc data fport conf fault c1 rx1 c2 rx2 =>
      cases gh with
      | none => exact isTrue (by simp [LegalDelC])
      | some last =>
        cases oo with
        | up so r dl => simp only [LegalDelC]; infer_instance
        | done => exact isTrue (by simp [LegalDelC])
        | notJoined => exact isTrue (by simp [LegalDelC])
        | join o r => exact isTrue (by simp [LegalDelC])
        | rxc rf o => exact isTrue (by simp [LegalDelC])

instance : (gh : Gh) → (ds : List DelC) → (t : List (EvL × OutC)) → Decidable (LegalC gh ds t)
  | _, [], _ => isTrue (by simp [LegalC])
  | _, _ :: _, [] => isTrue (by simp [LegalC])
  | gh, d :: ds, x :: t =>
    have := instDecidableLegalC (ghNextC gh x.1 x.2) ds t
    by simp only [LegalC]; infer_instance

/-- **C07 on the async front-end, for EVERY script, both classes.**  Two sessions of the async
front-end model from the same device state, the second of which hears what the first hears minus
frames the reference rejects where they are heard (its extended history is the first's, thinned by a
legal deletion script): if both return, they end in the same MAC state and generator state, and their
outputs (`ObsRel`: the front-end's answers and the frames handed to the radio, call by call) are those
of two runs that agree at every remaining event up to `NoUpdate` entries. -/
theorem asyncC_rejected_invisible {σ} (g : Rng σ) (cfg : DevCfg) (d : DevRun) (rs : σ) (gh : Gh) (hr : GhRel d.m gh)
    (ops ops' : List AsyncOp) (hv : ∀ op ∈ ops, op.allView viewOk = true) (ds : List DelC)
    (habs : abstractSessionC cfg ops' = thinEvsC ds (abstractSessionC cfg ops))
    (obs obs' : List OpObs) (d1 d2 : DevRun) (rs1 rs2 : σ)
    (h : asyncOps g cfg d rs ops = .ok (obs, d1, rs1)) (h' : asyncOps g cfg d rs ops' = .ok (obs', d2, rs2)) :
    ∃ outs outs', AllRel ObsRel obs outs ∧ AllRel ObsRel obs' outs' ∧
      (LegalC gh ds ((annotC g (d.m, rs) (abstractSessionC cfg ops)).zip outs) →
        d2.m = d1.m ∧ rs2 = rs1 ∧ outs'.map strip = (thinOutsC ds outs).map strip) := by
  obtain ⟨outs, hrun, hobs⟩ := asyncOps_runC g cfg d rs ops obs d1 rs1 h
  obtain ⟨outs', hrun', hobs'⟩ := asyncOps_runC g cfg d rs ops' obs' d2 rs2 h'
  refine ⟨outs, outs', hobs, hobs', fun hl => ?_⟩
  obtain ⟨outs2, hrun2, hmap⟩ :=
    historyC_rejected_invisible g d.m rs gh hr _ (abstractOps_evOkC cfg ops hv) ds _ outs hrun hl
  rw [habs] at hrun'
  unfold abstractSessionC at hrun'
  rw [hrun2] at hrun'
  simp only [Except.ok.injEq, Prod.mk.injEq] at hrun'
  obtain ⟨⟨e1, e2⟩, rfl⟩ := hrun'
  exact ⟨e1.symm, e2.symm, hmap⟩

/-! non-vacuity: a Class C session; a replay heard between TX and RX1 right after the frame it
replays, garbage before RX2 and a forged frame in RX2 are deleted — same final state, same outputs
up to the `NoUpdate` entries -/
def demoHistoryC : List EvC :=
  [ .base (.joinAbp 7 1 2),
    .uplinkC true [1] 1 false none [(fr 5 (some 5), 0), (fr 5 (some 5), 0)] none [(.garbage, 0), (fr 6 (some 6), 0)] (some (fr 9 none, 0)),
    .base (.rxc .garbage 0 51),
    .uplinkC true [2] 1 true none [] none [] none ]

def demoScriptC : List DelC := [.keep, .thin [false, true] false [true, false] true, .drop, .keep]

def m0C : MacState × Nat := (MacState.init (RegionState.init .EU868) 14 0, 1)

example : ∀ ev ∈ demoHistoryC, evOkC ev = true := by decide
example : thinEvsC demoScriptC demoHistoryC =
  [ .base (.joinAbp 7 1 2),
    .uplinkC true [1] 1 false none [(fr 5 (some 5), 0)] none [(fr 6 (some 6), 0)] none,
    .uplinkC true [2] 1 true none [] none [] none ] := by rfl
example : (runC lcg m0C demoHistoryC).toOption.map
    (fun r => decide (LegalC none demoScriptC ((annotC lcg m0C demoHistoryC).zip r.2))) = some true := by decide +kernel
example : (runC lcg m0C demoHistoryC).toOption.map (fun r => r.2.map (fun o => o.heard.length)) = some [0, 4, 0, 0] := by
  decide +kernel
example : (runC lcg m0C (thinEvsC demoScriptC demoHistoryC)).toOption.map (fun r => r.2.map (fun o => o.heard.length)) = some [0, 2, 0] := by
  decide +kernel
/-- deleting an ACCEPTED frame is not legal -/
example : (runC lcg m0C demoHistoryC).toOption.map
    (fun r => decide (LegalC none [.keep, .thin [true] false [] false] ((annotC lcg m0C demoHistoryC).zip r.2))) = some false := by
  decide +kernel

/-! ### the converse over the extended histories (builder M) -/

theorem evOkC_thin (k1 : List Bool) (b1 : Bool) (k2 : List Bool) (b2 : Bool) (ev : EvC) (h : evOkC ev = true) :
    evOkC (thinEvC k1 b1 k2 b2 ev) = true := by
  cases ev with
  | base e =>
    simp only [thinEvC, evOkC] at h ⊢
    cases e <;> simp only [maskEv, evOk, Bool.and_eq_true] at h ⊢ <;> first | exact h | exact ⟨rxOk_mask _ _ h.1, rxOk_mask _ _ h.2⟩
  | uplinkC cc data fport conf fault c1 rx1 c2 rx2 =>
    simp only [thinEvC, evOkC, Bool.and_eq_true] at h ⊢
    exact ⟨⟨⟨thinCs_ok _ _ h.1.1.1, rxOk_mask _ _ h.1.1.2⟩, thinCs_ok _ _ h.1.2⟩, rxOk_mask _ _ h.2⟩
  | joinC cc fault c1 rx1 c2 rx2 =>
    simp only [thinEvC, evOkC, Bool.and_eq_true] at h ⊢
    exact ⟨⟨⟨thinCs_ok _ _ h.1.1.1, rxOk_mask _ _ h.1.1.2⟩, thinCs_ok _ _ h.1.2⟩, rxOk_mask _ _ h.2⟩

/-- **the converse of `stepC_thin`**: if the THINNED event returns, the full one — with the rejected
frames present — returns too, in the same state and random stream, with the same output up to the
`NoUpdate` entries of the inserted frames.  From a well-formed state under a valid event (totality of
the receive procedure: `cycleC_tot`); legality is judged with the output of the thinned step (same
uplink built, which is all it reads) -/
theorem stepC_unthin {σ} (g : Rng σ) (m m' : MacState) (rs rs' : σ) (gh : Gh) (hr : GhRel m gh) (hwf : MacWF m) (ev : EvC)
    (hv : evOkC ev = true) (hva : validEvC m.region.id ev = true) (k1 : List Bool) (b1 : Bool) (k2 : List Bool) (b2 : Bool)
    (out' : OutC) (h' : stepC g (m, rs) (thinEvC k1 b1 k2 b2 ev) = .ok ((m', rs'), out'))
    (hl : LegalDelC gh (rxcMp m, ev) out' (.thin k1 b1 k2 b2)) :
    ∃ out, stepC g (m, rs) ev = .ok ((m', rs'), out) ∧ strip out' = strip out := by
  cases ev with
  | base e =>
    simp only [LegalDelC] at hl
    simp only [evOkC] at hv
    refine ⟨out', ?_, rfl⟩
    simp only [thinEvC, stepC, step_mask_eq g m rs gh hr e hv b1 b2 hl] at h'
    simpa only [stepC] using h'
  | joinC cc fault c1 rx1 c2 rx2 =>
    simp only [LegalDelC] at hl
    refine ⟨out', ?_, rfl⟩
    simp only [thinEvC, stepC] at h' ⊢
    cases hj : macJoinOtaa g m rs with
    | error e => rw [hj] at h'; cases h'
    | ok r =>
      obtain ⟨jo, m1, rs1⟩ := r
      obtain ⟨dr, tx, region', pw, r1, r2, _, _, hm1, _, _⟩ := macJoinOtaa_ok g m rs rs1 jo m1 hj
      have hst1 : m1.st = .otaa { devNonce := (draw g rs).1 % 65536 } := by rw [hm1]
      rw [hj] at h'
      simp only [bind, Except.bind] at h' ⊢
      rw [cycleC_thin_otaa cc m1 _ hst1 fault c1 _ rx1 c2 _ rx2 _ _ b1 b2 hl.1 hl.2] at h'
      exact h'
  | uplinkC cc data fport conf fault c1 rx1 c2 rx2 =>
    cases gh with
    | none =>
      refine ⟨out', ?_, rfl⟩
      simp only [thinEvC, stepC, macSend_notJoined g m hr] at h' ⊢
      exact h'
    | some last =>
      have hfull : ∃ r, stepC g (m, rs) (.uplinkC cc data fport conf fault c1 rx1 c2 rx2) = .ok r := by
        simp only [validEvC, Bool.and_eq_true, Bool.or_eq_true, bne_iff_ne, ne_eq, List.isEmpty_iff, decide_eq_true_eq] at hva
        obtain ⟨⟨⟨⟨⟨h0, hlen⟩, hc1⟩, hr1⟩, hc2⟩, hr2⟩ := hva
        simp only [thinEvC, stepC] at h' ⊢
        obtain ⟨⟨o, m1, rs1⟩, hsend, hk⟩ := Except.bind_eq_ok h'
        rw [hsend]; simp only [bind, Except.bind]
        cases o with
        | none => exact ⟨_, rfl⟩
        | some o =>
          have hk1 : Keeps m m1 := (macSend_safe g m data fport conf rs hwf
            (fun e => by rcases h0 with h0 | h0; exact absurd e h0; exact h0) hlen).elim hsend
          obtain ⟨⟨fin, hd, m2⟩, hcy, _⟩ := cycleC_tot cc m1 fault c1 c2 rx1 rx2 o.tx.rx1.maxPayload.toNat o.tx.rx2.maxPayload.toNat
            hk1.1 hc1 hr1 hc2 hr2
          simp only [hcy]
          cases fin <;> exact ⟨_, rfl⟩
      obtain ⟨⟨⟨mF, rsF⟩, out⟩, hfull⟩ := hfull
      obtain ⟨s, hst, rfl, hlo⟩ := hr
      obtain ⟨so, m1, hsend, _, _, _, _, hout, _⟩ :=
        stepC_uplinkC_joined g m mF rs rsF s hst hlo cc data fport conf fault c1 rx1 c2 rx2 hv out hfull
      have hv' := evOkC_thin k1 b1 k2 b2 _ hv
      simp only [thinEvC] at hv' h'
      obtain ⟨so', m1', hsend', _, _, _, _, hout', _⟩ :=
        stepC_uplinkC_joined g m m' rs rs' s hst hlo cc data fport conf fault _ _ _ _ hv' out' h'
      rw [hsend] at hsend'
      simp only [Except.ok.injEq, Prod.mk.injEq, Option.some.injEq] at hsend'
      obtain ⟨rfl, _, _⟩ := hsend'
      have hlF : LegalDelC (some s.fcntDown) (rxcMp m, .uplinkC cc data fport conf fault c1 rx1 c2 rx2) out (.thin k1 b1 k2 b2) := by
        rw [hout'] at hl
        rw [hout]
        simpa only [LegalDelC] using hl
      obtain ⟨out2, hstep2, hstrip⟩ := stepC_thin g m mF rs rsF (some s.fcntDown) ⟨s, hst, rfl, hlo⟩ _ hv out hfull k1 b1 k2 b2 hlF
      simp only [thinEvC] at hstep2
      rw [hstep2] at h'
      simp only [Except.ok.injEq, Prod.mk.injEq] at h'
      obtain ⟨⟨rfl, rfl⟩, rfl⟩ := h'
      exact ⟨out, hfull, hstrip⟩

/-- a rejected Class C reception between uplinks returns in every well-formed state -/
theorem stepC_rxc_returns {σ} (g : Rng σ) (m : MacState) (rs : σ) (v : RxView) (snr : Int) (mp : Nat) (hwf : MacWF m)
    (hv : viewWF v = true) : ∃ m' out, stepC g (m, rs) (.base (.rxc v snr mp)) = .ok ((m', rs), out) := by
  obtain ⟨m', o, hs⟩ := step_rxc_returns g m rs v snr mp hwf hv
  exact ⟨m', { out := o }, by simp only [stepC, hs, bind, Except.bind, pure, Except.pure]⟩

/-- the annotated trace of the FULL history, rebuilt from the run of the THINNED one: a kept or thinned
event carries the RXC payload limit and the output of its counterpart in the thinned run (same state
before it, same uplink built — which is all `LegalDelC` and the tracker read); a dropped Class C
reception between uplinks is judged from the tracker alone, its annotation and output play no part -/
def fillC : List DelC → List EvC → List (EvL × OutC) → List (EvL × OutC)
  | .drop :: ds, ev :: evs, t => ((0, ev), { out := .done }) :: fillC ds evs t
  | .keep :: ds, ev :: evs, x :: t => ((x.1.1, ev), x.2) :: fillC ds evs t
  | .thin _ _ _ _ :: ds, ev :: evs, x :: t => ((x.1.1, ev), x.2) :: fillC ds evs t
  | _, _, _ => []

theorem ghNextC_out (gh : Gh) (e : EvL) (o o' : OutC) (h : o'.out = o.out) : ghNextC gh e o' = ghNextC gh e o := by
  unfold ghNextC
  rw [h]

theorem thinEvsC_nil (evs : List EvC) : thinEvsC [] evs = evs := by cases evs <;> rfl
theorem thinOutsC_nil (os : List OutC) : thinOutsC [] os = os := by cases os <;> rfl

/-- **C07 over every extended history, the converse: rejected frames can be INSERTED anywhere.**  If the
thinned extended history runs, so does the history with the rejected frames present — between
uplinks, on the RXC parameters before RX1 / before RX2 inside a receive procedure, in RX1 / RX2 of an
uplink or a join procedure, each judged by the reference under the counter it holds at that very
point — to the SAME final state and random stream, with the same outputs at the events of the thinned
history up to the `NoUpdate` entries of the inserted frames.  From any well-formed state under valid
events.  Together with `historyC_rejected_invisible`: the two runs of the pair exist together and
agree.  (Legality is stated on `fillC`, the annotated trace of the full history rebuilt from the run
that is GIVEN — the thinned one: per kept / thinned event the RXC payload limit of the state before it
and the uplink built there, which is all that legality and the tracker read.) -/
theorem historyC_rejected_insertable {σ} (g : Rng σ) (m : MacState) (rs : σ) (gh : Gh) (hr : GhRel m gh) (hwf : MacWF m)
    (evs : List EvC) (hv : ∀ ev ∈ evs, evOkC ev = true ∧ validEvC m.region.id ev = true) (ds : List DelC)
    (ms' : MacState × σ) (outs' : List OutC) (h : runC g (m, rs) (thinEvsC ds evs) = .ok (ms', outs'))
    (hl : LegalC gh ds (fillC ds evs ((annotC g (m, rs) (thinEvsC ds evs)).zip outs'))) :
    ∃ outs, runC g (m, rs) evs = .ok (ms', outs) ∧ outs'.map strip = (thinOutsC ds outs).map strip := by
  induction evs generalizing m rs gh ds outs' with
  | nil =>
    have e : thinEvsC ds [] = [] := by cases ds with | nil => rfl | cons d ds => cases d <;> rfl
    rw [e] at h
    have : outs' = [] := by unfold runC at h; cases Except.pure_eq_ok h; rfl
    subst this
    refine ⟨[], h, ?_⟩
    cases ds with | nil => rfl | cons d ds => cases d <;> rfl
  | cons ev rest ih =>
    have hve := hv ev List.mem_cons_self
    cases ds with
    | nil =>
      rw [thinEvsC_nil] at h
      exact ⟨outs', h, by rw [thinOutsC_nil]⟩
    | cons d ds =>
      cases d with
      | keep =>
        simp only [thinEvsC] at h hl
        unfold runC at h
        obtain ⟨⟨⟨m1, rs1⟩, o⟩, hstep, h⟩ := Except.bind_eq_ok h
        obtain ⟨⟨ms2, os'⟩, hrest, h⟩ := Except.bind_eq_ok h
        cases Except.pure_eq_ok h
        rw [annotC_cons g (m, rs) (m1, rs1) ev _ o hstep, List.zip_cons_cons] at hl
        simp only [fillC, LegalC] at hl
        have hk : Keeps m m1 := (stepC_safe g m rs ev hwf hve.2).elim hstep
        have hr1 := stepC_ghRel g m m1 rs rs1 ev o gh hr hve.1 hstep
        obtain ⟨os, hos, hth⟩ := ih m1 rs1 _ hr1 hk.1
          (fun e he => by rw [hk.2.1]; exact hv e (List.mem_cons_of_mem _ he)) ds os' hrest hl.2
        refine ⟨o :: os, ?_, ?_⟩
        · simp only [runC, hstep, hos, bind, Except.bind, pure, Except.pure]
        · simp only [thinOutsC, List.map_cons, hth]
      | thin k1 b1 k2 b2 =>
        simp only [thinEvsC] at h hl
        unfold runC at h
        obtain ⟨⟨⟨m1, rs1⟩, o'⟩, hstep', h⟩ := Except.bind_eq_ok h
        obtain ⟨⟨ms2, os'⟩, hrest, h⟩ := Except.bind_eq_ok h
        cases Except.pure_eq_ok h
        rw [annotC_cons g (m, rs) (m1, rs1) _ _ o' hstep', List.zip_cons_cons] at hl
        simp only [fillC, LegalC] at hl
        obtain ⟨o, hstep, hstrip⟩ := stepC_unthin g m m1 rs rs1 gh hr hwf ev hve.1 hve.2 k1 b1 k2 b2 o' hstep' hl.1
        have hk : Keeps m m1 := (stepC_safe g m rs ev hwf hve.2).elim hstep
        have hr1 := stepC_ghRel g m m1 rs rs1 ev o gh hr hve.1 hstep
        rw [← ghNextC_out gh (rxcMp m, ev) o o' (show (strip o').out = (strip o).out from by rw [hstrip])] at hr1
        obtain ⟨os, hos, hth⟩ := ih m1 rs1 _ hr1 hk.1
          (fun e he => by rw [hk.2.1]; exact hv e (List.mem_cons_of_mem _ he)) ds os' hrest hl.2
        refine ⟨o :: os, ?_, ?_⟩
        · simp only [runC, hstep, hos, bind, Except.bind, pure, Except.pure]
        · simp only [thinOutsC, List.map_cons, hth, hstrip]
      | drop =>
        simp only [thinEvsC] at h hl
        simp only [fillC, LegalC] at hl
        obtain ⟨hld, hlr⟩ := hl
        cases ev with
        | joinC cc fault c1 rx1 c2 rx2 => exact hld.elim
        | uplinkC cc data fport conf fault c1 rx1 c2 rx2 => exact hld.elim
        | base e =>
          simp only [LegalDelC] at hld
          cases e with
          | rxc v snr mp =>
            have hvw : viewWF v = true := by
              have := hve.2; simpa [validEvC, validEv] using this
            obtain ⟨m1, o, hstep⟩ := stepC_rxc_returns g m rs v snr mp hwf hvw
            have hev : evOk (.rxc v snr mp) = true := by have := hve.1; simpa only [evOkC] using this
            have e1 := (step_drop_eq g m m1 rs rs gh hr _ hev hld o.out (stepC_base g _ _ _ o hstep).1).1
            rw [e1] at hstep
            have hr1 := stepC_ghRel g m m rs rs _ o gh hr hve.1 hstep
            have hgn : ghNextC gh (rxcMp m, .base (.rxc v snr mp)) o = ghNextC gh (0, .base (.rxc v snr mp)) { out := .done } := rfl
            rw [hgn] at hr1
            obtain ⟨os, hos, hth⟩ := ih m rs _ hr1 hwf (fun e he => hv e (List.mem_cons_of_mem _ he)) ds outs' h hlr
            refine ⟨o :: os, ?_, by simp only [thinOutsC]; exact hth⟩
            simp only [runC, hstep, hos, bind, Except.bind, pure, Except.pure]
          | joinAbp da nwk app => exact hld.elim
          | setAdr on => exact hld.elim
          | setDr dr => exact hld.elim
          | joinOtaa fault rx1 rx2 mp1 mp2 => exact hld.elim
          | uplink data fport conf fault rx1 rx2 mp1 mp2 => exact hld.elim

/-- **the converse on the async front-end, for EVERY script, both classes.**  A session `ops'` of the
async front-end model returns; `ops` is a session from the same device state that hears, in addition,
frames the reference rejects where they are heard (`abstractSessionC ops'` is `abstractSessionC ops`
thinned by a legal script).  Then the extended history of `ops` runs to the final MAC state and
generator state of `ops'`, with the same outputs up to `NoUpdate` entries, and the session `ops` itself
either returns — in that MAC state and generator state, with those outputs call by call — or stops with
one of the front-end's OWN failures (`Extra`: its timer arithmetic on the radio's timestamps; never a
failure of the MAC). -/
theorem asyncC_rejected_insertable {σ} (g : Rng σ) (cfg : DevCfg) (d : DevRun) (rs : σ) (gh : Gh) (hr : GhRel d.m gh) (hwf : MacWF d.m)
    (ops ops' : List AsyncOp) (hv : ∀ op ∈ ops, op.allView viewOk = true ∧ op.valid d.m.region.id = true) (ds : List DelC)
    (habs : abstractSessionC cfg ops' = thinEvsC ds (abstractSessionC cfg ops))
    (obs' : List OpObs) (d2 : DevRun) (rs2 : σ) (h' : asyncOps g cfg d rs ops' = .ok (obs', d2, rs2)) :
    ∃ outs', AllRel ObsRel obs' outs' ∧
      (LegalC gh ds (fillC ds (abstractSessionC cfg ops) ((annotC g (d.m, rs) (abstractSessionC cfg ops')).zip outs')) →
        ∃ outs, runC g (d.m, rs) (abstractSessionC cfg ops) = .ok ((d2.m, rs2), outs) ∧
          outs'.map strip = (thinOutsC ds outs).map strip ∧
          (match asyncOps g cfg d rs ops with
           | .ok (obs, d1, rs1) => d1.m = d2.m ∧ rs1 = rs2 ∧ AllRel ObsRel obs outs
           | .error e => Extra e)) := by
  obtain ⟨outs', hrun', hobs'⟩ := asyncOps_runC g cfg d rs ops' obs' d2 rs2 h'
  refine ⟨outs', hobs', fun hl => ?_⟩
  rw [habs] at hrun' hl
  have hvv : ∀ ev ∈ abstractSessionC cfg ops, evOkC ev = true ∧ validEvC d.m.region.id ev = true := by
    intro ev hev
    obtain ⟨op, hop, rfl⟩ := List.mem_map.mp hev
    exact ⟨abstractOp_evOkC cfg op (hv op hop).1, abstractOp_valid cfg _ op (hv op hop).2⟩
  obtain ⟨outs, hrun, hmap⟩ := historyC_rejected_insertable g d.m rs gh hr hwf _ hvv ds _ outs' hrun' hl
  refine ⟨outs, hrun, hmap, ?_⟩
  have hsim := asyncOps_sim g cfg d rs ops
  unfold abstractSessionC at hrun
  cases hx : asyncOps g cfg d rs ops with
  | ok a =>
    obtain ⟨obs, d1, rs1⟩ := a
    obtain ⟨b, hb, hrel⟩ := hsim.elim_ok hx
    rw [hrun] at hb
    cases hb
    exact ⟨hrel.m, hrel.rng, hrel.obs⟩
  | error e =>
    rw [hx] at hsim
    rcases hsim with hX | hE
    · exact hX
    · rw [hrun] at hE; cases hE

/-! non-vacuity of the converse on `demoHistoryC` / `demoScriptC`: the script is legal on the trace
rebuilt from the THINNED run; inserting a frame the reference ACCEPTS is not -/
example : MacWF m0C.1 := by decide
example : ∀ ev ∈ demoHistoryC, validEvC .EU868 ev = true := by decide
example : (runC lcg m0C (thinEvsC demoScriptC demoHistoryC)).toOption.map
    (fun r => decide (LegalC none demoScriptC (fillC demoScriptC demoHistoryC ((annotC lcg m0C (thinEvsC demoScriptC demoHistoryC)).zip r.2))))
    = some true := by decide +kernel
example : (runC lcg m0C (thinEvsC [.keep, .thin [true] false [] false] demoHistoryC)).toOption.map
    (fun r => decide (LegalC none [.keep, .thin [true] false [] false] (fillC [.keep, .thin [true] false [] false] demoHistoryC
      ((annotC lcg m0C (thinEvsC [.keep, .thin [true] false [] false] demoHistoryC)).zip r.2)))) = some false := by decide +kernel

/-! ### a frame heard by a JOINING Class C device (finding `C07-join-aborted-by-rxc-frame`, repaired)

`Mac::handle_rxc` answers `Err(NotJoined)` while the device is joining, and `between_windows` used to
propagate it (`self.mac.handle_rxc(..)?`): ANY frame — garbage, a frame of another device — heard on
the RXC parameters between the JoinRequest and RX1 (or between RX1 and RX2) aborted the join procedure
with `Err(Mac)`; RX1/RX2, where the JoinAccept arrives, were never opened, while the twin device that
did not hear that frame joins: a frame the device certainly "does not accept" was NOT invisible.  The
repair (repo-fixes/C07-0001-…) takes `Err(NotJoined)` as `NoUpdate`; `joinC_rxc_frames_invisible` above
is the clause at full strength on the repaired model, and the deletion scripts may delete any frame
from `c1`/`c2` of a join procedure. -/

def goodJa : RxView := .joinAccept { micOk := true, devAddr := 9, dlSettings := 0, rxDelay := 1, cfList := none, nwkKey := 5, appKey := 6 }

/-- the join procedure of a Class C device that hears garbage between TX and RX1, and a frame of
somebody else between RX1 and RX2 … -/
def joinNoise : List EvC := [ .joinC true none [(.garbage, 0)] none [(fr 3 none, 0), (.garbage, 1)] (some (goodJa, 0)) ]
/-- … and of its twin that does not -/
def joinQuiet : List EvC := [ .joinC true none [] none [] (some (goodJa, 0)) ]

def isJoined (m : MacState) : Bool := match m.st with | .joined _ => true | _ => false

/-- both join (`JoinSuccess` in RX2) -/
example :
    (runC lcg m0C joinQuiet).toOption.map (fun r => (r.2.map (fun o => match o.out with | .join _ resp => some resp | _ => none),
        isJoined r.1.1)) = some ([some (some .joinSuccess)], true) ∧
    (runC lcg m0C joinNoise).toOption.map (fun r => (r.2.map (fun o => match o.out with | .join _ resp => some resp | _ => none),
        isJoined r.1.1)) = some ([some (some .joinSuccess)], true) := by
  constructor <;> decide +kernel

example : thinEvsC [.thin [true] false [true, true] false] joinNoise = joinQuiet := by rfl

/-- op lines that replay the finding on the REAL async front-end (`lvharness eval`) and on the Lean
device model (`lvdriver`): the quiet twin opens RX1 and RX2 and answers `Ok(NoJoinAccept)`; the device
that hears one garbage byte on the RXC parameters must do the same (before the repair: `Err(Mac)` after
the first `rx_continuous`, neither window opened); a Class A device (third line) never listens there -/
def joinC_rxc_frame_ops : List String :=
  [ "C07 adev EU868 1 - 15 40 1 57 ; ajoin | O O O O O O O O O O O O ; snap",
    "C07 adev EU868 1 - 15 40 1 57 ; ajoin | O O R0/ff/g O O O O O O O O O ; snap",
    "C07 adev EU868 1 - 15 40 0 57 ; ajoin | O O R0/ff/g O O O O O O O O O ; snap" ]

end C07

#print axioms C07.rejected_noop
#print axioms C07.rejected_list_noop
#print axioms C07.twin
#print axioms C07.step_mask_eq
#print axioms C07.step_drop_eq
#print axioms C07.history_rejected_invisible
#print axioms C07.history_rejected_insertable
#print axioms C07.stepC_thin
#print axioms C07.historyC_rejected_invisible
#print axioms C07.asyncC_rejected_invisible
#print axioms C07.stepC_unthin
#print axioms C07.historyC_rejected_insertable
#print axioms C07.asyncC_rejected_insertable
#print axioms C07.joinC_rxc_frames_invisible

/-! ## `Device::rxc_listen` (builder Q)

Deleting frames the REFERENCE rejects from the script of one listen call.  Before the first accepted
frame the counter the reference holds does not move, and after it this call hears nothing: every frame
of the script is judged under the counter `last` the call starts with (`RejRxc`). -/
namespace C07

/-- delete the marked frames from a script (only frames can be deleted; the script is followed up to the
radio answer that ends the listening) -/
def thinScript : List Bool → List ScriptItem → List ScriptItem
  | true :: ks, .frame _ _ :: rest => thinScript ks rest
  | false :: ks, .frame snr v :: rest => .frame snr v :: thinScript ks rest
  | _, s => s

/-- every deleted frame is one the reference rejects under the counter `last` and the size limit `mp` -/
def LegalScript (last : Option Nat) (mp : Nat) : List Bool → List ScriptItem → Prop
  | k :: ks, .frame _ v :: rest => (k = true → RejRxc (some last) v mp) ∧ LegalScript last mp ks rest
  | _, _ => True

instance (last : Option Nat) (mp : Nat) : (ks : List Bool) → (s : List ScriptItem) → Decidable (LegalScript last mp ks s)
  | [], _ => isTrue (by simp [LegalScript])
  | _ :: _, [] => isTrue (by simp [LegalScript])
  | _ :: _, .ok :: _ => isTrue (by simp [LegalScript])
  | _ :: _, .err :: _ => isTrue (by simp [LegalScript])
  | k :: ks, .frame _ v :: rest =>
    have := instDecidableLegalScript last mp ks rest
    by simp only [LegalScript]; infer_instance

theorem thinScript_nil (ks : List Bool) : thinScript ks [] = [] := by
  cases ks with
  | nil => rfl
  | cons k ks => cases k <;> rfl

theorem thinScript_ok (ks : List Bool) (rest : List ScriptItem) : thinScript ks (.ok :: rest) = .ok :: rest := by
  cases ks with
  | nil => rfl
  | cons k ks => cases k <;> rfl

theorem thinScript_err (ks : List Bool) (rest : List ScriptItem) : thinScript ks (.err :: rest) = .err :: rest := by
  cases ks with
  | nil => rfl
  | cons k ks => cases k <;> rfl

theorem rejRxc_spec {last : Option Nat} {v : RxView} {mp : Nat} (h : RejRxc (some last) v mp) : specRxc last v mp = none := by
  cases v with
  | data d => simp only [RejRxc] at h; simp [specRxc, h]
  | garbage => rfl
  | joinAccept j => rfl

theorem thinScript_all (P : RxView → Bool) (ks : List Bool) (s : List ScriptItem) (h : s.all (ScriptItem.allView P) = true) :
    (thinScript ks s).all (ScriptItem.allView P) = true := by
  induction s generalizing ks with
  | nil => rw [thinScript_nil]; exact h
  | cons i rest ih =>
    cases ks with
    | nil => exact h
    | cons k ks =>
      cases i with
      | ok => rw [thinScript_ok]; exact h
      | err => rw [thinScript_err]; exact h
      | frame snr v =>
        simp only [List.all_cons, Bool.and_eq_true] at h
        cases k with
        | true => simpa [thinScript] using ih ks h.2
        | false =>
          simp only [thinScript, List.all_cons, Bool.and_eq_true]
          exact ⟨h.1, ih ks h.2⟩

/-- thinning a script by reference-rejected frames changes neither which frame is the first accepted one
(its counter and contents) nor how the listening ends -/
theorem thinScript_first (last : Option Nat) (mp : Nat) (ks : List Bool) (s : List ScriptItem) (h : LegalScript last mp ks s) :
    (firstAccepted last mp (leadFrames (thinScript ks s)).1).map (·.2) = (firstAccepted last mp (leadFrames s).1).map (·.2) ∧
      listenEndsErr (thinScript ks s) = listenEndsErr s := by
  induction s generalizing ks with
  | nil => rw [thinScript_nil]; exact ⟨rfl, rfl⟩
  | cons i rest ih =>
    cases ks with
    | nil => exact ⟨rfl, rfl⟩
    | cons k ks =>
      cases i with
      | ok => rw [thinScript_ok]; exact ⟨rfl, rfl⟩
      | err => rw [thinScript_err]; exact ⟨rfl, rfl⟩
      | frame snr v =>
        simp only [LegalScript] at h
        obtain ⟨h1, h2⟩ := ih ks h.2
        cases k with
        | true =>
          have hs := rejRxc_spec (h.1 rfl)
          simp only [thinScript, leadFrames, firstAccepted, hs, listenEndsErr, Option.map_map]
          exact ⟨by rw [h1]; cases firstAccepted last mp (leadFrames rest).1 <;> rfl, h2⟩
        | false =>
          simp only [thinScript, leadFrames, firstAccepted, listenEndsErr]
          refine ⟨?_, h2⟩
          cases specRxc last v mp with
          | some p => rfl
          | none =>
            simp only [Option.map_map]
            have : ∀ x : Option (Nat × Nat × RxData), x.map ((fun y => y.2) ∘ fun y => (y.1 + 1, y.2)) = x.map (·.2) := by
              intro x; cases x <;> rfl
            rw [this, this, h1]

/-- **C07 for `rxc_listen`: rejected frames are invisible.**  A device with a session (tracker `some last`),
any script with 16-bit wire counters, any deletion of frames the reference rejects (forged, replayed, too
far ahead, oversized for the RXC data rate, not a data frame): the call on the thinned script returns
the SAME answer, the SAME MAC state and the SAME downlink queue as the call that heard them. -/
theorem async_listen_rejected_invisible (r : DevRun) (last : Option Nat) (hr : GhRel r.m (some last))
    (hv : r.script.all (ScriptItem.allView viewOk) = true) (ks : List Bool)
    (hleg : LegalScript last (rxcMp r.m) ks r.script) (res : ListenResult) (r' : DevRun)
    (h : asyncListen r = .ok (res, r')) :
    ∃ r'', asyncListen { r with script := thinScript ks r.script } = .ok (res, r'') ∧
      r''.m = r'.m ∧ r''.downlinks = r'.downlinks := by
  unfold asyncListen at h ⊢
  obtain ⟨rf, hrf, h⟩ := Except.bind_eq_ok h
  obtain ⟨s, hst, rfl, hl⟩ := hr
  obtain ⟨res0, r0, h0, hnf⟩ := listenLoop_joined rf.maxPayload.toNat (r.script.length + 1) r s hst hl hv (Nat.lt_succ_self _)
  rw [h0] at h
  simp only [Except.ok.injEq, Prod.mk.injEq] at h
  obtain ⟨rfl, rfl⟩ := h
  obtain ⟨res1, r1, h1, hnf1⟩ := listenLoop_joined rf.maxPayload.toNat ((thinScript ks r.script).length + 1)
    { r with script := thinScript ks r.script } s hst hl (thinScript_all viewOk ks r.script hv) (Nat.lt_succ_self _)
  simp only [hrf, bind, Except.bind]
  rw [rxcMp_of_ok hrf] at hnf hnf1
  obtain ⟨hfa, hend⟩ := thinScript_first s.fcntDown (rxcMp r.m) ks r.script hleg
  unfold ListenNF at hnf hnf1
  simp only [] at hnf1
  refine ⟨r1, ?_⟩
  rw [h1]
  cases hx : firstAccepted s.fcntDown (rxcMp r.m) (leadFrames r.script).1 with
  | none =>
    rw [hx] at hfa
    simp only [Option.map_none, Option.map_eq_none_iff] at hfa
    simp only [hx, hfa, hend] at hnf hnf1
    refine ⟨?_, by rw [hnf1.1, hnf.1], by rw [hnf1.2.1, hnf.2.1]⟩
    rw [hnf1.2.2.1, hnf.2.2.1]
  | some x =>
    obtain ⟨k, N, d⟩ := x
    rw [hx] at hfa
    simp only [Option.map_some, Option.map_eq_some_iff] at hfa
    obtain ⟨⟨k', N', d'⟩, hy, hyx⟩ := hfa
    simp only [Prod.mk.injEq] at hyx
    obtain ⟨rfl, rfl⟩ := hyx
    simp only [hx, hy] at hnf hnf1
    refine ⟨?_, by rw [hnf1.1, hnf.1], by rw [hnf1.2.1, hnf.2.1]⟩
    rw [hnf1.2.2.1, hnf.2.2.1]

/-! non-vacuity: the script of `C05.listenStart` (forged, replay, too far ahead, authentic, one more) with the
three rejected frames deleted -/

example : LegalScript (some 10) (rxcMp C05.listenStart.m) [true, true, true, false] C05.listenStart.script := by decide +kernel
example : (thinScript [true, true, true, false] C05.listenStart.script).length = 2 := by decide
example : (asyncListen { C05.listenStart with script := thinScript [true, true, true, false] C05.listenStart.script }).toOption.map
    (fun x => (x.1, x.2.m.fcntUp?)) = (asyncListen C05.listenStart).toOption.map (fun x => (x.1, x.2.m.fcntUp?)) := by decide +kernel
/-- the accepted frame is not deletable -/
example : ¬ LegalScript (some 10) (rxcMp C05.listenStart.m) [false, false, false, true] C05.listenStart.script := by decide +kernel

end C07

#print axioms C07.async_listen_rejected_invisible
