import LoraVerif.Model.Device
import LoraVerif.Props.C05
/-!
# C07 — frames that are not accepted change nothing

"Rejected" is defined on the reference codec's view of the byte string (`RxView`), never by the
implementation's own decision: unparseable bytes, a data frame whose MIC verifies under no counter
(forged, bit-flipped, other session) or under a counter that is not fresh (replay, far future), a
JoinAccept whose MIC does not verify.

* `rejected_noop`: such a frame is answered `NoUpdate` and leaves the whole MAC state — session,
  configuration, channel plan, pending answers, counters — exactly as it was (a frame longer than
  the window's limit is the one exception the property allows and is excluded by `len ≤ max + 5`);
* `rejected_list_noop`: any number of them, in any receive opportunity;
* `twin`: the MAC model is a function of its state, so a run with rejected frames inserted anywhere
  is indistinguishable from the run without them (2-safety by determinism + no-op).
-/
open Model

namespace C07

/-- the reference view rejects the frame in state `m` for a window limited to `mp` bytes of MAC payload -/
def Rejected (m : MacState) (v : RxView) (mp : Nat) : Prop :=
  match v with
  | .garbage => True
  | .joinAccept j => (match m.st with | .otaa _ => j.micOk = false | _ => True)
  | .data d =>
    match m.st with
    | .joined s => d.len ≤ mp + 5 ∧ ¬ ∃ N, C05.Accept s d mp N
    | _ => True

/-- **one-step non-interference.** -/
theorem rejected_noop (m : MacState) (v : RxView) (mp : Nat) (snr : Int) (classC : Bool)
    (h : Rejected m v mp) :
    macHandleRx m v mp snr classC = .ok (some { resp := .noUpdate, downlink := none }, m)
    ∨ macHandleRx m v mp snr classC = .ok (none, m) := by
  unfold macHandleRx
  cases hst : m.st with
  | unjoined =>
    cases classC <;> simp [pure, Except.pure]
  | otaa o =>
    cases classC
    · cases v with
      | garbage => left; rfl
      | data d => left; rfl
      | joinAccept j =>
        left
        unfold Rejected at h
        simp only [hst] at h
        simp [h, pure, Except.pure]
    · right; rfl
  | joined s =>
    cases v with
    | garbage => left; rfl
    | joinAccept j => left; rfl
    | data d =>
      left
      unfold Rejected at h
      simp only [hst] at h
      obtain ⟨hlen, hrej⟩ := h
      simp only []
      cases hr : sessionHandleRx s m.cfg m.region d mp snr classC with
      | error e =>
        -- a rejected frame never reaches the MAC command handlers, which are the only fallible part
        exfalso
        unfold sessionHandleRx at hr
        have hl : ¬ d.len > mp + 5 := by omega
        simp only [hl, if_false] at hr
        cases hn : nextFcntDown s.fcntDown d.fcnt16 with
        | none => simp [hn, pure, Except.pure] at hr
        | some N =>
          simp only [hn] at hr
          by_cases hm : d.micFcnt = some N
          · exact hrej ⟨N, hlen, hn, hm⟩
          · have : (d.micFcnt != some N) = true := by simp [hm]
            simp [this, pure, Except.pure] at hr
      | ok res =>
        obtain ⟨o, s', cfg', region'⟩ := res
        have := C05.rejected_keeps_counter s m.cfg m.region d mp snr classC o s' cfg' region' hr hrej
        obtain ⟨_, hdl, hreg, hrest⟩ := this
        obtain ⟨hresp, hs, hcfg⟩ := hrest hlen
        subst hs hcfg hreg
        simp only [bind, Except.bind, pure, Except.pure]
        have : o = { resp := .noUpdate, downlink := none } := by
          cases o; simp_all
        subst this
        congr 2
        cases m; simp_all

/-- a rejected frame is still rejected after a rejected frame (the state did not change) -/
def AllRejected (m : MacState) (fs : List (RxView × Nat × Int × Bool)) : Prop :=
  ∀ f ∈ fs, Rejected m f.1 f.2.1

/-- feed a list of frames to the MAC, keeping only the state -/
def feed (m : MacState) : List (RxView × Nat × Int × Bool) → M MacState
  | [] => pure m
  | (v, mp, snr, cc) :: rest => do
    let (_, m') ← macHandleRx m v mp snr cc
    feed m' rest

/-- **any number of rejected frames, in any windows, leave the state untouched** -/
theorem rejected_list_noop (m : MacState) (fs : List (RxView × Nat × Int × Bool)) (h : AllRejected m fs) :
    feed m fs = .ok m := by
  induction fs with
  | nil => rfl
  | cons f rest ih =>
    obtain ⟨v, mp, snr, cc⟩ := f
    have h1 : Rejected m v mp := h (v, mp, snr, cc) List.mem_cons_self
    have hrest : AllRejected m rest := fun g hg => h g (List.mem_cons_of_mem _ hg)
    unfold feed
    rcases rejected_noop m v mp snr cc h1 with e | e <;> simp only [e, bind, Except.bind] <;> exact ih hrest

/-- **twin runs.** Whatever the device does next is a function `k` of its MAC state (the model is
deterministic: later uplinks, radio configurations and responses are computed from the state and
the later events only); a run that first hears rejected frames continues exactly like the twin that
never heard them. -/
theorem twin {α} (m : MacState) (fs : List (RxView × Nat × Int × Bool)) (h : AllRejected m fs)
    (k : MacState → M α) : (feed m fs >>= k) = k m := by
  rw [rejected_list_noop m fs h]; rfl

/-! non-vacuity: a joined session, a forged frame and a replay -/
def m0 : MacState := macJoinAbp (MacState.init (RegionState.init .EU868) 14 0) 7 1 2
def forged : RxData := { len := 13, confirmed := false, fcnt16 := 5, micFcnt := none, fopts := [], fport := none, payload := [] }
example : Rejected m0 (.data forged) 59 := by
  unfold Rejected m0 macJoinAbp; simp [forged, C05.Accept]
example : macHandleRx m0 (.data forged) 59 0 false = .ok (some { resp := .noUpdate, downlink := none }, m0) := by rfl

end C07

#print axioms C07.rejected_noop
#print axioms C07.rejected_list_noop
#print axioms C07.twin
