import LoraVerif.Model.Device
import LoraVerif.Props.C05
import LoraVerif.Lemmas.MacWFStep
/-!
# C07 — frames that are not accepted change nothing

"Rejected" is defined on the reference codec's view of the byte string (`RxView`), never by the
implementation's own decision: unparseable bytes, a data frame whose MIC verifies under no counter
(forged, bit-flipped, other session) or under a counter that is not fresh (replay, far future), a
JoinAccept whose MIC does not verify.

* `rejected_noop`: such a frame is answered `NoUpdate` and leaves the whole MAC state — session,
  configuration, channel plan, pending answers, counters — exactly as it was (a frame longer than
  the window's limit is the one exception the property allows and is excluded by `len ≤ max + 5`);
* `rejected_list_noop`: any number of them, in any receive opportunity;
* `twin`: the MAC model is a function of its state, so a run with rejected frames inserted anywhere
  is indistinguishable from the run without them (2-safety by determinism + no-op).
* HISTORIES: `history_rejected_invisible` — for every history (`Model/History.lean`) and every script
  deleting frames the REFERENCE rejects where they are heard (Class C receptions, frames in RX1/RX2 of
  uplinks and join attempts; rejection judged by `Spec/Freshness.lean` under the reference tracker of
  `Lemmas/Ghost.lean`, never by the model), the thinned history reaches the same state and produces
  the same outputs at every remaining event (`step_mask_eq`, `step_drop_eq`); conversely
  (`history_rejected_insertable`) rejected frames can be inserted anywhere into a running history.
-/
open Model Spec.Freshness

namespace C07

/-- the reference view rejects the frame in state `m` for a window limited to `mp` bytes of MAC payload -/
def Rejected (m : MacState) (v : RxView) (mp : Nat) : Prop :=
  match v with
  | .garbage => True
  | .joinAccept j => (match m.st with | .otaa _ => j.micOk = false | _ => True)
  | .data d =>
    match m.st with
    | .joined s => d.len ≤ mp + 5 ∧ ¬ ∃ N, C05.Accept s d mp N
    | _ => True

/-- **one-step non-interference.** -/
theorem rejected_noop (m : MacState) (v : RxView) (mp : Nat) (snr : Int) (classC : Bool)
    (h : Rejected m v mp) :
    macHandleRx m v mp snr classC = .ok (some { resp := .noUpdate, downlink := none }, m)
    ∨ macHandleRx m v mp snr classC = .ok (none, m) := by
  unfold macHandleRx
  cases hst : m.st with
  | unjoined =>
    cases classC <;> simp [pure, Except.pure]
  | otaa o =>
    cases classC
    · cases v with
      | garbage => left; rfl
      | data d => left; rfl
      | joinAccept j =>
        left
        unfold Rejected at h
        simp only [hst] at h
        simp [h, pure, Except.pure]
    · right; rfl
  | joined s =>
    cases v with
    | garbage => left; rfl
    | joinAccept j => left; rfl
    | data d =>
      left
      unfold Rejected at h
      simp only [hst] at h
      obtain ⟨hlen, hrej⟩ := h
      simp only []
      cases hr : sessionHandleRx s m.cfg m.region d mp snr classC with
      | error e =>
        -- a rejected frame never reaches the MAC command handlers, which are the only fallible part
        exfalso
        unfold sessionHandleRx at hr
        have hl : ¬ d.len > mp + 5 := by omega
        simp only [hl, if_false] at hr
        cases hn : nextFcntDown s.fcntDown d.fcnt16 with
        | none => simp [hn, pure, Except.pure] at hr
        | some N =>
          simp only [hn] at hr
          by_cases hm : d.micFcnt = some N
          · exact hrej ⟨N, hlen, hn, hm⟩
          · have : (d.micFcnt != some N) = true := by simp [hm]
            simp [this, pure, Except.pure] at hr
      | ok res =>
        obtain ⟨o, s', cfg', region'⟩ := res
        have := C05.rejected_keeps_counter s m.cfg m.region d mp snr classC o s' cfg' region' hr hrej
        obtain ⟨_, hdl, hreg, hrest⟩ := this
        obtain ⟨hresp, hs, hcfg⟩ := hrest hlen
        subst hs hcfg hreg
        simp only [bind, Except.bind, pure, Except.pure]
        have : o = { resp := .noUpdate, downlink := none } := by
          cases o; simp_all
        subst this
        congr 2
        cases m; simp_all

/-- a rejected frame is still rejected after a rejected frame (the state did not change) -/
def AllRejected (m : MacState) (fs : List (RxView × Nat × Int × Bool)) : Prop :=
  ∀ f ∈ fs, Rejected m f.1 f.2.1

/-- feed a list of frames to the MAC, keeping only the state -/
def feed (m : MacState) : List (RxView × Nat × Int × Bool) → M MacState
  | [] => pure m
  | (v, mp, snr, cc) :: rest => do
    let (_, m') ← macHandleRx m v mp snr cc
    feed m' rest

/-- **any number of rejected frames, in any windows, leave the state untouched** -/
theorem rejected_list_noop (m : MacState) (fs : List (RxView × Nat × Int × Bool)) (h : AllRejected m fs) :
    feed m fs = .ok m := by
  induction fs with
  | nil => rfl
  | cons f rest ih =>
    obtain ⟨v, mp, snr, cc⟩ := f
    have h1 : Rejected m v mp := h (v, mp, snr, cc) List.mem_cons_self
    have hrest : AllRejected m rest := fun g hg => h g (List.mem_cons_of_mem _ hg)
    unfold feed
    rcases rejected_noop m v mp snr cc h1 with e | e <;> simp only [e, bind, Except.bind] <;> exact ih hrest

/-- **twin runs.** Whatever the device does next is a function `k` of its MAC state (the model is
deterministic: later uplinks, radio configurations and responses are computed from the state and
the later events only); a run that first hears rejected frames continues exactly like the twin that
never heard them. -/
theorem twin {α} (m : MacState) (fs : List (RxView × Nat × Int × Bool)) (h : AllRejected m fs)
    (k : MacState → M α) : (feed m fs >>= k) = k m := by
  rw [rejected_list_noop m fs h]; rfl

/-! non-vacuity: a joined session, a forged frame and a replay -/
def m0 : MacState := macJoinAbp (MacState.init (RegionState.init .EU868) 14 0) 7 1 2
def forged : RxData := { len := 13, confirmed := false, fcnt16 := 5, micFcnt := none, fopts := [], fport := none, payload := [] }
example : Rejected m0 (.data forged) 59 := by
  unfold Rejected m0 macJoinAbp; simp [forged, C05.Accept]
example : macHandleRx m0 (.data forged) 59 0 false = .ok (some { resp := .noUpdate, downlink := none }, m0) := by rfl


/-! ## histories: deleting rejected frames anywhere is invisible -/

/-- the REFERENCE rejects frame `f` heard in a Class A window of an uplink, `gh` being the reference
tracker when the uplink is sent: anything that is not a data frame (garbage, a JoinAccept sent to a
joined device), and a data frame that fits the window but whose MIC verifies under no fresh counter
(forged, corrupted, other session, replayed, too far ahead).  Oversized frames are NOT rejected
frames (they may end the procedure).  A device without a session opens no window at all. -/
def RejWin (gh : Gh) (f : RxView × Int) (mp : Nat) : Prop :=
  match gh with
  | none => True
  | some last =>
    match f.1 with
    | .data d => d.len ≤ mp + 5 ∧ accepts last d mp = none
    | _ => True

/-- … heard in a window of a join attempt: everything but a JoinAccept with a valid MIC -/
def RejJoin (f : RxView × Int) : Prop :=
  match f.1 with
  | .joinAccept j => j.micOk = false
  | _ => True

/-- … heard between uplinks (Class C): everything the reference does not accept -/
def RejRxc (gh : Gh) (v : RxView) (mp : Nat) : Prop :=
  match gh with
  | none => True
  | some last =>
    match v with
    | .data d => accepts last d mp = none
    | _ => True

instance (gh : Gh) (f : RxView × Int) (mp : Nat) : Decidable (RejWin gh f mp) := by
  unfold RejWin
  cases gh with
  | none => exact isTrue trivial
  | some last => obtain ⟨v, snr⟩ := f; cases v <;> (simp only; infer_instance)

instance (f : RxView × Int) : Decidable (RejJoin f) := by
  unfold RejJoin
  obtain ⟨v, snr⟩ := f; cases v <;> (simp only; infer_instance)

instance (gh : Gh) (v : RxView) (mp : Nat) : Decidable (RejRxc gh v mp) := by
  unfold RejRxc
  cases gh with
  | none => exact isTrue trivial
  | some last => cases v <;> (simp only; infer_instance)

/-- `P` holds of the frame heard, if any -/
def heard (P : RxView × Int → Prop) : Option (RxView × Int) → Prop
  | some f => P f
  | none => True

instance (P : RxView × Int → Prop) [DecidablePred P] (o : Option (RxView × Int)) : Decidable (heard P o) := by
  cases o <;> (unfold heard; infer_instance)

/-- what a deletion script does to one event: keep it, delete a Class C reception, or delete the
frames heard in RX1 / RX2 of an uplink or join attempt -/
inductive Del where
  | keep
  | drop
  | mask (rx1 rx2 : Bool)
  deriving DecidableEq, Repr

def maskRx (b : Bool) (f : Option (RxView × Int)) : Option (RxView × Int) := if b then none else f

def maskEv (b1 b2 : Bool) : Ev → Ev
  | .uplink data fport conf fault rx1 rx2 mp1 mp2 => .uplink data fport conf fault (maskRx b1 rx1) (maskRx b2 rx2) mp1 mp2
  | .joinOtaa fault rx1 rx2 mp1 mp2 => .joinOtaa fault (maskRx b1 rx1) (maskRx b2 rx2) mp1 mp2
  | ev => ev

def thinEvs : List Del → List Ev → List Ev
  | .keep :: ds, ev :: evs => ev :: thinEvs ds evs
  | .drop :: ds, _ :: evs => thinEvs ds evs
  | .mask b1 b2 :: ds, ev :: evs => maskEv b1 b2 ev :: thinEvs ds evs
  | _, evs => evs

def thinOuts : List Del → List Out → List Out
  | .keep :: ds, o :: os => o :: thinOuts ds os
  | .drop :: ds, _ :: os => thinOuts ds os
  | .mask _ _ :: ds, o :: os => o :: thinOuts ds os
  | _, os => os

/-- the deletion hits only frames the reference rejects at that point of the history -/
def LegalDel (gh : Gh) : Del → Ev → Prop
  | .keep, _ => True
  | .drop, .rxc v _ mp => RejRxc gh v mp
  | .drop, _ => False
  | .mask b1 b2, .uplink _ _ _ _ rx1 rx2 mp1 mp2 =>
    (b1 = true → heard (RejWin gh · mp1) rx1) ∧ (b2 = true → heard (RejWin gh · mp2) rx2)
  | .mask b1 b2, .joinOtaa _ rx1 rx2 _ _ =>
    (b1 = true → heard RejJoin rx1) ∧ (b2 = true → heard RejJoin rx2)
  | .mask _ _, _ => True

def Legal : Gh → List Del → List Ev → Prop
  | gh, d :: ds, ev :: evs => LegalDel gh d ev ∧ Legal (ghStep gh ev) ds evs
  | _, _, _ => True

instance (gh : Gh) (d : Del) (ev : Ev) : Decidable (LegalDel gh d ev) := by
  cases d <;> cases ev <;> (simp only [LegalDel]; infer_instance)

instance : (gh : Gh) → (ds : List Del) → (evs : List Ev) → Decidable (Legal gh ds evs)
  | _, [], _ => isTrue (by simp [Legal])
  | _, _ :: _, [] => isTrue (by simp [Legal])
  | gh, d :: ds, ev :: evs =>
    have := instDecidableLegal (ghStep gh ev) ds evs
    by simp only [Legal]; infer_instance

theorem specWindow_mask (last : Option Nat) (b : Bool) (f : Option (RxView × Int)) (mp : Nat)
    (h : b = true → heard (RejWin (some last) · mp) f) : specWindow last (maskRx b f) mp = specWindow last f mp := by
  cases b with
  | false => rfl
  | true =>
    cases f with
    | none => rfl
    | some x =>
      have hr : _ := h rfl
      simp only [heard] at hr
      obtain ⟨v, snr⟩ := x
      unfold RejWin at hr
      simp only [maskRx, if_true, specWindow]
      cases v with
      | garbage => rfl
      | joinAccept j => rfl
      | data d =>
        simp only at hr ⊢
        have : ¬ d.len > mp + 5 := by omega
        simp only [this, if_false, hr.2]

theorem joinAcc_mask (b : Bool) (f : Option (RxView × Int)) (h : b = true → heard RejJoin f) :
    joinAcc (maskRx b f) = joinAcc f := by
  cases b with
  | false => rfl
  | true =>
    cases f with
    | none => rfl
    | some x =>
      have hr : _ := h rfl
      simp only [heard] at hr
      obtain ⟨v, snr⟩ := x
      unfold RejJoin at hr
      simp only [maskRx, if_true, joinAcc]
      cases v with
      | garbage => rfl
      | data d => rfl
      | joinAccept j => simp only at hr ⊢; simp [hr]

theorem rxOk_mask (b : Bool) (f : Option (RxView × Int)) (h : rxOk f = true) : rxOk (maskRx b f) = true := by
  cases b
  · exact h
  · rfl

/-- **masking rejected frames does not change the step at all**: same state, same random stream, same output -/
theorem step_mask_eq {σ} (g : Rng σ) (m : MacState) (rs : σ) (gh : Gh) (hr : GhRel m gh) (ev : Ev) (hv : evOk ev = true)
    (b1 b2 : Bool) (hl : LegalDel gh (.mask b1 b2) ev) : step g (m, rs) (maskEv b1 b2 ev) = step g (m, rs) ev := by
  cases ev with
  | joinAbp da nwk app => rfl
  | setAdr on => rfl
  | setDr dr => rfl
  | rxc v snr mp => rfl
  | joinOtaa fault rx1 rx2 mp1 mp2 =>
    simp only [LegalDel] at hl
    simp only [maskEv, step]
    cases hj : macJoinOtaa g m rs with
    | error e => rfl
    | ok r =>
      obtain ⟨jo, m1, rs1⟩ := r
      obtain ⟨dr, tx, region', pw, r1, r2, _, _, hm1, _, _⟩ := macJoinOtaa_ok g m rs rs1 jo m1 hj
      have hst1 : m1.st = .otaa { devNonce := (draw g rs).1 % 65536 } := by rw [hm1]
      simp only [bind, Except.bind]
      cases fault with
      | none =>
        simp only []
        rw [classACycle_otaa m1 _ hst1, classACycle_otaa m1 _ hst1]
        simp only [specJoin, joinAcc_mask b1 rx1 hl.1, joinAcc_mask b2 rx2 hl.2]
      | some k =>
        simp only []
        rw [faultedCycle_otaa m1 _ hst1, faultedCycle_otaa m1 _ hst1]
        simp only [specJoinFaulted, specJoin, joinAcc_mask b1 rx1 hl.1, joinAcc_mask b2 rx2 hl.2]
  | uplink data fport conf fault rx1 rx2 mp1 mp2 =>
    simp only [LegalDel] at hl
    simp only [evOk, Bool.and_eq_true] at hv
    simp only [maskEv, step]
    cases gh with
    | none =>
      rw [macSend_notJoined g m hr]
      rfl
    | some last =>
      obtain ⟨s, hst, rfl, hlo⟩ := hr
      cases hs : macSend g m data fport conf rs with
      | error e => rfl
      | ok r =>
        obtain ⟨o, m1, rs1⟩ := r
        obtain ⟨dr, tx, region', pw, r1, r2, _, _, _, hm1, _, rfl⟩ := macSend_joined g m s hst data fport conf rs rs1 o m1 hs
        have hst1 : m1.st = .joined (sentSession s conf) := by rw [hm1]
        have hl1 : LastOk (sentSession s conf).fcntDown := hlo
        have e1 := specWindow_mask s.fcntDown b1 rx1 mp1 hl.1
        have e2 := specWindow_mask s.fcntDown b2 rx2 mp2 hl.2
        have e1' : specWindow (sentSession s conf).fcntDown (maskRx b1 rx1) mp1 = specWindow (sentSession s conf).fcntDown rx1 mp1 := e1
        have e2' : specWindow (sentSession s conf).fcntDown (maskRx b2 rx2) mp2 = specWindow (sentSession s conf).fcntDown rx2 mp2 := e2
        simp only [bind, Except.bind]
        cases fault with
        | none =>
          simp only []
          rw [classACycle_joined m1 _ hst1 hl1 _ _ mp1 mp2 (rxOk_mask b1 rx1 hv.1) (rxOk_mask b2 rx2 hv.2),
            classACycle_joined m1 _ hst1 hl1 _ _ mp1 mp2 hv.1 hv.2]
          simp only [specCycle, e1', e2']
        | some k =>
          simp only []
          rw [faultedCycle_joined m1 _ hst1 hl1 k _ _ mp1 mp2 (rxOk_mask b1 rx1 hv.1) (rxOk_mask b2 rx2 hv.2),
            faultedCycle_joined m1 _ hst1 hl1 k _ _ mp1 mp2 hv.1 hv.2]
          simp only [specFaulted, specCycle, e1', e2']

/-- a rejected Class C reception leaves state and random stream as they were -/
theorem step_drop_eq {σ} (g : Rng σ) (m m' : MacState) (rs rs' : σ) (gh : Gh) (hr : GhRel m gh) (ev : Ev) (hv : evOk ev = true)
    (hl : LegalDel gh .drop ev) (out : Out) (h : step g (m, rs) ev = .ok ((m', rs'), out)) : m' = m ∧ rs' = rs := by
  cases ev with
  | rxc v snr mp =>
    simp only [LegalDel] at hl
    simp only [evOk] at hv
    cases gh with
    | none =>
      obtain ⟨rfl, rfl, _⟩ := step_rxc_notJoined g m m' rs rs' hr v snr mp out h
      exact ⟨rfl, rfl⟩
    | some last =>
      obtain ⟨s, hst, rfl, hlo⟩ := hr
      obtain ⟨rfl, rf, _, ht⟩ := step_rxc_joined g m m' rs rs' s hst hlo v snr mp hv out h
      have : specRxc s.fcntDown v mp = none := by
        unfold RejRxc at hl
        unfold specRxc
        cases v with
        | garbage => rfl
        | joinAccept j => rfl
        | data d => simp only at hl ⊢; rw [hl]; rfl
      simp only [this] at ht
      exact ⟨ht.1, rfl⟩
  | joinAbp da nwk app => exact hl.elim
  | setAdr on => exact hl.elim
  | setDr dr => exact hl.elim
  | joinOtaa fault rx1 rx2 mp1 mp2 => exact hl.elim
  | uplink data fport conf fault rx1 rx2 mp1 mp2 => exact hl.elim

/-- **C07 over every history.**  Take any history `evs` and any script `ds` deleting frames the
REFERENCE rejects at the point where they are heard — a Class C reception (`drop`), the frame heard
in RX1 and/or RX2 of an uplink or of a join attempt (`mask`) — anywhere, any number of them.  The
thinned history runs to the SAME final state and random stream and produces the SAME output at
every remaining event (uplink bytes, counters, MAC answers, ACK bit, radio configurations,
responses): the device is indistinguishable from the twin that never heard those frames.  (Applied
to every prefix: the same state before every remaining event.) -/
theorem history_rejected_invisible {σ} (g : Rng σ) (m : MacState) (rs : σ) (gh : Gh) (hr : GhRel m gh)
    (evs : List Ev) (hv : ∀ ev ∈ evs, evOk ev = true) (ds : List Del) (hl : Legal gh ds evs)
    (ms' : MacState × σ) (outs : List Out) (h : run g (m, rs) evs = .ok (ms', outs)) :
    run g (m, rs) (thinEvs ds evs) = .ok (ms', thinOuts ds outs) := by
  induction evs generalizing m rs gh ds outs with
  | nil =>
    have : outs = [] := by unfold run at h; cases Except.pure_eq_ok h; rfl
    subst this
    cases ds with
    | nil => exact h
    | cons d ds => cases d <;> exact h
  | cons ev rest ih =>
    cases ds with
    | nil => exact h
    | cons d ds =>
      have hrun := h
      unfold run at h
      obtain ⟨⟨⟨m1, rs1⟩, o⟩, hstep, h⟩ := Except.bind_eq_ok h
      obtain ⟨⟨ms2, os⟩, hrest, h⟩ := Except.bind_eq_ok h
      cases Except.pure_eq_ok h
      have hve := hv ev List.mem_cons_self
      have hr1 := step_ghRel g m m1 rs rs1 ev o gh hr hve hstep
      have hvr : ∀ e ∈ rest, evOk e = true := fun e he => hv e (List.mem_cons_of_mem _ he)
      simp only [Legal] at hl
      have ih' := ih m1 rs1 (ghStep gh ev) hr1 hvr ds hl.2 os hrest
      cases d with
      | keep =>
        simp only [thinEvs, thinOuts, run, hstep, ih', bind, Except.bind, pure, Except.pure]
      | mask b1 b2 =>
        simp only [thinEvs, thinOuts, run, step_mask_eq g m rs gh hr ev hve b1 b2 hl.1, hstep, ih', bind, Except.bind, pure,
          Except.pure]
      | drop =>
        obtain ⟨rfl, rfl⟩ := step_drop_eq g m m1 rs rs1 gh hr ev hve hl.1 o hstep
        simp only [thinEvs, thinOuts]
        exact ih'



/-- a Class C reception returns in every well-formed state -/
theorem step_rxc_returns {σ} (g : Rng σ) (m : MacState) (rs : σ) (v : RxView) (snr : Int) (mp : Nat) (hwf : MacWF m)
    (hv : viewWF v = true) : ∃ m' out, step g (m, rs) (.rxc v snr mp) = .ok ((m', rs), out) := by
  obtain ⟨rf, hrf, _⟩ := macRxcConfig_tot m hwf
  obtain ⟨⟨o, m'⟩, hrx, _⟩ := macHandleRx_tot m v mp snr true hwf hv
  refine ⟨m', .rxc rf o, ?_⟩
  simp only [step, hrf, hrx, bind, Except.bind, pure, Except.pure]

/-- **the converse: rejected frames can be INSERTED anywhere.**  If the thinned history runs, so
does the history with the rejected frames present — to the same final state and random stream, with
the same outputs at the events of the thinned history — from any well-formed state under valid
events.  Together with `history_rejected_invisible`: the two runs of the pair exist together and
agree. -/
theorem history_rejected_insertable {σ} (g : Rng σ) (m : MacState) (rs : σ) (gh : Gh) (hr : GhRel m gh) (hwf : MacWF m)
    (evs : List Ev) (hv : ∀ ev ∈ evs, evOk ev = true ∧ validEv m.region.id ev = true) (ds : List Del) (hl : Legal gh ds evs)
    (ms' : MacState × σ) (outs' : List Out) (h : run g (m, rs) (thinEvs ds evs) = .ok (ms', outs')) :
    ∃ outs, run g (m, rs) evs = .ok (ms', outs) ∧ thinOuts ds outs = outs' := by
  induction evs generalizing m rs gh ds outs' with
  | nil =>
    have e : thinEvs ds [] = [] := by cases ds with | nil => rfl | cons d ds => cases d <;> rfl
    rw [e] at h
    refine ⟨outs', h, ?_⟩
    have : outs' = [] := by unfold run at h; cases Except.pure_eq_ok h; rfl
    subst this
    cases ds with | nil => rfl | cons d ds => cases d <;> rfl
  | cons ev rest ih =>
    have hve := hv ev List.mem_cons_self
    -- one kept (or masked) step, then the induction hypothesis
    have keep : ∀ (ds' : List Del), Legal (ghStep gh ev) ds' rest →
        ∀ outs', run g (m, rs) (ev :: thinEvs ds' rest) = .ok (ms', outs') →
        ∃ o os, run g (m, rs) (ev :: rest) = .ok (ms', o :: os) ∧ outs' = o :: thinOuts ds' os := by
      intro ds' hl' outs' h
      unfold run at h
      obtain ⟨⟨⟨m1, rs1⟩, o⟩, hstep, h⟩ := Except.bind_eq_ok h
      obtain ⟨⟨ms2, os'⟩, hrest, h⟩ := Except.bind_eq_ok h
      cases Except.pure_eq_ok h
      have hk : Keeps m m1 := (step_safe g m rs ev hwf hve.2).elim hstep
      have hr1 := step_ghRel g m m1 rs rs1 ev o gh hr hve.1 hstep
      obtain ⟨os, hos, hth⟩ := ih m1 rs1 (ghStep gh ev) hr1 hk.1
        (fun e he => by rw [hk.2.1]; exact hv e (List.mem_cons_of_mem _ he)) ds' hl' os' hrest
      refine ⟨o, os, ?_, by rw [hth]⟩
      simp only [run, hstep, hos, bind, Except.bind, pure, Except.pure]
    cases ds with
    | nil =>
      obtain ⟨o, os, h1, h2⟩ := keep [] (by cases rest <;> trivial) outs' (by
        have : thinEvs [] rest = rest := by cases rest <;> rfl
        rw [this]; exact h)
      refine ⟨o :: os, h1, ?_⟩
      rw [h2]
      have : thinOuts [] os = os := by cases os <;> rfl
      rw [this]; rfl
    | cons d ds =>
      simp only [Legal] at hl
      cases d with
      | keep =>
        obtain ⟨o, os, h1, h2⟩ := keep ds hl.2 outs' h
        exact ⟨o :: os, h1, by rw [h2]; rfl⟩
      | mask b1 b2 =>
        simp only [thinEvs] at h
        have h' : run g (m, rs) (ev :: thinEvs ds rest) = .ok (ms', outs') := by
          unfold run at h ⊢
          rw [step_mask_eq g m rs gh hr ev hve.1 b1 b2 hl.1] at h
          exact h
        obtain ⟨o, os, h1, h2⟩ := keep ds hl.2 outs' h'
        exact ⟨o :: os, h1, by rw [h2]; rfl⟩
      | drop =>
        simp only [thinEvs] at h
        cases ev with
        | rxc v snr mp =>
          have hvw : viewWF v = true := by
            have := hve.2; simpa [validEv] using this
          obtain ⟨m1, o, hstep⟩ := step_rxc_returns g m rs v snr mp hwf hvw
          have e1 := (step_drop_eq g m m1 rs rs gh hr _ hve.1 hl.1 o hstep).1
          rw [e1] at hstep
          have hr1 := step_ghRel g m m rs rs _ o gh hr hve.1 hstep
          obtain ⟨os, hos, hth⟩ := ih m rs _ hr1 hwf (fun e he => hv e (List.mem_cons_of_mem _ he)) ds hl.2 outs' h
          refine ⟨o :: os, ?_, by simp only [thinOuts]; exact hth⟩
          simp only [run, hstep, hos, bind, Except.bind, pure, Except.pure]
        | joinAbp da nwk app => exact hl.1.elim
        | setAdr on => exact hl.1.elim
        | setDr dr => exact hl.1.elim
        | joinOtaa fault rx1 rx2 mp1 mp2 => exact hl.1.elim
        | uplink data fport conf fault rx1 rx2 mp1 mp2 => exact hl.1.elim

/-! non-vacuity: a session; a replay in RX1, garbage between uplinks, a forged frame in RX1 and a
JoinAccept in RX2 are deleted — same final state, same remaining outputs -/
def lcg : Rng Nat := fun x => ((x * 1103515245 + 12345) / 65536, x * 1103515245 + 12345)

def fr (w : Nat) (N : Option Nat) : RxView :=
  .data { len := 14, confirmed := true, fcnt16 := w, micFcnt := N, fopts := [0x06], fport := some 1, payload := [w] }

def badJa : RxView := .joinAccept { micOk := true, devAddr := 9, dlSettings := 0, rxDelay := 1, cfList := none, nwkKey := 5, appKey := 6 }

def demoHistory : List Ev :=
  [ .joinAbp 7 1 2,
    .uplink [1] 1 false none (some (fr 5 (some 5), 0)) none 51 51,
    .uplink [2] 1 false none (some (fr 5 (some 5), 0)) (some (fr 6 (some 6), 3)) 51 51,
    .rxc .garbage 0 51,
    .uplink [3] 1 true none (some (fr 9 none, 0)) (some (badJa, 0)) 51 51 ]

def demoScript : List Del := [.keep, .keep, .mask true false, .drop, .mask true true]

example : Legal none demoScript demoHistory := by decide
example : ∀ ev ∈ demoHistory, evOk ev = true := by decide
example : thinEvs demoScript demoHistory =
  [ .joinAbp 7 1 2,
    .uplink [1] 1 false none (some (fr 5 (some 5), 0)) none 51 51,
    .uplink [2] 1 false none none (some (fr 6 (some 6), 3)) 51 51,
    .uplink [3] 1 true none none none 51 51 ] := by rfl
example : (run lcg (MacState.init (RegionState.init .EU868) 14 0, 1) demoHistory).toOption.map (fun r => r.2.length) = some 5 := by
  decide +kernel

end C07

#print axioms C07.rejected_noop
#print axioms C07.rejected_list_noop
#print axioms C07.twin
#print axioms C07.step_mask_eq
#print axioms C07.step_drop_eq
#print axioms C07.history_rejected_invisible
#print axioms C07.history_rejected_insertable
