import LoraVerif.Props.C10
import LoraVerif.Spec.Regional
/-!
# C05 — "fits the maximum size of the data rate it was received at": which maximum

The size clause of C05 compares the frame with `RfConfig.maxPayload` of the window it was received
in.  These theorems pin that number to the regional parameters, for the tables REGENERATED from the
current source on every run (`Gen.Region.*_DATARATES`):

* `datarate_tables_rp002`: in every region, every data rate the code defines carries exactly the
  maximum MACPayload size RP002 gives for its spreading factor and bandwidth (`Spec.Regional.maxM`,
  written from the regional-parameter tables).  A finite table: `decide`.  This is the theorem that
  fails for a table entry copied from another region (EU433 DR2 carried AS923's 123 until /repo
  13ccc9c).
* `window_limit_rp002`: whatever window `build_rf_config` hands out — including the fallback to the
  RX2 rate when the regional RX1 rate is undefined — its size limit is RP002's maximum for the
  spreading factor and bandwidth the window is actually opened at.
-/
open Model Gen.Region Spec.Regional

namespace C05

/-- the name the specification tables use for a region (the four AS923 groups share their tables) -/
def specName : RegionId → String
  | .AS923_1 | .AS923_2 | .AS923_3 | .AS923_4 => "AS923"
  | r => r.name

theorem datarate_tables_rp002 : ∀ r ∈ RegionId.all, ∀ od ∈ datarates r, ∀ d, od = some d →
    maxM (specName r) d.spreading_factor.factor d.bandwidth.hz = some d.max_mac_payload_size := by
  decide

/-- the same for one lookup -/
theorem getDatarate_rp002 (r : RegionId) (k : Nat) (d : Datarate) (h : getDatarate r k = some d) :
    maxM (specName r) d.spreading_factor.factor d.bandwidth.hz = some d.max_mac_payload_size := by
  have hr : r ∈ RegionId.all := by cases r <;> decide
  unfold getDatarate at h
  split at h
  · rename_i od hod
    subst h
    exact datarate_tables_rp002 r hr _ (List.mem_of_getElem? hod) d rfl
  · cases h

/-- every window the MAC hands out is limited to RP002's maximum for the rate it is opened at -/
theorem window_limit_rp002 (m : MacState) (f : Nat) (dr txdr : DR) (r : RfConfig)
    (h : buildRfConfig m f dr txdr = .ok r) :
    maxM (specName m.region.id) r.sf r.bwHz = some r.maxPayload := by
  obtain ⟨d, rfl, k, hk⟩ := C10.window_dr_defined m f dr txdr r h
  exact getDatarate_rp002 _ k d hk

/-- non-vacuity: EU433 DR2 is SF10/125 kHz and limited to 59 octets -/
example : (getDatarate .EU433 2).map (fun d => (d.spreading_factor.factor, d.bandwidth.hz, d.max_mac_payload_size)) = some (10, 125000, 59) := by decide

end C05

namespace C10

/-- the regional default RX2 frequency is RP002's; for the AS923 groups it is 923.2 MHz shifted by the
group's offset like every other default frequency (AS923-3 carried 916.5 MHz until /repo's fix of the
RX2 default; `C10.tieA_rx2Frequency` ties `rx2Frequency` to the regenerated constant) -/
theorem rx2_default_freq_rp002 : ∀ r ∈ RegionId.all, rx2Frequency r = rx2DefaultFreq r.name := by decide

end C10

namespace C09

/-- "the regional maximum EIRP" of C09 is RP002's: whatever TXPower index (every `u8`) the region's
REGENERATED `tx_power_adjust` accepts, the level it yields is at most RP002's maximum EIRP of the
region, and index 0 yields a level (EU433 carried 16 dBm where RP002 gives 12.15 dBm until /repo's
fix; `C09`'s power theorems bound every transmission by `txPowerAdjust r 0` less the antenna gain) -/
def powOk (r : RegionId) (p : Nat) : Bool :=
  match txPowerAdjust r p with
  | .ok (some v) => decide ((v : Int) ≤ maxEirpDbm r.name)
  | .ok none => true
  | .error _ => false

theorem powOk_all : ∀ r ∈ RegionId.all, ∀ p ∈ List.range 256, powOk r p = true := by decide +kernel

theorem tx_power_le_max_eirp_rp002 (r : RegionId) (p : Nat) (hp : p < 256) (v : Nat)
    (h : txPowerAdjust r p = .ok (some v)) : (v : Int) ≤ maxEirpDbm r.name := by
  have hr : r ∈ RegionId.all := by cases r <;> decide
  have := powOk_all r hr p (List.mem_range.mpr hp)
  unfold powOk at this
  rw [h] at this
  exact of_decide_eq_true this

theorem tx_power_0_defined : ∀ r ∈ RegionId.all,
    (match txPowerAdjust r 0 with | .ok (some v) => decide ((v : Int) ≤ maxEirpDbm r.name) | _ => false) = true := by
  decide +kernel

/-- non-vacuity: EU433 TXPower 0 is 12 dBm, TXPower 5 is 2 dBm -/
example : (match txPowerAdjust .EU433 0, txPowerAdjust .EU433 5 with | .ok (some a), .ok (some b) => a == 12 && b == 2 | _, _ => false) = true := by decide

end C09

#print axioms C09.tx_power_le_max_eirp_rp002
#print axioms C09.tx_power_0_defined
#print axioms C10.rx2_default_freq_rp002
#print axioms C05.datarate_tables_rp002
#print axioms C05.getDatarate_rp002
#print axioms C05.window_limit_rp002
