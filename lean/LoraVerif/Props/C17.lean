import LoraVerif.Gen.Modulation
import LoraVerif.Gen.PhyArith
import LoraVerif.Spec.Airtime
import LoraVerif.Spec.SemtechArith
import LoraVerif.Model.PhyArith
import LoraVerif.Lemmas.RtLemmas
import LoraVerif.Lemmas.PhyArithLemmas
/-!
# C17 — programmed frequency, TX power and RX timeout decode to what was requested

`Gen.PhyArith` / `Gen.Modulation` are regenerated from the drivers' sources on every run (tie A:
`convert_freq_in_hz_to_pll_step`, `freq_to_pll_step`, `pll_step_to_freq`, `linearize_rssi`,
`PaTable::lookup` and the three PA tables, the limits and offsets, `delay_in_symbols`); the
fragments inside async driver methods are the hand model `Model.PhyArith` (tie B, compared with the
real drivers on their whole finite domains by `harness/src/c17.rs`).  `Spec.Semtech` decodes the
written bytes the way the chip does.
-/
open Gen.Modulation Gen.PhyArith Spec.Semtech Model.PhyArith Rt

namespace C17

/-! ## Synthesiser word -/

theorem scaled_eq : SX126X_PLL_STEP_SCALED = 15625 := by decide
theorem shift_eq : SX126X_PLL_STEP_SHIFT_AMOUNT = 14 := rfl

/-- the generated SX126x conversion, in closed form, without overflow for every `f < 4.096 GHz` -/
theorem pll126_closed (f : Int) (h0 : 0 ≤ f) (h1 : f < 4096000000) :
    Sx126x.convert_freq_in_hz_to_pll_step f = some ((f * 16384 + 7812) / 15625) := by
  unfold Sx126x.convert_freq_in_hz_to_pll_step
  rw [scaled_eq, shift_eq]
  rt_simp
  rw [shlC_u32_14 (by omega) (by omega)]
  simp only [Option.bind_some]
  rw [shlC_u32_14 (by omega) (by omega), shrC_u32_1]
  simp only [Option.bind_some]
  rt_simp
  congr 1
  omega

/-- **SX126x frequency.** For every `u32` frequency below 4.096 GHz (the chips cover 137–1020 MHz)
the conversion does not overflow, the word is the step *nearest* to the request (error at most half
a step, < 0.48 Hz: `|pll·15625 − f·2^14| ≤ 7812`), it is the datasheet value, and the four bytes
`set_channel` writes reassemble to it. -/
theorem pll126_nearest (f : Int) (h0 : 0 ≤ f) (h1 : f < 4096000000) :
    ∃ p, Sx126x.convert_freq_in_hz_to_pll_step f = some p ∧
      (p * 15625 - f * 16384).natAbs ≤ 7812 ∧ Sx126xNearest f p ∧ p = sx126xPll f ∧
      sx126xSetChannel f = some p := by
  refine ⟨(f * 16384 + 7812) / 15625, pll126_closed f h0 h1, by omega, ?_, ?_, ?_⟩
  · unfold Sx126xNearest; omega
  · unfold sx126xPll; omega
  · unfold sx126xSetChannel
    rw [pll126_closed f h0 h1]
    generalize hp : (f * 16384 + 7812) / 15625 = p
    have hp0 : 0 ≤ p := by omega
    have hp1 : p < 4294967296 := by omega
    simp only [Option.bind_eq_bind, Option.bind_some, shrC_u32_24, shrC_u32_16, shrC_u32_8, Option.pure_def]
    rw [andI_255 (by omega), andI_255 (by omega), andI_255 (by omega), andI_255 hp0]
    congr 1
    have e1 : p / 65536 / 256 = p / 16777216 := by omega
    have e2 : p / 256 / 256 = p / 65536 := by omega
    omega

/-- the generated SX127x conversions in closed form -/
theorem pll127_closed (f : Int) (h0 : 0 ≤ f) (h1 : f ≤ 4294967295) :
    freq_to_pll_step f = some ((f * 524288 + 16000000) / 32000000) := by
  unfold freq_to_pll_step
  rw [shlC_u64_19 h0 h1]
  simp only [Option.bind_eq_bind, Option.bind_some]
  rw [ck_u64 (by omega) (by omega)]
  simp only [Option.bind_some]
  rw [divC_pos (by omega) (by omega), ck_u64 (by omega) (by omega)]
  simp only [Option.bind_some, Option.pure_def]
  rw [wrap_id_u32 (by omega) (by omega)]

theorem pllback127_closed (p : Int) (h0 : 0 ≤ p) (h1 : p ≤ 70368744) :
    pll_step_to_freq p = some (p * 32000000 / 524288) := by
  unfold pll_step_to_freq
  rw [ck_u64 (by omega) (by omega)]
  simp only [Option.bind_eq_bind, Option.bind_some, shrC_u64_19, Option.pure_def]
  rw [wrap_id_u32 (by omega) (by omega)]

/-- **SX127x frequency.** For every `u32` frequency the conversion does not overflow and the word is
the synthesiser step *nearest* to the request (`2·|f·2^19 − pll·32·10^6| ≤ 32·10^6`: error at most
half a 61.04 Hz step, hence well under the 62 Hz the property allows); it is the reference
driver's value; converting it back lands within 31 Hz of the request; and for every frequency
below 1.024 GHz it fits the 24-bit register and the three bytes `set_channel` writes reassemble
to it. -/
theorem pll127_nearest (f : Int) (h0 : 0 ≤ f) (h1 : f ≤ 4294967295) :
    ∃ p, freq_to_pll_step f = some p ∧
      2 * (f * 2 ^ 19 - p * 32000000).natAbs ≤ 32000000 ∧ p = sx127xPll f ∧
      (∃ g, pll_step_to_freq p = some g ∧ f - 31 ≤ g ∧ g ≤ f + 30) ∧
      (f < 1023999969 → Sx127xNearest f p ∧ Sx127xWithinStep f p ∧ sx127xSetChannel f = some p) := by
  refine ⟨(f * 524288 + 16000000) / 32000000, pll127_closed f h0 h1, by omega, by unfold sx127xPll; omega, ?_, ?_⟩
  · refine ⟨((f * 524288 + 16000000) / 32000000) * 32000000 / 524288, pllback127_closed _ (by omega) (by omega), by omega, by omega⟩
  · intro hf
    refine ⟨by unfold Sx127xNearest; omega, by unfold Sx127xWithinStep; omega, ?_⟩
    unfold sx127xSetChannel
    rw [pll127_closed f h0 h1]
    generalize hp : (f * 524288 + 16000000) / 32000000 = p
    have hp0 : 0 ≤ p := by omega
    have hp1 : p < 16777216 := by omega
    simp only [Option.bind_eq_bind, Option.bind_some, shrC_u32_16, shrC_u32_8, Option.pure_def]
    have e1 : andI p 0x00FF0000 / 65536 = (p / 65536) % 256 := andI_ff0000_shr hp0
    have e2 : andI p 0x0000FF00 / 256 = (p / 256) % 256 := andI_00ff00_shr hp0
    have e3 : andI p 0xFF = p % 256 := andI_255 hp0
    rw [e1, e2, e3]
    congr 1
    have e4 : p / 256 / 256 = p / 65536 := by omega
    omega

/-! ## TX power -/

/-- what the model's `set_tx_power_and_ramp_time` result is as an observation -/
def paObs : Out (Int × Int × Int × Int) → Option (Option (Nat × Nat × Nat × Int))
  | .ok (d, h, s, p) => some (some (d.toNat, h.toNat, s.toNat, p))
  | .err => some none
  | .panic => none

/-- the requirement, on the model's own output -/
def pa126Holds (c : Chip) (hp : Bool) (req : Int) (rf : Option Int) : Bool :=
  match paObs (sx126xSetTxPower c hp req rf) with
  | some o => PaOk126x c (isHighPower c hp) req rf o
  | none => false

def below400 (rf : Option Int) : Bool := match rf with | some f => decide (f < 400000000) | none => false

/-- the same with the request replaced by its clamp `k` and the channel by "known to be below 400 MHz" -/
def pa126HoldsK (c : Chip) (hp : Bool) (lo hi k : Int) (below : Bool) : Bool :=
  let high := isHighPower c hp
  let refuse : Bool := !high && decide (k ≥ 15) && below
  let o : Option (Option (Nat × Nat × Nat × Int)) :=
    if refuse then some none
    else match (paTableOf c hp).lookup k with
      | none => none
      | some (e, txb) => some (some (e.pa_duty_cycle.toNat, e.hp_max.toNat, (if high then 0 else 1), Rt.wrap .i8 txb))
  match o with
  | none => false
  | some (some (duty, hpMax, devSel, power)) =>
    decide (devSel = (if high then 0 else 1)) &&
    (paOut126x c duty hpMax devSel power == some k) &&
    (!(below && !high) || decide (duty ≤ 4))
  | some none => !high && decide (k ≥ 15) && below

theorem pa126_factor (c : Chip) (hp : Bool) (req : Int) (rf : Option Int) (lo hi : Int)
    (hT : (paTableOf c hp).min_dbm = lo) (hmx : lastMax (paTableOf c hp) = some hi)
    (hr : paRange126x (isHighPower c hp) = (lo, hi)) (h15 : lo < 15 ∧ 15 ≤ hi) :
    pa126Holds c hp req rf = pa126HoldsK c hp lo hi (clampI lo hi req) (below400 rf) := by
  have hge : decide (req ≥ 15) = decide (clampI lo hi req ≥ 15) := by
    unfold clampI; simp only [decide_eq_decide]; omega
  have hidem : clampI lo hi (clampI lo hi req) = clampI lo hi req := by unfold clampI; omega
  unfold pa126Holds pa126HoldsK sx126xSetTxPower PaOk126x
  rw [lookup_clamp _ req hi hmx, hT, hr, hge]
  have fin : ∀ (b : Bool) (k : Int) (high : Bool) (L : Option (PaTableEntry × Int)),
      (match paObs (if (!high && decide (k ≥ 15) && b) = true then Out.err
            else match L with
              | none => Out.panic
              | some (e, txb) => Out.ok (e.pa_duty_cycle, e.hp_max, if high = true then 0 else 1, wrap ITy.i8 txb)) with
        | some o =>
          (match o with
          | some (duty, hpMax, devSel, power) =>
            decide (devSel = if high = true then 0 else 1) && paOut126x c duty hpMax devSel power == some k &&
              (!(b && !high) || decide (duty ≤ 4))
          | none => !high && decide (k ≥ 15) && b)
        | none => false) =
      (match (if (!high && decide (k ≥ 15) && b) = true then some none
            else match L with
              | none => none
              | some (e, txb) => some (some (e.pa_duty_cycle.toNat, e.hp_max.toNat, if high = true then 0 else 1, wrap ITy.i8 txb))) with
        | none => false
        | some (some (duty, hpMax, devSel, power)) =>
          decide (devSel = if high = true then 0 else 1) && paOut126x c duty hpMax devSel power == some k &&
            (!(b && !high) || decide (duty ≤ 4))
        | some none => !high && decide (k ≥ 15) && b) := by
    intro b k high L
    rcases L with _ | ⟨e, txb⟩ <;> cases high <;> cases b <;> by_cases hk : k ≥ 15 <;> simp [paObs, hk]
  rcases rf with _ | f
  · exact fin false _ _ _
  · by_cases hf : f < 400000000
    · simp only [below400, hf, decide_true]; exact fin true _ _ _
    · simp only [below400, hf, decide_false]; exact fin false _ _ _

theorem pa126_lp_fin (c : Chip) (hp : Bool) (hc : c = .sx1261 ∨ (c = .stm32wl ∧ hp = false)) :
    ∀ k, (-17 : Int) ≤ k → k < -17 + (33 : Nat) → ∀ below, pa126HoldsK c hp (-17) 15 k below = true := by
  apply forall_int_range
  rcases hc with rfl | ⟨rfl, rfl⟩
  · cases hp <;> decide
  · decide

theorem pa126_hp_fin (c : Chip) (hp : Bool) (hc : c = .sx1262 ∨ (c = .stm32wl ∧ hp = true)) :
    ∀ k, (-9 : Int) ≤ k → k < -9 + (32 : Nat) → ∀ below, pa126HoldsK c hp (-9) 22 k below = true := by
  apply forall_int_range
  rcases hc with rfl | ⟨rfl, rfl⟩
  · cases hp <;> decide
  · decide

/-- **SX126x TX power.** For the SX1261, the SX1262 and both PAs of the STM32WL, for EVERY integer
request (no bound at all — `i32` extremes included) and whether or not the driver knows the channel:
the generated table lookup does not panic, the programmed `(paDutyCycle, hpMax, deviceSel, power)`
is a documented combination whose output power is exactly the request clamped into the selected
PA's range (so never above the request inside the range), the low-power PA is never driven with
`paDutyCycle > 4` below 400 MHz, and the driver refuses only what the chip cannot do there. -/
theorem pa126 (c : Chip) (hp : Bool) (req : Int) (rf : Option Int)
    (hc : c = .sx1261 ∨ c = .sx1262 ∨ c = .stm32wl) : pa126Holds c hp req rf = true := by
  have hlp : (c = .sx1261 ∨ (c = .stm32wl ∧ hp = false)) ∨ (c = .sx1262 ∨ (c = .stm32wl ∧ hp = true)) := by
    rcases hc with rfl | rfl | rfl
    · exact .inl (.inl rfl)
    · exact .inr (.inl rfl)
    · cases hp
      · exact .inl (.inr ⟨rfl, rfl⟩)
      · exact .inr (.inr ⟨rfl, rfl⟩)
  rcases hlp with h | h
  · rw [pa126_factor c hp req rf (-17) 15 (by rcases h with rfl | ⟨rfl, rfl⟩ <;> first | rfl | (cases hp <;> rfl))
      (by rcases h with rfl | ⟨rfl, rfl⟩ <;> first | decide | (cases hp <;> decide))
      (by rcases h with rfl | ⟨rfl, rfl⟩ <;> first | rfl | (cases hp <;> rfl)) (by omega)]
    exact pa126_lp_fin c hp h _ (by unfold clampI; omega) (by unfold clampI; omega) _
  · rw [pa126_factor c hp req rf (-9) 22 (by rcases h with rfl | ⟨rfl, rfl⟩ <;> first | rfl | (cases hp <;> rfl))
      (by rcases h with rfl | ⟨rfl, rfl⟩ <;> first | decide | (cases hp <;> decide))
      (by rcases h with rfl | ⟨rfl, rfl⟩ <;> first | rfl | (cases hp <;> rfl)) (by omega)]
    exact pa126_hp_fin c hp h _ (by unfold clampI; omega) (by unfold clampI; omega) _

def pa1276Holds (req : Int) (boost : Bool) : Bool :=
  match sx1276SetTxPower req boost with
  | some (cfg, dac, _) => decide (0 ≤ cfg ∧ cfg ≤ 255) && PaOk127x .sx1276 boost req cfg.toNat dac.toNat
  | none => false

def pa1272Holds (req : Int) (boost : Bool) : Bool :=
  match sx1272SetTxPower req boost with
  | some (cfg, dac) => decide (0 ≤ cfg ∧ cfg ≤ 255) && PaOk127x .sx1272 boost req cfg.toNat dac.toNat
  | none => false

theorem pa1276_clamp (req : Int) (boost : Bool) :
    pa1276Holds req boost = pa1276Holds (clampI (paRange127x .sx1276 boost).1 (paRange127x .sx1276 boost).2 req) boost := by
  cases boost
  · have h : ∀ r : Int, Max.max (-4 : Int) (Min.min 14 (Max.max (-4) (Min.min 14 r))) = Max.max (-4) (Min.min 14 r) := by intro r; omega
    simp only [pa1276Holds, sx1276SetTxPower, PaOk127x, paRange127x, clampI, h, Bool.false_eq_true, if_false]
  · have h : ∀ r : Int, Max.max (2 : Int) (Min.min 20 (Max.max 2 (Min.min 20 r))) = Max.max 2 (Min.min 20 r) := by intro r; omega
    simp only [pa1276Holds, sx1276SetTxPower, PaOk127x, paRange127x, clampI, h, if_true]

/-- **SX1276 TX power.** For EVERY integer request and either output pin: no panic, `RegPaConfig` is
a byte that selects the wired pin, and the output power the datasheet formula gives for
`RegPaConfig`/`RegPaDac` is never above the request clamped into the pin's range (RFO −4..14 dBm,
PA_BOOST 2..20 dBm) and less than 1 dB below it (exactly equal except on RFO at ≤ 0 dBm, where
`Pmax = 10.8 dBm` puts it 0.2 dB lower). -/
theorem pa1276 (req : Int) (boost : Bool) : pa1276Holds req boost = true := by
  rw [pa1276_clamp]
  cases boost
  · have := forall_int_range (-4) 19 (fun k => pa1276Holds k false = true) (by decide)
    exact this _ (by simp [paRange127x, clampI]; omega) (by simp [paRange127x, clampI]; omega)
  · have := forall_int_range 2 19 (fun k => pa1276Holds k true = true) (by decide)
    exact this _ (by simp [paRange127x, clampI]; omega) (by simp [paRange127x, clampI]; omega)

theorem pa1272_clamp (req : Int) (boost : Bool) :
    pa1272Holds req boost = pa1272Holds (clampI (paRange127x .sx1272 boost).1 (paRange127x .sx1272 boost).2 req) boost := by
  cases boost
  · have h : ∀ r : Int, Max.max (-1 : Int) (Min.min 14 (Max.max (-1) (Min.min 14 r))) = Max.max (-1) (Min.min 14 r) := by intro r; omega
    simp only [pa1272Holds, sx1272SetTxPower, PaOk127x, paRange127x, clampI, h, Bool.false_eq_true, if_false]
  · have hi : ∀ r : Int, Max.max (2 : Int) (Min.min 20 (Max.max 2 (Min.min 20 r))) = Max.max 2 (Min.min 20 r) := by intro r; omega
    by_cases h17 : req > 17
    · have h17' : Max.max (2 : Int) (Min.min 20 req) > 17 := by omega
      have h5 : Max.max (5 : Int) (Min.min 20 (Max.max 2 (Min.min 20 req))) = Max.max 5 (Min.min 20 req) := by omega
      simp only [pa1272Holds, sx1272SetTxPower, PaOk127x, paRange127x, clampI, hi, h17, h17', h5, if_true]
    · have h17' : ¬ Max.max (2 : Int) (Min.min 20 req) > 17 := by omega
      have h2 : Max.max (2 : Int) (Min.min 17 (Max.max 2 (Min.min 20 req))) = Max.max 2 (Min.min 17 req) := by omega
      simp only [pa1272Holds, sx1272SetTxPower, PaOk127x, paRange127x, clampI, hi, h17, h17', h2, if_true, if_false]

/-- **SX1272 TX power.** Same for the SX1272 (RFO −1..14 dBm, PA_BOOST 2..20 dBm with the +20 dBm
`PaDac` setting above 17 dBm); here the decoded power equals the clamped request exactly. -/
theorem pa1272 (req : Int) (boost : Bool) : pa1272Holds req boost = true := by
  rw [pa1272_clamp]
  cases boost
  · have := forall_int_range (-1) 16 (fun k => pa1272Holds k false = true) (by decide)
    exact this _ (by simp [paRange127x, clampI]; omega) (by simp [paRange127x, clampI]; omega)
  · have := forall_int_range 2 19 (fun k => pa1272Holds k true = true) (by decide)
    exact this _ (by simp [paRange127x, clampI]; omega) (by simp [paRange127x, clampI]; omega)
/-! ## Symbol-count RX timeout -/

def symb126Holds (n : Int) : Bool :=
  match sx126xSymbTimeout n with
  | some (cmd, reg) => decide (0 ≤ cmd) && (match reg with | some r => decide (0 ≤ r) | none => true) &&
      SymbOk126x n.toNat cmd.toNat (reg.map Int.toNat)
  | none => false

theorem symb126_big (n : Int) (h : 248 < n) : sx126xSymbTimeout n = some (248, some 249) := by
  unfold sx126xSymbTimeout
  have h1 : Min.min n SX126X_MAX_LORA_SYMB_NUM_TIMEOUT = 248 := by
    show Min.min n 248 = 248; omega
  have h2 : n > 0 := by omega
  rw [h1]; simp only [h2, if_true]
  decide

/-- **SX126x RX timeout.** For every symbol count (any non-negative integer, so all of `u16`): the
mantissa/exponent loop terminates without `u8` overflow, the `SetLoRaSymbNumTimeout` argument and
the value written to register 0x0706 denote the same count `mant·2^(2·exp+1)`, which is at least
`min n 248` and at most the chip maximum 248; for `n = 0` only a zero command is sent. -/
theorem symb126 (n : Int) (h0 : 0 ≤ n) : symb126Holds n = true := by
  by_cases h : n ≤ 248
  · exact forall_int_range 0 249 (fun k => symb126Holds k = true) (by decide +kernel) n h0 (by omega)
  · have hn : 248 < n := by omega
    unfold symb126Holds
    rw [symb126_big n hn]
    have : min n.toNat 248 = 248 := by omega
    have h3 : (n.toNat != 0) = true := by simp; omega
    simp [SymbOk126x, this, h3, symb126x]
theorem or_and_fc (p m : Int) (hp0 : 0 ≤ p) (hp1 : p < 256) (hm0 : 0 ≤ m) (hm1 : m < 4) :
    orI (andI p 0xfc) m = p / 4 * 4 + m := by
  have key := forall_int_range 0 1024 (fun k => orI (andI (k / 4) 0xfc) (k % 4) = k / 4 / 4 * 4 + k % 4)
    (by decide +kernel) (p * 4 + m) (by omega) (by omega)
  have e1 : (p * 4 + m) / 4 = p := by omega
  have e2 : (p * 4 + m) % 4 = m := by omega
  simpa only [e1, e2] using key

/-- **SX127x RX timeout.** For every symbol count `n ≥ 0` (all of `u16`) and every prior content of
`RegModemConfig2`: the ten-bit `SymbTimeout` the chip reads from `RegModemConfig2[1:0]` and
`RegSymbTimeoutLsb` equals `n` clamped into the chip's range 4..1023 — never shorter than requested
up to the chip maximum — and the other six bits of `RegModemConfig2` are preserved. -/
theorem symb127 (n prior : Int) (h0 : 0 ≤ n) (hp0 : 0 ≤ prior) (hp1 : prior ≤ 255) :
    ∃ cfg2 lsb, sx127xSymbTimeout n prior = some (cfg2, lsb) ∧ 0 ≤ cfg2 ∧ cfg2 ≤ 255 ∧ 0 ≤ lsb ∧
      (symb127x cfg2.toNat lsb.toNat : Int) = clampI 4 1023 n ∧ cfg2 / 4 = prior / 4 ∧
      SymbOk127x n.toNat cfg2.toNat lsb.toNat = true := by
  unfold sx127xSymbTimeout
  have hmin : SX127X_MIN_LORA_SYMB_NUM_TIMEOUT = 4 := rfl
  have hmax : SX127X_MAX_LORA_SYMB_NUM_TIMEOUT = 1023 := rfl
  rw [hmin, hmax]
  simp only [Option.bind_eq_bind, shrC_u16_8, Option.bind_some, Option.pure_def]
  generalize hk : Min.min (Max.max n 4) 1023 = k
  have hk0 : 4 ≤ k := by omega
  have hk1 : k ≤ 1023 := by omega
  have hkc : k = clampI 4 1023 n := by unfold clampI; omega
  rw [andI_3 (by omega), andI_255 (by omega), wrap_id_u8 (by omega) (by omega), wrap_id_u8 (by omega) (by omega)]
  rw [or_and_fc prior (k / 256 % 4) hp0 (by omega) (by omega) (by omega)]
  refine ⟨_, _, rfl, by omega, by omega, by omega, ?_, by omega, ?_⟩
  · unfold symb127x; rw [← hkc]; omega
  · unfold SymbOk127x symb127x
    simp only [Bool.and_eq_true, decide_eq_true_eq]
    omega
/-! ## LoRaWAN adapter: milliseconds to symbols -/

theorem new_tsym (sf : SpreadingFactor) (bw : Bandwidth) :
    BaseBandModulationParams.new sf bw ._4_5 = some
      { sf := sf, bw := bw, cr := ._4_5, ldro := decide (Spec.Airtime.tsym sf.factor bw.hz ≥ 16384),
        t_sym_us := Spec.Airtime.tsym sf.factor bw.hz } := by
  cases sf <;> cases bw <;> decide

theorem tsym_bounds (sf : SpreadingFactor) (bw : Bandwidth) :
    64 ≤ Spec.Airtime.tsym sf.factor bw.hz ∧ Spec.Airtime.tsym sf.factor bw.hz ≤ 524455 := by
  cases sf <;> cases bw <;> decide

/-- `RxMode::from(Single{ms})` in closed form: `13 + ⌈ms·1000 / t_sym⌉`, no overflow for `ms ≤ 4000` -/
theorem rxsym_closed (sf : SpreadingFactor) (bw : Bandwidth) (ms : Int) (h0 : 0 ≤ ms) (h1 : ms ≤ 4000) :
    rxModeSymbols sf bw ms = some (13 + (ms * 1000 / Spec.Airtime.tsym sf.factor bw.hz +
      if ms * 1000 % Spec.Airtime.tsym sf.factor bw.hz > 0 then 1 else 0)) := by
  unfold rxModeSymbols
  rw [new_tsym]
  obtain ⟨hT0, hT1⟩ := tsym_bounds sf bw
  simp only [Option.bind_eq_bind, Option.bind_some, BaseBandModulationParams.delay_in_symbols]
  generalize Spec.Airtime.tsym sf.factor bw.hz = T at *
  have hq0 : 0 ≤ ms * 1000 / T := Int.ediv_nonneg (by omega) (by omega)
  have hr0 : 0 ≤ ms * 1000 % T := Int.emod_nonneg _ (by omega)
  have hr1 : ms * 1000 % T < T := Int.emod_lt_of_pos _ (by omega)
  have hdm : T * (ms * 1000 / T) + ms * 1000 % T = ms * 1000 := Int.mul_ediv_add_emod _ _
  have hq1 : ms * 1000 / T ≤ 62500 := by
    have h64 : 64 * (ms * 1000 / T) ≤ T * (ms * 1000 / T) := Int.mul_le_mul_of_nonneg_right hT0 hq0
    omega
  rw [ck_u32 (by omega) (by omega)]
  simp only [Option.bind_some]
  rw [divC_pos (by omega) (by omega), remC_pos (by omega) (by omega)]
  generalize ms * 1000 / T = q at *
  generalize ms * 1000 % T = r at *
  rw [ck_u32 (by omega) (by omega)]
  simp only [Option.bind_some]
  rw [ck_u32 (by omega) (by omega)]
  simp only [Option.bind_some]
  rw [ck_u32 (by split <;> omega) (by split <;> omega)]
  simp only [Option.bind_some, Option.pure_def]
  rw [wrap_id_u16 (by split <;> omega) (by split <;> omega)]
  rw [ck_u16 (by split <;> omega) (by split <;> omega)]

/-- the requirement on the model's own output: the window `RxMode::from` asks for covers
preamble + margin -/
def rxsymHolds (sf : SpreadingFactor) (bw : Bandwidth) (ms : Int) : Bool :=
  match rxModeSymbols sf bw ms with
  | some n => WindowCovers sf.factor bw.hz ms n
  | none => false

private theorem covers_sf5 (bw : Bandwidth) (ms : Int) (h0 : 0 ≤ ms) (h1 : ms ≤ 4000) :
    (4 * (13 + (ms * 1000 / Spec.Airtime.tsym 5 bw.hz + if ms * 1000 % Spec.Airtime.tsym 5 bw.hz > 0 then 1 else 0)) - 49)
      * 2 ^ ((5 : Int).toNat) * 1000 ≥ 4 * ms * bw.hz := by
  cases bw <;>
  · simp only [Spec.Airtime.tsym, Bandwidth.hz, Int.reduceToNat, Int.reducePow, Int.reduceMul, Int.reduceDiv]
    omega

private theorem covers_sf6 (bw : Bandwidth) (ms : Int) (h0 : 0 ≤ ms) (h1 : ms ≤ 4000) :
    (4 * (13 + (ms * 1000 / Spec.Airtime.tsym 6 bw.hz + if ms * 1000 % Spec.Airtime.tsym 6 bw.hz > 0 then 1 else 0)) - 49)
      * 2 ^ ((6 : Int).toNat) * 1000 ≥ 4 * ms * bw.hz := by
  cases bw <;>
  · simp only [Spec.Airtime.tsym, Bandwidth.hz, Int.reduceToNat, Int.reducePow, Int.reduceMul, Int.reduceDiv]
    omega

private theorem covers_sf7 (bw : Bandwidth) (ms : Int) (h0 : 0 ≤ ms) (h1 : ms ≤ 4000) :
    (4 * (13 + (ms * 1000 / Spec.Airtime.tsym 7 bw.hz + if ms * 1000 % Spec.Airtime.tsym 7 bw.hz > 0 then 1 else 0)) - 49)
      * 2 ^ ((7 : Int).toNat) * 1000 ≥ 4 * ms * bw.hz := by
  cases bw <;>
  · simp only [Spec.Airtime.tsym, Bandwidth.hz, Int.reduceToNat, Int.reducePow, Int.reduceMul, Int.reduceDiv]
    omega

private theorem covers_sf8 (bw : Bandwidth) (ms : Int) (h0 : 0 ≤ ms) (h1 : ms ≤ 4000) :
    (4 * (13 + (ms * 1000 / Spec.Airtime.tsym 8 bw.hz + if ms * 1000 % Spec.Airtime.tsym 8 bw.hz > 0 then 1 else 0)) - 49)
      * 2 ^ ((8 : Int).toNat) * 1000 ≥ 4 * ms * bw.hz := by
  cases bw <;>
  · simp only [Spec.Airtime.tsym, Bandwidth.hz, Int.reduceToNat, Int.reducePow, Int.reduceMul, Int.reduceDiv]
    omega

private theorem covers_sf9 (bw : Bandwidth) (ms : Int) (h0 : 0 ≤ ms) (h1 : ms ≤ 4000) :
    (4 * (13 + (ms * 1000 / Spec.Airtime.tsym 9 bw.hz + if ms * 1000 % Spec.Airtime.tsym 9 bw.hz > 0 then 1 else 0)) - 49)
      * 2 ^ ((9 : Int).toNat) * 1000 ≥ 4 * ms * bw.hz := by
  cases bw <;>
  · simp only [Spec.Airtime.tsym, Bandwidth.hz, Int.reduceToNat, Int.reducePow, Int.reduceMul, Int.reduceDiv]
    omega

private theorem covers_sf10 (bw : Bandwidth) (ms : Int) (h0 : 0 ≤ ms) (h1 : ms ≤ 4000) :
    (4 * (13 + (ms * 1000 / Spec.Airtime.tsym 10 bw.hz + if ms * 1000 % Spec.Airtime.tsym 10 bw.hz > 0 then 1 else 0)) - 49)
      * 2 ^ ((10 : Int).toNat) * 1000 ≥ 4 * ms * bw.hz := by
  cases bw <;>
  · simp only [Spec.Airtime.tsym, Bandwidth.hz, Int.reduceToNat, Int.reducePow, Int.reduceMul, Int.reduceDiv]
    omega

private theorem covers_sf11 (bw : Bandwidth) (ms : Int) (h0 : 0 ≤ ms) (h1 : ms ≤ 4000) :
    (4 * (13 + (ms * 1000 / Spec.Airtime.tsym 11 bw.hz + if ms * 1000 % Spec.Airtime.tsym 11 bw.hz > 0 then 1 else 0)) - 49)
      * 2 ^ ((11 : Int).toNat) * 1000 ≥ 4 * ms * bw.hz := by
  cases bw <;>
  · simp only [Spec.Airtime.tsym, Bandwidth.hz, Int.reduceToNat, Int.reducePow, Int.reduceMul, Int.reduceDiv]
    omega

private theorem covers_sf12 (bw : Bandwidth) (ms : Int) (h0 : 0 ≤ ms) (h1 : ms ≤ 4000) :
    (4 * (13 + (ms * 1000 / Spec.Airtime.tsym 12 bw.hz + if ms * 1000 % Spec.Airtime.tsym 12 bw.hz > 0 then 1 else 0)) - 49)
      * 2 ^ ((12 : Int).toNat) * 1000 ≥ 4 * ms * bw.hz := by
  cases bw <;>
  · simp only [Spec.Airtime.tsym, Bandwidth.hz, Int.reduceToNat, Int.reducePow, Int.reduceMul, Int.reduceDiv]
    omega

/-- **LoRaWAN adapter.** For every spreading factor, bandwidth and margin `0 ≤ ms ≤ 4000`:
`RxMode::from(Single { ms })` computes — without `u32`/`u16` overflow — a symbol count `n` whose
window covers the 12.25-symbol preamble plus the margin with the exact symbol time:
`n · 2^SF/BW ≥ 12.25 · 2^SF/BW + ms/1000`. -/
theorem rxsym (sf : SpreadingFactor) (bw : Bandwidth) (ms : Int) (h0 : 0 ≤ ms) (h1 : ms ≤ 4000) :
    rxsymHolds sf bw ms = true := by
  unfold rxsymHolds
  rw [rxsym_closed sf bw ms h0 h1]
  simp only [WindowCovers]
  refine decide_eq_true ?_
  cases sf
  · exact covers_sf5 bw ms h0 h1
  · exact covers_sf6 bw ms h0 h1
  · exact covers_sf7 bw ms h0 h1
  · exact covers_sf8 bw ms h0 h1
  · exact covers_sf9 bw ms h0 h1
  · exact covers_sf10 bw ms h0 h1
  · exact covers_sf11 bw ms h0 h1
  · exact covers_sf12 bw ms h0 h1

/-! ## Packet status -/

theorem wrap_i8_byte (b : Int) (h0 : 0 ≤ b) (h1 : b ≤ 255) : wrap .i8 b = if b ≥ 128 then b - 256 else b := by
  simp [wrap, ITy.bits, ITy.signed]; omega

theorem s8_byte (b : Int) (h0 : 0 ≤ b) (h1 : b ≤ 255) : s8 b.toNat = if b ≥ 128 then b - 256 else b := by
  unfold s8
  have : (b.toNat % 256 : Nat) = b.toNat := by omega
  rw [this]
  split <;> split <;> omega

/-- **SX126x packet status.** For all raw status bytes (the third byte is not used): no overflow
(after the `fix:` — raw SNR 126/127 used to overflow `i8`), and the reported RSSI is within 0.5 dB
of `−raw/2` dBm, the reported SNR within 0.5 dB of `int8(raw)/4` dB. -/
theorem pkt126 (b0 b1 : Int) (h00 : 0 ≤ b0) (h01 : b0 ≤ 255) (h10 : 0 ≤ b1) (h11 : b1 ≤ 255) :
    ∃ r s, sx126xPktStatus b0 b1 = some (r, s) ∧ PktOk126x b0.toNat b1.toNat r s = true ∧
      (2 * r + b0).natAbs ≤ 1 ∧ (4 * s - s8 b1.toNat).natAbs ≤ 2 := by
  unfold sx126xPktStatus
  rw [wrap_i8_byte b1 h10 h11]
  rw [ck_i32 (by omega) (by omega)]
  simp only [Option.bind_eq_bind, Option.bind_some, shrC_i32_1]
  rw [ck_i16 (by split <;> omega) (by split <;> omega)]
  simp only [Option.bind_some, shrC_i16_2, Option.pure_def]
  rw [wrap_id_i16 (by omega) (by omega)]
  refine ⟨_, _, rfl, ?_, ?_, ?_⟩
  · unfold PktOk126x
    rw [s8_byte b1 h10 h11]
    simp only [Bool.and_eq_true, decide_eq_true_eq]
    have : (b0.toNat : Int) = b0 := by omega
    rw [this]
    constructor
    · omega
    · split <;> omega
  · omega
  · rw [s8_byte b1 h10 h11]; split <;> omega

theorem rssi126 (b0 : Int) (h00 : 0 ≤ b0) (h01 : b0 ≤ 255) :
    ∃ r, sx126xRssi b0 = some r ∧ RssiOk126x b0.toNat r = true := by
  unfold sx126xRssi
  rw [ck_i32 (by omega) (by omega)]
  simp only [Option.bind_eq_bind, Option.bind_some, shrC_i32_1, Option.pure_def]
  rw [wrap_id_i16 (by omega) (by omega)]
  refine ⟨_, rfl, ?_⟩
  unfold RssiOk126x
  have : (b0.toNat : Int) = b0 := by omega
  simp only [decide_eq_true_eq, this]
  omega
/-- the generated `linearize_rssi` is `round(16/15 · raw)`, no `i16` overflow for any byte -/
theorem linearize_closed (raw : Int) (h0 : 0 ≤ raw) (h1 : raw ≤ 255) : linearize_rssi raw = some ((raw * 16 + 7) / 15) := by
  unfold linearize_rssi
  rw [ck_i16 (by omega) (by omega)]
  simp only [Option.bind_eq_bind, Option.bind_some]
  rw [divC_pos (by omega) (by omega), ck_i16 (by omega) (by omega)]
  simp only [Option.bind_some]
  rw [ck_i16 (by omega) (by omega)]
  simp only [Option.bind_some]
  rw [divC_pos (by omega) (by omega), ck_i16 (by omega) (by omega)]
  congr 1

/-- the model's offset selection is the datasheet's, for every 24-bit `Frf` word -/
theorem rssi_offset_spec (c : Chip) (frf : Int) (hc : c = .sx1272 ∨ c = .sx1276) (h0 : 0 ≤ frf) (h1 : frf < 16777216) :
    sx127xRssiOffset c frf = some (rssiOffset127x c frf.toNat) := by
  rcases hc with rfl | rfl
  · rfl
  · unfold sx127xRssiOffset rssiOffset127x
    simp only []
    rw [pllback127_closed frf h0 (by omega)]
    simp only [Option.bind_eq_bind, Option.bind_some, Option.pure_def]
    have e1 : SX1276_RF_MID_BAND_THRESH = 525000000 := rfl
    have e2 : SX1276_RSSI_OFFSET_HF = -157 := rfl
    have e3 : SX1276_RSSI_OFFSET_LF = -164 := rfl
    rw [e1, e2, e3]
    congr 1
    have : (frf.toNat : Int) = frf := by omega
    by_cases h : frf * 32000000 / 524288 > 525000000
    · have h' : frf.toNat * 32000000 > 525000000 * 2 ^ 19 := by omega
      simp [h, h']
    · have h' : ¬ frf.toNat * 32000000 > 525000000 * 2 ^ 19 := by omega
      simp [h, h']

/-- **SX127x packet status.** For both chips, every 24-bit `Frf` word and all raw `PacketSnr` /
`PacketRssi` bytes: no `i16` overflow, the reported SNR is `int8(raw)/4` rounded to the nearest dB
and the reported RSSI is within 1 dB of `offset + 16/15·PacketRssi (+ PacketSnr/4 if negative)`. -/
theorem pkt127 (c : Chip) (snr rssi frf : Int) (hc : c = .sx1272 ∨ c = .sx1276)
    (hs0 : 0 ≤ snr) (hs1 : snr ≤ 255) (hr0 : 0 ≤ rssi) (hr1 : rssi ≤ 255) (hf0 : 0 ≤ frf) (hf1 : frf < 16777216) :
    ∃ r s, sx127xPktStatus c snr rssi frf = some (r, s) ∧ PktOk127x c frf.toNat rssi.toNat snr.toNat r s = true := by
  unfold sx127xPktStatus
  rw [rssi_offset_spec c frf hc hf0 hf1, linearize_closed rssi hr0 hr1]
  have hoff : -164 ≤ rssiOffset127x c frf.toNat ∧ rssiOffset127x c frf.toNat ≤ -139 := by
    unfold rssiOffset127x; rcases hc with rfl | rfl <;> simp only [] <;> (try split) <;> omega
  have hsn : (snr.toNat : Int) = snr := by omega
  have hrn : (rssi.toNat : Int) = rssi := by omega
  have hw : wrap .i8 snr = s8 snr.toNat := by rw [wrap_i8_byte snr hs0 hs1, s8_byte snr hs0 hs1]
  have hsb : -128 ≤ s8 snr.toNat ∧ s8 snr.toNat ≤ 127 := by rw [s8_byte snr hs0 hs1]; split <;> omega
  unfold PktOk127x
  rw [hw, hrn]
  generalize rssiOffset127x c frf.toNat = off at *
  generalize s8 snr.toNat = sv at *
  rw [ck_i16 (by omega) (by omega)]
  simp only [Option.bind_eq_bind, Option.bind_some, shrC_i16_2]
  rw [ck_i16 (by omega) (by omega)]
  simp only [Option.bind_some]
  by_cases hv : (sv + 2) / 4 ≥ 0
  · simp only [hv, if_true, Option.pure_def]
    refine ⟨_, _, rfl, ?_⟩
    simp only [Bool.and_eq_true, decide_eq_true_eq]
    constructor
    · omega
    · split <;> omega
  · simp only [hv, if_false]
    rw [ck_i16 (by omega) (by omega)]
    simp only [Option.bind_some, Option.pure_def]
    refine ⟨_, _, rfl, ?_⟩
    simp only [Bool.and_eq_true, decide_eq_true_eq]
    constructor
    · omega
    · split <;> omega

/-- **SX127x instantaneous RSSI**: `offset + raw`, exactly, no overflow. -/
theorem rssi127 (c : Chip) (raw frf : Int) (hc : c = .sx1272 ∨ c = .sx1276)
    (hr0 : 0 ≤ raw) (hr1 : raw ≤ 255) (hf0 : 0 ≤ frf) (hf1 : frf < 16777216) :
    ∃ r, sx127xRssi c raw frf = some r ∧ RssiOk127x c frf.toNat raw.toNat r = true := by
  unfold sx127xRssi
  rw [rssi_offset_spec c frf hc hf0 hf1]
  have hoff : -164 ≤ rssiOffset127x c frf.toNat ∧ rssiOffset127x c frf.toNat ≤ -139 := by
    unfold rssiOffset127x; rcases hc with rfl | rfl <;> simp only [] <;> (try split) <;> omega
  simp only [Option.bind_eq_bind, Option.bind_some]
  rw [ck_i16 (by omega) (by omega)]
  refine ⟨_, rfl, ?_⟩
  unfold RssiOk127x
  have : (raw.toNat : Int) = raw := by omega
  simp [this]


/-! ## Non-vacuity: concrete instances of every hypothesis set, on LoRaWAN-relevant inputs -/
example : Sx126x.convert_freq_in_hz_to_pll_step 868100000 = some 910268826 := by decide
example : sx126xSetChannel 868100000 = some 910268826 := by decide
example : freq_to_pll_step 868100000 = some 14222950 ∧ pll_step_to_freq 14222950 = some 868099975 := by decide
example : freq_to_pll_step 867700000 = some 0xD8ECCD := by decide
example : sx127xSetChannel 433175000 = some 7097139 := by decide
example : sx126xSetTxPower .sx1262 true 14 (some 868100000) = .ok (2, 2, 0, 22) := by decide
example : sx126xSetTxPower .stm32wl true 14 (some 868100000) = .ok (2, 2, 0, 14) := by decide
example : sx126xSetTxPower .sx1261 false 15 (some 169400000) = .err := by decide
example : sx126xSetTxPower .sx1261 false (-2147483648) none = .ok (1, 0, 1, -14) := by decide
example : paOut126x .sx1261 1 0 1 (-14) = some (-17) := by decide
example : sx1276SetTxPower 20 true = some (0x8f, 0x87, 0x3b) ∧ paOut127x .sx1276 0x8f 0x87 = 200 := by decide
example : sx1276SetTxPower (-3) false = some (0x01, 0x84, 0x2b) ∧ paOut127x .sx1276 0x01 0x84 = -32 := by decide
example : sx126xSymbTimeout 63 = some (64, some 65) ∧ symb126x 65 = 64 := by decide
example : sx126xSymbTimeout 65 = some (72, some 73) ∧ symb126x 73 = 72 := by decide
example : sx127xSymbTimeout 5000 0xff = some (0xff, 0xff) ∧ symb127x 0xff 0xff = 1023 := by decide
example : rxModeSymbols ._7 ._125KHz 50 = some 62 ∧ WindowCovers 7 125000 50 62 = true ∧ WindowCovers 7 125000 50 61 = false := by decide
example : sx126xPktStatus 160 127 = some (-80, 32) := by decide
example : sx127xPktStatus .sx1276 0xE8 60 14222950 = some (-99, -6) := by decide

end C17

#print axioms C17.pll126_nearest
#print axioms C17.pll127_nearest
#print axioms C17.pa126
#print axioms C17.pa1276
#print axioms C17.pa1272
#print axioms C17.symb126
#print axioms C17.symb127
#print axioms C17.rxsym
#print axioms C17.pkt126
#print axioms C17.rssi126
#print axioms C17.pkt127
#print axioms C17.rssi127
