import LoraVerif.Props.TieA.C05
import LoraVerif.Props.TieA.C06
import LoraVerif.Props.TieA.C08
import LoraVerif.Props.TieA.C09
import LoraVerif.Props.TieA.C10
import LoraVerif.Props.TieA.C11
import LoraVerif.Props.TieA.C12
import LoraVerif.Props.TieA.NewChannel
/-!
# Tie A for the static regional parameters and the small pure MAC helpers (builder J)

One file per property (`Props/TieA/Cxx.lean`, namespace `Cxx`, theorem names `tieA_…`): each proves
that a constant / table / comparison the hand model (`Model/Region.lean`, `Model/Mac.lean`) carries
as a hand copy EQUALS, for all arguments, the item `tools/translate` regenerates from the current
Rust source (`Gen/RegionStatic`, `Gen/MacStatic`, `Gen/UplinkStatic`, `Gen/SessionStatic`,
`Gen/CmdTables`).  `./check Cxx` builds `Props/Tied/Cxx.lean` = `Props/Cxx.lean` + `Props/TieA/Cxx.lean`.
-/
