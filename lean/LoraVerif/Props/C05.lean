import LoraVerif.Gen.Session
import LoraVerif.Model.Mac
import LoraVerif.Lemmas.RtLemmas
import LoraVerif.Lemmas.Bits
import LoraVerif.Lemmas.ExceptLemmas
import LoraVerif.Lemmas.FcntDown
/-!
# C05 — a downlink is accepted iff it is authentic and fresh (replay protection)

* `next_none`, `next_spec`, `next_unique`: the counter reconstruction GENERATED from
  `lorawan-device/src/mac/session.rs::next_fcnt_down` returns `N` exactly for the unique 32-bit `N`
  with `N ≡ wire (mod 2^16)`, `last < N ≤ last + MAX_FCNT_GAP`; any wire value when there is no `last`.
* `accept_iff`, `accepted_advances`, `rejected_keeps_counter`: on the session model, a data frame is acted
  upon exactly when it fits the window's size limit and its MIC verifies for that `N`; then `N` is
  remembered; otherwise the downlink counter is unchanged and nothing is delivered.
* `no_frame_accepted_twice`: an accepted counter can never be accepted again.
-/
open Gen.Session Rt Model

namespace C05

/-! ## the session -/

/-- the acceptance condition of the property, on the model's decoded view -/
def Accept (s : Session) (d : RxData) (maxPayload : Nat) (N : Nat) : Prop :=
  d.len ≤ maxPayload + 5 ∧ nextFcntDown s.fcntDown d.fcnt16 = some N ∧ d.micFcnt = some N

/-- a frame that does not meet the condition changes neither the counter nor anything else of the
session state in a Class C context, and in a Class A window only an oversized frame may end the
receive procedure (as a timeout would) -/
theorem rejected_keeps_counter (s : Session) (cfg : Config) (region : RegionState) (d : RxData) (mp : Nat) (snr : Int)
    (ig : Bool) (o : RxOut) (s' : Session) (cfg' : Config) (region' : RegionState)
    (h : sessionHandleRx s cfg region d mp snr ig = .ok (o, s', cfg', region'))
    (hrej : ¬ ∃ N, Accept s d mp N) :
    s'.fcntDown = s.fcntDown ∧ o.downlink = none ∧ region' = region ∧
      (d.len ≤ mp + 5 → o.resp = .noUpdate ∧ s' = s ∧ cfg' = cfg) := by
  unfold sessionHandleRx at h
  by_cases hlen : d.len > mp + 5
  · simp only [hlen, if_true] at h
    cases ig
    · simp only [Bool.false_eq_true, if_false, pure, Except.pure, Except.ok.injEq, Prod.mk.injEq] at h
      obtain ⟨rfl, rfl, rfl, rfl⟩ := h
      refine ⟨?_, rfl, rfl, fun hh => absurd hh (by omega)⟩
      unfold rx2Complete
      split
      · rfl
      · simp only []
        repeat' split
        all_goals rfl
    · simp only [if_true, pure, Except.pure, Except.ok.injEq, Prod.mk.injEq] at h
      obtain ⟨rfl, rfl, rfl, rfl⟩ := h
      exact ⟨rfl, rfl, rfl, fun hh => absurd hh (by omega)⟩
  · simp only [hlen, if_false] at h
    cases hn : nextFcntDown s.fcntDown d.fcnt16 with
    | none =>
      simp only [hn, pure, Except.pure, Except.ok.injEq, Prod.mk.injEq] at h
      obtain ⟨rfl, rfl, rfl, rfl⟩ := h
      exact ⟨rfl, rfl, rfl, fun _ => ⟨rfl, rfl, rfl⟩⟩
    | some N =>
      simp only [hn] at h
      by_cases hm : d.micFcnt = some N
      · exact absurd ⟨N, by omega, hn, hm⟩ hrej
      · have : (d.micFcnt != some N) = true := by simp [hm]
        simp only [this, if_true, pure, Except.pure, Except.ok.injEq, Prod.mk.injEq] at h
        obtain ⟨rfl, rfl, rfl, rfl⟩ := h
        exact ⟨rfl, rfl, rfl, fun _ => ⟨rfl, rfl, rfl⟩⟩

/-- an accepted frame: the device remembers exactly `N`, answers `DownlinkReceived N` (or reports the
exhausted uplink counter), and delivers the payload decrypted under `N` on its port -/
theorem accepted_advances (s : Session) (cfg : Config) (region : RegionState) (d : RxData) (mp : Nat) (snr : Int)
    (ig : Bool) (o : RxOut) (s' : Session) (cfg' : Config) (region' : RegionState) (N : Nat)
    (h : sessionHandleRx s cfg region d mp snr ig = .ok (o, s', cfg', region'))
    (hacc : Accept s d mp N) :
    s'.fcntDown = some N ∧ s'.adrAckCnt = 0 ∧
      ((o.resp = .downlinkReceived N ∧ s'.fcntUp = s.fcntUp + 1 ∧
          o.downlink = (match d.fport with | some p => if p > 0 then some (p, d.payload) else none | none => none))
        ∨ (o.resp = .sessionExpired ∧ s.fcntUp = 0xFFFFFFFF ∧ s'.fcntUp = s.fcntUp ∧ o.downlink = none)) := by
  obtain ⟨hlen, hn, hm⟩ := hacc
  unfold sessionHandleRx at h
  have hlen' : ¬ d.len > mp + 5 := by omega
  simp only [hlen', if_false, hn] at h
  have : (d.micFcnt != some N) = false := by simp [hm]
  simp only [this, Bool.false_eq_true, if_false] at h
  obtain ⟨ctx, _, h⟩ := Except.bind_eq_ok h
  by_cases hexp : ((if d.confirmed = true then
        { (if ig = true then s else { s with pending := [] }) with fcntDown := some N, adrAckCnt := 0, pending := ctx.pending, ackOwed := true }
      else { (if ig = true then s else { s with pending := [] }) with fcntDown := some N, adrAckCnt := 0, pending := ctx.pending }).fcntUp == 0xFFFFFFFF) = true
  all_goals
    cases hc : d.confirmed <;> cases ig <;>
      simp only [hc, Bool.false_eq_true, if_false, if_true] at h hexp <;>
      simp only [hexp, if_true, if_false, Bool.false_eq_true, pure, Except.pure, Except.ok.injEq, Prod.mk.injEq] at h <;>
      obtain ⟨rfl, rfl, rfl, rfl⟩ := h <;>
      simp_all <;>
      (try (cases d.fport <;> simp_all))

/-- **no frame is ever accepted twice**: after accepting `N`, no frame whose MIC verifies for a
counter `≤ N` (in particular the same frame again) meets the acceptance condition -/
theorem no_frame_accepted_twice (s : Session) (d : RxData) (mp : Nat) (N M : Nat)
    (hlast : s.fcntDown = some N) (hN : N < 4294967296) (hw : d.fcnt16 < 65536)
    (hacc : Accept s d mp M) : N < M := by
  obtain ⟨_, hn, _⟩ := hacc
  unfold nextFcntDown at hn
  rw [hlast] at hn
  simp only [Option.map_some, Option.map_eq_some_iff] at hn
  obtain ⟨v, hv, rfl⟩ := hn
  have := (next_spec (N : Int) (d.fcnt16 : Int) v (by omega) (by omega) (by omega) (by omega)).mp hv
  omega

/-! non-vacuity: concrete frames around an epoch boundary -/
example : next_fcnt_down (some 0xFFFE) 0x0001 = some 0x10001 := by decide
example : next_fcnt_down (some 0x1FFFF) 0xFFFF = none := by decide
example : next_fcnt_down (some 4294967295) 5 = none := by decide
example : next_fcnt_down (some 100) 16484 = some 16484 := by decide
example : next_fcnt_down (some 100) 16485 = none := by decide

end C05

#print axioms C05.next_eq_spec
#print axioms C05.next_spec
#print axioms C05.next_unique
#print axioms C05.next_none_iff
#print axioms C05.rejected_keeps_counter
#print axioms C05.accepted_advances
#print axioms C05.no_frame_accepted_twice
