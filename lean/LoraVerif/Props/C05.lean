import LoraVerif.Gen.Session
import LoraVerif.Model.Mac
import LoraVerif.Lemmas.RtLemmas
import LoraVerif.Lemmas.Bits
import LoraVerif.Lemmas.ExceptLemmas
import LoraVerif.Lemmas.FcntDown
import LoraVerif.Lemmas.Ghost
import LoraVerif.Lemmas.RefineOps
import LoraVerif.Lemmas.GhostC
import LoraVerif.Lemmas.RefineC
import LoraVerif.Lemmas.RefineListen
/-!
# C05 — a downlink is accepted iff it is authentic and fresh (replay protection)

* `next_none`, `next_spec`, `next_unique`: the counter reconstruction GENERATED from
  `lorawan-device/src/mac/session.rs::next_fcnt_down` returns `N` exactly for the unique 32-bit `N`
  with `N ≡ wire (mod 2^16)`, `last < N ≤ last + MAX_FCNT_GAP`; any wire value when there is no `last`.
* `accept_iff`, `accepted_advances`, `rejected_keeps_counter`: on the session model, a data frame is acted
  upon exactly when it fits the window's size limit and its MIC verifies for that `N`; then `N` is
  remembered; otherwise the downlink counter is unchanged and nothing is delivered.
* `no_frame_accepted_twice`: an accepted counter can never be accepted again.
* HISTORIES (`Model/History.lean`; reference tracker `Gh` of `Lemmas/Ghost.lean`, freshness rule of
  `Spec/Freshness.lean`): `history_accept_iff` — along every `run`, at every event, a data frame
  heard in RX1/RX2/RXC is acted upon (reported, delivered, remembered) iff the REFERENCE accepts it
  under the last counter the reference accepted in this session; `history_fcnt_down_strict` — the
  accepted counters of one session are strictly increasing; `history_no_replay`.
-/
open Gen.Session Rt Model

namespace C05

/-! ## the session -/

/-- the acceptance condition of the property, on the model's decoded view -/
def Accept (s : Session) (d : RxData) (maxPayload : Nat) (N : Nat) : Prop :=
  d.len ≤ maxPayload + 5 ∧ nextFcntDown s.fcntDown d.fcnt16 = some N ∧ d.micFcnt = some N

/-- a frame that does not meet the condition changes neither the counter nor anything else of the
session state in a Class C context, and in a Class A window only an oversized frame may end the
receive procedure (as a timeout would) -/
theorem rejected_keeps_counter (s : Session) (cfg : Config) (region : RegionState) (d : RxData) (mp : Nat) (snr : Int)
    (ig : Bool) (o : RxOut) (s' : Session) (cfg' : Config) (region' : RegionState)
    (h : sessionHandleRx s cfg region d mp snr ig = .ok (o, s', cfg', region'))
    (hrej : ¬ ∃ N, Accept s d mp N) :
    s'.fcntDown = s.fcntDown ∧ o.downlink = none ∧ region' = region ∧
      (d.len ≤ mp + 5 → o.resp = .noUpdate ∧ s' = s ∧ cfg' = cfg) := by
  unfold sessionHandleRx at h
  by_cases hlen : d.len > mp + 5
  · simp only [hlen, if_true] at h
    cases ig
    · simp only [Bool.false_eq_true, if_false, pure, Except.pure, Except.ok.injEq, Prod.mk.injEq] at h
      obtain ⟨rfl, rfl, rfl, rfl⟩ := h
      refine ⟨?_, rfl, rfl, fun hh => absurd hh (by omega)⟩
      unfold rx2Complete
      split
      · rfl
      · simp only []
        repeat' split
        all_goals rfl
    · simp only [if_true, pure, Except.pure, Except.ok.injEq, Prod.mk.injEq] at h
      obtain ⟨rfl, rfl, rfl, rfl⟩ := h
      exact ⟨rfl, rfl, rfl, fun hh => absurd hh (by omega)⟩
  · simp only [hlen, if_false] at h
    cases hn : nextFcntDown s.fcntDown d.fcnt16 with
    | none =>
      simp only [hn, pure, Except.pure, Except.ok.injEq, Prod.mk.injEq] at h
      obtain ⟨rfl, rfl, rfl, rfl⟩ := h
      exact ⟨rfl, rfl, rfl, fun _ => ⟨rfl, rfl, rfl⟩⟩
    | some N =>
      simp only [hn] at h
      by_cases hm : d.micFcnt = some N
      · exact absurd ⟨N, by omega, hn, hm⟩ hrej
      · have : (d.micFcnt != some N) = true := by simp [hm]
        simp only [this, if_true, pure, Except.pure, Except.ok.injEq, Prod.mk.injEq] at h
        obtain ⟨rfl, rfl, rfl, rfl⟩ := h
        exact ⟨rfl, rfl, rfl, fun _ => ⟨rfl, rfl, rfl⟩⟩

/-- an accepted frame: the device remembers exactly `N`, answers `DownlinkReceived N` (or reports the
exhausted uplink counter), and delivers the payload decrypted under `N` on its port -/
theorem accepted_advances (s : Session) (cfg : Config) (region : RegionState) (d : RxData) (mp : Nat) (snr : Int)
    (ig : Bool) (o : RxOut) (s' : Session) (cfg' : Config) (region' : RegionState) (N : Nat)
    (h : sessionHandleRx s cfg region d mp snr ig = .ok (o, s', cfg', region'))
    (hacc : Accept s d mp N) :
    s'.fcntDown = some N ∧ s'.adrAckCnt = 0 ∧
      ((o.resp = .downlinkReceived N ∧ s'.fcntUp = s.fcntUp + 1 ∧
          o.downlink = (match d.fport with | some p => if p > 0 then some (p, d.payload) else none | none => none))
        ∨ (o.resp = .sessionExpired ∧ s.fcntUp = 0xFFFFFFFF ∧ s'.fcntUp = s.fcntUp ∧ o.downlink = none)) := by
  obtain ⟨hlen, hn, hm⟩ := hacc
  unfold sessionHandleRx at h
  have hlen' : ¬ d.len > mp + 5 := by omega
  simp only [hlen', if_false, hn] at h
  have : (d.micFcnt != some N) = false := by simp [hm]
  simp only [this, Bool.false_eq_true, if_false] at h
  obtain ⟨ctx, _, h⟩ := Except.bind_eq_ok h
  by_cases hexp : ((if d.confirmed = true then
        { (if ig = true then s else { s with pending := [] }) with fcntDown := some N, adrAckCnt := 0, pending := ctx.pending, ackOwed := true }
      else { (if ig = true then s else { s with pending := [] }) with fcntDown := some N, adrAckCnt := 0, pending := ctx.pending }).fcntUp == 0xFFFFFFFF) = true
  all_goals
    cases hc : d.confirmed <;> cases ig <;>
      simp only [hc, Bool.false_eq_true, if_false, if_true] at h hexp <;>
      simp only [hexp, if_true, if_false, Bool.false_eq_true, pure, Except.pure, Except.ok.injEq, Prod.mk.injEq] at h <;>
      obtain ⟨rfl, rfl, rfl, rfl⟩ := h <;>
      simp_all <;>
      (try (cases d.fport <;> simp_all))

/-- **no frame is ever accepted twice**: after accepting `N`, no frame whose MIC verifies for a
counter `≤ N` (in particular the same frame again) meets the acceptance condition -/
theorem no_frame_accepted_twice (s : Session) (d : RxData) (mp : Nat) (N M : Nat)
    (hlast : s.fcntDown = some N) (hN : N < 4294967296) (hw : d.fcnt16 < 65536)
    (hacc : Accept s d mp M) : N < M := by
  obtain ⟨_, hn, _⟩ := hacc
  unfold nextFcntDown at hn
  rw [hlast] at hn
  simp only [Option.map_some, Option.map_eq_some_iff] at hn
  obtain ⟨v, hv, rfl⟩ := hn
  have := (next_spec (N : Int) (d.fcnt16 : Int) v (by omega) (by omega) (by omega) (by omega)).mp hv
  omega

/-! ## histories

The property quantifies over every history.  `Lemmas/Ghost.lean` runs a *reference session tracker*
(`Gh`: is there a session, and what was the last downlink counter the reference accepted in it —
computed from the events' decoded frames and `Spec/Freshness.lean` alone) beside the model.
`OutOk gh ev out` says what the output of one event must be, given the tracker before it. -/

/-- response of a Class A procedure that ended without an accepted downlink -/
def timeoutResp (so : SendOut) : Response :=
  if so.frame.fcnt = 0xFFFFFFFF then .sessionExpired else if so.frame.confirmed then .noAck else .rxComplete

/-- **what every event of a history must output**, given the reference tracker `gh` before it:
* an uplink of a joined device whose receive procedure ran to its end reports `DownlinkReceived N`
  and delivers the payload EXACTLY when the reference accepts a frame in RX1, or — RX1 having yielded
  nothing — in RX2, with `N` the unique fresh counter its MIC verifies under (the exhausted uplink
  counter space is reported instead when the uplink carried counter 2^32−1); otherwise it reports the
  time-out response and delivers nothing;
* a Class C reception likewise (an oversized frame is `NoUpdate` there);
* a device without a session refuses to send and ignores Class C receptions. -/
def OutOk (gh : Gh) (ev : Ev) (out : Out) : Prop :=
  match ev, gh with
  | .uplink _ _ _ none rx1 rx2 mp1 mp2, some last =>
    ∃ so resp dl, out = .up so (some resp) dl ∧
      (match specCycle last rx1 rx2 mp1 mp2 with
       | .accepted N d _ =>
         (so.frame.fcnt ≠ 0xFFFFFFFF ∧ resp = .downlinkReceived N ∧ dl = deliver d)
         ∨ (so.frame.fcnt = 0xFFFFFFFF ∧ resp = .sessionExpired ∧ dl = none)
       | _ => resp = timeoutResp so ∧ dl = none)
  | .uplink _ _ _ (some _) _ _ _ _, some _ =>
    ∃ so resp, out = .up so resp none ∧ (resp = none ∨ resp = some .sessionExpired)
  | .uplink _ _ _ _ _ _ _ _, none => out = .notJoined
  | .rxc v _ mp, some last =>
    ∃ rf o, out = .rxc rf (some o) ∧
      (match specRxc last v mp with
       | some (N, d) => o = { resp := .downlinkReceived N, downlink := deliver d } ∨ o = { resp := .sessionExpired, downlink := none }
       | none => o = noUp)
  | .rxc _ _ _, none => ∃ rf, out = .rxc rf none
  | .joinOtaa _ _ _ _ _, _ => ∃ jo resp, out = .join jo resp
  | _, _ => out = .done

theorem step_outOk {σ} (g : Rng σ) (m m' : MacState) (rs rs' : σ) (ev : Ev) (out : Out) (gh : Gh)
    (hr : GhRel m gh) (hv : evOk ev = true) (h : step g (m, rs) ev = .ok ((m', rs'), out)) : OutOk gh ev out := by
  cases ev with
  | joinAbp da nwk app =>
    simp only [step, pure, Except.pure, Except.ok.injEq, Prod.mk.injEq] at h
    cases gh <;> exact h.2.symm
  | setDr dr =>
    simp only [step, pure, Except.pure, Except.ok.injEq, Prod.mk.injEq] at h
    cases gh <;> exact h.2.symm
  | setAdr on =>
    simp only [step, pure, Except.pure, Except.ok.injEq, Prod.mk.injEq] at h
    cases gh <;> exact h.2.symm
  | joinOtaa fault rx1 rx2 mp1 mp2 =>
    obtain ⟨jo, m1, o, _, _, _, ht⟩ := step_joinOtaa_inv g m m' rs rs' fault rx1 rx2 mp1 mp2 out h
    have : ∃ jo resp, out = .join jo resp := by
      cases hj : joinRes fault rx1 rx2 with
      | some j => simp only [hj] at ht; exact ⟨jo, _, ht.2⟩
      | none => simp only [hj] at ht; exact ⟨jo, _, ht.2⟩
    cases gh <;> exact this
  | rxc v snr mp =>
    simp only [evOk] at hv
    cases gh with
    | none =>
      obtain ⟨_, _, rf, _, rfl⟩ := step_rxc_notJoined g m m' rs rs' hr v snr mp out h
      exact ⟨rf, rfl⟩
    | some last =>
      obtain ⟨s, hst, rfl, hl⟩ := hr
      obtain ⟨_, rf, _, ht⟩ := step_rxc_joined g m m' rs rs' s hst hl v snr mp hv out h
      simp only [OutOk]
      cases hs : specRxc s.fcntDown v mp with
      | none =>
        simp only [hs] at ht ⊢
        exact ⟨rf, noUp, ht.2, rfl⟩
      | some p =>
        obtain ⟨N, d⟩ := p
        simp only [hs] at ht ⊢
        refine ⟨rf, _, ht.2, ?_⟩
        rcases acceptOut_resp s d N { cfg := m.cfg, region := m.region, pending := s.pending } with ⟨e, _⟩ | ⟨e, _⟩
        · exact Or.inl e
        · exact Or.inr e
  | uplink data fport conf fault rx1 rx2 mp1 mp2 =>
    simp only [evOk, Bool.and_eq_true] at hv
    cases gh with
    | none =>
      obtain ⟨_, _, rfl⟩ := step_uplink_notJoined g m m' rs rs' hr data fport conf fault rx1 rx2 mp1 mp2 out h
      cases fault <;> rfl
    | some last =>
      obtain ⟨s, hst, rfl, hl⟩ := hr
      obtain ⟨so, m1, _, hfr, hst1, _, ht⟩ :=
        step_uplink_joined g m m' rs rs' s hst hl data fport conf fault rx1 rx2 mp1 mp2 hv.1 hv.2 out h
      have hfc : so.frame.fcnt = s.fcntUp := by rw [hfr]; rfl
      have hcf : so.frame.confirmed = conf := by rw [hfr]; rfl
      unfold UplinkTail at ht
      cases fault with
      | some k =>
        simp only at ht
        obtain ⟨m2, _, _, rfl⟩ := ht
        simp only [OutOk]
        refine ⟨so, _, rfl, ?_⟩
        by_cases hx : faultExpired m2 = true
        · right; simp [hx]
        · left; simp [hx]
      | none =>
        simp only at ht
        simp only [OutOk]
        cases hsc : specCycle s.fcntDown rx1 rx2 mp1 mp2 with
        | accepted N d snr =>
          have hsc' : specCycle (sentSession s conf).fcntDown rx1 rx2 mp1 mp2 = .accepted N d snr := hsc
          simp only [hsc'] at ht
          obtain ⟨ctx, _, _, rfl⟩ := ht
          refine ⟨so, _, _, rfl, ?_⟩
          simp only [hfc]
          rcases acceptOut_resp (sentSession s conf) d N ctx with ⟨e, hx⟩ | ⟨e, hx⟩
          · left; rw [e]; exact ⟨hx, rfl, rfl⟩
          · right; rw [e]; exact ⟨hx, rfl, rfl⟩
        | ended =>
          have hsc' : specCycle (sentSession s conf).fcntDown rx1 rx2 mp1 mp2 = .ended := hsc
          simp only [hsc'] at ht
          obtain ⟨_, rfl⟩ := ht
          refine ⟨so, _, _, rfl, ?_, rfl⟩
          simp only [macRx2Complete, hst1, rx2Complete_resp_eq, timeoutResp, hfc, hcf]; rfl
        | nothing =>
          have hsc' : specCycle (sentSession s conf).fcntDown rx1 rx2 mp1 mp2 = .nothing := hsc
          simp only [hsc'] at ht
          obtain ⟨_, rfl⟩ := ht
          refine ⟨so, _, _, rfl, ?_, rfl⟩
          simp only [macRx2Complete, hst1, rx2Complete_resp_eq, timeoutResp, hfc, hcf]; rfl

/-- the tracker after a trace is the tracker run over its events -/
theorem ghostAfter_ghRun (gh : Gh) (t : List (Ev × Out)) :
    ghostAfter (fun gh ev _ => ghStep gh ev) gh t = ghRun gh (t.map (·.1)) := by
  induction t generalizing gh with
  | nil => rfl
  | cons x rest ih => obtain ⟨ev, out⟩ := x; simp only [ghostAfter, List.map_cons, ghRun, List.foldl_cons]; exact ih _

/-- the trace predicate of C05 -/
def AcceptTrace : Gh → List (Ev × Out) → Prop := TraceD (fun gh ev _ => ghStep gh ev) OutOk

/-- **C05 over every history.**  From any state `m` the tracker `gh` describes (the initial state:
`none`), for every random stream and every history whose frames have 16-bit wire counters: at EVERY
event a data frame heard in RX1/RX2/RXC is acted upon — `DownlinkReceived N` reported, payload
delivered, `N` remembered (the tracker, hence the freshness window of every later frame, moves to
`N`) — iff it fits the window's limit and its MIC verifies under the unique fresh counter `N`
(`last < N ≤ last + 16384`, first frame of the session: `N` = the wire value), `last` being the
counter of the last accepted frame of the session; and the final state is again the one the tracker
describes (its stored counter IS the last accepted one). -/
theorem history_accept_iff {σ} (g : Rng σ) (m : MacState) (rs : σ) (gh : Gh) (hr : GhRel m gh) (evs : List Ev)
    (hv : ∀ ev ∈ evs, evOk ev = true) (ms' : MacState × σ) (outs : List Out)
    (h : run g (m, rs) evs = .ok (ms', outs)) :
    AcceptTrace gh (evs.zip outs) ∧ GhRel ms'.1 (ghRun gh evs) := by
  have hc := run_chain g (m, rs) ms' evs outs h
  have hlen := run_outs_length g (m, rs) ms' evs outs h
  have hv' : ∀ x ∈ evs.zip outs, evOk x.1 = true := fun x hx => hv x.1 (List.of_mem_zip hx).1
  obtain ⟨ht, hrel⟩ := chain_traceD g (fun gh ev _ => ghStep gh ev) OutOk GhRel (fun ev => evOk ev = true)
    (fun m s ev m' s' out gh hr hv hs => ⟨step_outOk g m m' s s' ev out gh hr hv hs, step_ghRel g m m' s s' ev out gh hr hv hs⟩)
    (m, rs) ms' (evs.zip outs) gh hr hv' hc
  refine ⟨ht, ?_⟩
  rw [ghostAfter_ghRun] at hrel
  have : (evs.zip outs).map (·.1) = evs := by
    rw [List.map_fst_zip]; omega
  rw [this] at hrel
  exact hrel

/-- from the initial state of any region -/
theorem history_accept_iff_init {σ} (g : Rng σ) (r : RegionState) (maxPower : Nat) (gain : Int) (rs : σ) (evs : List Ev)
    (hv : ∀ ev ∈ evs, evOk ev = true) (ms' : MacState × σ) (outs : List Out)
    (h : run g (MacState.init r maxPower gain, rs) evs = .ok (ms', outs)) :
    AcceptTrace none (evs.zip outs) ∧ GhRel ms'.1 (ghRun none evs) :=
  history_accept_iff g _ rs none (ghRel_init r maxPower gain) evs hv ms' outs h


/-- an event that (re)starts activation: the session, if any, ends here -/
def isJoin : Ev → Bool
  | .joinAbp _ _ _ | .joinOtaa _ _ _ _ _ => true
  | _ => false

/-- the downlink counter an output reports as accepted -/
def reported : Out → Option Nat
  | .up _ (some (.downlinkReceived N)) _ => some N
  | .rxc _ (some o) => (match o.resp with | .downlinkReceived N => some N | _ => none)
  | _ => none

/-- a reported acceptance is one the reference makes: under the tracker's `last` the frame's MIC
verifies for the fresh counter `N`, and the tracker moves to `N` -/
theorem outOk_reported {gh : Gh} {ev : Ev} {out : Out} {N : Nat} (hv : evOk ev = true) (h : OutOk gh ev out)
    (hr : reported out = some N) :
    ∃ last d mp, gh = some last ∧ accepts last d mp = some N ∧ ghStep gh ev = some (some N) := by
  cases ev with
  | joinAbp da nwk app => cases gh <;> (simp only [OutOk] at h; subst h; cases hr)
  | setAdr on => cases gh <;> (simp only [OutOk] at h; subst h; cases hr)
  | setDr dr => cases gh <;> (simp only [OutOk] at h; subst h; cases hr)
  | joinOtaa fault rx1 rx2 mp1 mp2 =>
    cases gh <;> (simp only [OutOk] at h; obtain ⟨jo, resp, rfl⟩ := h; cases hr)
  | rxc v snr mp =>
    simp only [evOk] at hv
    cases gh with
    | none => simp only [OutOk] at h; obtain ⟨rf, rfl⟩ := h; cases hr
    | some last =>
      simp only [OutOk] at h
      obtain ⟨rf, o, rfl, h⟩ := h
      simp only [reported] at hr
      cases hs : specRxc last v mp with
      | none => simp only [hs] at h; subst h; cases hr
      | some p =>
        obtain ⟨N', d⟩ := p
        simp only [hs] at h
        have hN : N' = N := by
          rcases h with rfl | rfl
          · simpa using hr
          · cases hr
        subst hN
        refine ⟨last, d, mp, rfl, ?_, by simp [ghStep, hs]⟩
        unfold specRxc at hs
        cases v with
        | garbage => cases hs
        | joinAccept j => cases hs
        | data d' =>
          simp only [Option.map_eq_some_iff, Prod.mk.injEq] at hs
          obtain ⟨_, ha, rfl, rfl⟩ := hs
          exact ha
  | uplink data fport conf fault rx1 rx2 mp1 mp2 =>
    simp only [evOk, Bool.and_eq_true] at hv
    cases gh with
    | none => simp only [OutOk] at h; subst h; cases hr
    | some last =>
      cases fault with
      | some k =>
        simp only [OutOk] at h
        obtain ⟨so, resp, rfl, h⟩ := h
        rcases h with rfl | rfl <;> cases hr
      | none =>
        simp only [OutOk] at h
        obtain ⟨so, resp, dl, rfl, h⟩ := h
        cases hsc : specCycle last rx1 rx2 mp1 mp2 with
        | accepted N' d snr =>
          simp only [hsc] at h
          have hN : N' = N := by
            rcases h with ⟨_, rfl, _⟩ | ⟨_, rfl, _⟩
            · simpa [reported] using hr
            · cases hr
          subst hN
          obtain ⟨mp, ha, _⟩ := upRes_accepted (fault := none) hv.1 hv.2 hsc
          exact ⟨last, d, mp, rfl, ha, by simp [ghStep, upRes, hsc, ghWin]⟩
        | ended =>
          simp only [hsc] at h
          obtain ⟨rfl, _⟩ := h
          unfold timeoutResp at hr
          (repeat' split at hr) <;> cases hr
        | nothing =>
          simp only [hsc] at h
          obtain ⟨rfl, _⟩ := h
          unfold timeoutResp at hr
          (repeat' split at hr) <;> cases hr

theorem accepts_gt {L : Nat} {d : RxData} {mp N : Nat} (h : accepts (some L) d mp = some N) : L < N :=
  (accepts_some.mp h).2.1.gt

/-- within a session the tracker never moves backwards -/
theorem ghStep_mono (L : Nat) (ev : Ev) (hv : evOk ev = true) (hj : isJoin ev = false) :
    ∃ L', ghStep (some (some L)) ev = some (some L') ∧ L ≤ L' := by
  cases ev with
  | joinAbp da nwk app => cases hj
  | joinOtaa fault rx1 rx2 mp1 mp2 => cases hj
  | setAdr on => exact ⟨L, rfl, Nat.le_refl _⟩
  | setDr dr => exact ⟨L, rfl, Nat.le_refl _⟩
  | rxc v snr mp =>
    simp only [ghStep, Option.map_some]
    cases hs : specRxc (some L) v mp with
    | none => exact ⟨L, rfl, Nat.le_refl _⟩
    | some p =>
      obtain ⟨N, d⟩ := p
      refine ⟨N, rfl, ?_⟩
      unfold specRxc at hs
      cases v with
      | garbage => cases hs
      | joinAccept j => cases hs
      | data d' =>
        simp only [Option.map_eq_some_iff, Prod.mk.injEq] at hs
        obtain ⟨_, ha, rfl, rfl⟩ := hs
        exact Nat.le_of_lt (accepts_gt ha)
  | uplink data fport conf fault rx1 rx2 mp1 mp2 =>
    simp only [evOk, Bool.and_eq_true] at hv
    simp only [ghStep, Option.map_some]
    cases hu : upRes (some L) fault rx1 rx2 mp1 mp2 with
    | nothing => exact ⟨L, rfl, Nat.le_refl _⟩
    | ended => exact ⟨L, rfl, Nat.le_refl _⟩
    | accepted N d snr =>
      obtain ⟨mp, ha, _⟩ := upRes_accepted hv.1 hv.2 hu
      exact ⟨N, rfl, Nat.le_of_lt (accepts_gt ha)⟩

theorem ghRun_mono (L : Nat) (evs : List Ev) (hv : ∀ e ∈ evs, evOk e = true) (hj : ∀ e ∈ evs, isJoin e = false) :
    ∃ L', ghRun (some (some L)) evs = some (some L') ∧ L ≤ L' := by
  induction evs generalizing L with
  | nil => exact ⟨L, rfl, Nat.le_refl _⟩
  | cons e rest ih =>
    obtain ⟨L1, h1, hle1⟩ := ghStep_mono L e (hv e List.mem_cons_self) (hj e List.mem_cons_self)
    obtain ⟨L2, h2, hle2⟩ := ih L1 (fun e he => hv e (List.mem_cons_of_mem _ he)) (fun e he => hj e (List.mem_cons_of_mem _ he))
    refine ⟨L2, ?_, Nat.le_trans hle1 hle2⟩
    simp only [ghRun, List.foldl_cons] at h2 ⊢
    rw [h1]; exact h2

theorem ghostAfter_append {G} (next : G → Ev → Out → G) (gh : G) (a b : List (Ev × Out)) :
    ghostAfter next gh (a ++ b) = ghostAfter next (ghostAfter next gh a) b := by
  induction a generalizing gh with
  | nil => rfl
  | cons x rest ih => obtain ⟨e, o⟩ := x; simp only [List.cons_append, ghostAfter]; exact ih _

/-- **the accepted downlink counters of one session are strictly increasing** along every history:
take any two events `i < j` of a history that report an accepted downlink (`DownlinkReceived Nᵢ`,
`DownlinkReceived Nⱼ`, in a Class A window or between uplinks) with no (re-)join strictly between
them: `Nᵢ < Nⱼ`.  Hence no frame is accepted twice in a session: a replayed frame would verify under
the same counter. -/
theorem history_fcnt_down_strict {σ} (g : Rng σ) (m : MacState) (rs : σ) (gh : Gh) (hr : GhRel m gh) (evs : List Ev)
    (hv : ∀ ev ∈ evs, evOk ev = true) (ms' : MacState × σ) (outs : List Out)
    (h : run g (m, rs) evs = .ok (ms', outs)) (i j : Nat) (hij : i < j) (ei ej : Ev) (oi oj : Out) (Ni Nj : Nat)
    (hi : (evs.zip outs)[i]? = some (ei, oi)) (hj : (evs.zip outs)[j]? = some (ej, oj))
    (hri : reported oi = some Ni) (hrj : reported oj = some Nj)
    (hq : ∀ k, i < k → k < j → ∀ e o, (evs.zip outs)[k]? = some (e, o) → isJoin e = false) : Ni < Nj := by
  have ht := (history_accept_iff g m rs gh hr evs hv ms' outs h).1
  have hvz : ∀ x ∈ evs.zip outs, evOk x.1 = true := fun x hx => hv x.1 (List.of_mem_zip hx).1
  generalize evs.zip outs = t at *
  unfold AcceptTrace at ht
  have hPi := traceD_at _ _ gh t i ei oi ht hi
  have hPj := traceD_at _ _ gh t j ej oj ht hj
  have hvi : evOk ei = true := hvz (ei, oi) (List.mem_of_getElem? hi)
  have hvj : evOk ej = true := hvz (ej, oj) (List.mem_of_getElem? hj)
  obtain ⟨lasti, di, mpi, hgi, _, hsi⟩ := outOk_reported hvi hPi hri
  obtain ⟨lastj, dj, mpj, hgj, haj, _⟩ := outOk_reported hvj hPj hrj
  -- the tracker at j is the tracker after i run over the events in between
  have hlt : i < t.length := by
    rcases Nat.lt_or_ge i t.length with hlt | hge
    · exact hlt
    · rw [List.getElem?_eq_none hge] at hi; cases hi
  have hdrop : t.drop i = (ei, oi) :: t.drop (i + 1) := by
    rw [List.getElem?_eq_getElem hlt] at hi
    rw [List.drop_eq_getElem_cons hlt]
    simp only [Option.some.injEq] at hi
    rw [hi]
  have htake : t.take j = t.take i ++ (ei, oi) :: (t.drop (i + 1)).take (j - (i + 1)) := by
    have : j = i + (j - i) := by omega
    rw [this, List.take_add, hdrop]
    have : i + (j - i) - (i + 1) = j - i - 1 := by omega
    rw [this]
    have : j - i = (j - i - 1) + 1 := by omega
    rw [this, List.take_succ_cons]
    simp
  rw [htake, ghostAfter_append] at hgj
  simp only [ghostAfter] at hgj
  rw [hsi, ghostAfter_ghRun] at hgj
  have hmid : ∀ x ∈ (t.drop (i + 1)).take (j - (i + 1)), evOk x.1 = true ∧ isJoin x.1 = false := by
    intro x hx
    obtain ⟨k, hxk⟩ := List.mem_iff_getElem?.mp hx
    rw [List.getElem?_take] at hxk
    split at hxk
    · rename_i hklt
      rw [List.getElem?_drop] at hxk
      exact ⟨hvz x (List.mem_of_getElem? hxk), hq (i + 1 + k) (by omega) (by omega) x.1 x.2 hxk⟩
    · cases hxk
  obtain ⟨L, hL, hle⟩ := ghRun_mono Ni (((t.drop (i + 1)).take (j - (i + 1))).map (·.1))
    (fun e he => by obtain ⟨x, hx, rfl⟩ := List.mem_map.mp he; exact (hmid x hx).1)
    (fun e he => by obtain ⟨x, hx, rfl⟩ := List.mem_map.mp he; exact (hmid x hx).2)
  rw [hL] at hgj
  cases hgj
  have := accepts_gt haj
  omega


/-- … in particular no counter — hence no frame — is accepted twice in a session -/
theorem history_no_replay {σ} (g : Rng σ) (m : MacState) (rs : σ) (gh : Gh) (hr : GhRel m gh) (evs : List Ev)
    (hv : ∀ ev ∈ evs, evOk ev = true) (ms' : MacState × σ) (outs : List Out)
    (h : run g (m, rs) evs = .ok (ms', outs)) (i j : Nat) (hij : i < j) (ei ej : Ev) (oi oj : Out) (Ni Nj : Nat)
    (hi : (evs.zip outs)[i]? = some (ei, oi)) (hj : (evs.zip outs)[j]? = some (ej, oj))
    (hri : reported oi = some Ni) (hrj : reported oj = some Nj)
    (hq : ∀ k, i < k → k < j → ∀ e o, (evs.zip outs)[k]? = some (e, o) → isJoin e = false) : Ni ≠ Nj :=
  Nat.ne_of_lt (history_fcnt_down_strict g m rs gh hr evs hv ms' outs h i j hij ei ej oi oj Ni Nj hi hj hri hrj hq)

/-! non-vacuity of the history theorems: a session in which a frame is accepted in RX1, replayed
(rejected), followed by a Class C frame, an oversized frame, and a frame in RX2 -/
def lcg : Rng Nat := fun x => ((x * 1103515245 + 12345) / 65536, x * 1103515245 + 12345)

def frame (w : Nat) (N : Option Nat) (len : Nat) : RxView :=
  .data { len := len, confirmed := false, fcnt16 := w, micFcnt := N, fopts := [], fport := some 1, payload := [w] }

def demoHistory : List Ev :=
  [ .joinAbp 7 1 2,
    .uplink [1] 1 false none (some (frame 5 (some 5) 14, 0)) none 51 51,
    .uplink [2] 1 false none (some (frame 5 (some 5) 14, 0)) none 51 51,
    .rxc (frame 6 (some 6) 14) 0 51,
    .uplink [3] 1 true none (some (frame 7 (some 7) 200, 0)) (some (frame 8 (some 8) 14, 0)) 51 51,
    .uplink [4] 1 false none (some (frame 9 none 14, 0)) (some (frame 16390 (some 16390) 14, 0)) 51 51,
    .uplink [5] 1 false none (some (frame 16391 (some 81927) 14, 0)) none 51 51 ]

example : ∀ ev ∈ demoHistory, evOk ev = true := by decide
example : GhRel (MacState.init (RegionState.init .EU868) 14 0) none := ghRel_init _ _ _
example : ghRun none demoHistory = some (some 16390) := by decide
example : (run lcg (MacState.init (RegionState.init .EU868) 14 0, 1) demoHistory).toOption.map (fun r => r.2.map reported)
    = some [none, some 5, none, some 6, none, some 16390, none] := by decide +kernel

/-! non-vacuity: concrete frames around an epoch boundary -/
example : next_fcnt_down (some 0xFFFE) 0x0001 = some 0x10001 := by decide
example : next_fcnt_down (some 0x1FFFF) 0xFFFF = none := by decide
example : next_fcnt_down (some 4294967295) 5 = none := by decide
example : next_fcnt_down (some 100) 16484 = some 16484 := by decide
example : next_fcnt_down (some 100) 16485 = none := by decide

/-! ## the async front-end: acceptance iff authentic and fresh, for every script (by refinement)

`Lemmas/RefineOps.lean` (`asyncOps_refines_run`): a session of the async front-end model in which no
frame is heard between the windows — every session of a Class A device, under ANY script of radio
answers — returns exactly what `History.run` returns on the history `abstractSession` reads off the
scripts.  `history_accept_iff` therefore holds of the front-end: at every `send` / `join` of the session
a data frame heard in RX1 / RX2 is acted upon iff it fits the window and its MIC verifies under the
unique fresh counter (`AcceptTrace` over the abstracted history, whose outputs are the front-end's
answers: `ObsRel`), and the stored downlink counter of the final state is the last accepted one. -/

theorem evOk_of_rxs (e : Ev) (hv : ∀ v snr mp, e ≠ .rxc v snr mp) (h : ∀ f ∈ e.rxs, rxAll viewOk f = true) : evOk e = true := by
  have hrx : ∀ f, rxAll viewOk f = true → rxOk f = true := by
    intro f hf
    cases f with
    | none => rfl
    | some p => exact hf
  cases e with
  | uplink d p c f rx1 rx2 mp1 mp2 =>
    simp only [evOk, Bool.and_eq_true]
    exact ⟨hrx _ (h rx1 (by simp [Ev.rxs])), hrx _ (h rx2 (by simp [Ev.rxs]))⟩
  | joinOtaa f rx1 rx2 mp1 mp2 =>
    simp only [evOk, Bool.and_eq_true]
    exact ⟨hrx _ (h rx1 (by simp [Ev.rxs])), hrx _ (h rx2 (by simp [Ev.rxs]))⟩
  | rxc v snr mp => exact absurd rfl (hv v snr mp)
  | joinAbp a n k => rfl
  | setAdr on => rfl
  | setDr dr => rfl

theorem plainOf_abstractOp_not_rxc {σ} (g : Rng σ) (cfg : DevCfg) (op : AsyncOp) (m : MacState) (s : σ) :
    ∀ v snr mp, plainOf g m s (abstractOp cfg op) ≠ .rxc v snr mp := by
  intro v snr mp
  cases op with
  | send data port conf script =>
    show plainOf g m s (abstractSendC cfg script data port conf) ≠ _
    unfold abstractSendC
    split <;> (simp only [plainOf]; split <;> simp)
  | join script =>
    show plainOf g m s (abstractJoinC cfg script) ≠ _
    unfold abstractJoinC
    split <;> (simp only [plainOf]; split <;> simp)
  | abp a n k => simp [abstractOp, plainOf]
  | setAdr on => simp [abstractOp, plainOf]
  | setDr dr => simp [abstractOp, plainOf]

/-- **C05 on the async front-end, for every script** (sessions without frames heard between the
windows: every session in Class A).  The history `abstractSession` of the session satisfies the
acceptance trace predicate of `history_accept_iff` from the tracker `gh` of the start state, its
outputs are the front-end's answers call by call, and the final MAC state is the one the tracker
describes. -/
theorem async_accept_iff {σ} (g : Rng σ) (cfg : DevCfg) (d : DevRun) (rs : σ) (gh : Gh) (hr : GhRel d.m gh)
    (ops : List AsyncOp) (hp : ∀ op ∈ ops, op.plain cfg = true) (hv : ∀ op ∈ ops, op.allView viewOk = true)
    (obs : List OpObs) (d' : DevRun) (rs' : σ) (h : asyncOps g cfg d rs ops = .ok (obs, d', rs')) :
    ∃ outs, AcceptTrace gh ((abstractSession g cfg d.m rs ops).zip outs) ∧
      GhRel d'.m (ghRun gh (abstractSession g cfg d.m rs ops)) ∧
      AllRel (fun ob out => ObsRel ob { out := out }) obs outs := by
  obtain ⟨outs, hrun, hobs⟩ := asyncOps_refines_run g cfg d rs ops hp obs d' rs' h
  have hev : ∀ ev ∈ abstractSession g cfg d.m rs ops, evOk ev = true := by
    refine plainRun_all g (fun e => evOk e = true) _ ?_ _
    intro ev hev m s
    obtain ⟨op, hop, rfl⟩ := List.mem_map.mp hev
    exact evOk_of_rxs _ (plainOf_abstractOp_not_rxc g cfg op m s) (plainOf_abstractOp_rxs g cfg viewOk op (hv op hop) m s)
  obtain ⟨ht, hg⟩ := history_accept_iff g d.m rs gh hr _ hev _ outs hrun
  exact ⟨outs, ht, hg, hobs⟩

/-- the hypotheses are satisfiable: a Class A session (frames in RX1 and RX2, a radio error) -/
def demoAsyncOps : List AsyncOp :=
  [ .abp 7 1 2,
    .send [1] 1 true [.ok, .ok, .ok, .frame 3 (.data { len := 14, confirmed := false, fcnt16 := 5, micFcnt := some 5, fopts := [], fport := some 2, payload := [9] })],
    .send [2] 1 false [.ok, .ok, .ok, .frame 0 (.data { len := 14, confirmed := false, fcnt16 := 5, micFcnt := some 5, fopts := [], fport := some 2, payload := [9] }), .ok, .ok, .err] ]

example : ∀ op ∈ demoAsyncOps, op.plain { lead := 15, buffer := 40, classC := false, txMs := 57 } = true ∧ op.allView viewOk = true := by
  decide +kernel

/-! ## extended histories: Class C receptions INSIDE the receive procedure (`Model/HistoryC.lean`)

The async front-end of a Class C device hands every frame it hears on the RXC parameters between TX
and RX1 (`c1`) and between RX1 and RX2 (`c2`) to `handle_rxc` at once.  The reference tracker moves
at those receptions too (`ghNextC`, `Lemmas/GhostC.lean`): the REFERENCE procedure `refUplink`
(`Lemmas/CycleC.lean`) judges the frames of `c1`, RX1, `c2`, RX2 one after the other with the rule
`accepts` (size limit of the window it was heard in — `rxcMp`, the limit of `get_rxc_config`, for the
RXC frames — and `Spec/Freshness.lean`) under the counter it holds AT THAT POINT, and a frame accepted
on the way moves the counter for the frames after it. -/

/-- **what every event of an extended history must output**, given the reference tracker before it:
events of `Model/History.lean` as `OutOk` says; `send` + receive procedure of a device with a session
reports, delivers and lists (`heard`: one entry per frame handled, in order) EXACTLY what the reference
procedure computes from the event, the tracker's counter, the uplink's counter and the payload limits
of the windows; a join procedure is the plain `joinOtaa` it amounts to (`joinPlain`). -/
def OutOkC (gh : Gh) (e : EvL) (out : OutC) : Prop :=
  match e.2 with
  | .base ev => OutOk gh ev out.out ∧ out.heard = []
  | .uplinkC cc _ _ conf fault c1 rx1 c2 rx2 =>
    (match gh with
     | some last => ∃ so, so.frame.confirmed = conf ∧
         out = { out := .up so (upRefC cc last conf e.1 fault c1 rx1 c2 rx2 so).resp (upRefC cc last conf e.1 fault c1 rx1 c2 rx2 so).dl,
                 heard := (upRefC cc last conf e.1 fault c1 rx1 c2 rx2 so).heard }
     | none => out = { out := .notJoined })
  | .joinC cc fault c1 rx1 c2 rx2 =>
    OutOk gh (joinPlain fault rx1 rx2) out.out ∧
      out.heard = (match joinRes (joinFaultC fault rx1) rx1 rx2 with | some _ => [jsOut] | none => [])

theorem stepC_outOkC {σ} (g : Rng σ) (m m' : MacState) (rs rs' : σ) (ev : EvC) (out : OutC) (gh : Gh)
    (hr : GhRel m gh) (hv : evOkC ev = true) (h : stepC g (m, rs) ev = .ok ((m', rs'), out)) :
    OutOkC gh (rxcMp m, ev) out := by
  cases ev with
  | base e =>
    obtain ⟨hs, hh⟩ := stepC_base g _ _ e out h
    exact ⟨step_outOk g m m' rs rs' e out.out gh hr hv hs, hh⟩
  | joinC cc fault c1 rx1 c2 rx2 =>
    obtain ⟨hs, hh⟩ := stepC_joinC_plain g _ _ cc fault c1 rx1 c2 rx2 out h
    exact ⟨step_outOk g m m' rs rs' _ out.out gh hr (evOk_joinPlain hv) hs, hh⟩
  | uplinkC cc data fport conf fault c1 rx1 c2 rx2 =>
    cases gh with
    | none =>
      obtain ⟨_, _, rfl⟩ := stepC_uplinkC_notJoined g m m' rs rs' hr cc data fport conf fault c1 rx1 c2 rx2 out h
      rfl
    | some last =>
      obtain ⟨s, hst, rfl, hl⟩ := hr
      obtain ⟨so, m1, _, hfr, _, _, _, hout, _⟩ :=
        stepC_uplinkC_joined g m m' rs rs' s hst hl cc data fport conf fault c1 rx1 c2 rx2 hv out h
      exact ⟨so, by rw [hfr]; rfl, hout⟩

/-- the trace predicate of C05 over extended histories -/
def AcceptTraceC : Gh → List (EvL × OutC) → Prop := TraceDG ghNextC OutOkC

/-- the tracker after an extended trace -/
def ghAfterC : Gh → List (EvL × OutC) → Gh := ghostAfterG ghNextC

/-- **C05 over every extended history** (Class C receptions inside the receive procedure included).
From any state the tracker `gh` describes, for every random stream and every extended history whose
frames carry 16-bit wire counters: at EVERY event, every frame the procedure handles — heard on the
RXC parameters before RX1, in RX1, on the RXC parameters before RX2, in RX2 — is acted upon (reported
in `heard`, delivered, remembered: the counter under which all later frames, of this procedure and of
later events, are judged) iff it fits the limit of the window it was heard in and its MIC verifies
under the unique fresh counter; and the final state is again the one the tracker describes. -/
theorem historyC_accept_iff {σ} (g : Rng σ) (m : MacState) (rs : σ) (gh : Gh) (hr : GhRel m gh) (evs : List EvC)
    (hv : ∀ ev ∈ evs, evOkC ev = true) (ms' : MacState × σ) (outs : List OutC)
    (h : runC g (m, rs) evs = .ok (ms', outs)) :
    AcceptTraceC gh ((annotC g (m, rs) evs).zip outs) ∧ GhRel ms'.1 (ghAfterC gh ((annotC g (m, rs) evs).zip outs)) := by
  have hc := runC_chain g (m, rs) ms' evs outs h
  have hv' : ∀ x ∈ (annotC g (m, rs) evs).zip outs, evOkC x.1.2 = true := by
    intro x hx
    have h1 := (List.of_mem_zip hx).1
    unfold annotC at h1
    exact hv _ (List.of_mem_zip h1).2
  exact chainC_traceD g ghNextC OutOkC GhRel (fun ev => evOkC ev = true)
    (fun m s ev m' s' out gh hr hv hs => ⟨stepC_outOkC g m m' s s' ev out gh hr hv hs, stepC_ghRel g m m' s s' ev out gh hr hv hs⟩)
    (m, rs) ms' _ gh hr hv' hc

/-! ### the accepted counters of a session strictly increase, inside a procedure and across events -/

/-- the counter a report names as accepted -/
def rep (o : RxOut) : Option Nat :=
  match o.resp with
  | .downlinkReceived N => some N
  | _ => none

/-- the downlink counters an extended event reports as accepted, in order -/
def reportedC (e : EvC) (oc : OutC) : List Nat :=
  match e with
  | .base _ => (reported oc.out).toList
  | _ => oc.heard.filterMap rep

def isJoinC : EvC → Bool
  | .base e => isJoin e
  | .joinC _ _ _ _ _ _ => true
  | .uplinkC _ _ _ _ _ _ _ _ _ => false

/-- `ns` are the counters reported while the tracker moved from `lo` to `hi` -/
structure Climb (lo : Option Nat) (ns : List Nat) (hi : Option Nat) : Prop where
  mono : ∀ L, lo = some L → ∃ H, hi = some H ∧ L ≤ H
  bound : ∀ N ∈ ns, (∀ L, lo = some L → L < N) ∧ ∃ H, hi = some H ∧ N ≤ H
  sorted : ns.Pairwise (· < ·)

theorem Climb.refl (lo : Option Nat) : Climb lo [] lo :=
  ⟨fun L h => ⟨L, h, Nat.le_refl _⟩, fun N h => (by cases h), List.Pairwise.nil⟩

theorem Climb.trans {a b c : Option Nat} {n1 n2 : List Nat} (h1 : Climb a n1 b) (h2 : Climb b n2 c) : Climb a (n1 ++ n2) c := by
  refine ⟨?_, ?_, ?_⟩
  · intro L hL
    obtain ⟨M, hM, h⟩ := h1.mono L hL
    obtain ⟨H, hH, h'⟩ := h2.mono M hM
    exact ⟨H, hH, Nat.le_trans h h'⟩
  · intro N hN
    rcases List.mem_append.mp hN with hN | hN
    · obtain ⟨hlo, M, hM, h⟩ := h1.bound N hN
      obtain ⟨H, hH, h'⟩ := h2.mono M hM
      exact ⟨hlo, H, hH, Nat.le_trans h h'⟩
    · obtain ⟨hlo, H, hH, h⟩ := h2.bound N hN
      refine ⟨?_, H, hH, h⟩
      intro L hL
      obtain ⟨M, hM, h'⟩ := h1.mono L hL
      exact Nat.lt_of_le_of_lt h' (hlo M hM)
  · rw [List.pairwise_append]
    refine ⟨h1.sorted, h2.sorted, ?_⟩
    intro x hx y hy
    obtain ⟨_, M, hM, h⟩ := h1.bound x hx
    exact Nat.lt_of_le_of_lt h ((h2.bound y hy).1 M hM)

/-- a frame accepted under `N` when the tracker held `lo`; reported or not (exhausted uplink counter) -/
theorem Climb.acc {lo : Option Nat} {N : Nat} (h : ∀ L, lo = some L → L < N) (ns : List Nat) (hns : ns = [N] ∨ ns = []) :
    Climb lo ns (some N) := by
  refine ⟨fun L hL => ⟨N, rfl, Nat.le_of_lt (h L hL)⟩, ?_, ?_⟩
  · intro M hM
    rcases hns with rfl | rfl
    · simp only [List.mem_singleton] at hM; subst hM; exact ⟨h, M, rfl, Nat.le_refl _⟩
    · cases hM
  · rcases hns with rfl | rfl
    · exact List.pairwise_singleton _ _
    · exact List.Pairwise.nil

theorem accepts_below {last : Option Nat} {d : RxData} {mp N : Nat} (h : accepts last d mp = some N) :
    ∀ L, last = some L → L < N := by
  intro L hL; subst hL; exact accepts_gt h

theorem reps_accOut (fu N : Nat) (d : RxData) : [accOut fu N d].filterMap rep = [N] ∨ [accOut fu N d].filterMap rep = [] := by
  unfold accOut
  by_cases hx : fu = 0xFFFFFFFF
  · right; simp [hx, rep]
  · left; simp [hx, rep]

theorem reps_tmo (fu : Nat) (conf : Bool) : [({ resp := tmoResp fu conf, downlink := none } : RxOut)].filterMap rep = [] := by
  unfold tmoResp
  by_cases hx : fu = 0xFFFFFFFF
  · simp [hx, rep]
  · cases conf <;> simp [hx, rep]

theorem refRxcs_climb (mpc : Nat) (cs : List (RxView × Int)) :
    ∀ p : PSt, Climb p.last ((refRxcs p mpc cs).heard.filterMap rep) (refRxcs p mpc cs).st.last := by
  induction cs with
  | nil => intro p; exact Climb.refl _
  | cons c rest ih =>
    intro p
    obtain ⟨v, snr⟩ := c
    unfold refRxcs
    cases hs : specRxc p.last v mpc with
    | none =>
      simp only []
      have : (noUp :: (refRxcs p mpc rest).heard).filterMap rep = (refRxcs p mpc rest).heard.filterMap rep := by
        simp [List.filterMap_cons, rep, noUp]
      rw [this]
      exact ih p
    | some q =>
      obtain ⟨N, d⟩ := q
      simp only []
      have ha : accepts p.last d mpc = some N := by
        unfold specRxc at hs
        cases v with
        | garbage => cases hs
        | joinAccept j => cases hs
        | data d' =>
          simp only [Option.map_eq_some_iff, Prod.mk.injEq] at hs
          obtain ⟨_, ha, rfl, rfl⟩ := hs
          exact ha
      have e : (accOut p.fu N d :: (refRxcs ⟨some N, bumpFu p.fu⟩ mpc rest).heard).filterMap rep =
          [accOut p.fu N d].filterMap rep ++ (refRxcs ⟨some N, bumpFu p.fu⟩ mpc rest).heard.filterMap rep := by
        rw [← List.filterMap_append]; rfl
      rw [e]
      exact (Climb.acc (accepts_below ha) _ (reps_accOut p.fu N d)).trans (ih ⟨some N, bumpFu p.fu⟩)

theorem refWin_climb (cc : Bool) (p : PSt) (conf : Bool) (mpc : Nat) (cs : List (RxView × Int)) (f : Option (RxView × Int))
    (mp : Nat) (eb ea : Bool) (hf : rxOk f = true) :
    Climb p.last ((refWin cc p conf mpc cs f mp eb ea).heard.filterMap rep) (refWin cc p conf mpc cs f mp eb ea).st.last := by
  unfold refWin
  have hb : Climb p.last ((if cc then refRxcs p mpc cs else ⟨[], [], p⟩ : Ref).heard.filterMap rep)
      (if cc then refRxcs p mpc cs else ⟨[], [], p⟩ : Ref).st.last := by
    cases cc
    · exact Climb.refl _
    · exact refRxcs_climb mpc cs p
  generalize (if cc then refRxcs p mpc cs else ⟨[], [], p⟩ : Ref) = b at hb
  simp only []
  cases eb with
  | true => exact hb
  | false =>
    simp only [Bool.false_eq_true, if_false]
    cases hsw : specWindow b.st.last f mp with
    | nothing => exact hb
    | ended =>
      simp only [List.filterMap_append, reps_tmo, List.append_nil]
      exact hb
    | accepted N d snr =>
      simp only [List.filterMap_append]
      obtain ⟨_, ha, _⟩ := specWindow_accepted hf hsw
      exact hb.trans (Climb.acc (accepts_below ha) _ (reps_accOut b.st.fu N d))

theorem refCycle_climb (cc : Bool) (p : PSt) (conf : Bool) (mpc : Nat) (fault : Option FaultPos) (c1 : List (RxView × Int))
    (rx1 : Option (RxView × Int)) (c2 : List (RxView × Int)) (rx2 : Option (RxView × Int)) (mp1 mp2 : Nat)
    (hf1 : rxOk rx1 = true) (hf2 : rxOk rx2 = true) :
    Climb p.last ((refCycle cc p conf mpc fault c1 rx1 c2 rx2 mp1 mp2).heard.filterMap rep)
      (refCycle cc p conf mpc fault c1 rx1 c2 rx2 mp1 mp2).st.last := by
  unfold refCycle
  by_cases htx : fault = some .tx
  · simp only [htx, if_true]; exact Climb.refl _
  · simp only [htx, if_false]
    have h1 := refWin_climb cc p conf mpc c1 rx1 mp1 (fault == some .before1) (fault == some .close1) hf1
    generalize refWin cc p conf mpc c1 rx1 mp1 (fault == some .before1) (fault == some .close1) = w1 at h1
    cases hres1 : w1.res with
    | none => exact h1
    | some o1 =>
      cases o1 with
      | some o => exact h1
      | none =>
        simp only []
        have h2 := refWin_climb cc w1.st conf mpc c2 rx2 mp2 (fault == some .before2) (fault == some .close2) hf2
        generalize refWin cc w1.st conf mpc c2 rx2 mp2 (fault == some .before2) (fault == some .close2) = w2 at h2
        cases hres2 : w2.res with
        | none => simp only [List.filterMap_append]; exact h1.trans h2
        | some o2 => cases o2 <;> (simp only [List.filterMap_append]; exact h1.trans h2)

theorem refUplink_climb (cc : Bool) (p : PSt) (conf : Bool) (mpc : Nat) (fault : Option FaultPos) (c1 : List (RxView × Int))
    (rx1 : Option (RxView × Int)) (c2 : List (RxView × Int)) (rx2 : Option (RxView × Int)) (mp1 mp2 : Nat)
    (hf1 : rxOk rx1 = true) (hf2 : rxOk rx2 = true) :
    Climb p.last ((refUplink cc p conf mpc fault c1 rx1 c2 rx2 mp1 mp2).heard.filterMap rep)
      (refUplink cc p conf mpc fault c1 rx1 c2 rx2 mp1 mp2).st.last := by
  have h := refCycle_climb cc p conf mpc fault c1 rx1 c2 rx2 mp1 mp2 hf1 hf2
  unfold refUplink
  generalize refCycle cc p conf mpc fault c1 rx1 c2 rx2 mp1 mp2 = c at h
  simp only []
  cases hf : c.fin <;> exact h

/-- within a session an event of `Model/History.lean` that is no (re-)join keeps the tracker in it,
never moving it backwards -/
theorem ghStep_climb (last : Option Nat) (ev : Ev) (hv : evOk ev = true) (hj : isJoin ev = false) :
    ∃ last', ghStep (some last) ev = some last' ∧ Climb last [] last' := by
  cases ev with
  | joinAbp da nwk app => cases hj
  | joinOtaa fault rx1 rx2 mp1 mp2 => cases hj
  | setAdr on => exact ⟨last, rfl, Climb.refl _⟩
  | setDr dr => exact ⟨last, rfl, Climb.refl _⟩
  | rxc v snr mp =>
    simp only [ghStep, Option.map_some]
    cases hs : specRxc last v mp with
    | none => exact ⟨last, rfl, Climb.refl _⟩
    | some p =>
      obtain ⟨N, d⟩ := p
      refine ⟨some N, rfl, Climb.acc ?_ [] (Or.inr rfl)⟩
      unfold specRxc at hs
      cases v with
      | garbage => cases hs
      | joinAccept j => cases hs
      | data d' =>
        simp only [Option.map_eq_some_iff, Prod.mk.injEq] at hs
        obtain ⟨_, ha, rfl, rfl⟩ := hs
        exact accepts_below ha
  | uplink data fport conf fault rx1 rx2 mp1 mp2 =>
    simp only [evOk, Bool.and_eq_true] at hv
    simp only [ghStep, Option.map_some]
    cases hu : upRes last fault rx1 rx2 mp1 mp2 with
    | nothing => exact ⟨last, rfl, Climb.refl _⟩
    | ended => exact ⟨last, rfl, Climb.refl _⟩
    | accepted N d snr =>
      obtain ⟨mp, ha, _⟩ := upRes_accepted hv.1 hv.2 hu
      exact ⟨some N, rfl, Climb.acc (accepts_below ha) [] (Or.inr rfl)⟩

theorem ghStep_none (ev : Ev) (hj : isJoin ev = false) : ghStep none ev = none := by
  cases ev <;> first | rfl | cases hj

theorem outOk_none_reported {ev : Ev} {out : Out} (hj : isJoin ev = false) (h : OutOk none ev out) : reported out = none := by
  cases ev with
  | joinAbp da nwk app => cases hj
  | joinOtaa fault rx1 rx2 mp1 mp2 => cases hj
  | setAdr on => simp only [OutOk] at h; subst h; rfl
  | setDr dr => simp only [OutOk] at h; subst h; rfl
  | rxc v snr mp => simp only [OutOk] at h; obtain ⟨rf, rfl⟩ := h; rfl
  | uplink data fport conf fault rx1 rx2 mp1 mp2 =>
    cases fault <;> (simp only [OutOk] at h; subst h; rfl)

/-- **one event**: what it reports climbs from the tracker before it to the tracker after it -/
theorem outOkC_climb {gh : Gh} {e : EvL} {out : OutC} (hv : evOkC e.2 = true) (hj : isJoinC e.2 = false) (h : OutOkC gh e out) :
    match gh with
    | some last => ∃ last', ghNextC gh e out = some last' ∧ Climb last (reportedC e.2 out) last'
    | none => ghNextC gh e out = none ∧ reportedC e.2 out = [] := by
  obtain ⟨mpc, ev⟩ := e
  cases ev with
  | base ev =>
    simp only [OutOkC] at h
    obtain ⟨hok, _⟩ := h
    simp only [isJoinC] at hj
    simp only [evOkC] at hv
    cases gh with
    | none =>
      simp only [ghNextC, reportedC]
      exact ⟨ghStep_none ev hj, by rw [outOk_none_reported hj hok]; rfl⟩
    | some last =>
      simp only [ghNextC, reportedC]
      cases hrep : reported out.out with
      | none =>
        obtain ⟨last', h1, h2⟩ := ghStep_climb last ev hv hj
        exact ⟨last', h1, h2⟩
      | some N =>
        obtain ⟨last0, d, mp, hg, ha, hs⟩ := outOk_reported hv hok hrep
        cases hg
        exact ⟨some N, hs, Climb.acc (accepts_below ha) _ (Or.inl rfl)⟩
  | joinC cc fault c1 rx1 c2 rx2 => cases hj
  | uplinkC cc data fport conf fault c1 rx1 c2 rx2 =>
    simp only [evOkC, Bool.and_eq_true] at hv
    cases gh with
    | none =>
      simp only [OutOkC] at h
      subst h
      exact ⟨rfl, rfl⟩
    | some last =>
      simp only [OutOkC] at h
      obtain ⟨so, _, rfl⟩ := h
      simp only [ghNextC, reportedC]
      exact ⟨_, rfl, refUplink_climb cc ⟨last, so.frame.fcnt⟩ conf mpc fault c1 rx1 c2 rx2 _ _ hv.1.1.2 hv.2⟩

/-- a stretch of a session: everything reported along it climbs from the tracker before to the tracker after -/
theorem trace_climb (t : List (EvL × OutC)) (hv : ∀ x ∈ t, evOkC x.1.2 = true) (hj : ∀ x ∈ t, isJoinC x.1.2 = false) :
    ∀ gh : Gh, AcceptTraceC gh t →
      match gh with
      | some last => ∃ last', ghAfterC gh t = some last' ∧ Climb last (t.flatMap (fun x => reportedC x.1.2 x.2)) last'
      | none => ghAfterC gh t = none ∧ t.flatMap (fun x => reportedC x.1.2 x.2) = [] := by
  induction t with
  | nil =>
    intro gh _
    cases gh with
    | none => exact ⟨rfl, rfl⟩
    | some last => exact ⟨last, rfl, Climb.refl _⟩
  | cons x rest ih =>
    intro gh ht
    obtain ⟨e, out⟩ := x
    obtain ⟨hp, hrest⟩ := ht
    have h1 := outOkC_climb (hv (e, out) List.mem_cons_self) (hj (e, out) List.mem_cons_self) hp
    have ih' := ih (fun x hx => hv x (List.mem_cons_of_mem _ hx)) (fun x hx => hj x (List.mem_cons_of_mem _ hx)) (ghNextC gh e out) hrest
    simp only [List.flatMap_cons, ghAfterC, ghostAfterG]
    cases gh with
    | none =>
      simp only at h1
      rw [h1.1] at ih' ⊢
      simp only at ih'
      exact ⟨ih'.1, by rw [h1.2, ih'.2]; rfl⟩
    | some last =>
      simp only at h1
      obtain ⟨last1, hn, hc1⟩ := h1
      rw [hn] at ih' ⊢
      simp only at ih'
      obtain ⟨last', ha, hc2⟩ := ih'
      exact ⟨last', ha, hc1.trans hc2⟩

theorem traceDG_drop {G E O} (next : G → E → O → G) (P : G → E → O → Prop) (gh : G) (t : List (E × O)) (i : Nat)
    (h : TraceDG next P gh t) : TraceDG next P (ghostAfterG next gh (t.take i)) (t.drop i) := by
  induction t generalizing gh i with
  | nil => simp [TraceDG]
  | cons x rest ih =>
    obtain ⟨e0, o0⟩ := x
    cases i with
    | zero => simpa [ghostAfterG] using h
    | succ i =>
      simp only [List.take_succ_cons, ghostAfterG, List.drop_succ_cons]
      exact ih (next gh e0 o0) i h.2

theorem traceDG_take {G E O} (next : G → E → O → G) (P : G → E → O → Prop) (gh : G) (t : List (E × O)) (n : Nat)
    (h : TraceDG next P gh t) : TraceDG next P gh (t.take n) := by
  induction t generalizing gh n with
  | nil => simp [TraceDG]
  | cons x rest ih =>
    obtain ⟨e0, o0⟩ := x
    cases n with
    | zero => simp [TraceDG]
    | succ n =>
      simp only [List.take_succ_cons, TraceDG]
      exact ⟨h.1, ih _ n h.2⟩

/-- **the accepted downlink counters of one session are strictly increasing — inside a receive
procedure and across events.**  Take any stretch (`n` events from position `i`) of any extended
history that contains no (re-)join: the counters it reports as accepted (`DownlinkReceived N`: frames
heard on the RXC parameters inside a procedure, in RX1/RX2, between uplinks), listed in the order the
frames were handled, are strictly increasing.  Hence no frame is accepted twice in a session: a
replayed frame would verify under the same counter. -/
theorem historyC_fcnt_down_strict {σ} (g : Rng σ) (m : MacState) (rs : σ) (gh : Gh) (hr : GhRel m gh) (evs : List EvC)
    (hv : ∀ ev ∈ evs, evOkC ev = true) (ms' : MacState × σ) (outs : List OutC)
    (h : runC g (m, rs) evs = .ok (ms', outs)) (i n : Nat)
    (hq : ∀ x ∈ (((annotC g (m, rs) evs).zip outs).drop i).take n, isJoinC x.1.2 = false) :
    (((((annotC g (m, rs) evs).zip outs).drop i).take n).flatMap (fun x => reportedC x.1.2 x.2)).Pairwise (· < ·) := by
  have ht := (historyC_accept_iff g m rs gh hr evs hv ms' outs h).1
  have hvz : ∀ x ∈ (annotC g (m, rs) evs).zip outs, evOkC x.1.2 = true := by
    intro x hx
    have h1 := (List.of_mem_zip hx).1
    unfold annotC at h1
    exact hv _ (List.of_mem_zip h1).2
  generalize (annotC g (m, rs) evs).zip outs = t at *
  have hseg := traceDG_take ghNextC OutOkC _ _ n (traceDG_drop ghNextC OutOkC gh t i ht)
  have hvs : ∀ x ∈ (t.drop i).take n, evOkC x.1.2 = true :=
    fun x hx => hvz x (List.mem_of_mem_drop (List.mem_of_mem_take hx))
  have := trace_climb _ hvs hq _ hseg
  cases hgi : ghostAfterG ghNextC gh (t.take i) with
  | none =>
    rw [hgi] at this
    simp only at this
    rw [this.2]
    exact List.Pairwise.nil
  | some last =>
    rw [hgi] at this
    simp only at this
    obtain ⟨_, _, hc⟩ := this
    exact hc.sorted

/-- … in particular no counter — hence no frame — is accepted twice in a session -/
theorem historyC_no_replay {σ} (g : Rng σ) (m : MacState) (rs : σ) (gh : Gh) (hr : GhRel m gh) (evs : List EvC)
    (hv : ∀ ev ∈ evs, evOkC ev = true) (ms' : MacState × σ) (outs : List OutC)
    (h : runC g (m, rs) evs = .ok (ms', outs)) (i n : Nat)
    (hq : ∀ x ∈ (((annotC g (m, rs) evs).zip outs).drop i).take n, isJoinC x.1.2 = false) :
    (((((annotC g (m, rs) evs).zip outs).drop i).take n).flatMap (fun x => reportedC x.1.2 x.2)).Nodup := by
  have := historyC_fcnt_down_strict g m rs gh hr evs hv ms' outs h i n hq
  exact this.imp (fun hlt => Nat.ne_of_lt hlt)


/-- **C05 on the async front-end, for EVERY script, both classes.**  A session of the async front-end
model that returns is a run of the extended history `abstractSessionC` of its calls (`asyncOps_runC`):
the acceptance trace predicate holds of it from the tracker of the start state — every frame handled,
inside the receive procedure or in a window, acted upon iff authentic, fresh and fitting —, the outputs
are the front-end's answers call by call, the counters it reports as accepted strictly increase within
every stretch without (re-)join, and the final MAC state is the one the tracker describes. -/
theorem asyncC_accept_iff {σ} (g : Rng σ) (cfg : DevCfg) (d : DevRun) (rs : σ) (gh : Gh) (hr : GhRel d.m gh)
    (ops : List AsyncOp) (hv : ∀ op ∈ ops, op.allView viewOk = true)
    (obs : List OpObs) (d' : DevRun) (rs' : σ) (h : asyncOps g cfg d rs ops = .ok (obs, d', rs')) :
    ∃ outs, AcceptTraceC gh ((annotC g (d.m, rs) (abstractSessionC cfg ops)).zip outs) ∧
      GhRel d'.m (ghAfterC gh ((annotC g (d.m, rs) (abstractSessionC cfg ops)).zip outs)) ∧
      AllRel ObsRel obs outs ∧
      ∀ i n, (∀ x ∈ (((annotC g (d.m, rs) (abstractSessionC cfg ops)).zip outs).drop i).take n, isJoinC x.1.2 = false) →
        (((((annotC g (d.m, rs) (abstractSessionC cfg ops)).zip outs).drop i).take n).flatMap
          (fun x => reportedC x.1.2 x.2)).Pairwise (· < ·) := by
  obtain ⟨outs, hrun, hobs⟩ := asyncOps_runC g cfg d rs ops obs d' rs' h
  have hev := abstractOps_evOkC cfg ops hv
  obtain ⟨ht, hg⟩ := historyC_accept_iff g d.m rs gh hr _ hev _ outs hrun
  exact ⟨outs, ht, hg, hobs, fun i n hq => historyC_fcnt_down_strict g d.m rs gh hr _ hev _ outs hrun i n hq⟩

/-! non-vacuity of the extended theorems: a Class C session — a frame accepted on the RXC parameters
between TX and RX1, its replay right after it (rejected), the next counter in RX1; then a frame
accepted between RX1 and RX2 and its replay in RX2 (rejected: the procedure times out) -/
def demoHistoryC : List EvC :=
  [ .base (.joinAbp 7 1 2),
    .uplinkC true [1] 1 false none [(frame 5 (some 5) 14, 0), (frame 5 (some 5) 14, 0)] (some (frame 6 (some 6) 14, 0)) [] none,
    .uplinkC true [2] 1 true none [] none [(frame 7 (some 7) 14, 0)] (some (frame 7 (some 7) 14, 0)),
    .base (.rxc (frame 7 (some 7) 14) 0 51) ]

example : ∀ ev ∈ demoHistoryC, evOkC ev = true := by decide
example : ∀ ev ∈ demoHistoryC.drop 1, isJoinC ev = false := by decide
example : (runC lcg (MacState.init (RegionState.init .EU868) 14 0, 1) demoHistoryC).toOption.map
      (fun r => (r.2.map (fun o => o.heard.filterMap rep), r.2.map (fun o => reported o.out))) =
    some ([[], [5, 6], [7], []], [none, some 6, none, none]) := by decide +kernel
example : (runC lcg (MacState.init (RegionState.init .EU868) 14 0, 1) demoHistoryC).toOption.map
      (fun r => ghAfterC none ((annotC lcg (MacState.init (RegionState.init .EU868) 14 0, 1) demoHistoryC).zip r.2)) =
    some (some (some 7)) := by decide +kernel

/-- the hypotheses of `asyncC_accept_iff` are satisfiable: a Class C session with a frame heard between TX and RX1 -/
def demoAsyncOpsC : List AsyncOp :=
  [ .abp 7 1 2,
    .send [1] 1 false [.ok, .ok, .frame 3 (.data { len := 14, confirmed := false, fcnt16 := 5, micFcnt := some 5, fopts := [], fport := some 2, payload := [9] }), .ok] ]

example : ∀ op ∈ demoAsyncOpsC, op.allView viewOk = true := by decide
example : (abstractSessionC { lead := 15, buffer := 40, classC := true, txMs := 57 } demoAsyncOpsC).map EvC.plain = [true, false] := by
  decide +kernel

end C05

#print axioms C05.async_accept_iff
#print axioms C05.next_eq_spec
#print axioms C05.next_spec
#print axioms C05.next_unique
#print axioms C05.next_none_iff
#print axioms C05.rejected_keeps_counter
#print axioms C05.accepted_advances
#print axioms C05.no_frame_accepted_twice
#print axioms C05.step_outOk
#print axioms C05.history_accept_iff
#print axioms C05.history_accept_iff_init
#print axioms C05.history_fcnt_down_strict
#print axioms C05.history_no_replay
#print axioms C05.stepC_outOkC
#print axioms C05.historyC_accept_iff
#print axioms C05.historyC_fcnt_down_strict
#print axioms C05.historyC_no_replay
#print axioms C05.asyncC_accept_iff

/-! ## `Device::rxc_listen` (builder Q)

One call of `rxc_listen` under a script of radio answers (`Model.asyncListen`), judged by the REFERENCE:
`firstAccepted last mp heard` is the first frame heard that `Spec/Freshness.lean` accepts — a data frame that
fits the RXC size limit `mp` computed at the start of the call (`rxcMp` = `get_rxc_config().max_payload_len`
of the state the call starts in) and whose MIC verifies under the unique counter fresh after `last`.  The
frames before it change nothing, so "the counter held when it is heard" is `last` for every frame up to
and including the first accepted one; nothing after it is heard by this call. -/
namespace C05

theorem pushDl_eq_queueAfter (cap : Nat) (q : List (Nat × List Nat)) (o : RxOut) :
    pushDl cap q o = queueAfter cap q o.downlink := by
  unfold pushDl queueAfter
  cases o.downlink <;> rfl

/-- **C05 for `rxc_listen`, every script.**  From a state the tracker `gh` describes, for every script whose
frames have 16-bit wire counters, a call that returns:
* device with a session (`gh = some last`): answers `DownlinkReceived N` — or `SessionExpired` at the
  exhausted uplink counter, then without delivering — IFF some frame heard is authentic, fresh and fits;
  it is then the FIRST such frame (`firstAccepted`, `firstAccepted_some`: the `k` frames before it are not
  accepted), `N` is remembered (the tracker of the final state is `some N`), the payload is delivered to
  the downlink queue, the frames after it stay in the script (unheard); otherwise it answers `Listening`
  / `Err(Radio)` (as the radio ended the listening) with MAC state and queue unchanged;
* device without a session (`gh = none`): `Err(Mac)` iff a frame was heard; nothing changes either way. -/
theorem async_listen_accept_iff (r : DevRun) (gh : Gh) (hr : GhRel r.m gh)
    (hv : r.script.all (ScriptItem.allView viewOk) = true) (res : ListenResult) (r' : DevRun)
    (h : asyncListen r = .ok (res, r')) :
    match gh with
    | none =>
      r'.m = r.m ∧ r'.downlinks = r.downlinks ∧
        res = (if (leadFrames r.script).1.isEmpty then (if listenEndsErr r.script then .errRadio else .listening) else .errMac)
    | some last =>
      match firstAccepted last (rxcMp r.m) (leadFrames r.script).1 with
      | none =>
        r'.m = r.m ∧ r'.downlinks = r.downlinks ∧ res = (if listenEndsErr r.script then .errRadio else .listening)
      | some (k, N, d) =>
        GhRel r'.m (some (some N)) ∧ r'.script = r.script.drop (k + 1) ∧
          ((r.m.fcntUp? ≠ some 0xFFFFFFFF ∧ res = .ok (.downlinkReceived N) ∧
              r'.downlinks = queueAfter r.dlCap r.downlinks (deliver d))
           ∨ (r.m.fcntUp? = some 0xFFFFFFFF ∧ res = .ok .sessionExpired ∧ r'.downlinks = r.downlinks)) := by
  unfold asyncListen at h
  obtain ⟨rf, hrf, h⟩ := Except.bind_eq_ok h
  cases gh with
  | none => exact listenLoop_notJoined _ _ r hr res r' h
  | some last =>
    obtain ⟨s, hst, rfl, hl⟩ := hr
    obtain ⟨res0, r0, h0, hnf⟩ := listenLoop_joined rf.maxPayload.toNat (r.script.length + 1) r s hst hl hv (Nat.lt_succ_self _)
    rw [h0] at h
    simp only [Except.ok.injEq, Prod.mk.injEq] at h
    obtain ⟨rfl, rfl⟩ := h
    unfold ListenNF at hnf
    rw [rxcMp_of_ok hrf] at hnf
    simp only []
    cases hfa : firstAccepted s.fcntDown (rxcMp r.m) (leadFrames r.script).1 with
    | none =>
      simp only [hfa] at hnf ⊢
      exact ⟨hnf.1, hnf.2.1, hnf.2.2.1⟩
    | some x =>
      obtain ⟨k, N, d⟩ := x
      simp only [hfa] at hnf ⊢
      obtain ⟨hm, hd, hres, hsc⟩ := hnf
      obtain ⟨⟨snr, hk⟩, hacc, _⟩ := firstAccepted_some hfa
      have hw : d.fcnt16 < 65536 := by
        have hall := leadFrames_cs_all viewOk hv
        have hmem : ((RxView.data d, snr) : RxView × Int) ∈ (leadFrames r.script).1 := List.mem_of_getElem? hk
        have := List.all_eq_true.mp hall _ hmem
        simpa [viewOk] using this
      refine ⟨by rw [hm]; exact ghRel_accept (lastOk_accepts hw hacc), hsc, ?_⟩
      have hfu : r.m.fcntUp? = some s.fcntUp := by simp [MacState.fcntUp?, hst]
      rcases acceptOut_resp s d N (rxcCtx r.m s) with ⟨he, hne⟩ | ⟨he, heq⟩
      · left
        refine ⟨by rw [hfu]; simpa using hne, by rw [hres, he], ?_⟩
        rw [hd, pushDl_eq_queueAfter, he]
      · right
        refine ⟨by rw [hfu, heq], by rw [hres, he], ?_⟩
        rw [hd, pushDl_eq_queueAfter, he]
        rfl

/-- the "iff" read off `async_listen_accept_iff`: a device with a session answers `Ok(..)` exactly when
some frame heard is accepted by the reference under the counter held at the start of the call -/
theorem async_listen_acts_iff (r : DevRun) (last : Option Nat) (hr : GhRel r.m (some last))
    (hv : r.script.all (ScriptItem.allView viewOk) = true) (res : ListenResult) (r' : DevRun)
    (h : asyncListen r = .ok (res, r')) :
    (∃ resp, res = .ok resp) ↔ ∃ c ∈ (leadFrames r.script).1, (specRxc last c.1 (rxcMp r.m)).isSome = true := by
  have hmain := async_listen_accept_iff r (some last) hr hv res r' h
  simp only [] at hmain
  cases hfa : firstAccepted last (rxcMp r.m) (leadFrames r.script).1 with
  | none =>
    simp only [hfa] at hmain
    have hnone := firstAccepted_none hfa
    constructor
    · rintro ⟨resp, rfl⟩
      have := hmain.2.2
      split at this <;> cases this
    · rintro ⟨c, hc, hs⟩
      rw [hnone c hc] at hs
      cases hs
  | some x =>
    obtain ⟨k, N, d⟩ := x
    simp only [hfa] at hmain
    obtain ⟨⟨snr, hk⟩, hacc, _⟩ := firstAccepted_some hfa
    constructor
    · intro _
      exact ⟨(.data d, snr), List.mem_of_getElem? hk, by simp [specRxc, hacc]⟩
    · intro _
      rcases hmain.2.2 with ⟨_, hres, _⟩ | ⟨_, hres, _⟩ <;> exact ⟨_, hres⟩

/-- **C05 for whole sessions with listen calls, every script, both classes.**  A session of sends, joins,
setters and `rxc_listen` calls that returns is a run of the extended history `abstractCalls` of its
calls (`asyncCalls_runC`; a listen call = its Class C receptions `Ev.rxc`): the acceptance trace predicate
of `historyC_accept_iff` holds of it from the tracker of the start state — every frame handled, in a
window, inside a receive procedure or by `rxc_listen`, acted upon iff authentic, fresh and fitting —, the
outputs are the front-end's answers call by call (`SessObs`), the counters reported as accepted strictly
increase within every stretch without (re-)join, and the final MAC state is the one the tracker describes. -/
theorem asyncCallsC_accept_iff {σ} (g : Rng σ) (cfg : DevCfg) (d : DevRun) (rs : σ) (gh : Gh) (hr : GhRel d.m gh)
    (calls : List AsyncCall) (hv : ∀ c ∈ calls, c.allView viewOk = true)
    (obs : List CallObs) (d' : DevRun) (rs' : σ) (h : asyncCalls g cfg d rs calls = .ok (obs, d', rs')) :
    ∃ outs, AcceptTraceC gh ((annotC g (d.m, rs) (abstractCalls g cfg (d.m, rs) calls)).zip outs) ∧
      GhRel d'.m (ghAfterC gh ((annotC g (d.m, rs) (abstractCalls g cfg (d.m, rs) calls)).zip outs)) ∧
      SessObs calls obs outs ∧
      ∀ i n, (∀ x ∈ (((annotC g (d.m, rs) (abstractCalls g cfg (d.m, rs) calls)).zip outs).drop i).take n, isJoinC x.1.2 = false) →
        (((((annotC g (d.m, rs) (abstractCalls g cfg (d.m, rs) calls)).zip outs).drop i).take n).flatMap
          (fun x => reportedC x.1.2 x.2)).Pairwise (· < ·) := by
  obtain ⟨outs, hrun, hobs⟩ := asyncCalls_runC g cfg d rs calls obs d' rs' h
  have hev := abstractCalls_evOkC g cfg (d.m, rs) calls hv
  obtain ⟨ht, hg⟩ := historyC_accept_iff g d.m rs gh hr _ hev _ outs hrun
  exact ⟨outs, ht, hg, hobs, fun i n hq => historyC_fcnt_down_strict g d.m rs gh hr _ hev _ outs hrun i n hq⟩

/-! non-vacuity: a forged frame, a replay, a frame too far ahead, then the authentic fresh one (acted upon,
the frame after it unheard); and the same device hearing only rejected frames until the radio fails -/

def listenStart : DevRun :=
  { m := { (macJoinAbp (MacState.init (RegionState.init .EU868) 14 0) 7 1 2) with
      st := .joined { Session.new 7 1 2 with fcntDown := some 10, fcntUp := 3 } },
    script := [.frame 0 (frame 11 none 14), .frame 0 (frame 10 (some 10) 14), .frame 0 (frame 20000 (some 20000) 14),
               .frame 1 (frame 12 (some 12) 14), .frame 0 (frame 13 (some 13) 14)],
    calls := [], downlinks := [] }

example : GhRel listenStart.m (some (some 10)) := ⟨_, rfl, rfl, by intro l hl; cases hl; decide⟩
example : listenStart.script.all (ScriptItem.allView viewOk) = true := by decide
example : (firstAccepted (some 10) (rxcMp listenStart.m) (leadFrames listenStart.script).1).map (fun x => (x.1, x.2.1)) = some (3, 12) := by
  decide +kernel
example : (asyncListen listenStart).toOption.map (fun x => (x.1, x.2.m.fcntUp?, x.2.script.length)) =
    some (.ok (.downlinkReceived 12), some 4, 1) := by decide +kernel
example : (asyncListen { listenStart with script := [.frame 0 (frame 11 none 14), .frame 0 (frame 10 (some 10) 14), .err] }).toOption.map
    (fun x => (x.1, x.2.m.fcntUp?)) = some (.errRadio, some 3) := by decide +kernel

end C05

#print axioms C05.async_listen_accept_iff
#print axioms C05.async_listen_acts_iff
#print axioms C05.asyncCallsC_accept_iff
