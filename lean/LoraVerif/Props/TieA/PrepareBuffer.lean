import LoraVerif.Props.TieA.StateBridge
import LoraVerif.Props.TieA.Tactics
import LoraVerif.Gen.SessionTx
/-!
# Tie A for a whole stateful method: the header computation of `Session::prepare_buffer` (C12 / C06)

`Gen/SessionTx.lean` holds the state-passing translation of the CURRENT source of
`Session::prepare_buffer(&mut self, data, tx_buffer, configuration, region) -> FcntUp` with the helper
methods of `Uplink` it calls.  Abstract in the translation: frame encryption and MIC
(`DataFrame::build_into` is the parameter `codec`), the radio buffer (`TxBufOps`: `clear`,
`extend_from_slice`), `next_lower_datarate` (instantiated with the model's) and the iterator pipeline
of `clear_mac_commands(true)` (hypothesis `hret`: it retains the sticky answers; its variant list is
`C08.tieA_isSticky`).

`tieA_prepare_buffer_header`: for EVERY codec and buffer implementation, the generated method hands
exactly one `DataFrame` `f` to the codec (under the session's NwkSKey / AppSKey), and the model's
`prepareBuffer` on the corresponding model state yields exactly the description of `f` (`descOf f`:
confirmed flag, DevAddr, ADR, ADRACKReq, ACK, FCnt used, FOpts vs port-0 placement of the pending
answers, FPort, payload) and the corresponding new session (owed ACK cleared, `confirmed` stored,
pending answers reduced to the sticky ones, counters untouched); the model's two length panics are
stated on the length of `f`, the port-0-with-data panic is a panic of both.
-/
set_option linter.unusedSimpArgs false
set_option linter.unusedVariables false
namespace TieA.Tx
open Model Gen.Region

def natsOf (l : List Int) : List Nat := l.map Int.toNat

def cfgOf (g : Gen.SessionTx.Configuration) : Config :=
  { dataRate := g.data_rate.toInt.toNat, rx1Delay := g.rx1_delay.toNat, txPower := g.tx_power.map Int.toNat,
    rx1DrOffset := g.rx1_dr_offset.toNat, rx2DataRate := g.rx2_data_rate.map (fun d => d.toInt.toNat),
    rx2Frequency := g.rx2_frequency.map Int.toNat, adrEnabled := g.adr_enabled }

/-- the model session a generated `Session` stands for — every field -/
def sessOf (g : Gen.SessionTx.Session) : Session :=
  { pending := natsOf g.uplink.pending, ackOwed := g.uplink.confirmed, confirmed := g.confirmed,
    devAddr := g.devaddr.id.toNat, fcntUp := g.fcnt_up.toNat, fcntDown := g.fcnt_down.map Int.toNat,
    adrAckCnt := g.adr_ack_cnt.toNat, nwkKey := g.nwkskey.inner.id.toNat, appKey := g.appskey.inner.id.toNat }

def regionOf (r : RegionId) : Gen.SessionTx.RegionCfg :=
  ⟨fun dr => (nextLowerDatarate r dr.toInt.toNat).map drOfNatT⟩

/-- the model's description of the frame handed to the codec -/
def descOf (f : Gen.SessionTx.DataFrame) : UplinkDesc :=
  { confirmed := f.frame_type == .ConfirmedUp, devAddr := f.dev_addr.id.toNat, adr := f.adr, adrAckReq := f.adr_ack_req,
    ack := f.ack, fcnt := f.fcnt.toNat, fopts := natsOf f.f_opts,
    fport := match f.payload with | .Data p _ => p.toNat | _ => 0,
    payload := match f.payload with | .Data _ d => natsOf d | .MacCommands c => natsOf c | .None => [] }

/-- MHDR + FHDR (7 + FOpts) + FPort + FRMPayload + MIC, as the model counts it -/
def frameLen (f : Gen.SessionTx.DataFrame) : Nat :=
  1 + 7 + f.f_opts.length + 1 + (match f.payload with | .Data _ d => d.length | .MacCommands c => c.length | .None => 0) + 4

theorem pipe_eq {α γ : Type} (x : Option Unit × γ) (k : γ → α) :
    (x.1.bind fun _ => some x.2).bind (fun t => some (k t)) = x.1.map (fun _ => k x.2) := by
  obtain ⟨a, b⟩ := x
  cases a <;> rfl

set_option hygiene false in
/-- closes the pipeline part: whatever the codec and the buffer (of type `β`) answer -/
macro "tx_close" : tactic =>
  `(tactic| (generalize Gen.SessionTx.FrameCodec.build_into _ _ _ _ _ = cb
             cases cb with
             | none => rfl
             | some pkt =>
               simp only [Option.bind_some]
               generalize Gen.SessionTx.TxBufOps.extend_from_slice (β := β) _ pkt = eo
               obtain ⟨a, b⟩ := eo
               cases a <;> rfl))

theorem tieA_prepare_buffer_header {β : Type} [Gen.SessionTx.TxBufOps β] (codec : Gen.SessionTx.FrameCodec)
    (gs : Gen.SessionTx.Session) (d : Gen.SessionTx.SendData) (tx : β) (g : Gen.SessionTx.Configuration) (r : RegionId)
    (hp : 0 ≤ d.fport)
    (hret : ∀ p, natsOf (Gen.SessionTx.retained_pipeline p []) = retainSticky (p.length + 1) (natsOf p)) :
    if d.fport = 0 ∧ d.data ≠ [] then
      Gen.SessionTx.Session.prepare_buffer codec gs d tx g (regionOf r) = none ∧
      prepareBuffer (sessOf gs) (cfgOf g) r (natsOf d.data) d.fport.toNat d.confirmed
        = panic "Data payload with fport 0 not allowed"
    else ∃ (f : Gen.SessionTx.DataFrame) (gs' : Gen.SessionTx.Session),
      Gen.SessionTx.Session.prepare_buffer codec gs d tx g (regionOf r)
        = (codec.build_into f (List.replicate 256 0) ⟨gs.nwkskey.inner⟩ (some ⟨gs.appskey.inner⟩)).bind (fun pkt =>
            let o := Gen.SessionTx.TxBufOps.extend_from_slice (Gen.SessionTx.TxBufOps.clear (Gen.SessionTx.TxBufOps.clear tx)) pkt
            o.1.map (fun _ => (gs.fcnt_up, gs', o.2)))
      ∧ f.f_pending = false
      ∧ f.frame_type = (if d.confirmed then .ConfirmedUp else .UnconfirmedUp)
      ∧ prepareBuffer (sessOf gs) (cfgOf g) r (natsOf d.data) d.fport.toNat d.confirmed
          = (if frameLen f > 256 then panic "Error assembling packet: BufferTooShort"
             else if frameLen f ≥ 256 then panic "tx_buffer.extend_from_slice unwrap"
             else .ok (descOf f, sessOf gs')) := by
  obtain ⟨⟨pend, ackO⟩, conf, nwk, app, da, fu, fd, cnt⟩ := gs
  obtain ⟨dat, fport, dconf⟩ := d
  obtain ⟨dr, d1, j1, j2, tp, off, r2d, r2f, adr⟩ := g
  simp only at hp
  have hlim : Gen.Session.ADR_ACK_LIMIT.toNat = 64 := by decide
  have hlim' : Rt.wrap .u32 Gen.SessionTx.ADR_ACK_LIMIT = 64 := by decide
  have hcnt : (cnt ≥ 64) = (cnt.toNat ≥ 64) := by apply propext; omega
  have hnil : ∀ l : List Int, (natsOf l).isEmpty = l.isEmpty := by intro l; cases l <;> rfl
  have hlen : ∀ l : List Int, (natsOf l).length = l.length := by intro l; simp [natsOf]
  unfold Gen.SessionTx.Session.prepare_buffer
  gen_unfold_helpers_SessionTx
  simp only [show Int.toNat 256 = 256 from rfl]
  generalize List.replicate 256 (0 : Int) = buf
  by_cases h0 : fport = 0
  · subst h0
    by_cases hd : dat = []
    · subst hd
      rw [if_neg (by simp)]
      refine ⟨⟨if dconf then .ConfirmedUp else .UnconfirmedUp, da, adr,
          (adr && decide (cnt ≥ 64)) && (nextLowerDatarate r dr.toInt.toNat).isSome, ackO, false, fu, [], .MacCommands pend⟩,
        ⟨⟨Gen.SessionTx.retained_pipeline pend [], false⟩, dconf, nwk, app, da, fu, fd, cnt⟩, ?_, rfl, rfl, ?_⟩
      · simp only [Gen.SessionTx.next_lower_datarate, regionOf, hlim', Option.isSome_map, ge_iff_le]
        generalize (nextLowerDatarate r dr.toInt.toNat).isSome = lo
        by_cases hl : (64 : Int) ≤ cnt <;> cases ackO <;> cases dconf <;> cases adr <;> cases lo <;>
          simp [hl, Option.bind_eq_bind, Gen.SessionTx.DefaultCrypto.new] <;> tx_close
      · simp only [prepareBuffer, sessOf, cfgOf, hlim, hcnt, natsOf, List.map_nil, frameLen, descOf, List.length_nil,
          List.length_map]
        have := hret pend
        simp only [natsOf] at this
        cases ackO <;> cases dconf <;> cases adr <;> simp [this, pure, Except.pure, bind, Except.bind] <;>
          (repeat' split) <;> simp_all <;> omega
    · rw [if_pos ⟨rfl, hd⟩]
      refine ⟨?_, ?_⟩
      · cases ackO <;> cases dat <;> simp_all [Option.bind_eq_bind]
      · cases dat with
        | nil => exact absurd rfl hd
        | cons a t => simp [prepareBuffer, natsOf, pure, Except.pure, bind, Except.bind]
  · rw [if_neg (by intro h; exact h0 h.1)]
    have hne : ¬ fport.toNat = 0 := by omega
    refine ⟨⟨if dconf then .ConfirmedUp else .UnconfirmedUp, da, adr,
        (adr && decide (cnt ≥ 64)) && (nextLowerDatarate r dr.toInt.toNat).isSome, ackO, false, fu, pend, .Data fport dat⟩,
      ⟨⟨Gen.SessionTx.retained_pipeline pend [], false⟩, dconf, nwk, app, da, fu, fd, cnt⟩, ?_, rfl, rfl, ?_⟩
    · simp only [Gen.SessionTx.next_lower_datarate, regionOf, hlim', Option.isSome_map, ge_iff_le]
      generalize (nextLowerDatarate r dr.toInt.toNat).isSome = lo
      by_cases hl : (64 : Int) ≤ cnt <;> cases ackO <;> cases dconf <;> cases adr <;> cases lo <;>
        simp [hl, Option.bind_eq_bind, h0, Gen.SessionTx.DefaultCrypto.new] <;> tx_close
    · have := hret pend
      simp only [natsOf] at this
      simp only [prepareBuffer, sessOf, cfgOf, hlim, hcnt, natsOf, frameLen, descOf, List.length_map]
      cases ackO <;> cases dconf <;> cases adr <;> simp [this, hne, pure, Except.pure, bind, Except.bind] <;>
        (repeat' split) <;> simp_all <;> omega

#print axioms tieA_prepare_buffer_header
end TieA.Tx
