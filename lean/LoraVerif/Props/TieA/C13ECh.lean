import LoraVerif.Props.TieA.C13Sx127
import LoraVerif.Props.C17
import LoraVerif.Gen.PhyEncE1276Ch
/-!
# C13, tie A (builder E): SX127x `set_channel`
-/
open Model.Phy TieA.Phy Gen.PhyCodes127

namespace C13

/-- `Sx127x::set_channel` (with `freq_to_pll_step` of `Gen.PhyArith`, closed form `C17.pll127_closed`), regenerated, IS the
model's `setChannel`: the PLL word rounded to nearest, its bits 23..16 / 15..8 / 7..0 written to RegFrfMsb / Mid / Lsb in this
order — EVERY `u32` frequency, chip content and prefix. -/
theorem tieA_sx127x_set_channel (self : Gen.PhyEncE1276Ch.Sx127x) (f : Nat) (hf : f ≤ 4294967295) (c : Chip) (log : List Rt.Phy.Ev) :
    view id (Gen.PhyEncE1276Ch.Sx127x.set_channel self (f : Int) chipDev c log) = denote (Sx127x.setChannel f) c log := by
  have hg := C17.pll127_closed (f : Int) (by omega) (by omega)
  have e : ((f : Int) * 524288 + 16000000) / 32000000 = (((f * 524288 + 16000000) / 32000000 : Nat) : Int) := by omega
  have hm : Sx127x.freqToPllStep f = (f * 524288 + 16000000) / 32000000 := by
    unfold Sx127x.freqToPllStep; omega
  rw [e] at hg
  have hp : (f * 524288 + 16000000) / 32000000 < 4294967296 := by omega
  generalize (f * 524288 + 16000000) / 32000000 = p at hg hm hp
  simp only [Gen.PhyEncE1276Ch.Sx127x.set_channel, Sx127x.setChannel, hg, hm]
  try gen_unfold_helpers_PhyEncE1276Ch
  have e1 : Rt.andI (p : Int) 0x00FF0000 / 65536 = ((p : Int) / 65536) % 256 := Rt.andI_ff0000_shr (by omega)
  have e2 : Rt.andI (p : Int) 0x0000FF00 / 256 = ((p : Int) / 256) % 256 := Rt.andI_00ff00_shr (by omega)
  have e3 : Rt.andI (p : Int) 0xFF = (p : Int) % 256 := Rt.andI_255 (by omega)
  have n1 : ((p : Int) / 65536) % 256 = ((p / 65536 % 256 : Nat) : Int) := by omega
  have n2 : ((p : Int) / 256) % 256 = ((p / 256 % 256 : Nat) : Int) := by omega
  have n3 : (p : Int) % 256 = ((p % 256 : Nat) : Int) := by omega
  have w8 : ∀ x : Nat, x < 256 → Rt.wrap .u8 (x : Int) = (x : Int) := by
    intro x hx; simp only [Rt.wrap, Rt.ITy.bits, Rt.ITy.signed, Bool.false_eq_true, if_false]; omega
  have ha : p / 65536 % 256 < 256 := by omega
  have hb : p / 256 % 256 < 256 := by omega
  have hd : p % 256 < 256 := by omega
  have w1 := w8 _ ha
  have w2 := w8 _ hb
  have w3 := w8 _ hd
  simp +decide only [Rt.shrC, Rt.ITy.bits, Int.reducePow, Int.reduceToNat, Nat.reducePow, if_true, e1, e2, e3, n1, n2, n3, w1, w2, w3,
    ofOpt_some_bind_app, bind_assoc_app]
  generalize p / 65536 % 256 = a at ha ⊢
  generalize p / 256 % 256 = b at hb ⊢
  generalize p % 256 = d at hd ⊢
  simp only [Sx127x.writeRegister, bind_assoc_app, write_bind_app, write_app, chipDev_fst, chipDev_snd,
    Model.Phy.pure_eq_ret, Model.Phy.bind_eq, prog_bind_assoc, denote_intfWrite_bind, denote_intfWrite, view, Bool.false_eq_true, if_false,
    toBytes_cons, toInts_cons, toBytes_nil, toInts_nil, byte_natCast, id, ofOpt_some_bind_app, w8 a ha, w8 b hb, w8 d hd]
  have r1 : byte Register.RegFrfMsb.write_addr = Sx127x.wr Register.RegFrfMsb := by first | rfl | decide
  have r2 : byte Register.RegFrfMid.write_addr = Sx127x.wr Register.RegFrfMid := by first | rfl | decide
  have r3 : byte Register.RegFrfLsb.write_addr = Sx127x.wr Register.RegFrfLsb := by first | rfl | decide
  have s1 : (((Sx127x.wr Register.RegFrfMsb).toNat : Nat) : Int) = Register.RegFrfMsb.write_addr := by first | rfl | decide
  have s2 : (((Sx127x.wr Register.RegFrfMid).toNat : Nat) : Int) = Register.RegFrfMid.write_addr := by first | rfl | decide
  have s3 : (((Sx127x.wr Register.RegFrfLsb).toNat : Nat) : Int) = Register.RegFrfLsb.write_addr := by first | rfl | decide
  simp only [r1, r2, r3, s1, s2, s3, UInt8.toNat_ofNat', Nat.reducePow, Nat.mod_eq_of_lt ha, Nat.mod_eq_of_lt hb, Nat.mod_eq_of_lt hd]

#print axioms tieA_sx127x_set_channel

/-- non-vacuity: 868.1 MHz -> Frf 0xD90666: RegFrfMsb/Mid/Lsb := D9 06 66 -/
example : Gen.PhyEncE1276Ch.Sx127x.set_channel ⟨⟨⟨⟩, false, true, false⟩, ⟨false⟩⟩ 868100000
    (fun (_ : Unit) _ n => (List.replicate n 0, ())) () [] =
    some (.ok (), (), [.spi [0x86, 0xD9] 0, .busy, .spi [0x87, 0x06] 0, .busy, .spi [0x88, 0x66] 0, .busy]) := rfl

end C13
