import LoraVerif.Props.TieA.Basic
import LoraVerif.Gen.RegionPayload
/-!
# Tie A: `Configuration::get_max_payload_length` through `region_static_dispatch!` (builder H)

The hand model has no function for the application-visible payload limit; its content is stated here in terms of
the model's `getDatarate` (the region → table mapping of `Model/Region.lean`): the entry's size (with or without
dwell time), capped at 230 for repeater compatibility, 0 for an undefined data rate.  The regenerated function is
`region_static_dispatch!` expanded with its own rules, each arm followed through the plan type's inherent function
to the region type and the default body of `ChannelRegion::get_max_payload_length` over that type's `datarates()`.
-/
namespace C05
open Model TieA

/-- what `get_max_payload_length` must answer, over the model's data-rate tables -/
def maxPayloadLength (r : RegionId) (dr : Nat) (repeater dwell : Bool) : Int :=
  match getDatarate r dr with
  | none => 0
  | some d =>
    let m := if dwell then d.max_mac_payload_size_with_dwell_time else d.max_mac_payload_size
    if repeater && decide (m > 230) then 230 else m

/-- `Configuration::get_max_payload_length` (regenerated through the macro) = `maxPayloadLength`, for every region,
data rate, repeater flag and dwell-time flag -/
theorem tieA_region_max_payload_length (r : RegionId) (dr : Gen.Region.DR) (repeater dwell : Bool) :
    Gen.RegionPayload.Configuration.get_max_payload_length (toGen r) dr repeater dwell =
      maxPayloadLength r dr.toInt.toNat repeater dwell := by
  cases r <;> cases dr <;> cases repeater <;> cases dwell <;> rfl

example : Gen.RegionPayload.Configuration.get_max_payload_length .EU868 ._5 true false = 230 ∧
    Gen.RegionPayload.Configuration.get_max_payload_length .EU868 ._5 false false = 250 ∧
    Gen.RegionPayload.Configuration.get_max_payload_length .AU915 ._2 false true = 19 ∧
    Gen.RegionPayload.Configuration.get_max_payload_length .US915 ._7 false false = 0 := by decide

#print axioms tieA_region_max_payload_length
end C05
