import LoraVerif.Props.TieA.Basic
import LoraVerif.Props.TieA.Band
/-!
# C09, tie A: the static regional parameters of the hand model equal the REGENERATED ones

`Model/Region.lean` carries band limits, join-channel counts, uplink data-rate limits, the 500 kHz
join data rate, the default channels and the default channel mask as hand-copied constants.  Here
each of them is proved equal, for all arguments, to the item `tools/translate` regenerates from the
current source (`Gen/RegionStatic.lean`: found by following `State::new` → plan type → region type
→ trait impls), so that a changed constant in the Rust source breaks a named theorem.
-/
namespace C09
open Model TieA Gen.Region

/-- the hand model knows exactly the regions of `pub enum Region`, under the same names -/
theorem tieA_regions :
    RegionId.all.map toGen = Gen.RegionStatic.Region.all ∧ ∀ r : RegionId, (toGen r).name = r.name := by
  refine ⟨by decide, fun r => ?_⟩
  cases r <;> rfl

/-- which regions have a fixed channel plan: the kind of the plan type in `State::new`, and what
`RegionHandler::has_fixed_channel_plan` answers -/
theorem tieA_isFixed (r : RegionId) :
    r.isFixed = Gen.RegionStatic.plan_is_fixed (toGen r) ∧
    r.isFixed = Gen.RegionStatic.has_fixed_channel_plan (toGen r) := by
  cases r <;> exact ⟨rfl, rfl⟩

/-- `DynamicChannelRegion::NUM_JOIN_CHANNELS` (dynamic plans only) -/
theorem tieA_numJoinChannels (r : RegionId) :
    Gen.RegionStatic.NUM_JOIN_CHANNELS (toGen r) = if r.isFixed then none else some (numJoinChannels r : Int) := by
  cases r <;> rfl

/-- `FixedChannelRegion::MAX_UPLINK_DR` (fixed plans only; the model never reads it elsewhere) -/
theorem tieA_maxUplinkDr (r : RegionId) :
    Gen.RegionStatic.MAX_UPLINK_DR (toGen r) = if r.isFixed then some (maxUplinkDr r : Int) else none := by
  cases r <;> rfl

/-- `FixedChannelRegion::JOIN_DR_500KHZ` (fixed plans only) -/
theorem tieA_join500kDr (r : RegionId) :
    Gen.RegionStatic.JOIN_DR_500KHZ (toGen r) = if r.isFixed then some (join500kDr r) else none := by
  cases r <;> rfl

/-- `DataRateRange::new_range(min, max)` is the byte `max·16 + min` (the model's `mkChan`) -/
theorem tieA_dataRateRange (lo hi : DR) :
    Gen.RegionStatic.DataRateRange.new_range lo hi = some (hi.toInt * 16 + lo.toInt) := by
  cases lo <;> cases hi <;> decide

/-- default channels: the table `DynamicChannelPlan::new` builds (`[None; NUM_CHANNELS_DYNAMIC]`, then
`init_channels`, through `Channel::new` / `DataRateRange::new_range`) is the model's `DynPlan.init` -/
theorem tieA_initChannels (r : RegionId) (h : r.isFixed = false) :
    genInitChannels (toGen r) = some (DynPlan.init r).channels := by
  cases r <;> first | (exact absurd h (by decide)) | decide

/-- CFList channels (`process_join_accept`): `Channel::new(value, DR0, DR5)` is the model's `mkChan f 0 5`
(`setChannelSlots`), for every frequency -/
theorem tieA_cflistChannel (f : Nat) :
    (Gen.RegionStatic.Channel.new f Gen.RegionStatic.DynamicChannelPlan.process_join_accept.cflist_dr_min
        Gen.RegionStatic.DynamicChannelPlan.process_join_accept.cflist_dr_max).map ofGenChannel = mkChan f 0 5 := by
  simp only [Gen.RegionStatic.Channel.new, tieA_dataRateRange, Option.bind_eq_bind, Option.bind_some, Option.pure_def,
    Option.map_some, Gen.RegionStatic.Channel.new_with_dr, ofGenChannel, mkChan]
  rfl

/-- a fixed plan has no dynamic channel table -/
theorem tieA_initChannels_fixed (r : RegionId) (h : r.isFixed = true) :
    Gen.RegionStatic.init_channels (toGen r) = none := by
  cases r <;> first | (exact absurd h (by decide)) | rfl

/-- default channel mask: `ChannelMask::<9>::default()` of both plan structs -/
theorem tieA_maskDefault :
    Mask.default = (Gen.RegionStatic.ChannelMask.default Gen.RegionStatic.DynamicChannelPlan.CHANNEL_MASK_N).map Int.toNat ∧
    Mask.default = (Gen.RegionStatic.ChannelMask.default Gen.RegionStatic.FixedChannelPlan.CHANNEL_MASK_N).map Int.toNat := by
  decide

/-- `Channel::rx1_frequency` / `ul_frequency` -/
theorem tieA_channelFrequencies (c : Gen.RegionStatic.Channel) :
    (ofGenChannel c).rx1Frequency = (Gen.RegionStatic.Channel.rx1_frequency c).toNat ∧
    (ofGenChannel c).freq = (Gen.RegionStatic.Channel.ul_frequency c).toNat := by
  refine ⟨?_, rfl⟩
  cases c with
  | mk f d dl => cases dl <;> rfl

#print axioms tieA_regions
#print axioms tieA_initChannels
end C09
