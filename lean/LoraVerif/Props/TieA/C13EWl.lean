import LoraVerif.Props.TieA.C13
import LoraVerif.Gen.PhyEncEWl
/-!
# C13 / C17, tie A (builder E): `set_tx_power_and_ramp_time` of the SX126x driver instantiated at `Stm32wl`
(both `use_high_power_pa` values): the high-power output behaves as an SX1262 with `STM32WL_HP_PA_TABLE`, the
low-power output as an SX1261 (refusal of +15 dBm below 400 MHz, `SX1261_PA_TABLE`).
-/
open Model.Phy TieA.Phy Gen.PhyCodes126

namespace C13

theorem model_lookup_clamp_wl (req : Int) :
    Sx126x.stm32wlHpTable.lookup req = Sx126x.stm32wlHpTable.lookup (Spec.Semtech.clampI (-9) 22 req) :=
  model_lookup_clamp Sx126x.stm32wlHpTable ⟨22, 0x04, 0x07, 22⟩ rfl req

/-- the model's hand-copied STM32WL high-power table and lookup give, for EVERY requested power, the row and power
byte of the regenerated `STM32WL_HP_PA_TABLE` / `PaTable::lookup` -/
theorem tieA_pa_lookup_stm32wl_hp (req : Int) :
    paViewG (Gen.PhyArith.STM32WL_HP_PA_TABLE.lookup req) = paViewM (Sx126x.stm32wlHpTable.lookup req) := by
  rw [Gen.PhyArith.lookup_clamp _ req 22 rfl, model_lookup_clamp_wl, show Gen.PhyArith.STM32WL_HP_PA_TABLE.min_dbm = -9 from rfl]
  exact forall_int_range (-9) 32 (fun k => paViewG (Gen.PhyArith.STM32WL_HP_PA_TABLE.lookup k) = paViewM (Sx126x.stm32wlHpTable.lookup k))
    (by decide +kernel) _ (by unfold Spec.Semtech.clampI; omega) (by unfold Spec.Semtech.clampI; omega)


/-- `Sx126x::<Stm32wl>::set_tx_power_and_ramp_time`, regenerated (with `get_device_sel` / `pa_table` of the variant),
IS the model's `setTxPowerAndRampTime` on a `.stm32wl hp` chip, for both outputs, every requested power, optional
modulation record (only its `u32` frequency is read), ramp choice, chip content and prefix. -/
theorem tieA_stm32wl_tx_power (self : Gen.PhyEncEWl.Sx126x) (cfg : Sx126x.Config)
    (hc : cfg.chip = .stm32wl self.config.chip.use_high_power_pa)
    (power : Int) (mp : Option Gen.PhyEncEWl.ModulationParams) (hfreq : ∀ g, mp = some g → 0 ≤ g.frequency_in_hz)
    (prep : Bool) (c : Chip) (log : List Rt.Phy.Ev) :
    view id (Gen.PhyEncEWl.Sx126x.set_tx_power_and_ramp_time self power mp prep chipDev c log)
      = denote (Sx126x.setTxPowerAndRampTime cfg power (mp.map (fun g => g.frequency_in_hz.toNat)) prep) c log := by
  obtain ⟨chip, tcxo, dcdc, rxb⟩ := cfg
  obtain ⟨⟨⟨hp⟩, t', d', r'⟩⟩ := self
  simp only at hc; subst hc
  cases hp
  · -- low-power output: as the SX1261
    have ht := tieA_pa_lookup_1261 power
    simp only [Gen.PhyEncEWl.Sx126x.set_tx_power_and_ramp_time, Sx126x.setTxPowerAndRampTime, Sx126x.Variant.highPower,
      Sx126x.Variant.paTable, Sx126x.Variant.deviceSel, Sx126x.setPaConfig]
    try gen_unfold_helpers_PhyEncEWl
    simp only [Bool.false_eq_true, if_false]
    cases mp with
    | some m =>
      have h0 := hfreq m rfl
      obtain ⟨sf, bw, cr, ldro, f⟩ := m
      simp only at h0
      simp only [Option.map_some]
      by_cases hp : power ≥ 15
      · by_cases hf : f.toNat < 400000000
        · have e1 : decide (power ≥ 15) = true := decide_eq_true hp
          have e2 : decide (f < 400000000) = true := decide_eq_true (by omega)
          simp only [e1, e2, if_pos (And.intro hp hf)]
          cases prep <;> phy_tie [if_true] [if_true]
        · have e1 : decide (power ≥ 15) = true := decide_eq_true hp
          have e2 : decide (f < 400000000) = false := decide_eq_false (by omega)
          simp only [e1, e2, if_neg (fun h : power ≥ 15 ∧ f.toNat < 400000000 => hf h.2)]
          cases hg : Gen.PhyArith.SX1261_PA_TABLE.lookup power with
          | none =>
            cases hm : Sx126x.sx1261Table.lookup power with
            | none => cases prep <;> phy_tie [if_true] [if_true]
            | some r => rw [hg, hm] at ht; simp [paViewG, paViewM] at ht
          | some rg =>
            cases hm : Sx126x.sx1261Table.lookup power with
            | none => rw [hg, hm] at ht; simp [paViewG, paViewM] at ht
            | some rm =>
              obtain ⟨e, b⟩ := rg
              obtain ⟨e', b'⟩ := rm
              rw [hg, hm] at ht
              simp only [paViewG, paViewM, Option.some.injEq, Prod.mk.injEq] at ht
              obtain ⟨h1, h2, h3⟩ := ht
              cases prep <;> phy_tie [h1, h2, h3] [RampTime.value, RampTime.toInt, Gen.PhyEncEWl.DeviceSel.toInt]
      · have e1 : decide (power ≥ 15) = false := decide_eq_false hp
        simp only [e1, if_neg (fun h : power ≥ 15 ∧ f.toNat < 400000000 => hp h.1)]
        cases hg : Gen.PhyArith.SX1261_PA_TABLE.lookup power with
        | none =>
          cases hm : Sx126x.sx1261Table.lookup power with
          | none => cases prep <;> phy_tie [if_true] [if_true]
          | some r => rw [hg, hm] at ht; simp [paViewG, paViewM] at ht
        | some rg =>
          cases hm : Sx126x.sx1261Table.lookup power with
          | none => rw [hg, hm] at ht; simp [paViewG, paViewM] at ht
          | some rm =>
            obtain ⟨e, b⟩ := rg
            obtain ⟨e', b'⟩ := rm
            rw [hg, hm] at ht
            simp only [paViewG, paViewM, Option.some.injEq, Prod.mk.injEq] at ht
            obtain ⟨h1, h2, h3⟩ := ht
            cases prep <;> phy_tie [h1, h2, h3] [RampTime.value, RampTime.toInt, Gen.PhyEncEWl.DeviceSel.toInt]
    | none =>
      simp only [Option.map_none]
      cases hg : Gen.PhyArith.SX1261_PA_TABLE.lookup power with
      | none =>
        cases hm : Sx126x.sx1261Table.lookup power with
        | none => cases prep <;> by_cases hp : power ≥ 15 <;> phy_tie [hp, decide_true, decide_false] [if_true]
        | some r => rw [hg, hm] at ht; simp [paViewG, paViewM] at ht
      | some rg =>
        cases hm : Sx126x.sx1261Table.lookup power with
        | none => rw [hg, hm] at ht; simp [paViewG, paViewM] at ht
        | some rm =>
          obtain ⟨e, b⟩ := rg
          obtain ⟨e', b'⟩ := rm
          rw [hg, hm] at ht
          simp only [paViewG, paViewM, Option.some.injEq, Prod.mk.injEq] at ht
          obtain ⟨h1, h2, h3⟩ := ht
          cases prep <;> by_cases hp : power ≥ 15 <;> phy_tie [h1, h2, h3, hp, decide_true, decide_false]
            [RampTime.value, RampTime.toInt, Gen.PhyEncEWl.DeviceSel.toInt]
  · -- high-power output: as the SX1262, with the STM32WL table
    have ht := tieA_pa_lookup_stm32wl_hp power
    simp only [Gen.PhyEncEWl.Sx126x.set_tx_power_and_ramp_time, Sx126x.setTxPowerAndRampTime, Sx126x.Variant.highPower,
      Sx126x.Variant.paTable, Sx126x.Variant.deviceSel, Sx126x.setPaConfig]
    try gen_unfold_helpers_PhyEncEWl
    simp only [if_true]
    cases hg : Gen.PhyArith.STM32WL_HP_PA_TABLE.lookup power with
    | none =>
      cases hm : Sx126x.stm32wlHpTable.lookup power with
      | none => cases prep <;> phy_tie [if_true] [if_true]
      | some r => rw [hg, hm] at ht; simp [paViewG, paViewM] at ht
    | some rg =>
      cases hm : Sx126x.stm32wlHpTable.lookup power with
      | none => rw [hg, hm] at ht; simp [paViewG, paViewM] at ht
      | some rm =>
        obtain ⟨e, b⟩ := rg
        obtain ⟨e', b'⟩ := rm
        rw [hg, hm] at ht
        simp only [paViewG, paViewM, Option.some.injEq, Prod.mk.injEq] at ht
        obtain ⟨h1, h2, h3⟩ := ht
        cases prep <;> phy_tie [h1, h2, h3] [RampTime.value, RampTime.toInt, Gen.PhyEncEWl.DeviceSel.toInt]

#print axioms tieA_stm32wl_tx_power

/-- non-vacuity: +14 dBm on the low-power output: SetPaConfig 04 00 01 01, SetTxParams 14 / 40 us -/
example : Gen.PhyEncEWl.Sx126x.set_tx_power_and_ramp_time ⟨⟨⟨false⟩, none, true, false⟩⟩ 14 none true
    (fun (_ : Unit) _ n => (List.replicate n 0xC0, ())) () [] =
    some (.ok (), (), [.spi [0x95, 4, 0, 1, 1] 0, .busy, .spi [0x8E, 14, 2] 0, .busy]) := rfl
/-- the hypothesis `hc` is satisfiable for both outputs -/
example : (⟨.stm32wl true, none, true, false⟩ : Sx126x.Config).chip
    = .stm32wl (⟨⟨⟨true⟩, none, true, false⟩⟩ : Gen.PhyEncEWl.Sx126x).config.chip.use_high_power_pa := rfl

end C13

namespace C17
/-- C17's name for the same equality -/
theorem tieA_stm32wl_tx_power (self : Gen.PhyEncEWl.Sx126x) (cfg : Sx126x.Config)
    (hc : cfg.chip = .stm32wl self.config.chip.use_high_power_pa)
    (power : Int) (mp : Option Gen.PhyEncEWl.ModulationParams) (hfreq : ∀ g, mp = some g → 0 ≤ g.frequency_in_hz)
    (prep : Bool) (c : Chip) (log : List Rt.Phy.Ev) :
    view id (Gen.PhyEncEWl.Sx126x.set_tx_power_and_ramp_time self power mp prep chipDev c log)
      = denote (Sx126x.setTxPowerAndRampTime cfg power (mp.map (fun g => g.frequency_in_hz.toNat)) prep) c log :=
  C13.tieA_stm32wl_tx_power self cfg hc power mp hfreq prep c log
end C17
