import LoraVerif.Props.TieA.StateBridge
import LoraVerif.Props.TieA.Rx2Complete
import LoraVerif.Props.TieA.Tactics
import LoraVerif.Gen.SessionRx
/-!
# Tie A for a whole stateful method: `Session::handle_rx` (C05 / C07) — the acceptance test up to the
MIC check and the order of the state updates after it

`Gen/SessionRx.lean` holds the state-passing translation of the CURRENT source of
`Session::handle_rx` together with `Session::rx2_complete`, `next_fcnt_down` and the `Uplink` helpers.
Abstract in the translation (inputs of the theorems): parsing, MIC validity and decryption (the buffer is
what `EncryptedDataPayload::parse` / `decrypt_in_place` yield on it; `validate_mic` is a predicate of the
crypto context and the 32-bit counter), the handling of the MAC commands and `next_lower_datarate`
(`MacOps`, assumed to simulate the model's `handleDownlinkMacs` / `nextLowerDatarate` and to touch nothing
but the answer queue — hypotheses `hnl`, `hsim`).

Builder X — uplink-typed frames: since the fix "uplink-typed frames are ignored" the method returns `NoUpdate` at
once for a parsed frame with `is_uplink()` (field `is_uplink` of the abstract `EncryptedDataPayload`).  The relation
between a parsed payload `e` and the model's view `RxView` is therefore:
  * `e.is_uplink = true`  ↦ the view is NOT a data frame for this device (`RxView.garbage`, the `g` view of the
    reference codec, like a buffer the parser rejects): `handle_rx_uplink_typed` — `NoUpdate`, every output equal to
    its input, whatever the size, counter and MIC of the frame;
  * `e.is_uplink = false` ↦ the view is `RxView.data (dataOf gs e dec)`: `tieA_handle_rx_accept` (hypothesis `hup`).
The hand model `sessionHandleRx` never sees an uplink-typed frame.

Builder Y — frames addressed to another device: since the fix "frames addressed to another device are ignored" the
method returns `NoUpdate` for a parsed downlink-typed frame that passed the size test and whose FHDR DevAddr
(`e.fhdr.dev_addr`, field `dev_addr` of the abstract `Fhdr`) differs from `self.devaddr`, before the counter
reconstruction and the MIC.  Such a frame is likewise NOT a data-frame view for the model (`RxView.garbage`, the `g`
view of the reference codec, or equivalently a data frame that verifies under no counter): `handle_rx_other_devaddr`;
`tieA_handle_rx_accept` has the hypothesis `haddr : fits → e.fhdr.dev_addr = gs.devaddr` (the address must be the
session's only for a frame that passes the size test: an oversized frame ends the Class A procedure whatever its
address, in code and model alike — so the two theorems together cover every parsed downlink-typed frame).

`tieA_handle_rx_accept`: for a buffer the parser accepts as a DOWNLINK-typed frame, the generated method is the model's
`sessionHandleRx` — the size test against `max_payload_len + MHDR + MIC` (Class C: `NoUpdate`, nothing
changes; Class A: `rx2_complete`), the counter reconstruction `next_fcnt_down`, the MIC under the
session's NwkSKey and that counter, and after acceptance: the answer queue cleared only in Class A,
`fcnt_down`, `adr_ack_cnt = 0`, the MAC commands (FOpts, then a port-0 payload; not in Class C), the owed
ACK for a confirmed frame, `SessionExpired` at `fcnt_up = 0xFFFF_FFFF` else `fcnt_up + 1`, and the
application payload pushed to the downlink queue iff FPort > 0.
-/
set_option linter.unusedSimpArgs false
set_option linter.unusedVariables false
namespace TieA.Rx
open Model Gen.Region

def natsOf (l : List Int) : List Nat := l.map Int.toNat

def cfgOf (g : Gen.SessionRx.Configuration) : Config :=
  { dataRate := g.data_rate.toInt.toNat, rx1Delay := g.rx1_delay.toNat, txPower := g.tx_power.map Int.toNat,
    rx1DrOffset := g.rx1_dr_offset.toNat, rx2DataRate := g.rx2_data_rate.map (fun d => d.toInt.toNat),
    rx2Frequency := g.rx2_frequency.map Int.toNat, adrEnabled := g.adr_enabled }

/-- the model session a generated `Session` stands for — every field -/
def sessOf (g : Gen.SessionRx.Session) : Session :=
  { pending := natsOf g.uplink.pending, ackOwed := g.uplink.confirmed, confirmed := g.confirmed,
    devAddr := g.devaddr.id.toNat, fcntUp := g.fcnt_up.toNat, fcntDown := g.fcnt_down.map Int.toNat,
    adrAckCnt := g.adr_ack_cnt.toNat, nwkKey := g.nwkskey.inner.id.toNat, appKey := g.appskey.inner.id.toNat }

def respOf : Gen.SessionRx.Response → Option Response
  | .NoAck => some .noAck | .SessionExpired => some .sessionExpired
  | .DownlinkReceived n => some (.downlinkReceived n.toNat) | .NoJoinAccept => some .noJoinAccept
  | .JoinSuccess => some .joinSuccess | .NoUpdate => some .noUpdate | .RxComplete => some .rxComplete
  | .LinkCheckReq => none

/-- an application downlink as the model reports it -/
def dlOf (x : Gen.SessionRx.Downlink) : Nat × List Nat := (x.fport.toNat, natsOf x.data)

/-- the integer fields of a generated session are within their Rust types -/
def SessWF (g : Gen.SessionRx.Session) : Prop :=
  0 ≤ g.fcnt_up ∧ g.fcnt_up ≤ 4294967295 ∧ 0 ≤ g.adr_ack_cnt ∧ g.adr_ack_cnt ≤ 4294967295 ∧
  ∀ f, g.fcnt_down = some f → 0 ≤ f ∧ f ≤ 4294967295

/-- `next_lower_datarate` is the model's (hypothesis on the abstract `MacOps`) -/
def NextLowerOk [Gen.SessionRx.MacOps RegionState] : Prop :=
  ∀ (rs : RegionState) (dr : DR), Gen.SessionRx.MacOps.next_lower rs dr = (nextLowerDatarate rs.id dr.toInt.toNat).map drOfNatT

/-- `Session::rx2_complete` as regenerated in this unit is the model's `rx2Complete` (as
`tieA_rx2_complete`, on the full `Session` value) -/
theorem rx2_complete_tie [Gen.SessionRx.MacOps RegionState] (hnl : NextLowerOk) (gs : Gen.SessionRx.Session) (g : Gen.SessionRx.Configuration)
    (rs : RegionState) (hw : SessWF gs) :
    ∃ r s' g', Gen.SessionRx.Session.rx2_complete gs g rs = some (r, s', g') ∧
      ∃ r', respOf r = some r' ∧ (r', sessOf s', cfgOf g') = rx2Complete (sessOf gs) (cfgOf g) rs.id ∧
      s'.uplink = gs.uplink ∧ SessWF s' := by
  obtain ⟨up, conf, nwk, app, da, fu, fd, cnt⟩ := gs
  obtain ⟨dr, d1, j1, j2, tp, off, r2d, r2f, adr⟩ := g
  simp only [SessWF] at hw
  obtain ⟨h1, h2, h3, h4, h5⟩ := hw
  have e2 : Rt.ck .usize (Gen.SessionRx.ADR_ACK_LIMIT + Gen.SessionRx.ADR_ACK_DELAY) = some 96 := by decide
  have e2' : Rt.ck .usize (Gen.SessionRx.ADR_ACK_DELAY + Gen.SessionRx.ADR_ACK_LIMIT) = some 96 := by decide
  have e3 : Rt.wrap .u32 96 = 96 := by decide
  have e4 : Rt.wrap .u32 Gen.SessionRx.ADR_ACK_LIMIT = 64 := by decide
  have e5 : Rt.wrap .u32 Gen.SessionRx.ADR_ACK_DELAY = 32 := by decide
  have e6 : Rt.satAdd .u32 cnt 1 = min 4294967295 (cnt + 1) := satAdd_u32 (by omega)
  have e7 := @isMultipleOf_pos
  have hl : Gen.Session.ADR_ACK_LIMIT.toNat = 64 := by decide
  have hd : Gen.Session.ADR_ACK_DELAY.toNat = 32 := by decide
  obtain ⟨c', hc', hcn, hc1, hc2⟩ := sat_bridge h3 h4
  unfold Gen.SessionRx.Session.rx2_complete
  try gen_unfold_helpers_SessionRx
  simp only [rx2Complete, sessOf, cfgOf, hnl rs, e2, e2', e3, e4, e5, e6, hl, hd, hc', hcn,
    Option.bind_eq_bind, Option.bind_some, Option.pure_def]
  by_cases hx : fu = 4294967295
  · have hx' : fu.toNat = 4294967295 := by omega
    cases conf <;> cases adr <;> tie_eval <;>
      exact ⟨_, _, _, rfl, _, rfl, by simp [*], rfl, ⟨by simp only; omega, by simp only; omega, by simp only; omega, by simp only; omega, h5⟩⟩
  · have hx' : ¬ fu.toNat = 4294967295 := by omega
    have e1 : Rt.ck .u32 (fu + 1) = some (fu + 1) := Rt.ck_u32 (by omega) (by omega)
    have hfu : (fu + 1).toNat = fu.toNat + 1 := by omega
    cases adr
    · cases conf <;> tie_eval <;>
        exact ⟨_, _, _, rfl, _, rfl, by simp [*], rfl, ⟨by simp only; omega, by simp only; omega, by simp only; omega, by simp only; omega, h5⟩⟩
    · by_cases hb : c' ≥ 96
      · have hbn : c'.toNat ≥ 64 + 32 := by omega
        by_cases hm : (c' - 64) % 32 = 0
        · have hmn : (c'.toNat - 64) % 32 = 0 := by omega
          cases hn : nextLowerDatarate rs.id dr.toInt.toNat with
          | none =>
            cases conf <;> tie_eval <;>
              exact ⟨_, _, _, rfl, _, rfl, by simp [*], rfl, ⟨by simp only; omega, by simp only; omega, by simp only; omega, by simp only; omega, h5⟩⟩
          | some c =>
            have hlt := nextLower_lt hn
            have hdl := DR.toInt_lt dr
            have hc := drOfNatT_toInt c (by omega)
            cases conf <;> tie_eval <;>
              exact ⟨_, _, _, rfl, _, rfl, by simp [*], rfl, ⟨by simp only; omega, by simp only; omega, by simp only; omega, by simp only; omega, h5⟩⟩
        · have hmn : ¬ (c'.toNat - 64) % 32 = 0 := by omega
          cases conf <;> tie_eval <;>
            exact ⟨_, _, _, rfl, _, rfl, by simp [*], rfl, ⟨by simp only; omega, by simp only; omega, by simp only; omega, by simp only; omega, h5⟩⟩
      · have hbn : ¬ c'.toNat ≥ 64 + 32 := by omega
        cases conf <;> tie_eval <;>
          exact ⟨_, _, _, rfl, _, rfl, by simp [*], rfl, ⟨by simp only; omega, by simp only; omega, by simp only; omega, by simp only; omega, h5⟩⟩


/-- `Session::handle_downlink_macs` simulates the model's `handleDownlinkMacs` and touches nothing of the
session but the answer queue, on the command streams in `S` (hypothesis on the abstract `MacOps`; the
handler itself is tied by the C08 tie-A theorems and the correspondence; `S := fun _ => True` is the
general case, a smaller `S` makes the hypothesis checkable on an example).  Builder S: the answer queue holds at
most 15 bytes before and after (`heapless::Vec<u8, 15>`) — the generated `push_answer` is tied under that bound -/
def MacsOk [Gen.SessionRx.MacOps RegionState] (S : List Int → Prop) : Prop :=
  ∀ (gs : Gen.SessionRx.Session) (g : Gen.SessionRx.Configuration) (rs : RegionState) (bytes : List Int) (snr : Int) (full : Bool),
    S bytes → gs.uplink.pending.length ≤ 15 →
    match handleDownlinkMacs snr (natsOf bytes) { cfg := cfgOf g, region := rs, pending := natsOf gs.uplink.pending, full := full } with
    | .error _ => Gen.SessionRx.MacOps.handle_downlink_macs gs g rs ⟨bytes⟩ snr full = none
    | .ok c => ∃ pend' g', Gen.SessionRx.MacOps.handle_downlink_macs gs g rs ⟨bytes⟩ snr full
          = some ({ gs with uplink := { gs.uplink with pending := pend' } }, g', c.region, c.full)
        ∧ natsOf pend' = c.pending ∧ cfgOf g' = c.cfg ∧ pend'.length ≤ 15

/-- the decrypted frame is consistent: `frm_payload()` is determined by `f_port()` (parser.rs), octets
are octets, a frame is at most 256 bytes; its command streams are in `S` -/
def DecWF (S : List Int → Prop) (d : Gen.SessionRx.DecryptedDataPayload) : Prop :=
  (∀ p, d.f_port = some p → 0 ≤ p ∧ p ≤ 255) ∧ S d.fhdr.f_opts ∧
  ∃ frm : List Int, frm.length ≤ 256 ∧ (d.f_port = some 0 → S frm) ∧
    d.frm_payload = (match d.f_port with | none => .None | some p => if p = 0 then .MacCommands frm else .Data frm)

def nwkOf (gs : Gen.SessionRx.Session) : Gen.SessionRx.DefaultCrypto := ⟨gs.nwkskey.inner⟩
def appOf (gs : Gen.SessionRx.Session) : Gen.SessionRx.DefaultCrypto := ⟨gs.appskey.inner⟩

/-- what decryption yields under the counter the session reconstructs for the frame -/
def decOf (gs : Gen.SessionRx.Session) (rx : Gen.SessionRx.RadioBuffer) (e : Gen.SessionRx.EncryptedDataPayload) :
    Option Gen.SessionRx.DecryptedDataPayload :=
  (Gen.SessionRx.next_fcnt_down gs.fcnt_down e.fhdr.fcnt).bind
    (fun f => rx.as_mut_for_read.decrypt_in_place (some (nwkOf gs)) (some (appOf gs)) f)

/-- the decoded view the model receives for a frame the parser accepted (`micFcnt`: the reconstructed
counter iff the MIC verifies under it and the session's NwkSKey) -/
def dataOf (gs : Gen.SessionRx.Session) (e : Gen.SessionRx.EncryptedDataPayload) (dec : Option Gen.SessionRx.DecryptedDataPayload) : RxData :=
  { len := e.as_bytes.length, confirmed := e.is_confirmed, fcnt16 := e.fhdr.fcnt.toNat,
    micFcnt := match Gen.SessionRx.next_fcnt_down gs.fcnt_down e.fhdr.fcnt with
      | some f => if e.validate_mic (nwkOf gs) f then some f.toNat else none
      | none => none,
    fopts := match dec with | some d => natsOf d.fhdr.f_opts | none => [],
    fport := match dec with | some d => d.f_port.map Int.toNat | none => none,
    payload := match dec with
      | some d => (match d.frm_payload with | .Data x => natsOf x | .MacCommands x => natsOf x | .None => [])
      | none => [] }

/-- the two regenerated copies of `next_fcnt_down` are the same function -/
theorem next_fcnt_down_eq : Gen.SessionRx.next_fcnt_down = Gen.Session.next_fcnt_down := by
  funext last wire
  unfold Gen.SessionRx.next_fcnt_down Gen.Session.next_fcnt_down
  rfl

/-- the model's counter reconstruction on the model state is the generated one on the generated state -/
theorem nextFcntDown_bridge (gs : Gen.SessionRx.Session) (w : Int) (hw : SessWF gs) (h0 : 0 ≤ w) :
    nextFcntDown (sessOf gs).fcntDown w.toNat = (Gen.SessionRx.next_fcnt_down gs.fcnt_down w).map Int.toNat := by
  rw [next_fcnt_down_eq]
  simp only [nextFcntDown, sessOf]
  congr 2
  · cases h : gs.fcnt_down with
    | none => rfl
    | some f => have := (hw.2.2.2.2 f h).1; simp [Int.toNat_of_nonneg this]
  · omega

/-- what the model's answer means for the generated outputs -/
def expect (dl : List Gen.SessionRx.Downlink) (D : Int) (r : RxOut × Session × Config × RegionState) :
    Response × Session × RegionState × Config × List (Nat × List Nat) :=
  (r.1.resp, r.2.1, r.2.2.2, r.2.2.1,
    match r.1.downlink with
    | some x => if (dl.length : Int) < D then dl.map dlOf ++ [x] else dl.map dlOf
    | none => dl.map dlOf)

theorem handleDownlinkMacs_nil (snr : Int) (c : MacCtx) : handleDownlinkMacs snr [] c = .ok c := by
  simp [handleDownlinkMacs, parseDownlinkCmds, handleCmds]

/-- `Session::handle_rx` as the current source has it, on a buffer the parser accepts and whose MType is a
downlink type (`hup : e.is_uplink = false`; an uplink-typed frame is not a data-frame view for the model, see
`handle_rx_uplink_typed`), is the model's `sessionHandleRx`: same response, same session (every field), same region and
configuration, the same application downlink appended to the queue (if it has room), a panic on one side iff on the other -/
theorem tieA_handle_rx_accept [Gen.SessionRx.MacOps RegionState] (S : List Int → Prop) (hnl : NextLowerOk) (hsim : MacsOk S)
    (D : Int) (gs : Gen.SessionRx.Session) (rs : RegionState) (g : Gen.SessionRx.Configuration)
    (rx : Gen.SessionRx.RadioBuffer) (dl : List Gen.SessionRx.Downlink) (maxp snr : Int) (ign : Bool)
    (e : Gen.SessionRx.EncryptedDataPayload)
    (hparse : rx.as_mut_for_read.parse = some e) (hup : e.is_uplink = false)
    (haddr : ¬ (e.as_bytes.length : Int) > maxp + 5 → e.fhdr.dev_addr = gs.devaddr)
    (hw : SessWF gs) (hmax : 0 ≤ maxp ∧ maxp ≤ 255) (hwire : 0 ≤ e.fhdr.fcnt)
    (hdec : ∀ f, Gen.SessionRx.next_fcnt_down gs.fcnt_down e.fhdr.fcnt = some f → e.validate_mic (nwkOf gs) f = true →
      ∃ d, rx.as_mut_for_read.decrypt_in_place (some (nwkOf gs)) (some (appOf gs)) f = some d ∧ DecWF S d) :
    (Gen.SessionRx.Session.handle_rx D gs rs g rx dl maxp snr ign).bind
        (fun out => (respOf out.1).map (fun r => (r, sessOf out.2.1, out.2.2.1, cfgOf out.2.2.2.1, out.2.2.2.2.2.map dlOf)))
      = (sessionHandleRx (sessOf gs) (cfgOf g) rs (dataOf gs e (decOf gs rx e)) maxp.toNat snr ign).toOption.map (expect dl D) := by
  obtain ⟨hm0, hm1⟩ := hmax
  have hM : Gen.SessionRx.MHDR_LEN = 1 := rfl
  have hI : Gen.SessionRx.MIC_LEN = 4 := rfl
  have hlen0 : (0 : Int) ≤ (e.as_bytes.length : Int) := by omega
  unfold Gen.SessionRx.Session.handle_rx
  simp only [hparse, hup, Bool.false_eq_true, if_false, hM, hI, Int.ofNat_eq_natCast]
  by_cases hbig : (e.as_bytes.length : Int) > maxp + 5
  · -- oversized
    have hbig' : e.as_bytes.length > maxp.toNat + 5 := by omega
    tie_eval
    simp only [sessionHandleRx, dataOf, hbig', if_true]
    cases ign
    · obtain ⟨r, s', g', h1, r', h2, h3, h4, h5⟩ := rx2_complete_tie hnl gs g rs hw
      simp [h1, h2, expect, ← h3, Except.toOption, pure, Except.pure]
    · simp [respOf, expect, Except.toOption, pure, Except.pure]
  · have hbig' : ¬ e.as_bytes.length > maxp.toNat + 5 := by omega
    have hnf := nextFcntDown_bridge gs e.fhdr.fcnt hw hwire
    tie_eval
    simp only [haddr hbig, bne_self_eq_false, Bool.false_eq_true, if_false]
    cases hf : Gen.SessionRx.next_fcnt_down gs.fcnt_down e.fhdr.fcnt with
    | none =>
      rw [hf] at hnf
      simp [sessionHandleRx, dataOf, hbig', hnf, respOf, expect, Except.toOption, pure, Except.pure]
    | some f =>
      rw [hf] at hnf
      simp only [Option.map_some] at hnf
      by_cases hmic : e.validate_mic (nwkOf gs) f = true
      · obtain ⟨d, hd, hpwf, hS1, frm, hfl, hS2, hfrm⟩ := hdec f hf hmic
        have hmic' : e.validate_mic { key := gs.nwkskey.inner } f = true := by simpa [nwkOf] using hmic
        have hd' : rx.as_mut_for_read.decrypt_in_place (some { key := gs.nwkskey.inner }) (some { key := gs.appskey.inner }) f = some d := by
          simpa [nwkOf, appOf] using hd
        have hdo : decOf gs rx e = some d := by simp [decOf, hf, hd]
        obtain ⟨hu0, hu1, hc0, hc1, hfd⟩ := hw
        have hfu : (gs.fcnt_up = 4294967295) = (gs.fcnt_up.toNat = 4294967295) := by apply propext; omega
        have hck : ¬ gs.fcnt_up = 4294967295 → Rt.ck .u32 (gs.fcnt_up + 1) = some (gs.fcnt_up + 1) := fun h => Rt.ck_u32 (by omega) (by omega)
        have hsucc : ¬ gs.fcnt_up = 4294967295 → (gs.fcnt_up + 1).toNat = gs.fcnt_up.toNat + 1 := fun h => by omega
        simp only [hmic', if_true, hd', Option.bind_some, Gen.SessionRx.DefaultCrypto.new,
          Gen.SessionRx.Uplink.clear_mac_commands, Gen.SessionRx.Uplink.set_downlink_confirmation]
        rw [hdo]
        have hlen : (dataOf gs e (some d)).len = e.as_bytes.length := rfl
        have hfc : (dataOf gs e (some d)).fcnt16 = e.fhdr.fcnt.toNat := rfl
        have hcf' : (dataOf gs e (some d)).confirmed = e.is_confirmed := rfl
        have hfo : (dataOf gs e (some d)).fopts = natsOf d.fhdr.f_opts := rfl
        have hfp : (dataOf gs e (some d)).fport = d.f_port.map Int.toNat := rfl
        have hpl : (dataOf gs e (some d)).payload = (match d.frm_payload with | .Data x => natsOf x | .MacCommands x => natsOf x | .None => []) := rfl
        have hmf : (dataOf gs e (some d)).micFcnt = some f.toNat := by simp [dataOf, hf, hmic]
        simp only [sessionHandleRx, hlen, hfc, hcf', hfo, hfp, hpl, hmf, hbig', if_false, hnf, bne_self_eq_false, Bool.false_eq_true]
        cases ign
        · simp only [Bool.not_false, Bool.false_eq_true, if_false, if_true, pure, Except.pure, bind, Except.bind]
          have h1 := hsim ⟨⟨[], gs.uplink.confirmed⟩, gs.confirmed, gs.nwkskey, gs.appskey, gs.devaddr, gs.fcnt_up, some f, 0⟩ g rs d.fhdr.f_opts snr false hS1 (by simp)
          simp only [show natsOf ([] : List Int) = [] from rfl] at h1
          dsimp only [sessOf] at h1 ⊢
          generalize hm1 : handleDownlinkMacs snr (natsOf d.fhdr.f_opts) { cfg := cfgOf g, region := rs, pending := [], full := false } = m1 at h1 ⊢
          cases m1 with
          | error er => simp [h1, Except.toOption]
          | ok c1 =>
            obtain ⟨p1, g1, hH1, hp1, hg1, hq1⟩ := h1
            obtain ⟨ccfg, creg, cpend, cfull⟩ := c1
            simp only at hp1 hg1
            subst hp1 hg1
            simp only [hH1, Option.bind_some]
            cases hp : d.f_port with
            | none =>
              rw [hp] at hfrm
              by_cases hx : gs.fcnt_up = 4294967295 <;> cases hcf : e.is_confirmed <;>
                simp [hp, hfrm, hcf, hx, hck, hsucc, respOf, expect, Except.toOption, hfu ▸ hx, sessOf]
            | some p =>
              rw [hp] at hfrm
              obtain ⟨hp0, hp1⟩ := hpwf p hp
              have hds : Gen.SessionRx.Downlink.data_from_slice frm = some frm := by
                simp only [Gen.SessionRx.Downlink.data_from_slice]; rw [if_pos (by omega)]
              by_cases hz : p = 0
              · subst hz
                simp only [if_true] at hfrm
                have h2 := hsim ⟨⟨p1, gs.uplink.confirmed⟩, gs.confirmed, gs.nwkskey, gs.appskey, gs.devaddr, gs.fcnt_up, some f, 0⟩ g1 creg frm snr cfull (hS2 hp) hq1
                simp only [hfrm, hp, Option.map_some, show ((0 : Int).toNat) = 0 from rfl, beq_self_eq_true, if_true]
                generalize hm2 : handleDownlinkMacs snr (natsOf frm) { cfg := cfgOf g1, region := creg, pending := natsOf p1, full := cfull } = m2 at h2 ⊢
                cases m2 with
                | error er => simp [h2, Except.toOption]
                | ok c2 =>
                  obtain ⟨p2, g2, hH2, hp2, hg2, hq2⟩ := h2
                  obtain ⟨ccfg2, creg2, cpend2, cfull2⟩ := c2
                  simp only at hp2 hg2
                  subst hp2 hg2
                  simp only [hH2, Option.bind_some]
                  by_cases hx : gs.fcnt_up = 4294967295 <;> cases hcf : e.is_confirmed <;>
                    simp [hcf, hx, hck, hsucc, respOf, expect, Except.toOption, hfu ▸ hx, sessOf]
              · simp only [hz, if_false] at hfrm
                have hpn : 0 < p.toNat := by omega
                have hpz : ¬ p.toNat = 0 := by omega
                by_cases hx : gs.fcnt_up = 4294967295 <;> cases hcf : e.is_confirmed <;>
                  simp [hp, hfrm, hcf, hx, hck, hsucc, sessOf, respOf, expect, Except.toOption, hfu ▸ hx, hds, hpn, hpz,
                    Rt.hvPush, dlOf] <;> split <;> simp_all [dlOf]
        · -- Class C: MAC commands are not looked at, the answer queue is kept
          simp only [Bool.not_true, Bool.false_eq_true, if_false, if_true, pure, Except.pure, bind, Except.bind]
          cases hp : d.f_port with
          | none =>
            rw [hp] at hfrm
            by_cases hx : gs.fcnt_up = 4294967295 <;> cases hcf : e.is_confirmed <;>
              simp [hp, hfrm, hcf, hx, hck, hsucc, sessOf, respOf, expect, Except.toOption, hfu ▸ hx]
          | some p =>
            rw [hp] at hfrm
            obtain ⟨hp0, hp1⟩ := hpwf p hp
            have hds : Gen.SessionRx.Downlink.data_from_slice frm = some frm := by
              simp only [Gen.SessionRx.Downlink.data_from_slice]; rw [if_pos (by omega)]
            by_cases hz : p = 0
            · subst hz
              simp only [if_true] at hfrm
              by_cases hx : gs.fcnt_up = 4294967295 <;> cases hcf : e.is_confirmed <;>
                simp [hp, hfrm, hcf, hx, hck, hsucc, sessOf, respOf, expect, Except.toOption, hfu ▸ hx]
            · simp only [hz, if_false] at hfrm
              have hpn : 0 < p.toNat := by omega
              by_cases hx : gs.fcnt_up = 4294967295 <;> cases hcf : e.is_confirmed <;>
                simp [hp, hfrm, hcf, hx, hck, hsucc, sessOf, respOf, expect, Except.toOption, hfu ▸ hx, hds, hpn,
                  Rt.hvPush, dlOf] <;> split <;> simp_all [dlOf]
      · have hmic' : e.validate_mic { key := gs.nwkskey.inner } f = false := by simpa [nwkOf] using hmic
        simp [sessionHandleRx, dataOf, hbig', hnf, hf, hmic, hmic', respOf, expect, Except.toOption, pure, Except.pure,
          Gen.SessionRx.DefaultCrypto.new, nwkOf]

/-- a buffer the data-frame parser rejects: `NoUpdate`, nothing changes (the model's `macHandleRx` on a
view that is not a data frame) -/
theorem handle_rx_unparsed [Gen.SessionRx.MacOps RegionState]
    (D : Int) (gs : Gen.SessionRx.Session) (rs : RegionState) (g : Gen.SessionRx.Configuration)
    (rx : Gen.SessionRx.RadioBuffer) (dl : List Gen.SessionRx.Downlink) (maxp snr : Int) (ign : Bool)
    (hparse : rx.as_mut_for_read.parse = none) :
    Gen.SessionRx.Session.handle_rx D gs rs g rx dl maxp snr ign = some (.NoUpdate, gs, rs, g, rx, dl) := by
  unfold Gen.SessionRx.Session.handle_rx
  simp [hparse]

/-- builder X — a buffer the parser accepts but whose MType is an UPLINK type (`is_uplink()`: the device's own
uplink echoed back, another device's uplink, any frame MIC'd with Dir = 0): `NoUpdate` and every output equal to its
input — whatever the frame's length (no size test, no `rx2_complete`), wire counter and MIC (also one that verifies
under the session's NwkSKey at a fresh counter), in a Class A window and outside.  For the model such a buffer is the
view `RxView.garbage` (not a data frame for this device), exactly like a buffer the parser rejects. -/
theorem handle_rx_uplink_typed [Gen.SessionRx.MacOps RegionState]
    (D : Int) (gs : Gen.SessionRx.Session) (rs : RegionState) (g : Gen.SessionRx.Configuration)
    (rx : Gen.SessionRx.RadioBuffer) (dl : List Gen.SessionRx.Downlink) (maxp snr : Int) (ign : Bool)
    (e : Gen.SessionRx.EncryptedDataPayload)
    (hparse : rx.as_mut_for_read.parse = some e) (hup : e.is_uplink = true) :
    Gen.SessionRx.Session.handle_rx D gs rs g rx dl maxp snr ign = some (.NoUpdate, gs, rs, g, rx, dl) := by
  unfold Gen.SessionRx.Session.handle_rx
  simp [hparse, hup]

/-- builder Y — a buffer the parser accepts as a DOWNLINK-typed frame that fits the window's data rate but whose FHDR
DevAddr is not the session's (`e.fhdr.dev_addr ≠ gs.devaddr`: a frame addressed to another device): `NoUpdate` and
every output equal to its input — whatever its wire counter and MIC (also one that verifies under THIS session's NwkSKey
at a fresh counter: two devices provisioned with the same keys, a network reusing a key), for every `ignore_mac` and
every `MacOps` instance.  (An oversized frame ends the Class A procedure before the address is looked at, as before:
the size test comes first — the first branch of `tieA_handle_rx_accept` does not use `haddr`.)  For the model such a
buffer is the view `RxView.garbage` (not a data frame for this device), like a buffer the parser rejects. -/
theorem handle_rx_other_devaddr [Gen.SessionRx.MacOps RegionState]
    (D : Int) (gs : Gen.SessionRx.Session) (rs : RegionState) (g : Gen.SessionRx.Configuration)
    (rx : Gen.SessionRx.RadioBuffer) (dl : List Gen.SessionRx.Downlink) (maxp snr : Int) (ign : Bool)
    (e : Gen.SessionRx.EncryptedDataPayload)
    (hparse : rx.as_mut_for_read.parse = some e) (hup : e.is_uplink = false)
    (hmax : 0 ≤ maxp ∧ maxp ≤ 255) (hfits : ¬ (e.as_bytes.length : Int) > maxp + 5)
    (haddr : e.fhdr.dev_addr ≠ gs.devaddr) :
    Gen.SessionRx.Session.handle_rx D gs rs g rx dl maxp snr ign = some (.NoUpdate, gs, rs, g, rx, dl) := by
  have hM : Gen.SessionRx.MHDR_LEN = 1 := rfl
  have hI : Gen.SessionRx.MIC_LEN = 4 := rfl
  have hne : (e.fhdr.dev_addr != gs.devaddr) = true := by simpa using haddr
  unfold Gen.SessionRx.Session.handle_rx
  obtain ⟨hm0, hm1⟩ := hmax
  have hlen0 : (0 : Int) ≤ (e.as_bytes.length : Int) := by omega
  simp only [hparse, hup, Bool.false_eq_true, if_false, hM, hI, Int.ofNat_eq_natCast]
  tie_eval

/-! ## non-vacuity -/

/-- an instance for the examples: `next_lower_datarate` from the model's tables; the MAC-command handler
is defined on the empty command stream only (where it changes nothing) -/
def exOps : Gen.SessionRx.MacOps RegionState where
  next_lower rs dr := (nextLowerDatarate rs.id dr.toInt.toNat).map drOfNatT
  handle_downlink_macs gs g rs b _ full := if b.bytes = [] then some (gs, g, rs, full) else none

/-- the two hypotheses on `MacOps` hold for `exOps` on the empty command stream -/
theorem exOps_ok : @NextLowerOk exOps ∧ @MacsOk exOps (· = []) := by
  refine ⟨fun _ _ => rfl, ?_⟩
  intro gs g rs bytes snr full hb hq
  subst hb
  rw [show natsOf [] = [] from rfl, handleDownlinkMacs_nil]
  exact ⟨gs.uplink.pending, g, by show (if ([] : List Int) = [] then _ else _) = _; rw [if_pos rfl], rfl, rfl, hq⟩

/-- a confirmed frame with wire counter 5, port 7, payload 01 02 03, whose MIC verifies under key 11 and
counter 5 only -/
def exEnc : Gen.SessionRx.EncryptedDataPayload :=
  ⟨List.replicate 16 0, true, ⟨5, [], ⟨99⟩⟩, fun c f => c.key.id == 11 && f == 5, false⟩
def exDec : Gen.SessionRx.DecryptedDataPayload := ⟨⟨5, [], ⟨99⟩⟩, some 7, .Data [1, 2, 3]⟩
def exRx : Gen.SessionRx.RadioBuffer := ⟨⟨some exEnc, fun _ _ f => if f = 5 then some exDec else none⟩⟩
/-- the same octets with an uplink MType whose MIC verifies all the same (the unpatched method accepted it) -/
def exEncUp : Gen.SessionRx.EncryptedDataPayload := { exEnc with is_uplink := true }
def exRxUp : Gen.SessionRx.RadioBuffer := ⟨⟨some exEncUp, fun _ _ f => if f = 5 then some exDec else none⟩⟩
/-- builder Y — the same downlink addressed to DevAddr 98 (the session's is 99) whose MIC verifies all the same under
the session's NwkSKey (the unpatched method accepted it) -/
def exEncOther : Gen.SessionRx.EncryptedDataPayload := { exEnc with fhdr := ⟨5, [], ⟨98⟩⟩ }
def exRxOther : Gen.SessionRx.RadioBuffer := ⟨⟨some exEncOther, fun _ _ f => if f = 5 then some exDec else none⟩⟩
/-- a session at FCntDown 4 with a pending answer, NwkSKey 11 -/
def exSess : Gen.SessionRx.Session := ⟨⟨[6, 255, 10], false⟩, false, ⟨⟨11⟩⟩, ⟨⟨12⟩⟩, ⟨99⟩, 41, some 4, 70⟩
def exCfg : Gen.SessionRx.Configuration := ⟨._5, 1000, 5000, 6000, none, 0, none, none, true⟩

/-- the frame is accepted in a Class A window: `DownlinkReceived(5)`, the answer queue is cleared, an ACK is
owed, `fcnt_down = 5`, `adr_ack_cnt = 0`, `fcnt_up` 41 → 42, the payload is queued for the application -/
example :
    (@Gen.SessionRx.Session.handle_rx RegionState exOps 4 exSess (RegionState.init .EU868) exCfg exRx [] 250 3 false).map
      (fun out => (out.1, out.2.1, out.2.2.2.2.2))
      = some (.DownlinkReceived 5, ⟨⟨[], true⟩, false, ⟨⟨11⟩⟩, ⟨⟨12⟩⟩, ⟨99⟩, 42, some 5, 0⟩, [⟨[1, 2, 3], 7⟩]) := by
  rfl

/-- every hypothesis of `tieA_handle_rx_accept` holds on that input -/
example :
    (@Gen.SessionRx.Session.handle_rx RegionState exOps 4 exSess (RegionState.init .EU868) exCfg exRx [] 250 3 false).bind
        (fun out => (respOf out.1).map (fun r => (r, sessOf out.2.1, out.2.2.1, cfgOf out.2.2.2.1, out.2.2.2.2.2.map dlOf)))
      = (sessionHandleRx (sessOf exSess) (cfgOf exCfg) (RegionState.init .EU868) (dataOf exSess exEnc (decOf exSess exRx exEnc))
          (250 : Int).toNat 3 false).toOption.map (expect [] 4) := by
  have hf5 : Gen.SessionRx.next_fcnt_down exSess.fcnt_down exEnc.fhdr.fcnt = some 5 := by decide
  refine @tieA_handle_rx_accept exOps (· = []) exOps_ok.1 exOps_ok.2 4 exSess (RegionState.init .EU868) exCfg exRx [] 250 3 false
    exEnc rfl rfl (fun _ => rfl) ?_ (by omega) (by decide) ?_
  · refine ⟨by decide, by decide, by decide, by decide, ?_⟩
    intro f hf
    have : f = 4 := by simpa [exSess] using hf.symm
    omega
  · intro f hf _
    rw [hf5] at hf
    obtain rfl : (5 : Int) = f := by simpa using hf
    refine ⟨exDec, rfl, ?_, rfl, [1, 2, 3], by decide, ?_, rfl⟩
    · intro p hp
      have : p = 7 := by simpa [exDec] using hp.symm
      omega
    · intro h; simp [exDec] at h

/-- the uplink-typed twin of that frame (MIC verifying at the fresh counter 5) is ignored: the hypotheses of
`handle_rx_uplink_typed` hold on it and nothing changes -/
example :
    @Gen.SessionRx.Session.handle_rx RegionState exOps 4 exSess (RegionState.init .EU868) exCfg exRxUp [] 250 3 false
      = some (.NoUpdate, exSess, RegionState.init .EU868, exCfg, exRxUp, []) :=
  @handle_rx_uplink_typed exOps 4 exSess (RegionState.init .EU868) exCfg exRxUp [] 250 3 false exEncUp rfl rfl

/-- builder Y — the twin of that frame addressed to DevAddr 98 (MIC verifying at the fresh counter 5 under the session's
key) is ignored: the hypotheses of `handle_rx_other_devaddr` hold on it and nothing changes -/
example :
    @Gen.SessionRx.Session.handle_rx RegionState exOps 4 exSess (RegionState.init .EU868) exCfg exRxOther [] 250 3 false
      = some (.NoUpdate, exSess, RegionState.init .EU868, exCfg, exRxOther, []) :=
  @handle_rx_other_devaddr exOps 4 exSess (RegionState.init .EU868) exCfg exRxOther [] 250 3 false exEncOther rfl rfl
    (by omega) (by decide) (by decide)

#print axioms tieA_handle_rx_accept
#print axioms handle_rx_uplink_typed
#print axioms handle_rx_other_devaddr
#print axioms handle_rx_unparsed
#print axioms exOps_ok
end TieA.Rx
