import LoraVerif.Props.TieA.C13Sx127
/-!
# C13, tie A for the SX127x command encoders, part 2 (builder P): `set_packet_params` and
`set_modulation_params` of `Sx127x` with the variant functions of `Sx1276` / `Sx1272`

The proofs walk through both programs one register access at a time (`tie_rd`, `tie_wr`, `tie_call`;
`Lemmas/PhyTieA127.lean`): a read is compared for every byte the chip may answer, a write needs the
two sides to have computed the same byte (`tie_val`: `Rt`'s integer operations and the model's
`UInt8` operations meet in `Nat`; table codes are evaluated value by value).
-/
open Model.Phy TieA.Phy Gen.PhyCodes127
set_option linter.unusedSimpArgs false

namespace C13

/-- `Sx127x::<Sx1276>::set_packet_params` IS the model's `setPacketParams` on an SX1276: preamble length (two
registers), the variant's header / CRC bits, RegPayloadLength in implicit-header mode, RegInvertiq / RegInvertiq2 —
every preamble, flag, length below 256, chip content and prefix. -/
theorem tieA_set_packet_params_1276 (cfg : Sx127x.Config) (hc : cfg.chip = .sx1276) (d : Gen.PhyEnc1276.Sx1276Data)
    (p : PacketParams) (hlen : p.payloadLength < 256) (c : Chip) (log : List Rt.Phy.Ev) :
    view id (Gen.PhyEnc1276.Sx127x.set_packet_params ⟨genCfg1276 cfg, d⟩ (genPkt76 p) chipDev c log)
      = denote (Sx127x.setPacketParams cfg p) c log := by
  have hv := tieA_sx1276_set_packet_params ⟨genCfg1276 cfg, d⟩ cfg hc p
  obtain ⟨pre, ih, len, crc, iq⟩ := p
  simp only at hlen
  simp only [Gen.PhyEnc1276.Sx127x.set_packet_params, Sx127x.setPacketParams, genPkt76] at hv ⊢
  tie_wr
  · simp only [Int.reduceToNat, Int.reducePow, wrap_and255_div256, hi8, UInt8.toNat_ofNat', Nat.reducePow, Nat.mod_mod]
  tie_wr
  · simp only [wrap_and255_nat, lo8, UInt8.toNat_ofNat', Nat.reducePow, Nat.mod_mod]
  tie_call (hv _ _)
  cases ih <;> cases iq
  · tie_wr
    · tie_val [if_true]
    tie_wr_end
    · tie_val [if_true]
  · tie_wr
    · tie_val [if_true]
    tie_wr_end
    · tie_val [if_true]
  · tie_wr
    · tie_val [Nat.mod_eq_of_lt hlen]
    tie_wr
    · tie_val [if_true]
    tie_wr_end
    · tie_val [if_true]
  · tie_wr
    · tie_val [Nat.mod_eq_of_lt hlen]
    tie_wr
    · tie_val [if_true]
    tie_wr_end
    · tie_val [if_true]

#print axioms tieA_set_packet_params_1276

/-- `Sx127x::<Sx1272>::set_packet_params` IS the model's `setPacketParams` on an SX1272: preamble length (two
registers), the variant's header / CRC bits, RegPayloadLength in implicit-header mode, RegInvertiq / RegInvertiq2 —
every preamble, flag, length below 256, chip content and prefix. -/
theorem tieA_set_packet_params_1272 (cfg : Sx127x.Config) (hc : cfg.chip = .sx1272) 
    (p : PacketParams) (hlen : p.payloadLength < 256) (c : Chip) (log : List Rt.Phy.Ev) :
    view id (Gen.PhyEnc1272.Sx127x.set_packet_params ⟨genCfg1272 cfg⟩ (genPkt72 p) chipDev c log)
      = denote (Sx127x.setPacketParams cfg p) c log := by
  have hv := tieA_sx1272_set_packet_params ⟨genCfg1272 cfg⟩ cfg hc p
  obtain ⟨pre, ih, len, crc, iq⟩ := p
  simp only at hlen
  simp only [Gen.PhyEnc1272.Sx127x.set_packet_params, Sx127x.setPacketParams, genPkt72] at hv ⊢
  tie_wr
  · simp only [Int.reduceToNat, Int.reducePow, wrap_and255_div256, hi8, UInt8.toNat_ofNat', Nat.reducePow, Nat.mod_mod]
  tie_wr
  · simp only [wrap_and255_nat, lo8, UInt8.toNat_ofNat', Nat.reducePow, Nat.mod_mod]
  tie_call (hv _ _)
  cases ih <;> cases iq
  · tie_wr
    · tie_val [if_true]
    tie_wr_end
    · tie_val [if_true]
  · tie_wr
    · tie_val [if_true]
    tie_wr_end
    · tie_val [if_true]
  · tie_wr
    · tie_val [Nat.mod_eq_of_lt hlen]
    tie_wr
    · tie_val [if_true]
    tie_wr_end
    · tie_val [if_true]
  · tie_wr
    · tie_val [Nat.mod_eq_of_lt hlen]
    tie_wr
    · tie_val [if_true]
    tie_wr_end
    · tie_val [if_true]

#print axioms tieA_set_packet_params_1272

end C13
