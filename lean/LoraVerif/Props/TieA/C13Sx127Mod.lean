import LoraVerif.Props.TieA.C13Sx127
/-!
# C13, tie A for the SX127x command encoders, part 2 (builder P): `set_packet_params` and
`set_modulation_params` of `Sx127x` with the variant functions of `Sx1276` / `Sx1272`

The proofs walk through both programs one register access at a time (`tie_rd`, `tie_wr`, `tie_call`;
`Lemmas/PhyTieA127.lean`): a read is compared for every byte the chip may answer, a write needs the
two sides to have computed the same byte (`tie_val`: `Rt`'s integer operations and the model's
`UInt8` operations meet in `Nat`; table codes are evaluated value by value).
-/
open Model.Phy TieA.Phy Gen.PhyCodes127
set_option linter.unusedSimpArgs false

namespace C13

/-- the remaining register accesses when every value is concrete -/
macro "tie_auto" : tactic => `(tactic| (
  repeat (first | exact tie_done _ _ | tie_rd | (tie_wr_end; tie_val []) | (tie_wr; tie_val []))))

/-- `Sx127x::<Sx1276>::set_packet_params` IS the model's `setPacketParams` on an SX1276: preamble length (two
registers), the variant's header / CRC bits, RegPayloadLength in implicit-header mode, RegInvertiq / RegInvertiq2 —
every preamble, flag, length below 256, chip content and prefix. -/
theorem tieA_set_packet_params_1276 (cfg : Sx127x.Config) (hc : cfg.chip = .sx1276) (d : Gen.PhyEnc1276.Sx1276Data)
    (p : PacketParams) (hlen : p.payloadLength < 256) (c : Chip) (log : List Rt.Phy.Ev) :
    view id (Gen.PhyEnc1276.Sx127x.set_packet_params ⟨genCfg1276 cfg, d⟩ (genPkt76 p) chipDev c log)
      = denote (Sx127x.setPacketParams cfg p) c log := by
  have hv := tieA_sx1276_set_packet_params ⟨genCfg1276 cfg, d⟩ cfg hc p
  obtain ⟨pre, ih, len, crc, iq⟩ := p
  simp only at hlen
  simp only [Gen.PhyEnc1276.Sx127x.set_packet_params, Sx127x.setPacketParams, genPkt76] at hv ⊢
  tie_wr
  · simp only [Int.reduceToNat, Int.reducePow, wrap_and255_div256, hi8, UInt8.toNat_ofNat', Nat.reducePow, Nat.mod_mod]
  tie_wr
  · simp only [wrap_and255_nat, lo8, UInt8.toNat_ofNat', Nat.reducePow, Nat.mod_mod]
  tie_call (hv _ _)
  cases ih <;> cases iq
  · tie_wr
    · tie_val [if_true]
    tie_wr_end
    · tie_val [if_true]
  · tie_wr
    · tie_val [if_true]
    tie_wr_end
    · tie_val [if_true]
  · tie_wr
    · tie_val [Nat.mod_eq_of_lt hlen]
    tie_wr
    · tie_val [if_true]
    tie_wr_end
    · tie_val [if_true]
  · tie_wr
    · tie_val [Nat.mod_eq_of_lt hlen]
    tie_wr
    · tie_val [if_true]
    tie_wr_end
    · tie_val [if_true]

#print axioms tieA_set_packet_params_1276

/-- `Sx127x::<Sx1272>::set_packet_params` IS the model's `setPacketParams` on an SX1272: preamble length (two
registers), the variant's header / CRC bits, RegPayloadLength in implicit-header mode, RegInvertiq / RegInvertiq2 —
every preamble, flag, length below 256, chip content and prefix. -/
theorem tieA_set_packet_params_1272 (cfg : Sx127x.Config) (hc : cfg.chip = .sx1272) 
    (p : PacketParams) (hlen : p.payloadLength < 256) (c : Chip) (log : List Rt.Phy.Ev) :
    view id (Gen.PhyEnc1272.Sx127x.set_packet_params ⟨genCfg1272 cfg⟩ (genPkt72 p) chipDev c log)
      = denote (Sx127x.setPacketParams cfg p) c log := by
  have hv := tieA_sx1272_set_packet_params ⟨genCfg1272 cfg⟩ cfg hc p
  obtain ⟨pre, ih, len, crc, iq⟩ := p
  simp only at hlen
  simp only [Gen.PhyEnc1272.Sx127x.set_packet_params, Sx127x.setPacketParams, genPkt72] at hv ⊢
  tie_wr
  · simp only [Int.reduceToNat, Int.reducePow, wrap_and255_div256, hi8, UInt8.toNat_ofNat', Nat.reducePow, Nat.mod_mod]
  tie_wr
  · simp only [wrap_and255_nat, lo8, UInt8.toNat_ofNat', Nat.reducePow, Nat.mod_mod]
  tie_call (hv _ _)
  cases ih <;> cases iq
  · tie_wr
    · tie_val [if_true]
    tie_wr_end
    · tie_val [if_true]
  · tie_wr
    · tie_val [if_true]
    tie_wr_end
    · tie_val [if_true]
  · tie_wr
    · tie_val [Nat.mod_eq_of_lt hlen]
    tie_wr
    · tie_val [if_true]
    tie_wr_end
    · tie_val [if_true]
  · tie_wr
    · tie_val [Nat.mod_eq_of_lt hlen]
    tie_wr
    · tie_val [if_true]
    tie_wr_end
    · tie_val [if_true]

#print axioms tieA_set_packet_params_1272

/-! ## modulation parameters -/

abbrev genMod76 (m : Sx127x.ModulationParams) : Gen.PhyEnc1276.ModulationParams :=
  { spreading_factor := m.sf, bandwidth := m.bw, coding_rate := m.cr, low_data_rate_optimize := m.ldro.toNat, frequency_in_hz := m.freq }
abbrev genMod72 (m : Sx127x.ModulationParams) : Gen.PhyEnc1272.ModulationParams :=
  { spreading_factor := m.sf, bandwidth := m.bw, coding_rate := m.cr, low_data_rate_optimize := m.ldro.toNat, frequency_in_hz := m.freq }

/-- the generated `Result`-valued code tables are the `Option`-valued ones the model reads -/
theorem gen_sf_value_1272 {σ : Type} (sf : SpreadingFactor) :
    (Gen.PhyEnc1272.spreading_factor_value sf : Rt.Phy.IoM Gen.PhyErr.RadioError σ Int) =
      match spreading_factor_value sf with | some v => pure v | none => Rt.Phy.throw .UnavailableSpreadingFactor := by
  cases sf <;> rfl
theorem gen_bw_value_1272 {σ : Type} (bw : Bandwidth) :
    (Gen.PhyEnc1272.Sx1272.bandwidth_value bw : Rt.Phy.IoM Gen.PhyErr.RadioError σ Int) =
      match Sx127x.bandwidthValue .sx1272 bw with | some v => pure v | none => Rt.Phy.throw .UnavailableBandwidth := by
  cases bw <;> rfl
theorem gen_cr_value_1272 {σ : Type} (cr : CodingRate) :
    (Gen.PhyEnc1272.coding_rate_value cr : Rt.Phy.IoM Gen.PhyErr.RadioError σ Int) =
      match coding_rate_value cr with | some v => pure v | none => Rt.Phy.throw .InvalidConfiguration := by
  cases cr <;> rfl
theorem gen_crd_value_1272 {σ : Type} (cr : CodingRate) :
    (Gen.PhyEnc1272.coding_rate_denominator_value cr : Rt.Phy.IoM Gen.PhyErr.RadioError σ Int) =
      match coding_rate_denominator_value cr with | some v => pure v | none => Rt.Phy.throw .InvalidConfiguration := by
  cases cr <;> rfl

/-- `Sx1272::set_modulation_params` IS the model's variant program: RegModemConfig1 (bandwidth code, coding rate, LDRO;
bits 2..1 kept) and RegModemConfig2 (spreading factor; low nibble kept) by read-modify-write, the `Err` of an
unavailable bandwidth / spreading factor before any request and of the coding rate after the first read — every
parameter record (any LDRO byte), chip content and prefix. -/
theorem tieA_sx1272_set_modulation_params (radio : Gen.PhyEnc1272.Sx127x) (cfg : Sx127x.Config) (hc : cfg.chip = .sx1272) (d : Sx127x.Data)
    (m : Sx127x.ModulationParams) (c : Chip) (log : List Rt.Phy.Ev) :
    view id (Gen.PhyEnc1272.Sx1272.set_modulation_params radio (genMod72 m) chipDev c log)
      = denote (Sx127x.variantSetModulationParams cfg d m) c log := by
  obtain ⟨chip, tcxo, boost, rxb⟩ := cfg
  simp only at hc; subst hc
  obtain ⟨sf, bw, cr, ldro, f⟩ := m
  simp only [Gen.PhyEnc1272.Sx1272.set_modulation_params, Sx127x.variantSetModulationParams, genMod72, gen_sf_value_1272, gen_bw_value_1272,
    gen_cr_value_1272, Sx127x.errOr]
  cases hbw : Sx127x.bandwidthValue .sx1272 bw with
  | none => simp [view, radioErr]
  | some vbw =>
  cases hsf : spreading_factor_value sf with
  | none => simp [view, radioErr]
  | some vsf =>
  have hsfb : 6 ≤ vsf ∧ vsf ≤ 12 := by cases sf <;> cases hsf <;> decide
  have hbwb : 0 ≤ vbw ∧ vbw ≤ 2 := by cases bw <;> cases hbw <;> decide
  tie_rd
  cases hcr : coding_rate_value cr with
  | none => simp [view, radioErr]
  | some vcr =>
  have hcrb : 1 ≤ vcr ∧ vcr ≤ 4 := by cases cr <;> cases hcr <;> decide
  tie_wr
  · cases bw <;> cases hbw <;> cases cr <;> cases hcr <;> tie_val []
  tie_rd
  tie_wr_end
  · cases sf <;> cases hsf <;> tie_val []

#print axioms tieA_sx1272_set_modulation_params

/-- `Sx127x::<Sx1272>::set_modulation_params` IS the model's `setModulationParams` on an SX1272: the three table
look-ups (their `Err` before any request), DetectionOptimize[2:0] by read-modify-write and DetectionThreshold
(0x05 / 0x0C for SF6, else 0x03 / 0x0A), then the variant's program. -/
theorem tieA_set_modulation_params_1272 (cfg : Sx127x.Config) (hc : cfg.chip = .sx1272) (d : Sx127x.Data)
    (m : Sx127x.ModulationParams) (c : Chip) (log : List Rt.Phy.Ev) :
    view id (Gen.PhyEnc1272.Sx127x.set_modulation_params ⟨genCfg1272 cfg⟩ (genMod72 m) chipDev c log)
      = denote (Sx127x.setModulationParams cfg d m) c log := by
  have hv := tieA_sx1272_set_modulation_params ⟨genCfg1272 cfg⟩ cfg hc d m
  obtain ⟨chip, tcxo, boost, rxb⟩ := cfg
  simp only at hc; subst hc
  obtain ⟨sf, bw, cr, ldro, f⟩ := m
  simp only [Gen.PhyEnc1272.Sx127x.set_modulation_params, Sx127x.setModulationParams, genMod72, gen_sf_value_1272, gen_bw_value_1272,
    gen_crd_value_1272, Sx127x.errOr] at hv ⊢
  cases hsf : spreading_factor_value sf with
  | none => simp [view, radioErr]
  | some vsf =>
  cases hbw : Sx127x.bandwidthValue .sx1272 bw with
  | none => simp [view, radioErr]
  | some vbw =>
  cases hcr : coding_rate_denominator_value cr with
  | none => simp [view, radioErr]
  | some vcr =>
  by_cases h6 : sf = ._6
  · subst h6
    tie_rd
    tie_wr
    · tie_val []
    tie_wr
    · tie_val []
    rw [bind_pure_unit]
    exact hv _ _
  · have e : (match sf with | ._6 => ((5, 12) : Nat × Nat) | _ => (3, 10)) = (3, 10) := by cases sf <;> first | rfl | exact absurd rfl h6
    simp only [e, h6, if_false]
    tie_rd
    tie_wr
    · tie_val []
    tie_wr
    · tie_val []
    rw [bind_pure_unit]
    exact hv _ _

#print axioms tieA_set_modulation_params_1272
theorem gen_sf_value_1276 {σ : Type} (sf : SpreadingFactor) :
    (Gen.PhyEnc1276.spreading_factor_value sf : Rt.Phy.IoM Gen.PhyErr.RadioError σ Int) =
      match spreading_factor_value sf with | some v => pure v | none => Rt.Phy.throw .UnavailableSpreadingFactor := by
  cases sf <;> rfl
theorem gen_bw_value_1276 {σ : Type} (bw : Bandwidth) :
    (Gen.PhyEnc1276.Sx1276.bandwidth_value bw : Rt.Phy.IoM Gen.PhyErr.RadioError σ Int) =
      match Sx127x.bandwidthValue .sx1276 bw with | some v => pure v | none => Rt.Phy.throw .UnavailableBandwidth := by
  cases bw <;> rfl
theorem gen_crd_value_1276 {σ : Type} (cr : CodingRate) :
    (Gen.PhyEnc1276.coding_rate_denominator_value cr : Rt.Phy.IoM Gen.PhyErr.RadioError σ Int) =
      match coding_rate_denominator_value cr with | some v => pure v | none => Rt.Phy.throw .InvalidConfiguration := by
  cases cr <;> rfl

def genData76 (d : Sx127x.Data) : Gen.PhyEnc1276.Sx1276Data := ⟨d.sensitivityQuirk⟩

theorem tieA_sx1276_set_modulation_params (cfg : Sx127x.Config) (hc : cfg.chip = .sx1276) (d : Sx127x.Data)
    (m : Sx127x.ModulationParams) (c : Chip) (log : List Rt.Phy.Ev) :
    view id (Gen.PhyEnc1276.Sx1276.set_modulation_params ⟨genCfg1276 cfg, genData76 d⟩ (genMod76 m) chipDev c log)
      = denote (Sx127x.variantSetModulationParams cfg d m) c log := by
  obtain ⟨chip, tcxo, boost, rxb⟩ := cfg
  simp only at hc; subst hc
  obtain ⟨sf, bw, cr, ldro, f⟩ := m
  obtain ⟨quirk⟩ := d
  simp only [Gen.PhyEnc1276.Sx1276.set_modulation_params, Sx127x.variantSetModulationParams, genMod76, genData76, gen_sf_value_1276, gen_bw_value_1276,
    gen_crd_value_1276, Sx127x.errOr]
  cases hbw : Sx127x.bandwidthValue .sx1276 bw with
  | none => simp [view, radioErr]
  | some vbw =>
  cases hsf : spreading_factor_value sf with
  | none => simp [view, radioErr]
  | some vsf =>
  cases hcr : coding_rate_denominator_value cr with
  | none => simp [view, radioErr]
  | some vcr =>
  have hsfb : 6 ≤ vsf ∧ vsf ≤ 12 := by cases sf <;> cases hsf <;> decide
  have hbwb : 0 ≤ vbw ∧ vbw ≤ 9 := by cases bw <;> cases hbw <;> decide
  tie_rd
  tie_wr
  · cases sf <;> cases hsf <;> tie_val []
  tie_rd
  tie_wr
  · cases bw <;> cases hbw <;> tie_val []
  have hcrb : 5 ≤ vcr ∧ vcr ≤ 8 := by cases cr <;> cases hcr <;> decide
  tie_rd
  tie_wr
  · cases cr <;> cases hcr <;> tie_val []
  tie_rd
  tie_wr
  · by_cases hl : ldro = 0
    · subst hl; tie_val []
    · have hl' : ¬ ((ldro.toNat : Int) = 0) := by
        intro h; apply hl; apply UInt8.toNat_inj.mp; simpa using h
      have hl2 : (ldro != 0) = true := by simpa using hl
      simp only [hl2]
      split
      · tie_val []
      · rename_i h
        exact absurd (decide_eq_true (p := (ldro.toNat : Int) ≠ 0) hl') h
  -- errata 2.1 (only on silicon 0x12, `quirk`): the 500 kHz optimisation registers; errata 2.3: AutomaticIFOn / IfFreq
  cases quirk
  · cases bw <;> (
      tie_norm [if_true, Sx127x.hzOf, Bandwidth.hz]
      tie_auto)
  · cases bw
    case _500KHz =>
      by_cases h1 : 862000000 ≤ f ∧ f ≤ 1020000000
      · have g1 : (862000000 : Int) ≤ (f : Int) ∧ (f : Int) ≤ 1020000000 := by omega
        tie_norm [if_true, Sx127x.hzOf, Bandwidth.hz, h1, g1, and_self, and_true, true_and, decide_true]
        tie_auto
      · have g1 : ¬ ((862000000 : Int) ≤ (f : Int) ∧ (f : Int) ≤ 1020000000) := by omega
        by_cases h2 : 410000000 ≤ f ∧ f ≤ 525000000
        · have g2 : (410000000 : Int) ≤ (f : Int) ∧ (f : Int) ≤ 525000000 := by omega
          tie_norm [if_true, Sx127x.hzOf, Bandwidth.hz, h1, g1, h2, g2, and_self, and_true, true_and, and_false, decide_true, decide_false]
          tie_auto
        · have g2 : ¬ ((410000000 : Int) ≤ (f : Int) ∧ (f : Int) ≤ 525000000) := by omega
          tie_norm [if_true, Sx127x.hzOf, Bandwidth.hz, h1, g1, h2, g2, and_self, and_true, true_and, and_false, decide_true, decide_false]
          tie_auto
    all_goals (
      tie_norm [if_true, Sx127x.hzOf, Bandwidth.hz, false_and, and_false, decide_false]
      tie_auto)

#print axioms tieA_sx1276_set_modulation_params
/-- `Sx127x::<Sx1276>::set_modulation_params` IS the model's `setModulationParams` on an SX1276 (with the errata 2.1 / 2.3 register writes of the variant): the three table
look-ups (their `Err` before any request), DetectionOptimize[2:0] by read-modify-write and DetectionThreshold
(0x05 / 0x0C for SF6, else 0x03 / 0x0A), then the variant's program. -/
theorem tieA_set_modulation_params_1276 (cfg : Sx127x.Config) (hc : cfg.chip = .sx1276) (d : Sx127x.Data)
    (m : Sx127x.ModulationParams) (c : Chip) (log : List Rt.Phy.Ev) :
    view id (Gen.PhyEnc1276.Sx127x.set_modulation_params ⟨genCfg1276 cfg, genData76 d⟩ (genMod76 m) chipDev c log)
      = denote (Sx127x.setModulationParams cfg d m) c log := by
  have hv := tieA_sx1276_set_modulation_params cfg hc d m
  obtain ⟨chip, tcxo, boost, rxb⟩ := cfg
  simp only at hc; subst hc
  obtain ⟨sf, bw, cr, ldro, f⟩ := m
  simp only [Gen.PhyEnc1276.Sx127x.set_modulation_params, Sx127x.setModulationParams, genMod76, gen_sf_value_1276, gen_bw_value_1276,
    gen_crd_value_1276, Sx127x.errOr] at hv ⊢
  cases hsf : spreading_factor_value sf with
  | none => simp [view, radioErr]
  | some vsf =>
  cases hbw : Sx127x.bandwidthValue .sx1276 bw with
  | none => simp [view, radioErr]
  | some vbw =>
  cases hcr : coding_rate_denominator_value cr with
  | none => simp [view, radioErr]
  | some vcr =>
  by_cases h6 : sf = ._6
  · subst h6
    tie_rd
    tie_wr
    · tie_val []
    tie_wr
    · tie_val []
    rw [bind_pure_unit]
    exact hv _ _
  · have e : (match sf with | ._6 => ((5, 12) : Nat × Nat) | _ => (3, 10)) = (3, 10) := by cases sf <;> first | rfl | exact absurd rfl h6
    simp only [e, h6, if_false]
    tie_rd
    tie_wr
    · tie_val []
    tie_wr
    · tie_val []
    rw [bind_pure_unit]
    exact hv _ _

#print axioms tieA_set_modulation_params_1276

/-! ## symbol-count RX timeout -/

macro "tie_wr_last" : tactic => `(tactic| (
  try tie_norm [if_true]
  refine tie_write_last _ _ _ (by first | exact gen_write_1276 _ _ _ | exact gen_write_1272 _ _ _) _ ?_ _ _))

/-- `Sx127x::set_lora_symbol_num_timeout` IS the model's `setLoraSymbolNumTimeout`: the count clamped to 1023, its bits
9..8 into RegModemConfig2[1:0] by read-modify-write (always performed), its low byte into RegSymbTimeoutLsb — every
`u16` count (indeed every natural number), chip content and prefix. -/
theorem tieA_set_lora_symbol_num_timeout_127x (self : Gen.PhyEnc1276.Sx127x) (n : Nat) (c : Chip) (log : List Rt.Phy.Ev) :
    view id (Gen.PhyEnc1276.Sx127x.set_lora_symbol_num_timeout self (n : Int) chipDev c log)
      = denote (Sx127x.setLoraSymbolNumTimeout n) c log := by
  have e : min (n : Int) 1023 = ((min n 1023 : Nat) : Int) := by omega
  have e' : (if decide ((n : Int) > 1023) = true then (1023 : Int) else (n : Int)) = ((min n 1023 : Nat) : Int) := by
    split <;> rename_i h <;> simp only [decide_eq_true_eq] at h <;> omega
  simp only [Gen.PhyEnc1276.Sx127x.set_lora_symbol_num_timeout, Sx127x.setLoraSymbolNumTimeout, Sx127x.SX127X_MAX_LORA_SYMB_NUM_TIMEOUT, e, e']
  have hv : min n 1023 ≤ 1023 := by omega
  generalize min n 1023 = v at hv ⊢
  have e2 : (v : Int) / 256 = ((v / 256 : Nat) : Int) := by omega
  have hq : v / 256 ≤ 3 := by omega
  tie_norm [Int.reduceToNat, Int.reducePow, e2]
  generalize v / 256 = q at hq ⊢
  tie_rd
  tie_wr
  · have hq' : q = 0 ∨ q = 1 ∨ q = 2 ∨ q = 3 := by omega
    rcases hq' with rfl | rfl | rfl | rfl <;> tie_val []
  tie_wr_last
  · have w : Rt.wrap .u8 (v : Int) = ((v % 256 : Nat) : Int) := by
      simp only [Rt.wrap, Rt.ITy.bits, Rt.ITy.signed, Bool.false_eq_true, if_false]; omega
    simp only [wrap_and255_nat, w, UInt8.toNat_ofNat', Nat.reducePow, Nat.mod_mod]

#print axioms tieA_set_lora_symbol_num_timeout_127x

/-- non-vacuity: 600 symbols = 0x258 on a chip whose RegModemConfig2 reads 0x74 -/
example : Gen.PhyEnc1276.Sx127x.set_lora_symbol_num_timeout ⟨⟨⟨⟩, false, true, false⟩, ⟨false⟩⟩ 600
    (fun (_ : Unit) _ n => (List.replicate n 0x74, ())) () [] =
    some (.ok (), (), [.spi [0x1E] 1, .busy, .spi [0x9E, 0x76] 0, .busy, .spi [0x9F, 0x58] 0, .busy]) := rfl

/-- non-vacuity: SF7 / 125 kHz / 4-5 on an SX1276 (silicon 0x12) whose registers all read 0x25 -/
example : Gen.PhyEnc1276.Sx127x.set_modulation_params ⟨⟨⟨⟩, false, true, false⟩, ⟨true⟩⟩
    (genMod76 ⟨._7, ._125KHz, ._4_5, 0, 868100000⟩) (fun (_ : Unit) _ n => (List.replicate n 0x25, ())) () [] =
    some (.ok (), (), [.spi [0x31] 1, .busy, .spi [0xB1, 0x23] 0, .busy, .spi [0xB7, 0x0A] 0, .busy,
      .spi [0x1E] 1, .busy, .spi [0x9E, 0x75] 0, .busy, .spi [0x1D] 1, .busy, .spi [0x9D, 0x75] 0, .busy,
      .spi [0x1D] 1, .busy, .spi [0x9D, 0x23] 0, .busy, .spi [0x26] 1, .busy, .spi [0xA6, 0x21] 0, .busy,
      .spi [0xB6, 0x03] 0, .busy, .spi [0x31] 1, .busy, .spi [0xB1, 0x25] 0, .busy, .spi [0xAF, 0x40] 0, .busy, .spi [0xB0, 0x00] 0, .busy]) := rfl

/-- non-vacuity: implicit header, CRC on, inverted IQ on an SX1272 whose registers all read 0 -/
example : Gen.PhyEnc1272.Sx127x.set_packet_params ⟨⟨⟨⟩, false, true, false⟩⟩ (genPkt72 ⟨8, true, 17, true, true⟩)
    (fun (_ : Unit) _ n => (List.replicate n 0, ())) () [] =
    some (.ok (), (), [.spi [0xA0, 0] 0, .busy, .spi [0xA1, 8] 0, .busy, .spi [0x1D] 1, .busy, .spi [0x9D, 6] 0, .busy,
      .spi [0xA2, 17] 0, .busy, .spi [0xB3, 0x66] 0, .busy, .spi [0xBB, 0x19] 0, .busy]) := rfl

end C13
