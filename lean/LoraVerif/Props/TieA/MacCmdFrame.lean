import LoraVerif.Props.C03
import LoraVerif.Gen.MacCmdFn
import LoraVerif.Props.TieA.Tactics
/-!
# Tie A for the downlink MAC-command iterator: the framing step (C03; used by C08)

`Gen/MacCmdFn.lean` holds what `#[derive(CommandHandler)]` generates for `DownlinkMacCommand` — the payload structs
with `new_from_raw` / `max_len` and `MacCommandSet::parse_one`, EXPANDED by the translator from the `quote!`
templates of lorawan-macros/src/lib.rs with the `#[cmd(cid, len)]` attributes of maccommands.rs — and the source's
`MacCommands::next` for that set.  Here the regenerated framing step is proved EQUAL, for every octet stream, to
the hand model of C03 (`MacCmd.parseOne` / `MacCmd.next` over the table `Gen.CmdTables.downlinkMacCommand`) and to
the independent specification's splitter (`Spec.MacCmd.split` over LoRaWAN 1.0.4 Table 4).
-/
set_option linter.unusedSimpArgs false
set_option linter.unusedVariables false
namespace TieA.MacCmdFrame
open MacCmd

def ints (d : List Nat) : List Int := d.map Int.ofNat
def nats (d : List Int) : List Nat := d.map Int.toNat

@[simp] theorem nats_ints (d : List Nat) : nats (ints d) = d := by
  simp only [nats, ints, List.map_map]
  induction d with
  | nil => rfl
  | cons a t ih => simp only [List.map_cons, ih]; rfl

@[simp] theorem ints_nil : ints [] = [] := rfl

@[simp] theorem ints_length (d : List Nat) : (ints d).length = d.length := by simp [ints]

theorem idx_ints (d : List Nat) (i : Nat) : Rt.idx (ints d) (i : Int) = (d[i]?).map Int.ofNat := by
  have : ¬ ((i : Int) < 0) := by omega
  simp [Rt.idx, this, ints]

theorem slice_ints (d : List Nat) (a b : Nat) :
    Rt.slice (ints d) (a : Int) (b : Int) = if a ≤ b ∧ b ≤ d.length then some (ints ((d.drop a).take (b - a))) else none := by
  unfold Rt.slice
  by_cases h : a ≤ b ∧ b ≤ d.length
  · have h' : (0 : Int) ≤ (a : Int) ∧ (a : Int) ≤ (b : Int) ∧ (b : Int) ≤ ((ints d).length : Int) := by
      simp only [ints_length]; omega
    rw [if_pos h', if_pos h]
    simp only [Int.toNat_natCast, ints, List.map_take, List.map_drop]
  · have h' : ¬ ((0 : Int) ≤ (a : Int) ∧ (a : Int) ≤ (b : Int) ∧ (b : Int) ≤ ((ints d).length : Int)) := by
      simp only [ints_length]; omega
    rw [if_neg h', if_neg h]

theorem sliceFrom_ints (d : List Nat) (a : Nat) :
    Rt.sliceFrom (ints d) (a : Int) = if a ≤ d.length then some (ints (d.drop a)) else none := by
  unfold Rt.sliceFrom
  by_cases h : a ≤ d.length
  · have h' : (0 : Int) ≤ (a : Int) ∧ (a : Int) ≤ ((ints d).length : Int) := by simp only [ints_length]; omega
    rw [if_pos h', if_pos h]
    simp only [Int.toNat_natCast, ints, List.map_drop]
  · have h' : ¬ ((0 : Int) ≤ (a : Int) ∧ (a : Int) ≤ ((ints d).length : Int)) := by simp only [ints_length]; omega
    rw [if_neg h', if_neg h]

/-- a panic carries no value -/
def toOpt {α} : Outcome α → Option α
  | .ok a => some a
  | .panic _ => none

/-- the table of the set, regenerated from the `#[cmd]` attributes (C03's `T`) -/
def TD : Table := C03.T Gen.CmdTables.downlinkMacCommand

/-- what a yielded command is: CID (LoRaWAN 1.0.4 Table 4), variant, payload type, the octets its payload view borrows -/
def infoOf : Gen.MacCmdFn.DownlinkMacCommand → Nat × String × String × List Int
  | .LinkCheckAns p => (2, "LinkCheckAns", "LinkCheckAnsPayload", p._0)
  | .LinkADRReq p => (3, "LinkADRReq", "LinkADRReqPayload", p._0)
  | .DutyCycleReq p => (4, "DutyCycleReq", "DutyCycleReqPayload", p._0)
  | .RXParamSetupReq p => (5, "RXParamSetupReq", "RXParamSetupReqPayload", p._0)
  | .DevStatusReq _ => (6, "DevStatusReq", "DevStatusReqPayload", [])
  | .NewChannelReq p => (7, "NewChannelReq", "NewChannelReqPayload", p._0)
  | .RXTimingSetupReq p => (8, "RXTimingSetupReq", "RXTimingSetupReqPayload", p._0)
  | .TXParamSetupReq p => (9, "TXParamSetupReq", "TXParamSetupReqPayload", p._0)
  | .DlChannelReq p => (10, "DlChannelReq", "DlChannelReqPayload", p._0)
  | .DeviceTimeAns p => (13, "DeviceTimeAns", "DeviceTimeAnsPayload", p._0)

/-- the same of a command of the model -/
def cmdUp (c : MacCmd.Cmd) : Nat × String × String × List Int := (c.cid, c.variant, c.payloadTy, ints c.payload)

def errOf : Gen.MacCmdFn.ParseError → MacCmd.ParseError
  | .UnknownCid c => .unknownCid c.toNat
  | .Truncated c => .truncated c.toNat

def oneOf : Gen.MacCmdFn.ParseOne → Except MacCmd.ParseError ((Nat × String × String × List Int) × Int)
  | .Ok c n => .ok (infoOf c, n)
  | .Err e => .error (errOf e)

def oneUp : Except MacCmd.ParseError (MacCmd.Cmd × Nat) → Except MacCmd.ParseError ((Nat × String × String × List Int) × Int)
  | .ok (c, k) => .ok (cmdUp c, (k : Int))
  | .error e => .error e

/-- the model's `parse_one` on a fixed-length command -/
theorem model_fixed (cid len : Nat) (v pt : String) (rest : List Nat)
    (h : TD.lookup cid = some ⟨cid, some len, v, pt⟩) :
    parseOne TD varLen (cid :: rest) =
      if rest.length < len then .ok (.error (.truncated cid)) else .ok (.ok (⟨cid, v, pt, rest.take len⟩, 1 + len)) := by
  unfold parseOne
  simp only [index, List.getElem?_cons_zero, Outcome.ok_bind, h, List.length_cons]
  by_cases hl : rest.length < len
  · have : rest.length + 1 < 1 + len := by omega
    simp only [hl, this, if_true]
  · have h1 : ¬ rest.length + 1 < 1 + len := by omega
    have h2 : 1 ≤ 1 + len ∧ 1 + len ≤ rest.length + 1 := by omega
    simp only [hl, h1, if_false, slice, List.length_cons, h2, and_self, if_true, Outcome.ok_bind, List.drop_succ_cons, List.drop_zero,
      Nat.add_sub_cancel_left]

theorem model_unknown (cid : Nat) (rest : List Nat) (h : TD.lookup cid = none) :
    parseOne TD varLen (cid :: rest) = .ok (.error (.unknownCid cid)) := by
  unfold parseOne
  simp only [index, List.getElem?_cons_zero, Outcome.ok_bind, h]


theorem idx0 (cid : Nat) (rest : List Nat) : Rt.idx (ints (cid :: rest)) 0 = some (cid : Int) := by
  have := idx_ints (cid :: rest) 0
  simpa using this

theorem slice1 (cid : Nat) (rest : List Nat) (len : Nat) (k : Int) (hk : k = 1 + (len : Int)) (h : ¬ rest.length < len) :
    Rt.slice (ints (cid :: rest)) 1 k = some (ints (rest.take len)) := by
  have := slice_ints (cid :: rest) 1 (1 + len)
  have h2 : 1 ≤ 1 + len ∧ 1 + len ≤ (cid :: rest).length := by simp only [List.length_cons]; omega
  simp only [h2, and_self, if_true, List.drop_succ_cons, List.drop_zero, Nat.add_sub_cancel_left] at this
  subst hk
  simpa using this

/-- one known-CID arm of the regenerated `parse_one` against the model (`n`: the payload length of the arm) -/
macro "arm_tac" n:term : tactic =>
  `(tactic| (
    intro rest
    rw [model_fixed _ _ _ _ rest (by rfl)]
    unfold Gen.MacCmdFn.DownlinkMacCommand.parse_one
    simp only [idx0, Option.bind_eq_bind, Option.bind_some]
    by_cases hl : rest.length < $n
    · simp (disch := omega) [hl, Gen.MacCmdFn.LinkCheckAnsPayload.max_len, Gen.MacCmdFn.LinkADRReqPayload.max_len, Gen.MacCmdFn.DutyCycleReqPayload.max_len, Gen.MacCmdFn.RXParamSetupReqPayload.max_len, Gen.MacCmdFn.DevStatusReqPayload.max_len, Gen.MacCmdFn.NewChannelReqPayload.max_len, Gen.MacCmdFn.RXTimingSetupReqPayload.max_len, Gen.MacCmdFn.TXParamSetupReqPayload.max_len, Gen.MacCmdFn.DlChannelReqPayload.max_len, Gen.MacCmdFn.DeviceTimeAnsPayload.max_len, Rt.ck_usize]
      rw [if_pos (by omega)]
      simp [oneOf, errOf, toOpt, oneUp]
    · simp (disch := omega) [hl, Gen.MacCmdFn.LinkCheckAnsPayload.max_len, Gen.MacCmdFn.LinkADRReqPayload.max_len, Gen.MacCmdFn.DutyCycleReqPayload.max_len, Gen.MacCmdFn.RXParamSetupReqPayload.max_len, Gen.MacCmdFn.DevStatusReqPayload.max_len, Gen.MacCmdFn.NewChannelReqPayload.max_len, Gen.MacCmdFn.RXTimingSetupReqPayload.max_len, Gen.MacCmdFn.TXParamSetupReqPayload.max_len, Gen.MacCmdFn.DlChannelReqPayload.max_len, Gen.MacCmdFn.DeviceTimeAnsPayload.max_len, Rt.ck_usize, slice1 _ _ $n]
      rw [if_neg (by omega)]
      simp [oneOf, errOf, toOpt, oneUp, cmdUp, infoOf, Gen.MacCmdFn.LinkCheckAnsPayload.new_from_raw, Gen.MacCmdFn.LinkADRReqPayload.new_from_raw, Gen.MacCmdFn.DutyCycleReqPayload.new_from_raw, Gen.MacCmdFn.RXParamSetupReqPayload.new_from_raw, Gen.MacCmdFn.DevStatusReqPayload.new_from_raw, Gen.MacCmdFn.NewChannelReqPayload.new_from_raw, Gen.MacCmdFn.RXTimingSetupReqPayload.new_from_raw, Gen.MacCmdFn.TXParamSetupReqPayload.new_from_raw, Gen.MacCmdFn.DlChannelReqPayload.new_from_raw, Gen.MacCmdFn.DeviceTimeAnsPayload.new_from_raw]))

theorem arm2 : ∀ rest : List Nat, (Gen.MacCmdFn.DownlinkMacCommand.parse_one (ints (2 :: rest))).map oneOf
    = (toOpt (parseOne TD varLen (2 :: rest))).map oneUp := by
  arm_tac 2

theorem arm3 : ∀ rest : List Nat, (Gen.MacCmdFn.DownlinkMacCommand.parse_one (ints (3 :: rest))).map oneOf
    = (toOpt (parseOne TD varLen (3 :: rest))).map oneUp := by
  arm_tac 4

theorem arm4 : ∀ rest : List Nat, (Gen.MacCmdFn.DownlinkMacCommand.parse_one (ints (4 :: rest))).map oneOf
    = (toOpt (parseOne TD varLen (4 :: rest))).map oneUp := by
  arm_tac 1

theorem arm5 : ∀ rest : List Nat, (Gen.MacCmdFn.DownlinkMacCommand.parse_one (ints (5 :: rest))).map oneOf
    = (toOpt (parseOne TD varLen (5 :: rest))).map oneUp := by
  arm_tac 4

theorem arm6 : ∀ rest : List Nat, (Gen.MacCmdFn.DownlinkMacCommand.parse_one (ints (6 :: rest))).map oneOf
    = (toOpt (parseOne TD varLen (6 :: rest))).map oneUp := by
  arm_tac 0

theorem arm7 : ∀ rest : List Nat, (Gen.MacCmdFn.DownlinkMacCommand.parse_one (ints (7 :: rest))).map oneOf
    = (toOpt (parseOne TD varLen (7 :: rest))).map oneUp := by
  arm_tac 5

theorem arm8 : ∀ rest : List Nat, (Gen.MacCmdFn.DownlinkMacCommand.parse_one (ints (8 :: rest))).map oneOf
    = (toOpt (parseOne TD varLen (8 :: rest))).map oneUp := by
  arm_tac 1

theorem arm9 : ∀ rest : List Nat, (Gen.MacCmdFn.DownlinkMacCommand.parse_one (ints (9 :: rest))).map oneOf
    = (toOpt (parseOne TD varLen (9 :: rest))).map oneUp := by
  arm_tac 1

theorem arm10 : ∀ rest : List Nat, (Gen.MacCmdFn.DownlinkMacCommand.parse_one (ints (10 :: rest))).map oneOf
    = (toOpt (parseOne TD varLen (10 :: rest))).map oneUp := by
  arm_tac 4

theorem arm13 : ∀ rest : List Nat, (Gen.MacCmdFn.DownlinkMacCommand.parse_one (ints (13 :: rest))).map oneOf
    = (toOpt (parseOne TD varLen (13 :: rest))).map oneUp := by
  arm_tac 5

theorem lookup_none (cid : Nat) (h : cid ∉ [2, 3, 4, 5, 6, 7, 8, 9, 10, 13]) : TD.lookup cid = none := by
  simp only [List.mem_cons, List.not_mem_nil, or_false, not_or] at h
  obtain ⟨h2, h3, h4, h5, h6, h7, h8, h9, h10, h13⟩ := h
  have e : ∀ k : Nat, cid ≠ k → (k == cid) = false := fun k hk => by simp; omega
  simp [TD, C03.T, Table.ofRows, Gen.CmdTables.downlinkMacCommand, Table.lookup, Entry.ofRow, List.find?, e _ h2, e _ h3, e _ h4,
    e _ h5, e _ h6, e _ h7, e _ h8, e _ h9, e _ h10, e _ h13]

theorem arm_unknown (cid : Nat) (h : cid ∉ [2, 3, 4, 5, 6, 7, 8, 9, 10, 13]) (rest : List Nat) :
    (Gen.MacCmdFn.DownlinkMacCommand.parse_one (ints (cid :: rest))).map oneOf = (toOpt (parseOne TD varLen (cid :: rest))).map oneUp := by
  rw [model_unknown cid rest (lookup_none cid h)]
  simp only [List.mem_cons, List.not_mem_nil, or_false, not_or] at h
  obtain ⟨h2, h3, h4, h5, h6, h7, h8, h9, h10, h13⟩ := h
  unfold Gen.MacCmdFn.DownlinkMacCommand.parse_one
  simp only [idx0, Option.bind_eq_bind, Option.bind_some]
  have e2 : ¬ ((cid : Int) = 2) := by omega
  have e3 : ¬ ((cid : Int) = 3) := by omega
  have e4 : ¬ ((cid : Int) = 4) := by omega
  have e5 : ¬ ((cid : Int) = 5) := by omega
  have e6 : ¬ ((cid : Int) = 6) := by omega
  have e7 : ¬ ((cid : Int) = 7) := by omega
  have e8 : ¬ ((cid : Int) = 8) := by omega
  have e9 : ¬ ((cid : Int) = 9) := by omega
  have e10 : ¬ ((cid : Int) = 10) := by omega
  have e13 : ¬ ((cid : Int) = 13) := by omega
  simp [e2, e3, e4, e5, e6, e7, e8, e9, e10, e13, oneOf, errOf, toOpt, oneUp]

/-- the regenerated `parse_one` of `DownlinkMacCommand` IS the model's `parseOne` over the regenerated table, on every octet
string: same command (variant, payload type, payload octets), same number of octets consumed, the same error —
`UnknownCid` / `Truncated` with the same CID — and a panic (the empty slice, excluded by the trait's contract) on the same input -/
theorem parse_one_tie (data : List Nat) :
    (Gen.MacCmdFn.DownlinkMacCommand.parse_one (ints data)).map oneOf = (toOpt (parseOne TD varLen data)).map oneUp := by
  cases data with
  | nil => rfl
  | cons cid rest =>
    by_cases h : cid ∈ [2, 3, 4, 5, 6, 7, 8, 9, 10, 13]
    · simp only [List.mem_cons, List.not_mem_nil, or_false] at h
      rcases h with rfl | rfl | rfl | rfl | rfl | rfl | rfl | rfl | rfl | rfl
      · exact arm2 rest
      · exact arm3 rest
      · exact arm4 rest
      · exact arm5 rest
      · exact arm6 rest
      · exact arm7 rest
      · exact arm8 rest
      · exact arm9 rest
      · exact arm10 rest
      · exact arm13 rest
    · exact arm_unknown cid h rest


/-! ## `MacCommands::next` and the drained iterator -/

def itemOf : Gen.MacCmdFn.NextItem → Except MacCmd.ParseError (Nat × String × String × List Int)
  | .Ok c => .ok (infoOf c)
  | .Err e => .error (errOf e)

def itemUp : MacCmd.Item → Except MacCmd.ParseError (Nat × String × String × List Int)
  | .cmd c => .ok (cmdUp c)
  | .err e => .error e

def stOf (g : Gen.MacCmdFn.MacCommands) : List Int × Bool := (g.data, g.errored)
def stUp (s : Iter) : List Int × Bool := (ints s.data, s.errored)

/-- the regenerated `MacCommands::next` (for `T = DownlinkMacCommand`) IS the model's `next`: the same item, the same
remaining slice, the same `errored` flag, a panic on the same input -/
theorem next_tie (data : List Nat) (err : Bool) :
    (Gen.MacCmdFn.MacCommands.next ⟨ints data, err⟩).map (fun r => (r.1.map itemOf, stOf r.2))
      = (toOpt (MacCmd.next TD varLen ⟨data, err⟩)).map (fun r => (r.1.map itemUp, stUp r.2)) := by
  unfold Gen.MacCmdFn.MacCommands.next MacCmd.next
  cases err with
  | true => simp [toOpt, stOf, stUp]
  | false =>
    cases data with
    | nil => simp [toOpt, stOf, stUp]
    | cons cid rest =>
      have h := parse_one_tie (cid :: rest)
      have he : (ints (cid :: rest)).isEmpty = false := by simp [ints]
      simp only [he, Bool.or_self, Bool.false_eq_true, if_false, List.isEmpty_cons, Option.bind_eq_bind]
      cases hg : Gen.MacCmdFn.DownlinkMacCommand.parse_one (ints (cid :: rest)) with
      | none =>
        cases hm : parseOne TD varLen (cid :: rest) with
        | ok x => rw [hg, hm] at h; simp [toOpt] at h
        | panic s => simp [toOpt, bind, Outcome.bind]
      | some r =>
        cases hm : parseOne TD varLen (cid :: rest) with
        | panic s => rw [hg, hm] at h; simp [toOpt] at h
        | ok x =>
          rw [hg, hm] at h
          simp only [Option.map_some, toOpt, Option.some.injEq] at h
          cases r with
          | Err e =>
            cases x with
            | ok y => obtain ⟨mc, k⟩ := y; simp [oneOf, oneUp] at h
            | error e' =>
              simp only [oneOf, oneUp, Except.error.injEq] at h
              simp [toOpt, bind, Outcome.bind, itemOf, itemUp, stOf, stUp, h]
          | Ok c n =>
            cases x with
            | error e' => simp [oneOf, oneUp] at h
            | ok y =>
              obtain ⟨mc, k⟩ := y
              simp only [oneOf, oneUp, Except.ok.injEq, Prod.mk.injEq] at h
              obtain ⟨h1, h2⟩ := h
              subst h2
              simp only [Option.bind_some, sliceFrom_ints, bind, Outcome.bind, MacCmd.sliceFrom]
              simp only [List.length_cons]
              by_cases hk : k ≤ rest.length + 1
              · simp [hk, toOpt, itemOf, itemUp, stOf, stUp, h1]
              · simp [hk, toOpt]


/-- what a `for` loop over the REGENERATED iterator observes: `next` until it returns `None`, at most `fuel` times
(items, final state, budget exhausted) — the driver of `MacCmd.runFuel`, over `Gen.MacCmdFn.MacCommands.next` -/
def genRunFuel : Nat → Gen.MacCmdFn.MacCommands → Option (List Gen.MacCmdFn.NextItem × Gen.MacCmdFn.MacCommands × Bool)
  | 0, s => some ([], s, true)
  | fuel + 1, s =>
    match Gen.MacCmdFn.MacCommands.next s with
    | none => none
    | some (none, s') => some ([], s', false)
    | some (some it, s') =>
      match genRunFuel fuel s' with
      | none => none
      | some r => some (it :: r.1, r.2.1, r.2.2)

/-- `parse_downlink_mac_commands(data)` drained: `MacCommands::new(data)` then `next` until `None` -/
def genRun (data : List Int) : Option (List Gen.MacCmdFn.NextItem × Gen.MacCmdFn.MacCommands × Bool) :=
  genRunFuel (data.length + 2) ⟨data, false⟩

def runOf (r : List Gen.MacCmdFn.NextItem × Gen.MacCmdFn.MacCommands × Bool) := (r.1.map itemOf, stOf r.2.1, r.2.2)
def runUp (r : MacCmd.Run) := (r.items.map itemUp, stUp r.final, r.hang)

theorem runFuel_tie : ∀ (fuel : Nat) (data : List Nat) (err : Bool),
    (genRunFuel fuel ⟨ints data, err⟩).map runOf = (toOpt (runFuel TD varLen fuel ⟨data, err⟩)).map runUp := by
  intro fuel
  induction fuel with
  | zero => intro data err; simp [genRunFuel, runFuel, toOpt, runOf, runUp, stOf, stUp]
  | succ fuel ih =>
    intro data err
    have h := next_tie data err
    unfold genRunFuel runFuel
    cases hg : Gen.MacCmdFn.MacCommands.next ⟨ints data, err⟩ with
    | none =>
      cases hm : MacCmd.next TD varLen ⟨data, err⟩ with
      | ok x => rw [hg, hm] at h; simp [toOpt] at h
      | panic s => simp [toOpt, bind, Outcome.bind]
    | some r =>
      cases hm : MacCmd.next TD varLen ⟨data, err⟩ with
      | panic s => rw [hg, hm] at h; simp [toOpt] at h
      | ok x =>
        rw [hg, hm] at h
        obtain ⟨o, g'⟩ := r
        obtain ⟨o', s'⟩ := x
        simp only [Option.map_some, toOpt, Option.some.injEq, Prod.mk.injEq, stOf, stUp] at h
        obtain ⟨ho, hd, he⟩ := h
        have hg' : g' = ⟨ints s'.data, s'.errored⟩ := by cases g'; simp_all
        subst hg'
        cases o with
        | none =>
          cases o' with
          | some it' => simp at ho
          | none => simp [toOpt, bind, Outcome.bind, runOf, runUp, stOf, stUp]
        | some it =>
          cases o' with
          | none => simp at ho
          | some it' =>
            simp only [Option.map_some, Option.some.injEq] at ho
            have ih' := ih s'.data s'.errored
            simp only [bind, Outcome.bind]
            cases hr : genRunFuel fuel ⟨ints s'.data, s'.errored⟩ with
            | none =>
              cases hr' : runFuel TD varLen fuel ⟨s'.data, s'.errored⟩ with
              | ok y => rw [hr, hr'] at ih'; simp [toOpt] at ih'
              | panic s => simp [toOpt, hr']
            | some y =>
              cases hr' : runFuel TD varLen fuel ⟨s'.data, s'.errored⟩ with
              | panic s => rw [hr, hr'] at ih'; simp [toOpt] at ih'
              | ok y' =>
                rw [hr, hr'] at ih'
                simp only [Option.map_some, toOpt, Option.some.injEq, runOf, runUp, Prod.mk.injEq] at ih'
                obtain ⟨i1, i2, i3⟩ := ih'
                simp [toOpt, runOf, runUp, ho, i1, i2, i3, hr']


/-! ## against the independent specification's splitter (LoRaWAN 1.0.4 Table 4, `Spec/MacCmdSpec.lean`) -/

/-- `next` on a stream whose first command is whole (by the regenerated table) -/
theorem next_ok_lk (cid n : Nat) (rest : List Nat) (v t : String) (hlk : TD.lookup cid = some ⟨cid, some n, v, t⟩)
    (hl : ¬ rest.length < n) :
    ∃ c, Gen.MacCmdFn.MacCommands.next ⟨ints (cid :: rest), false⟩ = some (some (.Ok c), ⟨ints (rest.drop n), false⟩) ∧
      infoOf c = (cid, v, t, ints (rest.take n)) := by
  have hp := parse_one_tie (cid :: rest)
  rw [model_fixed cid n v t rest hlk, if_neg hl] at hp
  cases hg : Gen.MacCmdFn.DownlinkMacCommand.parse_one (ints (cid :: rest)) with
  | none => rw [hg] at hp; simp [toOpt] at hp
  | some r =>
    rw [hg] at hp
    cases r with
    | Err e => simp [toOpt, oneOf, oneUp] at hp
    | Ok c m =>
      simp only [Option.map_some, toOpt, oneOf, oneUp, cmdUp, Option.some.injEq, Except.ok.injEq, Prod.mk.injEq] at hp
      obtain ⟨hi, hm⟩ := hp
      refine ⟨c, ?_, by simpa using hi⟩
      have he : (ints (cid :: rest)).isEmpty = false := by simp [ints]
      unfold Gen.MacCmdFn.MacCommands.next
      simp only [he, Bool.or_self, Bool.false_eq_true, if_false, hg, Option.bind_eq_bind, Option.bind_some, hm]
      have := sliceFrom_ints (cid :: rest) (1 + n)
      have hle : 1 + n ≤ (cid :: rest).length := by simp only [List.length_cons]; omega
      rw [if_pos hle] at this
      rw [this]
      simp [Nat.add_comm 1 n, List.drop_succ_cons]

/-- `next` on a stream whose first octet does not start a whole known command: the model's error, the iterator fused -/
theorem next_err_lk (cid : Nat) (rest : List Nat) (e : MacCmd.ParseError)
    (hm : parseOne TD varLen (cid :: rest) = .ok (.error e)) :
    ∃ e', errOf e' = e ∧
      Gen.MacCmdFn.MacCommands.next ⟨ints (cid :: rest), false⟩ = some (some (.Err e'), ⟨ints (cid :: rest), true⟩) := by
  have hp := parse_one_tie (cid :: rest)
  rw [hm] at hp
  cases hg : Gen.MacCmdFn.DownlinkMacCommand.parse_one (ints (cid :: rest)) with
  | none => rw [hg] at hp; simp [toOpt] at hp
  | some r =>
    rw [hg] at hp
    cases r with
    | Ok c m => simp [toOpt, oneOf, oneUp] at hp
    | Err e' =>
      refine ⟨e', by simpa [toOpt, oneOf, oneUp] using hp, ?_⟩
      have he : (ints (cid :: rest)).isEmpty = false := by simp [ints]
      unfold Gen.MacCmdFn.MacCommands.next
      simp [he, hg]

/-- an item of the regenerated iterator in the specification's vocabulary -/
def specItem : Gen.MacCmdFn.NextItem → Spec.MacCmd.Item
  | .Ok c => .cmd ⟨(infoOf c).1, (infoOf c).2.1, .fixed (infoOf c).2.2.2.length⟩ (nats (infoOf c).2.2.2)
  | .Err (.UnknownCid c) => .unknown c.toNat
  | .Err (.Truncated c) => .truncated c.toNat

/-- the regenerated table against LoRaWAN 1.0.4 Table 4, CID by CID -/
theorem spec_lookup (cid : Nat) :
    match TD.lookup cid with
    | none => Spec.MacCmd.macDownlink.find? (fun c => c.cid == cid) = none
    | some e => ∃ n, e = ⟨cid, some n, e.variant, e.payload⟩ ∧
        Spec.MacCmd.macDownlink.find? (fun c => c.cid == cid) = some ⟨cid, e.variant, .fixed n⟩ := by
  by_cases h : cid ∈ [2, 3, 4, 5, 6, 7, 8, 9, 10, 13]
  · simp only [List.mem_cons, List.not_mem_nil, or_false] at h
    rcases h with rfl | rfl | rfl | rfl | rfl | rfl | rfl | rfl | rfl | rfl <;> exact ⟨_, rfl, rfl⟩
  · rw [lookup_none cid h]
    simp only [List.mem_cons, List.not_mem_nil, or_false, not_or] at h
    obtain ⟨h2, h3, h4, h5, h6, h7, h8, h9, h10, h13⟩ := h
    have e : ∀ k : Nat, cid ≠ k → (k == cid) = false := fun k hk => by simp; omega
    simp [Spec.MacCmd.macDownlink, List.find?, e _ h2, e _ h3, e _ h4, e _ h5, e _ h6, e _ h7, e _ h8, e _ h9, e _ h10, e _ h13]

theorem next_errored (d : List Int) : Gen.MacCmdFn.MacCommands.next ⟨d, true⟩ = some (none, ⟨d, true⟩) := by
  simp [Gen.MacCmdFn.MacCommands.next]

theorem run_empty (f : Nat) : genRunFuel (f + 1) ⟨[], false⟩ = some ([], ⟨[], false⟩, false) := by
  simp [genRunFuel, Gen.MacCmdFn.MacCommands.next]

theorem run_step (f : Nat) (s s' : Gen.MacCmdFn.MacCommands) (it : Gen.MacCmdFn.NextItem)
    (r : List Gen.MacCmdFn.NextItem × Gen.MacCmdFn.MacCommands × Bool)
    (hn : Gen.MacCmdFn.MacCommands.next s = some (some it, s')) (hr : genRunFuel f s' = some r) :
    genRunFuel (f + 1) s = some (it :: r.1, r.2.1, r.2.2) := by
  simp only [genRunFuel, hn, hr]

theorem drain_spec : ∀ (k : Nat) (data : List Nat), data.length ≤ k →
    ∀ fuel fuel', data.length + 2 ≤ fuel → data.length + 1 ≤ fuel' →
    ∃ r, genRunFuel fuel ⟨ints data, false⟩ = some r ∧ r.2.2 = false ∧
      r.1.map specItem = (Spec.MacCmd.split Spec.MacCmd.macDownlink fuel' data).1 ∧
      r.2.1.data = ints (Spec.MacCmd.split Spec.MacCmd.macDownlink fuel' data).2 := by
  intro k
  induction k with
  | zero =>
    intro data hk fuel fuel' hf hf'
    have : data = [] := List.length_eq_zero_iff.mp (by omega)
    subst this
    obtain ⟨f, rfl⟩ : ∃ f, fuel = f + 1 := ⟨fuel - 1, by simp at hf; omega⟩
    obtain ⟨f', rfl⟩ : ∃ f', fuel' = f' + 1 := ⟨fuel' - 1, by simp at hf'; omega⟩
    exact ⟨_, run_empty f, rfl, by simp [Spec.MacCmd.split], by simp [Spec.MacCmd.split]⟩
  | succ k ih =>
    intro data hk fuel fuel' hf hf'
    obtain ⟨f, rfl⟩ : ∃ f, fuel = f + 1 := ⟨fuel - 1, by omega⟩
    obtain ⟨f', rfl⟩ : ∃ f', fuel' = f' + 1 := ⟨fuel' - 1, by omega⟩
    cases data with
    | nil => exact ⟨_, run_empty f, rfl, by simp [Spec.MacCmd.split], by simp [Spec.MacCmd.split]⟩
    | cons cid rest =>
      simp only [List.length_cons] at hk hf hf'
      obtain ⟨f2, rfl⟩ : ∃ f2, f = f2 + 1 := ⟨f - 1, by omega⟩
      have hs := spec_lookup cid
      cases hlk : TD.lookup cid with
      | none =>
        rw [hlk] at hs
        obtain ⟨e', he', hn⟩ := next_err_lk cid rest _ (model_unknown cid rest hlk)
        refine ⟨([.Err e'], ⟨ints (cid :: rest), true⟩, false), ?_, rfl, ?_, ?_⟩
        · simp [genRunFuel, hn, next_errored]
        · cases e' <;> simp [errOf] at he' <;> simp [Spec.MacCmd.split, hs, specItem, he']
        · simp [Spec.MacCmd.split, hs]
      | some e =>
        rw [hlk] at hs
        obtain ⟨n, hen, hfind⟩ := hs
        rw [hen] at hlk
        by_cases hl : rest.length < n
        · obtain ⟨e', he', hn⟩ := next_err_lk cid rest _ (by rw [model_fixed cid n _ _ rest hlk, if_pos hl])
          have hpl : ¬ n ≤ rest.length := by omega
          refine ⟨([.Err e'], ⟨ints (cid :: rest), true⟩, false), ?_, rfl, ?_, ?_⟩
          · simp [genRunFuel, hn, next_errored]
          · cases e' <;> simp [errOf] at he' <;> simp [Spec.MacCmd.split, hfind, Spec.MacCmd.payloadLen, hpl, specItem, he']
          · simp [Spec.MacCmd.split, hfind, Spec.MacCmd.payloadLen, hpl]
        · obtain ⟨c, hn, hi⟩ := next_ok_lk cid n rest _ _ hlk hl
          have hpl : n ≤ rest.length := by omega
          obtain ⟨r', hr', hh', hi', hd'⟩ := ih (rest.drop n) (by simp only [List.length_drop]; omega) (f2 + 1) f'
            (by simp only [List.length_drop]; omega) (by simp only [List.length_drop]; omega)
          refine ⟨(.Ok c :: r'.1, r'.2.1, r'.2.2), run_step _ _ _ _ _ hn hr', hh', ?_, ?_⟩
          · simp [Spec.MacCmd.split, hfind, Spec.MacCmd.payloadLen, hpl, specItem, hi, hi', List.length_take, Nat.min_eq_left hpl]
          · simp [Spec.MacCmd.split, hfind, Spec.MacCmd.payloadLen, hpl, hd']

theorem down_mem : ("DownlinkMacCommand", Gen.CmdTables.downlinkMacCommand) ∈ Gen.CmdTables.allSets := by decide

theorem hvl : VlTotal TD varLen := C03.vl_total _ down_mem

/-- the octets an item occupies on the wire: CID then payload for a command, nothing for the error -/
def wireOf : Gen.MacCmdFn.NextItem → List Int
  | .Ok c => ((infoOf c).1 : Int) :: (infoOf c).2.2.2
  | .Err _ => []

def isErr : Gen.MacCmdFn.NextItem → Bool
  | .Ok _ => false
  | .Err _ => true

end TieA.MacCmdFrame

namespace C03
open TieA.MacCmdFrame MacCmd

/-- builder U — the derive-generated `parse_one` of `DownlinkMacCommand` (expanded from the `quote!` templates of the
`CommandHandler` derive with the `#[cmd(cid, len)]` attributes of the current source; `Gen/MacCmdFn.lean`) IS the model's
`parseOne` over the regenerated table, for EVERY octet string: the same variant, payload type and payload octets, the
same number of octets consumed, `UnknownCid` / `Truncated` with the same CID on the same inputs, a panic on the same
input (the empty slice, which the trait's contract excludes). -/
theorem tieA_parse_one (data : List Nat) :
    (Gen.MacCmdFn.DownlinkMacCommand.parse_one (ints data)).map oneOf = (toOpt (parseOne TD varLen data)).map oneUp :=
  parse_one_tie data

/-- builder U — the source's `MacCommands::next` (for `T = DownlinkMacCommand`) IS the model's `next` in every state:
same item, same remaining slice, same `errored` flag. -/
theorem tieA_next (data : List Nat) (err : Bool) :
    (Gen.MacCmdFn.MacCommands.next ⟨ints data, err⟩).map (fun r => (r.1.map itemOf, stOf r.2))
      = (toOpt (MacCmd.next TD varLen ⟨data, err⟩)).map (fun r => (r.1.map itemUp, stUp r.2)) :=
  next_tie data err

/-- builder U — `parse_downlink_mac_commands(data)` drained through the REGENERATED `next` is the model's run, for every
octet stream: the same items in the same order, the same final state, within the same budget. -/
theorem tieA_iterator (data : List Nat) :
    (genRun (ints data)).map runOf = (toOpt (run TD varLen data)).map runUp := by
  unfold genRun run
  rw [ints_length]
  exact runFuel_tie _ data false

/-- builder U — C03's iterator theorems carried over to the regenerated iterator: on every octet stream the drain
returns (no panic) and reaches `None` within the budget; the wire octets of the yielded commands followed by the
unread rest are exactly the input (whole commands only); an error item is the last item (at most one error). -/
theorem tieA_iterator_total (data : List Nat) :
    ∃ r, genRun (ints data) = some r ∧ r.2.2 = false ∧
      (r.1.map wireOf).flatten ++ r.2.1.data = ints data ∧
      (∀ pre it post, r.1 = pre ++ it :: post → isErr it = true → post = []) := by
  have h := tieA_iterator data
  obtain ⟨m, hm, hp, _⟩ := iter_prefix TD varLen hvl data
  obtain ⟨m', hm', hf, _, _⟩ := iter_fused TD varLen hvl data
  obtain ⟨m'', hm'', hh⟩ := iter_terminates TD varLen hvl data
  rw [hm] at hm' hm''
  cases hm'; cases hm''
  rw [hm] at h
  cases hg : genRun (ints data) with
  | none => rw [hg] at h; simp [toOpt] at h
  | some r =>
    rw [hg] at h
    simp only [Option.map_some, toOpt, Option.some.injEq, runOf, runUp, Prod.mk.injEq, stOf, stUp] at h
    obtain ⟨hi, ⟨hd, he⟩, hhang⟩ := h
    have hw : ∀ (l : List Gen.MacCmdFn.NextItem) (l' : List MacCmd.Item), l.map itemOf = l'.map itemUp →
        (l.map wireOf).flatten = ints (l'.map Item.wire).flatten ∧ l.map isErr = l'.map Item.isErr := by
      intro l
      induction l with
      | nil => intro l' hl; cases l' with
        | nil => simp [ints]
        | cons a t => simp at hl
      | cons a t ih =>
        intro l' hl
        cases l' with
        | nil => simp at hl
        | cons a' t' =>
          simp only [List.map_cons, List.cons.injEq] at hl
          obtain ⟨h1, h2⟩ := ih t' hl.2
          have ha : wireOf a = ints a'.wire ∧ isErr a = a'.isErr := by
            cases a <;> cases a' <;> simp [itemOf, itemUp] at hl <;>
              simp [wireOf, Item.wire, isErr, Item.isErr, hl.1, cmdUp, Cmd.wire, ints]
          simp only [List.map_cons, List.flatten_cons, h1, h2, ha.1, ha.2, ints, List.map_append]
          exact ⟨trivial, trivial⟩
    obtain ⟨hw1, hw2⟩ := hw r.1 m.items hi
    refine ⟨r, rfl, ?_, ?_, ?_⟩
    · rw [hhang]; exact hh
    · rw [hw1, hd, ← hp]; simp [ints]
    · intro pre it post hsplit hit
      have hsplit' := congrArg (List.map isErr) hsplit
      rw [hw2] at hsplit'
      simp only [List.map_append, List.map_cons, hit] at hsplit'
      obtain ⟨pre', rest', hm1, hm2, hm3⟩ := List.map_eq_append_iff.mp hsplit'
      obtain ⟨it', post', hr1, hr2, hr3⟩ := List.map_eq_cons_iff.mp hm3
      have := hf pre' it' post' (by rw [hm1, hr1]) hr2
      subst this
      simpa using hr3.symm

/-! non-vacuity: a LinkADRReq, a DevStatusReq and a DlChannelReq cut short — two commands, then ONE `Truncated` error,
the iterator fused on the unread tail; an unknown CID (0x0B) likewise -/
example : (genRun [3, 0x51, 7, 0, 0, 6, 0x0A, 1]).map (fun r => (r.1.map wireOf, r.1.map isErr, r.2.1, r.2.2))
    = some ([[3, 0x51, 7, 0, 0], [6], []], [false, false, true], ⟨[0x0A, 1], true⟩, false) := by decide
example : (Gen.MacCmdFn.DownlinkMacCommand.parse_one [0x0B, 1, 2]) = some (.Err (.UnknownCid 0x0B)) := by decide
example : (Gen.MacCmdFn.DownlinkMacCommand.parse_one [0x0A, 1, 2]) = some (.Err (.Truncated 0x0A)) := by decide
example : (Gen.MacCmdFn.DownlinkMacCommand.parse_one [0x08, 1, 2]) = some (.Ok (.RXTimingSetupReq ⟨[1]⟩) 2) := by decide
example : (toOpt (run TD varLen [3, 0x51, 7, 0, 0, 6, 0x0A, 1])).map (fun r => (r.items.length, r.hang)) = some (3, false) := by decide

/-- builder U — the REGENERATED iterator against the independent specification: for every octet stream, draining
`parse_downlink_mac_commands` yields exactly what the specification's splitter (`Spec.MacCmd.splitAll` over LoRaWAN 1.0.4
Table 4) yields — the same whole commands (CID, name, payload octets) in the same order, then at most one error item
(`unknown` / `truncated` with the offending CID) — and leaves exactly the octets the splitter leaves unread. -/
theorem tieA_iterator_spec (data : List Nat) :
    ∃ r, genRun (ints data) = some r ∧ r.2.2 = false ∧
      r.1.map specItem = (Spec.MacCmd.splitAll Spec.MacCmd.macDownlink data).1 ∧
      r.2.1.data = ints (Spec.MacCmd.splitAll Spec.MacCmd.macDownlink data).2 := by
  unfold genRun Spec.MacCmd.splitAll
  rw [ints_length]
  exact drain_spec data.length data (Nat.le_refl _) _ _ (Nat.le_refl _) (Nat.le_refl _)

#print axioms tieA_iterator_spec
#print axioms tieA_parse_one
#print axioms tieA_next
#print axioms tieA_iterator
#print axioms tieA_iterator_total
end C03
