import LoraVerif.Model.Mac
import LoraVerif.Gen.MacStatic
/-!
# C11, tie A: the join-accept delays

The hand model's `macRxDelay` reads `JOIN_ACCEPT_DELAY1/2` of `Gen.Session` for the two windows after a
JoinRequest.  In the code the delays travel through `Configuration.join_accept_delay1/2`, initialised
by the `Configuration { .. }` literal of `Mac::new` and read by `Mac::get_rx_delay`; both are
regenerated from the current source (`Gen/MacStatic.lean`) and proved here to yield the model's values.
-/
namespace C11
open Model Gen.Region

/-- after a JoinRequest the windows open after the delays `Mac::new` stored (`JOIN_ACCEPT_DELAY1/2`),
whatever else the configuration holds — the model's `macRxDelay m true _` -/
theorem tieA_joinAcceptDelays (g : Gen.MacStatic.Configuration) (d : DR) (m : MacState)
    (hj1 : g.join_accept_delay1 = (Gen.MacStatic.Mac.new.configuration d).join_accept_delay1)
    (hj2 : g.join_accept_delay2 = (Gen.MacStatic.Mac.new.configuration d).join_accept_delay2) :
    Gen.MacStatic.Mac.get_rx_delay ⟨g⟩ .Join ._1 = some (macRxDelay m true false : Int) ∧
    Gen.MacStatic.Mac.get_rx_delay ⟨g⟩ .Join ._2 = some (macRxDelay m true true : Int) := by
  have e1 : (Gen.MacStatic.Mac.new.configuration d).join_accept_delay1 = (Gen.Session.JOIN_ACCEPT_DELAY1.toNat : Int) := rfl
  have e2 : (Gen.MacStatic.Mac.new.configuration d).join_accept_delay2 = (Gen.Session.JOIN_ACCEPT_DELAY2.toNat : Int) := rfl
  constructor
  · simp only [Gen.MacStatic.Mac.get_rx_delay, macRxDelay, hj1, e1]; rfl
  · simp only [Gen.MacStatic.Mac.get_rx_delay, macRxDelay, hj2, e2]; rfl

/-- LoRaWAN 1.0.x: JOIN_ACCEPT_DELAY1 = 5 s, JOIN_ACCEPT_DELAY2 = 6 s, in the configuration `Mac::new` builds -/
theorem tieA_joinAcceptDelays_values (d : DR) :
    Gen.MacStatic.Mac.get_rx_delay ⟨Gen.MacStatic.Mac.new.configuration d⟩ .Join ._1 = some 5000 ∧
    Gen.MacStatic.Mac.get_rx_delay ⟨Gen.MacStatic.Mac.new.configuration d⟩ .Join ._2 = some 6000 := by
  cases d <;> exact ⟨rfl, rfl⟩

example : macRxDelay (MacState.init (RegionState.init .US915) 20 0) true true = 6000 := by decide

#print axioms tieA_joinAcceptDelays
#print axioms tieA_joinAcceptDelays_values
end C11
