import LoraVerif.Model.Mac
import LoraVerif.Gen.MacStatic
import LoraVerif.Props.TieA.OtaaHandleRx
/-!
# C11, tie A: the join-accept delays

The hand model's `macRxDelay` reads `JOIN_ACCEPT_DELAY1/2` of `Gen.Session` for the two windows after a
JoinRequest.  In the code the delays travel through `Configuration.join_accept_delay1/2`, initialised
by the `Configuration { .. }` literal of `Mac::new` and read by `Mac::get_rx_delay`; both are
regenerated from the current source (`Gen/MacStatic.lean`) and proved here to yield the model's values.
-/
namespace C11
open Model Gen.Region

/-- after a JoinRequest the windows open after the delays `Mac::new` stored (`JOIN_ACCEPT_DELAY1/2`),
whatever else the configuration holds — the model's `macRxDelay m true _` -/
theorem tieA_joinAcceptDelays (g : Gen.MacStatic.Configuration) (d : DR) (m : MacState)
    (hj1 : g.join_accept_delay1 = (Gen.MacStatic.Mac.new.configuration d).join_accept_delay1)
    (hj2 : g.join_accept_delay2 = (Gen.MacStatic.Mac.new.configuration d).join_accept_delay2) :
    Gen.MacStatic.Mac.get_rx_delay ⟨g⟩ .Join ._1 = some (macRxDelay m true false : Int) ∧
    Gen.MacStatic.Mac.get_rx_delay ⟨g⟩ .Join ._2 = some (macRxDelay m true true : Int) := by
  have e1 : (Gen.MacStatic.Mac.new.configuration d).join_accept_delay1 = (Gen.Session.JOIN_ACCEPT_DELAY1.toNat : Int) := rfl
  have e2 : (Gen.MacStatic.Mac.new.configuration d).join_accept_delay2 = (Gen.Session.JOIN_ACCEPT_DELAY2.toNat : Int) := rfl
  constructor
  · simp only [Gen.MacStatic.Mac.get_rx_delay, macRxDelay, hj1, e1]; rfl
  · simp only [Gen.MacStatic.Mac.get_rx_delay, macRxDelay, hj2, e2]; rfl

/-- LoRaWAN 1.0.x: JOIN_ACCEPT_DELAY1 = 5 s, JOIN_ACCEPT_DELAY2 = 6 s, in the configuration `Mac::new` builds -/
theorem tieA_joinAcceptDelays_values (d : DR) :
    Gen.MacStatic.Mac.get_rx_delay ⟨Gen.MacStatic.Mac.new.configuration d⟩ .Join ._1 = some 5000 ∧
    Gen.MacStatic.Mac.get_rx_delay ⟨Gen.MacStatic.Mac.new.configuration d⟩ .Join ._2 = some 6000 := by
  cases d <;> exact ⟨rfl, rfl⟩

example : macRxDelay (MacState.init (RegionState.init .US915) 20 0) true true = 6000 := by decide

#print axioms tieA_joinAcceptDelays
#print axioms tieA_joinAcceptDelays_values

/-- builder N — the WHOLE join step: the state-passing translation of the current source of
`Otaa::handle_rx` (`Gen/OtaaFn.lean`, with `Session::derive_new`, `Session::new`,
`DLSettings::{rx1_dr_offset, rx2_data_rate}`, `del_to_delay_ms` translated as well) is the model's
`macHandleRx` on a joining device, for every decrypted view whose octets are octets: a session is
returned exactly when the buffer verifies under the device's AppKey (the model's `JoinSuccess`); the
new session has the keys derived from the view under the DevNonce of the pending request and that
AppKey, the view's DevAddr, counters 0, no FCntDown, nothing pending, no ACK owed; RxDelay 0 and 1 both
give 1000 ms; RX1DROffset and the RX2 data rate are stored iff the region accepts them; the CFList goes
to the region first; `Otaa` and the buffer are not changed; a panic of the region's CFList handling is
a panic of the model.  Abstract: AES/CMAC (the view and the derivations are inputs) and the region's
three methods (instantiated with the model's).  Proved in `Props/TieA/OtaaHandleRx.lean`. -/
theorem tieA_otaa_handle_rx (m : MacState) (st : OtaaState) (o : Gen.OtaaFn.Otaa) (g : Gen.OtaaFn.Configuration)
    (rx : Gen.OtaaFn.RadioBuffer) (maxPayload : Nat) (snr : Int)
    (hst : m.st = .otaa st) (hcfg : m.cfg = TieA.OtaaRx.cfgOf g) (hwf : TieA.OtaaRx.ViewWF o rx) :
    (Gen.OtaaFn.Otaa.handle_rx o m.region g rx).map
        (fun out => ((if out.1.isSome then Response.joinSuccess else Response.noUpdate), TieA.OtaaRx.macAfter m out, out.2.1, out.2.2.2.2))
      = (macHandleRx m (TieA.OtaaRx.viewOf o rx) maxPayload snr false).toOption.bind
          (fun r => r.1.map (fun ro => (ro.resp, r.2, o, rx))) :=
  TieA.OtaaRx.tieA_otaa_handle_rx m st o g rx maxPayload snr hst hcfg hwf

/-- non-vacuity: the hypotheses hold for a joining EU868 device and the example buffer of
`Props/TieA/OtaaHandleRx.lean`; the join succeeds and the model state is `Joined` -/
example :
    let m : MacState := { MacState.init (RegionState.init .EU868) 20 0 with st := .otaa ⟨100⟩ }
    ((macHandleRx m (TieA.OtaaRx.viewOf ⟨⟨100⟩, ⟨⟨⟨7⟩⟩⟩⟩ TieA.OtaaRx.exRx) 250 0 false).toOption.map
      (fun r => (r.1.map (·.resp), r.2.cfg.rx1Delay, r.2.cfg.rx1DrOffset, r.2.cfg.rx2DataRate)))
      = some (some .joinSuccess, 1000, 2, some 3) := by
  rfl

/-- builder N — the RxDelay the join step stores: 0 and 1 → 1000 ms, d = 2..15 → d·1000 ms -/
theorem tieA_otaa_rx_delay_values : ∀ k : Fin 16,
    Gen.OtaaFn.del_to_delay_ms (k.val : Int) = some ((max 1 k.val * 1000 : Nat) : Int) :=
  TieA.OtaaRx.rx_delay_values

example : Gen.OtaaFn.del_to_delay_ms 0 = some 1000 ∧ Gen.OtaaFn.del_to_delay_ms 15 = some 15000 := by decide

#print axioms tieA_otaa_handle_rx
#print axioms tieA_otaa_rx_delay_values
end C11
