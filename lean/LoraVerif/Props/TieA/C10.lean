import LoraVerif.Props.TieA.Basic
import LoraVerif.Props.TieA.DynPlan
import LoraVerif.Props.TieA.DynPlanMask
import LoraVerif.Props.TieA.Rx1Offset
import LoraVerif.Gen.MacStatic
import LoraVerif.Lemmas.RtLemmas
/-!
# C10, tie A: RX2 defaults, RX1 data-rate-offset limits, receive delays, initial configuration

The hand model's `rx2Frequency`, `maxRx1DrOffset` / `rx1DrOffsetValidate`, `macRxDelay` and the
configuration `MacState.init` starts from are proved equal to the items regenerated from the
current source: the associated constants `DEFAULT_RX2_FREQ` / `MAX_RX1_DR_OFFSET` of every region
type and the `RegionHandler` methods that read them (`Gen/RegionStatic.lean`), `Mac::get_rx_delay`
and the `Configuration { .. }` literal of `Mac::new` (`Gen/MacStatic.lean`).
-/
set_option linter.unusedSimpArgs false
namespace C10
open Model TieA Gen.Region

/-- default RX2 frequency: the region type's `DEFAULT_RX2_FREQ`, which is what
`RegionHandler::get_rx2_frequency` returns -/
theorem tieA_rx2Frequency (r : RegionId) :
    (rx2Frequency r : Int) = Gen.RegionStatic.DEFAULT_RX2_FREQ (toGen r) ∧
    (rx2Frequency r : Int) = Gen.RegionStatic.get_rx2_frequency (toGen r) := by
  cases r <;> exact ⟨rfl, rfl⟩

/-- the generated `Frame` / `Window` a (join?, second window?) pair of the model stands for -/
def frameOf (join : Bool) : Gen.MacStatic.Frame := if join then .Join else .Data
def windowOf (second : Bool) : Window := if second then ._2 else ._1

/-- `Mac::get_rx_delay` on a configuration that agrees with the model's on `rx1_delay` and still
carries the join-accept delays `Mac::new` put there is the model's `macRxDelay`: join 5 s / 6 s from
the constants, RX2 = RX1 + 1000 ms.  (`rx1_delay` is at most 15 000 in every reachable state; the
hypothesis only excludes the `u32` overflow of `+ 1000`, which the generated function reports as a panic.) -/
theorem tieA_rxDelay (g : Gen.MacStatic.Configuration) (m : MacState) (d : DR) (join second : Bool)
    (h1 : g.rx1_delay = m.cfg.rx1Delay)
    (hj1 : g.join_accept_delay1 = (Gen.MacStatic.Mac.new.configuration d).join_accept_delay1)
    (hj2 : g.join_accept_delay2 = (Gen.MacStatic.Mac.new.configuration d).join_accept_delay2)
    (hb : m.cfg.rx1Delay + 1000 ≤ 4294967295) :
    Gen.MacStatic.Mac.get_rx_delay ⟨g⟩ (frameOf join) (windowOf second) = some (macRxDelay m join second : Int) := by
  have e1 : (Gen.MacStatic.Mac.new.configuration d).join_accept_delay1 = (Gen.Session.JOIN_ACCEPT_DELAY1.toNat : Int) := rfl
  have e2 : (Gen.MacStatic.Mac.new.configuration d).join_accept_delay2 = (Gen.Session.JOIN_ACCEPT_DELAY2.toNat : Int) := rfl
  cases join <;> cases second
  · simp only [frameOf, windowOf, Gen.MacStatic.Mac.get_rx_delay, macRxDelay, h1]; rfl
  · -- the generated `rx1_delay + 1000` in whatever order the source writes it: one checked `u32` addition
    simp (disch := omega) only [frameOf, windowOf, Gen.MacStatic.Mac.get_rx_delay, macRxDelay, h1, Rt.ck_u32,
      Option.bind_some, Option.bind_eq_bind, Option.pure_def, Option.some.injEq, if_true, if_false, Bool.false_eq_true]
    omega
  · simp only [frameOf, windowOf, Gen.MacStatic.Mac.get_rx_delay, macRxDelay, hj1, e1]; rfl
  · simp only [frameOf, windowOf, Gen.MacStatic.Mac.get_rx_delay, macRxDelay, hj2, e2]; rfl

/-- the hypotheses of `tieA_rxDelay` are satisfiable: the initial state of EU868 -/
example : Gen.MacStatic.Mac.get_rx_delay ⟨Gen.MacStatic.Mac.new.configuration DR._0⟩ (frameOf false) (windowOf true)
    = some (macRxDelay (MacState.init (RegionState.init .EU868) 14 0) false true : Int) :=
  tieA_rxDelay _ _ DR._0 false true rfl rfl rfl (by decide)

/-- `RECEIVE_DELAY2 = RECEIVE_DELAY1 + 1000` evaluates without overflow, to 2000 ms -/
theorem tieA_receiveDelay2 :
    Gen.MacStatic.RECEIVE_DELAY2_chk = some (Gen.MacStatic.RECEIVE_DELAY1 + 1000) ∧
    Gen.MacStatic.RECEIVE_DELAY1 = Gen.Session.RECEIVE_DELAY1 := by decide

/-- the configuration `Mac::new` starts from (the `Configuration { .. }` literal, with the region's
`get_default_datarate`) is the one `MacState.init` starts from, field by field -/
theorem tieA_initConfiguration (r : RegionId) (maxPower : Nat) (gain : Int) :
    let g := Gen.MacStatic.Mac.new.configuration (Gen.RegionStatic.get_default_datarate (toGen r))
    let c := (MacState.init (RegionState.init r) maxPower gain).cfg
    g.data_rate.toInt = c.dataRate ∧ g.rx1_delay = c.rx1Delay ∧ g.tx_power = c.txPower.map Int.ofNat ∧
    g.rx1_dr_offset = c.rx1DrOffset ∧ g.rx2_data_rate.map DR.toInt = c.rx2DataRate.map Int.ofNat ∧
    g.rx2_frequency = c.rx2Frequency.map Int.ofNat ∧ g.adr_enabled = c.adrEnabled ∧
    g.join_accept_delay1 = Gen.Session.JOIN_ACCEPT_DELAY1 ∧ g.join_accept_delay2 = Gen.Session.JOIN_ACCEPT_DELAY2 := by
  cases r <;> exact ⟨rfl, rfl, rfl, rfl, rfl, rfl, rfl, rfl, rfl⟩

example : macRxDelay (MacState.init (RegionState.init .EU868) 14 0) false true = 2000 := by decide

#print axioms tieA_rx2Frequency
#print axioms tieA_rxDelay
#print axioms tieA_initConfiguration
/-- builder N — DlChannelReq, the WHOLE handler: the state-passing translation of the current source of
`DynamicChannelPlan::channel_dl_update` is the model's `channelDlUpdate`: answer (frequency in band, index
below 16 ∧ channel enabled ∧ defined ∧ its frequency non-zero); the downlink frequency is stored only when
both bits are set (`None` when it equals the uplink frequency: RX1 then follows the uplink), otherwise
nothing changes.  Proved in `Props/TieA/DynPlan.lean`. -/
theorem tieA_channel_dl_update (rs : RegionState)
    (p : Gen.DynPlanFn.DynamicChannelPlan) (hplan : rs.plan = .dyn (TieA.Dyn.planOf p)) (hw : TieA.Dyn.PlanWF p)
    (index freq : Int) (hi : 0 ≤ index) (hf : 0 ≤ freq) :
    (Gen.DynPlanFn.DynamicChannelPlan.channel_dl_update (TieA.Dyn.regOf rs.id) TieA.DynMask.genMops p index freq).map
        (fun o => (o.1, { rs with plan := .dyn (TieA.Dyn.planOf o.2) }))
      = (channelDlUpdate rs index.toNat freq.toNat).toOption :=
  TieA.Dyn.tieA_channel_dl_update TieA.DynMask.genMops TieA.DynMask.genMops_ok rs p hplan hw index freq hi hf


example : TieA.Dyn.MaskOk TieA.Dyn.exMops := TieA.Dyn.exMops_ok
#print axioms tieA_channel_dl_update
end C10
