import LoraVerif.Lemmas.PhyTieA127
import LoraVerif.Gen.PhyEnc1276
import LoraVerif.Gen.PhyEnc1272
import LoraVerif.Model.PhyArith
/-!
# C17, tie A for the SX127x TX-power arithmetic (builder P)

`C17.pa1276` / `C17.pa1272` (`Props/C17.lean`) are proved about the fragments
`Model.PhyArith.sx1276SetTxPower` / `sx1272SetTxPower` — the register values the variant's
`set_tx_power` computes, written by hand and compared with the real driver by the correspondence.
Here the fragments are tied to the code by proof: the method regenerated from the current source
(`Gen.PhyEnc1276` / `Gen.PhyEnc1272`), run on ANY device after any requests, performs exactly the
register writes of the fragment's values, in the driver's order, and panics exactly when the fragment
is `none` — for every integer request and both `tx_boost` settings.  So the datasheet decoding proved
in `pa1276` / `pa1272` is a statement about the bytes the current code sends.
-/
open Gen.PhyCodes127 Model.PhyArith TieA.Phy
set_option linter.unusedSimpArgs false

namespace C17

/-- the requests of a sequence of `write_register(reg, value)` on a device -/
def writes127 {σ : Type} (dev : Rt.Phy.Dev σ) : List (Register × Int) → σ → List Rt.Phy.Ev → σ × List Rt.Phy.Ev
  | [], s, log => (s, log)
  | (r, v) :: ws, s, log => writes127 dev ws (dev s [Register.write_addr r, v] 0).2 (log ++ [.spi [Register.write_addr r, v] 0, .busy])

/-- what a write-only method returns when it performs the writes `ws` (or panics: `none`) -/
def ranWrites {σ : Type} (dev : Rt.Phy.Dev σ) (ws : Option (List (Register × Int))) (s : σ) (log : List Rt.Phy.Ev) :
    Option (Except Gen.PhyErr.RadioError Unit × σ × List Rt.Phy.Ev) :=
  match ws with
  | some ws => some (.ok (), writes127 dev ws s log)
  | none => none

macro "c17_eval" : tactic => `(tactic| (
    simp +decide only [ranWrites, writes127, Rt.shrC, Rt.shlC, Rt.ITy.bits, Rt.ck, Rt.ITy.lo, Rt.ITy.hi, Rt.ITy.signed, bind_assoc_app, pure_bind_app, write_bind_app,
      ofOpt_some_bind_app, ofOpt_none_bind_app, throw_bind_app, panic_bind_app, write_app, pure_app, pure_app', throw_app, ofOpt_some_app, ite_app, ite_bind_app,
      Option.bind_eq_bind, Option.bind_some, Option.pure_def, Option.map_some, Option.map_none,
      beq_self_eq_true, if_true, beq_iff_eq, if_false, Bool.false_eq_true, Bool.true_eq_false, if_pos, if_neg, List.append_assoc, List.cons_append, List.nil_append]
    try simp +decide [Int.max_def, Int.min_def, Rt.wrap, Rt.ITy.bits, Rt.ITy.signed, Rt.andI, Rt.orI, Register.write_addr, Register.toInt, PaDac.value, PaDac.toInt, OcpTrim.value, OcpTrim.toInt,
      PaConfig.value, PaConfig.toInt]))

/-- `Sx1276::set_tx_power` writes RegPaDac, RegOcp, RegPaConfig with the values of the C17 fragment
`sx1276SetTxPower` — every request, both pins, every device and prefix -/
theorem tieA_sx1276_tx_power {σ : Type} (radio : Gen.PhyEnc1276.Sx127x) (p : Int) (boost : Bool)
    (dev : Rt.Phy.Dev σ) (s : σ) (log : List Rt.Phy.Ev) :
    Gen.PhyEnc1276.Sx1276.set_tx_power radio p boost dev s log =
      ranWrites dev ((sx1276SetTxPower p boost).map fun (cfg, dac, ocp) =>
        [(Register.RegPaDacSX1276, dac), (Register.RegOcp, ocp), (Register.RegPaConfig, cfg)]) s log := by
  cases boost
  · have hr := allFrom_elim (fun k => ∀ (s : σ) (log : List Rt.Phy.Ev), Max.max (-4) (Min.min 14 p) = k →
        Gen.PhyEnc1276.Sx1276.set_tx_power radio p false dev s log =
          ranWrites dev ((sx1276SetTxPower p false).map fun (cfg, dac, ocp) =>
            [(Register.RegPaDacSX1276, dac), (Register.RegOcp, ocp), (Register.RegPaConfig, cfg)]) s log) (-4) 19 (by
      simp only [AllFrom, Int.reduceAdd, Int.reduceNeg, and_true]
      refine ⟨?_, ?_, ?_, ?_, ?_, ?_, ?_, ?_, ?_, ?_, ?_, ?_, ?_, ?_, ?_, ?_, ?_, ?_, ?_⟩ <;> (
        intro s log hk
        clamp_forms hk (-4) 14 p
        simp only [Gen.PhyEnc1276.Sx1276.set_tx_power, sx1276SetTxPower, hk, hk2, hk3]
        try gen_unfold_helpers_PhyEnc1276
        c17_eval))
    exact hr _ (by omega) (by omega) s log rfl
  · have hr := allFrom_elim (fun k => ∀ (s : σ) (log : List Rt.Phy.Ev), Max.max 2 (Min.min 20 p) = k →
        Gen.PhyEnc1276.Sx1276.set_tx_power radio p true dev s log =
          ranWrites dev ((sx1276SetTxPower p true).map fun (cfg, dac, ocp) =>
            [(Register.RegPaDacSX1276, dac), (Register.RegOcp, ocp), (Register.RegPaConfig, cfg)]) s log) 2 19 (by
      simp only [AllFrom, Int.reduceAdd, and_true]
      refine ⟨?_, ?_, ?_, ?_, ?_, ?_, ?_, ?_, ?_, ?_, ?_, ?_, ?_, ?_, ?_, ?_, ?_, ?_, ?_⟩ <;> (
        intro s log hk
        clamp_forms hk 2 20 p
        simp only [Gen.PhyEnc1276.Sx1276.set_tx_power, sx1276SetTxPower, hk, hk2, hk3]
        try gen_unfold_helpers_PhyEnc1276
        c17_eval))
    exact hr _ (by omega) (by omega) s log rfl

#print axioms tieA_sx1276_tx_power

/-- `Sx1272::set_tx_power` writes RegPaConfig, RegPaDac with the values of the C17 fragment
`sx1272SetTxPower` — every request, both pins, every device and prefix -/
theorem tieA_sx1272_tx_power {σ : Type} (radio : Gen.PhyEnc1272.Sx127x) (p : Int) (boost : Bool)
    (dev : Rt.Phy.Dev σ) (s : σ) (log : List Rt.Phy.Ev) :
    Gen.PhyEnc1272.Sx1272.set_tx_power radio p boost dev s log =
      ranWrites dev ((sx1272SetTxPower p boost).map fun (cfg, dac) =>
        [(Register.RegPaConfig, cfg), (Register.RegPaDacSX1272, dac)]) s log := by
  cases boost
  · have hr := allFrom_elim (fun k => ∀ (s : σ) (log : List Rt.Phy.Ev), Max.max (-1) (Min.min 14 p) = k →
        Gen.PhyEnc1272.Sx1272.set_tx_power radio p false dev s log =
          ranWrites dev ((sx1272SetTxPower p false).map fun (cfg, dac) =>
            [(Register.RegPaConfig, cfg), (Register.RegPaDacSX1272, dac)]) s log) (-1) 16 (by
      simp only [AllFrom, Int.reduceAdd, Int.reduceNeg, and_true]
      refine ⟨?_, ?_, ?_, ?_, ?_, ?_, ?_, ?_, ?_, ?_, ?_, ?_, ?_, ?_, ?_, ?_⟩ <;> (
        intro s log hk
        clamp_forms hk (-1) 14 p
        simp only [Gen.PhyEnc1272.Sx1272.set_tx_power, sx1272SetTxPower, hk, hk2, hk3]
        try gen_unfold_helpers_PhyEnc1272
        c17_eval))
    exact hr _ (by omega) (by omega) s log rfl
  · by_cases hp : p > 17
    · have hr := allFrom_elim (fun k => ∀ (s : σ) (log : List Rt.Phy.Ev), Max.max 5 (Min.min 20 p) = k →
          Gen.PhyEnc1272.Sx1272.set_tx_power radio p true dev s log =
            ranWrites dev ((sx1272SetTxPower p true).map fun (cfg, dac) =>
              [(Register.RegPaConfig, cfg), (Register.RegPaDacSX1272, dac)]) s log) 18 3 (by
        simp only [AllFrom, Int.reduceAdd, Int.reduceNeg, and_true]
        refine ⟨?_, ?_, ?_⟩ <;> (
          intro s log hk
          clamp_forms hk 5 20 p
          have hk4 : min p 20 = max 5 (min 20 p) := by omega
          have hk5 : min 20 p = max 5 (min 20 p) := by omega
          rw [hk] at hk4 hk5
          simp only [Gen.PhyEnc1272.Sx1272.set_tx_power, sx1272SetTxPower, hk, hk2, hk3, hk4, hk5, hp, decide_true, if_true]
          try gen_unfold_helpers_PhyEnc1272
          c17_eval))
      exact hr _ (by omega) (by omega) s log rfl
    · have hr := allFrom_elim (fun k => ∀ (s : σ) (log : List Rt.Phy.Ev), Max.max 2 (Min.min 17 p) = k →
          Gen.PhyEnc1272.Sx1272.set_tx_power radio p true dev s log =
            ranWrites dev ((sx1272SetTxPower p true).map fun (cfg, dac) =>
              [(Register.RegPaConfig, cfg), (Register.RegPaDacSX1272, dac)]) s log) 2 16 (by
        simp only [AllFrom, Int.reduceAdd, Int.reduceNeg, and_true]
        refine ⟨?_, ?_, ?_, ?_, ?_, ?_, ?_, ?_, ?_, ?_, ?_, ?_, ?_, ?_, ?_, ?_⟩ <;> (
          intro s log hk
          clamp_forms hk 2 17 p
          have hk4 : max p 2 = max 2 (min 17 p) := by omega
          have hk5 : max 2 p = max 2 (min 17 p) := by omega
          rw [hk] at hk4 hk5
          simp only [Gen.PhyEnc1272.Sx1272.set_tx_power, sx1272SetTxPower, hk, hk2, hk3, hk4, hk5, hp, decide_false, if_false]
          try gen_unfold_helpers_PhyEnc1272
          c17_eval))
      exact hr _ (by omega) (by omega) s log rfl

#print axioms tieA_sx1272_tx_power

/-- non-vacuity: the fragment is defined and the writes are those of +20 dBm on PA_BOOST -/
example : sx1276SetTxPower 20 true = some (0x8F, 0x87, 0x3B) := by decide
example : sx1272SetTxPower (-3) false = some (0x00, 0x84) := by decide

end C17
