import LoraVerif.Props.TieA.HandleMacsAdr
/-!
# Tie A for `Session::handle_downlink_macs` — the whole method (builder S)

The induction over the list of commands the iterator yields: the regenerated loop (`Gen/SessionMacs.lean`:
`while_loop`, one `while_step` per command with `cmd_iter.peek()` = the head of the rest) run on the commands of a
well-formed stream is the model's `handleCmds` — same answer queue and latch, same configuration and region, a
panic on one side iff on the other; nothing of the session is touched but the answer queue.  The arms:
`tieA_step_*` (builder R: DevStatusReq, RXTimingSetupReq, NewChannelReq, DlChannelReq, ignored commands),
`tieA_step_rx_param`, `tieA_step_link_adr` (builder S).
-/
set_option linter.unusedSimpArgs false
set_option linter.unusedVariables false
namespace TieA.Macs
open Model Gen.Region TieA.Rx

/-- every well-formed command other than a LinkADRReq: one iteration is the model's arm -/
theorem step_tie_all (snr : Int) (x : Nat × List Nat) (hx : WfCmd x) (h3 : x.1 ≠ 3) : StepTie snr x := by
  obtain ⟨cid, p⟩ := x
  obtain ⟨hl, ho⟩ := hx
  simp only at hl h3 ho
  have hc : cid = 2 ∨ cid = 4 ∨ cid = 5 ∨ cid = 6 ∨ cid = 7 ∨ cid = 8 ∨ cid = 9 ∨ cid = 10 ∨ cid = 13 := by
    unfold downlinkCmdLen at hl
    split at hl <;> simp_all
  rcases hc with h | h | h | h | h | h | h | h | h <;> subst h
  · exact tieA_step_ignored snr 2 p (by simp)
  · exact tieA_step_ignored snr 4 p (by simp)
  · match p, hl, ho with
    | [d, f0, f1, f2], _, ho => exact tieA_step_rx_param snr d f0 f1 f2 (ho d (by simp))
  · exact tieA_step_dev_status snr p
  · match p, hl with
    | [i, f0, f1, f2, r], _ => exact tieA_step_new_channel snr i f0 f1 f2 r
  · match p, hl with
    | [d], _ => exact tieA_step_rx_timing snr d
  · exact tieA_step_ignored snr 9 p (by simp)
  · match p, hl with
    | [i, f0, f1, f2], _ => exact tieA_step_dl_channel snr i f0 f1 f2
  · exact tieA_step_ignored snr 13 p (by simp)

/-- `cmd_iter.peek()` is a LinkADRReq exactly when the model's rest of the stream starts with CID 3 -/
theorem isAdr_head (rest : List (Nat × List Nat)) (hw : ∀ x ∈ rest, WfCmd x) :
    isAdr (rest.map decCmd).head? = startsAdr rest := by
  match rest, hw with
  | [], _ => rfl
  | (cid, p) :: rest', hw =>
    obtain ⟨hl, _⟩ := hw (cid, p) (by simp)
    simp only at hl
    have hc : cid = 2 ∨ cid = 3 ∨ cid = 4 ∨ cid = 5 ∨ cid = 6 ∨ cid = 7 ∨ cid = 8 ∨ cid = 9 ∨ cid = 10 ∨ cid = 13 := by
      unfold downlinkCmdLen at hl
      split at hl <;> simp_all
    rcases hc with h | h | h | h | h | h | h | h | h | h <;> subst h
    · rfl
    · match p, hl with
      | [a, b, c, d], _ => rfl
    · rfl
    · match p, hl with
      | [a, b, c, d], _ => rfl
    · rfl
    · match p, hl with
      | [a, b, c, d, e], _ => rfl
    · match p, hl with
      | [a], _ => rfl
    · rfl
    · match p, hl with
      | [a, b, c, d], _ => rfl
    · rfl

/-- the block counter after a LinkADRReq step is at most one more than before -/
theorem adrStepModel_count (p : List Nat) (more : Bool) (c : MacCtx) (mask : Mask) (rfu : Bool) (n : Nat)
    (r : MacCtx × Mask × Bool × Nat) (h : adrStepModel p more c mask rfu n = .ok r) : r.2.2.2 ≤ n + 1 := by
  revert h
  simp only [adrStepModel, bind, Except.bind, pure, Except.pure]
  cases byteAt p 3 with
  | error e => intro h; cases h
  | ok a =>
  cases byteAt p 1 with
  | error e => intro h; cases h
  | ok b =>
  cases byteAt p 2 with
  | error e => intro h; cases h
  | ok d =>
  simp only []
  cases channelMaskUpdate c.region mask (a / 16 % 8) b d with
  | error e => intro h; cases h
  | ok upd =>
  simp only []
  cases more
  · simp only [Bool.false_eq_true, if_false]
    cases finishLinkAdrBlock c _ _ (n + 1) p with
    | error e => intro h; cases h
    | ok c' => intro h; cases h; simp
  · simp only [if_true]
    intro h; cases h; simp

/-- the regenerated loop on the commands of a well-formed stream is the model's `handleCmds`, from any block state -/
theorem loop_tie (snr : Int) : ∀ (cmds : List (Nat × List Nat)), (∀ x ∈ cmds, WfCmd x) →
    ∀ (gs : Gen.SessionRx.Session) (g : Gen.SessionRx.Configuration) (full : Bool) (mask : Mask) (nA : Nat) (rfu : Bool) (c : MacCtx),
      Rel gs g full c → gs.uplink.pending.length ≤ 15 → nA + cmds.length < 2147483647 →
      match handleCmds snr cmds c mask rfu nA with
      | .error _ => Gen.SessionMacs.Session.handle_downlink_macs.while_loop snr (cmds.map decCmd) gs g c.region full (maskOf mask) nA rfu = none
      | .ok c' => ∃ pend' g' cm' n' rfu',
          Gen.SessionMacs.Session.handle_downlink_macs.while_loop snr (cmds.map decCmd) gs g c.region full (maskOf mask) nA rfu
            = some ({ gs with uplink := { gs.uplink with pending := pend' } }, g', c'.region, c'.full, cm', n', rfu') ∧
          c'.pending = Rx.natsOf pend' ∧ c'.cfg = Rx.cfgOf g' ∧ pend'.length ≤ 15 := by
  intro cmds
  induction cmds with
  | nil =>
    intro _ gs g full mask nA rfu c hrel hq _
    simp only [handleCmds, List.map_nil, Gen.SessionMacs.Session.handle_downlink_macs.while_loop]
    exact ⟨gs.uplink.pending, g, maskOf mask, nA, rfu, by rw [hrel.full], hrel.pending, hrel.cfg, hq⟩
  | cons x rest ih =>
    intro hw gs g full mask nA rfu c hrel hq hn
    have hwx : WfCmd x := hw x (by simp)
    have hwr : ∀ y ∈ rest, WfCmd y := fun y hy => hw y (by simp [hy])
    simp only [List.length_cons] at hn
    simp only [List.map_cons, Gen.SessionMacs.Session.handle_downlink_macs.while_loop, Option.bind_eq_bind]
    by_cases h3 : x.1 = 3
    · -- a LinkADRReq
      obtain ⟨cid, p⟩ := x
      simp only at h3
      subst h3
      obtain ⟨hl, ho⟩ := hwx
      simp only at hl ho
      match p, hl, ho with
      | [b0, b1, b2, b3], _, ho =>
        have hstep := tieA_step_link_adr snr b0 b1 b2 b3 (ho b0 (by simp)) (rest.map decCmd).head? gs g full mask nA rfu c hrel hq (by omega)
        rw [isAdr_head rest hwr] at hstep
        rw [handleCmds_adr_cons]
        cases hm : adrStepModel [b0, b1, b2, b3] (startsAdr rest) c mask rfu nA with
        | error e =>
          rw [hm] at hstep
          simp only [hstep, Option.bind_none, Except.bind]
        | ok r =>
          rw [hm] at hstep
          obtain ⟨pend1, g1, hs, hp1, hg1, hq1⟩ := hstep
          have hcnt := adrStepModel_count _ _ _ _ _ _ r hm
          simp only [hs, Option.bind_some, Except.bind]
          have := ih hwr { gs with uplink := { gs.uplink with pending := pend1 } } g1 r.1.full r.2.1 r.2.2.2 r.2.2.1 r.1
            ⟨hg1, hp1, rfl⟩ hq1 (by omega)
          exact this
    · -- any other command
      have hstep := step_tie_all snr x hwx h3 gs g c.region full (maskOf mask) nA rfu (rest.map decCmd).head? c hrel rfl hq
      rw [handleCmds_cons snr x rest c mask rfu nA hwx h3]
      cases hm : stepModel snr x c with
      | error e =>
        rw [hm] at hstep
        simp only [hstep, Option.bind_none, Except.bind]
      | ok c1 =>
        rw [hm] at hstep
        obtain ⟨pend1, g1, hs, hp1, hg1, hq1⟩ := hstep
        simp only [hs, Option.bind_some, Except.bind]
        have := ih hwr { gs with uplink := { gs.uplink with pending := pend1 } } g1 c1.full mask nA rfu c1
          ⟨hg1, hp1, rfl⟩ hq1 (by omega)
        exact this

theorem filterMap_some_map {α β} (f : α → β) (l : List α) : List.filterMap id (l.map (some ∘ f)) = l.map f := by
  induction l with
  | nil => rfl
  | cons a t ih => simp [ih]

/-- the whole method on the commands the iterator yields for a well-formed stream -/
theorem handle_macs_tie (snr : Int) (cmds : List (Nat × List Nat)) (hw : ∀ x ∈ cmds, WfCmd x)
    (gs : Gen.SessionRx.Session) (g : Gen.SessionRx.Configuration) (rs : RegionState) (full : Bool)
    (hq : gs.uplink.pending.length ≤ 15) (hn : cmds.length < 2147483647) :
    match handleCmds snr cmds { cfg := Rx.cfgOf g, region := rs, pending := Rx.natsOf gs.uplink.pending, full := full } (channelMaskGet rs) false 0 with
    | .error _ => Gen.SessionMacs.Session.handle_downlink_macs gs g rs (cmds.map (some ∘ decCmd)) snr full = none
    | .ok c => ∃ pend' g', Gen.SessionMacs.Session.handle_downlink_macs gs g rs (cmds.map (some ∘ decCmd)) snr full
          = some ({ gs with uplink := { gs.uplink with pending := pend' } }, g', c.region, c.full)
        ∧ Rx.natsOf pend' = c.pending ∧ Rx.cfgOf g' = c.cfg ∧ pend'.length ≤ 15 := by
  have h := loop_tie snr cmds hw gs g full (channelMaskGet rs) 0 false
    { cfg := Rx.cfgOf g, region := rs, pending := Rx.natsOf gs.uplink.pending, full := full } ⟨rfl, rfl, rfl⟩ hq (by omega)
  unfold Gen.SessionMacs.Session.handle_downlink_macs
  simp only [filterMap_some_map, Gen.SessionMacs.MacRegionOps.channel_mask_get, Option.bind_eq_bind, Option.pure_def]
  cases hm : handleCmds snr cmds { cfg := Rx.cfgOf g, region := rs, pending := Rx.natsOf gs.uplink.pending, full := full } (channelMaskGet rs) false 0 with
  | error e =>
    rw [hm] at h
    have h' : Gen.SessionMacs.Session.handle_downlink_macs.while_loop snr (List.map decCmd cmds) gs g rs full
        (maskOf (channelMaskGet rs)) 0 false = none := h
    simp only [h', Option.bind_none]
  | ok c =>
    rw [hm] at h
    obtain ⟨pend', g', cm', n', rfu', h1, h2, h3, h4⟩ := h
    have h1' : Gen.SessionMacs.Session.handle_downlink_macs.while_loop snr (List.map decCmd cmds) gs g rs full
        (maskOf (channelMaskGet rs)) 0 false
          = some ({ gs with uplink := { gs.uplink with pending := pend' } }, g', c.region, c.full, cm', n', rfu') := h1
    exact ⟨pend', g', by simp only [h1', Option.bind_some], h2.symm, h3.symm, h4⟩

#print axioms loop_tie
#print axioms handle_macs_tie
end TieA.Macs

namespace C08
open Model TieA.Macs

/-- builder S — the RXParamSetupReq arm of `Session::handle_downlink_macs` (`Gen/SessionMacs.lean`) is the model's
`rxParamSetup`: RX1DROffset = bits 6..4 of DLSettings and the RX2 data rate = bits 3..0 (15 keeps the current one)
validated by the region, the frequency validated by the region, the three stored all together or not at all, the
answer's status bits in the order channel / RX2 data rate / RX1DROffset; the LinkADR block state and every
session field other than the answer queue untouched. -/
theorem tieA_rx_param_setup (snr : Int) (d f0 f1 f2 : Nat) (hd : d < 256) : StepTie snr (0x05, [d, f0, f1, f2]) :=
  tieA_step_rx_param snr d f0 f1 f2 hd

/-- builder S — the LinkADRReq BLOCK arm: the model's `0x03` arm of `handleCmds` is `adrStepModel` followed by the rest
(first conjunct), and one iteration of the regenerated loop on a LinkADRReq with ANY lookahead `cmd_iter.peek()`
is that step: the counter goes up, the region updates the working copy of the channel mask, a ChMaskCntl the region
does not define raises the RFU flag of the WHOLE block (it is only lowered when the block ends); while the next
command is a LinkADRReq nothing else happens; on the last command of the block the data rate (15 = keep), the
power (15 = keep) and the accumulated mask are validated, applied all together or not at all, `n` identical
LinkADRAns are pushed (`Rt.forRangeM` = the model's fold over `List.range n`) and the block state is reset
(counter 0, flag down, working copy = the mask in force). -/
theorem tieA_link_adr_block (snr : Int) :
    (∀ (p : List Nat) (rest : List (Nat × List Nat)) (c : MacCtx) (mask : Mask) (rfu : Bool) (n : Nat),
      handleCmds snr ((3, p) :: rest) c mask rfu n
        = (adrStepModel p (startsAdr rest) c mask rfu n).bind fun r => handleCmds snr rest r.1 r.2.1 r.2.2.1 r.2.2.2) ∧
    (∀ (b0 b1 b2 b3 : Nat), b0 < 256 → ∀ peek, AdrStepTie snr [b0, b1, b2, b3] peek) :=
  ⟨fun p rest c mask rfu n => handleCmds_adr_cons snr p rest c mask rfu n,
   fun b0 b1 b2 b3 h0 peek => tieA_step_link_adr snr b0 b1 b2 b3 h0 peek⟩

/-- builder S — the WHOLE of `Session::handle_downlink_macs` as the current source has it (`Gen/SessionMacs.lean`: the
`while let Some(cmd) = cmd_iter.next()` loop with `peek()` / `continue`, the `for` loop of identical LinkADRAns,
`push_answer`), run on the commands the iterator yields for any well-formed stream of octets (`decCmd`), with the
region's methods the model's, IS the model's `handleCmds` from the mask in force: same answer queue and
`answers_full` latch, same configuration, same region, nothing of the session touched but the answer queue, a
queue of at most 15 bytes stays so, and a panic on one side iff on the other.  By induction over the command list
(`loop_tie`) from the per-command arms (`tieA_handle_downlink_macs_partial`, `tieA_rx_param_setup`,
`tieA_link_adr_block`). -/
theorem tieA_handle_downlink_macs (snr : Int) (cmds : List (Nat × List Nat)) (hw : ∀ x ∈ cmds, WfCmd x)
    (gs : Gen.SessionRx.Session) (g : Gen.SessionRx.Configuration) (rs : RegionState) (full : Bool)
    (hq : gs.uplink.pending.length ≤ 15) (hn : cmds.length < 2147483647) :
    match handleCmds snr cmds { cfg := TieA.Rx.cfgOf g, region := rs, pending := TieA.Rx.natsOf gs.uplink.pending, full := full }
        (channelMaskGet rs) false 0 with
    | .error _ => Gen.SessionMacs.Session.handle_downlink_macs gs g rs (cmds.map (some ∘ decCmd)) snr full = none
    | .ok c => ∃ pend' g', Gen.SessionMacs.Session.handle_downlink_macs gs g rs (cmds.map (some ∘ decCmd)) snr full
          = some ({ gs with uplink := { gs.uplink with pending := pend' } }, g', c.region, c.full)
        ∧ TieA.Rx.natsOf pend' = c.pending ∧ TieA.Rx.cfgOf g' = c.cfg ∧ pend'.length ≤ 15 :=
  handle_macs_tie snr cmds hw gs g rs full hq hn

#print axioms tieA_rx_param_setup
#print axioms tieA_link_adr_block
#print axioms tieA_handle_downlink_macs
end C08
