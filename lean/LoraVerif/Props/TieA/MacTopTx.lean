import LoraVerif.Props.TieA.MacTopC
/-!
# Tie A for the transmit side of the MAC's state machine: `Mac::send`, `Mac::join_otaa`, `Mac::get_rx_delay`
(C04 / C09 / C10 / C11; builder C, closes part of the PARTIAL of DESIGN §9.28)

`Gen/MacTopFn.lean` holds the translation of the CURRENT source of `Mac::{send, join_otaa, get_rx_delay}`.  With the
carriers of `Props/TieA/MacTop.lean` (the model's types) the regenerated `send` is proved EQUAL to the model's `macSend`
and the regenerated `join_otaa` to `macJoinOtaa` (`Model/Mac.lean`) for every state and argument, for every record `ops`
that behaves like the model's functions on the transmit side (`SimTx`: one equation per operation —
`Session::prepare_buffer` against `prepareBuffer`, `create_tx_config` against `selectTxChannel` + `check_tx_power(0)`,
`TxConfig::adjust_power` against the i8 arithmetic, `Mac::rx_windows` against `rxWindows`, `Otaa::prepare_buffer` against
the DevNonce draw).  What the dispatch itself decides is what the theorems tie: which state transmits (`Joined` only,
`Err(NotJoined)` = `none` otherwise with NOTHING changed), the session written back BEFORE the channel is selected, the
region written back, the data rate handed to the selection (`configuration.data_rate`), the frame kind (`Data` / `Join`),
the power limit (`tx_power.min(max_power)` or `max_power`; `max_power` for a join), the antenna gain, the windows computed
on the region AFTER the selection, the counter / DevNonce returned, the join state `Otaa(..)` set.
-/
set_option linter.unusedSimpArgs false
set_option linter.unusedVariables false
namespace TieA.MacTop
open Model Gen.Region

/-- the model's frame kind of a generated `Frame` -/
def frameM : Gen.MacTopFn.Frame → FrameKind
  | .Join => .join
  | .Data => .data

theorem drOfNat_toInt_dr (d : DR) : drOfNat d.toInt.toNat = .ok d := by cases d <;> rfl

/-- the model's `Mac` the RF helpers read: configuration and region only -/
def rfMac (cfg : Config) (reg : RegionState) : MacState :=
  { cfg := cfg, region := reg, maxPower := 0, antennaGain := 0, st := .unjoined }

/-- `rxWindows` reads configuration and region only -/
theorem rxWindows_rfMac (m : MacState) (tx : TxChannel) : rxWindows m tx = rxWindows (rfMac m.cfg m.region) tx := rfl

/-- `region::Configuration::create_tx_config` in the model's terms: the channel selection, then `check_tx_power(0)
.unwrap().unwrap() as i8` on the region after the selection, the RF parameters of the selected channel -/
def createTxConfigM (gR : Rng Nat) (reg : RegionState) (dr : DR) (fk : FrameKind) (rs : Nat) :
    M (((Int × Model.RfConfig) × TxChannel) × RegionState × Nat) := do
  let (tx, reg', rs') ← selectTxChannel gR reg dr fk rs
  let p0 ← (match (← txPowerAdjust reg'.id 0) with
    | some p => pure p
    | none => Model.panic "check_tx_power(0).unwrap")
  pure (((Rt.wrap .i8 p0, rfOf tx.datarate tx.frequency), tx), reg', rs')

/-- `TxConfig::adjust_power(max_power: u8, antenna_gain: i8)`: `pw -= gain` (checked), `min(pw, max_power as i8)` -/
def adjustPowerM (t : Int × Model.RfConfig) (limit gain : Int) : Option (Int × Model.RfConfig) :=
  (Rt.ck .i8 (t.1 - gain)).map (fun pw => (min pw (Rt.wrap .i8 limit), t.2))

/-- `ops` behaves like the model's functions on the transmit side (the random generator is `gR` on a `Nat` state).
The buffer after a call (the frame octets: C01 / `C06.tieA_prepare_buffer`) is left free. -/
structure SimTx (gR : Rng Nat) (ops : GOps) : Prop where
  /-- `Session::prepare_buffer`: the counter of the frame built and the session afterwards -/
  session_prepare_buffer : ∀ s (sd : List Nat × Nat × Bool) (buf : RxView) cfg (reg : RegionState),
    (ops.session_prepare_buffer s sd buf cfg reg).map (fun (f, s', _) => (f, s'))
      = (prepareBuffer s (cfgM cfg) reg.id sd.1 sd.2.1 sd.2.2).toOption.map (fun (d, s') => ((d.fcnt : Int), s'))
  /-- `region::Configuration::create_tx_config` -/
  create_tx_config : ∀ (reg : RegionState) (rng : Nat) dr fr,
    ops.create_tx_config reg rng dr fr = (createTxConfigM gR reg dr (frameM fr) rng).toOption
  /-- `TxConfig::adjust_power` -/
  adjust_power : ∀ (t : Int × Model.RfConfig) limit gain, ops.adjust_power t limit gain = adjustPowerM t limit gain
  /-- `Mac::rx_windows` -/
  rx_windows : ∀ cfg (reg : RegionState) (tx : TxChannel),
    ops.rx_windows cfg reg tx = (rxWindows (rfMac (cfgM cfg) reg) tx).toOption
  /-- `Otaa::prepare_buffer` on whatever `Otaa::new` built: the DevNonce is the low 16 bits of one draw -/
  otaa_prepare_buffer : ∀ (o : OtaaState) (rng : Nat) (buf : RxView),
    (ops.otaa_prepare_buffer o rng buf).map (fun (n, o', rng', _) => (n, o', rng'))
      = some ((((draw gR rng).1 % 65536 : Nat) : Int), ({ devNonce := (draw gR rng).1 % 65536 } : OtaaState), (draw gR rng).2)

/-- the `u8` fields of the generated `Mac` are not negative (they are `Int` in the translation) -/
def U8Wf (g : GMac) : Prop :=
  0 ≤ g.board_eirp.max_power ∧ ∀ pw, g.configuration.tx_power = some pw → 0 ≤ pw

/-- what `send` hands back, read off the model's output -/
def sendOutG (o : SendOut) : (Int × Model.RfConfig) × (Model.RfConfig × Model.RfConfig) × Int :=
  ((o.tx.pw, o.tx.rf), (o.tx.rx1, o.tx.rx2), (o.frame.fcnt : Int))

/-- what `join_otaa` hands back, read off the model's output -/
def joinOutG (o : JoinOut) : (Int × Model.RfConfig) × (Model.RfConfig × Model.RfConfig) × Int :=
  ((o.tx.pw, o.tx.rf), (o.tx.rx1, o.tx.rx2), (o.devNonce : Int))

/-- the model's `txPowerFor` is `check_tx_power(0)` followed by `adjust_power` -/
theorem txPowerFor_split (r : RegionId) (limit : Nat) (gain : Int) :
    (txPowerFor r limit gain).toOption
      = ((do let p0 ← (match (← txPowerAdjust r 0) with
                | some p => pure p
                | none => Model.panic "check_tx_power(0).unwrap")
             pure (Rt.wrap .i8 p0) : M Int).toOption).bind
          (fun pw => (Rt.ck .i8 (pw - gain)).map (fun pw => min pw (Rt.wrap .i8 limit))) := by
  unfold txPowerFor
  cases txPowerAdjust r 0 with
  | error e => rfl
  | ok po =>
    cases po with
    | none => rfl
    | some p0 =>
      cases hck : Rt.ck .i8 (Rt.wrap .i8 (p0 : Int) - gain) with
      | none => simp [bind, Except.bind, pure, Except.pure, Except.toOption, hck, ofGen, Model.panic]
      | some pw => simp [bind, Except.bind, pure, Except.pure, Except.toOption, hck, ofGen]

theorem limit_bridge (tp : Option Int) (mp : Int) (h0 : 0 ≤ mp) (h1 : ∀ pw, tp = some pw → 0 ≤ pw) :
    (((match tp.map Int.toNat with | some p => min p mp.toNat | none => mp.toNat : Nat)) : Int)
      = (match tp with | some pw => min pw mp | none => mp) := by
  cases tp with
  | none => simp; omega
  | some pw =>
    have := h1 pw rfl
    simp; omega

/-- the transmit tail shared by `macSend` and `macJoinOtaa`: selection, power, windows -/
def txTailM {β : Type} (gR : Rng Nat) (m : MacState) (dr : DR) (fk : FrameKind) (rng : Nat) (limN : Nat)
    (k : Int × Model.RfConfig → Model.RfConfig × Model.RfConfig → RegionState → Nat → β) : M β := do
  let (tx, region, rs) ← selectTxChannel gR m.region dr fk rng
  let m' := { m with region := region }
  let pw ← txPowerFor m'.region.id limN m'.antennaGain
  let (rx1, rx2) ← rxWindows m' tx
  pure (k (pw, rfOf tx.datarate tx.frequency) (rx1, rx2) region rs)

theorem macSend_joined (gR : Rng Nat) (c : Config) (reg : RegionState) (mp : Nat) (ag : Int) (s : Session)
    (data : List Nat) (fport : Nat) (confirmed : Bool) (rng : Nat) :
    macSend gR ⟨c, reg, mp, ag, .joined s⟩ data fport confirmed rng
      = (do let (desc, s') ← prepareBuffer s c reg.id data fport confirmed
            let dr ← drOfNat c.dataRate
            txTailM gR ⟨c, reg, mp, ag, .joined s'⟩ dr .data rng
              (match c.txPower with | some p => min p mp | none => mp)
              (fun t w region rs => (some { tx := { pw := t.1, rf := t.2, rx1 := w.1, rx2 := w.2 }, frame := desc },
                ⟨c, region, mp, ag, .joined s'⟩, rs))) := rfl

theorem macJoinOtaa_eq (gR : Rng Nat) (c : Config) (reg : RegionState) (mp : Nat) (ag : Int) (st : JoinState) (rng : Nat) :
    macJoinOtaa gR ⟨c, reg, mp, ag, st⟩ rng
      = (do let dr ← drOfNat c.dataRate
            txTailM gR ⟨c, reg, mp, ag, .otaa { devNonce := (draw gR rng).1 % 65536 }⟩ dr .join (draw gR rng).2 mp
              (fun t w region rs => ({ tx := { pw := t.1, rf := t.2, rx1 := w.1, rx2 := w.2 }, devNonce := (draw gR rng).1 % 65536 },
                ⟨c, region, mp, ag, .otaa { devNonce := (draw gR rng).1 % 65536 }⟩, rs))) := rfl

/-- the transmit tail on both sides -/
theorem tx_tail (gR : Rng Nat) (m : MacState) (dr : DR) (fk : FrameKind) (rng : Nat) (limN : Nat) (lim : Int)
    (hl : (limN : Int) = lim) {β : Type} (k : Int × Model.RfConfig → Model.RfConfig × Model.RfConfig → RegionState → Nat → β) :
    ((createTxConfigM gR m.region dr fk rng).toOption.bind fun (tc, reg', rng') =>
        (adjustPowerM tc.1 lim m.antennaGain).bind fun t' =>
          ((rxWindows (rfMac m.cfg reg') tc.2).toOption).map fun w => k t' w reg' rng')
      = (txTailM gR m dr fk rng limN k).toOption := by
  subst hl
  unfold createTxConfigM adjustPowerM txTailM
  cases hsel : selectTxChannel gR m.region dr fk rng with
  | error e => simp [bind, Except.bind, Except.toOption]
  | ok v =>
    obtain ⟨tx, reg', rs'⟩ := v
    have hp := txPowerFor_split reg'.id limN m.antennaGain
    have hr := rxWindows_rfMac { m with region := reg' } tx
    simp only [] at hr
    cases hadj : txPowerAdjust reg'.id 0 with
    | error e =>
      rw [hadj] at hp
      cases htp : txPowerFor reg'.id limN m.antennaGain with
      | ok x => rw [htp] at hp; simp [bind, Except.bind, Except.toOption] at hp
      | error e2 => simp [bind, Except.bind, Except.toOption, hadj, htp]
    | ok po =>
      rw [hadj] at hp
      cases po with
      | none =>
        cases htp : txPowerFor reg'.id limN m.antennaGain with
        | ok x => rw [htp] at hp; simp [bind, Except.bind, Except.toOption, Model.panic] at hp
        | error e2 => simp [bind, Except.bind, Except.toOption, hadj, htp, Model.panic]
      | some p0 =>
        cases hck : Rt.ck .i8 (Rt.wrap .i8 (p0 : Int) - m.antennaGain) with
        | none =>
          cases htp : txPowerFor reg'.id limN m.antennaGain with
          | ok x => rw [htp] at hp; simp [bind, Except.bind, pure, Except.pure, Except.toOption, hck] at hp
          | error e2 => simp [bind, Except.bind, pure, Except.pure, Except.toOption, hadj, htp, hck]
        | some pw =>
          cases htp : txPowerFor reg'.id limN m.antennaGain with
          | error e2 => rw [htp] at hp; simp [bind, Except.bind, pure, Except.pure, Except.toOption, hck] at hp
          | ok x =>
            rw [htp] at hp
            simp [bind, Except.bind, pure, Except.pure, Except.toOption, hck] at hp
            cases hw : rxWindows (rfMac m.cfg reg') tx with
            | error e3 =>
              simp [bind, Except.bind, pure, Except.pure, Except.toOption, hadj, htp, hck, hr, hw]
            | ok w =>
              obtain ⟨rx1, rx2⟩ := w
              simp [bind, Except.bind, pure, Except.pure, Except.toOption, hadj, htp, hck, hr, hw, hp]

theorem send_tie (gR : Rng Nat) (ops : GOps) (h : SimTx gR ops) (g : GMac) (hw : U8Wf g) (rng : Nat) (buf : RxView)
    (sd : List Nat × Nat × Bool) :
    (Gen.MacTopFn.Mac.send ops g rng buf sd).map (fun (r, g', rng', _) => (r, macM g', rng'))
      = (macSend gR (macM g) sd.1 sd.2.1 sd.2.2 rng).toOption.map (fun (o, m', rs) => (o.map sendOutG, m', rs)) := by
  obtain ⟨cfg, reg, eirp, st⟩ := g
  obtain ⟨hw0, hw1⟩ := hw
  simp only at hw0 hw1
  cases st with
  | Unjoined => simp [Gen.MacTopFn.Mac.send, macSend, macM, stateM, Except.toOption, pure, Except.pure]
  | Otaa o => simp [Gen.MacTopFn.Mac.send, macSend, macM, stateM, Except.toOption, pure, Except.pure]
  | Joined s =>
    have hp := h.session_prepare_buffer s sd buf cfg reg
    have hdr : drOfNat (cfgM cfg).dataRate = .ok cfg.data_rate := drOfNat_toInt_dr cfg.data_rate
    -- the power limit on both sides, under a case split on the commanded level
    have hlim : ∃ lim : Int, (∀ {γ : Type} (f : Option Int → γ), f cfg.tx_power = f cfg.tx_power) ∧
        (((match (cfgM cfg).txPower with | some p => min p eirp.max_power.toNat | none => eirp.max_power.toNat : Nat)) : Int) = lim ∧
        lim = (match cfg.tx_power with | some pw => min pw eirp.max_power | none => eirp.max_power) := by
      cases htp : cfg.tx_power with
      | none => exact ⟨eirp.max_power, fun _ => rfl, by simp [cfgM, htp]; omega, rfl⟩
      | some pw => have := hw1 pw htp; exact ⟨min pw eirp.max_power, fun _ => rfl, by simp [cfgM, htp]; omega, rfl⟩
    obtain ⟨lim, -, hl, hlg⟩ := hlim
    simp only [Gen.MacTopFn.Mac.send, Gen.MacTopFn.Mac.rx_windows, macM, stateM, macSend_joined, h.create_tx_config,
      h.adjust_power, h.rx_windows]
    have hlg' : (match cfg.tx_power with | some pw => min pw eirp.max_power | none => eirp.max_power) = lim := hlg.symm
    cases hx : ops.session_prepare_buffer s sd buf cfg reg with
    | none =>
      rw [hx] at hp
      cases hm : prepareBuffer s (cfgM cfg) reg.id sd.1 sd.2.1 sd.2.2 with
      | error e => simp [hm, Except.toOption, bind, Except.bind]
      | ok v => rw [hm] at hp; simp [Except.toOption] at hp
    | some v =>
      obtain ⟨f, s', b'⟩ := v
      rw [hx] at hp
      cases hm : prepareBuffer s (cfgM cfg) reg.id sd.1 sd.2.1 sd.2.2 with
      | error e => rw [hm] at hp; simp [Except.toOption] at hp
      | ok v =>
        obtain ⟨d, s2⟩ := v
        rw [hm] at hp
        simp [Except.toOption] at hp
        obtain ⟨h1, h2⟩ := hp
        subst h1 h2
        have ht := tx_tail gR ⟨cfgM cfg, reg, eirp.max_power.toNat, eirp.antenna_gain, .joined s'⟩ cfg.data_rate .data rng _ _ hl
          (fun t w region rs => ((some { tx := { pw := t.1, rf := t.2, rx1 := w.1, rx2 := w.2 }, frame := d } : Option SendOut),
                (⟨cfgM cfg, region, eirp.max_power.toNat, eirp.antenna_gain, .joined s'⟩ : MacState), rs))
        simp only [hm, hdr, bind, Except.bind]
        rw [← ht]
        simp only [frameM]
        cases hc : (createTxConfigM gR reg cfg.data_rate .data rng).toOption with
        | none => simp [Option.bind]
        | some v =>
          obtain ⟨⟨tc, tch⟩, reg', rng'⟩ := v
          simp only [Option.bind]
          generalize hq : adjustPowerM tc _ eirp.antenna_gain = q
          have hq' : q = adjustPowerM tc lim eirp.antenna_gain := by
            rw [← hq]; exact congrArg (fun l => adjustPowerM tc l eirp.antenna_gain) hlg'
          subst hq'
          clear hq
          cases ha : adjustPowerM tc lim eirp.antenna_gain with
          | none => simp [Option.bind, ha, hlg']
          | some t' =>
            cases hwn : (rxWindows (rfMac (cfgM cfg) reg') tch).toOption with
            | none => simp [Option.bind, ha, hwn, hlg']
            | some w => simp [Option.bind, ha, hwn, hlg', macM, stateM, sendOutG]

theorem join_otaa_tie (gR : Rng Nat) (ops : GOps) (h : SimTx gR ops) (g : GMac) (hw : 0 ≤ g.board_eirp.max_power)
    (rng : Nat) (cr : Unit) (buf : RxView) :
    (Gen.MacTopFn.Mac.join_otaa ops g rng cr buf).map (fun (r, g', rng', _) => (r, macM g', rng'))
      = (macJoinOtaa gR (macM g) rng).toOption.map (fun (o, m', rs) => (joinOutG o, m', rs)) := by
  obtain ⟨cfg, reg, eirp, st⟩ := g
  simp only at hw
  have hp := h.otaa_prepare_buffer (ops.otaa_new cr) rng buf
  have hdr : drOfNat (cfgM cfg).dataRate = .ok cfg.data_rate := drOfNat_toInt_dr cfg.data_rate
  have hl : ((eirp.max_power.toNat : Nat) : Int) = eirp.max_power := Int.toNat_of_nonneg hw
  simp only [Gen.MacTopFn.Mac.join_otaa, Gen.MacTopFn.Mac.rx_windows, macM, macJoinOtaa_eq, h.create_tx_config,
    h.adjust_power, h.rx_windows]
  cases hx : ops.otaa_prepare_buffer (ops.otaa_new cr) rng buf with
  | none => rw [hx] at hp; simp at hp
  | some v =>
    obtain ⟨n, o', rng1, b'⟩ := v
    rw [hx] at hp
    simp only [Option.map_some, Option.some.injEq, Prod.mk.injEq] at hp
    obtain ⟨h1, h2, h3⟩ := hp
    subst h1 h2 h3
    have ht := tx_tail gR ⟨cfgM cfg, reg, eirp.max_power.toNat, eirp.antenna_gain, .otaa { devNonce := (draw gR rng).1 % 65536 }⟩
      cfg.data_rate .join (draw gR rng).2 _ _ hl
      (fun t w region rs => (({ tx := { pw := t.1, rf := t.2, rx1 := w.1, rx2 := w.2 }, devNonce := (draw gR rng).1 % 65536 } : JoinOut),
            (⟨cfgM cfg, region, eirp.max_power.toNat, eirp.antenna_gain, .otaa { devNonce := (draw gR rng).1 % 65536 }⟩ : MacState), rs))
    simp only [hdr, bind, Except.bind]
    rw [← ht]
    simp only [frameM]
    simp only [Option.bind_some]
    cases hc : (createTxConfigM gR reg cfg.data_rate .join (draw gR rng).2).toOption with
    | none => simp [Option.bind]
    | some v =>
      obtain ⟨⟨tc, tch⟩, reg', rng'⟩ := v
      cases ha : adjustPowerM tc eirp.max_power eirp.antenna_gain with
      | none => simp [Option.bind, ha]
      | some t' =>
        cases hwn : (rxWindows (rfMac (cfgM cfg) reg') tch).toOption with
        | none => simp [Option.bind, ha, hwn]
        | some w => simp [Option.bind, ha, hwn, macM, stateM, joinOutG]

/-- the generated configuration holds what `Mac::new` stored as join-accept delays, and an RX1 delay whose RX2
companion fits a `u32` -/
def DelayWf (g : GMac) : Prop :=
  g.configuration.join_accept_delay1 = Gen.Session.JOIN_ACCEPT_DELAY1 ∧
  g.configuration.join_accept_delay2 = Gen.Session.JOIN_ACCEPT_DELAY2 ∧
  0 ≤ g.configuration.rx1_delay ∧ g.configuration.rx1_delay + 1000 ≤ 4294967295

theorem get_rx_delay_tie (g : GMac) (hw : DelayWf g) (fr : Gen.MacTopFn.Frame) (w : Gen.MacTopFn.Window) :
    Gen.MacTopFn.Mac.get_rx_delay g fr w
      = some ((macRxDelay (macM g) (decide (fr = .Join)) (decide (w = ._2)) : Nat) : Int) := by
  obtain ⟨hj1, hj2, h0, h1⟩ := hw
  have e1 : Gen.Session.JOIN_ACCEPT_DELAY1 = ((Gen.Session.JOIN_ACCEPT_DELAY1.toNat : Nat) : Int) := by decide
  have e2 : Gen.Session.JOIN_ACCEPT_DELAY2 = ((Gen.Session.JOIN_ACCEPT_DELAY2.toNat : Nat) : Int) := by decide
  have e3 : Rt.ck .u32 (g.configuration.rx1_delay + 1000) = some (g.configuration.rx1_delay + 1000) :=
    by
    have el : Rt.ITy.lo .u32 = 0 := rfl
    have eh : Rt.ITy.hi .u32 = 4294967295 := rfl
    simp only [Rt.ck, el, eh]
    rw [if_pos ⟨by omega, by omega⟩]
  have e4 : ((g.configuration.rx1_delay.toNat : Nat) : Int) = g.configuration.rx1_delay := Int.toNat_of_nonneg h0
  cases fr <;> cases w
  · simp only [Gen.MacTopFn.Mac.get_rx_delay, macRxDelay, hj1]; exact congrArg some e1
  · simp only [Gen.MacTopFn.Mac.get_rx_delay, macRxDelay, hj2]; exact congrArg some e2
  · simp [Gen.MacTopFn.Mac.get_rx_delay, macRxDelay, macM, cfgM, e4]
  · simp [Gen.MacTopFn.Mac.get_rx_delay, macRxDelay, macM, cfgM, e3, e4]

/-- the RX2 delay of a data frame is a checked `u32` addition: it panics exactly when `rx1_delay + 1000` leaves `u32` -/
theorem get_rx_delay_overflow (g : GMac) (h0 : 0 ≤ g.configuration.rx1_delay) :
    (Gen.MacTopFn.Mac.get_rx_delay g .Data ._2 = none) ↔ 4294967295 < g.configuration.rx1_delay + 1000 := by
  have el : Rt.ITy.lo .u32 = 0 := rfl
  have eh : Rt.ITy.hi .u32 = 4294967295 := rfl
  simp only [Gen.MacTopFn.Mac.get_rx_delay, Rt.ck, el, eh]
  by_cases hc : 0 ≤ g.configuration.rx1_delay + 1000 ∧ g.configuration.rx1_delay + 1000 ≤ 4294967295
  · simp [hc] <;> omega
  · simp [hc] <;> omega

end TieA.MacTop

/-! ## `SimTx` is satisfiable: the record of operations built from the model's own functions -/
namespace TieA.MacTop
open Model Gen.Region

/-- the transmit-side operations of the model, as a record over the carriers (the receive side as in `Example.ops0`) -/
def txOps (gR : Rng Nat) : GOps :=
  { Example.ops0 with
    session_prepare_buffer := fun s sd b cfg reg =>
      (prepareBuffer s (cfgM cfg) reg.id sd.1 sd.2.1 sd.2.2).toOption.map (fun (d, s') => ((d.fcnt : Int), s', b))
    otaa_prepare_buffer := fun _ rng b =>
      some ((((draw gR rng).1 % 65536 : Nat) : Int), ({ devNonce := (draw gR rng).1 % 65536 } : OtaaState), (draw gR rng).2, b)
    create_tx_config := fun reg rng dr fr => (createTxConfigM gR reg dr (frameM fr) rng).toOption
    adjust_power := adjustPowerM
    rx_windows := fun cfg reg tx => (rxWindows (rfMac (cfgM cfg) reg) tx).toOption }

theorem txOps_sim (gR : Rng Nat) : SimTx gR (txOps gR) where
  session_prepare_buffer := by
    intro s sd buf cfg reg
    simp only [txOps]
    cases (prepareBuffer s (cfgM cfg) reg.id sd.1 sd.2.1 sd.2.2).toOption <;> rfl
  create_tx_config := by intros; rfl
  adjust_power := by intros; rfl
  rx_windows := by intros; rfl
  otaa_prepare_buffer := by intros; rfl

end TieA.MacTop

open Model TieA.MacTop

namespace C09

/- Full statement (not proved): the same equality with `ops` INSTANTIATED by the regenerated `Session::prepare_buffer`
   (`Gen.SessionTx`, tied: `C06.tieA_prepare_buffer`), `create_tx_config` (selection regenerated in `Gen.PlanSelectFn`,
   tied: `C09.tieA_*select*`; `check_tx_power` static), `TxConfig::adjust_power` (not regenerated) and `Mac::rx_windows`
   (`Gen.MacRfFn`, tied: `C10.tieA_rx_windows`).  Missing: one carrier instance on which all four units agree (each
   regenerated unit has its own projection of `Session` / `Configuration`), and a regenerated `adjust_power`. -/
/-- **Tie A.**  `Mac::send` as the current source has it = the model's `macSend`, for every state, generator state,
buffer and send request: joined → `Session::prepare_buffer` on the CURRENT configuration and region, the session written
back, then `create_tx_config` on the region with `configuration.data_rate` and `Frame::Data` (region and generator
written back), `adjust_power(tx_power.min(max_power) | max_power, antenna_gain)`, the windows for the selected channel on
the region AFTER the selection, the counter of the frame built; joining / unjoined → `Err(NotJoined)` (`none`) with the
`Mac` and the generator untouched.  A panic (`none` outside) on one side iff a panic or hang on the other. -/
theorem tieA_mac_send_partial (gR : Rng Nat) (ops : GOps) (h : SimTx gR ops) (g : GMac) (hw : U8Wf g) (rng : Nat)
    (buf : RxView) (sd : List Nat × Nat × Bool) :
    (Gen.MacTopFn.Mac.send ops g rng buf sd).map (fun (r, g', rng', _) => (r, macM g', rng'))
      = (macSend gR (macM g) sd.1 sd.2.1 sd.2.2 rng).toOption.map (fun (o, m', rs) => (o.map sendOutG, m', rs)) :=
  send_tie gR ops h g hw rng buf sd

/-- the hypothesis-free half of `send`: without a session the regenerated method answers `Err(NotJoined)` and returns
the `Mac`, the generator and the buffer it was given — for EVERY record of operations -/
theorem tieA_mac_send_not_joined (ops : GOps) (g : GMac) (rng : Nat) (buf : RxView) (sd : List Nat × Nat × Bool)
    (hn : Gen.MacTopFn.Mac.is_joined g = false) :
    Gen.MacTopFn.Mac.send ops g rng buf sd = some (none, g, rng, buf) := by
  obtain ⟨cfg, reg, eirp, st⟩ := g
  cases st with
  | Joined s => simp [Gen.MacTopFn.Mac.is_joined] at hn
  | Otaa o => rfl
  | Unjoined => rfl

end C09

namespace C04
/-- alias of `C09.tieA_mac_send_partial` (no panic of `send` beyond the model's) -/
theorem tieA_mac_send_partial (gR : Rng Nat) (ops : GOps) (h : SimTx gR ops) (g : GMac) (hw : U8Wf g) (rng : Nat)
    (buf : RxView) (sd : List Nat × Nat × Bool) :
    (Gen.MacTopFn.Mac.send ops g rng buf sd).map (fun (r, g', rng', _) => (r, macM g', rng'))
      = (macSend gR (macM g) sd.1 sd.2.1 sd.2.2 rng).toOption.map (fun (o, m', rs) => (o.map sendOutG, m', rs)) :=
  C09.tieA_mac_send_partial gR ops h g hw rng buf sd
end C04

namespace C11

/-- **Tie A.**  `Mac::join_otaa` = the model's `macJoinOtaa` (the join-request step), from ANY state: `Otaa::new` +
`prepare_buffer` draw the DevNonce (low 16 bits of one draw), the state becomes `Otaa(..)` with that nonce, then
`create_tx_config` with `configuration.data_rate` and `Frame::Join` on the generator AFTER the draw,
`adjust_power(max_power, antenna_gain)` (the commanded level is NOT applied to a join), the windows on the region after
the selection; the DevNonce is returned. -/
theorem tieA_mac_join_otaa_partial (gR : Rng Nat) (ops : GOps) (h : SimTx gR ops) (g : GMac)
    (hw : 0 ≤ g.board_eirp.max_power) (rng : Nat) (cr : Unit) (buf : RxView) :
    (Gen.MacTopFn.Mac.join_otaa ops g rng cr buf).map (fun (r, g', rng', _) => (r, macM g', rng'))
      = (macJoinOtaa gR (macM g) rng).toOption.map (fun (o, m', rs) => (joinOutG o, m', rs)) :=
  join_otaa_tie gR ops h g hw rng cr buf

end C11

namespace C10

/-- **Tie A.**  `Mac::get_rx_delay` = the model's `macRxDelay` for every frame kind and window: the stored join-accept
delays after a join request, `rx1_delay` / `rx1_delay + 1000` after a data frame (no hypothesis on `ops`: the method
calls nothing). -/
theorem tieA_mac_get_rx_delay (g : GMac) (hw : DelayWf g) (fr : Gen.MacTopFn.Frame) (w : Gen.MacTopFn.Window) :
    Gen.MacTopFn.Mac.get_rx_delay g fr w
      = some ((macRxDelay (macM g) (decide (fr = .Join)) (decide (w = ._2)) : Nat) : Int) :=
  get_rx_delay_tie g hw fr w

/-- the only panic of `get_rx_delay`: the checked `u32` addition of the RX2 delay of a data frame -/
theorem tieA_mac_get_rx_delay_overflow (g : GMac) (h0 : 0 ≤ g.configuration.rx1_delay) :
    (Gen.MacTopFn.Mac.get_rx_delay g .Data ._2 = none) ↔ 4294967295 < g.configuration.rx1_delay + 1000 :=
  get_rx_delay_overflow g h0

end C10

/-! Non-vacuity: the hypotheses hold on concrete values, and the regenerated methods evaluate on them. -/
namespace TieA.MacTop.Example
open Model Gen.Region
def gJ : GMac := { g0 with state := .Joined (Session.new 1 2 3), configuration := { cfg0 with tx_power := some 2 } }
def gr0 : Rng Nat := fun s => (s * 1103515245 + 12345, s + 1)

example : SimTx gr0 (txOps gr0) := txOps_sim gr0
example : U8Wf gJ := ⟨by decide, fun pw h => by cases h; decide⟩
example : DelayWf gJ := ⟨rfl, rfl, by decide, by decide⟩
example : Gen.MacTopFn.Mac.get_rx_delay gJ .Data ._2 = some 2000 := rfl
example : Gen.MacTopFn.Mac.get_rx_delay gJ .Join ._1 = some 5000 := rfl
example : Gen.MacTopFn.Mac.send (txOps gr0) g0 (5 : Nat) .garbage ([1, 2], 1, false) = some (none, g0, (5 : Nat), .garbage) := rfl
/-- the regenerated `send` on a joined EU868 device with commanded level 2 (limit `min 2 14`): power 2, a channel of the
plan, FCntUp 0, one draw consumed -/
example : (Gen.MacTopFn.Mac.send (txOps gr0) gJ (5 : Nat) .garbage ([1, 2], 1, false)).map
    (fun x => (x.1.map (fun t => (t.1.1, t.1.2.frequency, t.2.2)), x.2.2.1)) = some (some (2, 868500000, 0), (6 : Nat)) := by rfl
/-- the regenerated `join_otaa` on an unjoined EU868 device: power `min 16 14`, DevNonce = low 16 bits of the first draw,
two draws consumed, state `Otaa` -/
example : (Gen.MacTopFn.Mac.join_otaa (txOps gr0) g0 (5 : Nat) () .garbage).map
    (fun x => (x.1.1.1, x.1.2.2, Gen.MacTopFn.Mac.is_joined x.2.1, x.2.2.1)) = some (14, 47194, false, (8 : Nat)) := by rfl
end TieA.MacTop.Example

#print axioms C09.tieA_mac_send_partial
#print axioms C09.tieA_mac_send_not_joined
#print axioms C04.tieA_mac_send_partial
#print axioms C11.tieA_mac_join_otaa_partial
#print axioms C10.tieA_mac_get_rx_delay
#print axioms C10.tieA_mac_get_rx_delay_overflow
#print axioms TieA.MacTop.txOps_sim
