import LoraVerif.Model.PhyRx
import LoraVerif.Gen.RadioBufferFn
import LoraVerif.Props.TieA.Tactics
/-!
# Tie A for `RadioBuffer<N>` (lorawan-device/src/radio.rs) — builder B, property C18

`Gen/RadioBufferFn.lean` holds the state-passing translation of the CURRENT source of every method of
`RadioBuffer` (`clear`, `set_pos`, `extend_from_slice`, `as_mut_for_read`, `as_ref_for_read`, `as_mut`,
`as_ref`): the struct value goes in, the result and the new struct value come out, `[u8; N]` is a list,
machine integers are `Int` in `Rt`'s checked arithmetic, `none` = a Rust panic (slice expression out
of range, `copy_from_slice` length mismatch, `usize` overflow).

The theorems prove each generated method EQUAL to the method of the hand model `Model.PhyRx.RadioBuffer`
that the C18 property theorems are stated about, for every state and argument, panics included,
through the total map `bufOf` from generated to model state (`bufOf_surj`: every model buffer is an
image).  Proofs unfold the generated definition and evaluate both sides; they name no local of the source.
-/
set_option linter.unusedSimpArgs false
set_option linter.unusedVariables false
namespace C18
open Model.PhyRx

/-- the byte a generated `u8` (an `Int`) stands for -/
def byteOf (i : Int) : UInt8 := UInt8.ofNat i.toNat
/-- the byte list a generated `[u8]` stands for -/
def bytesOf (l : List Int) : Bytes := l.map byteOf

@[simp] theorem bytesOf_length (l : List Int) : (bytesOf l).length = l.length := by simp [bytesOf]
theorem bytesOf_take (l : List Int) (n : Nat) : bytesOf (l.take n) = (bytesOf l).take n := by simp [bytesOf, List.map_take]
theorem bytesOf_drop (l : List Int) (n : Nat) : bytesOf (l.drop n) = (bytesOf l).drop n := by simp [bytesOf, List.map_drop]
theorem bytesOf_append (a b : List Int) : bytesOf (a ++ b) = bytesOf a ++ bytesOf b := by simp [bytesOf]

/-- the model buffer a generated `RadioBuffer` stands for (total) -/
def bufOf (g : Gen.RadioBufferFn.RadioBuffer) : RadioBuffer := ⟨bytesOf g.packet, g.pos.toNat⟩

/-- every model buffer is the image of a generated one whose `pos` is a natural number -/
theorem bufOf_surj (b : RadioBuffer) : ∃ g : Gen.RadioBufferFn.RadioBuffer, bufOf g = b ∧ 0 ≤ g.pos := by
  refine ⟨⟨b.packet.map (fun x => (x.toNat : Int)), (b.pos : Int)⟩, ?_, by simp⟩
  obtain ⟨p, n⟩ := b
  simp [bufOf, bytesOf, byteOf, Function.comp_def]

/-- `RadioBuffer::clear` of the current source is the model's `clear` -/
theorem tieA_radio_buffer_clear (g : Gen.RadioBufferFn.RadioBuffer) :
    bufOf (Gen.RadioBufferFn.RadioBuffer.clear g) = (bufOf g).clear := by
  obtain ⟨p, n⟩ := g
  simp [Gen.RadioBufferFn.RadioBuffer.clear, bufOf, RadioBuffer.clear]

/-- `RadioBuffer::set_pos` of the current source is the model's `setPos` -/
theorem tieA_radio_buffer_set_pos (g : Gen.RadioBufferFn.RadioBuffer) (pos : Int) :
    bufOf (Gen.RadioBufferFn.RadioBuffer.set_pos g pos) = (bufOf g).setPos pos.toNat := by
  obtain ⟨p, n⟩ := g
  simp [Gen.RadioBufferFn.RadioBuffer.set_pos, bufOf, RadioBuffer.setPos]

/-- `as_mut()` hands out the whole array and leaves the buffer as it was -/
theorem tieA_radio_buffer_as_mut (g : Gen.RadioBufferFn.RadioBuffer) :
    bytesOf (Gen.RadioBufferFn.RadioBuffer.as_mut g).1 = (bufOf g).asMut ∧ (Gen.RadioBufferFn.RadioBuffer.as_mut g).2 = g := by
  obtain ⟨p, n⟩ := g
  simp [Gen.RadioBufferFn.RadioBuffer.as_mut, bufOf, RadioBuffer.asMut]

/-- `as_ref()` hands out the whole array -/
theorem tieA_radio_buffer_as_ref (g : Gen.RadioBufferFn.RadioBuffer) :
    bytesOf (Gen.RadioBufferFn.RadioBuffer.as_ref g) = (bufOf g).asMut := by
  obtain ⟨p, n⟩ := g
  simp [Gen.RadioBufferFn.RadioBuffer.as_ref, bufOf, RadioBuffer.asMut]

/-- `Rt.slice l 0 n` against the model's `sliceTo` -/
theorem slice0_bridge (l : List Int) (n : Int) (hn : 0 ≤ n) :
    (Rt.slice l 0 n).map bytesOf = (sliceTo (bytesOf l) n.toNat).map (·.1) := by
  simp only [Rt.slice, sliceTo, bytesOf_length]
  by_cases h : n.toNat ≤ l.length
  · have h' : (0 : Int) ≤ 0 ∧ 0 ≤ n ∧ n ≤ (l.length : Int) := by omega
    simp [h, h', bytesOf_take]
  · have h' : ¬ ((0 : Int) ≤ 0 ∧ 0 ≤ n ∧ n ≤ (l.length : Int)) := by omega
    rw [if_neg h', if_neg h]; rfl

/-- `as_mut_for_read` of the current source: the slice `packet[..pos]` — the model's `asMutForRead`,
the slice panic (`pos > N`) included — and the buffer is left as it was -/
theorem tieA_radio_buffer_as_mut_for_read (g : Gen.RadioBufferFn.RadioBuffer) (hpos : 0 ≤ g.pos) :
    (Gen.RadioBufferFn.RadioBuffer.as_mut_for_read g).map (fun o => (bytesOf o.1, o.2))
      = (bufOf g).asMutForRead.map (fun b => (b, g)) := by
  obtain ⟨p, n⟩ := g
  have hb := slice0_bridge p n hpos
  unfold Gen.RadioBufferFn.RadioBuffer.as_mut_for_read
  simp only [bufOf, RadioBuffer.asMutForRead, ← hb]
  try (cases Rt.slice p 0 n <;> simp)

/-- `as_ref_for_read` of the current source is the model's `asRefForRead`, the slice panic included -/
theorem tieA_radio_buffer_as_ref_for_read (g : Gen.RadioBufferFn.RadioBuffer) (hpos : 0 ≤ g.pos) :
    (Gen.RadioBufferFn.RadioBuffer.as_ref_for_read g).map bytesOf = (bufOf g).asRefForRead := by
  obtain ⟨p, n⟩ := g
  have hb := slice0_bridge p n hpos
  unfold Gen.RadioBufferFn.RadioBuffer.as_ref_for_read
  simp only [bufOf, RadioBuffer.asRefForRead, ← hb]
  try (cases Rt.slice p 0 n <;> simp)

/-- what the generated `extend_from_slice` answers for a model outcome on buffer `g`: `Ok(())` with the
new buffer, `Err(())` with the buffer as it was, or a panic -/
def extOf (g : Gen.RadioBufferFn.RadioBuffer) : Outcome (Option RadioBuffer) → Option (Bool × RadioBuffer)
  | .ok (some b) => some (true, b)
  | .ok none => some (false, bufOf g)
  | .err _ => none
  | .panic _ => none

/-- `extend_from_slice` of the current source is the model's `extendFromSlice` for every buffer and
every slice whose end `pos + len` is a `usize`: same `Ok`/`Err`, same bytes, same position, the copy's
slice panic included (unreachable on both sides) -/
theorem tieA_radio_buffer_extend_from_slice (g : Gen.RadioBufferFn.RadioBuffer) (src : List Int)
    (hpos : 0 ≤ g.pos) (hfit : g.pos + (src.length : Int) ≤ 18446744073709551615) :
    (Gen.RadioBufferFn.RadioBuffer.extend_from_slice g src).map (fun o => (o.1.isSome, bufOf o.2))
      = extOf g ((bufOf g).extendFromSlice (bytesOf src)) := by
  obtain ⟨p, n⟩ := g
  simp only at hpos hfit
  have e1 : Rt.ck .usize (n + (src.length : Int)) = some (n + (src.length : Int)) := Rt.ck_usize (by omega) hfit
  have e1' : Rt.ck .usize ((src.length : Int) + n) = some ((src.length : Int) + n) := Rt.ck_usize (by omega) (by omega)
  have e2 : (n + (src.length : Int)).toNat = n.toNat + src.length := by omega
  have e2' : ((src.length : Int) + n).toNat = n.toNat + src.length := by omega
  unfold Gen.RadioBufferFn.RadioBuffer.extend_from_slice
  simp only [RadioBuffer.extendFromSlice, bufOf, bytesOf_length, e1, e1', Option.bind_eq_bind, Option.bind_some, Option.pure_def, Int.ofNat_eq_natCast]
  by_cases h : n.toNat + src.length < p.length
  · have h1 : n + (src.length : Int) < (p.length : Int) := by omega
    have h1' : (src.length : Int) + n < (p.length : Int) := by omega
    have h2 : n.toNat + src.length ≤ p.length := by omega
    have hc : Rt.copyFromSlice p n (n + (src.length : Int)) src = some (p.take n.toNat ++ src ++ p.drop (n.toNat + src.length)) := by
      simp only [Rt.copyFromSlice, e2]
      rw [if_pos (by omega)]
    have hc' : Rt.copyFromSlice p n ((src.length : Int) + n) src = some (p.take n.toNat ++ src ++ p.drop (n.toNat + src.length)) := by
      simp only [Rt.copyFromSlice, e2']
      rw [if_pos (by omega)]
    simp [h, h1, h1', h2, hc, hc', e1, e1', e2, e2', extOf, bufOf, bytesOf_append, bytesOf_take, bytesOf_drop]
  · have h1 : ¬ n + (src.length : Int) < (p.length : Int) := by omega
    have h1' : ¬ (src.length : Int) + n < (p.length : Int) := by omega
    simp [h, h1, h1', extOf, bufOf]

/-- the remaining case: when `pos + len` does not fit a `usize` the current source panics on the
addition (debug arithmetic).  NOTE (reported in notes/builder-B.md): the hand model answers `Err(())`
there (`Nat` addition does not overflow); `pos` only ever comes from a `u8` length, so the case is not
reachable through the device. -/
theorem tieA_radio_buffer_extend_from_slice_overflow (g : Gen.RadioBufferFn.RadioBuffer) (src : List Int)
    (hov : 18446744073709551615 < g.pos + (src.length : Int)) :
    Gen.RadioBufferFn.RadioBuffer.extend_from_slice g src = none := by
  obtain ⟨p, n⟩ := g
  simp only at hov
  have e1 : Rt.ck .usize (n + (src.length : Int)) = none := by
    apply Rt.ck_eq_none; simp [Rt.ITy.lo, Rt.ITy.hi, Rt.ITy.signed, Rt.ITy.bits]; omega
  have e1' : Rt.ck .usize ((src.length : Int) + n) = none := by
    apply Rt.ck_eq_none; simp [Rt.ITy.lo, Rt.ITy.hi, Rt.ITy.signed, Rt.ITy.bits]; omega
  unfold Gen.RadioBufferFn.RadioBuffer.extend_from_slice
  simp [e1, e1']

/-- non-vacuity: a 6-byte buffer at position 2 takes 3 bytes (2 + 3 < 6) … -/
example :
    Gen.RadioBufferFn.RadioBuffer.extend_from_slice ⟨[9, 8, 7, 6, 5, 4], 2⟩ [1, 2, 3]
      = some (some (), ⟨[9, 8, 1, 2, 3, 4], 5⟩) := by decide
/-- … refuses 4 bytes (2 + 4 < 6 fails: the strict comparison keeps the last byte free) … -/
example :
    Gen.RadioBufferFn.RadioBuffer.extend_from_slice ⟨[9, 8, 7, 6, 5, 4], 2⟩ [1, 2, 3, 4]
      = some (none, ⟨[9, 8, 7, 6, 5, 4], 2⟩) := by decide
/-- … `as_mut_for_read` hands out `packet[..pos]`, and panics when `pos` exceeds the array -/
example : Gen.RadioBufferFn.RadioBuffer.as_mut_for_read ⟨[9, 8, 7], 2⟩ = some ([9, 8], ⟨[9, 8, 7], 2⟩) := by decide
example : Gen.RadioBufferFn.RadioBuffer.as_mut_for_read ⟨[9, 8, 7], 4⟩ = none := by decide
example : (0 : Int) ≤ (⟨[9, 8, 7], 2⟩ : Gen.RadioBufferFn.RadioBuffer).pos
    ∧ (⟨[9, 8, 7], 2⟩ : Gen.RadioBufferFn.RadioBuffer).pos + (([1] : List Int).length : Int) ≤ 18446744073709551615 := by decide

/-- what `adapterDeliver` answers, as the generated side sees it (`none` = a panic) -/
def deliveredOf : Outcome Bytes → Option Bytes
  | .ok b => some b
  | _ => none

/-- the hand-over of the receive path composed from the REGENERATED `RadioBuffer` methods — the driver has filled the
array handed out by `as_mut()` (content `filled`) and answered `Ok(n)`, the device calls `set_pos(n)`, the MAC reads
`as_mut_for_read()` — is the model's `adapterDeliver` on the model's `Res`, the slice panic for `n > N` included.
(The glue in `lorawan_radio.rs` / `async_device` that makes these three calls is not translated: tied by the
correspondence.) -/
theorem tieA_adapter_handover (g : Gen.RadioBufferFn.RadioBuffer) (filled : List Int) (n : Int) (hn : 0 ≤ n) :
    (Gen.RadioBufferFn.RadioBuffer.as_mut_for_read
        (Gen.RadioBufferFn.RadioBuffer.set_pos { (Gen.RadioBufferFn.RadioBuffer.as_mut g).2 with packet := filled } n)).map
        (fun o => bytesOf o.1)
      = deliveredOf (adapterDeliver (bufOf g) ⟨.ok n.toNat, bytesOf filled⟩) := by
  have h1 := (tieA_radio_buffer_as_mut g).2
  have h2 := tieA_radio_buffer_set_pos { g with packet := filled } n
  have hp : 0 ≤ (Gen.RadioBufferFn.RadioBuffer.set_pos { g with packet := filled } n).pos := by
    have := congrArg RadioBuffer.pos h2
    obtain ⟨p, q⟩ := g
    simp [Gen.RadioBufferFn.RadioBuffer.set_pos]; exact hn
  have h3 := tieA_radio_buffer_as_mut_for_read _ hp
  rw [h1]
  have h4 := congrArg (Option.map Prod.fst) h3
  simp only [Option.map_map, Function.comp_def] at h4
  rw [h4, h2]
  simp only [adapterDeliver, bufOf, RadioBuffer.setPos]
  cases hc : RadioBuffer.asMutForRead { packet := bytesOf filled, pos := n.toNat } <;> simp [deliveredOf, hc]

/-- non-vacuity: 3 bytes delivered into a 4-byte array are handed to the MAC; `Ok(5)` would panic -/
example : (Gen.RadioBufferFn.RadioBuffer.as_mut_for_read (Gen.RadioBufferFn.RadioBuffer.set_pos
    { (Gen.RadioBufferFn.RadioBuffer.as_mut ⟨[0, 0, 0, 0], 0⟩).2 with packet := [7, 8, 9, 0] } 3)).map (·.1) = some [7, 8, 9] := by decide
example : Gen.RadioBufferFn.RadioBuffer.as_mut_for_read (Gen.RadioBufferFn.RadioBuffer.set_pos
    { (Gen.RadioBufferFn.RadioBuffer.as_mut ⟨[0, 0, 0, 0], 0⟩).2 with packet := [7, 8, 9, 0] } 5) = none := by decide

end C18
