import LoraVerif.Props.TieA.MacTop
import LoraVerif.Props.TieA.HandleRxFull
/-!
# Tie A: `Mac::handle_rx` with the session operation INSTANTIATED by the regenerated `Session::handle_rx`
(builder C; the accept path of `C07.tieA_mac_handle_rx_partial` with no simulation hypothesis)

The carriers here are the GENERATED types of `Gen.SessionRx` (session, radio buffer, downlink), the region is the
model's; `genHandleRx D` is the operation `session_handle_rx` of the dispatch built from the regenerated
`Session::handle_rx` with the regenerated `handle_downlink_macs` inside (`TieA.Rx.Full.genOps`).  `macM2` is the total
map from the generated `Mac` to the model's state (`TieA.Rx.sessOf`, `cfgM`).  For a device with a session and a buffer
the parser accepts, the regenerated `Mac::handle_rx` is the model's `macHandleRx` on the decoded view, under the
hypotheses of `TieA.Rx.Full.handle_rx_full` only (well-formed counters, octets; parsing / MIC / decryption are inputs).

NOTE (for the hypothesis `Sim` of `Props/TieA/MacTop.lean`): `Sim.session_handle_rx` asks for the downlink queue
`dl ++ o.downlink.toList` for EVERY `dl`; the code pushes to a `heapless::Vec` of capacity `D` and DROPS the downlink
when the queue is full (`TieA.Rx.expect`).  No record of operations built from the regenerated `Session::handle_rx` can
satisfy `Sim` for every `dl`; the statement here carries the capacity.
-/
set_option linter.unusedSimpArgs false
set_option linter.unusedVariables false
namespace TieA.MacTop.Rx
open Model Gen.Region TieA.Rx TieA.Rx.Full

/-- the carriers: the generated session / buffer / downlink of `Gen.SessionRx`, the model's region -/
@[reducible] def K2 : Gen.MacTopFn.Carriers :=
  { Session := Gen.SessionRx.Session, Otaa := OtaaState, RegionCfg := RegionState, RadioBuffer := Gen.SessionRx.RadioBuffer,
    Downlink := Gen.SessionRx.Downlink, RNG := Nat, NetworkCredentials := Unit, NwkSKey := Nat, AppSKey := Nat, DevAddr := Nat,
    TxConfig := Int × Model.RfConfig, TxChannel := Model.TxChannel, RxWindows := Model.RfConfig × Model.RfConfig,
    SendData := List Nat × Nat × Bool, fcnt_up := fun s => s.fcnt_up }

attribute [local instance 2000] K2

abbrev GMac2 := @Gen.MacTopFn.Mac K2
abbrev GOps2 := @Gen.MacTopFn.Ops K2

/-- `Configuration` as `Gen.MacTopFn` and as `Gen.SessionRx` regenerate it (the same Rust struct, field by field) -/
def cfgS2 (c : Gen.MacTopFn.Configuration) : Gen.SessionRx.Configuration :=
  { data_rate := c.data_rate, rx1_delay := c.rx1_delay, join_accept_delay1 := c.join_accept_delay1,
    join_accept_delay2 := c.join_accept_delay2, tx_power := c.tx_power, rx1_dr_offset := c.rx1_dr_offset,
    rx2_data_rate := c.rx2_data_rate, rx2_frequency := c.rx2_frequency, adr_enabled := c.adr_enabled }

def cfgT2 (c : Gen.SessionRx.Configuration) : Gen.MacTopFn.Configuration :=
  { data_rate := c.data_rate, rx1_delay := c.rx1_delay, join_accept_delay1 := c.join_accept_delay1,
    join_accept_delay2 := c.join_accept_delay2, tx_power := c.tx_power, rx1_dr_offset := c.rx1_dr_offset,
    rx2_data_rate := c.rx2_data_rate, rx2_frequency := c.rx2_frequency, adr_enabled := c.adr_enabled }

/-- `Response` as the two units regenerate it -/
def respT2 : Gen.SessionRx.Response → Gen.MacTopFn.Response
  | .NoAck => .NoAck | .SessionExpired => .SessionExpired | .DownlinkReceived n => .DownlinkReceived n
  | .NoJoinAccept => .NoJoinAccept | .JoinSuccess => .JoinSuccess | .NoUpdate => .NoUpdate
  | .RxComplete => .RxComplete | .LinkCheckReq => .LinkCheckReq

/-- the model's response of a response of the dispatch (`LinkCheckReq` has no counterpart in the model) -/
def respM : Gen.MacTopFn.Response → Option Model.Response
  | .NoAck => some .noAck | .SessionExpired => some .sessionExpired
  | .DownlinkReceived n => some (.downlinkReceived n.toNat) | .NoJoinAccept => some .noJoinAccept
  | .JoinSuccess => some .joinSuccess | .NoUpdate => some .noUpdate | .RxComplete => some .rxComplete
  | .LinkCheckReq => none

theorem respM_respT2 (r : Gen.SessionRx.Response) : respM (respT2 r) = TieA.Rx.respOf r := by cases r <;> rfl
theorem cfgM_cfgT2 (c : Gen.SessionRx.Configuration) : cfgM (cfgT2 c) = TieA.Rx.cfgOf c := rfl
theorem cfgOf_cfgS2 (c : Gen.MacTopFn.Configuration) : TieA.Rx.cfgOf (cfgS2 c) = cfgM c := rfl

/-- the operation of the dispatch built from the regenerated `Session::handle_rx` (queue capacity `D`) -/
def genHandleRx (D : Int) (s : Gen.SessionRx.Session) (reg : RegionState) (cfg : Gen.MacTopFn.Configuration)
    (buf : Gen.SessionRx.RadioBuffer) (dl : List Gen.SessionRx.Downlink) (mp snr : Int) (cc : Bool) :
    Option (Gen.MacTopFn.Response × Gen.SessionRx.Session × RegionState × Gen.MacTopFn.Configuration ×
      Gen.SessionRx.RadioBuffer × List Gen.SessionRx.Downlink) :=
  (@Gen.SessionRx.Session.handle_rx RegionState genOps D s reg (cfgS2 cfg) buf dl mp snr cc).map
    (fun (r, s', reg', c', b', dl') => (respT2 r, s', reg', cfgT2 c', b', dl'))

/-- the model's join state of a generated `State` over these carriers -/
def stateM2 : @Gen.MacTopFn.State K2 → JoinState
  | .Joined s => .joined (TieA.Rx.sessOf s)
  | .Otaa o => .otaa o
  | .Unjoined => .unjoined

/-- total map from the generated `Mac` (generated session inside) to the model's state -/
def macM2 (g : GMac2) : MacState :=
  { cfg := cfgM g.configuration, region := g.region, maxPower := g.board_eirp.max_power.toNat,
    antennaGain := g.board_eirp.antenna_gain, st := stateM2 g.state }

/-- the downlink queue of capacity `D` after the model's output -/
def pushD (dl : List Gen.SessionRx.Downlink) (D : Int) (o : RxOut) : List (Nat × List Nat) :=
  match o.downlink with
  | some x => if (dl.length : Int) < D then dl.map dlOf ++ [x] else dl.map dlOf
  | none => dl.map dlOf

theorem handle_rx_gen (D : Int) (ops : GOps2) (hs : ops.session_handle_rx = genHandleRx D)
    (cfg : Gen.MacTopFn.Configuration) (rs : RegionState) (eirp : Gen.MacTopFn.BoardEirp) (gs : Gen.SessionRx.Session)
    (rx : Gen.SessionRx.RadioBuffer) (dl : List Gen.SessionRx.Downlink) (snr : Int) (rf : Gen.MacTopFn.RfConfig)
    (e : Gen.SessionRx.EncryptedDataPayload)
    (hparse : rx.as_mut_for_read.parse = some e) (hup : e.is_uplink = false)
    (haddr : ¬ (e.as_bytes.length : Int) > rf.max_payload_len + 5 → e.fhdr.dev_addr = gs.devaddr)
    (hw : TieA.Rx.SessWF gs) (hmax : 0 ≤ rf.max_payload_len ∧ rf.max_payload_len ≤ 255) (hwire : 0 ≤ e.fhdr.fcnt)
    (hdec : ∀ f, Gen.SessionRx.next_fcnt_down gs.fcnt_down e.fhdr.fcnt = some f → e.validate_mic (nwkOf gs) f = true →
      ∃ d, rx.as_mut_for_read.decrypt_in_place (some (nwkOf gs)) (some (appOf gs)) f = some d ∧ DecWF Stream d) :
    (@Gen.MacTopFn.Mac.handle_rx K2 ops D ⟨cfg, rs, eirp, .Joined gs⟩ rx dl snr rf).bind
        (fun (r, g', _, dl') => (respM r).map (fun m => (m, macM2 g', dl'.map dlOf)))
      = (macHandleRx (macM2 ⟨cfg, rs, eirp, .Joined gs⟩) (.data (dataOf gs e (decOf gs rx e))) rf.max_payload_len.toNat snr false).toOption.bind
          (fun (o, m') => o.map (fun o => (o.resp, m', pushD dl D o))) := by
  have hf := handle_rx_full D gs rs (cfgS2 cfg) rx dl rf.max_payload_len snr false e hparse hup haddr hw hmax hwire hdec
  rw [cfgOf_cfgS2] at hf
  simp only [Gen.MacTopFn.Mac.handle_rx, macHandleRx, macM2, stateM2, hs, genHandleRx]
  cases hx : @Gen.SessionRx.Session.handle_rx RegionState genOps D gs rs (cfgS2 cfg) rx dl rf.max_payload_len snr false with
  | none =>
    rw [hx] at hf
    cases hm : sessionHandleRx (TieA.Rx.sessOf gs) (cfgM cfg) rs (dataOf gs e (decOf gs rx e)) rf.max_payload_len.toNat snr false with
    | error er => simp [hm, Except.toOption, bind, Except.bind]
    | ok v => rw [hm] at hf; simp [Except.toOption] at hf
  | some v =>
    obtain ⟨r, s', reg', c', b', dl'⟩ := v
    rw [hx] at hf
    simp only [Option.bind_some] at hf
    cases hm : sessionHandleRx (TieA.Rx.sessOf gs) (cfgM cfg) rs (dataOf gs e (decOf gs rx e)) rf.max_payload_len.toNat snr false with
    | error er =>
      rw [hm] at hf
      cases hr : TieA.Rx.respOf r with
      | none => simp [hm, hr, respM_respT2, Except.toOption, bind, Except.bind, pure, Except.pure]
      | some m => rw [hr] at hf; simp [Except.toOption] at hf
    | ok w =>
      obtain ⟨o, s2, c2, reg2⟩ := w
      rw [hm] at hf
      cases hr : TieA.Rx.respOf r with
      | none => rw [hr] at hf; simp [Except.toOption] at hf
      | some m =>
        rw [hr] at hf
        simp [Except.toOption, expect] at hf
        obtain ⟨h1, h2, h3, h4, h5⟩ := hf
        simp [hm, hr, Except.toOption, bind, Except.bind, pure, Except.pure, macM2, stateM2, respM_respT2, cfgM_cfgT2,
          h1, h2, h3, h4, pushD]
        exact h5

theorem cfgT2_cfgS2 (c : Gen.MacTopFn.Configuration) : cfgT2 (cfgS2 c) = c := by cases c; rfl

/-- `handle_rxc` (Class C, `ignore_mac = true`) of a device with a session, on a buffer the parser accepts -/
theorem handle_rxc_gen (D : Int) (ops : GOps2) (hs : ops.session_handle_rx = genHandleRx D)
    (cfg : Gen.MacTopFn.Configuration) (rs : RegionState) (eirp : Gen.MacTopFn.BoardEirp) (gs : Gen.SessionRx.Session)
    (rx : Gen.SessionRx.RadioBuffer) (dl : List Gen.SessionRx.Downlink) (snr : Int) (rf : Gen.MacTopFn.RfConfig)
    (e : Gen.SessionRx.EncryptedDataPayload)
    (hparse : rx.as_mut_for_read.parse = some e) (hup : e.is_uplink = false)
    (haddr : ¬ (e.as_bytes.length : Int) > rf.max_payload_len + 5 → e.fhdr.dev_addr = gs.devaddr)
    (hw : TieA.Rx.SessWF gs) (hmax : 0 ≤ rf.max_payload_len ∧ rf.max_payload_len ≤ 255) (hwire : 0 ≤ e.fhdr.fcnt)
    (hdec : ∀ f, Gen.SessionRx.next_fcnt_down gs.fcnt_down e.fhdr.fcnt = some f → e.validate_mic (nwkOf gs) f = true →
      ∃ d, rx.as_mut_for_read.decrypt_in_place (some (nwkOf gs)) (some (appOf gs)) f = some d ∧ DecWF Stream d) :
    (@Gen.MacTopFn.Mac.handle_rxc K2 ops D ⟨cfg, rs, eirp, .Joined gs⟩ rx dl snr rf).bind
        (fun (r, g', _, dl') => (r.bind respM).map (fun m => (m, macM2 g', dl'.map dlOf)))
      = (macHandleRx (macM2 ⟨cfg, rs, eirp, .Joined gs⟩) (.data (dataOf gs e (decOf gs rx e))) rf.max_payload_len.toNat snr true).toOption.bind
          (fun (o, m') => o.map (fun o => (o.resp, m', pushD dl D o))) := by
  have hf := handle_rx_full D gs rs (cfgS2 cfg) rx dl rf.max_payload_len snr true e hparse hup haddr hw hmax hwire hdec
  rw [cfgOf_cfgS2] at hf
  simp only [Gen.MacTopFn.Mac.handle_rxc, macHandleRx, macM2, stateM2, hs, genHandleRx]
  cases hx : @Gen.SessionRx.Session.handle_rx RegionState genOps D gs rs (cfgS2 cfg) rx dl rf.max_payload_len snr true with
  | none =>
    rw [hx] at hf
    cases hm : sessionHandleRx (TieA.Rx.sessOf gs) (cfgM cfg) rs (dataOf gs e (decOf gs rx e)) rf.max_payload_len.toNat snr true with
    | error er => simp [hm, Except.toOption, bind, Except.bind]
    | ok v => rw [hm] at hf; simp [Except.toOption] at hf
  | some v =>
    obtain ⟨r, s', reg', c', b', dl'⟩ := v
    rw [hx] at hf
    simp only [Option.bind_some] at hf
    cases hm : sessionHandleRx (TieA.Rx.sessOf gs) (cfgM cfg) rs (dataOf gs e (decOf gs rx e)) rf.max_payload_len.toNat snr true with
    | error er =>
      rw [hm] at hf
      cases hr : TieA.Rx.respOf r with
      | none => simp [hm, hr, respM_respT2, Except.toOption, bind, Except.bind, pure, Except.pure]
      | some m => rw [hr] at hf; simp [Except.toOption] at hf
    | ok w =>
      obtain ⟨o, s2, c2, reg2⟩ := w
      rw [hm] at hf
      cases hr : TieA.Rx.respOf r with
      | none => rw [hr] at hf; simp [Except.toOption] at hf
      | some m =>
        rw [hr] at hf
        simp [Except.toOption, expect] at hf
        obtain ⟨h1, h2, h3, h4, h5⟩ := hf
        simp [hm, hr, Except.toOption, bind, Except.bind, pure, Except.pure, macM2, stateM2, respM_respT2, cfgM_cfgT2,
          h1, h2, h3, h4, pushD]
        exact h5

/-- a buffer the data-frame parser rejects, device with a session: `NoUpdate`, and `Mac`, buffer and queue are exactly
what they were (the model: `RxView.garbage` → `noUpdate`, state unchanged) -/
theorem handle_rx_unparsed_gen (D : Int) (ops : GOps2) (hs : ops.session_handle_rx = genHandleRx D)
    (cfg : Gen.MacTopFn.Configuration) (rs : RegionState) (eirp : Gen.MacTopFn.BoardEirp) (gs : Gen.SessionRx.Session)
    (rx : Gen.SessionRx.RadioBuffer) (dl : List Gen.SessionRx.Downlink) (snr : Int) (rf : Gen.MacTopFn.RfConfig)
    (hparse : rx.as_mut_for_read.parse = none) :
    @Gen.MacTopFn.Mac.handle_rx K2 ops D ⟨cfg, rs, eirp, .Joined gs⟩ rx dl snr rf
      = some (.NoUpdate, ⟨cfg, rs, eirp, .Joined gs⟩, rx, dl) := by
  have hu := @TieA.Rx.handle_rx_unparsed genOps D gs rs (cfgS2 cfg) rx dl rf.max_payload_len snr false hparse
  simp [Gen.MacTopFn.Mac.handle_rx, hs, genHandleRx, hu, respT2, cfgT2_cfgS2]

end TieA.MacTop.Rx

namespace C07
open Model TieA.Rx TieA.Rx.Full TieA.MacTop TieA.MacTop.Rx
attribute [local instance 2000] K2

/-- **Tie A.**  `Mac::handle_rx` of a device with a session on a buffer the parser accepts = the model's `macHandleRx`
on the decoded view, the session's method being the REGENERATED `Session::handle_rx` (with the regenerated
`handle_downlink_macs` inside): same response, same `Mac` afterwards (session, region and configuration written back),
the downlink pushed to the queue unless it is full — no simulation hypothesis; the hypotheses are those of
`TieA.Rx.Full.handle_rx_full` (counters within their Rust types, a downlink-typed frame carrying the session's DevAddr
if it fits, decryption yields octets). -/
theorem tieA_mac_handle_rx (D : Int) (ops : GOps2) (hs : ops.session_handle_rx = genHandleRx D)
    (cfg : Gen.MacTopFn.Configuration) (rs : RegionState) (eirp : Gen.MacTopFn.BoardEirp) (gs : Gen.SessionRx.Session)
    (rx : Gen.SessionRx.RadioBuffer) (dl : List Gen.SessionRx.Downlink) (snr : Int) (rf : Gen.MacTopFn.RfConfig)
    (e : Gen.SessionRx.EncryptedDataPayload)
    (hparse : rx.as_mut_for_read.parse = some e) (hup : e.is_uplink = false)
    (haddr : ¬ (e.as_bytes.length : Int) > rf.max_payload_len + 5 → e.fhdr.dev_addr = gs.devaddr)
    (hw : SessWF gs) (hmax : 0 ≤ rf.max_payload_len ∧ rf.max_payload_len ≤ 255) (hwire : 0 ≤ e.fhdr.fcnt)
    (hdec : ∀ f, Gen.SessionRx.next_fcnt_down gs.fcnt_down e.fhdr.fcnt = some f → e.validate_mic (nwkOf gs) f = true →
      ∃ d, rx.as_mut_for_read.decrypt_in_place (some (nwkOf gs)) (some (appOf gs)) f = some d ∧ DecWF Stream d) :
    (@Gen.MacTopFn.Mac.handle_rx K2 ops D ⟨cfg, rs, eirp, .Joined gs⟩ rx dl snr rf).bind
        (fun (r, g', _, dl') => (respM r).map (fun m => (m, macM2 g', dl'.map dlOf)))
      = (macHandleRx (macM2 ⟨cfg, rs, eirp, .Joined gs⟩) (.data (dataOf gs e (decOf gs rx e))) rf.max_payload_len.toNat snr false).toOption.bind
          (fun (o, m') => o.map (fun o => (o.resp, m', pushD dl D o))) :=
  handle_rx_gen D ops hs cfg rs eirp gs rx dl snr rf e hparse hup haddr hw hmax hwire hdec

/-- **Tie A.**  `Mac::handle_rxc` (Class C) of a device with a session on a buffer the parser accepts = the model's
`macHandleRx` with `classC = true`, the session's method being the REGENERATED `Session::handle_rx` (`ignore_mac = true`):
no simulation hypothesis. -/
theorem tieA_mac_handle_rxc (D : Int) (ops : GOps2) (hs : ops.session_handle_rx = genHandleRx D)
    (cfg : Gen.MacTopFn.Configuration) (rs : RegionState) (eirp : Gen.MacTopFn.BoardEirp) (gs : Gen.SessionRx.Session)
    (rx : Gen.SessionRx.RadioBuffer) (dl : List Gen.SessionRx.Downlink) (snr : Int) (rf : Gen.MacTopFn.RfConfig)
    (e : Gen.SessionRx.EncryptedDataPayload)
    (hparse : rx.as_mut_for_read.parse = some e) (hup : e.is_uplink = false)
    (haddr : ¬ (e.as_bytes.length : Int) > rf.max_payload_len + 5 → e.fhdr.dev_addr = gs.devaddr)
    (hw : SessWF gs) (hmax : 0 ≤ rf.max_payload_len ∧ rf.max_payload_len ≤ 255) (hwire : 0 ≤ e.fhdr.fcnt)
    (hdec : ∀ f, Gen.SessionRx.next_fcnt_down gs.fcnt_down e.fhdr.fcnt = some f → e.validate_mic (nwkOf gs) f = true →
      ∃ d, rx.as_mut_for_read.decrypt_in_place (some (nwkOf gs)) (some (appOf gs)) f = some d ∧ DecWF Stream d) :
    (@Gen.MacTopFn.Mac.handle_rxc K2 ops D ⟨cfg, rs, eirp, .Joined gs⟩ rx dl snr rf).bind
        (fun (r, g', _, dl') => (r.bind respM).map (fun m => (m, macM2 g', dl'.map dlOf)))
      = (macHandleRx (macM2 ⟨cfg, rs, eirp, .Joined gs⟩) (.data (dataOf gs e (decOf gs rx e))) rf.max_payload_len.toNat snr true).toOption.bind
          (fun (o, m') => o.map (fun o => (o.resp, m', pushD dl D o))) :=
  handle_rxc_gen D ops hs cfg rs eirp gs rx dl snr rf e hparse hup haddr hw hmax hwire hdec

/-- **Tie A.**  `Mac::handle_rx` of a device with a session on a buffer the data-frame parser REJECTS: `NoUpdate`, and
`Mac`, buffer and downlink queue are exactly what they were (C07: a frame that is not accepted changes nothing) — with
the regenerated `Session::handle_rx` inside, no hypothesis but `parse = none`. -/
theorem tieA_mac_handle_rx_unparsed (D : Int) (ops : GOps2) (hs : ops.session_handle_rx = genHandleRx D)
    (cfg : Gen.MacTopFn.Configuration) (rs : RegionState) (eirp : Gen.MacTopFn.BoardEirp) (gs : Gen.SessionRx.Session)
    (rx : Gen.SessionRx.RadioBuffer) (dl : List Gen.SessionRx.Downlink) (snr : Int) (rf : Gen.MacTopFn.RfConfig)
    (hparse : rx.as_mut_for_read.parse = none) :
    @Gen.MacTopFn.Mac.handle_rx K2 ops D ⟨cfg, rs, eirp, .Joined gs⟩ rx dl snr rf
      = some (.NoUpdate, ⟨cfg, rs, eirp, .Joined gs⟩, rx, dl) :=
  handle_rx_unparsed_gen D ops hs cfg rs eirp gs rx dl snr rf hparse

end C07

/-! Non-vacuity: the frame of `Props/TieA/HandleRxFull.lean` (FOpts: LinkADRReq + DevStatusReq) through the regenerated
`Mac::handle_rx` with the regenerated `Session::handle_rx` inside, on the model's EU868 region. -/
namespace TieA.MacTop.Rx.Example
open Model TieA.Rx TieA.Rx.Full TieA.MacTop TieA.MacTop.Rx
attribute [local instance 2000] K2
def ops4 : GOps2 :=
  { session_new := fun _ _ _ => exSess, session_prepare_buffer := fun _ _ _ _ _ => none,
    session_handle_rx := genHandleRx 4, session_rx2_complete := fun _ _ _ => none, otaa_new := fun _ => ⟨0⟩,
    otaa_prepare_buffer := fun _ _ _ => none, otaa_handle_rx := fun _ _ _ _ => none,
    otaa_rx2_complete := fun o => (.NoJoinAccept, o), create_tx_config := fun _ _ _ _ => none,
    adjust_power := fun _ _ _ => none, rx_windows := fun _ _ _ => none }

example :
    (@Gen.MacTopFn.Mac.handle_rx K2 ops4 4 ⟨cfgT2 exCfg, RegionState.init .EU868, ⟨14, 0⟩, .Joined exSess⟩ Full.exRx [] 3 ⟨250⟩).map
      (fun x => (x.1, Gen.MacTopFn.Mac.is_joined x.2.1, x.2.1.configuration.data_rate, x.2.1.configuration.tx_power))
      = some (.DownlinkReceived 5, true, Gen.Region.DR._5, some 14) := by
  rfl

/-- every hypothesis of `C07.tieA_mac_handle_rx` holds on that input -/
example :
    (@Gen.MacTopFn.Mac.handle_rx K2 ops4 4 ⟨cfgT2 exCfg, RegionState.init .EU868, ⟨14, 0⟩, .Joined exSess⟩ Full.exRx [] 3 ⟨250⟩).bind
        (fun (r, g', _, dl') => (respM r).map (fun m => (m, macM2 g', dl'.map dlOf)))
      = (macHandleRx (macM2 ⟨cfgT2 exCfg, RegionState.init .EU868, ⟨14, 0⟩, .Joined exSess⟩)
          (.data (dataOf exSess Full.exEnc (decOf exSess Full.exRx Full.exEnc))) (250 : Int).toNat 3 false).toOption.bind
          (fun (o, m') => o.map (fun o => (o.resp, m', pushD [] 4 o))) := by
  have hf5 : Gen.SessionRx.next_fcnt_down exSess.fcnt_down Full.exEnc.fhdr.fcnt = some 5 := by decide
  refine C07.tieA_mac_handle_rx 4 ops4 rfl (cfgT2 exCfg) (RegionState.init .EU868) ⟨14, 0⟩ exSess Full.exRx [] 3 ⟨250⟩ Full.exEnc rfl rfl
    (fun _ => rfl) ?_ (by decide) (by decide) ?_
  · refine ⟨by decide, by decide, by decide, by decide, ?_⟩
    intro f hf
    have : f = 4 := by simpa [exSess] using hf.symm
    omega
  · intro f hf _
    rw [hf5] at hf
    obtain rfl : (5 : Int) = f := by simpa using hf
    refine ⟨Full.exDec, rfl, ?_, ⟨?_, by decide⟩, [1, 2, 3], by decide, ?_, rfl⟩
    · intro p hp
      have : p = 7 := by simpa [Full.exDec] using hp.symm
      omega
    · intro b hb
      simp [Full.exDec] at hb
      omega
    · intro h; simp [Full.exDec] at h
end TieA.MacTop.Rx.Example

#print axioms C07.tieA_mac_handle_rx
#print axioms C07.tieA_mac_handle_rxc
#print axioms C07.tieA_mac_handle_rx_unparsed
