import LoraVerif.Model.Mac
import LoraVerif.Gen.RegionStatic
/-!
# Tie A for the static regional parameters — the bridge between the hand model's `RegionId` and the
GENERATED `Region` enum (`Gen/RegionStatic.lean`, regenerated from `lorawan-device/src/region/mod.rs`
on every run).  The theorems that use it are in `Props/TieA/C09.lean` and `Props/TieA/C10.lean`.
-/
namespace TieA
open Model

/-- the generated `Region` variant the hand model's `RegionId` stands for -/
def toGen : RegionId → Gen.RegionStatic.Region
  | .AS923_1 => .AS923_1 | .AS923_2 => .AS923_2 | .AS923_3 => .AS923_3 | .AS923_4 => .AS923_4
  | .AU915 => .AU915 | .EU868 => .EU868 | .EU433 => .EU433 | .IN865 => .IN865 | .US915 => .US915

/-- a generated channel (`dynamic_channel_plans::Channel`) as the hand model's `Channel` -/
def ofGenChannel (c : Gen.RegionStatic.Channel) : Channel :=
  { freq := c.frequency.toNat, drRange := c._datarates.toNat, dlFreq := c.dl_frequency.map Int.toNat }

/-- `DynamicChannelPlan::new`: `[None; NUM_CHANNELS_DYNAMIC]`, then the assignments of
`init_channels` in source order; `none` = index out of range (a Rust panic) -/
def applyRows : List (Int × Int × Gen.Region.DR × Gen.Region.DR) → List (Option Channel) → Option (List (Option Channel))
  | [], acc => some acc
  | (i, f, lo, hi) :: rest, acc =>
    if 0 ≤ i ∧ i.toNat < acc.length then
      match Gen.RegionStatic.Channel.new f lo hi with
      | some c => applyRows rest (acc.set i.toNat (some (ofGenChannel c)))
      | none => none
    else none

/-- the channel table `DynamicChannelPlan::new` builds for a region, from generated items only
(`none`: fixed plan, or a panic while building it) -/
def genInitChannels (g : Gen.RegionStatic.Region) : Option (List (Option Channel)) :=
  match Gen.RegionStatic.init_channels g with
  | some (some rows) => applyRows rows (List.replicate Gen.RegionStatic.NUM_CHANNELS_DYNAMIC.toNat none)
  | _ => none

end TieA
