import LoraVerif.Props.TieA.C13
import LoraVerif.Gen.PhyEncE126Cal
/-!
# C13, tie A (builder E): SX126x `calibrate_image`

The image-calibration band bytes are chosen by array element assignments inside an `if` chain; the translator's
statement-level `if` now carries the assigned array out of the branches (it dropped `x[i] = v` before: the generated
function then always sent `[0x98, 0, 0]` — found while writing this theorem, see notes/builder-E.md).
-/
open Model.Phy TieA.Phy Gen.PhyCodes126

namespace C13

/-- `Sx126x::calibrate_image`, regenerated, IS the model's `calibrateImage`: `CalibrateImage` with the band's two
frequency bytes, for EVERY frequency (every natural number, so all of `u32`), chip content and prefix. -/
theorem tieA_sx126x_calibrate_image (self : Gen.PhyEncE126Cal.Sx126x) (f : Nat) (c : Chip) (log : List Rt.Phy.Ev) :
    view id (Gen.PhyEncE126Cal.Sx126x.calibrate_image self (f : Int) chipDev c log) = denote (Sx126x.calibrateImage f) c log := by
  simp only [Gen.PhyEncE126Cal.Sx126x.calibrate_image, Sx126x.calibrateImage, Sx126x.calFreq]
  try gen_unfold_helpers_PhyEncE126Cal
  by_cases h1 : f > 900000000
  · have g1 : decide ((f : Int) > 900000000) = true := decide_eq_true (by omega)
    simp only [g1, if_pos h1]
    phy_tie [Rt.setIdx, Rt.idx] [Rt.setIdx, Rt.idx]
  have g1 : decide ((f : Int) > 900000000) = false := decide_eq_false (by omega)
  by_cases h2 : f > 850000000
  · have g2 : decide ((f : Int) > 850000000) = true := decide_eq_true (by omega)
    simp only [g1, g2, if_neg h1, if_pos h2]
    phy_tie [Rt.setIdx, Rt.idx] [Rt.setIdx, Rt.idx]
  have g2 : decide ((f : Int) > 850000000) = false := decide_eq_false (by omega)
  by_cases h3 : f > 770000000
  · have g3 : decide ((f : Int) > 770000000) = true := decide_eq_true (by omega)
    simp only [g1, g2, g3, if_neg h1, if_neg h2, if_pos h3]
    phy_tie [Rt.setIdx, Rt.idx] [Rt.setIdx, Rt.idx]
  have g3 : decide ((f : Int) > 770000000) = false := decide_eq_false (by omega)
  by_cases h4 : f > 460000000
  · have g4 : decide ((f : Int) > 460000000) = true := decide_eq_true (by omega)
    simp only [g1, g2, g3, g4, if_neg h1, if_neg h2, if_neg h3, if_pos h4]
    phy_tie [Rt.setIdx, Rt.idx] [Rt.setIdx, Rt.idx]
  have g4 : decide ((f : Int) > 460000000) = false := decide_eq_false (by omega)
  by_cases h5 : f > 425000000
  · have g5 : decide ((f : Int) > 425000000) = true := decide_eq_true (by omega)
    simp only [g1, g2, g3, g4, g5, if_neg h1, if_neg h2, if_neg h3, if_neg h4, if_pos h5]
    phy_tie [Rt.setIdx, Rt.idx] [Rt.setIdx, Rt.idx]
  have g5 : decide ((f : Int) > 425000000) = false := decide_eq_false (by omega)
  simp only [g1, g2, g3, g4, g5, if_neg h1, if_neg h2, if_neg h3, if_neg h4, if_neg h5]
  phy_tie [Rt.setIdx, Rt.idx] [Rt.setIdx, Rt.idx]

#print axioms tieA_sx126x_calibrate_image

/-- non-vacuity: 868.1 MHz is in the 863–870 MHz band: `CalibrateImage 0xD7 0xDB` -/
example : Gen.PhyEncE126Cal.Sx126x.calibrate_image ⟨⟨⟨⟩, none, true, false⟩⟩ 868100000
    (fun (_ : Unit) _ n => (List.replicate n 0, ())) () [] = some (.ok (), (), [.spi [0x98, 0xD7, 0xDB] 0, .busy]) := rfl

end C13
