import LoraVerif.Props.TieA.C14b
/-!
# Tie A for the `LoRa<RK, DLY>` state machine, part 3: `complete_rx`, `rx`, `listen`.
See `Props/TieA/C14.lean`.
-/
open Model.Phy Model.Phy.M

namespace C14
open LoRaTie
variable {σ μ BW : Type}

/-- a tied method followed, in the regenerated code only, by a re-packing of its result -/
theorem sim_bind_end {α β γ' : Type} {g : Rt.LoRa.LM (Gen.LoRaApiFn.LoRa σ RxMode) World RadioError Halt β}
    {m : M σ α} {c : α → β} {k' : β → Rt.LoRa.LM (Gen.LoRaApiFn.LoRa σ RxMode) World RadioError Halt γ'}
    {f : α → γ'} {s : Gen.LoRaApiFn.LoRa σ RxMode} {d : DriverState σ} {w : World}
    (hm : ∀ d w, g (toG d, w) = lift c (m (d, w)))
    (h : ∀ a s' w', k' (c a) (s', w') = (.ok (f a), (s', w'))) (hs : s = toG d) :
    Rt.LoRa.LM.bind g k' (s, w) = lift f (m (d, w)) := by
  subst hs
  simp only [Rt.LoRa.LM.bind, hm]
  rcases hr : m (d, w) with ⟨_ | _ | _ | _, d', w'⟩ <;> simp only [lift, outG]
  · exact h _ _ _

/-- what `complete_rx` returns: the model's `(length, buffer)` as `((length, status), buffer)` -/
def rxRes (r : Nat × Bytes) : (Int × Unit) × Bytes := ((Int.ofNat r.1, ()), r.2)

/-- the loop of `LoRa::complete_rx` -/
theorem tieA_lora_complete_rx_loop (rk : RadioKindOps σ μ) (cmp : BW → Int → Except RadioError μ)
    (pkt : PacketParams) (buf : Bytes) :
    ∀ (fuel : Nat) (d : DriverState σ) (w : World),
      Gen.LoRaApiFn.complete_rx_loop (opsOf rk cmp) pkt buf fuel (toG d, w)
        = lift rxRes (Model.Phy.completeRxLoop rk pkt buf fuel (d, w))
  | 0, d, w => by
    unfold Gen.LoRaApiFn.complete_rx_loop Model.Phy.completeRxLoop
    lora_tie
  | fuel + 1, d, w => by
    obtain ⟨rk0, mode, sw, cs, ci⟩ := d
    unfold Gen.LoRaApiFn.complete_rx_loop Model.Phy.completeRxLoop Model.Phy.failToStandby
    lora_eval
    refine sim_attempt (fun a w' => ?_) (fun e w' => ?_) (by first | rfl | lora_leaf)
    · rcases a with ⟨(_ | (_ | _)), o⟩
      · lora_tie
        exact sim_tail (tieA_lora_complete_rx_loop rk cmp pkt buf fuel) rfl
      · lora_tie
        exact sim_tail (tieA_lora_complete_rx_loop rk cmp pkt buf fuel) rfl
      · lora_tie
        all_goals (first | rfl | (simp only [lift, outG, toG, rxRes]; rfl))
    · rcases mode with _ | _ | _ | _ | (_ | _ | _) | _ | _ <;> lora_tie

/-- `LoRa::complete_rx` -/
theorem tieA_lora_complete_rx (rk : RadioKindOps σ μ) (cmp : BW → Int → Except RadioError μ)
    (pkt : PacketParams) (buf : Bytes) (fuel : Nat) (d : DriverState σ) (w : World) :
    Gen.LoRaApiFn.complete_rx (opsOf rk cmp) pkt buf fuel (toG d, w)
      = lift rxRes (Model.Phy.completeRx rk pkt buf fuel (d, w)) := by
  obtain ⟨rk0, mode, sw, cs, ci⟩ := d
  unfold Gen.LoRaApiFn.complete_rx Model.Phy.completeRx
  cases mode <;> lora_tie
  exact sim_tail (tieA_lora_complete_rx_loop rk cmp pkt buf fuel) rfl

/-- `LoRa::rx` -/
theorem tieA_lora_rx (rk : RadioKindOps σ μ) (cmp : BW → Int → Except RadioError μ)
    (pkt : PacketParams) (buf : Bytes) (fuel : Nat) (d : DriverState σ) (w : World) :
    Gen.LoRaApiFn.rx (opsOf rk cmp) pkt buf fuel (toG d, w)
      = lift rxRes (Model.Phy.rx rk pkt buf fuel (d, w)) := by
  unfold Gen.LoRaApiFn.rx Model.Phy.rx
  lora_eval
  lora_sub (tieA_lora_start_rx rk cmp)
  intro _ d' _
  lora_eval
  refine sim_bind_end (tieA_lora_complete_rx rk cmp pkt buf fuel) (fun a s' w' => ?_) rfl
  rfl

/-- `LoRa::listen`; `cmp` is `create_modulation_params(SF7, bandwidth, 4/5, frequency)` -/
theorem tieA_lora_listen (rk : RadioKindOps σ μ) (cmp : BW → Int → Except RadioError μ)
    (freq : Nat) (bw : BW) (d : DriverState σ) (w : World) :
    Gen.LoRaApiFn.listen (opsOf rk cmp) (freq : Int) bw (toG d, w)
      = lift id (Model.Phy.listen rk freq (cmp bw (freq : Int)) (d, w)) := by
  unfold Gen.LoRaApiFn.listen Model.Phy.listen
  lora_eval
  lora_sub (tieA_lora_prepare_modem rk cmp _)
  intro _ d' _; obtain ⟨rk1, mode1, sw1, cs1, ci1⟩ := d'
  lora_eval
  lora_step
  lora_eval
  rcases hc : cmp bw (freq : Int) with e | m <;> lora_tie

end C14
