import LoraVerif.Model.Mac
import LoraVerif.Gen.SetAdrAsync
import LoraVerif.Gen.SetAdrNb
import LoraVerif.Gen.SetAdrHook
/-!
# C12 / C09, tie A: `Device::set_adr` / `Device::set_datarate` of both front-ends and of the hook
facade `VerifMac` as SEMANTIC functions (builder L; until now `Gen.FrontEndStatic` held their text only)

Each of the three units (`Gen/SetAdrAsync.lean`, `Gen/SetAdrNb.lean`, `Gen/SetAdrHook.lean`) is the
state-passing translation of the current source: the device value in, the device value out.
`Mac::get_session_mut(&mut self) -> Option<&mut Session>` is translated as a getter/setter pair
(`Mac.get_session_mut.get` / `.set`): the `session` bound by `if … && let Some(session) = …` is a copy
that is written back where the reference pointed after the branch.  The three sections below are the
same text instantiated for the three units (their generated types live in three namespaces).
-/
set_option linter.unusedSimpArgs false

namespace TieA.Async
open Model Gen.Region

def cfgOf (g : Gen.SetAdrAsync.Configuration) : Config :=
  { dataRate := g.data_rate.toInt.toNat, rx1Delay := g.rx1_delay.toNat, txPower := g.tx_power.map Int.toNat,
    rx1DrOffset := g.rx1_dr_offset.toNat, rx2DataRate := g.rx2_data_rate.map (fun d => d.toInt.toNat),
    rx2Frequency := g.rx2_frequency.map Int.toNat, adrEnabled := g.adr_enabled }

def sessOf (s0 : Session) (g : Gen.SetAdrAsync.Session) : Session :=
  { s0 with confirmed := g.confirmed, fcntUp := g.fcnt_up.toNat, fcntDown := g.fcnt_down.map Int.toNat,
            adrAckCnt := g.adr_ack_cnt.toNat }

/-- the model's join state: the generated one over a model state `st0` that supplies what the
translated setters cannot reach (queue, keys, DevNonce) -/
def stOf (st0 : JoinState) : Gen.SetAdrAsync.State → JoinState
  | .Joined gs => .joined (sessOf (match st0 with | .joined s0 => s0 | _ => Session.new 0 0 0) gs)
  | .Otaa _ => (match st0 with | .otaa o => .otaa o | _ => .otaa ⟨0⟩)
  | .Unjoined => .unjoined

def macOf (m0 : MacState) (g : Gen.SetAdrAsync.Mac) : MacState :=
  { m0 with cfg := cfgOf g.configuration, st := stOf m0.st g.state }

/-- `async_device::Device::set_adr` of the current source (state-passing translation; `Mac::get_session_mut`, an
`Option<&mut Session>`, as a getter/setter pair) is the model's `macSetAdr`, for every state -/
theorem tieA_set_adr (m0 : MacState) (d : Gen.SetAdrAsync.Device) (on : Bool) :
    macOf m0 (Gen.SetAdrAsync.Device.set_adr d on).mac = macSetAdr (macOf m0 d.mac) on := by
  obtain ⟨⟨cfg, st⟩⟩ := d
  unfold Gen.SetAdrAsync.Device.set_adr
  gen_unfold_helpers_SetAdrAsync
  obtain ⟨c0, r0, mp, ag, st0⟩ := m0
  cases st0 <;> cases st <;> cases on <;> rfl

/-- `async_device::Device::set_datarate` is the model's `macSetDatarate` -/
theorem tieA_set_datarate (m0 : MacState) (d : Gen.SetAdrAsync.Device) (dr : DR) :
    macOf m0 (Gen.SetAdrAsync.Device.set_datarate d dr).mac = macSetDatarate (macOf m0 d.mac) dr.toInt.toNat := by
  obtain ⟨⟨cfg, st⟩⟩ := d
  unfold Gen.SetAdrAsync.Device.set_datarate
  gen_unfold_helpers_SetAdrAsync
  rfl

/-- non-vacuity: switching ADR off in a joined session at count 70 resets the count and clears the flag -/
example : (Gen.SetAdrAsync.Device.set_adr ⟨⟨⟨._3, 1000, 5000, 6000, none, 0, none, none, true⟩, .Joined ⟨false, 9, none, 70⟩⟩⟩ false).mac
    = ⟨⟨._3, 1000, 5000, 6000, none, 0, none, none, false⟩, .Joined ⟨false, 9, none, 0⟩⟩ := by decide

#print axioms tieA_set_adr
#print axioms tieA_set_datarate
end TieA.Async

namespace TieA.Nb
open Model Gen.Region

def cfgOf (g : Gen.SetAdrNb.Configuration) : Config :=
  { dataRate := g.data_rate.toInt.toNat, rx1Delay := g.rx1_delay.toNat, txPower := g.tx_power.map Int.toNat,
    rx1DrOffset := g.rx1_dr_offset.toNat, rx2DataRate := g.rx2_data_rate.map (fun d => d.toInt.toNat),
    rx2Frequency := g.rx2_frequency.map Int.toNat, adrEnabled := g.adr_enabled }

def sessOf (s0 : Session) (g : Gen.SetAdrNb.Session) : Session :=
  { s0 with confirmed := g.confirmed, fcntUp := g.fcnt_up.toNat, fcntDown := g.fcnt_down.map Int.toNat,
            adrAckCnt := g.adr_ack_cnt.toNat }

/-- the model's join state: the generated one over a model state `st0` that supplies what the
translated setters cannot reach (queue, keys, DevNonce) -/
def stOf (st0 : JoinState) : Gen.SetAdrNb.State → JoinState
  | .Joined gs => .joined (sessOf (match st0 with | .joined s0 => s0 | _ => Session.new 0 0 0) gs)
  | .Otaa _ => (match st0 with | .otaa o => .otaa o | _ => .otaa ⟨0⟩)
  | .Unjoined => .unjoined

def macOf (m0 : MacState) (g : Gen.SetAdrNb.Mac) : MacState :=
  { m0 with cfg := cfgOf g.configuration, st := stOf m0.st g.state }

/-- `nb_device::Device::set_adr` of the current source (state-passing translation; `Mac::get_session_mut`, an
`Option<&mut Session>`, as a getter/setter pair) is the model's `macSetAdr`, for every state -/
theorem tieA_set_adr (m0 : MacState) (d : Gen.SetAdrNb.Device) (on : Bool) :
    macOf m0 (Gen.SetAdrNb.Device.set_adr d on).shared.mac = macSetAdr (macOf m0 d.shared.mac) on := by
  obtain ⟨⟨⟨cfg, st⟩⟩⟩ := d
  unfold Gen.SetAdrNb.Device.set_adr
  gen_unfold_helpers_SetAdrNb
  obtain ⟨c0, r0, mp, ag, st0⟩ := m0
  cases st0 <;> cases st <;> cases on <;> rfl

/-- `nb_device::Device::set_datarate` is the model's `macSetDatarate` -/
theorem tieA_set_datarate (m0 : MacState) (d : Gen.SetAdrNb.Device) (dr : DR) :
    macOf m0 (Gen.SetAdrNb.Device.set_datarate d dr).shared.mac = macSetDatarate (macOf m0 d.shared.mac) dr.toInt.toNat := by
  obtain ⟨⟨⟨cfg, st⟩⟩⟩ := d
  unfold Gen.SetAdrNb.Device.set_datarate
  gen_unfold_helpers_SetAdrNb
  rfl

/-- non-vacuity: switching ADR off in a joined session at count 70 resets the count and clears the flag -/
example : (Gen.SetAdrNb.Device.set_adr ⟨⟨⟨⟨._3, 1000, 5000, 6000, none, 0, none, none, true⟩, .Joined ⟨false, 9, none, 70⟩⟩⟩⟩ false).shared.mac
    = ⟨⟨._3, 1000, 5000, 6000, none, 0, none, none, false⟩, .Joined ⟨false, 9, none, 0⟩⟩ := by decide

#print axioms tieA_set_adr
#print axioms tieA_set_datarate
end TieA.Nb

namespace TieA.Hook
open Model Gen.Region

def cfgOf (g : Gen.SetAdrHook.Configuration) : Config :=
  { dataRate := g.data_rate.toInt.toNat, rx1Delay := g.rx1_delay.toNat, txPower := g.tx_power.map Int.toNat,
    rx1DrOffset := g.rx1_dr_offset.toNat, rx2DataRate := g.rx2_data_rate.map (fun d => d.toInt.toNat),
    rx2Frequency := g.rx2_frequency.map Int.toNat, adrEnabled := g.adr_enabled }

def sessOf (s0 : Session) (g : Gen.SetAdrHook.Session) : Session :=
  { s0 with confirmed := g.confirmed, fcntUp := g.fcnt_up.toNat, fcntDown := g.fcnt_down.map Int.toNat,
            adrAckCnt := g.adr_ack_cnt.toNat }

/-- the model's join state: the generated one over a model state `st0` that supplies what the
translated setters cannot reach (queue, keys, DevNonce) -/
def stOf (st0 : JoinState) : Gen.SetAdrHook.State → JoinState
  | .Joined gs => .joined (sessOf (match st0 with | .joined s0 => s0 | _ => Session.new 0 0 0) gs)
  | .Otaa _ => (match st0 with | .otaa o => .otaa o | _ => .otaa ⟨0⟩)
  | .Unjoined => .unjoined

def macOf (m0 : MacState) (g : Gen.SetAdrHook.Mac) : MacState :=
  { m0 with cfg := cfgOf g.configuration, st := stOf m0.st g.state }

/-- `mac::verif::VerifMac::set_adr` of the current source (state-passing translation; `Mac::get_session_mut`, an
`Option<&mut Session>`, as a getter/setter pair) is the model's `macSetAdr`, for every state -/
theorem tieA_set_adr (m0 : MacState) (d : Gen.SetAdrHook.VerifMac) (on : Bool) :
    macOf m0 (Gen.SetAdrHook.VerifMac.set_adr d on).mac = macSetAdr (macOf m0 d.mac) on := by
  obtain ⟨⟨cfg, st⟩⟩ := d
  unfold Gen.SetAdrHook.VerifMac.set_adr
  gen_unfold_helpers_SetAdrHook
  obtain ⟨c0, r0, mp, ag, st0⟩ := m0
  cases st0 <;> cases st <;> cases on <;> rfl

/-- `mac::verif::VerifMac::set_datarate` is the model's `macSetDatarate` -/
theorem tieA_set_datarate (m0 : MacState) (d : Gen.SetAdrHook.VerifMac) (dr : DR) :
    macOf m0 (Gen.SetAdrHook.VerifMac.set_datarate d dr).mac = macSetDatarate (macOf m0 d.mac) dr.toInt.toNat := by
  obtain ⟨⟨cfg, st⟩⟩ := d
  unfold Gen.SetAdrHook.VerifMac.set_datarate
  gen_unfold_helpers_SetAdrHook
  rfl

/-- non-vacuity: switching ADR off in a joined session at count 70 resets the count and clears the flag -/
example : (Gen.SetAdrHook.VerifMac.set_adr ⟨⟨⟨._3, 1000, 5000, 6000, none, 0, none, none, true⟩, .Joined ⟨false, 9, none, 70⟩⟩⟩ false).mac
    = ⟨⟨._3, 1000, 5000, 6000, none, 0, none, none, false⟩, .Joined ⟨false, 9, none, 0⟩⟩ := by decide

#print axioms tieA_set_adr
#print axioms tieA_set_datarate
end TieA.Hook
