import LoraVerif.Gen.UplinkFn
import LoraVerif.Props.TieA.DynPlan
import LoraVerif.Props.TieA.DynPlanMask
import LoraVerif.Props.TieA.Tactics
import LoraVerif.Model.Mac
import LoraVerif.Gen.CmdTables
import LoraVerif.Gen.UplinkStatic
/-!
# C08, tie A: MAC command lengths, the 15-byte answer queue, the retained answers, the margin byte

`Model/Mac.lean` hand-copies the payload lengths of the uplink / downlink MAC commands, the
`FOPTS_MAX_LEN` limit of the answer queue, the set of answers that are repeated until the next
downlink and the 6-bit margin of DevStatusAns.  Each is proved equal, for all arguments, to what
`tools/translate` regenerates from the current source: the `#[cmd(cid, len)]` tables
(`Gen/CmdTables.lean`), the whole of `Uplink::add_mac_command` (`Gen/UplinkFn.lean`, builder L), the `matches!` filter of
`Uplink::clear_mac_commands` and `DevStatusAnsCreator::set_margin` (`Gen/UplinkStatic.lean`).
-/
set_option linter.unusedSimpArgs false
namespace C08
open Model

/-- framing length of a CID in a generated `#[cmd(cid, len)]` table (the first row with that CID,
as the derived `match`), `none` = unknown CID -/
def tableLen (t : List Gen.CmdTables.Row) (cid : Nat) : Option Nat :=
  match t.find? (fun r => r.1 == cid) with
  | some r => r.2.1
  | none => none

/-- payload lengths of the uplink MAC commands = the `UplinkMacCommand` table of maccommands.rs -/
theorem tieA_uplinkCmdLen : ∀ cid : Nat, uplinkCmdLen cid = tableLen Gen.CmdTables.uplinkMacCommand cid
  | 0 | 1 | 2 | 3 | 4 | 5 | 6 | 7 | 8 | 9 | 10 | 11 | 12 | 13 | 14 | 15 => by decide
  | _ + 16 => rfl

/-- payload lengths of the downlink MAC commands = the `DownlinkMacCommand` table of maccommands.rs -/
theorem tieA_downlinkCmdLen : ∀ cid : Nat, downlinkCmdLen cid = tableLen Gen.CmdTables.downlinkMacCommand cid
  | 0 | 1 | 2 | 3 | 4 | 5 | 6 | 7 | 8 | 9 | 10 | 11 | 12 | 13 | 14 | 15 => by decide
  | _ + 16 => rfl

example : uplinkCmdLen 6 = some 2 ∧ downlinkCmdLen 3 = some 4 ∧ uplinkCmdLen 11 = none := by decide

/-- CIDs of the `UplinkMacCommand` variants the `matches!` filter of `clear_mac_commands(true)` names -/
def retainedCids : List Nat :=
  (Gen.CmdTables.uplinkMacCommand.filter
    (fun r => Gen.UplinkStatic.Uplink.clear_mac_commands.retained.contains r.2.2.1)).map (·.1)

/-- every variant the filter names exists in the table (a renamed variant cannot silently drop out) -/
theorem tieA_retained_known :
    Gen.UplinkStatic.Uplink.clear_mac_commands.retained.all
      (fun v => Gen.CmdTables.uplinkMacCommand.any (fun r => r.2.2.1 == v)) = true := by decide

/-- the sticky answers of the model are exactly the retained variants' CIDs -/
theorem tieA_isSticky (cid : Nat) : isSticky cid = retainedCids.contains cid := by
  have h : retainedCids = [5, 8, 10] := by decide
  rw [h]
  simp only [isSticky, List.contains, List.elem]
  cases h5 : cid == 5 <;> cases h8 : cid == 8 <;> cases h10 : cid == 10 <;> rfl

example : isSticky 5 = true ∧ isSticky 3 = false := by decide

/-- `push_answer` as modelled (`MacCtx.push`): while no answer of this downlink has been dropped it
queues exactly as `addMacCommand` (= `Uplink::add_mac_command`, `tieA_add_mac_command` below) and
raises `full` exactly when that refuses -/
theorem tieA_push (c : MacCtx) (cid : Nat) (payload : List Nat) (hf : c.full = false) :
    (c.push cid payload).pending = addMacCommand c.pending cid payload ∧
    (c.push cid payload).full = !decide (c.pending.length + payload.length < 15) := by
  unfold MacCtx.push addMacCommand
  by_cases hc : c.pending.length + payload.length < 15 <;> simp [hc, hf]

example : addMacCommand (List.replicate 13 0) 6 [255, 0] = List.replicate 13 0 := by decide

/-- `DevStatusAnsCreator::set_margin` for every `i8`: refused outside −32..=31, otherwise the byte
`((margin << 2) as u8) >> 2` is the model's 6-bit two's complement margin; it is stored in `data[2]`,
the second payload byte of the answer -/
theorem tieA_devStatusMargin (snr : Int) (h : -128 ≤ snr ∧ snr ≤ 127) :
    Gen.UplinkStatic.DevStatusAnsCreator.set_margin.byte snr =
      some (if -32 ≤ snr ∧ snr ≤ 31 then some (devStatusMargin snr : Int) else none) ∧
    Gen.UplinkStatic.DevStatusAnsCreator.set_margin.index = 2 := by
  refine ⟨?_, rfl⟩
  -- all 256 values of an `i8`, evaluated by the kernel
  have all : ∀ k : Fin 256,
      Gen.UplinkStatic.DevStatusAnsCreator.set_margin.byte ((k.val : Int) - 128) =
        some (if -32 ≤ (k.val : Int) - 128 ∧ (k.val : Int) - 128 ≤ 31
          then some (devStatusMargin ((k.val : Int) - 128) : Int) else none) := by decide +kernel
  have := all ⟨(snr + 128).toNat, by omega⟩
  have e : (((snr + 128).toNat : Nat) : Int) - 128 = snr := by omega
  simpa only [e] using this

example : devStatusMargin (-5) = 59 ∧ devStatusMargin 40 = 0 := by decide

#print axioms tieA_uplinkCmdLen
#print axioms tieA_downlinkCmdLen
#print axioms tieA_isSticky
#print axioms tieA_push
#print axioms tieA_devStatusMargin

/-! ## builder L — whole methods of `Uplink` (state-passing translation, `Gen/UplinkFn.lean`)

`heapless::Vec<u8, FOPTS_MAX_LEN>` is a list with a capacity (`Rt.hvPush` / `Rt.hvExtend`: `push`
answers `Err` when full, `extend_from_slice(..).unwrap()` panics when the slice does not fit); the
`M: SerializableMacCommand` argument is the triple of what the method observes of it. -/

/-- the byte list a generated `heapless::Vec<u8, _>` stands for -/
def natsOf (l : List Int) : List Nat := l.map Int.toNat

/-- `Uplink::add_mac_command` as the current source has it never panics and is the model's
`addMacCommand`: the answer is queued (CID, then payload) iff queue + payload stay below 15 bytes,
otherwise the queue is untouched and `false` is returned; the owed-ACK flag is not touched.
(`hlen`: the trait's `payload_len()` is the length of `payload_bytes()`, as the derive macro
generates it; `h` excludes only a `usize` overflow no list length can cause.) -/
theorem tieA_add_mac_command (u : Gen.UplinkFn.Uplink) (cmd : Gen.UplinkFn.SerializableMacCommand)
    (hlen : cmd.payload_len = cmd.payload_bytes.length)
    (h : u.pending.length + cmd.payload_bytes.length ≤ 18446744073709551615) :
    (Gen.UplinkFn.Uplink.add_mac_command u cmd).map (fun o => (o.1, natsOf o.2.pending, o.2.confirmed))
      = some (decide (u.pending.length + cmd.payload_bytes.length < 15),
              addMacCommand (natsOf u.pending) cmd.cid.toNat (natsOf cmd.payload_bytes), u.confirmed) := by
  obtain ⟨pend, conf⟩ := u
  obtain ⟨cid, pb, pl⟩ := cmd
  simp only at hlen h
  subst hlen
  have hof : ∀ n : Nat, Int.ofNat n = (n : Int) := fun _ => rfl
  have hcap : Gen.UplinkFn.FOPTS_MAX_LEN = 15 := rfl
  unfold Gen.UplinkFn.Uplink.add_mac_command
  gen_unfold_helpers_UplinkFn
  simp only [hof, hcap, addMacCommand, natsOf, List.length_map, Rt.hvPush, Rt.hvPushOk, Rt.hvExtend, Rt.hvExtendOk,
    List.length_append, List.length_singleton, List.length_cons, List.length_nil]
  have hl1 : ((pend ++ [cid]).length : Int) = (pend.length : Int) + 1 := by
    simp only [List.length_append, List.length_singleton]; omega
  by_cases hc : pend.length + pb.length < 15
  · tie_eval
    simp only [List.map_append, List.map_cons, List.map_nil, List.append_assoc, List.singleton_append, List.cons_append, List.nil_append]
  · tie_eval

example : (Gen.UplinkFn.Uplink.add_mac_command ⟨[3, 7], true⟩ ⟨6, [255, 10], 2⟩).map (fun o => (o.1, o.2.pending))
    = some (true, [3, 7, 6, 255, 10]) := by decide
example : (Gen.UplinkFn.Uplink.add_mac_command ⟨List.replicate 13 0, false⟩ ⟨6, [255, 10], 2⟩).map (fun o => (o.1, o.2.pending.length))
    = some (false, 13) := by decide

/-- `set_downlink_confirmation` / `clear_downlink_confirmation` / `confirms_downlink` /
`mac_commands`: the model's `ackOwed := true` (`sessionHandleRx`), `ackOwed := false` and the reads
`s.ackOwed`, `s.pending` (`prepareBuffer`); none of them touches the other field -/
theorem tieA_downlink_confirmation (u : Gen.UplinkFn.Uplink) :
    Gen.UplinkFn.Uplink.set_downlink_confirmation u = { u with confirmed := true } ∧
    Gen.UplinkFn.Uplink.clear_downlink_confirmation u = { u with confirmed := false } ∧
    Gen.UplinkFn.Uplink.confirms_downlink u = u.confirmed ∧
    Gen.UplinkFn.Uplink.mac_commands u = u.pending := by
  refine ⟨?_, ?_, ?_, ?_⟩ <;>
    (first | unfold Gen.UplinkFn.Uplink.set_downlink_confirmation | unfold Gen.UplinkFn.Uplink.clear_downlink_confirmation
           | unfold Gen.UplinkFn.Uplink.confirms_downlink | unfold Gen.UplinkFn.Uplink.mac_commands) <;>
    gen_unfold_helpers_UplinkFn <;> (try rfl)

/-- `clear_mac_commands`: with `retain_acks == false` the queue is emptied (the model's
`pending := []` on an accepted Class A downlink); with `true` it is REPLACED by what the iterator
pipeline (parse → `matches!` filter → re-serialise; uninterpreted here, its variant list is
`tieA_isSticky`) yields from the old queue and an empty accumulator; the owed-ACK flag is untouched -/
theorem tieA_clear_mac_commands (u : Gen.UplinkFn.Uplink) :
    Gen.UplinkFn.Uplink.clear_mac_commands u false = { u with pending := [] } ∧
    Gen.UplinkFn.Uplink.clear_mac_commands u true = { u with pending := Gen.UplinkFn.retained_pipeline u.pending [] } := by
  constructor <;> unfold Gen.UplinkFn.Uplink.clear_mac_commands <;> gen_unfold_helpers_UplinkFn <;> tie_eval

#print axioms tieA_add_mac_command
#print axioms tieA_downlink_confirmation
#print axioms tieA_clear_mac_commands
/-- builder N — NewChannelReq, the WHOLE handler: the state-passing translation of the current source of
`DynamicChannelPlan::handle_new_channel` (`Gen/DynPlanFn.lean`, with `DataRateRange::{min,max}_data_rate`
and `Channel::new_with_dr`) is the model's `handleNewChannel` on every plan with 16 slots and a 9-byte
mask: join channels and indices ≥ 16 are refused with (false, false); frequency 0 removes the channel,
clears its mask bit and answers (true, true); otherwise the answer is (frequency in band, every rate of
min..=max defined and max < 15) and the channel is created and enabled iff both hold.  Abstract: the
region's parameters (the model's; tied by `tieA_newChannel_*`, C09/C10 tie A).  The two `ChannelMask`
methods are the regenerated ones (`TieA.DynMask.genMops`; builder R discharged `MaskOk`, `tieA_channel_mask_ops`).  Supersedes nothing: the guard comparisons `tieA_newChannel_*` stay.  Proved in
`Props/TieA/DynPlan.lean`. -/
theorem tieA_handle_new_channel (rs : RegionState)
    (hfix : rs.id.isFixed = false)
    (p : Gen.DynPlanFn.DynamicChannelPlan) (hplan : rs.plan = .dyn (TieA.Dyn.planOf p)) (hw : TieA.Dyn.PlanWF p)
    (index freq : Int) (dr : Option Gen.DynPlanFn.DataRateRange) (hi : 0 ≤ index) (hf : 0 ≤ freq)
    (hdr : ∀ d, dr = some d → 0 ≤ d._0 ∧ d._0 ≤ 255) :
    (Gen.DynPlanFn.DynamicChannelPlan.handle_new_channel (TieA.Dyn.regOf rs.id) TieA.DynMask.genMops p index freq dr).map
        (fun o => (o.1, { rs with plan := .dyn (TieA.Dyn.planOf o.2) }))
      = (handleNewChannel rs index.toNat freq.toNat (dr.map (fun d => d._0.toNat))).toOption :=
  TieA.Dyn.tieA_handle_new_channel TieA.DynMask.genMops TieA.DynMask.genMops_ok rs hfix p hplan hw index freq dr hi hf hdr

/-- builder N — DlChannelReq, the WHOLE handler: the state-passing translation of the current source of
`DynamicChannelPlan::channel_dl_update` is the model's `channelDlUpdate`: answer (frequency in band, index
below 16 ∧ channel enabled ∧ defined ∧ its frequency non-zero); the downlink frequency is stored only when
both bits are set (`None` when it equals the uplink frequency: RX1 then follows the uplink), otherwise
nothing changes.  Proved in `Props/TieA/DynPlan.lean`. -/
theorem tieA_channel_dl_update (rs : RegionState)
    (p : Gen.DynPlanFn.DynamicChannelPlan) (hplan : rs.plan = .dyn (TieA.Dyn.planOf p)) (hw : TieA.Dyn.PlanWF p)
    (index freq : Int) (hi : 0 ≤ index) (hf : 0 ≤ freq) :
    (Gen.DynPlanFn.DynamicChannelPlan.channel_dl_update (TieA.Dyn.regOf rs.id) TieA.DynMask.genMops p index freq).map
        (fun o => (o.1, { rs with plan := .dyn (TieA.Dyn.planOf o.2) }))
      = (channelDlUpdate rs index.toNat freq.toNat).toOption :=
  TieA.Dyn.tieA_channel_dl_update TieA.DynMask.genMops TieA.DynMask.genMops_ok rs p hplan hw index freq hi hf


example : TieA.Dyn.MaskOk TieA.Dyn.exMops := TieA.Dyn.exMops_ok

/-- builder R — the bit operations of `ChannelMask<N>` (types.rs), regenerated from the current source
(`Gen/ChannelMaskFn.lean`: `channel >> 3`, `1 << (channel & 7)` typed `u8` from its later use, `!flag`, `|=` /
`&=` through the index, `N * 8 - 1`), are the model's on every mask of octets, for every `usize` index and value:
`set_channel` = `Mask.setChannel` (one bit set or cleared, out of bounds a panic) and keeps the mask a list of
octets of the same length; `is_enabled(i).unwrap()` = `Mask.isEnabled` and answers `Ok` for `i ≤ N*8 − 1`;
`set_bank` = `Mask.setBank`; `get_index` reads byte `index`.  With `genMops_ok` this discharges the hypothesis
`MaskOk` of builder N's handler theorems, which are stated above for the regenerated operations
(`TieA.DynMask.genMops`).  Proved in `Props/TieA/ChannelMask.lean`. -/
theorem tieA_channel_mask_ops (m : Gen.ChannelMaskFn.ChannelMask) (hm : TieA.CMask.Octets m._0) (i : Int) (h0 : 0 ≤ i)
    (h1 : i ≤ 18446744073709551615) :
    (∀ set, (Gen.ChannelMaskFn.ChannelMask.set_channel m i set).map (fun m' => TieA.CMask.natsOf m'._0)
        = (Mask.setChannel (TieA.CMask.natsOf m._0) i.toNat set).toOption) ∧
    (∀ set m', Gen.ChannelMaskFn.ChannelMask.set_channel m i set = some m' → TieA.CMask.Octets m'._0 ∧ m'._0.length = m._0.length) ∧
    (0 < m._0.length → TieA.CMask.LenOk m._0.length →
      (Gen.ChannelMaskFn.ChannelMask.is_enabled m i).bind id = (Mask.isEnabled (TieA.CMask.natsOf m._0) i.toNat).toOption ∧
      (i.toNat ≤ m._0.length * 8 - 1 → ∃ b, Gen.ChannelMaskFn.ChannelMask.is_enabled m i = some (some b))) ∧
    (∀ v, 0 ≤ v → (Gen.ChannelMaskFn.ChannelMask.set_bank m i v).map (fun m' => TieA.CMask.natsOf m'._0)
        = (Mask.setBank (TieA.CMask.natsOf m._0) i.toNat v.toNat).toOption) ∧
    (Gen.ChannelMaskFn.ChannelMask.get_index m i).map Int.toNat = (TieA.CMask.natsOf m._0)[i.toNat]? ∧
    TieA.Dyn.MaskOk TieA.DynMask.genMops :=
  ⟨fun set => TieA.CMask.set_channel_tie m hm i h0 h1 set,
   fun set m' h => TieA.CMask.set_channel_octets m m' hm i h0 h1 set h,
   fun hl h64 => TieA.CMask.is_enabled_tie m hm hl h64 i h0 h1,
   fun v hv => TieA.CMask.set_bank_tie m hm i h0 v hv,
   TieA.CMask.get_index_tie m hm i h0,
   TieA.DynMask.genMops_ok⟩

/-- the hypotheses are satisfiable: the all-enabled 9-byte mask, channel 11 -/
example : TieA.CMask.Octets (⟨List.replicate 9 255⟩ : Gen.ChannelMaskFn.ChannelMask)._0 := by
  intro x hx
  have := (List.mem_replicate.mp hx).2
  omega

#print axioms tieA_channel_mask_ops
#print axioms tieA_handle_new_channel
#print axioms tieA_channel_dl_update
end C08
