import LoraVerif.Props.TieA.Band
import LoraVerif.Props.TieA.RegionDispatch
/-!
# Tie A: `Configuration::frequency_valid` through `region_dispatch!` (builder H)

The plan's `RegionHandler::frequency_valid` is `(self.frequency_valid)(freq)`: a call of the function pointer the plan's
`new(f)` stores in that field (checked by the translator: one struct literal in `new`, storing its only argument; no other
write of a field of that name), which is the band-limit function the constructor named in `State::new` passes
(`Gen.RegionStatic.<Region>.frequency_valid`, tied to the model by `tieA_frequencyValid`).
-/
namespace C09
open Model TieA

/-- the band test a `Configuration` answers with is the model's `frequencyValid`, for every region and frequency -/
theorem tieA_region_frequency_valid (r : RegionId) (f : Nat) :
    frequencyValid r f = Gen.RegionDispatch.Configuration.frequency_valid (toGen r) (f : Int) := by
  rw [tieA_frequencyValid]
  cases r <;> rfl

example : frequencyValid .EU868 868100000 = true ∧ frequencyValid .EU868 870000001 = false := by decide

#print axioms tieA_region_frequency_valid
end C09
