import LoraVerif.Props.TieA.MacTopTx
import LoraVerif.Props.TieA.MacRf
/-!
# Tie A: `Mac::send` / `Mac::join_otaa` with `Mac::rx_windows` INSTANTIATED by the regenerated method
(builder C; discharges one of the five equations of `SimTx`)

`genRxWindows cr` is the operation `rx_windows` of the dispatch built from the regenerated `Gen.MacRfFn.Mac.rx_windows`
(`build_rf_config`, `rx2_rf_config`, with the region's tables as in `Props/TieA/MacRf.lean`, any coding rate `cr`).
`genRxWindows_sim` proves the equation `SimTx.rx_windows` asks for (from `TieA.MacRf.windows_tie`), so `send` and
`join_otaa` hold for every record whose `rx_windows` IS the regenerated method and whose other four operations satisfy
their equations (`SimTx4`).
-/
set_option linter.unusedSimpArgs false
set_option linter.unusedVariables false
namespace TieA.MacTop
open Model Gen.Region Gen.Modulation

/-- `Configuration` as `Gen.MacTopFn` and as `Gen.MacRfFn` regenerate it (the same Rust struct, field by field) -/
def cfgR (c : Gen.MacTopFn.Configuration) : Gen.MacRfFn.Configuration :=
  { data_rate := c.data_rate, rx1_delay := c.rx1_delay, join_accept_delay1 := c.join_accept_delay1,
    join_accept_delay2 := c.join_accept_delay2, tx_power := c.tx_power, rx1_dr_offset := c.rx1_dr_offset,
    rx2_data_rate := c.rx2_data_rate, rx2_frequency := c.rx2_frequency, adr_enabled := c.adr_enabled }

/-- the generated `TxChannel` of a model one (frequencies are `u32`) -/
def txG (t : Model.TxChannel) : Gen.MacRfFn.TxChannel :=
  { datarate := t.datarate, dr := t.dr, frequency := t.frequency, rx1_frequency := t.rx1Frequency }

theorem txM_txG (t : Model.TxChannel) : TieA.MacRf.txM (txG t) = t := by
  cases t; simp [TieA.MacRf.txM, txG]

/-- the operation of the dispatch built from the regenerated `Mac::rx_windows` -/
def genRxWindows (cr : CodingRate) (cfg : Gen.MacTopFn.Configuration) (reg : RegionState) (tx : Model.TxChannel) :
    Option (Model.RfConfig × Model.RfConfig) :=
  (Gen.MacRfFn.Mac.rx_windows ⟨cfgR cfg, TieA.MacRf.regOf reg.id cr⟩ (txG tx)).map
    (fun w => (TieA.MacRf.rfM w.rx1, TieA.MacRf.rfM w.rx2))

/-- the equation `SimTx.rx_windows` asks for, as a THEOREM about the regenerated method -/
theorem genRxWindows_sim (cr : CodingRate) (cfg : Gen.MacTopFn.Configuration) (reg : RegionState) (tx : Model.TxChannel) :
    genRxWindows cr cfg reg tx = (rxWindows (rfMac (cfgM cfg) reg) tx).toOption := by
  have h := TieA.MacRf.windows_tie ⟨cfgR cfg, TieA.MacRf.regOf reg.id cr⟩ (rfMac (cfgM cfg) reg) cr ⟨rfl, rfl⟩ (txG tx)
  rw [txM_txG] at h
  exact h

/-- `SimTx` without the windows: the four operations that stay equations -/
structure SimTx4 (gR : Rng Nat) (ops : GOps) : Prop where
  session_prepare_buffer : ∀ s (sd : List Nat × Nat × Bool) (buf : RxView) cfg (reg : RegionState),
    (ops.session_prepare_buffer s sd buf cfg reg).map (fun (f, s', _) => (f, s'))
      = (prepareBuffer s (cfgM cfg) reg.id sd.1 sd.2.1 sd.2.2).toOption.map (fun (d, s') => ((d.fcnt : Int), s'))
  create_tx_config : ∀ (reg : RegionState) (rng : Nat) dr fr,
    ops.create_tx_config reg rng dr fr = (createTxConfigM gR reg dr (frameM fr) rng).toOption
  adjust_power : ∀ (t : Int × Model.RfConfig) limit gain, ops.adjust_power t limit gain = adjustPowerM t limit gain
  otaa_prepare_buffer : ∀ (o : OtaaState) (rng : Nat) (buf : RxView),
    (ops.otaa_prepare_buffer o rng buf).map (fun (n, o', rng', _) => (n, o', rng'))
      = some ((((draw gR rng).1 % 65536 : Nat) : Int), ({ devNonce := (draw gR rng).1 % 65536 } : OtaaState), (draw gR rng).2)

theorem simTx_of (gR : Rng Nat) (ops : GOps) (cr : CodingRate) (h : SimTx4 gR ops) (hw : ops.rx_windows = genRxWindows cr) :
    SimTx gR ops :=
  { session_prepare_buffer := h.session_prepare_buffer, create_tx_config := h.create_tx_config,
    adjust_power := h.adjust_power, otaa_prepare_buffer := h.otaa_prepare_buffer,
    rx_windows := by intro cfg reg tx; rw [hw]; exact genRxWindows_sim cr cfg reg tx }

end TieA.MacTop

open Model TieA.MacTop Gen.Modulation

namespace C10

/-- **Tie A.**  `Mac::send` = `macSend` where the windows are computed by the REGENERATED `Mac::rx_windows`
(`Gen.MacRfFn`): the receive windows handed out with a transmission are those of the parameters in force at TX time (region
after the selection, current configuration) — the windows equation of `SimTx` is discharged; four equations stay. -/
theorem tieA_mac_send_windows_partial (gR : Rng Nat) (ops : GOps) (cr : CodingRate) (h : SimTx4 gR ops)
    (hwin : ops.rx_windows = genRxWindows cr) (g : GMac) (hw : U8Wf g) (rng : Nat) (buf : RxView) (sd : List Nat × Nat × Bool) :
    (Gen.MacTopFn.Mac.send ops g rng buf sd).map (fun (r, g', rng', _) => (r, macM g', rng'))
      = (macSend gR (macM g) sd.1 sd.2.1 sd.2.2 rng).toOption.map (fun (o, m', rs) => (o.map sendOutG, m', rs)) :=
  C09.tieA_mac_send_partial gR ops (simTx_of gR ops cr h hwin) g hw rng buf sd

/-- the same for `Mac::join_otaa` -/
theorem tieA_mac_join_otaa_windows_partial (gR : Rng Nat) (ops : GOps) (cr : CodingRate) (h : SimTx4 gR ops)
    (hwin : ops.rx_windows = genRxWindows cr) (g : GMac) (hw : 0 ≤ g.board_eirp.max_power) (rng : Nat) (c : Unit) (buf : RxView) :
    (Gen.MacTopFn.Mac.join_otaa ops g rng c buf).map (fun (r, g', rng', _) => (r, macM g', rng'))
      = (macJoinOtaa gR (macM g) rng).toOption.map (fun (o, m', rs) => (joinOutG o, m', rs)) :=
  C11.tieA_mac_join_otaa_partial gR ops (simTx_of gR ops cr h hwin) g hw rng c buf

end C10

namespace TieA.MacTop.Example
open Model Gen.Region Gen.Modulation
/-- `SimTx4` and the windows equation are satisfiable together: the model's record with the regenerated windows -/
def txOpsW (gR : Rng Nat) (cr : CodingRate) : GOps := { txOps gR with rx_windows := genRxWindows cr }
example (cr : CodingRate) : SimTx4 gr0 (txOpsW gr0 cr) ∧ (txOpsW gr0 cr).rx_windows = genRxWindows cr :=
  ⟨{ session_prepare_buffer := (txOps_sim gr0).session_prepare_buffer, create_tx_config := fun _ _ _ _ => rfl,
     adjust_power := fun _ _ _ => rfl, otaa_prepare_buffer := fun _ _ _ => rfl }, rfl⟩
end TieA.MacTop.Example

#print axioms C10.tieA_mac_send_windows_partial
#print axioms C10.tieA_mac_join_otaa_windows_partial
#print axioms TieA.MacTop.genRxWindows_sim
