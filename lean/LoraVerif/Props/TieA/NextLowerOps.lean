import LoraVerif.Props.TieA.RegionDispatch
import LoraVerif.Props.TieA.StateBridge
/-!
# Tie A: the abstract `next_lower` of the whole-method translations is the regenerated loop (builder H)

`Gen.SessionFn` / `Gen.SessionTx` / `Gen.SessionRx` keep `next_lower_datarate(region, dr)` abstract (`RegionCfg.next_lower`,
`MacOps.next_lower`) and the theorems about them (`C12.tieA_rx2_complete`, `C12.tieA_prepare_buffer_header`,
`TieA.HandleRx.NextLowerOk` …) instantiate it with `(nextLowerDatarate r dr).map drOfNatT`.  That instance IS the function
regenerated from the current source of `next_lower_datarate` (`Gen.NextLowerDr`), for every region and data rate.
-/
namespace C12
open Model TieA

/-- the instance the whole-method ties use for the abstract `next_lower` = the regenerated `next_lower_datarate`
(which never panics), for every region and every current data rate -/
theorem tieA_next_lower_ops (r : RegionId) (cur : Gen.Region.DR) :
    Gen.NextLowerDr.next_lower_datarate (toGen r) cur =
      some ((nextLowerDatarate r cur.toInt.toNat).map TieA.drOfNatT) := by
  cases r <;> cases cur <;> decide

example : (nextLowerDatarate .AU915 Gen.Region.DR._8.toInt.toNat).map TieA.drOfNatT = some Gen.Region.DR._6 := by decide

#print axioms tieA_next_lower_ops
end C12
