import LoraVerif.Props.TieA.DynPlan
import LoraVerif.Props.TieA.ChannelMask
/-!
# The NewChannelReq / DlChannelReq handlers with the regenerated `ChannelMask` operations (builder R)

Builder N proved `DynamicChannelPlan::handle_new_channel` / `channel_dl_update` equal to the model under the
hypothesis `MaskOk` on the abstract `ChannelMask` methods.  `genMops` plugs the regenerated methods
(`Gen/ChannelMaskFn.lean`, from the current types.rs) into that parameter; `genMops_ok` discharges `MaskOk`
for them (`TieA.CMask.set_channel_tie`, `is_enabled_tie`), so the two handler theorems hold with no hypothesis
about the mask operations.
-/
set_option linter.unusedVariables false
namespace TieA.DynMask
open Model Gen.Region TieA.Dyn

/-- the regenerated `ChannelMask::set_channel` / `is_enabled` as the `MaskFns` of `Gen.DynPlanFn` (the two
units name the byte array `bytes` / `_0`; `is_enabled`: `Err(InvalidIndex)` and a panic both read `none`,
neither occurs below index `N * 8`) -/
def genMops : Gen.DynPlanFn.MaskFns where
  set_channel m i b := (Gen.ChannelMaskFn.ChannelMask.set_channel ⟨m.bytes⟩ i b).map (fun m' => ⟨m'._0⟩)
  is_enabled m i := (Gen.ChannelMaskFn.ChannelMask.is_enabled ⟨m.bytes⟩ i).bind id

/-- `MaskOk` holds of the regenerated methods -/
theorem genMops_ok : MaskOk genMops := by
  intro m i h0 h16 hlen hoct
  have hl : 0 < (⟨m.bytes⟩ : Gen.ChannelMaskFn.ChannelMask)._0.length := by simp only [hlen]; decide
  have h64 : TieA.CMask.LenOk (⟨m.bytes⟩ : Gen.ChannelMaskFn.ChannelMask)._0.length := by
    simp only [TieA.CMask.LenOk, hlen]; decide
  refine ⟨?_, fun b => ?_⟩
  · exact (TieA.CMask.is_enabled_tie ⟨m.bytes⟩ hoct hl h64 i h0 (by omega)).1
  · have := TieA.CMask.set_channel_tie ⟨m.bytes⟩ hoct i h0 (by omega) b
    simp only [genMops, Option.map_map]
    exact this

/-- inside the mask the regenerated `is_enabled` answers `Ok` (no `Err`, no panic is conflated) -/
theorem genMops_is_enabled_ok (m : Gen.DynPlanFn.ChannelMask) (i : Int) (h0 : 0 ≤ i) (h16 : i < 16) (hlen : m.bytes.length = 9)
    (hoct : ∀ x ∈ m.bytes, 0 ≤ x ∧ x ≤ 255) : ∃ b, Gen.ChannelMaskFn.ChannelMask.is_enabled ⟨m.bytes⟩ i = some (some b) := by
  have hl : 0 < (⟨m.bytes⟩ : Gen.ChannelMaskFn.ChannelMask)._0.length := by simp only [hlen]; decide
  have h64 : TieA.CMask.LenOk (⟨m.bytes⟩ : Gen.ChannelMaskFn.ChannelMask)._0.length := by
    simp only [TieA.CMask.LenOk, hlen]; decide
  exact (TieA.CMask.is_enabled_tie ⟨m.bytes⟩ hoct hl h64 i h0 (by omega)).2 (by simp only [hlen]; omega)

#print axioms genMops_ok
end TieA.DynMask
