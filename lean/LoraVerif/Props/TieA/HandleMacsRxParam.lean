import LoraVerif.Props.TieA.HandleMacs
/-!
# Tie A for `Session::handle_downlink_macs` — the RXParamSetupReq arm (builder S)

One iteration of the regenerated dispatch loop (`Gen/SessionMacs.lean`) on an RXParamSetupReq is the model's
`rxParamSetup` (`Model/Mac.lean`): RX1DROffset from bits 6..4 of DLSettings validated by the region, the RX2
data rate from bits 3..0 (15 keeps the current one, an undefined rate is refused), the frequency validated by
the region; the three fields are stored all together or not at all; the answer carries the three status bits
(bit 0 channel, bit 1 RX2 data rate, bit 2 RX1DROffset).
-/
set_option linter.unusedSimpArgs false
set_option linter.unusedVariables false
namespace TieA.Macs
open Model Gen.Region TieA.Rx

/-- `DLSettings::rx1_dr_offset` on an octet: bits 6..4 -/
theorem dl_rx1_dr_offset : ∀ d : Nat, d < 256 →
    Gen.SessionMacs.DLSettings.rx1_dr_offset ⟨(d : Int)⟩ = some (((d / 16) % 8 : Nat) : Int) := by
  decide +kernel

/-- `DLSettings::rx2_data_rate` on an octet: the low nibble as a `DR` -/
theorem dl_rx2_data_rate : ∀ d : Nat, d < 256 →
    Gen.SessionMacs.DLSettings.rx2_data_rate ⟨(d : Int)⟩ = some (drOfNatT (d % 16)) := by
  decide +kernel

theorem wrap_u8_dr (x : DR) : (Rt.wrap .u8 (DR.toInt x)).toNat = x.toInt.toNat := by cases x <;> rfl


/-- closing step of an arm that pushes a one-byte answer: `push_answer` against `MacCtx.push` -/
theorem push_close (gs : Gen.SessionRx.Session) (full : Bool) (c : MacCtx) (hp : c.pending = Rx.natsOf gs.uplink.pending)
    (hf : c.full = full) (hq : gs.uplink.pending.length ≤ 15) (cid b : Int) (cidN ansN : Nat) (hc : cid.toNat = cidN)
    (hb : b.toNat = ansN) (g' : Gen.SessionRx.Configuration) (hg : c.cfg = Rx.cfgOf g') (rs : RegionState) (hr : c.region = rs)
    (cm : Gen.SessionMacs.ChannelMask) (n : Int) (rfu : Bool) :
    ∃ pend' g'', ((Gen.SessionMacs.push_answer gs.uplink full ⟨cid, [b], 1⟩).bind fun x =>
        pure (({ gs with uplink := x.fst } : Gen.SessionRx.Session), g', rs, x.snd, cm, n, rfu))
          = some ({ gs with uplink := { gs.uplink with pending := pend' } }, g'', (c.push cidN [ansN]).region, (c.push cidN [ansN]).full, cm, n, rfu) ∧
      (c.push cidN [ansN]).pending = Rx.natsOf pend' ∧ (c.push cidN [ansN]).cfg = Rx.cfgOf g'' ∧ pend'.length ≤ 15 := by
  obtain ⟨u', h1, h2, h3, h4, h5, h6⟩ := push_tie gs.uplink full
    (⟨cid, [b], 1⟩ : Gen.SessionMacs.SerializableMacCommand) rfl hq (by simp) c hp hf
  have e : Rx.natsOf [b] = [ansN] := by simp [Rx.natsOf, hb]
  simp only [e, hc] at h1 h2 h5 h6
  refine ⟨u'.pending, g', ?_, h2, by rw [h5]; exact hg, h4⟩
  rw [h1]
  simp only [Option.bind_some, Option.pure_def, h6, hr]
  congr
  cases u'; simp_all

/-- RXParamSetupReq: the three fields validated, stored all together or not at all, the three status bits -/
theorem tieA_step_rx_param (snr : Int) (d f0 f1 f2 : Nat) (hd : d < 256) : StepTie snr (0x05, [d, f0, f1, f2]) := by
  intro gs g rs full cm n rfu peek c hrel hreg hq
  subst hreg
  simp only [stepModel, byteAt, freq24, bind, Except.bind, pure, Except.pure, List.getElem?_cons_zero, List.getElem?_cons_succ]
  unfold Gen.SessionMacs.Session.handle_downlink_macs.while_step
  simp only [decCmd, freqOf, dl_rx1_dr_offset d hd, dl_rx2_data_rate d hd, Option.bind_eq_bind, Option.bind_some]
  simp only [Gen.SessionMacs.RXParamSetupAnsCreator.new, Gen.SessionMacs.RXParamSetupAnsCreator.set_rx1_data_rate_offset_ack,
    Gen.SessionMacs.RXParamSetupAnsCreator.set_rx2_data_rate_ack, Gen.SessionMacs.RXParamSetupAnsCreator.set_channel_ack]
  generalize (f2 * 65536 + f1 * 256 + f0) * 100 = F
  have hk16 : d % 16 < 16 := by omega
  have hkk := drOfNatT_toInt (d % 16) hk16
  have hfv : ∀ F : Nat, Gen.SessionMacs.MacRegionOps.frequency_valid c.region (F : Int) = frequencyValid c.region.id F :=
    fun F => by simp [Gen.SessionMacs.MacRegionOps.frequency_valid]
  have hov : ∀ o : Nat, Gen.SessionMacs.MacRegionOps.rx1_dr_offset_validate c.region (o : Int)
      = (rx1DrOffsetValidate c.region.id o).map Int.ofNat := fun o => by simp [Gen.SessionMacs.MacRegionOps.rx1_dr_offset_validate]
  have hgd : ∀ x : DR, Gen.SessionMacs.MacRegionOps.get_datarate c.region (Rt.wrap .u8 x.toInt) = getDatarate c.region.id x.toInt.toNat :=
    fun x => by simp [Gen.SessionMacs.MacRegionOps.get_datarate, wrap_u8_dr]
  have h15 : drOfNatT (d % 16) = DR._15 ↔ d % 16 = 15 := by
    constructor
    · intro h; rw [h] at hkk; exact hkk.symm
    · intro h; rw [h]; rfl
  simp only [hfv, hov, hgd, hkk]
  refine push_close gs full { c with cfg := (rxParamSetup c.cfg c.region.id d F).2 }
    hrel.pending hrel.full hq 5 _ 5 _ rfl ?_ _ ?_ c.region rfl cm n rfu
  · split
    · rename_i h
      have hk := h15.1 h
      cases hf : frequencyValid c.region.id F <;>
      cases ho : rx1DrOffsetValidate c.region.id (d / 16 % 8) <;> simp [rxParamSetup, hk, hf, ho, Rt.b2i]
    · rename_i h
      have hk : ¬ d % 16 = 15 := fun e => h (h15.2 e)
      cases hf : frequencyValid c.region.id F <;>
      cases ho : rx1DrOffsetValidate c.region.id (d / 16 % 8) <;>
      cases hg : getDatarate c.region.id (d % 16) <;> simp [rxParamSetup, hk, hf, ho, hg, hkk, Rt.b2i]
  · show (rxParamSetup c.cfg c.region.id d F).2 = _
    cases hf : frequencyValid c.region.id F
    · simp [rxParamSetup, hf, hrel.cfg]
    · simp only [if_true]
      split
      · rename_i a b heq
        simp only [Prod.mk.injEq] at heq
        obtain ⟨h1, h2⟩ := heq
        cases ho : rx1DrOffsetValidate c.region.id (d / 16 % 8) with
        | none => simp [ho] at h2
        | some o =>
          simp only [ho, Option.map_some, Option.some.injEq] at h2
          subst h2
          split at h1
          · rename_i h
            have hk := h15.1 h
            simp only [Option.some.injEq] at h1
            subst h1
            simp [rxParamSetup, hf, hk, ho, hrel.cfg, Rx.cfgOf]
          · rename_i h
            have hk : ¬ d % 16 = 15 := fun e => h (h15.2 e)
            cases hg : getDatarate c.region.id (d % 16)
            · simp [hg, hkk] at h1
            · simp [hkk, hg] at h1
              subst h1
              simp [rxParamSetup, hf, hk, ho, hg, hkk, hrel.cfg, Rx.cfgOf]
      · rename_i hne
        cases ho : rx1DrOffsetValidate c.region.id (d / 16 % 8) with
        | none => simp [rxParamSetup, hf, ho, hrel.cfg]
        | some o =>
          simp only [ho, Option.map_some] at hne
          split at hne
          · exact (hne _ _ rfl).elim
          · rename_i h
            have hk : ¬ d % 16 = 15 := fun e => h (h15.2 e)
            cases hg : getDatarate c.region.id (d % 16)
            · simp [rxParamSetup, hf, hk, ho, hg, hrel.cfg]
            · simp [hkk, hg] at hne

#print axioms tieA_step_rx_param
end TieA.Macs
