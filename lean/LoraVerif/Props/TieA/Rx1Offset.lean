import LoraVerif.Props.TieA.Basic
/-!
# Tie A: RX1DROffset limits (used by C10 — the RX1 data rate — and by C08 — RXParamSetupReq and the
JoinAccept's DLSettings are validated against them)
-/
namespace C10
open Model TieA

/-- RX1DROffset limit: the region type's `MAX_RX1_DR_OFFSET` -/
theorem tieA_maxRx1DrOffset (r : RegionId) :
    (maxRx1DrOffset r : Int) = Gen.RegionStatic.MAX_RX1_DR_OFFSET (toGen r) := by
  cases r <;> rfl

private theorem validate_aux (v k : Nat) :
    Option.map Int.ofNat (if v ≤ k then some v else none) = if (v : Int) ≤ (k : Int) then some (v : Int) else none := by
  by_cases h : v ≤ k
  · have h' : (v : Int) ≤ k := by omega
    simp [h, h']
  · have h' : ¬ (v : Int) ≤ k := by omega
    simp [h, h']

/-- `RegionHandler::rx1_dr_offset_validate` (`value <= MAX_RX1_DR_OFFSET`) for every region and value -/
theorem tieA_rx1DrOffsetValidate (r : RegionId) (v : Nat) :
    (rx1DrOffsetValidate r v).map Int.ofNat = Gen.RegionStatic.rx1_dr_offset_validate (toGen r) (v : Int) := by
  have h := tieA_maxRx1DrOffset r
  cases r <;>
    simp only [toGen, maxRx1DrOffset, Gen.RegionStatic.MAX_RX1_DR_OFFSET] at h <;>
    simp only [rx1DrOffsetValidate, maxRx1DrOffset, toGen, Gen.RegionStatic.rx1_dr_offset_validate,
      Gen.RegionStatic.AS923_1.rx1_dr_offset_validate, Gen.RegionStatic.AS923_2.rx1_dr_offset_validate,
      Gen.RegionStatic.AS923_3.rx1_dr_offset_validate, Gen.RegionStatic.AS923_4.rx1_dr_offset_validate,
      Gen.RegionStatic.AU915.rx1_dr_offset_validate, Gen.RegionStatic.EU868.rx1_dr_offset_validate,
      Gen.RegionStatic.EU433.rx1_dr_offset_validate, Gen.RegionStatic.IN865.rx1_dr_offset_validate,
      Gen.RegionStatic.US915.rx1_dr_offset_validate, ← h, decide_eq_true_eq] <;>
    exact validate_aux v _

example : rx1DrOffsetValidate .US915 3 = some 3 ∧ rx1DrOffsetValidate .US915 4 = none := by decide

#print axioms tieA_maxRx1DrOffset
#print axioms tieA_rx1DrOffsetValidate
end C10
