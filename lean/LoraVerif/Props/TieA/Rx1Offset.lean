import LoraVerif.Props.TieA.Basic
/-!
# Tie A: RX1DROffset limits (used by C10 — the RX1 data rate — and by C08 — RXParamSetupReq and the
JoinAccept's DLSettings are validated against them)
-/
namespace C10
open Model TieA

/-- RX1DROffset limit: the region type's `MAX_RX1_DR_OFFSET` -/
theorem tieA_maxRx1DrOffset (r : RegionId) :
    (maxRx1DrOffset r : Int) = Gen.RegionStatic.MAX_RX1_DR_OFFSET (toGen r) := by
  cases r <;> rfl

/-- `RegionHandler::rx1_dr_offset_validate` (`value <= MAX_RX1_DR_OFFSET`) for every region and value.
The proof decides the model side first and only then splits the generated `if`, so that it does not
depend on how the source spells the test -/
theorem tieA_rx1DrOffsetValidate (r : RegionId) (v : Nat) :
    (rx1DrOffsetValidate r v).map Int.ofNat = Gen.RegionStatic.rx1_dr_offset_validate (toGen r) (v : Int) := by
  have h := tieA_maxRx1DrOffset r
  by_cases hv : v ≤ maxRx1DrOffset r
  · rw [show rx1DrOffsetValidate r v = some v by simp [rx1DrOffsetValidate, hv]]
    cases r <;> simp only [toGen, maxRx1DrOffset, Gen.RegionStatic.MAX_RX1_DR_OFFSET] at h hv <;>
      simp only [Option.map_some, toGen, Gen.RegionStatic.rx1_dr_offset_validate,
        Gen.RegionStatic.AS923_1.rx1_dr_offset_validate, Gen.RegionStatic.AS923_2.rx1_dr_offset_validate,
        Gen.RegionStatic.AS923_3.rx1_dr_offset_validate, Gen.RegionStatic.AS923_4.rx1_dr_offset_validate,
        Gen.RegionStatic.AU915.rx1_dr_offset_validate, Gen.RegionStatic.EU868.rx1_dr_offset_validate,
        Gen.RegionStatic.EU433.rx1_dr_offset_validate, Gen.RegionStatic.IN865.rx1_dr_offset_validate,
        Gen.RegionStatic.US915.rx1_dr_offset_validate, ← h, decide_eq_true_eq] <;>
      split <;> first | rfl | (exfalso; omega)
  · rw [show rx1DrOffsetValidate r v = none by simp [rx1DrOffsetValidate, hv]]
    cases r <;> simp only [toGen, maxRx1DrOffset, Gen.RegionStatic.MAX_RX1_DR_OFFSET] at h hv <;>
      simp only [Option.map_none, toGen, Gen.RegionStatic.rx1_dr_offset_validate,
        Gen.RegionStatic.AS923_1.rx1_dr_offset_validate, Gen.RegionStatic.AS923_2.rx1_dr_offset_validate,
        Gen.RegionStatic.AS923_3.rx1_dr_offset_validate, Gen.RegionStatic.AS923_4.rx1_dr_offset_validate,
        Gen.RegionStatic.AU915.rx1_dr_offset_validate, Gen.RegionStatic.EU868.rx1_dr_offset_validate,
        Gen.RegionStatic.EU433.rx1_dr_offset_validate, Gen.RegionStatic.IN865.rx1_dr_offset_validate,
        Gen.RegionStatic.US915.rx1_dr_offset_validate, ← h, decide_eq_true_eq] <;>
      split <;> first | rfl | (exfalso; omega)

example : rx1DrOffsetValidate .US915 3 = some 3 ∧ rx1DrOffsetValidate .US915 4 = none := by decide

#print axioms tieA_maxRx1DrOffset
#print axioms tieA_rx1DrOffsetValidate
end C10
