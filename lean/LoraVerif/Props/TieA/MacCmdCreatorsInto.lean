import LoraVerif.Props.TieA.MacCmdCreators
import LoraVerif.Gen.MacCmdCreatorIntoFn
/-!
# Tie A for the creator setters generic over `T: Into<X>` (builder F, follow-up; C19)

`Gen/MacCmdCreatorIntoFn.lean` holds `LinkADRReqCreator::set_channel_mask` / `set_redundancy` and
`NewChannelReqCreator::set_frequency` / `set_data_rate_range` instantiated at `T = X` (the payload newtype itself: the reflexive
`Into`, `x.into() = x`), with `raw_value` and the `AsRef<[u8]>` impls of types.rs translated from the source.  Each is proved
equal to the model's setter (`setLinkADRReq`, `setNewChannelReq` of `Model/MacCmdCreators.lean`) for every creator state and
every value of the newtype.  What the OTHER `Into` sources do (`From<u8>`, `From<[u8; N]>`, `From<&[u8; 3]>`: wrap the value)
is not regenerated here.
-/
set_option linter.unusedSimpArgs false
set_option linter.unusedVariables false
namespace TieA.CreatorsInto
open MacCmd TieA.MacCmdFrame TieA.Creators

macro "into_eval" : tactic =>
  `(tactic| simp [toOpt, resUp, resI, ints, Rt.idx, Rt.setIdx, Rt.copyFromSlice, copyInto, setByte, index, okD, setRaw, setBytes, bind,
      Outcome.bind, Gen.MacCmdCreatorIntoFn.ChannelMask.as_ref, Gen.MacCmdCreatorIntoFn.Frequency.as_ref,
      Gen.MacCmdCreatorIntoFn.Redundancy.raw_value, Gen.MacCmdCreatorIntoFn.DataRateRange.raw_value])

theorem LinkADRReq_set_channel_mask (c b0 b1 b2 b3 m0 m1 : Nat) :
    (Gen.MacCmdCreatorIntoFn.LinkADRReqCreator.set_channel_mask ⟨ints [c, b0, b1, b2, b3]⟩ ⟨ints [m0, m1]⟩).map (resI (·.data))
      = (toOpt (setLinkADRReq ⟨[c, b0, b1, b2, b3], 0⟩ "set_channel_mask" (.bytes [m0, m1]))).map resUp := by
  unfold Gen.MacCmdCreatorIntoFn.LinkADRReqCreator.set_channel_mask setLinkADRReq
  into_eval

theorem LinkADRReq_set_redundancy (c b0 b1 b2 b3 v : Nat) :
    (Gen.MacCmdCreatorIntoFn.LinkADRReqCreator.set_redundancy ⟨ints [c, b0, b1, b2, b3]⟩ ⟨(v : Int)⟩).map (resI (·.data))
      = (toOpt (setLinkADRReq ⟨[c, b0, b1, b2, b3], 0⟩ "set_redundancy" (.n v))).map resUp := by
  unfold Gen.MacCmdCreatorIntoFn.LinkADRReqCreator.set_redundancy setLinkADRReq
  into_eval

theorem NewChannelReq_set_data_rate_range (c b0 b1 b2 b3 b4 v : Nat) :
    (Gen.MacCmdCreatorIntoFn.NewChannelReqCreator.set_data_rate_range ⟨ints [c, b0, b1, b2, b3, b4]⟩ ⟨(v : Int)⟩).map (resI (·.data))
      = (toOpt (setNewChannelReq ⟨[c, b0, b1, b2, b3, b4], 0⟩ "set_data_rate_range" (.n v))).map resUp := by
  unfold Gen.MacCmdCreatorIntoFn.NewChannelReqCreator.set_data_rate_range setNewChannelReq
  into_eval

/-- `Frequency` borrows a slice of ANY length (`new_from_raw`); `copy_from_slice` panics unless it has 3 octets — on both sides -/
theorem NewChannelReq_set_frequency (c b0 b1 b2 b3 b4 : Nat) (f : List Nat) :
    (Gen.MacCmdCreatorIntoFn.NewChannelReqCreator.set_frequency ⟨ints [c, b0, b1, b2, b3, b4]⟩ ⟨ints f⟩).map (resI (·.data))
      = (toOpt (setNewChannelReq ⟨[c, b0, b1, b2, b3, b4], 0⟩ "set_frequency" (.bytes f))).map resUp := by
  unfold Gen.MacCmdCreatorIntoFn.NewChannelReqCreator.set_frequency setNewChannelReq
  by_cases hf : f.length = 3
  · match f, hf with
    | [f0, f1, f2], _ => into_eval
  · have h1 : ¬ (((ints f).length : Int) = 5 - 2) := by simp only [ints_length]; omega
    have h2 : ¬ (f.length = 5 - 2) := by omega
    simp [toOpt, Rt.copyFromSlice, copyInto, setBytes, Gen.MacCmdCreatorIntoFn.Frequency.as_ref, h1, h2, bind, Outcome.bind]
    try omega

end TieA.CreatorsInto

namespace C19
open MacCmd TieA.MacCmdFrame TieA.Creators

/-- builder F — `LinkADRReqCreator::set_channel_mask` at `T = ChannelMask<2>`: the regenerated setter IS the model's, for every
creator state and every two-octet mask. -/
theorem tieA_creator_LinkADRReq_set_channel_mask (c b0 b1 b2 b3 m0 m1 : Nat) :
    (Gen.MacCmdCreatorIntoFn.LinkADRReqCreator.set_channel_mask ⟨ints [c, b0, b1, b2, b3]⟩ ⟨ints [m0, m1]⟩).map (resI (·.data))
      = (toOpt (setLinkADRReq ⟨[c, b0, b1, b2, b3], 0⟩ "set_channel_mask" (.bytes [m0, m1]))).map resUp :=
  TieA.CreatorsInto.LinkADRReq_set_channel_mask c b0 b1 b2 b3 m0 m1

/-- builder F — `LinkADRReqCreator::set_redundancy` at `T = Redundancy`. -/
theorem tieA_creator_LinkADRReq_set_redundancy (c b0 b1 b2 b3 v : Nat) :
    (Gen.MacCmdCreatorIntoFn.LinkADRReqCreator.set_redundancy ⟨ints [c, b0, b1, b2, b3]⟩ ⟨(v : Int)⟩).map (resI (·.data))
      = (toOpt (setLinkADRReq ⟨[c, b0, b1, b2, b3], 0⟩ "set_redundancy" (.n v))).map resUp :=
  TieA.CreatorsInto.LinkADRReq_set_redundancy c b0 b1 b2 b3 v

/-- builder F — `NewChannelReqCreator::set_data_rate_range` at `T = DataRateRange`. -/
theorem tieA_creator_NewChannelReq_set_data_rate_range (c b0 b1 b2 b3 b4 v : Nat) :
    (Gen.MacCmdCreatorIntoFn.NewChannelReqCreator.set_data_rate_range ⟨ints [c, b0, b1, b2, b3, b4]⟩ ⟨(v : Int)⟩).map (resI (·.data))
      = (toOpt (setNewChannelReq ⟨[c, b0, b1, b2, b3, b4], 0⟩ "set_data_rate_range" (.n v))).map resUp :=
  TieA.CreatorsInto.NewChannelReq_set_data_rate_range c b0 b1 b2 b3 b4 v

/-- builder F — `NewChannelReqCreator::set_frequency` at `T = Frequency<'_>`, for a borrowed slice of any length. -/
theorem tieA_creator_NewChannelReq_set_frequency (c b0 b1 b2 b3 b4 : Nat) (f : List Nat) :
    (Gen.MacCmdCreatorIntoFn.NewChannelReqCreator.set_frequency ⟨ints [c, b0, b1, b2, b3, b4]⟩ ⟨ints f⟩).map (resI (·.data))
      = (toOpt (setNewChannelReq ⟨[c, b0, b1, b2, b3, b4], 0⟩ "set_frequency" (.bytes f))).map resUp :=
  TieA.CreatorsInto.NewChannelReq_set_frequency c b0 b1 b2 b3 b4 f

/-! non-vacuity: concrete calls through the regenerated code -/
example : (Gen.MacCmdCreatorIntoFn.LinkADRReqCreator.set_channel_mask ⟨[3, 0x53, 0, 0, 0]⟩ ⟨[0xc7, 0x0b]⟩).map (·.data) = some [3, 0x53, 0xc7, 0x0b, 0] := by decide
example : (Gen.MacCmdCreatorIntoFn.LinkADRReqCreator.set_redundancy ⟨[3, 0x53, 0xc7, 0x0b, 0]⟩ ⟨0x37⟩).map (·.data) = some [3, 0x53, 0xc7, 0x0b, 0x37] := by decide
example : (Gen.MacCmdCreatorIntoFn.NewChannelReqCreator.set_frequency ⟨[7, 3, 0, 0, 0, 0]⟩ ⟨[0x12, 0x34, 0x56]⟩).map (·.data) = some [7, 3, 0x12, 0x34, 0x56, 0] := by decide
example : (Gen.MacCmdCreatorIntoFn.NewChannelReqCreator.set_frequency ⟨[7, 3, 0, 0, 0, 0]⟩ ⟨[0x12, 0x34]⟩) = none := by decide

#print axioms tieA_creator_LinkADRReq_set_channel_mask
#print axioms tieA_creator_LinkADRReq_set_redundancy
#print axioms tieA_creator_NewChannelReq_set_data_rate_range
#print axioms tieA_creator_NewChannelReq_set_frequency
end C19
