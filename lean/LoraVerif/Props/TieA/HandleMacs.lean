import LoraVerif.Props.TieA.HandleRx
import LoraVerif.Props.TieA.C08
import LoraVerif.Gen.SessionMacs
/-!
# Tie A for `Session::handle_downlink_macs` + `push_answer` (session.rs; C08) — the per-command dispatch

`Gen/SessionMacs.lean` holds the state-passing translation of the CURRENT source of `handle_downlink_macs`
(the `while let Some(cmd) = cmd_iter.next()` loop as a recursion over the list of commands the iterator yields,
`cmd_iter.peek()` = the head of the rest, `continue` = next iteration; the `for _ in 0..num_adrreq` loop of
identical LinkADRAns), of `push_answer` (the `answers_full` latch), `Uplink::add_mac_command`,
`DLSettings::{rx1_dr_offset, rx2_data_rate}` and `del_to_delay_ms`.

Abstract in the translation: parsing (a command is what its payload accessors yield — `decCmd` gives the
model's reading of the payload bytes), the region (`MacRegionOps`, instantiated here with the model's functions:
`modelOps`), and the answer creators (a hand-written prelude in the unit: records of the settable fields,
serialised as CID + status byte).
-/
set_option linter.unusedSimpArgs false
set_option linter.unusedVariables false
namespace TieA.Macs
open Model Gen.Region TieA.Rx

def maskOf (m : Mask) : Gen.SessionMacs.ChannelMask := ⟨m.map Int.ofNat⟩

theorem natsOf_maskOf (m : Mask) : Rx.natsOf (maskOf m).bytes = m := by
  simp only [maskOf, Rx.natsOf, List.map_map]
  induction m with
  | nil => rfl
  | cons a t ih => simp only [List.map_cons, ih]; rfl

/-- the region's methods, from the model (`Model/Region.lean`); `Err`/panic of the model = `none` -/
instance modelOps : Gen.SessionMacs.MacRegionOps RegionState where
  channel_mask_get rs := maskOf (channelMaskGet rs)
  has_fixed_channel_plan rs := rs.id.isFixed
  channel_dl_update rs i f := (channelDlUpdate rs i.toNat f.toNat).toOption
  channel_mask_update rs m cntl cm :=
    match cm.bytes with
    | [b0, b1] => (channelMaskUpdate rs (Rx.natsOf m.bytes) cntl.toNat b0.toNat b1.toNat).toOption.map fun r =>
        match r with
        | some m' => (some (), maskOf m')
        | none => (none, m)
    | _ => none
  is_uplink_datarate rs d := isUplinkDatarate rs.id d.toNat
  check_tx_power rs p := (txPowerAdjust rs.id p.toNat).toOption.map fun r => r.map fun x => some (x : Int)
  channel_mask_validate rs m dr := (channelMaskValidate rs (Rx.natsOf m.bytes) dr).toOption
  channel_mask_set rs m := channelMaskSet rs (Rx.natsOf m.bytes)
  handle_new_channel rs i f d := (handleNewChannel rs i.toNat f.toNat (d.map fun x => x._0.toNat)).toOption
  frequency_valid rs f := frequencyValid rs.id f.toNat
  rx1_dr_offset_validate rs v := (rx1DrOffsetValidate rs.id v.toNat).map Int.ofNat
  get_datarate rs d := getDatarate rs.id d.toNat

/-- the 24-bit little-endian frequency field, in Hz -/
def freqOf (a b c : Nat) : Gen.SessionMacs.Frequency := ⟨(((c * 65536 + b * 256 + a) * 100 : Nat) : Int)⟩

/-- the decoded command the iterator yields for a well-formed (CID, payload) pair: the model's reading of the
payload bytes (`handleCmds`) as the values of the payload accessors -/
def decCmd : Nat × List Nat → Gen.SessionMacs.DownlinkMacCommand
  | (0x03, [b0, b1, b2, b3]) =>
    .LinkADRReq ⟨drOfNatT (b0 / 16), drOfNatT (b0 % 16), ⟨[(b1 : Int), (b2 : Int)]⟩, ⟨(((b3 / 16) % 8 : Nat) : Int)⟩⟩
  | (0x05, [d, f0, f1, f2]) => .RXParamSetupReq ⟨⟨(d : Int)⟩, freqOf f0 f1 f2⟩
  | (0x06, _) => .DevStatusReq ⟨⟩
  | (0x07, [i, f0, f1, f2, r]) => .NewChannelReq ⟨(i : Int), freqOf f0 f1 f2, if r / 16 < r % 16 then none else some ⟨(r : Int)⟩⟩
  | (0x08, [d]) => .RXTimingSetupReq ⟨((d % 16 : Nat) : Int)⟩
  | (0x0A, [i, f0, f1, f2]) => .DlChannelReq ⟨(i : Int), freqOf f0 f1 f2⟩
  | (0x04, p) => .DutyCycleReq ⟨p.map Int.ofNat⟩
  | (0x09, p) => .TXParamSetupReq ⟨p.map Int.ofNat⟩
  | (0x0D, p) => .DeviceTimeAns ⟨p.map Int.ofNat⟩
  | (_, p) => .LinkCheckAns ⟨p.map Int.ofNat⟩

/-- a (CID, payload) pair as `parseDownlinkCmds` yields it: a known CID with its payload length, octets -/
def WfCmd (x : Nat × List Nat) : Prop := downlinkCmdLen x.1 = some x.2.length ∧ ∀ b ∈ x.2, b < 256

/-- the generated state and the model's loop state stand for each other -/
structure Rel (gs : Gen.SessionRx.Session) (g : Gen.SessionRx.Configuration) (full : Bool) (c : MacCtx) : Prop where
  cfg : c.cfg = Rx.cfgOf g
  pending : c.pending = Rx.natsOf gs.uplink.pending
  full : c.full = full

/-! ## `push_answer` = `MacCtx.push` -/

theorem add_mac_command_tie (u : Gen.SessionRx.Uplink) (cmd : Gen.SessionMacs.SerializableMacCommand)
    (hlen : cmd.payload_len = cmd.payload_bytes.length)
    (h : u.pending.length + cmd.payload_bytes.length ≤ 18446744073709551615) :
    Gen.SessionMacs.Uplink.add_mac_command u cmd
      = some (decide (u.pending.length + cmd.payload_bytes.length < 15),
          if u.pending.length + cmd.payload_bytes.length < 15 then { u with pending := u.pending ++ cmd.cid :: cmd.payload_bytes } else u) := by
  obtain ⟨pend, conf⟩ := u
  obtain ⟨cid, pb, pl⟩ := cmd
  simp only at hlen h
  subst hlen
  have hof : ∀ n : Nat, Int.ofNat n = (n : Int) := fun _ => rfl
  have hcap : Gen.SessionRx.FOPTS_MAX_LEN = 15 := rfl
  unfold Gen.SessionMacs.Uplink.add_mac_command
  simp only [hof, hcap, Rt.hvPush, Rt.hvPushOk, Rt.hvExtend, Rt.hvExtendOk,
    List.length_append, List.length_singleton, List.length_cons, List.length_nil]
  have hl1 : ((pend ++ [cid]).length : Int) = (pend.length : Int) + 1 := by
    simp only [List.length_append, List.length_singleton]; omega
  by_cases hc : pend.length + pb.length < 15
  · tie_eval
    simp only [List.append_assoc, List.singleton_append]
  · tie_eval

/-- `push_answer`: the latch and the queue move exactly as `MacCtx.push`; a queue of at most 15 bytes stays so -/
theorem push_tie (u : Gen.SessionRx.Uplink) (full : Bool) (cmd : Gen.SessionMacs.SerializableMacCommand)
    (hlen : cmd.payload_len = cmd.payload_bytes.length) (hq : u.pending.length ≤ 15) (hpl : cmd.payload_bytes.length ≤ 15)
    (c : MacCtx) (hp : c.pending = Rx.natsOf u.pending) (hf : c.full = full) :
    ∃ u', Gen.SessionMacs.push_answer u full cmd = some (u', (c.push cmd.cid.toNat (Rx.natsOf cmd.payload_bytes)).full) ∧
      (c.push cmd.cid.toNat (Rx.natsOf cmd.payload_bytes)).pending = Rx.natsOf u'.pending ∧ u'.confirmed = u.confirmed ∧
      u'.pending.length ≤ 15 ∧
      (c.push cmd.cid.toNat (Rx.natsOf cmd.payload_bytes)).cfg = c.cfg ∧ (c.push cmd.cid.toNat (Rx.natsOf cmd.payload_bytes)).region = c.region := by
  unfold Gen.SessionMacs.push_answer
  subst hf
  have hl : c.pending.length = u.pending.length := by rw [hp]; simp [Rx.natsOf]
  have hl2 : (Rx.natsOf cmd.payload_bytes).length = cmd.payload_bytes.length := by simp [Rx.natsOf]
  simp only [MacCtx.push, hl, hl2, add_mac_command_tie u cmd hlen (by omega)]
  cases hfl : c.full
  · by_cases hc : u.pending.length + cmd.payload_bytes.length < 15
    · simp [hc, hfl, hp, Rx.natsOf]
      omega
    · simp [hc, hfl, hp, hq]
  · simp [hfl, hp, hq]

#print axioms push_tie
end TieA.Macs
