import LoraVerif.Props.TieA.HandleRx
import LoraVerif.Gen.UplinkStatic
import LoraVerif.Gen.SessionMacs
/-!
# Tie A for `Session::handle_downlink_macs` + `push_answer` (session.rs; C08) — the per-command dispatch

`Gen/SessionMacs.lean` holds the state-passing translation of the CURRENT source of `handle_downlink_macs`
(the `while let Some(cmd) = cmd_iter.next()` loop as a recursion over the list of commands the iterator yields,
`cmd_iter.peek()` = the head of the rest, `continue` = next iteration; the `for _ in 0..num_adrreq` loop of
identical LinkADRAns), of `push_answer` (the `answers_full` latch), `Uplink::add_mac_command`,
`DLSettings::{rx1_dr_offset, rx2_data_rate}` and `del_to_delay_ms`.

Abstract in the translation: parsing (a command is what its payload accessors yield — `decCmd` gives the
model's reading of the payload bytes), the region (`MacRegionOps`, instantiated here with the model's functions:
`modelOps`), and the answer creators (a hand-written prelude in the unit: records of the settable fields,
serialised as CID + status byte).
-/
set_option linter.unusedSimpArgs false
set_option linter.unusedVariables false
namespace TieA.Macs
open Model Gen.Region TieA.Rx

def maskOf (m : Mask) : Gen.SessionMacs.ChannelMask := ⟨m.map Int.ofNat⟩

theorem natsOf_maskOf (m : Mask) : Rx.natsOf (maskOf m).bytes = m := by
  simp only [maskOf, Rx.natsOf, List.map_map]
  induction m with
  | nil => rfl
  | cons a t ih => simp only [List.map_cons, ih]; rfl

/-- the region's methods, from the model (`Model/Region.lean`); `Err`/panic of the model = `none` -/
instance modelOps : Gen.SessionMacs.MacRegionOps RegionState where
  channel_mask_get rs := maskOf (channelMaskGet rs)
  has_fixed_channel_plan rs := rs.id.isFixed
  channel_dl_update rs i f := (channelDlUpdate rs i.toNat f.toNat).toOption
  channel_mask_update rs m cntl cm :=
    match cm.bytes with
    | [b0, b1] => (channelMaskUpdate rs (Rx.natsOf m.bytes) cntl.toNat b0.toNat b1.toNat).toOption.map fun r =>
        match r with
        | some m' => (some (), maskOf m')
        | none => (none, m)
    | _ => none
  is_uplink_datarate rs d := isUplinkDatarate rs.id d.toNat
  check_tx_power rs p := (txPowerAdjust rs.id p.toNat).toOption.map fun r => r.map fun x => some (x : Int)
  channel_mask_validate rs m dr := (channelMaskValidate rs (Rx.natsOf m.bytes) dr).toOption
  channel_mask_set rs m := channelMaskSet rs (Rx.natsOf m.bytes)
  handle_new_channel rs i f d := (handleNewChannel rs i.toNat f.toNat (d.map fun x => x._0.toNat)).toOption
  frequency_valid rs f := frequencyValid rs.id f.toNat
  rx1_dr_offset_validate rs v := (rx1DrOffsetValidate rs.id v.toNat).map Int.ofNat
  get_datarate rs d := getDatarate rs.id d.toNat

/-- the 24-bit little-endian frequency field, in Hz -/
def freqOf (a b c : Nat) : Gen.SessionMacs.Frequency := ⟨(((c * 65536 + b * 256 + a) * 100 : Nat) : Int)⟩

/-- the decoded command the iterator yields for a well-formed (CID, payload) pair: the model's reading of the
payload bytes (`handleCmds`) as the values of the payload accessors -/
def decCmd : Nat × List Nat → Gen.SessionMacs.DownlinkMacCommand
  | (0x03, [b0, b1, b2, b3]) =>
    .LinkADRReq ⟨drOfNatT (b0 / 16), drOfNatT (b0 % 16), ⟨[(b1 : Int), (b2 : Int)]⟩, ⟨(((b3 / 16) % 8 : Nat) : Int)⟩⟩
  | (0x05, [d, f0, f1, f2]) => .RXParamSetupReq ⟨⟨(d : Int)⟩, freqOf f0 f1 f2⟩
  | (0x06, _) => .DevStatusReq ⟨⟩
  | (0x07, [i, f0, f1, f2, r]) => .NewChannelReq ⟨(i : Int), freqOf f0 f1 f2, if r / 16 < r % 16 then none else some ⟨(r : Int)⟩⟩
  | (0x08, [d]) => .RXTimingSetupReq ⟨((d % 16 : Nat) : Int)⟩
  | (0x0A, [i, f0, f1, f2]) => .DlChannelReq ⟨(i : Int), freqOf f0 f1 f2⟩
  | (0x04, p) => .DutyCycleReq ⟨p.map Int.ofNat⟩
  | (0x09, p) => .TXParamSetupReq ⟨p.map Int.ofNat⟩
  | (0x0D, p) => .DeviceTimeAns ⟨p.map Int.ofNat⟩
  | (_, p) => .LinkCheckAns ⟨p.map Int.ofNat⟩

/-- a (CID, payload) pair as `parseDownlinkCmds` yields it: a known CID with its payload length, octets -/
def WfCmd (x : Nat × List Nat) : Prop := downlinkCmdLen x.1 = some x.2.length ∧ ∀ b ∈ x.2, b < 256

/-- the generated state and the model's loop state stand for each other -/
structure Rel (gs : Gen.SessionRx.Session) (g : Gen.SessionRx.Configuration) (full : Bool) (c : MacCtx) : Prop where
  cfg : c.cfg = Rx.cfgOf g
  pending : c.pending = Rx.natsOf gs.uplink.pending
  full : c.full = full

/-! ## `push_answer` = `MacCtx.push` -/

theorem add_mac_command_tie (u : Gen.SessionRx.Uplink) (cmd : Gen.SessionMacs.SerializableMacCommand)
    (hlen : cmd.payload_len = cmd.payload_bytes.length)
    (h : u.pending.length + cmd.payload_bytes.length ≤ 18446744073709551615) :
    Gen.SessionMacs.Uplink.add_mac_command u cmd
      = some (decide (u.pending.length + cmd.payload_bytes.length < 15),
          if u.pending.length + cmd.payload_bytes.length < 15 then { u with pending := u.pending ++ cmd.cid :: cmd.payload_bytes } else u) := by
  obtain ⟨pend, conf⟩ := u
  obtain ⟨cid, pb, pl⟩ := cmd
  simp only at hlen h
  subst hlen
  have hof : ∀ n : Nat, Int.ofNat n = (n : Int) := fun _ => rfl
  have hcap : Gen.SessionRx.FOPTS_MAX_LEN = 15 := rfl
  unfold Gen.SessionMacs.Uplink.add_mac_command
  simp only [hof, hcap, Rt.hvPush, Rt.hvPushOk, Rt.hvExtend, Rt.hvExtendOk,
    List.length_append, List.length_singleton, List.length_cons, List.length_nil]
  have hl1 : ((pend ++ [cid]).length : Int) = (pend.length : Int) + 1 := by
    simp only [List.length_append, List.length_singleton]; omega
  by_cases hc : pend.length + pb.length < 15
  · tie_eval
    simp only [List.append_assoc, List.singleton_append]
  · tie_eval

/-- `push_answer`: the latch and the queue move exactly as `MacCtx.push`; a queue of at most 15 bytes stays so -/
theorem push_tie (u : Gen.SessionRx.Uplink) (full : Bool) (cmd : Gen.SessionMacs.SerializableMacCommand)
    (hlen : cmd.payload_len = cmd.payload_bytes.length) (hq : u.pending.length ≤ 15) (hpl : cmd.payload_bytes.length ≤ 15)
    (c : MacCtx) (hp : c.pending = Rx.natsOf u.pending) (hf : c.full = full) :
    ∃ u', Gen.SessionMacs.push_answer u full cmd = some (u', (c.push cmd.cid.toNat (Rx.natsOf cmd.payload_bytes)).full) ∧
      (c.push cmd.cid.toNat (Rx.natsOf cmd.payload_bytes)).pending = Rx.natsOf u'.pending ∧ u'.confirmed = u.confirmed ∧
      u'.pending.length ≤ 15 ∧
      (c.push cmd.cid.toNat (Rx.natsOf cmd.payload_bytes)).cfg = c.cfg ∧ (c.push cmd.cid.toNat (Rx.natsOf cmd.payload_bytes)).region = c.region := by
  unfold Gen.SessionMacs.push_answer
  subst hf
  have hl : c.pending.length = u.pending.length := by rw [hp]; simp [Rx.natsOf]
  have hl2 : (Rx.natsOf cmd.payload_bytes).length = cmd.payload_bytes.length := by simp [Rx.natsOf]
  simp only [MacCtx.push, hl, hl2, add_mac_command_tie u cmd hlen (by omega)]
  cases hfl : c.full
  · by_cases hc : u.pending.length + cmd.payload_bytes.length < 15
    · simp [hc, hfl, hp, Rx.natsOf]
      omega
    · simp [hc, hfl, hp, hq]
  · simp [hfl, hp, hq]

/-! ## one command of the stream that is not a LinkADRReq -/

/-- the model's handling of one command outside a LinkADR block (`handleCmds`, one arm) -/
def stepModel (snr : Int) : Nat × List Nat → MacCtx → M MacCtx
  | (0x06, _), c => pure (c.push 0x06 [255, devStatusMargin snr])
  | (0x08, p), c => do
    let d ← delToDelayMs ((← byteAt p 0) % 16)
    pure ({ c with cfg := { c.cfg with rx1Delay := d } }.push 0x08 [])
  | (0x05, p), c => do
    let (ans, cfg) := rxParamSetup c.cfg c.region.id (← byteAt p 0) (← freq24 p 1)
    pure ({ c with cfg := cfg }.push 0x05 [ans])
  | (0x07, p), c =>
    if c.region.id.isFixed then pure c
    else do
      let idx ← byteAt p 0
      let f ← freq24 p 1
      let r ← byteAt p 4
      let drr : Option Nat := if r / 16 < r % 16 then none else some r
      let ((ackF, ackD), region) ← handleNewChannel c.region idx f drr
      pure ({ c with region := region }.push 0x07 [(if ackF then 1 else 0) + (if ackD then 2 else 0)])
  | (0x0A, p), c =>
    if c.region.id.isFixed then pure c
    else do
      let idx ← byteAt p 0
      let f ← freq24 p 1
      let ((ackF, ackC), region) ← channelDlUpdate c.region idx f
      pure ({ c with region := region }.push 0x0A [(if ackF then 1 else 0) + (if ackC then 2 else 0)])
  | (_, _), c => pure c

/-- `handleCmds` on a command that is not a LinkADRReq: that arm, then the rest with the block state untouched -/
theorem handleCmds_cons (snr : Int) (x : Nat × List Nat) (rest : List (Nat × List Nat)) (c : MacCtx) (mask : Mask) (rfu : Bool)
    (n : Nat) (hx : WfCmd x) (h3 : x.1 ≠ 3) :
    handleCmds snr (x :: rest) c mask rfu n = (stepModel snr x c).bind fun c' => handleCmds snr rest c' mask rfu n := by
  obtain ⟨cid, p⟩ := x
  obtain ⟨hl, _⟩ := hx
  simp only at hl h3
  have hc : cid = 2 ∨ cid = 4 ∨ cid = 5 ∨ cid = 6 ∨ cid = 7 ∨ cid = 8 ∨ cid = 9 ∨ cid = 10 ∨ cid = 13 := by
    unfold downlinkCmdLen at hl
    split at hl <;> simp_all
  rcases hc with h | h | h | h | h | h | h | h | h <;> subst h
  · simp [handleCmds, stepModel, Except.bind, pure, Except.pure]
  · simp [handleCmds, stepModel, Except.bind, pure, Except.pure]
  · simp only [handleCmds, stepModel, bind, Except.bind, pure, Except.pure]
    cases byteAt p 0 <;> simp only []
    cases freq24 p 1 <;> simp only []
  · simp [handleCmds, stepModel, Except.bind, pure, Except.pure]
  · simp only [handleCmds, stepModel, bind, Except.bind, pure, Except.pure]
    cases c.region.id.isFixed <;> simp only [Bool.false_eq_true, if_false, if_true]
    cases byteAt p 0 <;> simp only []
    cases freq24 p 1 <;> simp only []
    cases byteAt p 4 <;> simp only []
    rename_i a b d
    cases handleNewChannel c.region a b (if d / 16 < d % 16 then none else some d) <;> simp only []
  · simp only [handleCmds, stepModel, bind, Except.bind, pure, Except.pure]
    cases byteAt p 0 <;> simp only []
    rename_i a
    cases delToDelayMs (a % 16) <;> simp only []
  · simp [handleCmds, stepModel, Except.bind, pure, Except.pure]
  · simp only [handleCmds, stepModel, bind, Except.bind, pure, Except.pure]
    cases c.region.id.isFixed <;> simp only [Bool.false_eq_true, if_false, if_true]
    cases byteAt p 0 <;> simp only []
    cases freq24 p 1 <;> simp only []
    rename_i a b
    cases channelDlUpdate c.region a b <;> simp only []
  · simp [handleCmds, stepModel, Except.bind, pure, Except.pure]

/-- what one iteration of the generated loop must do for a command that is not a LinkADRReq: the model's arm on
the context, the LinkADR block state (working mask, counter, RFU flag) untouched, nothing of the session
touched but the answer queue, a panic on one side iff on the other -/
def StepTie (snr : Int) (x : Nat × List Nat) : Prop :=
  ∀ (gs : Gen.SessionRx.Session) (g : Gen.SessionRx.Configuration) (rs : RegionState) (full : Bool)
    (cm : Gen.SessionMacs.ChannelMask) (n : Int) (rfu : Bool) (peek : Option Gen.SessionMacs.DownlinkMacCommand) (c : MacCtx),
    Rel gs g full c → c.region = rs → gs.uplink.pending.length ≤ 15 →
    match stepModel snr x c with
    | .error _ => Gen.SessionMacs.Session.handle_downlink_macs.while_step snr gs g rs full cm n rfu (decCmd x) peek = none
    | .ok c' => ∃ pend' g', Gen.SessionMacs.Session.handle_downlink_macs.while_step snr gs g rs full cm n rfu (decCmd x) peek
          = some ({ gs with uplink := { gs.uplink with pending := pend' } }, g', c'.region, c'.full, cm, n, rfu) ∧
        c'.pending = Rx.natsOf pend' ∧ c'.cfg = Rx.cfgOf g' ∧ pend'.length ≤ 15

/-- `DevStatusAnsCreator::set_margin` on −32..=31 (as `C08.tieA_devStatusMargin`; restated here so that the
properties that import this file — C05/C06/C07 through `HandleRxFull.lean` — do not inherit the generated units of
`Props/TieA/C08.lean`) -/
theorem margin_byte (snr : Int) (h : -32 ≤ snr ∧ snr ≤ 31) :
    Gen.UplinkStatic.DevStatusAnsCreator.set_margin.byte snr = some (some (devStatusMargin snr : Int)) := by
  have all : ∀ k : Fin 64,
      Gen.UplinkStatic.DevStatusAnsCreator.set_margin.byte ((k.val : Int) - 32) =
        some (some (devStatusMargin ((k.val : Int) - 32) : Int)) := by decide +kernel
  have := all ⟨(snr + 32).toNat, by omega⟩
  have e : (((snr + 32).toNat : Nat) : Int) - 32 = snr := by omega
  simpa only [e] using this

/-- the margin byte the creator ends with, for every `snr` -/
theorem set_margin_eq (snr : Int) (b : Int) :
    ∃ r, Gen.SessionMacs.DevStatusAnsCreator.set_margin ⟨b, 0⟩ snr = some (r, ⟨b, (devStatusMargin snr : Int)⟩) := by
  unfold Gen.SessionMacs.DevStatusAnsCreator.set_margin
  by_cases h : -32 ≤ snr ∧ snr ≤ 31
  · rw [margin_byte snr h]
    exact ⟨_, rfl⟩
  · have hb : Gen.UplinkStatic.DevStatusAnsCreator.set_margin.byte snr = some none := by
      unfold Gen.UplinkStatic.DevStatusAnsCreator.set_margin.byte
      simp [h]
    have hz : devStatusMargin snr = 0 := by simp [devStatusMargin, h]
    rw [hb, hz]
    exact ⟨_, rfl⟩

/-- DevStatusReq: `DevStatusAns(255, margin)` is pushed -/
theorem tieA_step_dev_status (snr : Int) (p : List Nat) : StepTie snr (0x06, p) := by
  intro gs g rs full cm n rfu peek c hrel hreg hq
  obtain ⟨r, hm⟩ := set_margin_eq snr 255
  simp only [stepModel, pure, Except.pure]
  unfold Gen.SessionMacs.Session.handle_downlink_macs.while_step
  simp only [decCmd, Gen.SessionMacs.DevStatusAnsCreator.new, Gen.SessionMacs.DevStatusAnsCreator.set_battery, hm,
    Option.bind_eq_bind, Option.bind_some]
  obtain ⟨u', h1, h2, h3, h4, h5, h6⟩ := push_tie gs.uplink full
    (⟨0x06, [255, (devStatusMargin snr : Int)], 2⟩ : Gen.SessionMacs.SerializableMacCommand) rfl hq (by simp) c hrel.pending hrel.full
  have e : Rx.natsOf [255, (devStatusMargin snr : Int)] = [255, devStatusMargin snr] := by simp [Rx.natsOf]
  simp only [e, show ((6 : Int).toNat) = 6 from rfl] at h1 h2 h5 h6
  refine ⟨u'.pending, g, ?_, h2, by rw [h5]; exact hrel.cfg, h4⟩
  show (Gen.SessionMacs.push_answer gs.uplink full ⟨0x06, [255, (devStatusMargin snr : Int)], 2⟩).bind _ = _
  rw [h1]
  simp only [Option.bind_some, Option.pure_def, h6, hreg]
  congr
  cases u'; simp_all

/-- commands the device ignores (LinkCheckAns, DutyCycleReq, TXParamSetupReq, DeviceTimeAns): nothing changes -/
theorem tieA_step_ignored (snr : Int) (cid : Nat) (p : List Nat) (h : cid = 2 ∨ cid = 4 ∨ cid = 9 ∨ cid = 13) :
    StepTie snr (cid, p) := by
  intro gs g rs full cm n rfu peek c hrel hreg hq
  rcases h with h | h | h | h <;> subst h <;>
  · simp only [stepModel, pure, Except.pure]
    unfold Gen.SessionMacs.Session.handle_downlink_macs.while_step
    simp only [decCmd]
    exact ⟨gs.uplink.pending, g, by rw [hreg, hrel.full]; rfl, hrel.pending, hrel.cfg, hq⟩

/-- the two regenerated copies of `del_to_delay_ms` are the same function -/
theorem del_eq : Gen.SessionMacs.del_to_delay_ms = Gen.Session.del_to_delay_ms := by
  funext d
  unfold Gen.SessionMacs.del_to_delay_ms Gen.Session.del_to_delay_ms
  rfl

/-- RXTimingSetupReq: `rx1_delay` from the low nibble, the (empty) answer pushed -/
theorem tieA_step_rx_timing (snr : Int) (d : Nat) : StepTie snr (0x08, [d]) := by
  intro gs g rs full cm n rfu peek c hrel hreg hq
  subst hreg
  simp only [stepModel, byteAt, delToDelayMs, bind, Except.bind, pure, Except.pure, List.getElem?_cons_zero]
  unfold Gen.SessionMacs.Session.handle_downlink_macs.while_step
  simp only [decCmd, del_eq, Option.bind_eq_bind]
  cases hd : Gen.Session.del_to_delay_ms ((d % 16 : Nat) : Int) with
  | none => simp [ofGen, Model.panic]
  | some v =>
    simp only [ofGen, Option.bind_some]
    obtain ⟨u', h1, h2, h3, h4, h5, h6⟩ := push_tie gs.uplink full
      (⟨0x08, [], 0⟩ : Gen.SessionMacs.SerializableMacCommand) rfl hq (by simp)
      { c with cfg := { c.cfg with rx1Delay := v.toNat } } hrel.pending hrel.full
    have e : Rx.natsOf ([] : List Int) = [] := rfl
    simp only [e, show ((8 : Int).toNat) = 8 from rfl] at h1 h2 h5 h6
    refine ⟨u'.pending, { g with rx1_delay := v }, ?_, h2, by rw [h5]; simp [Rx.cfgOf, hrel.cfg], h4⟩
    show (Gen.SessionMacs.push_answer gs.uplink full ⟨0x08, [], 0⟩).bind _ = _
    rw [h1]
    simp only [Option.bind_some, Option.pure_def, h6]
    congr
    cases u'; simp_all

/-- DlChannelReq: ignored on a fixed plan; otherwise the region's `channel_dl_update` and the two answer bits -/
theorem tieA_step_dl_channel (snr : Int) (i f0 f1 f2 : Nat) : StepTie snr (0x0A, [i, f0, f1, f2]) := by
  intro gs g rs full cm n rfu peek c hrel hreg hq
  subst hreg
  simp only [stepModel, byteAt, freq24, bind, Except.bind, pure, Except.pure, List.getElem?_cons_zero, List.getElem?_cons_succ]
  unfold Gen.SessionMacs.Session.handle_downlink_macs.while_step
  simp only [decCmd, freqOf, Gen.SessionMacs.MacRegionOps.has_fixed_channel_plan, Gen.SessionMacs.MacRegionOps.channel_dl_update,
    Int.toNat_natCast, Option.bind_eq_bind]
  cases hfx : c.region.id.isFixed
  · simp only [Bool.false_eq_true, if_false]
    cases hu : channelDlUpdate c.region i ((f2 * 65536 + f1 * 256 + f0) * 100) with
    | error e => simp [Except.toOption]
    | ok r =>
      obtain ⟨⟨ackF, ackC⟩, region⟩ := r
      simp only [Except.toOption, Option.bind_some, Gen.SessionMacs.DlChannelAnsCreator.new,
        Gen.SessionMacs.DlChannelAnsCreator.set_channel_frequency_ack, Gen.SessionMacs.DlChannelAnsCreator.set_uplink_frequency_exists_ack]
      obtain ⟨u', h1, h2, h3, h4, h5, h6⟩ := push_tie gs.uplink full
        (⟨0x0A, [Rt.b2i ackF + 2 * Rt.b2i ackC], 1⟩ : Gen.SessionMacs.SerializableMacCommand) rfl hq (by simp)
        { c with region := region } hrel.pending hrel.full
      have e : Rx.natsOf [Rt.b2i ackF + 2 * Rt.b2i ackC] = [(if ackF then 1 else 0) + (if ackC then 2 else 0)] := by
        cases ackF <;> cases ackC <;> rfl
      simp only [e, show ((10 : Int).toNat) = 10 from rfl] at h1 h2 h5 h6
      refine ⟨u'.pending, g, ?_, h2, by rw [h5]; exact hrel.cfg, h4⟩
      show (Gen.SessionMacs.push_answer gs.uplink full ⟨0x0A, [Rt.b2i ackF + 2 * Rt.b2i ackC], 1⟩).bind _ = _
      rw [h1]
      simp only [Option.bind_some, Option.pure_def, h6]
      congr
      cases u'; simp_all
  · simp only [if_true]
    exact ⟨gs.uplink.pending, g, by rw [hrel.full]; rfl, hrel.pending, hrel.cfg, hq⟩

/-- NewChannelReq: ignored on a fixed plan; otherwise the region's `handle_new_channel` (a malformed
DataRateRange passed as `None`) and the two answer bits -/
theorem tieA_step_new_channel (snr : Int) (i f0 f1 f2 r : Nat) : StepTie snr (0x07, [i, f0, f1, f2, r]) := by
  intro gs g rs full cm n rfu peek c hrel hreg hq
  subst hreg
  simp only [stepModel, byteAt, freq24, bind, Except.bind, pure, Except.pure, List.getElem?_cons_zero, List.getElem?_cons_succ]
  unfold Gen.SessionMacs.Session.handle_downlink_macs.while_step
  simp only [decCmd, freqOf, Gen.SessionMacs.MacRegionOps.has_fixed_channel_plan, Gen.SessionMacs.MacRegionOps.handle_new_channel,
    Int.toNat_natCast, Option.bind_eq_bind]
  have hdr : (Option.map (fun x : Gen.SessionMacs.DataRateRange => x._0.toNat) (if r / 16 < r % 16 then none else some ⟨(r : Int)⟩))
      = (if r / 16 < r % 16 then none else some r) := by
    split <;> simp
  cases hfx : c.region.id.isFixed
  · simp only [Bool.false_eq_true, if_false, hdr]
    cases hu : handleNewChannel c.region i ((f2 * 65536 + f1 * 256 + f0) * 100) (if r / 16 < r % 16 then none else some r) with
    | error e => simp [Except.toOption]
    | ok rr =>
      obtain ⟨⟨ackF, ackD⟩, region⟩ := rr
      simp only [Except.toOption, Option.bind_some, Gen.SessionMacs.NewChannelAnsCreator.new,
        Gen.SessionMacs.NewChannelAnsCreator.set_channel_frequency_ack, Gen.SessionMacs.NewChannelAnsCreator.set_data_rate_range_ack]
      obtain ⟨u', h1, h2, h3, h4, h5, h6⟩ := push_tie gs.uplink full
        (⟨0x07, [Rt.b2i ackF + 2 * Rt.b2i ackD], 1⟩ : Gen.SessionMacs.SerializableMacCommand) rfl hq (by simp)
        { c with region := region } hrel.pending hrel.full
      have e : Rx.natsOf [Rt.b2i ackF + 2 * Rt.b2i ackD] = [(if ackF then 1 else 0) + (if ackD then 2 else 0)] := by
        cases ackF <;> cases ackD <;> rfl
      simp only [e, show ((7 : Int).toNat) = 7 from rfl] at h1 h2 h5 h6
      refine ⟨u'.pending, g, ?_, h2, by rw [h5]; exact hrel.cfg, h4⟩
      show (Gen.SessionMacs.push_answer gs.uplink full ⟨0x07, [Rt.b2i ackF + 2 * Rt.b2i ackD], 1⟩).bind _ = _
      rw [h1]
      simp only [Option.bind_some, Option.pure_def, h6]
      congr
      cases u'; simp_all
  · simp only [if_true]
    exact ⟨gs.uplink.pending, g, by rw [hrel.full]; rfl, hrel.pending, hrel.cfg, hq⟩

/-! ## non-vacuity -/

/-- a DevStatusReq with SNR −3 on an empty queue: `DevStatusAns(255, 0x3D)` is queued; a second one after 13
queued bytes does not fit and raises the latch -/
example :
    (@Gen.SessionMacs.Session.handle_downlink_macs RegionState modelOps ⟨⟨[], false⟩, false, ⟨⟨1⟩⟩, ⟨⟨2⟩⟩, ⟨3⟩, 0, none, 0⟩
        TieA.Rx.exCfg (RegionState.init .EU868) [some (decCmd (6, []))] (-3) false).map (fun o => (o.1.uplink.pending, o.2.2.2))
      = some ([6, 255, 0x3D], false) ∧
    (@Gen.SessionMacs.Session.handle_downlink_macs RegionState modelOps ⟨⟨List.replicate 13 0, false⟩, false, ⟨⟨1⟩⟩, ⟨⟨2⟩⟩, ⟨3⟩, 0, none, 0⟩
        TieA.Rx.exCfg (RegionState.init .EU868) [some (decCmd (6, []))] (-3) false).map (fun o => (o.1.uplink.pending.length, o.2.2.2))
      = some (13, true) := by
  constructor <;> rfl

/-- a block of two LinkADRReq on EU868 (mask 0x0007, DR5, power 1): two identical `LinkADRAns(0b111)`, the data
rate and the power are applied — the generated loop run on the model's region -/
example :
    (@Gen.SessionMacs.Session.handle_downlink_macs RegionState modelOps ⟨⟨[], false⟩, false, ⟨⟨1⟩⟩, ⟨⟨2⟩⟩, ⟨3⟩, 0, none, 0⟩
        TieA.Rx.exCfg (RegionState.init .EU868)
        [some (decCmd (3, [0x51, 0x07, 0x00, 0x00])), some (decCmd (3, [0x51, 0x07, 0x00, 0x00]))] 0 false).map
        (fun o => (o.1.uplink.pending, o.2.1.data_rate, o.2.1.tx_power))
      = some ([3, 7, 3, 7], DR._5, some 14) := by
  rfl

example : WfCmd (6, []) ∧ WfCmd (3, [0x51, 0x07, 0x00, 0x00]) := by
  refine ⟨⟨rfl, by simp⟩, ⟨rfl, ?_⟩⟩
  intro b hb
  simp at hb
  omega

#print axioms push_tie
#print axioms handleCmds_cons
#print axioms tieA_step_dev_status
#print axioms tieA_step_ignored
#print axioms tieA_step_rx_timing
#print axioms tieA_step_dl_channel
#print axioms tieA_step_new_channel
end TieA.Macs

namespace C08
open Model TieA.Macs

/-- builder R — `push_answer` (session.rs), regenerated from the current source with `Uplink::add_mac_command`
(`Gen/SessionMacs.lean`), is the model's `MacCtx.push`: nothing is queued once the `answers_full` latch is up; an
answer that fits (queue + payload < 15) is appended as CID then payload; the first answer that does not fit raises
the latch and leaves the queue; the owed-ACK flag is untouched; a queue of at most 15 bytes stays so; no panic. -/
theorem tieA_push_answer (u : Gen.SessionRx.Uplink) (full : Bool) (cmd : Gen.SessionMacs.SerializableMacCommand)
    (hlen : cmd.payload_len = cmd.payload_bytes.length) (hq : u.pending.length ≤ 15) (hpl : cmd.payload_bytes.length ≤ 15)
    (c : MacCtx) (hp : c.pending = TieA.Rx.natsOf u.pending) (hf : c.full = full) :
    ∃ u', Gen.SessionMacs.push_answer u full cmd = some (u', (c.push cmd.cid.toNat (TieA.Rx.natsOf cmd.payload_bytes)).full) ∧
      (c.push cmd.cid.toNat (TieA.Rx.natsOf cmd.payload_bytes)).pending = TieA.Rx.natsOf u'.pending ∧ u'.confirmed = u.confirmed ∧
      u'.pending.length ≤ 15 ∧
      (c.push cmd.cid.toNat (TieA.Rx.natsOf cmd.payload_bytes)).cfg = c.cfg ∧
      (c.push cmd.cid.toNat (TieA.Rx.natsOf cmd.payload_bytes)).region = c.region :=
  push_tie u full cmd hlen hq hpl c hp hf

/- The full statement builder R left here (`tieA_handle_downlink_macs`) is proved by builder S in
`Props/TieA/HandleMacsLoop.lean` (the RXParamSetupReq arm: `HandleMacsRxParam.lean`; the LinkADRReq block arm:
`HandleMacsAdr.lean`; the induction over the command list: `loop_tie`). -/

/-- builder R — `Session::handle_downlink_macs`, the arms R proved (a lemma of `C08.tieA_handle_downlink_macs` now): one iteration of the regenerated dispatch loop
(`Gen/SessionMacs.lean`: `while let Some(cmd) = cmd_iter.next()` as a recursion over the commands the iterator
yields, the region's methods instantiated with the model's) is the model's arm of `handleCmds` (`stepModel`;
`handleCmds_cons`: on a well-formed command that is not a LinkADRReq, `handleCmds` is that arm followed by the
rest with the LinkADR block state untouched) for DevStatusReq (battery 255, the 6-bit margin), RXTimingSetupReq
(`rx1_delay` from the low nibble), NewChannelReq and DlChannelReq (ignored on fixed plans; the region's handler,
the two answer bits in the order frequency / range resp. frequency / uplink-exists), and the commands the device
ignores (LinkCheckAns, DutyCycleReq, TXParamSetupReq, DeviceTimeAns): same answer queue and latch, same
configuration and region, the LinkADR block state (working mask, counter, RFU flag) and every other field of the
session untouched, a panic on one side iff on the other. -/
theorem tieA_handle_downlink_macs_partial (snr : Int) :
    (∀ (x : Nat × List Nat) (rest : List (Nat × List Nat)) (c : MacCtx) (mask : Mask) (rfu : Bool) (n : Nat), WfCmd x → x.1 ≠ 3 →
      handleCmds snr (x :: rest) c mask rfu n = (stepModel snr x c).bind fun c' => handleCmds snr rest c' mask rfu n) ∧
    (∀ p, StepTie snr (0x06, p)) ∧
    (∀ d, StepTie snr (0x08, [d])) ∧
    (∀ i f0 f1 f2 r, StepTie snr (0x07, [i, f0, f1, f2, r])) ∧
    (∀ i f0 f1 f2, StepTie snr (0x0A, [i, f0, f1, f2])) ∧
    (∀ cid p, cid = 2 ∨ cid = 4 ∨ cid = 9 ∨ cid = 13 → StepTie snr (cid, p)) :=
  ⟨fun x rest c mask rfu n hx h3 => handleCmds_cons snr x rest c mask rfu n hx h3,
   tieA_step_dev_status snr, tieA_step_rx_timing snr, tieA_step_new_channel snr, tieA_step_dl_channel snr,
   fun cid p h => tieA_step_ignored snr cid p h⟩

#print axioms tieA_push_answer
#print axioms tieA_handle_downlink_macs_partial
end C08
