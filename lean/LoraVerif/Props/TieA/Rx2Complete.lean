import LoraVerif.Props.TieA.StateBridge
import LoraVerif.Props.TieA.Tactics
/-!
# Tie A for a whole stateful method: `Session::rx2_complete`

`Gen/SessionFn.lean` holds the state-passing translation of the CURRENT source of
`Session::rx2_complete(&mut self, configuration: &mut Configuration, region)`: struct values in,
`(Response, Session, Configuration)` out, in the checked arithmetic of `Rt` (`none` = a Rust panic).
`tieA_rx2_complete` proves it equal to the hand model's `rx2Complete` for every well-formed state
(no panic, same response, same session, same configuration).  The proof does not name locals or
helper methods of the source: the generated definition and whatever helpers the translator emitted
are unfolded (`gen_unfold_helpers_SessionFn`) and both sides are evaluated under a case split on the
model's own tests.
-/
set_option linter.unusedSimpArgs false
set_option linter.unusedVariables false
namespace TieA
open Model Gen.Region

theorem satAdd_u32 {a b : Int} (h : 0 ≤ a + b) : Rt.satAdd .u32 a b = min 4294967295 (a + b) := by
  have e1 : Rt.ITy.lo .u32 = 0 := rfl
  have e2 : Rt.ITy.hi .u32 = 4294967295 := rfl
  simp only [Rt.satAdd, e1, e2]; omega

theorem isMultipleOf_pos {a b : Int} (hb : 0 < b) : Rt.isMultipleOf a b = decide (a % b = 0) := by
  simp only [Rt.isMultipleOf]; rw [if_neg (by omega)]

/-- the saturating count on both sides -/
theorem sat_bridge {cnt : Int} (h3 : 0 ≤ cnt) (h4 : cnt ≤ 4294967295) :
    ∃ c' : Int, min 4294967295 (cnt + 1) = c' ∧ min (cnt.toNat + 1) 4294967295 = c'.toNat ∧ 1 ≤ c' ∧ c' ≤ 4294967295 := by
  rw [Int.min_def, Nat.min_def]
  split <;> split <;> (refine ⟨_, rfl, ?_, ?_, ?_⟩ <;> omega)

/-- closes a leaf: response, session fields, configuration fields -/
macro "tie_leaf" : tactic =>
  `(tactic| (simp [respOf, *] <;> omega))

/-- `Session::rx2_complete` as the current source has it (state-passing translation, checked
arithmetic) never panics on a well-formed session and is the model's `rx2Complete`: same response,
same session (counter, ADR count, confirmed flag; the fields the method cannot reach untouched), same
configuration (data rate stepped down exactly when the model steps it down) -/
theorem tieA_rx2_complete (s0 : Session) (gs : Gen.SessionFn.Session) (g : Gen.SessionFn.Configuration) (r : RegionId)
    (hw : SessWF gs) :
    (Gen.SessionFn.Session.rx2_complete gs g (regionOf r)).bind
        (fun o => (respOf o.1).map (fun resp => (resp, sessOf s0 o.2.1, cfgOf o.2.2)))
      = some (rx2Complete (sessOf s0 gs) (cfgOf g) r) := by
  obtain ⟨conf, fu, fd, cnt⟩ := gs
  obtain ⟨dr, d1, j1, j2, tp, off, r2d, r2f, adr⟩ := g
  simp only [SessWF] at hw
  obtain ⟨h1, h2, h3, h4⟩ := hw
  -- constants and checked operations of the generated side
  have e2 : Rt.ck .usize (Gen.SessionFn.ADR_ACK_LIMIT + Gen.SessionFn.ADR_ACK_DELAY) = some 96 := by decide
  have e2' : Rt.ck .usize (Gen.SessionFn.ADR_ACK_DELAY + Gen.SessionFn.ADR_ACK_LIMIT) = some 96 := by decide
  have e3 : Rt.wrap .u32 96 = 96 := by decide
  have e4 : Rt.wrap .u32 Gen.SessionFn.ADR_ACK_LIMIT = 64 := by decide
  have e5 : Rt.wrap .u32 Gen.SessionFn.ADR_ACK_DELAY = 32 := by decide
  have e6 : Rt.satAdd .u32 cnt 1 = min 4294967295 (cnt + 1) := satAdd_u32 (by omega)
  have e7 := @isMultipleOf_pos
  have hl : Gen.Session.ADR_ACK_LIMIT.toNat = 64 := by decide
  have hd : Gen.Session.ADR_ACK_DELAY.toNat = 32 := by decide
  obtain ⟨c', hc', hcn, hc1, hc2⟩ := sat_bridge h3 h4
  unfold Gen.SessionFn.Session.rx2_complete
  gen_unfold_helpers_SessionFn
  simp only [rx2Complete, sessOf, cfgOf, regionOf, Gen.SessionFn.next_lower_datarate, e2, e2', e3, e4, e5, e6, hl, hd, hc', hcn,
    Option.bind_eq_bind, Option.bind_some, Option.pure_def]
  by_cases hx : fu = 4294967295
  · have hx' : fu.toNat = 4294967295 := by omega
    cases conf <;> cases adr <;> tie_eval <;> tie_leaf
  · have hx' : ¬ fu.toNat = 4294967295 := by omega
    have e1 : Rt.ck .u32 (fu + 1) = some (fu + 1) := Rt.ck_u32 (by omega) (by omega)
    cases adr
    · cases conf <;> tie_eval <;> tie_leaf
    · by_cases hb : c' ≥ 96
      · have hbn : c'.toNat ≥ 64 + 32 := by omega
        by_cases hm : (c' - 64) % 32 = 0
        · have hmn : (c'.toNat - 64) % 32 = 0 := by omega
          cases hn : nextLowerDatarate r dr.toInt.toNat with
          | none => cases conf <;> tie_eval <;> tie_leaf
          | some c =>
            have hlt := nextLower_lt hn
            have hdl := DR.toInt_lt dr
            have hc := drOfNatT_toInt c (by omega)
            cases conf <;> tie_eval <;> tie_leaf
        · have hmn : ¬ (c'.toNat - 64) % 32 = 0 := by omega
          cases conf <;> tie_eval <;> tie_leaf
      · have hbn : ¬ c'.toNat ≥ 64 + 32 := by omega
        cases conf <;> tie_eval <;> tie_leaf

/-- non-vacuity: a session at count 95 with ADR on steps from DR5 to DR4 in EU868 and reports `RxComplete` -/
example :
    (Gen.SessionFn.Session.rx2_complete ⟨false, 7, none, 95⟩ ⟨._5, 1000, 5000, 6000, none, 0, none, none, true⟩ (regionOf .EU868)).map
        (fun o => (o.1, o.2.1.fcnt_up, o.2.1.adr_ack_cnt, o.2.2.data_rate))
      = some (.RxComplete, 8, 96, ._4) := by decide

/-- non-vacuity: counter exhaustion -/
example :
    (Gen.SessionFn.Session.rx2_complete ⟨true, 4294967295, none, 0⟩ ⟨._5, 1000, 5000, 6000, none, 0, none, none, true⟩ (regionOf .EU868)).map
        (fun o => (o.1, o.2.1.fcnt_up))
      = some (.SessionExpired, 4294967295) := by decide

#print axioms tieA_rx2_complete
end TieA
