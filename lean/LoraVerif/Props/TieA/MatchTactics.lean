import Lean
/-!
# `gen_match`: name a `match` of generated code without spelling it (builder S)

The generated units contain `match x { DR::_15 => a, n => b(n) }`-style expressions compiled to auxiliary matchers
whose names depend on the position in the generated file.  `gen_match t as X h` finds the first application of a
matcher in the goal whose single discriminant is (syntactically) `t` and generalizes it: the goal mentions `X`, and
`h : (match t with …) = X` is available to characterise `X` by a case split on `t` on a SMALL goal.  The proofs thereby
name neither the matcher nor its position.
-/
open Lean Meta Elab Tactic

namespace TieA

elab "gen_match " t:term " as " x:ident h:ident : tactic => withMainContext do
  let t ← instantiateMVars (← elabTerm t none)
  let goal ← getMainGoal
  let tgt ← instantiateMVars (← goal.getType)
  let env ← getEnv
  let isCand (e : Expr) : Bool :=
    !e.hasLooseBVars &&
      (match Lean.Meta.isMatcherAppCore? env e with
       | some info =>
         info.numDiscrs == 1 && e.getAppNumArgs == info.arity &&
           (match e.getAppArgs[info.getFirstDiscrPos]? with
            | some d => d == t
            | none => false)
       | none => false)
  match tgt.find? isCand with
  | none => throwError "gen_match: no match on {t} in the goal"
  | some e =>
    let (_, newGoal) ← goal.generalize #[{ expr := e, xName? := some x.getId, hName? := some h.getId }]
    replaceMainGoal [newGoal]

end TieA
