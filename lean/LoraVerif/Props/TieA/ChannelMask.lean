import LoraVerif.Model.Region
import LoraVerif.Gen.ChannelMaskFn
import LoraVerif.Lemmas.RtLemmas
/-!
# Tie A for the bit operations of `ChannelMask<N>` (lorawan-encoding/src/types.rs; C08 / C09)

`Gen/ChannelMaskFn.lean` holds the translation of the CURRENT source of `ChannelMask::{set_bank, set_channel,
get_index, channel_enabled, is_enabled}` over the byte array `self.0` (`N` = its length), in `Rt`'s checked
arithmetic: `channel >> 3`, `1 << (channel & 7)` typed `u8` from its later use, `!flag`, `|=` / `&=` through
the index (out of bounds: a panic), `N * 8 - 1`.

Each is proved EQUAL to the model's operation on the mask (`Mask.setBank`, `Mask.setChannel`, `Mask.isEnabled`,
`m[i]?`), for every mask of octets (any length), every index / channel number and every value: same mask
afterwards, a panic on one side iff on the other.
-/
set_option linter.unusedSimpArgs false
set_option linter.unusedVariables false
namespace TieA.CMask
open Model

def natsOf (l : List Int) : List Nat := l.map Int.toNat

/-- a generated mask holds octets -/
def Octets (l : List Int) : Prop := ∀ x ∈ l, 0 ≤ x ∧ x ≤ 255

/-- the bit patterns of the four operations, for every octet and bit number: `1 << k` in `u8`, `b | flag`,
`b & !flag`, `b & flag != 0` -/
theorem bit_facts : ∀ (b : Fin 256) (k : Fin 8),
    Rt.shlC .u8 1 (k.val : Int) = some ((1 <<< k.val : Nat) : Int) ∧
    Rt.orI (b.val : Int) ((1 <<< k.val : Nat) : Int) = ((b.val ||| (1 <<< k.val) : Nat) : Int) ∧
    Rt.andI (b.val : Int) (Rt.notI .u8 ((1 <<< k.val : Nat) : Int)) = ((b.val &&& (255 - (1 <<< k.val)) : Nat) : Int) ∧
    decide (Rt.andI (b.val : Int) ((1 <<< k.val : Nat) : Int) ≠ 0) = b.val.testBit k.val := by
  decide +kernel

/-- the results stay octets -/
theorem bit_range : ∀ (b : Fin 256) (k : Fin 8),
    (b.val ||| (1 <<< k.val)) < 256 ∧ (b.val &&& (255 - (1 <<< k.val))) < 256 := by
  decide +kernel

theorem shr3 (ch : Int) (h : 0 ≤ ch) : Rt.shrC .usize ch 3 = some (((ch.toNat / 8 : Nat)) : Int) := by
  have : (0 : Int) ≤ 3 ∧ (3 : Int) < ((Rt.ITy.usize.bits : Nat) : Int) := by decide
  simp only [Rt.shrC, this, and_self, if_true]
  have : ((2 : Int) ^ (3 : Int).toNat) = 8 := by decide
  rw [this]; congr 1; omega

theorem and7 (ch : Int) (h : 0 ≤ ch) : Rt.andI ch 7 = ((ch.toNat % 8 : Nat) : Int) := by
  have h7 : (0 : Int) ≤ 7 := by decide
  simp only [Rt.andI, h, h7, and_self, if_true]
  have : (7 : Int).toNat = 2 ^ 3 - 1 := by decide
  rw [this, Nat.and_two_pow_sub_one_eq_mod]

/-- the same two quantities spelt `channel / 8` and `channel % 8` (a harmless rewrite of the source) -/
theorem div8 (ch : Int) (h : 0 ≤ ch) (h1 : ch ≤ 18446744073709551615) : Rt.divC .usize ch 8 = some (((ch.toNat / 8 : Nat)) : Int) := by
  rw [Rt.divC_pos h (by decide), Rt.ck_usize (by omega) (by omega)]; congr 1; omega

theorem rem8 (ch : Int) (h : 0 ≤ ch) (h1 : ch ≤ 18446744073709551615) : Rt.remC .usize ch 8 = some (((ch.toNat % 8 : Nat)) : Int) := by
  have h8 : (8 : Int) ≠ 0 := by decide
  simp only [Rt.remC, h8, if_false]
  have : Int.tmod ch 8 = ch % 8 := by rw [Int.tmod_eq_emod_of_nonneg h]
  rw [this, Rt.ck_usize (by omega) (by omega)]; congr 1; omega

theorem idx_ofNat (l : List Nat) (i : Nat) : Rt.idx (l.map Int.ofNat) (i : Int) = l[i]?.map Int.ofNat := by
  simp only [Rt.idx]
  rw [if_neg (by omega)]
  simp

theorem setIdx_ofNat (l : List Nat) (i : Nat) (v : Nat) (h : i < l.length) :
    Rt.setIdx (l.map Int.ofNat) (i : Int) (v : Int) = some ((l.set i v).map Int.ofNat) := by
  simp only [Rt.setIdx, List.length_map]
  rw [if_pos ⟨by omega, by simpa using h⟩]
  simp [List.map_set]

theorem natsOf_ofNat (l : List Nat) : natsOf (l.map Int.ofNat) = l := by
  induction l with
  | nil => rfl
  | cons a t ih => simp only [natsOf, List.map_cons, List.map_map] at ih ⊢; rw [ih]; rfl

theorem ofNat_natsOf (l : List Int) (h : Octets l) : (natsOf l).map Int.ofNat = l := by
  induction l with
  | nil => rfl
  | cons a t ih =>
    have ha := h a (by simp)
    have := ih (fun x hx => h x (by simp [hx]))
    simp only [natsOf, List.map_cons, List.map_map] at this ⊢
    rw [this]; congr 1; simp; omega

theorem natsOf_lt (l : List Int) (h : Octets l) : ∀ x ∈ natsOf l, x < 256 := by
  intro x hx
  simp only [natsOf, List.mem_map] at hx
  obtain ⟨y, hy, rfl⟩ := hx
  have := h y hy
  omega

/-! ## on masks given as lists of naturals below 256 -/

theorem set_channel_nat (l : List Nat) (hb : ∀ x ∈ l, x < 256) (ch : Int) (h0 : 0 ≤ ch) (h1 : ch ≤ 18446744073709551615) (set : Bool) :
    (Gen.ChannelMaskFn.ChannelMask.set_channel ⟨l.map Int.ofNat⟩ ch set).map (fun m => natsOf m._0)
      = (Mask.setChannel l ch.toNat set).toOption := by
  unfold Gen.ChannelMaskFn.ChannelMask.set_channel Mask.setChannel
  have hk : ch.toNat % 8 < 8 := Nat.mod_lt _ (by decide)
  obtain ⟨e1, _, _, _⟩ := bit_facts ⟨0, by decide⟩ ⟨ch.toNat % 8, hk⟩
  simp only at e1
  simp only [shr3 ch h0, and7 ch h0, div8 ch h0 h1, rem8 ch h0 h1, e1, Option.bind_eq_bind, Option.bind_some, idx_ofNat]
  cases hq : l[ch.toNat / 8]? with
  | none => cases set <;> simp [Except.toOption, Model.panic]
  | some b =>
    have hlt : ch.toNat / 8 < l.length := by
      rcases Nat.lt_or_ge (ch.toNat / 8) l.length with h | h
      · exact h
      · rw [List.getElem?_eq_none h] at hq; cases hq
    have hbm : b ∈ l := List.mem_of_getElem? hq
    have hb' := hb b hbm
    obtain ⟨_, e2, e3, _⟩ := bit_facts ⟨b, hb'⟩ ⟨ch.toNat % 8, hk⟩
    simp only at e2 e3
    have e2' : Rt.orI (Int.ofNat b) ((1 <<< (ch.toNat % 8) : Nat) : Int) = ((b ||| (1 <<< (ch.toNat % 8)) : Nat) : Int) := e2
    have e3' : Rt.andI (Int.ofNat b) (Rt.notI .u8 ((1 <<< (ch.toNat % 8) : Nat) : Int)) = ((b &&& (255 - (1 <<< (ch.toNat % 8))) : Nat) : Int) := e3
    cases set
    · simp only [Bool.false_eq_true, if_false, Option.map_some, Option.bind_some, e3', setIdx_ofNat l _ _ hlt,
        Option.pure_def, Option.map_some, natsOf_ofNat, Except.toOption]
    · simp only [if_true, Option.map_some, Option.bind_some, e2', setIdx_ofNat l _ _ hlt,
        Option.pure_def, Option.map_some, natsOf_ofNat, Except.toOption]

theorem channel_enabled_nat (l : List Nat) (hb : ∀ x ∈ l, x < 256) (i : Int) (h0 : 0 ≤ i) (h1 : i ≤ 18446744073709551615) :
    Gen.ChannelMaskFn.ChannelMask.channel_enabled ⟨l.map Int.ofNat⟩ i
      = l[i.toNat / 8]?.map (fun b => b.testBit (i.toNat % 8)) := by
  unfold Gen.ChannelMaskFn.ChannelMask.channel_enabled
  have hk : i.toNat % 8 < 8 := Nat.mod_lt _ (by decide)
  simp only [shr3 i h0, and7 i h0, div8 i h0 h1, rem8 i h0 h1, Option.bind_eq_bind, Option.bind_some, idx_ofNat]
  cases hq : l[i.toNat / 8]? with
  | none => simp
  | some b =>
    have hb' := hb b (List.mem_of_getElem? hq)
    obtain ⟨e1, _, _, e4⟩ := bit_facts ⟨b, hb'⟩ ⟨i.toNat % 8, hk⟩
    simp only at e1 e4
    have e4' : decide (Rt.andI (Int.ofNat b) ((1 <<< (i.toNat % 8) : Nat) : Int) ≠ 0) = b.testBit (i.toNat % 8) := e4
    simp only [Option.map_some, Option.bind_some, e1, Option.pure_def, e4']

/-- `N * 8` fits `usize` (true of every array that exists) -/
def LenOk (n : Nat) : Prop := (n : Int) * 8 ≤ 18446744073709551615

theorem is_enabled_nat (l : List Nat) (hb : ∀ x ∈ l, x < 256) (hl : 0 < l.length) (h64 : LenOk l.length) (i : Int) (h0 : 0 ≤ i) (h1 : i ≤ 18446744073709551615) :
    (Gen.ChannelMaskFn.ChannelMask.is_enabled ⟨l.map Int.ofNat⟩ i).bind id = (Mask.isEnabled l i.toNat).toOption ∧
    (i.toNat ≤ l.length * 8 - 1 → ∃ b, Gen.ChannelMaskFn.ChannelMask.is_enabled ⟨l.map Int.ofNat⟩ i = some (some b)) := by
  unfold Gen.ChannelMaskFn.ChannelMask.is_enabled Mask.isEnabled
  unfold LenOk at h64
  simp only [List.length_map, Int.ofNat_eq_natCast, channel_enabled_nat l hb i h0 h1]
  rw [Rt.ck_usize (by omega) h64]
  simp only [Option.bind_eq_bind, Option.bind_some]
  rw [Rt.ck_usize (by omega) (by omega)]
  simp only [Option.bind_some]
  by_cases hgt : i > (l.length : Int) * 8 - 1
  · have hgt' : i.toNat > l.length * 8 - 1 := by omega
    refine ⟨?_, fun h => absurd h (by omega)⟩
    simp [hgt, hgt', Except.toOption, Model.panic]
  · have hgt' : ¬ i.toNat > l.length * 8 - 1 := by omega
    have hlt : i.toNat / 8 < l.length := by omega
    simp only [hgt, hgt', decide_false, Bool.false_eq_true, if_false, List.getElem?_eq_getElem hlt, Option.map_some,
      Option.bind_some, Option.pure_def, id, Except.toOption]
    exact ⟨trivial, fun _ => ⟨_, rfl⟩⟩

theorem set_bank_nat (l : List Nat) (i : Int) (h0 : 0 ≤ i) (v : Nat) :
    (Gen.ChannelMaskFn.ChannelMask.set_bank ⟨l.map Int.ofNat⟩ i (v : Int)).map (fun m => natsOf m._0)
      = (Mask.setBank l i.toNat v).toOption := by
  unfold Gen.ChannelMaskFn.ChannelMask.set_bank Mask.setBank
  by_cases h : i.toNat < l.length
  · have := setIdx_ofNat l i.toNat v h
    rw [show ((i.toNat : Nat) : Int) = i by omega] at this
    rw [this, if_pos h]
    simp only [Option.bind_eq_bind, Option.bind_some, Option.pure_def, Option.map_some, natsOf_ofNat, Except.toOption]
  · have : Rt.setIdx (l.map Int.ofNat) i (v : Int) = none := by
      simp only [Rt.setIdx, List.length_map]; rw [if_neg (by omega)]
    simp [this, h, Except.toOption, Model.panic]

theorem get_index_nat (l : List Nat) (i : Int) (h0 : 0 ≤ i) :
    Gen.ChannelMaskFn.ChannelMask.get_index ⟨l.map Int.ofNat⟩ i = l[i.toNat]?.map Int.ofNat := by
  unfold Gen.ChannelMaskFn.ChannelMask.get_index
  have := idx_ofNat l i.toNat
  rw [show ((i.toNat : Nat) : Int) = i by omega] at this
  simp [this]

/-! ## on generated masks of octets -/

/-- `ChannelMask::set_channel` as the current source has it is the model's `Mask.setChannel`: bit
`channel & 7` of byte `channel >> 3` set or cleared, nothing else touched, out of bounds a panic -/
theorem set_channel_tie (m : Gen.ChannelMaskFn.ChannelMask) (hm : Octets m._0) (ch : Int) (h0 : 0 ≤ ch) (h1 : ch ≤ 18446744073709551615) (set : Bool) :
    (Gen.ChannelMaskFn.ChannelMask.set_channel m ch set).map (fun m' => natsOf m'._0)
      = (Mask.setChannel (natsOf m._0) ch.toNat set).toOption := by
  have := set_channel_nat (natsOf m._0) (natsOf_lt _ hm) ch h0 h1 set
  rw [ofNat_natsOf _ hm] at this
  exact this

/-- the mask stays a list of octets of the same length -/
theorem set_channel_octets (m m' : Gen.ChannelMaskFn.ChannelMask) (hm : Octets m._0) (ch : Int) (h0 : 0 ≤ ch) (h1 : ch ≤ 18446744073709551615) (set : Bool)
    (h : Gen.ChannelMaskFn.ChannelMask.set_channel m ch set = some m') : Octets m'._0 ∧ m'._0.length = m._0.length := by
  have hk : ch.toNat % 8 < 8 := Nat.mod_lt _ (by decide)
  obtain ⟨e1, _, _, _⟩ := bit_facts ⟨0, by decide⟩ ⟨ch.toNat % 8, hk⟩
  simp only at e1
  unfold Gen.ChannelMaskFn.ChannelMask.set_channel at h
  simp only [shr3 ch h0, and7 ch h0, div8 ch h0 h1, rem8 ch h0 h1, e1, Option.bind_eq_bind, Option.bind_some] at h
  have hidx : Rt.idx m._0 ((ch.toNat / 8 : Nat) : Int) = m._0[ch.toNat / 8]? := by
    simp only [Rt.idx]; rw [if_neg (by omega), Int.toNat_natCast]
  rw [hidx] at h
  cases hq : m._0[ch.toNat / 8]? with
  | none => rw [hq] at h; cases set <;> simp at h
  | some b =>
    rw [hq] at h
    have hbm : b ∈ m._0 := List.mem_of_getElem? hq
    obtain ⟨hb0, hb1⟩ := hm b hbm
    obtain ⟨_, e2, e3, _⟩ := bit_facts ⟨b.toNat, by omega⟩ ⟨ch.toNat % 8, hk⟩
    obtain ⟨r2, r3⟩ := bit_range ⟨b.toNat, by omega⟩ ⟨ch.toNat % 8, hk⟩
    simp only at e2 e3 r2 r3
    rw [show ((b.toNat : Nat) : Int) = b by omega] at e2 e3
    have hlt : ch.toNat / 8 < m._0.length := by
      rcases Nat.lt_or_ge (ch.toNat / 8) m._0.length with h | h
      · exact h
      · rw [List.getElem?_eq_none h] at hq; cases hq
    have hset : ∀ v, Rt.setIdx m._0 ((ch.toNat / 8 : Nat) : Int) v = some (m._0.set (ch.toNat / 8) v) := by
      intro v; simp only [Rt.setIdx]; rw [if_pos ⟨by omega, by rw [Int.toNat_natCast]; exact hlt⟩, Int.toNat_natCast]
    have hoct : ∀ v : Int, 0 ≤ v ∧ v ≤ 255 → Octets (m._0.set (ch.toNat / 8) v) := by
      intro v hv x hx
      rcases List.mem_or_eq_of_mem_set hx with h | h
      · exact hm x h
      · subst h; exact hv
    cases set
    · simp only [Bool.false_eq_true, if_false, Option.bind_some, e3, hset, Option.pure_def, Option.some.injEq] at h
      subst h
      exact ⟨hoct _ ⟨by omega, by omega⟩, by simp⟩
    · simp only [if_true, Option.bind_some, e2, hset, Option.pure_def, Option.some.injEq] at h
      subst h
      exact ⟨hoct _ ⟨by omega, by omega⟩, by simp⟩

/-- `ChannelMask::is_enabled(i)` followed by `unwrap()` is the model's `Mask.isEnabled` (`Err(InvalidIndex)`
past `N * 8 - 1`, else bit `i & 7` of byte `i >> 3`); inside the range it answers `Ok` -/
theorem is_enabled_tie (m : Gen.ChannelMaskFn.ChannelMask) (hm : Octets m._0) (hl : 0 < m._0.length) (h64 : LenOk m._0.length)
    (i : Int) (h0 : 0 ≤ i) (h1 : i ≤ 18446744073709551615) :
    (Gen.ChannelMaskFn.ChannelMask.is_enabled m i).bind id = (Mask.isEnabled (natsOf m._0) i.toNat).toOption ∧
    (i.toNat ≤ m._0.length * 8 - 1 → ∃ b, Gen.ChannelMaskFn.ChannelMask.is_enabled m i = some (some b)) := by
  have hlen : (natsOf m._0).length = m._0.length := by simp [natsOf]
  have := is_enabled_nat (natsOf m._0) (natsOf_lt _ hm) (by omega) (by rw [hlen]; exact h64) i h0 h1
  rw [ofNat_natsOf _ hm, hlen] at this
  exact this

/-- `ChannelMask::set_bank` is the model's `Mask.setBank` -/
theorem set_bank_tie (m : Gen.ChannelMaskFn.ChannelMask) (hm : Octets m._0) (i : Int) (h0 : 0 ≤ i) (v : Int) (hv : 0 ≤ v) :
    (Gen.ChannelMaskFn.ChannelMask.set_bank m i v).map (fun m' => natsOf m'._0)
      = (Mask.setBank (natsOf m._0) i.toNat v.toNat).toOption := by
  have := set_bank_nat (natsOf m._0) i h0 v.toNat
  rw [ofNat_natsOf _ hm, show ((v.toNat : Nat) : Int) = v by omega] at this
  exact this

/-- `ChannelMask::get_index` reads byte `index` (out of bounds: a panic) -/
theorem get_index_tie (m : Gen.ChannelMaskFn.ChannelMask) (hm : Octets m._0) (i : Int) (h0 : 0 ≤ i) :
    (Gen.ChannelMaskFn.ChannelMask.get_index m i).map Int.toNat = (natsOf m._0)[i.toNat]? := by
  have := get_index_nat (natsOf m._0) i h0
  rw [ofNat_natsOf _ hm] at this
  rw [this]; cases (natsOf m._0)[i.toNat]? <;> simp

/-! ## non-vacuity -/

/-- all 72 channels enabled; channel 11 is switched off (byte 1: 0xF7), then reads as off, channel 12 as on;
index 72 is `Err(InvalidIndex)`, `set_channel(72)` panics -/
example :
    Gen.ChannelMaskFn.ChannelMask.set_channel ⟨List.replicate 9 255⟩ 11 false = some ⟨[255, 0xF7, 255, 255, 255, 255, 255, 255, 255]⟩ ∧
    Gen.ChannelMaskFn.ChannelMask.is_enabled ⟨[255, 0xF7, 255, 255, 255, 255, 255, 255, 255]⟩ 11 = some (some false) ∧
    Gen.ChannelMaskFn.ChannelMask.is_enabled ⟨[255, 0xF7, 255, 255, 255, 255, 255, 255, 255]⟩ 12 = some (some true) ∧
    Gen.ChannelMaskFn.ChannelMask.is_enabled ⟨List.replicate 9 255⟩ 72 = some none ∧
    Gen.ChannelMaskFn.ChannelMask.set_channel ⟨List.replicate 9 255⟩ 72 true = none ∧
    Gen.ChannelMaskFn.ChannelMask.set_bank ⟨List.replicate 9 255⟩ 8 0 = some ⟨[255, 255, 255, 255, 255, 255, 255, 255, 0]⟩ := by
  decide

example : Octets (List.replicate 9 255) ∧ LenOk (List.replicate 9 (255 : Int)).length := by
  refine ⟨?_, by unfold LenOk; decide⟩
  intro x hx
  have := (List.mem_replicate.mp hx).2
  omega

#print axioms set_channel_tie
#print axioms set_channel_octets
#print axioms is_enabled_tie
#print axioms set_bank_tie
#print axioms get_index_tie
end TieA.CMask
