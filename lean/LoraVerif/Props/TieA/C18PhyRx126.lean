import LoraVerif.Model.PhyRx
import LoraVerif.Gen.PhyRxFn126
import LoraVerif.Props.TieA.C18RadioBuffer
/-!
# Tie A for `get_rx_payload` of the SX126x driver (lora-phy/src/sx126x/mod.rs) — builder B, property C18

`Gen/PhyRxFn126.lean` holds the translation (I/O mode, `Rt.Phy.IoM`) of the CURRENT source of
`Sx126x::get_rx_payload` with its helpers (`reg_r_8`, `OpStatusErrorMask::is_error`).  New in the I/O
mode: the caller's `&mut [u8]` receive buffer is passed by value and handed back next to the `Ok` value; a
read INTO `receiving_buffer[..n]` is `Rt.slice` (the slice expression, which may panic) → the transaction →
`Rt.copyFromSlice` (write-back).

`tieA_get_rx_payload_sx126x` runs the regenerated method on the wire-level chip `chipDev c` (for EVERY
chip content `c : Chip126`: status byte, PayloadLengthRx, RxStartBufferPointer, register 0x0702, 256-byte
data buffer with its wrapping read pointer), every caller buffer, both header modes and every request
prefix, and proves it agrees with the hand model `getRxPayload126` (fault-free run): same
Ok(n) / Err(OpError status) / Err(PayloadSizeMismatch) / panic, same bytes in the caller's buffer, and the
same requests in the same order, on Ok (GetRxBufferStatus, [ReadRegister 0x0702], ReadBuffer at the
reported offset for exactly n bytes, each followed by the busy wait) and on Err (no ReadBuffer; no register
read after an error status).
-/
set_option linter.unusedSimpArgs false
set_option linter.unusedVariables false
namespace C18
open Model.PhyRx Rt.Phy Gen.PhyRxFn126 Gen.PhyErr

/-- a byte on the wire as the generated code sees it -/
def wireOf (b : UInt8) : Int := (b.toNat : Int)

/-- the wire-level SX126x answering the three reads of the packet fetch (datasheet 13.5.2 GetRxBufferStatus =
0x13: status, PayloadLengthRx, RxStartBufferPointer; 13.2.2 ReadRegister = 0x1D at 0x0702; 13.2.4 ReadBuffer =
0x1E offset NOP: the data buffer from `offset`, wrapping at 256); it has no state of its own here -/
def chipDev (c : Chip126) : Dev Unit := fun _ w n =>
  (match w with
   | [19] => ([c.status, c.rxLen, c.rxStart].map wireOf).take n
   | [29, 7, 2, 0] => ([c.regPayloadLen].map wireOf).take n
   | [30, off, 0] => (chipRead c.buffer off.toNat n).map wireOf
   | _ => List.replicate n 0, ())

/-- the model's error for a generated `RadioError` -/
def errOf : RadioError → RadioErr
  | .OpError s => .opError (byteOf s)
  | .PayloadSizeMismatch a b => .payloadSizeMismatch a.toNat b.toNat
  | .Busy => .busy
  | _ => .spi

/-- what it means for a run of the generated method (from request prefix `log`, caller buffer `gbuf`) to be
the model's answer `m`, with `reqs` the requests expected on `Ok` and `ereqs` those expected on `Err` -/
def Agrees (g : Option (Except RadioError (Int × List Int) × Unit × List Ev)) (gbuf : List Int) (log reqs ereqs : List Ev) (m : Res) : Prop :=
  match g with
  | none => ∃ s, m.out = .panic s
  | some (.error e, _, log') => m.out = .err (errOf e) ∧ m.buf = bytesOf gbuf ∧ log' = log ++ ereqs
  | some (.ok (n, b), _, log') => m.out = .ok n.toNat ∧ m.buf = bytesOf b ∧ b.length = gbuf.length ∧ log' = log ++ reqs

theorem byteOf_wireOf (b : UInt8) : byteOf (wireOf b) = b := by simp [byteOf, wireOf]

theorem bytesOf_map_wireOf (l : List UInt8) : bytesOf (l.map wireOf) = l := by
  simp [bytesOf, Function.comp_def, byteOf_wireOf]

/-- `OpStatusErrorMask::is_error` of the current source is the model's `isError`, for all 256 status bytes -/
theorem is_error_table : ∀ n : Nat, n < 256 → OpStatusErrorMask.is_error (n : Int) = isError (UInt8.ofNat n) := by
  decide +kernel

theorem tieA_is_error (s : UInt8) : OpStatusErrorMask.is_error (wireOf s) = isError s := by
  have h := is_error_table s.toNat (by have := s.toNat_lt; omega)
  simpa [wireOf] using h

/-- the requests of a fetch of `n` bytes at the reported offset -/
def reqs126 (c : Chip126) (implicit : Bool) (n : Nat) : List Ev :=
  [.spi [19] 3, .busy] ++ (if implicit then [.spi [29, 7, 2, 0] 1, .busy] else []) ++ [.spi [30, wireOf c.rxStart, 0] n, .busy]

theorem wireOf_toNat (b : UInt8) : (wireOf b).toNat = b.toNat := by simp [wireOf]

theorem chipRead_len (mem : Nat → UInt8) (off n : Nat) : (chipRead mem off n).length = n := by simp [chipRead]

theorem len_lt_wire (l : List Int) (L : UInt8) : ((l.length : Int) < wireOf L) ↔ l.length < L.toNat := by
  simp only [wireOf]; omega

theorem slice_wire (l : List Int) (L : UInt8) (h : ¬ l.length < L.toNat) :
    Rt.slice l 0 (wireOf L) = some (l.take L.toNat) := by
  have h' : (0 : Int) ≤ 0 ∧ (0 : Int) ≤ wireOf L ∧ wireOf L ≤ (l.length : Int) := by simp only [wireOf]; omega
  simp only [Rt.slice]; rw [if_pos h']; simp [wireOf]

theorem copy_wire (l src : List Int) (L : UInt8) (hs : src.length = L.toNat) (h : ¬ l.length < L.toNat) :
    Rt.copyFromSlice l 0 (wireOf L) src = some (src ++ l.drop L.toNat) := by
  have h' : (0 : Int) ≤ 0 ∧ (0 : Int) ≤ wireOf L ∧ wireOf L ≤ (l.length : Int) ∧ (src.length : Int) = wireOf L - 0 := by
    simp only [wireOf]; omega
  simp only [Rt.copyFromSlice]; rw [if_pos h']; simp [wireOf]

theorem take_len (l : List Int) (L : UInt8) (h : ¬ l.length < L.toNat) : (l.take L.toNat).length = L.toNat := by
  simp; omega

theorem take_chip (mem : Nat → UInt8) (off n : Nat) :
    List.take n (List.map wireOf (chipRead mem off n)) = List.map wireOf (chipRead mem off n) :=
  List.take_of_length_le (by simp [chipRead_len])

/-- the requests of a refused fetch: the status read alone (`OpError`), or with the length read-back before the
`PayloadSizeMismatch` -/
def ereqs126 (c : Chip126) (implicit : Bool) : List Ev :=
  [.spi [19] 3, .busy] ++ (if implicit && !isError c.status then [.spi [29, 7, 2, 0] 1, .busy] else [])

theorem tieA_get_rx_payload_sx126x (self : Sx126x) (p : PacketParams) (c : Chip126) (gbuf : List Int) (log : List Ev) :
    Agrees (Sx126x.get_rx_payload self p gbuf (chipDev c) () log) gbuf log
      (reqs126 c p.implicit_header (if p.implicit_header then c.regPayloadLen.toNat else c.rxLen.toNat))
      (ereqs126 c p.implicit_header)
      (getRxPayload126 c p.implicit_header none (bytesOf gbuf)) := by
  obtain ⟨pre, imp, pl, crc, iq⟩ := p
  have hie := tieA_is_error c.status
  have o1 : Gen.PhyCodes126.OpCode.value .GetRxBufferStatus = 19 := by decide
  have o2 : Gen.PhyCodes126.OpCode.value .ReadRegister = 29 := by decide
  have o3 : Gen.PhyCodes126.OpCode.value .ReadBuffer = 30 := by decide
  have r1 : Gen.PhyCodes126.Register.addr1 .PayloadLength = some 7 := by decide
  have r2 : Gen.PhyCodes126.Register.addr2 .PayloadLength = 2 := by decide
  have i0 : ∀ a b : Int, Rt.idx [a, b] 0 = some a := fun a b => by simp [Rt.idx]
  have i1 : ∀ a b : Int, Rt.idx [a, b] 1 = some b := fun a b => by simp [Rt.idx]
  have i2 : ∀ a : Int, Rt.idx [a] 0 = some a := fun a => by simp [Rt.idx]
  unfold Sx126x.get_rx_payload
  gen_unfold_helpers_PhyRxFn126
  simp only [getRxPayload126, ioRead, failsAt, bind, IoM.bind, pure, IoM.pure, Rt.Phy.read, Rt.Phy.readWithStatus, Rt.Phy.xfer,
    Rt.Phy.waitOnBusy, Rt.Phy.ofOpt, Rt.Phy.throw, Rt.Phy.fill, chipDev, reduceCtorEq, if_false, o1, o2, o3, r1, r2]
  cases imp <;> by_cases he : isError c.status = true
  all_goals simp [he, hie, i0, i1, i2, Agrees, errOf, ereqs126, byteOf_wireOf, Rt.Phy.throw, IoM.pure, IoM.bind, Rt.Phy.ofOpt, Rt.Phy.xfer,
    Rt.Phy.waitOnBusy, chipDev, len_lt_wire]
  · by_cases hl : gbuf.length < c.rxLen.toNat
    · simp [hl, he, Rt.Phy.throw, errOf, wireOf_toNat, ereqs126]
    · have e1 := slice_wire gbuf c.rxLen hl
      have e2 := take_len gbuf c.rxLen hl
      have e3 := copy_wire gbuf ((chipRead c.buffer c.rxStart.toNat c.rxLen.toNat).map wireOf) c.rxLen (by simp [chipRead_len]) hl
      have e4 : sliceTo (bytesOf gbuf) c.rxLen.toNat = some ((bytesOf gbuf).take c.rxLen.toNat, (bytesOf gbuf).drop c.rxLen.toNat) := by
        simp only [sliceTo, bytesOf_length]; rw [if_pos (by omega)]
      simp [hl, e1, e2, e3, e4, take_chip, IoM.pure, wireOf_toNat, chipRead_len, readInto, failsAt, reqs126, bytesOf_append, bytesOf_map_wireOf, bytesOf_drop]
      try omega
  · by_cases hl : gbuf.length < c.regPayloadLen.toNat
    · simp [hl, he, Rt.Phy.throw, errOf, wireOf_toNat, ereqs126]
    · have e1 := slice_wire gbuf c.regPayloadLen hl
      have e2 := take_len gbuf c.regPayloadLen hl
      have e3 := copy_wire gbuf ((chipRead c.buffer c.rxStart.toNat c.regPayloadLen.toNat).map wireOf) c.regPayloadLen (by simp [chipRead_len]) hl
      have e4 : sliceTo (bytesOf gbuf) c.regPayloadLen.toNat = some ((bytesOf gbuf).take c.regPayloadLen.toNat, (bytesOf gbuf).drop c.regPayloadLen.toNat) := by
        simp only [sliceTo, bytesOf_length]; rw [if_pos (by omega)]
      simp [hl, e1, e2, e3, e4, take_chip, IoM.pure, wireOf_toNat, chipRead_len, readInto, failsAt, reqs126, bytesOf_append, bytesOf_map_wireOf, bytesOf_drop]
      try omega

/-- non-vacuity: a chip reporting 3 bytes at offset 254 (the read pointer wraps: 254, 255, 0) into a 5-byte buffer,
explicit header: `Ok(3)`, three bytes delivered, the rest untouched, two transactions with their busy waits -/
example :
    Sx126x.get_rx_payload ⟨⟨⟨⟩, none, false, false⟩⟩ ⟨8, false, 0, true, false⟩ [9, 9, 9, 9, 9]
        (chipDev ⟨4, 3, 254, 7, fun i => UInt8.ofNat i⟩) () []
      = some (.ok (3, [254, 255, 0, 9, 9]), (), [.spi [19] 3, .busy, .spi [30, 254, 0] 3, .busy]) := by rfl
/-- … a 2-byte buffer is refused before any read of the data buffer … -/
example :
    Sx126x.get_rx_payload ⟨⟨⟨⟩, none, false, false⟩⟩ ⟨8, false, 0, true, false⟩ [9, 9]
        (chipDev ⟨4, 3, 254, 7, fun i => UInt8.ofNat i⟩) () []
      = some (.error (.PayloadSizeMismatch 3 2), (), [.spi [19] 3, .busy]) := by rfl
/-- … and a status byte with command status 5 (execution failure) is `OpError` -/
example :
    Sx126x.get_rx_payload ⟨⟨⟨⟩, none, false, false⟩⟩ ⟨8, true, 0, true, false⟩ [9, 9]
        (chipDev ⟨0x2a, 3, 254, 7, fun i => UInt8.ofNat i⟩) () []
      = some (.error (.OpError 42), (), [.spi [19] 3, .busy]) := by rfl

end C18
