import LoraVerif.Lemmas.RtLemmas
/-!
# Tie A for whole methods: the evaluation tactic shared by the `tieA_<method>` proofs.

`tie_eval` evaluates a generated (state-passing) method and the hand model under the facts in the
context: `if`s are decided by `omega` from those facts, checked operations succeed when `omega` shows
the operand in range, `Option` binds are stepped.  It names nothing of the generated code.
-/
namespace TieA

/-- evaluates the generated method and the model under the facts in the context -/
macro "tie_eval" : tactic =>
  `(tactic| simp (disch := omega) only [if_pos, if_neg, decide_eq_true_eq, decide_eq_false_iff_not, Rt.ck_u32, Rt.ck_usize, Rt.ck_u8, Rt.ck_u16, gt_iff_lt, Option.bind_some,
      Option.map_some, Option.map_none, ge_iff_le, Bool.false_eq_true, if_false, if_true, Option.bind_eq_bind, Option.pure_def,
      decide_false, decide_true, Bool.not_true, Bool.not_false, beq_iff_eq, Bool.and_true, Bool.true_and, Bool.and_false,
      Bool.false_and, Bool.and_eq_true, Bool.or_eq_true, not_true_eq_false, not_false_eq_true, decide_eq_true, decide_eq_false, Bool.not_eq_true', Bool.not_eq_true, decide_not, Bool.not_not, *])


end TieA
