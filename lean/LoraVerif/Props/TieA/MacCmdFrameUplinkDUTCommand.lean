import LoraVerif.Props.TieA.MacCmdFrameGen
import LoraVerif.Gen.MacCmdFnUplinkDUTCommand
/-!
# Tie A for the framing step of `UplinkDUTCommand` (builder F, C03)

`Gen/MacCmdFnUplinkDUTCommand.lean` holds what `#[derive(CommandHandler)]` generates for `UplinkDUTCommand` (payload structs,
`new_from_raw` / `max_len`, `MacCommandSet::parse_one`, expanded from the `quote!` templates with the `#[cmd]` attributes of
the current source), the hand-written `len()` helpers of its variable-length payloads, and the source's
`MacCommands::next` for `T = UplinkDUTCommand`.  Here: the regenerated framing IS the hand model `Model/MacCmd.lean` over the
regenerated table `Gen.CmdTables.uplinkDUTCommand`, for every octet stream.  The set-independent part of the argument is
`Props/TieA/MacCmdFrameGen.lean`; this file supplies the reading of the set's own types (`infoOf` …), one lemma per
`match` arm, and the bridge `next_bridge` (the unit's `next` is `gNext` of the unit's `parse_one`).
-/
set_option linter.unusedSimpArgs false
set_option linter.unusedVariables false
namespace TieA.FrameUplinkDUTCommand
open MacCmd TieA.MacCmdFrame TieA.FrameGen

/-- the table of the set, regenerated from the `#[cmd]` attributes (C03's `T`) -/
def TS : Table := C03.T Gen.CmdTables.uplinkDUTCommand

/-- what a yielded command is: CID, variant, payload type, the octets its payload view borrows -/
def infoOf : Gen.MacCmdFnUplinkDUTCommand.UplinkDUTCommand → Info
  | .EchoIncPayloadAns p => (8, "EchoIncPayloadAns", "EchoIncPayloadAnsPayload", p._0)
  | .RxAppCntAns p => (9, "RxAppCntAns", "RxAppCntAnsPayload", p._0)
  | .DutVersionsAns p => (127, "DutVersionsAns", "DutVersionsAnsPayload", p._0)

def errOf : Gen.MacCmdFnUplinkDUTCommand.ParseError → MacCmd.ParseError
  | .UnknownCid c => .unknownCid c.toNat
  | .Truncated c => .truncated c.toNat

def oneOf : Gen.MacCmdFnUplinkDUTCommand.ParseOne → POne
  | .Ok c n => .ok (infoOf c, n)
  | .Err e => .error (errOf e)

def itemOf : Gen.MacCmdFnUplinkDUTCommand.NextItem → GItem
  | .Ok c => .ok (infoOf c)
  | .Err e => .error (errOf e)

def stOf (g : Gen.MacCmdFnUplinkDUTCommand.MacCommands) : GSt := (g.data, g.errored)

/-- the regenerated `parse_one` in set-independent vocabulary -/
def P (d : List Int) : Option POne := (Gen.MacCmdFnUplinkDUTCommand.UplinkDUTCommand.parse_one d).map oneOf

attribute [local simp] infoOf errOf oneOf Gen.MacCmdFnUplinkDUTCommand.EchoIncPayloadAnsPayload.new_from_raw Gen.MacCmdFnUplinkDUTCommand.EchoIncPayloadAnsPayload.len Gen.MacCmdFnUplinkDUTCommand.EchoIncPayloadAnsPayload.min_len Gen.MacCmdFnUplinkDUTCommand.RxAppCntAnsPayload.new_from_raw Gen.MacCmdFnUplinkDUTCommand.RxAppCntAnsPayload.max_len Gen.MacCmdFnUplinkDUTCommand.DutVersionsAnsPayload.new_from_raw Gen.MacCmdFnUplinkDUTCommand.DutVersionsAnsPayload.max_len

theorem arm8 : ∀ rest : List Nat, (8 :: rest).length < 2 ^ 64 → (Gen.MacCmdFnUplinkDUTCommand.UplinkDUTCommand.parse_one (ints (8 :: rest))).map oneOf
    = (toOpt (parseOne TS varLen (8 :: rest))).map oneUp := by
  arm_toEnd Gen.MacCmdFnUplinkDUTCommand.UplinkDUTCommand.parse_one

theorem arm9 : ∀ rest : List Nat, (Gen.MacCmdFnUplinkDUTCommand.UplinkDUTCommand.parse_one (ints (9 :: rest))).map oneOf
    = (toOpt (parseOne TS varLen (9 :: rest))).map oneUp := by
  arm_fixed Gen.MacCmdFnUplinkDUTCommand.UplinkDUTCommand.parse_one 2

theorem arm127 : ∀ rest : List Nat, (Gen.MacCmdFnUplinkDUTCommand.UplinkDUTCommand.parse_one (ints (127 :: rest))).map oneOf
    = (toOpt (parseOne TS varLen (127 :: rest))).map oneUp := by
  arm_fixed Gen.MacCmdFnUplinkDUTCommand.UplinkDUTCommand.parse_one 12

theorem lookup_none (cid : Nat) (h : cid ∉ [8, 9, 127]) : TS.lookup cid = none := by
  simp only [List.mem_cons, List.not_mem_nil, or_false, not_or] at h
  obtain ⟨h8, h9, h127⟩ := h
  have e : ∀ k : Nat, cid ≠ k → (k == cid) = false := fun k hk => by simp; omega
  simp [TS, C03.T, Table.ofRows, Gen.CmdTables.uplinkDUTCommand, Table.lookup, Entry.ofRow, List.find?, e _ h8, e _ h9, e _ h127]

theorem arm_unknown (cid : Nat) (h : cid ∉ [8, 9, 127]) (rest : List Nat) :
    (Gen.MacCmdFnUplinkDUTCommand.UplinkDUTCommand.parse_one (ints (cid :: rest))).map oneOf = (toOpt (parseOne TS varLen (cid :: rest))).map oneUp := by
  rw [model_unknown' TS varLen cid rest (lookup_none cid h)]
  simp only [List.mem_cons, List.not_mem_nil, or_false, not_or] at h
  obtain ⟨h8, h9, h127⟩ := h
  unfold Gen.MacCmdFnUplinkDUTCommand.UplinkDUTCommand.parse_one
  simp only [idx0', Option.bind_eq_bind, Option.bind_some]
  have e8 : ¬ ((cid : Int) = 8) := by omega
  have e9 : ¬ ((cid : Int) = 9) := by omega
  have e127 : ¬ ((cid : Int) = 127) := by omega
  simp [e8, e9, e127, h8, h9, h127, toOpt, oneUp]

/-- the regenerated `parse_one` of `UplinkDUTCommand` IS the model's `parseOne` over the regenerated table, on every octet string -/
theorem parse_one_tie (data : List Nat) (hlen : data.length < 2 ^ 64) :
    (Gen.MacCmdFnUplinkDUTCommand.UplinkDUTCommand.parse_one (ints data)).map oneOf = (toOpt (parseOne TS varLen data)).map oneUp := by
  cases data with
  | nil => rfl
  | cons cid rest =>
    by_cases h : cid ∈ [8, 9, 127]
    · simp only [List.mem_cons, List.not_mem_nil, or_false] at h
      rcases h with rfl | rfl | rfl
      · exact arm8 rest hlen
      · exact arm9 rest
      · exact arm127 rest
    · exact arm_unknown cid h rest

/-- the length bound under which the regenerated `parse_one` cannot overflow `1 + len` -/
def Q (n : Nat) : Prop := n < 2 ^ 64

theorem Q_down (a b : Nat) (h : a ≤ b) (hb : Q b) : Q a := by
  unfold Q at *; omega

theorem P_tie (data : List Nat) (hq : Q data.length) : P (ints data) = (toOpt (parseOne TS varLen data)).map oneUp :=
  parse_one_tie data hq

/-- the unit's `MacCommands::next` (for `T = UplinkDUTCommand`), read through `itemOf` / `stOf`, is `gNext` of the unit's `parse_one` -/
theorem next_bridge (s : Gen.MacCmdFnUplinkDUTCommand.MacCommands) :
    (Gen.MacCmdFnUplinkDUTCommand.MacCommands.next s).map (fun r => (r.1.map itemOf, stOf r.2)) = gNext P (stOf s) := by
  obtain ⟨d, e⟩ := s
  unfold Gen.MacCmdFnUplinkDUTCommand.MacCommands.next gNext P
  cases e with
  | true => simp [stOf]
  | false =>
    cases d with
    | nil => simp [stOf]
    | cons a t =>
      simp only [stOf, List.isEmpty_cons, Bool.or_self, Bool.or_false, Bool.false_or, Bool.false_eq_true, if_false,
        Option.bind_eq_bind]
      cases hp : Gen.MacCmdFnUplinkDUTCommand.UplinkDUTCommand.parse_one (a :: t) with
      | none => simp
      | some r =>
        cases r with
        | Err x => simp [itemOf, stOf]
        | Ok c n =>
          simp only [Option.bind_some, Option.map_some, oneOf]
          cases hs : Rt.sliceFrom (a :: t) n with
          | none => simp
          | some d' => simp [itemOf, stOf]

def runOf (r : List Gen.MacCmdFnUplinkDUTCommand.NextItem × Gen.MacCmdFnUplinkDUTCommand.MacCommands × Bool) := (r.1.map itemOf, stOf r.2.1, r.2.2)

end TieA.FrameUplinkDUTCommand

namespace C03
open MacCmd TieA.MacCmdFrame TieA.FrameGen TieA.FrameUplinkDUTCommand

/-- builder F — the derive-generated `parse_one` of `UplinkDUTCommand` (expanded from the `quote!` templates of the `CommandHandler`
derive with the `#[cmd(cid, len)]` attributes of the current source, with the hand-written `len()` helpers of the variable-length payloads) IS the
model's `parseOne` over the regenerated table, for EVERY octet string (of a length a Rust slice can have): same variant, payload type, payload octets and
consumed count, `UnknownCid` / `Truncated` with the same CID on the same inputs, a panic exactly on the empty slice. -/
theorem tieA_parse_one_UplinkDUTCommand (data : List Nat) (hlen : data.length < 2 ^ 64) :
    (Gen.MacCmdFnUplinkDUTCommand.UplinkDUTCommand.parse_one (ints data)).map TieA.FrameUplinkDUTCommand.oneOf = (toOpt (parseOne TieA.FrameUplinkDUTCommand.TS varLen data)).map oneUp :=
  TieA.FrameUplinkDUTCommand.parse_one_tie data hlen

/-- builder F — the source's `MacCommands::next` for `T = UplinkDUTCommand` IS the model's `next` in every state. -/
theorem tieA_next_UplinkDUTCommand (data : List Nat) (err : Bool) (hlen : data.length < 2 ^ 64) :
    (Gen.MacCmdFnUplinkDUTCommand.MacCommands.next ⟨ints data, err⟩).map (fun r => (r.1.map TieA.FrameUplinkDUTCommand.itemOf, TieA.FrameUplinkDUTCommand.stOf r.2))
      = (toOpt (MacCmd.next TieA.FrameUplinkDUTCommand.TS varLen ⟨data, err⟩)).map (fun r => (r.1.map itemUp, stUp r.2)) := by
  rw [TieA.FrameUplinkDUTCommand.next_bridge]
  exact gNext_tie _ _ _ TieA.FrameUplinkDUTCommand.Q TieA.FrameUplinkDUTCommand.P_tie data err hlen

/-- builder F — the `UplinkDUTCommand` iterator over `data`, drained through the REGENERATED `next` (`MacCommands::new(data)`, then
`next` until `None`, budget `data.len() + 2`), is the model's run, for every octet stream: the same items in the same order,
the same final state, within the same budget. -/
theorem tieA_iterator_UplinkDUTCommand (data : List Nat) (hlen : data.length < 2 ^ 64) :
    (runFuelOf Gen.MacCmdFnUplinkDUTCommand.MacCommands.next (data.length + 2) ⟨ints data, false⟩).map TieA.FrameUplinkDUTCommand.runOf
      = (toOpt (run TieA.FrameUplinkDUTCommand.TS varLen data)).map runUp := by
  have h := runFuelOf_sim Gen.MacCmdFnUplinkDUTCommand.MacCommands.next (gNext TieA.FrameUplinkDUTCommand.P) TieA.FrameUplinkDUTCommand.itemOf TieA.FrameUplinkDUTCommand.stOf
    TieA.FrameUplinkDUTCommand.next_bridge (data.length + 2) ⟨ints data, false⟩
  unfold TieA.FrameUplinkDUTCommand.runOf
  rw [h]
  exact gRun_tie _ _ _ TieA.FrameUplinkDUTCommand.Q TieA.FrameUplinkDUTCommand.Q_down TieA.FrameUplinkDUTCommand.P_tie _ data false hlen

/-! non-vacuity: a concrete stream through the regenerated iterator (CID and payload octets of every item, `none` = the
error item; the unread rest and the `errored` flag; budget not exhausted); the length hypothesis holds of it -/
example : (runFuelOf Gen.MacCmdFnUplinkDUTCommand.MacCommands.next (5 + 2) ⟨[9, 1, 2, 8, 170], false⟩).map
    (fun r => (r.1.map (fun i => (TieA.FrameUplinkDUTCommand.itemOf i).toOption.map (fun c => (c.1, c.2.2.2))), TieA.FrameUplinkDUTCommand.stOf r.2.1, r.2.2))
    = some ([some (9, [1, 2]), some (8, [0xAA])], ([], false), false) := by decide
example : ([9, 1, 2, 8, 170] : List Nat).length < 2 ^ 64 := by decide

#print axioms tieA_parse_one_UplinkDUTCommand
#print axioms tieA_next_UplinkDUTCommand
#print axioms tieA_iterator_UplinkDUTCommand
end C03
