import LoraVerif.Props.TieA.Basic
/-!
# Tie A: band limits (used by C09 — transmissions stay in band — and by C08 — RXParamSetupReq,
NewChannelReq and DlChannelReq are validated against them)
-/
namespace C09
open Model TieA

/-- band limits: `frequency_valid` of every region (the function handed to the plan constructor in
`State::new`: `(lo..=hi).contains(&f)`) -/
theorem tieA_frequencyValid (r : RegionId) (f : Nat) :
    frequencyValid r f = Gen.RegionStatic.frequency_valid (toGen r) (f : Int) := by
  cases r <;>
    simp only [frequencyValid, toGen, Gen.RegionStatic.frequency_valid, Gen.RegionStatic.AS923_1.frequency_valid,
      Gen.RegionStatic.AS923_2.frequency_valid, Gen.RegionStatic.AS923_3.frequency_valid, Gen.RegionStatic.AS923_4.frequency_valid,
      Gen.RegionStatic.AU915.frequency_valid, Gen.RegionStatic.EU868.frequency_valid, Gen.RegionStatic.EU433.frequency_valid,
      Gen.RegionStatic.IN865.frequency_valid, Gen.RegionStatic.US915.frequency_valid] <;>
    rw [Bool.eq_iff_iff] <;> simp only [Bool.and_eq_true, decide_eq_true_eq] <;> omega

example : frequencyValid .EU868 870000000 = true ∧ frequencyValid .EU868 870000001 = false := by decide

#print axioms tieA_frequencyValid
end C09
