import LoraVerif.Model.Region
import LoraVerif.Gen.PlanMaskFn
import LoraVerif.Props.TieA.ChannelMask
/-!
# Tie A for `channel_mask_update` of the channel plans (C11 / C08)

`Gen/PlanMaskFn.lean` holds the translation of the CURRENT source of
`FixedChannelPlan::channel_mask_update` (lorawan-device/src/region/fixed_channel_plans/mod.rs, with its helper
`set_125k_channels`) and of `DynamicChannelPlan::channel_mask_update`
(lorawan-device/src/region/dynamic_channel_plans/mod.rs) as state-passing functions over the working copy of the
mask (`&mut ChannelMask<9>`), built from the regenerated bit operations of `Gen.ChannelMaskFn` (`set_bank`,
`get_index`): the range pattern `0..=3`, `ch_mask_ctl as usize * 2`, the `for i in 0..8` loops (`Rt.forRangeM`),
`blocks & (1 << i) != 0`, the early `return None`.

Each is proved EQUAL to the model's `channelMaskUpdate` (`Model/Region.lean`) on a region of that kind of plan,
for every mask of octets (any length), every ChMaskCntl (every `u8`, so 0..7 and beyond) and every ChMask
(every pair of octets = all 2^16 values): the same mask afterwards, `None` (RFU: the mask untouched) on exactly
the same ChMaskCntl values, a panic on one side iff on the other.  The right-hand sides are spelt exactly as the
`MacRegionOps` instance of the model (`Props/TieA/HandleMacs.lean`), under which
`C08.tieA_handle_downlink_macs` is proved.
-/
set_option linter.unusedSimpArgs false
set_option linter.unusedVariables false
namespace TieA.PlanMask
open Model TieA.CMask
open Gen.ChannelMaskFn Gen.PlanMaskFn

/-- a model mask as a generated one -/
def G (l : List Nat) : ChannelMask := ⟨l.map Int.ofNat⟩

/-- a model result as a generated one (`none` = a panic) -/
def lift (r : M Mask) : Option ChannelMask := r.toOption.map G

theorem G_natsOf (m : ChannelMask) (hm : Octets m._0) : G (natsOf m._0) = m := by
  cases m with
  | mk l => simp only [G]; congr 1; exact ofNat_natsOf l hm

/-- `set_bank` on a model mask, exactly -/
theorem set_bank_G (l : List Nat) (n w : Nat) :
    ChannelMask.set_bank (G l) (n : Int) (w : Int) = lift (Mask.setBank l n w) := by
  unfold ChannelMask.set_bank Mask.setBank lift G
  by_cases h : n < l.length
  · rw [setIdx_ofNat l n w h, if_pos h]
    simp [Except.toOption]
  · have : Rt.setIdx (l.map Int.ofNat) (n : Int) (w : Int) = none := by
      simp only [Rt.setIdx, List.length_map]; rw [if_neg (by omega)]
    simp [this, h, Except.toOption, Model.panic]

/-- a list of bank writes in order, on the generated side -/
def gsetBanks : ChannelMask → List (Nat × Nat) → Option ChannelMask
  | m, [] => some m
  | m, (i, v) :: rest => (ChannelMask.set_bank m (i : Int) (v : Int)).bind fun m' => gsetBanks m' rest

theorem gsetBanks_G (ps : List (Nat × Nat)) : ∀ l : List Nat, gsetBanks (G l) ps = lift (setBanks l ps) := by
  induction ps with
  | nil => intro l; simp [gsetBanks, setBanks, lift, Except.toOption]
  | cons p rest ih =>
    intro l
    obtain ⟨i, v⟩ := p
    simp only [gsetBanks, setBanks, set_bank_G]
    cases h : Mask.setBank l i v with
    | error e => simp [lift, Except.toOption, bind, Except.bind]
    | ok l' => simp [lift, Except.toOption, bind, Except.bind, ih l']

theorem gsetBanks_append (a b : List (Nat × Nat)) : ∀ m, gsetBanks m (a ++ b) = (gsetBanks m a).bind fun m' => gsetBanks m' b := by
  induction a with
  | nil => intro m; simp [gsetBanks]
  | cons p rest ih =>
    intro m
    obtain ⟨i, v⟩ := p
    simp only [List.cons_append, gsetBanks]
    cases ChannelMask.set_bank m (i : Int) (v : Int) with
    | none => rfl
    | some m' => simp [ih m']

theorem setBanks_append (a b : List (Nat × Nat)) : ∀ m, setBanks m (a ++ b) = (setBanks m a) >>= fun m' => setBanks m' b := by
  induction a with
  | nil => intro m; simp [setBanks]; rfl
  | cons p rest ih =>
    intro m
    obtain ⟨i, v⟩ := p
    simp only [List.cons_append, setBanks]
    cases Mask.setBank m i v with
    | error e => rfl
    | ok m' => simp [bind, Except.bind] at ih ⊢; exact ih m'

/-- a `for i in lo..hi { channel_mask.set_bank(i, w(i)) }` loop = the writes in order -/
theorem for_banks (f : Int → ChannelMask → Option ChannelMask) (w : Nat → Nat) (k : Nat) :
    ∀ (i : Nat) (m : ChannelMask),
      (∀ (j : Nat) m', i ≤ j → j < i + k → f (j : Int) m' = ChannelMask.set_bank m' (j : Int) (w j : Int)) →
      Rt.forRangeM.go f k (i : Int) m = gsetBanks m ((List.range' i k).map fun j => (j, w j)) := by
  induction k with
  | zero => intro i m _; simp [Rt.forRangeM.go, gsetBanks]
  | succ k ih =>
    intro i m hf
    simp only [Rt.forRangeM.go, List.range'_succ, List.map_cons, gsetBanks]
    rw [hf i m (by omega) (by omega)]
    cases h : ChannelMask.set_bank m (i : Int) (w i : Int) with
    | none => rfl
    | some m' =>
      have := ih (i + 1) m' (fun j m'' h1 h2 => hf j m'' (by omega) (by omega))
      simp only [Option.bind_some]
      rw [← this]; congr 1

theorem for_banks_0_8 (f : Int → ChannelMask → Option ChannelMask) (w : Nat → Nat) (m : ChannelMask)
    (hf : ∀ (j : Nat) m', j < 8 → f (j : Int) m' = ChannelMask.set_bank m' (j : Int) (w j : Int)) :
    Rt.forRangeM 0 8 f m = gsetBanks m ((List.range 8).map fun j => (j, w j)) := by
  have := for_banks f w 8 0 m (fun j m' _ h => hf j m' (by omega))
  rw [List.range_eq_range']
  exact this


/-- what the caller sees: `Some(())` and the updated mask, or `None` (RFU) and the mask untouched — spelt as in the
model's `MacRegionOps` instance -/
def post (m : ChannelMask) (r : Option Mask) : Option Unit × ChannelMask :=
  match r with
  | some m' => (some (), G m')
  | none => (none, m)

/-- a branch that performs the bank writes `ps` and answers `Some(())` -/
theorem branch_some (l : List Nat) (ps : List (Nat × Nat)) :
    ((gsetBanks (G l) ps).bind fun cm => some ((some ()), cm))
      = ((setBanks l ps >>= fun m => pure (some m) : M (Option Mask))).toOption.map (post (G l)) := by
  rw [gsetBanks_G]
  cases setBanks l ps with
  | error e => rfl
  | ok m => rfl

theorem ok_eq_pure {α} (a : α) : (Except.ok a : M α) = pure a := rfl

theorem get0 (a b : Int) : ChannelMask.get_index ⟨[a, b]⟩ 0 = some a := rfl
theorem get1 (a b : Int) : ChannelMask.get_index ⟨[a, b]⟩ 1 = some b := rfl

theorem range8 (w : Nat → Nat) : (List.range 8).map (fun j => (j, w j))
    = [(0, w 0), (1, w 1), (2, w 2), (3, w 3), (4, w 4), (5, w 5), (6, w 6), (7, w 7)] := rfl

/-- an RFU branch: `None`, the mask untouched -/
theorem branch_none (l : List Nat) :
    (some (none, G l) : Option (Option Unit × ChannelMask))
      = ((pure none : M (Option Mask))).toOption.map (post (G l)) := rfl

/-- `x << 1` in `usize` (a re-spelling of `x * 2`) -/
theorem shl_usize_1 {x : Int} (h1 : 0 ≤ x) (h2 : x ≤ 4294967295) : Rt.shlC .usize x 1 = some (x * 2) := by
  have hb : (0 : Int) ≤ 1 ∧ (1 : Int) < ((Rt.ITy.usize.bits : Nat) : Int) := by decide
  simp only [Rt.shlC, hb, and_self, if_true]
  have e : ((2 : Int) ^ (1 : Int).toNat) = 2 := by decide
  rw [e]
  simp only [Rt.wrap]
  have e2 : ((2 : Int) ^ Rt.ITy.usize.bits) = 18446744073709551616 := by decide
  have e3 : Rt.ITy.usize.signed = false := rfl
  rw [e2, e3]
  simp only [Bool.false_eq_true, if_false]
  congr 1; omega

theorem go_zero {σ} (f : Int → σ → Option σ) (i : Int) (s : σ) : Rt.forRangeM.go f 0 i s = some s := rfl
theorem go_succ {σ} (f : Int → σ → Option σ) (n : Nat) (i : Int) (s : σ) :
    Rt.forRangeM.go f (n + 1) i s = (f i s).bind fun s' => Rt.forRangeM.go f n (i + 1) s' := by
  simp only [Rt.forRangeM.go]; cases f i s <;> rfl
theorem for_eq_go {σ} (lo hi : Int) (f : Int → σ → Option σ) (s : σ) : Rt.forRangeM lo hi f s = Rt.forRangeM.go f (hi - lo).toNat lo s := rfl

/-- normal form of both sides: a right-nested chain of `set_bank`s -/
macro "chain_simp" : tactic =>
  `(tactic| simp (disch := omega) only [Rt.ck_usize, Rt.ck_u8, Rt.ck_u16, Rt.ck_u32, Rt.ck_u64, FixedChannelPlan.channel_mask_update, FixedChannelPlan.set_125k_channels,
      DynamicChannelPlan.channel_mask_update, get0, get1, gsetBanks, gsetBanks_append, range8,
      Option.bind_assoc, Option.bind_some, Option.bind_eq_bind, Option.pure_def, List.cons_append, List.nil_append,
      Int.cast_ofNat_Int, for_eq_go, go_zero, go_succ, Int.reduceSub, Int.reduceToNat, Int.reduceMul, Int.reduceAdd, Int.reduceLE, Int.reduceLT, Int.reduceEq, Int.reduceNe,
      decide_true, decide_false, and_self, and_true, and_false, true_and, false_and, if_true, if_false, ite_true, ite_false,
      Bool.false_eq_true, decide_eq_true_eq, reduceIte, or_self, or_true, true_or, or_false, false_or,
      not_true_eq_false, not_false_eq_true, ne_eq, ite_not, shl_usize_1, Int.natCast_zero, Int.natCast_one])

theorem dynamic_nat (rs : RegionState) (p : DynPlan) (hrs : rs.plan = .dyn p) (self : DynamicChannelPlan)
    (l : List Nat) (cntl : Int) (h0 : 0 ≤ cntl) (h255 : cntl ≤ 255) (n0 n1 : Nat) :
    DynamicChannelPlan.channel_mask_update self (G l) cntl ⟨[(n0 : Int), (n1 : Int)]⟩
      = (channelMaskUpdate rs l cntl.toNat n0 n1).toOption.map (post (G l)) := by
  rcases (by omega : cntl = 0 ∨ cntl = 6 ∨ (cntl ≠ 0 ∧ cntl ≠ 6)) with rfl | rfl | ⟨h1, h2⟩
  · have hm : channelMaskUpdate rs l (0 : Int).toNat n0 n1 = (setBanks l [(0, n0), (1, n1)] >>= fun m => pure (some m)) := by
      simp [channelMaskUpdate, hrs, setBanks, ok_eq_pure]
    rw [hm, ← branch_some]
    chain_simp
  · have hm : channelMaskUpdate rs l (6 : Int).toNat n0 n1 = (setBanks l ((List.range 8).map fun j => (j, 255)) >>= fun m => pure (some m)) := by
      simp [channelMaskUpdate, hrs, ok_eq_pure]
    rw [hm, ← branch_some]
    chain_simp
    done
  · have hm : channelMaskUpdate rs l cntl.toNat n0 n1 = pure none := by
      have : cntl.toNat ≠ 0 ∧ cntl.toNat ≠ 6 := by omega
      simp [channelMaskUpdate, hrs, this]
    rw [hm, ← branch_none]
    simp only [DynamicChannelPlan.channel_mask_update, decide_eq_true_eq]
    simp (disch := omega) only [if_neg, if_pos, Option.pure_def]

/-- `1 << i` in `u8` for the eight bank numbers -/
theorem shl_facts : Rt.shlC .u8 1 0 = some 1 ∧ Rt.shlC .u8 1 1 = some 2 ∧ Rt.shlC .u8 1 2 = some 4 ∧ Rt.shlC .u8 1 3 = some 8 ∧
    Rt.shlC .u8 1 4 = some 16 ∧ Rt.shlC .u8 1 5 = some 32 ∧ Rt.shlC .u8 1 6 = some 64 ∧ Rt.shlC .u8 1 7 = some 128 := by
  decide

/-- ChMaskCntl 5: the bank value `if blocks & (1 << i) != 0 { 0xFF } else { 0x00 }` is the model's
`if b0.testBit i then 255 else 0`, for every octet and each of the eight bits -/
theorem bank_bits : ∀ b : Fin 256,
    ((if Rt.andI (b.val : Int) 1 = 0 then (0 : Int) else 255) = ((if b.val.testBit 0 then 255 else 0 : Nat) : Int)) ∧
    ((if Rt.andI (b.val : Int) 2 = 0 then (0 : Int) else 255) = ((if b.val.testBit 1 then 255 else 0 : Nat) : Int)) ∧
    ((if Rt.andI (b.val : Int) 4 = 0 then (0 : Int) else 255) = ((if b.val.testBit 2 then 255 else 0 : Nat) : Int)) ∧
    ((if Rt.andI (b.val : Int) 8 = 0 then (0 : Int) else 255) = ((if b.val.testBit 3 then 255 else 0 : Nat) : Int)) ∧
    ((if Rt.andI (b.val : Int) 16 = 0 then (0 : Int) else 255) = ((if b.val.testBit 4 then 255 else 0 : Nat) : Int)) ∧
    ((if Rt.andI (b.val : Int) 32 = 0 then (0 : Int) else 255) = ((if b.val.testBit 5 then 255 else 0 : Nat) : Int)) ∧
    ((if Rt.andI (b.val : Int) 64 = 0 then (0 : Int) else 255) = ((if b.val.testBit 6 then 255 else 0 : Nat) : Int)) ∧
    ((if Rt.andI (b.val : Int) 128 = 0 then (0 : Int) else 255) = ((if b.val.testBit 7 then 255 else 0 : Nat) : Int)) := by
  decide +kernel

theorem fixed_nat (rs : RegionState) (p : FixPlan) (hrs : rs.plan = .fix p) (self : FixedChannelPlan)
    (l : List Nat) (cntl : Int) (h0 : 0 ≤ cntl) (h255 : cntl ≤ 255) (n0 n1 : Nat) (hn0 : n0 < 256) :
    FixedChannelPlan.channel_mask_update self (G l) cntl ⟨[(n0 : Int), (n1 : Int)]⟩
      = (channelMaskUpdate rs l cntl.toNat n0 n1).toOption.map (post (G l)) := by
  rcases (by omega : cntl = 0 ∨ cntl = 1 ∨ cntl = 2 ∨ cntl = 3 ∨ cntl = 4 ∨ cntl = 5 ∨ cntl = 6 ∨ cntl = 7 ∨ 8 ≤ cntl)
    with rfl | rfl | rfl | rfl | rfl | rfl | rfl | rfl | h8
  · have hm : channelMaskUpdate rs l (0 : Int).toNat n0 n1 = (setBanks l [(0, n0), (1, n1)] >>= fun m => pure (some m)) := by
      simp [channelMaskUpdate, hrs, setBanks, ok_eq_pure]
    rw [hm, ← branch_some]
    chain_simp
  · have hm : channelMaskUpdate rs l (1 : Int).toNat n0 n1 = (setBanks l [(2, n0), (3, n1)] >>= fun m => pure (some m)) := by
      simp [channelMaskUpdate, hrs, setBanks, ok_eq_pure]
    rw [hm, ← branch_some]
    chain_simp
  · have hm : channelMaskUpdate rs l (2 : Int).toNat n0 n1 = (setBanks l [(4, n0), (5, n1)] >>= fun m => pure (some m)) := by
      simp [channelMaskUpdate, hrs, setBanks, ok_eq_pure]
    rw [hm, ← branch_some]
    chain_simp
  · have hm : channelMaskUpdate rs l (3 : Int).toNat n0 n1 = (setBanks l [(6, n0), (7, n1)] >>= fun m => pure (some m)) := by
      simp [channelMaskUpdate, hrs, setBanks, ok_eq_pure]
    rw [hm, ← branch_some]
    chain_simp
  · have hm : channelMaskUpdate rs l (4 : Int).toNat n0 n1 = (setBanks l [(8, n0)] >>= fun m => pure (some m)) := by
      simp [channelMaskUpdate, hrs, setBanks, ok_eq_pure]
    rw [hm, ← branch_some]
    chain_simp
  · have hm : channelMaskUpdate rs l (5 : Int).toNat n0 n1
        = (setBanks l ((List.range 8).map (fun j => (j, if n0.testBit j then 255 else 0)) ++ [(8, n0)]) >>= fun m => pure (some m)) := by
      simp [channelMaskUpdate, hrs, setBanks, setBanks_append, ok_eq_pure]
    rw [hm, ← branch_some]
    obtain ⟨s0, s1, s2, s3, s4, s5, s6, s7⟩ := shl_facts
    obtain ⟨b0, b1, b2, b3, b4, b5, b6, b7⟩ := bank_bits ⟨n0, hn0⟩
    simp only at b0 b1 b2 b3 b4 b5 b6 b7
    chain_simp
    simp only [s0, s1, s2, s3, s4, s5, s6, s7, Option.bind_some, b0, b1, b2, b3, b4, b5, b6, b7]
  · have hm : channelMaskUpdate rs l (6 : Int).toNat n0 n1
        = (setBanks l ((List.range 8).map (fun j => (j, 255)) ++ [(8, n0)]) >>= fun m => pure (some m)) := by
      simp [channelMaskUpdate, hrs, setBanks, setBanks_append, ok_eq_pure]
    rw [hm, ← branch_some]
    chain_simp
  · have hm : channelMaskUpdate rs l (7 : Int).toNat n0 n1
        = (setBanks l ((List.range 8).map (fun j => (j, 0)) ++ [(8, n0)]) >>= fun m => pure (some m)) := by
      simp [channelMaskUpdate, hrs, setBanks, setBanks_append, ok_eq_pure]
    rw [hm, ← branch_some]
    chain_simp
  · have hm : channelMaskUpdate rs l cntl.toNat n0 n1 = pure none := by
      have : ¬ cntl.toNat ≤ 3 ∧ cntl.toNat ≠ 4 ∧ cntl.toNat ≠ 5 ∧ cntl.toNat ≠ 6 ∧ cntl.toNat ≠ 7 := by omega
      simp [channelMaskUpdate, hrs, this]
    rw [hm, ← branch_none]
    simp only [FixedChannelPlan.channel_mask_update, decide_eq_true_eq]
    simp (disch := omega) only [if_neg, if_pos, Option.pure_def]

end TieA.PlanMask

namespace C11
open Model TieA.CMask TieA.PlanMask
open Gen.ChannelMaskFn Gen.PlanMaskFn

/-- **Tie A, fixed plans (US915 / AU915).**  `FixedChannelPlan::channel_mask_update` as the current source has it
(with `set_125k_channels` and the regenerated `ChannelMask::{set_bank, get_index}`) is the model's
`channelMaskUpdate` on a region with a fixed plan: for EVERY working mask of octets (any length), EVERY
ChMaskCntl (every `u8`) and EVERY ChMask (octets `b0`, `b1`: all 2^16 values) — ChMaskCntl 0..3 write the two
octets to banks `2c`, `2c+1`; 4 writes `b0` to bank 8 (`b1` ignored); 5 sets bank `i` to 0xFF / 0x00 by bit `i` of
`b0` and bank 8 to `b0`; 6 / 7 set banks 0..7 to 0xFF / 0x00 and bank 8 to `b0`; every other value answers `None`
with the mask untouched; a panic (`none`) on one side iff on the other. -/
theorem tieA_fixed_channel_mask_update (rs : RegionState) (p : FixPlan) (hrs : rs.plan = .fix p)
    (self : FixedChannelPlan) (m : ChannelMask) (hm : Octets m._0)
    (cntl : Int) (hc0 : 0 ≤ cntl) (hc1 : cntl ≤ 255)
    (b0 b1 : Int) (hb0 : 0 ≤ b0 ∧ b0 ≤ 255) (hb1 : 0 ≤ b1 ∧ b1 ≤ 255) :
    FixedChannelPlan.channel_mask_update self m cntl ⟨[b0, b1]⟩
      = (channelMaskUpdate rs (natsOf m._0) cntl.toNat b0.toNat b1.toNat).toOption.map fun r =>
          match r with
          | some m' => (some (), ⟨m'.map Int.ofNat⟩)
          | none => (none, m) := by
  have := fixed_nat rs p hrs self (natsOf m._0) cntl hc0 hc1 b0.toNat b1.toNat (by omega)
  rw [G_natsOf m hm, show ((b0.toNat : Nat) : Int) = b0 by omega, show ((b1.toNat : Nat) : Int) = b1 by omega] at this
  exact this

/-- **Tie A, dynamic plans (EU868, EU433, IN865, AS923-x).**  `DynamicChannelPlan::channel_mask_update` as the
current source has it is the model's `channelMaskUpdate` on a region with a dynamic plan, for EVERY working mask
of octets, EVERY ChMaskCntl (every `u8`) and EVERY ChMask: ChMaskCntl 0 writes the two octets to banks 0 and 1,
6 sets banks 0..7 to 0xFF, every other value (1..5, 7 and beyond) answers `None` with the mask untouched. -/
theorem tieA_dynamic_channel_mask_update (rs : RegionState) (p : DynPlan) (hrs : rs.plan = .dyn p)
    (self : DynamicChannelPlan) (m : ChannelMask) (hm : Octets m._0)
    (cntl : Int) (hc0 : 0 ≤ cntl) (hc1 : cntl ≤ 255)
    (b0 b1 : Int) (hb0 : 0 ≤ b0 ∧ b0 ≤ 255) (hb1 : 0 ≤ b1 ∧ b1 ≤ 255) :
    DynamicChannelPlan.channel_mask_update self m cntl ⟨[b0, b1]⟩
      = (channelMaskUpdate rs (natsOf m._0) cntl.toNat b0.toNat b1.toNat).toOption.map fun r =>
          match r with
          | some m' => (some (), ⟨m'.map Int.ofNat⟩)
          | none => (none, m) := by
  have := dynamic_nat rs p hrs self (natsOf m._0) cntl hc0 hc1 b0.toNat b1.toNat
  rw [G_natsOf m hm, show ((b0.toNat : Nat) : Int) = b0 by omega, show ((b1.toNat : Nat) : Int) = b1 by omega] at this
  exact this

/-! ## non-vacuity -/

/-- US915, all 72 channels on; ChMaskCntl 5 with ChMask 0x0002 (sub-band 2): banks 0..7 = 00 FF 00 .. 00, bank 8 = 0x02;
ChMaskCntl 7 with ChMask 0x00FF: the 125 kHz channels off, the eight 500 kHz channels on; ChMaskCntl 8 is RFU;
EU868: ChMaskCntl 0 writes the 16 channels, 6 switches all on, 5 is RFU -/
example :
    FixedChannelPlan.channel_mask_update ⟨⟩ ⟨List.replicate 9 255⟩ 5 ⟨[2, 0]⟩ = some (some (), ⟨[0, 255, 0, 0, 0, 0, 0, 0, 2]⟩) ∧
    FixedChannelPlan.channel_mask_update ⟨⟩ ⟨List.replicate 9 255⟩ 7 ⟨[255, 0]⟩ = some (some (), ⟨[0, 0, 0, 0, 0, 0, 0, 0, 255]⟩) ∧
    FixedChannelPlan.channel_mask_update ⟨⟩ ⟨List.replicate 9 255⟩ 2 ⟨[0x34, 0x12]⟩
      = some (some (), ⟨[255, 255, 255, 255, 0x34, 0x12, 255, 255, 255]⟩) ∧
    FixedChannelPlan.channel_mask_update ⟨⟩ ⟨List.replicate 9 255⟩ 8 ⟨[255, 0]⟩ = some (none, ⟨List.replicate 9 255⟩) ∧
    DynamicChannelPlan.channel_mask_update ⟨⟩ ⟨List.replicate 9 0⟩ 0 ⟨[7, 0]⟩ = some (some (), ⟨[7, 0, 0, 0, 0, 0, 0, 0, 0]⟩) ∧
    DynamicChannelPlan.channel_mask_update ⟨⟩ ⟨List.replicate 9 0⟩ 6 ⟨[0, 0]⟩ = some (some (), ⟨[255, 255, 255, 255, 255, 255, 255, 255, 0]⟩) ∧
    DynamicChannelPlan.channel_mask_update ⟨⟩ ⟨List.replicate 9 0⟩ 5 ⟨[1, 0]⟩ = some (none, ⟨List.replicate 9 0⟩) ∧
    -- a mask shorter than the banks written: the out-of-bounds panic of `set_bank`
    FixedChannelPlan.channel_mask_update ⟨⟩ ⟨[255, 255]⟩ 4 ⟨[1, 0]⟩ = none := by
  decide

/-- the hypotheses of the two theorems are satisfiable: the initial states of US915 and EU868 -/
example : (∃ p, (RegionState.init .US915).plan = .fix p) ∧ (∃ p, (RegionState.init .EU868).plan = .dyn p) ∧
    Octets (List.replicate 9 255) :=
  ⟨⟨_, rfl⟩, ⟨_, rfl⟩, fun x hx => by have := (List.mem_replicate.mp hx).2; omega⟩

/-- the model side of the same instance, through the theorem: ChMaskCntl 5 / ChMask 0x0002 on US915 -/
example : (channelMaskUpdate (RegionState.init .US915) (List.replicate 9 255) 5 2 0).toOption
    = some (some [0, 255, 0, 0, 0, 0, 0, 0, 2]) := by decide

#print axioms tieA_fixed_channel_mask_update
#print axioms tieA_dynamic_channel_mask_update
end C11

namespace C08
open Model TieA.CMask
open Gen.ChannelMaskFn Gen.PlanMaskFn

/-- C08 (what a LinkADRReq block does to the mask): the region method `handle_downlink_macs` calls per LinkADRReq,
regenerated, is the model's — see `C11.tieA_fixed_channel_mask_update` -/
theorem tieA_fixed_channel_mask_update (rs : RegionState) (p : FixPlan) (hrs : rs.plan = .fix p)
    (self : FixedChannelPlan) (m : ChannelMask) (hm : Octets m._0)
    (cntl : Int) (hc0 : 0 ≤ cntl) (hc1 : cntl ≤ 255)
    (b0 b1 : Int) (hb0 : 0 ≤ b0 ∧ b0 ≤ 255) (hb1 : 0 ≤ b1 ∧ b1 ≤ 255) :
    FixedChannelPlan.channel_mask_update self m cntl ⟨[b0, b1]⟩
      = (channelMaskUpdate rs (natsOf m._0) cntl.toNat b0.toNat b1.toNat).toOption.map fun r =>
          match r with
          | some m' => (some (), ⟨m'.map Int.ofNat⟩)
          | none => (none, m) :=
  C11.tieA_fixed_channel_mask_update rs p hrs self m hm cntl hc0 hc1 b0 b1 hb0 hb1

/-- see `C11.tieA_dynamic_channel_mask_update` -/
theorem tieA_dynamic_channel_mask_update (rs : RegionState) (p : DynPlan) (hrs : rs.plan = .dyn p)
    (self : DynamicChannelPlan) (m : ChannelMask) (hm : Octets m._0)
    (cntl : Int) (hc0 : 0 ≤ cntl) (hc1 : cntl ≤ 255)
    (b0 b1 : Int) (hb0 : 0 ≤ b0 ∧ b0 ≤ 255) (hb1 : 0 ≤ b1 ∧ b1 ≤ 255) :
    DynamicChannelPlan.channel_mask_update self m cntl ⟨[b0, b1]⟩
      = (channelMaskUpdate rs (natsOf m._0) cntl.toNat b0.toNat b1.toNat).toOption.map fun r =>
          match r with
          | some m' => (some (), ⟨m'.map Int.ofNat⟩)
          | none => (none, m) :=
  C11.tieA_dynamic_channel_mask_update rs p hrs self m hm cntl hc0 hc1 b0 b1 hb0 hb1

#print axioms tieA_fixed_channel_mask_update
#print axioms tieA_dynamic_channel_mask_update
end C08
