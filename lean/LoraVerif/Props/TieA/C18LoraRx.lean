import LoraVerif.Gen.LoraRxFn
/-!
# Tie A for the length / buffer handling of `LoRa::get_rx_result` (lora-phy/src/lib.rs) — builder B, property C18

`Gen/LoraRxFn.lean` holds the state-passing translation of the CURRENT source of `LoRa::get_rx_result`; the two
`RadioKind` methods it calls are abstract (`RkOps`: any driver, panics and `Err` included, the caller's buffer handed
back in every case).  `tieA_lora_rx_result_slice` proves it equal, for every driver, mode, packet parameters and caller
buffer, to `rxResultSpec`: in `Receive` mode the caller's WHOLE buffer and the caller's packet parameters go to
`get_rx_payload` unchanged (no re-slicing to a configured length, no slice expression that could panic), the length
answered is `get_rx_payload`'s own, the buffer handed back is what `get_rx_payload` left (on `Ok` and on `Err`);
in any other mode nothing is called and nothing is touched.  (Seed C18-4 sliced the buffer to the implicit-header length
here, unchecked: that breaks this equality.)  `complete_rx` (IRQ loop) is not translated.
-/
set_option linter.unusedVariables false
namespace C18
open Gen.LoraRxFn

variable [K : RkOps]

/-- what `get_rx_result` must do with the caller's buffer and the reported length -/
def rxResultSpec (self : LoRa) (p : PacketParams) (buf : List Int) :
    Option (Option (Int × PacketStatus) × LoRa × List Int) :=
  match self.radio_mode with
  | .Receive _ =>
    match RkOps.get_rx_payload self.radio_kind p buf with
    | none => none
    | some (none, rk, buf') => some (none, { self with radio_kind := rk }, buf')
    | some (some n, rk, buf') =>
      match RkOps.get_rx_packet_status rk with
      | none => none
      | some (none, rk') => some (none, { self with radio_kind := rk' }, buf')
      | some (some q, rk') => some (some (n, q), { self with radio_kind := rk' }, buf')
  | _ => some (none, self, buf)

theorem tieA_lora_rx_result_slice (self : LoRa) (p : PacketParams) (buf : List Int) :
    LoRa.get_rx_result self p buf = rxResultSpec self p buf := by
  obtain ⟨rk, mode⟩ := self
  unfold LoRa.get_rx_result rxResultSpec
  cases mode <;> simp only [bind, Option.bind, pure]
  all_goals try rfl
  all_goals
    cases h1 : RkOps.get_rx_payload rk p buf with
    | none => rfl
    | some r1 =>
      obtain ⟨r, rk1, b1⟩ := r1
      cases r with
      | none => rfl
      | some n =>
        simp only []
        cases h2 : RkOps.get_rx_packet_status rk1 with
        | none => rfl
        | some r2 =>
          obtain ⟨q, rk2⟩ := r2
          cases q <;> rfl

/-- non-vacuity: a driver that reports 3 bytes and writes them at the front of whatever buffer it is given -/
instance demoRk : RkOps where
  RK := Unit
  get_rx_payload := fun _ _ buf => if 3 ≤ buf.length then some (some 3, (), [7, 8, 9] ++ buf.drop 3) else some (none, (), buf)
  get_rx_packet_status := fun _ => some (some ⟨-80, 5⟩, ())

example : @LoRa.get_rx_result demoRk (@LoRa.mk demoRk () (.Receive .Continuous)) ⟨8, true, 2, true, false⟩ [0, 0, 0, 0, 0]
    = some (some (3, ⟨-80, 5⟩), @LoRa.mk demoRk () (.Receive .Continuous), [7, 8, 9, 0, 0]) := by rfl
example : @LoRa.get_rx_result demoRk (@LoRa.mk demoRk () .Standby) ⟨8, true, 2, true, false⟩ [0, 0]
    = some (none, @LoRa.mk demoRk () .Standby, [0, 0]) := by rfl

end C18
