import LoraVerif.Props.TieA.RegionDispatch
import LoraVerif.Props.TieA.MacRf
/-!
# Tie A: the region record of `Gen.MacRfFn` is the regenerated dispatch (builder H)

`Mac::build_rf_config`, `rx2_rf_config`, `get_rxc_config` and `rx_windows` (`Gen.MacRfFn`) read the region through a
record of four lookups; `C05.tieA_build_rf_config` … `tieA_rx_windows` instantiate it with the model's (`TieA.MacRf.regOf`).
Three of the four fields of that instance ARE the `Configuration` methods regenerated through `region_dispatch!`
(`Gen.RegionDispatch`); the coding rate stays a free parameter.
-/
namespace C10
open Model TieA TieA.MacRf

private theorem ofGen_toOption {α} (s : String) (x : Option α) : (ofGen s x).toOption = x := by
  cases x <;> rfl

/-- `regOf r cr`, the region the whole-method ties of `Gen.MacRfFn` are stated over, field by field: `get_datarate` (every
index), `get_rx_datarate` (every TX data rate, every offset that is a `u8` or any other non-negative number, both
windows) and `get_rx2_frequency` are the functions regenerated through `region_dispatch!` -/
theorem tieA_regionCfg_ops (r : RegionId) (cr : Gen.Modulation.CodingRate) :
    (∀ n : Int, (regOf r cr).get_datarate n = Gen.RegionDispatch.Configuration.get_datarate (toGen r) n) ∧
    (∀ (d : Gen.Region.DR) (off : Int) (w : Gen.Region.Window), 0 ≤ off →
      (regOf r cr).get_rx_datarate d off w = Gen.RegionDispatch.Configuration.get_rx_datarate (toGen r) d off w) ∧
    (regOf r cr).get_rx2_frequency = Gen.RegionDispatch.Configuration.get_rx2_frequency (toGen r) := by
  refine ⟨?_, ?_, ?_⟩
  · intro n
    cases r <;> simp only [regOf, getDatarate, datarates, toGen, Gen.RegionDispatch.Configuration.get_datarate] <;> rfl
  · intro d off w h
    simp only [regOf]
    rw [tieA_region_get_rx_datarate, ofGen_toOption, Int.toNat_of_nonneg h]
  · exact tieA_region_get_rx2_frequency r

example : (regOf .US915 ._4_5).get_rx_datarate ._4 1 ._1 = some Gen.Region.DR._13 := by decide

#print axioms tieA_regionCfg_ops
end C10
