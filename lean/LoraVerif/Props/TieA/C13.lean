import LoraVerif.Lemmas.PhyTieA
import LoraVerif.Gen.PhyEnc1262
import LoraVerif.Gen.PhyEnc1261
import LoraVerif.Lemmas.PhyArithLemmas
/-!
# C13, tie A for the SX126x command encoders (builder O)

Each theorem `C13.tieA_<method>` says: the driver method, regenerated from its current source as a
value of `Rt.Phy.IoM` (`Gen/PhyEnc126*.lean`: the list of SPI transactions and busy waits it
requests, in `Rt`'s checked arithmetic, reads answered by an abstract device), run on the wire-level
chip of `Model/PhyIo.lean` (`chipDev`) after any requests `log`, gives exactly what the hand model's
`Prog` for the same operation gives (`denote`: its fault-free run — the same requests in the same
order with the same bytes, the same chip afterwards, the same `Ok` / `Err`; a panic on one side is
a panic on the other), for ALL parameter values and ALL chip contents.  The proofs evaluate both
sides (`phy_tie`) and name nothing of the method bodies; the helpers the translator emitted are
unfolded by `gen_unfold_helpers_<Unit>`.  The three `Result`-valued code tables of
`radio_kind_params.rs` are tied to the `Option`-valued tables of `Gen.PhyCodes126` the model reads
(`gen_*_value`).
-/
open Model.Phy TieA.Phy Gen.PhyCodes126

namespace C13

/-- evaluates a generated encoder on `chipDev` and the hand model's program under `denote` -/
syntax "phy_tie" "[" Lean.Parser.Tactic.simpLemma,* "]" "[" Lean.Parser.Tactic.simpLemma,* "]" : tactic
macro_rules
  | `(tactic| phy_tie [$ls,*] [$ds,*]) => `(tactic| (
    simp +decide only [$ls,*, Rt.shrC, Rt.shlC, Rt.ITy.bits, Rt.ck, Rt.ITy.lo, Rt.ITy.hi, Rt.ITy.signed, bind_assoc_app, pure_bind_app, write_bind_app, read_bind_app, ofOpt_some_bind_app, ofOpt_none_bind_app,
      throw_bind_app, panic_bind_app, write_app, writeWithPayload_app, writeWithPayload_bind_app, pure_app, pure_app', throw_app,
      ofOpt_some_app, ite_app, ite_bind_app, Sx126x.addr1_val,
      idx_fill_one, beBytes_u16, beBytes_u32, idx_zero, idx_one, idx_two, idx_three, chipDev_fst, chipDev_snd, List.length_cons, List.length_nil,
      Sx126x.regR8, Sx126x.regW8, Sx126x.addr1_ret, ofOpt,
      Model.Phy.pure_eq_ret, Model.Phy.bind_eq, Model.Phy.bind_ret, Model.Phy.bind_fail, prog_bind_assoc, prog_bind_ite,
      denote_intfWrite_bind, denote_intfRead_bind, denote_intfWriteWithPayload_bind, denote_intfWriteWithPayload,
      denote_intfWrite, denote_ite, denote_ret, denote_fail, denote_panic, view, beq_self_eq_true, if_true, beq_iff_eq, if_false,
      Bool.false_eq_true, Bool.true_eq_false, if_pos, if_neg, radioErr]
    try simp +decide [$ds,*, toBytes_cons, toInts_cons, toBytes_nil, toInts_nil, Sx126x.op, Sx126x.addr2, OpCode.value, OpCode.toInt,
      Register.toInt, Register.addr2, Rt.wrap, Rt.ITy.bits, Rt.ITy.signed, Rt.notI, Rt.ITy.hi, Rt.ITy.lo, byte, Rt.andI, Rt.orI, Rt.xorI, byteAt_mod, radioErr, view]))

/-! ## parameter records: the model's, as the generated code sees them -/

def genMod (m : Sx126x.ModulationParams) : Gen.PhyEnc1262.ModulationParams :=
  { spreading_factor := m.sf, bandwidth := m.bw, coding_rate := m.cr, low_data_rate_optimize := m.ldro.toNat, frequency_in_hz := m.freq }

def genPkt (p : PacketParams) : Gen.PhyEnc1262.PacketParams :=
  { preamble_length := p.preambleLength, implicit_header := p.implicitHeader, payload_length := p.payloadLength,
    crc_on := p.crcOn, iq_inverted := p.iqInverted }

/-- every value of the generated record is the image of a model record (u8 / u16 / u32 fields in range) -/
theorem genMod_surjective (g : Gen.PhyEnc1262.ModulationParams) (h1 : 0 ≤ g.low_data_rate_optimize ∧ g.low_data_rate_optimize < 256)
    (h2 : 0 ≤ g.frequency_in_hz) : ∃ m, genMod m = g := by
  obtain ⟨sf, bw, cr, l, f⟩ := g
  refine ⟨⟨sf, bw, cr, UInt8.ofNat l.toNat, f.toNat⟩, ?_⟩
  simp only [genMod, Gen.PhyEnc1262.ModulationParams.mk.injEq, true_and, UInt8.toNat_ofNat'] at *
  constructor <;> omega

/-! ## the code tables -/

/-- the generated `Result`-valued code tables are the `Option`-valued ones of `Gen.PhyCodes126` the model reads -/
theorem gen_sf_value {σ : Type} (sf : SpreadingFactor) :
    (Gen.PhyEnc1262.spreading_factor_value sf : Rt.Phy.IoM Gen.PhyErr.RadioError σ Int) =
      match spreading_factor_value sf with | some v => pure v | none => Rt.Phy.throw .UnavailableSpreadingFactor := by
  cases sf <;> rfl
theorem gen_bw_value {σ : Type} (bw : Bandwidth) :
    (Gen.PhyEnc1262.bandwidth_value bw : Rt.Phy.IoM Gen.PhyErr.RadioError σ Int) =
      match bandwidth_value bw with | some v => pure v | none => Rt.Phy.throw .UnavailableBandwidth := by
  cases bw <;> rfl
theorem gen_cr_value {σ : Type} (cr : CodingRate) :
    (Gen.PhyEnc1262.coding_rate_value cr : Rt.Phy.IoM Gen.PhyErr.RadioError σ Int) =
      match coding_rate_value cr with | some v => pure v | none => Rt.Phy.throw .InvalidConfiguration := by
  cases cr <;> rfl
theorem sf_byte (sf : SpreadingFactor) (v : Int) (h : spreading_factor_value sf = some v) : ∃ n : Nat, v = n ∧ n < 256 := by
  cases sf <;> cases h <;> exact ⟨_, rfl, by decide⟩
theorem bw_byte (bw : Bandwidth) (v : Int) (h : bandwidth_value bw = some v) : ∃ n : Nat, v = n ∧ n < 256 := by
  cases bw <;> cases h <;> exact ⟨_, rfl, by decide⟩
theorem cr_byte (cr : CodingRate) (v : Int) (h : coding_rate_value cr = some v) : ∃ n : Nat, v = n ∧ n < 256 := by
  cases cr <;> cases h <;> exact ⟨_, rfl, by decide⟩

/-! ## SetModulationParams and the TxModulation workaround -/

/-- `Sx126x::set_modulation_params` (translated from the current source) IS the model's
`setModulationParams`: the SetModulationParams command with the SF / BW / CR codes and the LDRO byte,
then the read-modify-write of register 0x0889 (bit 2 cleared for 500 kHz, set otherwise); the
`Err` of an unavailable SF / BW / CR before any request — for every parameter record, chip and prefix
of requests. -/
theorem tieA_set_modulation_params (self : Gen.PhyEnc1262.Sx126x) (m : Sx126x.ModulationParams) (c : Chip) (log : List Rt.Phy.Ev) :
    view id (Gen.PhyEnc1262.Sx126x.set_modulation_params self (genMod m) chipDev c log)
      = denote (Sx126x.setModulationParams m) c log := by
  obtain ⟨sf, bw, cr, ldro, f⟩ := m
  simp only [Gen.PhyEnc1262.Sx126x.set_modulation_params, genMod, gen_sf_value, gen_bw_value, gen_cr_value, Sx126x.setModulationParams, Sx126x.errUnavailable]
  cases hsf : spreading_factor_value sf with
  | none => simp [view, radioErr]
  | some vsf =>
  cases hbw : bandwidth_value bw with
  | none => simp [view, radioErr]
  | some vbw =>
  cases hcr : coding_rate_value cr with
  | none => simp [view, radioErr]
  | some vcr =>
  obtain ⟨nsf, rfl, h1⟩ := sf_byte _ _ hsf
  obtain ⟨nbw, rfl, h2⟩ := bw_byte _ _ hbw
  obtain ⟨ncr, rfl, h3⟩ := cr_byte _ _ hcr
  by_cases h5 : bw = Bandwidth._500KHz <;> (
    try gen_unfold_helpers_PhyEnc1262
    phy_tie [h5] [Nat.mod_eq_of_lt h1, Nat.mod_eq_of_lt h2, Nat.mod_eq_of_lt h3])

/-- non-vacuity: SF7 / 125 kHz / 4-5 on a device whose registers all read 0x25 -/
example : Gen.PhyEnc1262.Sx126x.set_modulation_params ⟨⟨⟨⟩, none, true, false⟩⟩
    (genMod ⟨._7, ._125KHz, ._4_5, 0, 868100000⟩) (fun (_ : Unit) _ n => (List.replicate n 0x25, ())) () [] =
    some (.ok (), (), [.spi [0x8B, 7, 4, 1, 0] 0, .busy, .spi [0x1D, 0x08, 0x89, 0] 1, .busy, .spi [0x0D, 0x08, 0x89, 0x25] 0, .busy]) := rfl

#print axioms tieA_set_modulation_params

/-! ## SetPacketParams and the IQ-polarity workaround -/

theorem tieA_set_packet_params (self : Gen.PhyEnc1262.Sx126x) (p : PacketParams) (c : Chip) (log : List Rt.Phy.Ev)
    (hlen : p.payloadLength < 256) :
    view id (Gen.PhyEnc1262.Sx126x.set_packet_params self (genPkt p) chipDev c log)
      = denote (Sx126x.setPacketParams p) c log := by
  obtain ⟨pre, ih, len, crc, iq⟩ := p
  simp only at hlen
  simp only [Gen.PhyEnc1262.Sx126x.set_packet_params, genPkt, Sx126x.setPacketParams]
  cases ih <;> cases crc <;> cases iq <;> (
    try gen_unfold_helpers_PhyEnc1262
    phy_tie [wrap_and255_nat, wrap_and255_div256, Int.reducePow, Int.reduceToNat, Nat.reducePow] [Rt.b2i, b2u, hi8, lo8, Nat.mod_eq_of_lt hlen, ofNat_toNat_mod, ofNat_toNat_div256])

#print axioms tieA_set_packet_params

/-! ## SetPaConfig / SetTxParams: the PA tables and their lookup -/

open Gen.PhyArith in
/-- what the encoders use of a generated lookup result: paDutyCycle, hpMax, the SetTxParams power byte -/
def paViewG : Option (Gen.PhyArith.PaTableEntry × Int) → Option (Int × Int × Int)
  | some (e, b) => some (e.pa_duty_cycle, e.hp_max, b)
  | none => none
/-- the same of the hand model's lookup -/
def paViewM : Option (Sx126x.PaEntry × UInt8) → Option (Int × Int × Int)
  | some (e, b) => some (e.duty.toNat, e.hpMax.toNat, b.toNat)
  | none => none

theorem model_lookup_clamp (t : Sx126x.PaTable) (last : Sx126x.PaEntry) (hl : t.entries.getLast? = some last) (req : Int) :
    t.lookup req = t.lookup (Spec.Semtech.clampI t.minDbm last.maxDbm req) := by
  have h : max t.minDbm (min last.maxDbm (Spec.Semtech.clampI t.minDbm last.maxDbm req)) = max t.minDbm (min last.maxDbm req) := by
    unfold Spec.Semtech.clampI; omega
  unfold Sx126x.PaTable.lookup
  rw [hl]
  simp only [h]
theorem model_lookup_clamp_1262 (req : Int) :
    Sx126x.sx1262Table.lookup req = Sx126x.sx1262Table.lookup (Spec.Semtech.clampI (-9) 22 req) :=
  model_lookup_clamp Sx126x.sx1262Table ⟨22, 0x04, 0x07, 22⟩ rfl req
theorem model_lookup_clamp_1261 (req : Int) :
    Sx126x.sx1261Table.lookup req = Sx126x.sx1261Table.lookup (Spec.Semtech.clampI (-17) 15 req) :=
  model_lookup_clamp Sx126x.sx1261Table ⟨15, 0x06, 0x00, 14⟩ rfl req

/-- the hand-copied SX1262 table and lookup of the model give, for EVERY requested power, the row and
power byte of the regenerated `SX1262_PA_TABLE` / `PaTable::lookup` -/
theorem tieA_pa_lookup_1262 (req : Int) :
    paViewG (Gen.PhyArith.SX1262_PA_TABLE.lookup req) = paViewM (Sx126x.sx1262Table.lookup req) := by
  rw [Gen.PhyArith.lookup_clamp _ req 22 rfl, model_lookup_clamp_1262, show Gen.PhyArith.SX1262_PA_TABLE.min_dbm = -9 from rfl]
  exact forall_int_range (-9) 32 (fun k => paViewG (Gen.PhyArith.SX1262_PA_TABLE.lookup k) = paViewM (Sx126x.sx1262Table.lookup k))
    (by decide +kernel) _ (by unfold Spec.Semtech.clampI; omega) (by unfold Spec.Semtech.clampI; omega)
theorem tieA_pa_lookup_1261 (req : Int) :
    paViewG (Gen.PhyArith.SX1261_PA_TABLE.lookup req) = paViewM (Sx126x.sx1261Table.lookup req) := by
  rw [Gen.PhyArith.lookup_clamp _ req 15 rfl, model_lookup_clamp_1261, show Gen.PhyArith.SX1261_PA_TABLE.min_dbm = -17 from rfl]
  exact forall_int_range (-17) 33 (fun k => paViewG (Gen.PhyArith.SX1261_PA_TABLE.lookup k) = paViewM (Sx126x.sx1261Table.lookup k))
    (by decide +kernel) _ (by unfold Spec.Semtech.clampI; omega) (by unfold Spec.Semtech.clampI; omega)

#print axioms tieA_pa_lookup_1262
#print axioms tieA_pa_lookup_1261

/-- `Sx126x::<Sx1262>::set_tx_power_and_ramp_time` (with `set_pa_config`, the variant's `get_device_sel` /
`pa_table`, `PaTable::lookup` and the table constant, all from the current source) IS the model's
`setTxPowerAndRampTime` on an SX1262: the TxClampCfg read-modify-write (bits 4..1 set), SetPaConfig with the
row of the table and device 0, SetTxParams with the power byte and the ramp code — every requested
power, ramp choice, chip and prefix. -/
theorem tieA_set_tx_power_and_ramp_time_1262 (self : Gen.PhyEnc1262.Sx126x) (cfg : Sx126x.Config) (hc : cfg.chip = .sx1262)
    (power : Int) (mp : Option Sx126x.ModulationParams) (prep : Bool) (c : Chip) (log : List Rt.Phy.Ev) :
    view id (Gen.PhyEnc1262.Sx126x.set_tx_power_and_ramp_time self power (mp.map genMod) prep chipDev c log)
      = denote (Sx126x.setTxPowerAndRampTime cfg power (mp.map (·.freq)) prep) c log := by
  obtain ⟨chip, tcxo, dcdc, rxb⟩ := cfg
  simp only at hc; subst hc
  have ht := tieA_pa_lookup_1262 power
  simp only [Gen.PhyEnc1262.Sx126x.set_tx_power_and_ramp_time, Sx126x.setTxPowerAndRampTime, Sx126x.Variant.highPower,
    Sx126x.Variant.paTable, Sx126x.Variant.deviceSel, Sx126x.setPaConfig]
  try gen_unfold_helpers_PhyEnc1262
  cases hg : Gen.PhyArith.SX1262_PA_TABLE.lookup power with
  | none =>
    cases hm : Sx126x.sx1262Table.lookup power with
    | none => cases prep <;> phy_tie [if_true] [if_true]
    | some r => rw [hg, hm] at ht; simp [paViewG, paViewM] at ht
  | some rg =>
    cases hm : Sx126x.sx1262Table.lookup power with
    | none => rw [hg, hm] at ht; simp [paViewG, paViewM] at ht
    | some rm =>
      obtain ⟨e, b⟩ := rg
      obtain ⟨e', b'⟩ := rm
      rw [hg, hm] at ht
      simp only [paViewG, paViewM, Option.some.injEq, Prod.mk.injEq] at ht
      obtain ⟨h1, h2, h3⟩ := ht
      cases prep <;> phy_tie [h1, h2, h3] [RampTime.value, RampTime.toInt, Gen.PhyEnc1262.DeviceSel.toInt]

#print axioms tieA_set_tx_power_and_ramp_time_1262

/-- the same for the SX1261 (unit `Gen.PhyEnc1261`, the driver instantiated at `Sx1261`): the refusal of
+15 dBm and more below 400 MHz (`Err(InvalidOutputPowerForFrequency)` before any request; no refusal
when the channel is not given), no TxClampCfg access, SetPaConfig with the row of `SX1261_PA_TABLE` and
device 1, SetTxParams.  Stated from the generated side: for every generated parameter record (of
which only the frequency, a `u32`, is read). -/
theorem tieA_set_tx_power_and_ramp_time_1261 (self : Gen.PhyEnc1261.Sx126x) (cfg : Sx126x.Config) (hc : cfg.chip = .sx1261)
    (power : Int) (mp : Option Gen.PhyEnc1261.ModulationParams) (hfreq : ∀ g, mp = some g → 0 ≤ g.frequency_in_hz)
    (prep : Bool) (c : Chip) (log : List Rt.Phy.Ev) :
    view id (Gen.PhyEnc1261.Sx126x.set_tx_power_and_ramp_time self power mp prep chipDev c log)
      = denote (Sx126x.setTxPowerAndRampTime cfg power (mp.map (fun g => g.frequency_in_hz.toNat)) prep) c log := by
  obtain ⟨chip, tcxo, dcdc, rxb⟩ := cfg
  simp only at hc; subst hc
  have ht := tieA_pa_lookup_1261 power
  simp only [Gen.PhyEnc1261.Sx126x.set_tx_power_and_ramp_time, Sx126x.setTxPowerAndRampTime, Sx126x.Variant.highPower,
    Sx126x.Variant.paTable, Sx126x.Variant.deviceSel, Sx126x.setPaConfig]
  try gen_unfold_helpers_PhyEnc1261
  cases mp with
  | some m =>
    have h0 := hfreq m rfl
    obtain ⟨sf, bw, cr, ldro, f⟩ := m
    simp only at h0
    simp only [Option.map_some]
    by_cases hp : power ≥ 15
    · by_cases hf : f.toNat < 400000000
      · have e1 : decide (power ≥ 15) = true := decide_eq_true hp
        have e2 : decide (f < 400000000) = true := decide_eq_true (by omega)
        simp only [e1, e2, if_pos (And.intro hp hf)]
        cases prep <;> phy_tie [if_true] [if_true]
      · have e1 : decide (power ≥ 15) = true := decide_eq_true hp
        have e2 : decide (f < 400000000) = false := decide_eq_false (by omega)
        simp only [e1, e2, if_neg (fun h : power ≥ 15 ∧ f.toNat < 400000000 => hf h.2)]
        cases hg : Gen.PhyArith.SX1261_PA_TABLE.lookup power with
        | none =>
          cases hm : Sx126x.sx1261Table.lookup power with
          | none => cases prep <;> phy_tie [if_true] [if_true]
          | some r => rw [hg, hm] at ht; simp [paViewG, paViewM] at ht
        | some rg =>
          cases hm : Sx126x.sx1261Table.lookup power with
          | none => rw [hg, hm] at ht; simp [paViewG, paViewM] at ht
          | some rm =>
            obtain ⟨e, b⟩ := rg
            obtain ⟨e', b'⟩ := rm
            rw [hg, hm] at ht
            simp only [paViewG, paViewM, Option.some.injEq, Prod.mk.injEq] at ht
            obtain ⟨h1, h2, h3⟩ := ht
            cases prep <;> phy_tie [h1, h2, h3] [RampTime.value, RampTime.toInt, Gen.PhyEnc1261.DeviceSel.toInt]
    · have e1 : decide (power ≥ 15) = false := decide_eq_false hp
      simp only [e1, if_neg (fun h : power ≥ 15 ∧ f.toNat < 400000000 => hp h.1)]
      cases hg : Gen.PhyArith.SX1261_PA_TABLE.lookup power with
      | none =>
        cases hm : Sx126x.sx1261Table.lookup power with
        | none => cases prep <;> phy_tie [if_true] [if_true]
        | some r => rw [hg, hm] at ht; simp [paViewG, paViewM] at ht
      | some rg =>
        cases hm : Sx126x.sx1261Table.lookup power with
        | none => rw [hg, hm] at ht; simp [paViewG, paViewM] at ht
        | some rm =>
          obtain ⟨e, b⟩ := rg
          obtain ⟨e', b'⟩ := rm
          rw [hg, hm] at ht
          simp only [paViewG, paViewM, Option.some.injEq, Prod.mk.injEq] at ht
          obtain ⟨h1, h2, h3⟩ := ht
          cases prep <;> phy_tie [h1, h2, h3] [RampTime.value, RampTime.toInt, Gen.PhyEnc1261.DeviceSel.toInt]
  | none =>
    simp only [Option.map_none]
    cases hg : Gen.PhyArith.SX1261_PA_TABLE.lookup power with
    | none =>
      cases hm : Sx126x.sx1261Table.lookup power with
      | none => cases prep <;> by_cases hp : power ≥ 15 <;> phy_tie [hp, decide_true, decide_false] [if_true]
      | some r => rw [hg, hm] at ht; simp [paViewG, paViewM] at ht
    | some rg =>
      cases hm : Sx126x.sx1261Table.lookup power with
      | none => rw [hg, hm] at ht; simp [paViewG, paViewM] at ht
      | some rm =>
        obtain ⟨e, b⟩ := rg
        obtain ⟨e', b'⟩ := rm
        rw [hg, hm] at ht
        simp only [paViewG, paViewM, Option.some.injEq, Prod.mk.injEq] at ht
        obtain ⟨h1, h2, h3⟩ := ht
        cases prep <;> by_cases hp : power ≥ 15 <;> phy_tie [h1, h2, h3, hp, decide_true, decide_false]
          [RampTime.value, RampTime.toInt, Gen.PhyEnc1261.DeviceSel.toInt]

#print axioms tieA_set_tx_power_and_ramp_time_1261

/-! ## SetRfFrequency -/

open Gen.PhyArith Rt in
/-- the generated `convert_freq_in_hz_to_pll_step` in closed form (as `C17.pll126_closed`) -/
theorem tieA_pll126_closed (f : Int) (h0 : 0 ≤ f) (h1 : f < 4096000000) :
    Gen.PhyArith.Sx126x.convert_freq_in_hz_to_pll_step f = some ((f * 16384 + 7812) / 15625) := by
  unfold Gen.PhyArith.Sx126x.convert_freq_in_hz_to_pll_step
  rw [show SX126X_PLL_STEP_SCALED = 15625 by decide, show SX126X_PLL_STEP_SHIFT_AMOUNT = 14 from rfl]
  rt_simp
  rw [shlC_u32_14 (by omega) (by omega)]
  simp only [Option.bind_some]
  rw [shlC_u32_14 (by omega) (by omega), shrC_u32_1]
  simp only [Option.bind_some]
  rt_simp
  congr 1
  omega

/-- the hand model's `pllStep` computes the same word (no overflow below 2^30 Hz) -/
theorem model_pll_closed (f : Nat) (h : f < 1073741824) : Sx126x.pllStep f = some ((f * 16384 + 7812) / 15625) := by
  unfold Sx126x.pllStep
  have hr : f - f / 15625 * 15625 = f % 15625 := by omega
  have h1 : f / 15625 * 16384 % 4294967296 = f / 15625 * 16384 := Nat.mod_eq_of_lt (by omega)
  have h2 : f % 15625 * 16384 % 4294967296 = f % 15625 * 16384 := Nat.mod_eq_of_lt (by omega)
  simp only [hr, h1, h2]
  rw [if_pos (by omega)]
  congr 1
  omega

/-- `Sx126x::set_channel` (with the regenerated `convert_freq_in_hz_to_pll_step`) IS the model's `setChannel`:
SetRfFrequency with the four bytes of the PLL word, most significant first — every frequency below
2^30 Hz (the chips reach 1.02 GHz), chip and prefix. -/
theorem tieA_set_channel (self : Gen.PhyEnc1262.Sx126x) (f : Nat) (hf : f < 1073741824) (c : Chip) (log : List Rt.Phy.Ev) :
    view id (Gen.PhyEnc1262.Sx126x.set_channel self (f : Int) chipDev c log) = denote (Sx126x.setChannel f) c log := by
  have hg := tieA_pll126_closed (f : Int) (by omega) (by omega)
  have hm := model_pll_closed f hf
  have e : ((f : Int) * 16384 + 7812) / 15625 = (((f * 16384 + 7812) / 15625 : Nat) : Int) := by omega
  rw [e] at hg
  generalize (f * 16384 + 7812) / 15625 = p at hg hm
  simp only [Gen.PhyEnc1262.Sx126x.set_channel, Sx126x.setChannel, hg, hm]
  try gen_unfold_helpers_PhyEnc1262
  phy_tie [Int.reducePow, Int.reduceToNat, Nat.reducePow, wrap_and255_nat, wrap_and255_div256, wrap_and255_div65536, wrap_and255_div16777216]
    [ofNat_toNat_mod, ofNat_toNat_div256, ofNat_toNat_div65536, ofNat_toNat_div16777216]

#print axioms tieA_set_channel

end C13
