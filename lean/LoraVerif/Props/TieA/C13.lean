import LoraVerif.Lemmas.PhyTieA
import LoraVerif.Gen.PhyEnc1262
import LoraVerif.Gen.PhyEnc1261
/-!
# C13, tie A for the SX126x command encoders (builder O)

Each theorem `C13.tieA_<method>` says: the driver method, regenerated from its current source as a
value of `Rt.Phy.IoM` (`Gen/PhyEnc126*.lean`: the list of SPI transactions and busy waits it
requests, in `Rt`'s checked arithmetic, reads answered by an abstract device), run on the wire-level
chip of `Model/PhyIo.lean` (`chipDev`) after any requests `log`, gives exactly what the hand model's
`Prog` for the same operation gives (`denote`: its fault-free run — the same requests in the same
order with the same bytes, the same chip afterwards, the same `Ok` / `Err`; a panic on one side is
a panic on the other), for ALL parameter values and ALL chip contents.  The proofs evaluate both
sides (`phy_tie`) and name nothing of the method bodies; the helpers the translator emitted are
unfolded by `gen_unfold_helpers_<Unit>`.  The three `Result`-valued code tables of
`radio_kind_params.rs` are tied to the `Option`-valued tables of `Gen.PhyCodes126` the model reads
(`gen_*_value`).
-/
open Model.Phy TieA.Phy Gen.PhyCodes126

namespace C13

/-- evaluates a generated encoder on `chipDev` and the hand model's program under `denote` -/
syntax "phy_tie" "[" Lean.Parser.Tactic.simpLemma,* "]" "[" Lean.Parser.Tactic.simpLemma,* "]" : tactic
macro_rules
  | `(tactic| phy_tie [$ls,*] [$ds,*]) => `(tactic| (
    simp +decide only [$ls,*, Rt.shrC, Rt.shlC, Rt.ITy.bits, Rt.ck, Rt.ITy.lo, Rt.ITy.hi, Rt.ITy.signed, bind_assoc_app, pure_bind_app, write_bind_app, read_bind_app, ofOpt_some_bind_app, ofOpt_none_bind_app,
      throw_bind_app, panic_bind_app, write_app, writeWithPayload_app, writeWithPayload_bind_app, pure_app, pure_app', throw_app,
      ofOpt_some_app, ite_app, ite_bind_app, Sx126x.addr1_val,
      idx_fill_one, beBytes_u16, beBytes_u32, idx_zero, idx_one, idx_two, idx_three, chipDev_fst, chipDev_snd, List.length_cons, List.length_nil,
      Sx126x.regR8, Sx126x.regW8, Sx126x.addr1_ret, ofOpt,
      Model.Phy.pure_eq_ret, Model.Phy.bind_eq, Model.Phy.bind_ret, Model.Phy.bind_fail, prog_bind_assoc, prog_bind_ite,
      denote_intfWrite_bind, denote_intfRead_bind, denote_intfWriteWithPayload_bind, denote_intfWriteWithPayload,
      denote_intfWrite, denote_ite, denote_ret, denote_fail, denote_panic, view, beq_self_eq_true, if_true, beq_iff_eq, if_false,
      Bool.false_eq_true, Bool.true_eq_false, if_pos, if_neg, radioErr]
    try simp +decide [$ds,*, toBytes_cons, toInts_cons, toBytes_nil, toInts_nil, Sx126x.op, Sx126x.addr2, OpCode.value, OpCode.toInt,
      Register.toInt, Register.addr2, Rt.wrap, Rt.ITy.bits, Rt.ITy.signed, Rt.notI, Rt.ITy.hi, Rt.ITy.lo, byte, Rt.andI, Rt.orI, Rt.xorI, byteAt_mod, radioErr, view]))

/-! ## parameter records: the model's, as the generated code sees them -/

def genMod (m : Sx126x.ModulationParams) : Gen.PhyEnc1262.ModulationParams :=
  { spreading_factor := m.sf, bandwidth := m.bw, coding_rate := m.cr, low_data_rate_optimize := m.ldro.toNat, frequency_in_hz := m.freq }

def genPkt (p : PacketParams) : Gen.PhyEnc1262.PacketParams :=
  { preamble_length := p.preambleLength, implicit_header := p.implicitHeader, payload_length := p.payloadLength,
    crc_on := p.crcOn, iq_inverted := p.iqInverted }

/-- every value of the generated record is the image of a model record (u8 / u16 / u32 fields in range) -/
theorem genMod_surjective (g : Gen.PhyEnc1262.ModulationParams) (h1 : 0 ≤ g.low_data_rate_optimize ∧ g.low_data_rate_optimize < 256)
    (h2 : 0 ≤ g.frequency_in_hz) : ∃ m, genMod m = g := by
  obtain ⟨sf, bw, cr, l, f⟩ := g
  refine ⟨⟨sf, bw, cr, UInt8.ofNat l.toNat, f.toNat⟩, ?_⟩
  simp only [genMod, Gen.PhyEnc1262.ModulationParams.mk.injEq, true_and, UInt8.toNat_ofNat'] at *
  constructor <;> omega

/-! ## the code tables -/

/-- the generated `Result`-valued code tables are the `Option`-valued ones of `Gen.PhyCodes126` the model reads -/
theorem gen_sf_value {σ : Type} (sf : SpreadingFactor) :
    (Gen.PhyEnc1262.spreading_factor_value sf : Rt.Phy.IoM Gen.PhyErr.RadioError σ Int) =
      match spreading_factor_value sf with | some v => pure v | none => Rt.Phy.throw .UnavailableSpreadingFactor := by
  cases sf <;> rfl
theorem gen_bw_value {σ : Type} (bw : Bandwidth) :
    (Gen.PhyEnc1262.bandwidth_value bw : Rt.Phy.IoM Gen.PhyErr.RadioError σ Int) =
      match bandwidth_value bw with | some v => pure v | none => Rt.Phy.throw .UnavailableBandwidth := by
  cases bw <;> rfl
theorem gen_cr_value {σ : Type} (cr : CodingRate) :
    (Gen.PhyEnc1262.coding_rate_value cr : Rt.Phy.IoM Gen.PhyErr.RadioError σ Int) =
      match coding_rate_value cr with | some v => pure v | none => Rt.Phy.throw .InvalidConfiguration := by
  cases cr <;> rfl
theorem sf_byte (sf : SpreadingFactor) (v : Int) (h : spreading_factor_value sf = some v) : ∃ n : Nat, v = n ∧ n < 256 := by
  cases sf <;> cases h <;> exact ⟨_, rfl, by decide⟩
theorem bw_byte (bw : Bandwidth) (v : Int) (h : bandwidth_value bw = some v) : ∃ n : Nat, v = n ∧ n < 256 := by
  cases bw <;> cases h <;> exact ⟨_, rfl, by decide⟩
theorem cr_byte (cr : CodingRate) (v : Int) (h : coding_rate_value cr = some v) : ∃ n : Nat, v = n ∧ n < 256 := by
  cases cr <;> cases h <;> exact ⟨_, rfl, by decide⟩

/-! ## SetModulationParams and the TxModulation workaround -/

/-- `Sx126x::set_modulation_params` (translated from the current source) IS the model's
`setModulationParams`: the SetModulationParams command with the SF / BW / CR codes and the LDRO byte,
then the read-modify-write of register 0x0889 (bit 2 cleared for 500 kHz, set otherwise); the
`Err` of an unavailable SF / BW / CR before any request — for every parameter record, chip and prefix
of requests. -/
theorem tieA_set_modulation_params (self : Gen.PhyEnc1262.Sx126x) (m : Sx126x.ModulationParams) (c : Chip) (log : List Rt.Phy.Ev) :
    view id (Gen.PhyEnc1262.Sx126x.set_modulation_params self (genMod m) chipDev c log)
      = denote (Sx126x.setModulationParams m) c log := by
  obtain ⟨sf, bw, cr, ldro, f⟩ := m
  simp only [Gen.PhyEnc1262.Sx126x.set_modulation_params, genMod, gen_sf_value, gen_bw_value, gen_cr_value, Sx126x.setModulationParams, Sx126x.errUnavailable]
  cases hsf : spreading_factor_value sf with
  | none => simp [view, radioErr]
  | some vsf =>
  cases hbw : bandwidth_value bw with
  | none => simp [view, radioErr]
  | some vbw =>
  cases hcr : coding_rate_value cr with
  | none => simp [view, radioErr]
  | some vcr =>
  obtain ⟨nsf, rfl, h1⟩ := sf_byte _ _ hsf
  obtain ⟨nbw, rfl, h2⟩ := bw_byte _ _ hbw
  obtain ⟨ncr, rfl, h3⟩ := cr_byte _ _ hcr
  by_cases h5 : bw = Bandwidth._500KHz <;> (
    gen_unfold_helpers_PhyEnc1262
    phy_tie [h5] [Nat.mod_eq_of_lt h1, Nat.mod_eq_of_lt h2, Nat.mod_eq_of_lt h3])

/-- non-vacuity: SF7 / 125 kHz / 4-5 on a device whose registers all read 0x25 -/
example : Gen.PhyEnc1262.Sx126x.set_modulation_params ⟨⟨⟨⟩, none, true, false⟩⟩
    (genMod ⟨._7, ._125KHz, ._4_5, 0, 868100000⟩) (fun (_ : Unit) _ n => (List.replicate n 0x25, ())) () [] =
    some (.ok (), (), [.spi [0x8B, 7, 4, 1, 0] 0, .busy, .spi [0x1D, 0x08, 0x89, 0] 1, .busy, .spi [0x0D, 0x08, 0x89, 0x25] 0, .busy]) := rfl

#print axioms tieA_set_modulation_params

/-! ## SetPacketParams and the IQ-polarity workaround -/

theorem tieA_set_packet_params (self : Gen.PhyEnc1262.Sx126x) (p : PacketParams) (c : Chip) (log : List Rt.Phy.Ev)
    (hlen : p.payloadLength < 256) :
    view id (Gen.PhyEnc1262.Sx126x.set_packet_params self (genPkt p) chipDev c log)
      = denote (Sx126x.setPacketParams p) c log := by
  obtain ⟨pre, ih, len, crc, iq⟩ := p
  simp only at hlen
  simp only [Gen.PhyEnc1262.Sx126x.set_packet_params, genPkt, Sx126x.setPacketParams]
  cases ih <;> cases crc <;> cases iq <;> (
    gen_unfold_helpers_PhyEnc1262
    phy_tie [wrap_and255_nat, wrap_and255_div256, Int.reducePow, Int.reduceToNat, Nat.reducePow] [Rt.b2i, b2u, hi8, lo8, Nat.mod_eq_of_lt hlen, ofNat_toNat_mod, ofNat_toNat_div256])

#print axioms tieA_set_packet_params

end C13
