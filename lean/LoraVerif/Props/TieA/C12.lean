import LoraVerif.Model.Mac
import LoraVerif.Props.TieA.PrepareBuffer
import LoraVerif.Gen.SessionStatic
import LoraVerif.Props.TieA.SetAdr
import LoraVerif.Props.TieA.Rx2Complete
/-!
# C12, tie A: the ADR thresholds of `session.rs`

The hand model (`rx2Complete`, `prepareBuffer`) tests `cnt ≥ ADR_ACK_LIMIT + ADR_ACK_DELAY` and
`adrAckCnt ≥ ADR_ACK_LIMIT` with the constants of `Gen.Session`.  The comparisons of the current
source (`self.adr_ack_cnt >= (ADR_ACK_LIMIT + ADR_ACK_DELAY) as u32` in `rx2_complete`,
`self.adr_ack_cnt >= ADR_ACK_LIMIT as u32` in `prepare_buffer`) are regenerated as functions of the
counter (`Gen/SessionStatic.lean`) and proved equal to the model's, for every counter value.
-/
namespace C12
open Model

/-- ADR back-off is due (`rx2_complete`): the model's `cnt ≥ lim + del` -/
theorem tieA_backoffDue (cnt : Nat) :
    Gen.SessionStatic.Session.rx2_complete.backoff_due cnt =
      some (decide (cnt ≥ Gen.Session.ADR_ACK_LIMIT.toNat + Gen.Session.ADR_ACK_DELAY.toNat)) := by
  have e : Gen.SessionStatic.Session.rx2_complete.backoff_due cnt = some (decide ((cnt : Int) ≥ 96)) := by
    simp only [Gen.SessionStatic.Session.rx2_complete.backoff_due]
    rfl
  rw [e, Option.some.injEq, Bool.eq_iff_iff]; simp only [decide_eq_true_eq]
  have : Gen.Session.ADR_ACK_LIMIT.toNat + Gen.Session.ADR_ACK_DELAY.toNat = 96 := by decide
  omega

/-- ADRACKReq threshold (`prepare_buffer`): the model's `adrAckCnt ≥ ADR_ACK_LIMIT` -/
theorem tieA_adrAckLimitReached (cnt : Nat) :
    Gen.SessionStatic.Session.prepare_buffer.adr_ack_limit_reached cnt =
      decide (cnt ≥ Gen.Session.ADR_ACK_LIMIT.toNat) := by
  have e : Gen.SessionStatic.Session.prepare_buffer.adr_ack_limit_reached cnt = decide ((cnt : Int) ≥ 64) := rfl
  rw [e, Bool.eq_iff_iff]; simp only [decide_eq_true_eq]
  have : Gen.Session.ADR_ACK_LIMIT.toNat = 64 := by decide
  omega

example : Gen.SessionStatic.Session.rx2_complete.backoff_due 96 = some true ∧
    Gen.SessionStatic.Session.rx2_complete.backoff_due 95 = some false ∧
    Gen.SessionStatic.Session.prepare_buffer.adr_ack_limit_reached 64 = true := by decide

/-- both generated units read the same ADR constants -/
theorem tieA_adrConstants :
    Gen.SessionStatic.ADR_ACK_LIMIT = Gen.Session.ADR_ACK_LIMIT ∧ Gen.SessionStatic.ADR_ACK_DELAY = Gen.Session.ADR_ACK_DELAY :=
  ⟨rfl, rfl⟩

#print axioms tieA_backoffDue
#print axioms tieA_adrAckLimitReached
/-- builder L — `Device::set_adr` of the async front-end, of the non-blocking front-end and of the
cfg-guarded hook facade `VerifMac` (through which the MAC-level histories of the correspondence are
driven) as SEMANTIC functions: each, translated from its current source (`Gen/SetAdrAsync.lean`,
`Gen/SetAdrNb.lean`, `Gen/SetAdrHook.lean`; `Mac::get_session_mut`, an `Option<&mut Session>`, as a
getter/setter pair), IS the model's `macSetAdr` on the `Mac` value it holds: the ADR flag is stored,
and switching ADR off in a joined session resets `adr_ack_cnt`; nothing else changes.  This replaces
the former textual mirror theorem (`tieA_setAdr_mirror`: three identical texts), which a harmless
rewrite of one body broke; the three bodies may now differ as long as each means `macSetAdr`. -/
theorem tieA_set_adr (m0 : MacState) (on : Bool) :
    (∀ d : Gen.SetAdrAsync.Device, TieA.Async.macOf m0 (Gen.SetAdrAsync.Device.set_adr d on).mac = macSetAdr (TieA.Async.macOf m0 d.mac) on) ∧
    (∀ d : Gen.SetAdrNb.Device, TieA.Nb.macOf m0 (Gen.SetAdrNb.Device.set_adr d on).shared.mac = macSetAdr (TieA.Nb.macOf m0 d.shared.mac) on) ∧
    (∀ d : Gen.SetAdrHook.VerifMac, TieA.Hook.macOf m0 (Gen.SetAdrHook.VerifMac.set_adr d on).mac = macSetAdr (TieA.Hook.macOf m0 d.mac) on) :=
  ⟨fun d => TieA.Async.tieA_set_adr m0 d on, fun d => TieA.Nb.tieA_set_adr m0 d on, fun d => TieA.Hook.tieA_set_adr m0 d on⟩

/-- likewise `set_datarate` of the three = the model's `macSetDatarate` (C09 / C12: the data rate
otherwise changes only by an accepted LinkADRReq or the ADR back-off) -/
theorem tieA_set_datarate (m0 : MacState) (dr : Gen.Region.DR) :
    (∀ d : Gen.SetAdrAsync.Device, TieA.Async.macOf m0 (Gen.SetAdrAsync.Device.set_datarate d dr).mac = macSetDatarate (TieA.Async.macOf m0 d.mac) dr.toInt.toNat) ∧
    (∀ d : Gen.SetAdrNb.Device, TieA.Nb.macOf m0 (Gen.SetAdrNb.Device.set_datarate d dr).shared.mac = macSetDatarate (TieA.Nb.macOf m0 d.shared.mac) dr.toInt.toNat) ∧
    (∀ d : Gen.SetAdrHook.VerifMac, TieA.Hook.macOf m0 (Gen.SetAdrHook.VerifMac.set_datarate d dr).mac = macSetDatarate (TieA.Hook.macOf m0 d.mac) dr.toInt.toNat) :=
  ⟨fun d => TieA.Async.tieA_set_datarate m0 d dr, fun d => TieA.Nb.tieA_set_datarate m0 d dr, fun d => TieA.Hook.tieA_set_datarate m0 d dr⟩

#print axioms tieA_set_adr
#print axioms tieA_set_datarate

/-- builder L — the WHOLE method: the state-passing translation of the current source of
`Session::rx2_complete` (`Gen/SessionFn.lean`) is the model's `rx2Complete` on every session whose
counters fit `u32` and every configuration: `adr_ack_cnt` counts (saturating) only while ADR is on, the
data rate steps to `next_lower_datarate` exactly at 96, 128, … and only if a lower rate exists, and the
answer is `NoAck` exactly after a confirmed uplink.  (`C12.timeout_refines`, `C12.stepdown_only_at`
are about that model function.)  `next_lower_datarate` itself is abstract in the translation; it is
instantiated with the model's `nextLowerDatarate` (tied by the correspondence).  Proved in
`Props/TieA/Rx2Complete.lean`. -/
theorem tieA_rx2_complete (s0 : Session) (gs : Gen.SessionFn.Session) (g : Gen.SessionFn.Configuration) (r : RegionId)
    (hw : TieA.SessWF gs) :
    (Gen.SessionFn.Session.rx2_complete gs g (TieA.regionOf r)).bind
        (fun o => (TieA.respOf o.1).map (fun resp => (resp, TieA.sessOf s0 o.2.1, TieA.cfgOf o.2.2)))
      = some (rx2Complete (TieA.sessOf s0 gs) (TieA.cfgOf g) r) :=
  TieA.tieA_rx2_complete s0 gs g r hw

/-- non-vacuity: at count 127 with ADR on, EU868 DR3 → DR2, the count becomes 128 -/
example :
    (Gen.SessionFn.Session.rx2_complete ⟨true, 200, some 3, 127⟩ ⟨._3, 1000, 5000, 6000, none, 0, none, none, true⟩ (TieA.regionOf .EU868)).map
        (fun o => (o.1, o.2.1.adr_ack_cnt, o.2.2.data_rate))
      = some (.NoAck, 128, ._2) := by decide

#print axioms tieA_rx2_complete
/-- builder N — the header of the uplink: the state-passing translation of the current source of
`Session::prepare_buffer` (`Gen/SessionTx.lean`; the `Uplink` helpers it calls translated as well) hands,
for EVERY frame codec and radio buffer, exactly one `DataFrame` to `build_into` under the session's
NwkSKey / AppSKey, and the model's `prepareBuffer` yields exactly that frame's description and the
corresponding new session: ADR = `adr_enabled`; ADRACKReq = ADR ∧ `adr_ack_cnt ≥ ADR_ACK_LIMIT` ∧ a lower
data rate exists; ACK = the owed-ACK flag, which is cleared; FCnt = `fcnt_up` (not advanced here);
confirmed flag stored and used for the frame type; pending answers in FOpts when FPort ≠ 0, as the
port-0 payload with empty FOpts when FPort = 0; data on port 0 panics on both sides; FPending never
set; afterwards the pending answers are reduced to the sticky ones.  Abstract: frame encryption / MIC
(`codec`), the radio buffer, `next_lower_datarate` (the model's), the iterator pipeline of
`clear_mac_commands(true)` (`hret`).  The model's two length panics are stated on the frame's length.
Proved in `Props/TieA/PrepareBuffer.lean`. -/
theorem tieA_prepare_buffer_header {β : Type} [Gen.SessionTx.TxBufOps β] (codec : Gen.SessionTx.FrameCodec)
    (gs : Gen.SessionTx.Session) (d : Gen.SessionTx.SendData) (tx : β) (g : Gen.SessionTx.Configuration) (r : RegionId)
    (hp : 0 ≤ d.fport)
    (hret : ∀ p, TieA.Tx.natsOf (Gen.SessionTx.retained_pipeline p []) = retainSticky (p.length + 1) (TieA.Tx.natsOf p)) :
    if d.fport = 0 ∧ d.data ≠ [] then
      Gen.SessionTx.Session.prepare_buffer codec gs d tx g (TieA.Tx.regionOf r) = none ∧
      prepareBuffer (TieA.Tx.sessOf gs) (TieA.Tx.cfgOf g) r (TieA.Tx.natsOf d.data) d.fport.toNat d.confirmed
        = panic "Data payload with fport 0 not allowed"
    else ∃ (f : Gen.SessionTx.DataFrame) (gs' : Gen.SessionTx.Session),
      Gen.SessionTx.Session.prepare_buffer codec gs d tx g (TieA.Tx.regionOf r)
        = (codec.build_into f (List.replicate 256 0) ⟨gs.nwkskey.inner⟩ (some ⟨gs.appskey.inner⟩)).bind (fun pkt =>
            let o := Gen.SessionTx.TxBufOps.extend_from_slice (Gen.SessionTx.TxBufOps.clear (Gen.SessionTx.TxBufOps.clear tx)) pkt
            o.1.map (fun _ => (gs.fcnt_up, gs', o.2)))
      ∧ f.f_pending = false
      ∧ f.frame_type = (if d.confirmed then .ConfirmedUp else .UnconfirmedUp)
      ∧ prepareBuffer (TieA.Tx.sessOf gs) (TieA.Tx.cfgOf g) r (TieA.Tx.natsOf d.data) d.fport.toNat d.confirmed
          = (if TieA.Tx.frameLen f > 256 then panic "Error assembling packet: BufferTooShort"
             else if TieA.Tx.frameLen f ≥ 256 then panic "tx_buffer.extend_from_slice unwrap"
             else .ok (TieA.Tx.descOf f, TieA.Tx.sessOf gs')) :=
  TieA.Tx.tieA_prepare_buffer_header codec gs d tx g r hp hret

/-- non-vacuity: a recording codec (answers the FCtrl bits, FCnt, FOpts, port and payload) and a list as
the buffer.  ADR on at count 64 in EU868 DR5 with an ACK owed and one pending answer: ADR, ADRACKReq and
ACK are set, the answer rides in FOpts on port 7, and the session forgets the owed ACK -/
example :
    let codec : Gen.SessionTx.FrameCodec := ⟨fun f _ _ _ => some ([Rt.b2i f.adr, Rt.b2i f.adr_ack_req, Rt.b2i f.ack, f.fcnt] ++ f.f_opts ++
      (match f.payload with | .Data p d => p :: d | .MacCommands c => 0 :: c | .None => []))⟩
    let _ : Gen.SessionTx.TxBufOps (List Int) := ⟨fun _ => [], fun b s => (some (), b ++ s)⟩
    (Gen.SessionTx.Session.prepare_buffer codec ⟨⟨[6, 255, 10], true⟩, false, ⟨⟨1⟩⟩, ⟨⟨2⟩⟩, ⟨3⟩, 41, none, 64⟩ ⟨[170], 7, true⟩ ([9] : List Int)
        ⟨._5, 1000, 5000, 6000, none, 0, none, none, true⟩ (TieA.Tx.regionOf .EU868)).map
      (fun o => (o.1, o.2.1.uplink.confirmed, o.2.1.confirmed, o.2.1.fcnt_up, o.2.2))
      = some (41, false, true, 41, [1, 1, 1, 41, 6, 255, 10, 7, 170]) := by
  rfl

#print axioms tieA_prepare_buffer_header
end C12
