import LoraVerif.Model.Mac
import LoraVerif.Gen.SessionStatic
import LoraVerif.Gen.FrontEndStatic
import LoraVerif.Props.TieA.Rx2Complete
/-!
# C12, tie A: the ADR thresholds of `session.rs`

The hand model (`rx2Complete`, `prepareBuffer`) tests `cnt ≥ ADR_ACK_LIMIT + ADR_ACK_DELAY` and
`adrAckCnt ≥ ADR_ACK_LIMIT` with the constants of `Gen.Session`.  The comparisons of the current
source (`self.adr_ack_cnt >= (ADR_ACK_LIMIT + ADR_ACK_DELAY) as u32` in `rx2_complete`,
`self.adr_ack_cnt >= ADR_ACK_LIMIT as u32` in `prepare_buffer`) are regenerated as functions of the
counter (`Gen/SessionStatic.lean`) and proved equal to the model's, for every counter value.
-/
namespace C12
open Model

/-- ADR back-off is due (`rx2_complete`): the model's `cnt ≥ lim + del` -/
theorem tieA_backoffDue (cnt : Nat) :
    Gen.SessionStatic.Session.rx2_complete.backoff_due cnt =
      some (decide (cnt ≥ Gen.Session.ADR_ACK_LIMIT.toNat + Gen.Session.ADR_ACK_DELAY.toNat)) := by
  have e : Gen.SessionStatic.Session.rx2_complete.backoff_due cnt = some (decide ((cnt : Int) ≥ 96)) := by
    simp only [Gen.SessionStatic.Session.rx2_complete.backoff_due]
    rfl
  rw [e, Option.some.injEq, Bool.eq_iff_iff]; simp only [decide_eq_true_eq]
  have : Gen.Session.ADR_ACK_LIMIT.toNat + Gen.Session.ADR_ACK_DELAY.toNat = 96 := by decide
  omega

/-- ADRACKReq threshold (`prepare_buffer`): the model's `adrAckCnt ≥ ADR_ACK_LIMIT` -/
theorem tieA_adrAckLimitReached (cnt : Nat) :
    Gen.SessionStatic.Session.prepare_buffer.adr_ack_limit_reached cnt =
      decide (cnt ≥ Gen.Session.ADR_ACK_LIMIT.toNat) := by
  have e : Gen.SessionStatic.Session.prepare_buffer.adr_ack_limit_reached cnt = decide ((cnt : Int) ≥ 64) := rfl
  rw [e, Bool.eq_iff_iff]; simp only [decide_eq_true_eq]
  have : Gen.Session.ADR_ACK_LIMIT.toNat = 64 := by decide
  omega

example : Gen.SessionStatic.Session.rx2_complete.backoff_due 96 = some true ∧
    Gen.SessionStatic.Session.rx2_complete.backoff_due 95 = some false ∧
    Gen.SessionStatic.Session.prepare_buffer.adr_ack_limit_reached 64 = true := by decide

/-- both generated units read the same ADR constants -/
theorem tieA_adrConstants :
    Gen.SessionStatic.ADR_ACK_LIMIT = Gen.Session.ADR_ACK_LIMIT ∧ Gen.SessionStatic.ADR_ACK_DELAY = Gen.Session.ADR_ACK_DELAY :=
  ⟨rfl, rfl⟩

#print axioms tieA_backoffDue
#print axioms tieA_adrAckLimitReached
/-- The MAC-level histories of the correspondence are driven through the cfg-guarded facade
`VerifMac`, whose `set_adr` / `set_datarate` repeat the statements of the two front-ends'
`Device::set_adr` / `Device::set_datarate`.  The three bodies of the CURRENT source, normalised by
the translator (parameters renamed positionally, `self.shared.mac` written `self.mac`), are the same
text: what the correspondence establishes for the facade (it behaves like `macSetAdr` /
`macSetDatarate`) is established for the statements the front-ends execute.  (The front-ends are
also driven directly: class `device-adr-silent-run`.) -/
theorem tieA_setAdr_mirror :
    Gen.FrontEndStatic.async_set_adr = Gen.FrontEndStatic.hook_set_adr ∧
    Gen.FrontEndStatic.nb_set_adr = Gen.FrontEndStatic.hook_set_adr := ⟨rfl, rfl⟩

theorem tieA_setDatarate_mirror :
    Gen.FrontEndStatic.async_set_datarate = Gen.FrontEndStatic.hook_set_datarate ∧
    Gen.FrontEndStatic.nb_set_datarate = Gen.FrontEndStatic.hook_set_datarate := ⟨rfl, rfl⟩

/-- builder L — the WHOLE method: the state-passing translation of the current source of
`Session::rx2_complete` (`Gen/SessionFn.lean`) is the model's `rx2Complete` on every session whose
counters fit `u32` and every configuration: `adr_ack_cnt` counts (saturating) only while ADR is on, the
data rate steps to `next_lower_datarate` exactly at 96, 128, … and only if a lower rate exists, and the
answer is `NoAck` exactly after a confirmed uplink.  (`C12.timeout_refines`, `C12.stepdown_only_at`
are about that model function.)  `next_lower_datarate` itself is abstract in the translation; it is
instantiated with the model's `nextLowerDatarate` (tied by the correspondence).  Proved in
`Props/TieA/Rx2Complete.lean`. -/
theorem tieA_rx2_complete (s0 : Session) (gs : Gen.SessionFn.Session) (g : Gen.SessionFn.Configuration) (r : RegionId)
    (hw : TieA.SessWF gs) :
    (Gen.SessionFn.Session.rx2_complete gs g (TieA.regionOf r)).bind
        (fun o => (TieA.respOf o.1).map (fun resp => (resp, TieA.sessOf s0 o.2.1, TieA.cfgOf o.2.2)))
      = some (rx2Complete (TieA.sessOf s0 gs) (TieA.cfgOf g) r) :=
  TieA.tieA_rx2_complete s0 gs g r hw

/-- non-vacuity: at count 127 with ADR on, EU868 DR3 → DR2, the count becomes 128 -/
example :
    (Gen.SessionFn.Session.rx2_complete ⟨true, 200, some 3, 127⟩ ⟨._3, 1000, 5000, 6000, none, 0, none, none, true⟩ (TieA.regionOf .EU868)).map
        (fun o => (o.1, o.2.1.adr_ack_cnt, o.2.2.data_rate))
      = some (.NoAck, 128, ._2) := by decide

#print axioms tieA_rx2_complete
end C12
