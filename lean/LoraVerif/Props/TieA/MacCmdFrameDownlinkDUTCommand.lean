import LoraVerif.Props.TieA.MacCmdFrameGen
import LoraVerif.Gen.MacCmdFnDownlinkDUTCommand
/-!
# Tie A for the framing step of `DownlinkDUTCommand` (builder F, C03)

`Gen/MacCmdFnDownlinkDUTCommand.lean` holds what `#[derive(CommandHandler)]` generates for `DownlinkDUTCommand` (payload structs,
`new_from_raw` / `max_len`, `MacCommandSet::parse_one`, expanded from the `quote!` templates with the `#[cmd]` attributes of
the current source), the hand-written `len()` helpers of its variable-length payloads, and the source's
`MacCommands::next` for `T = DownlinkDUTCommand`.  Here: the regenerated framing IS the hand model `Model/MacCmd.lean` over the
regenerated table `Gen.CmdTables.downlinkDUTCommand`, for every octet stream.  The set-independent part of the argument is
`Props/TieA/MacCmdFrameGen.lean`; this file supplies the reading of the set's own types (`infoOf` …), one lemma per
`match` arm, and the bridge `next_bridge` (the unit's `next` is `gNext` of the unit's `parse_one`).
-/
set_option linter.unusedSimpArgs false
set_option linter.unusedVariables false
namespace TieA.FrameDownlinkDUTCommand
open MacCmd TieA.MacCmdFrame TieA.FrameGen

/-- the table of the set, regenerated from the `#[cmd]` attributes (C03's `T`) -/
def TS : Table := C03.T Gen.CmdTables.downlinkDUTCommand

/-- what a yielded command is: CID, variant, payload type, the octets its payload view borrows -/
def infoOf : Gen.MacCmdFnDownlinkDUTCommand.DownlinkDUTCommand → Info
  | .DutResetReq _ => (1, "DutResetReq", "DutResetReqPayload", [])
  | .DutJoinReq _ => (2, "DutJoinReq", "DutJoinReqPayload", [])
  | .AdrBitChangeReq p => (4, "AdrBitChangeReq", "AdrBitChangeReqPayload", p._0)
  | .TxPeriodicityChangeReq p => (6, "TxPeriodicityChangeReq", "TxPeriodicityChangeReqPayload", p._0)
  | .TxFramesCtrlReq p => (7, "TxFramesCtrlReq", "TxFramesCtrlReqPayload", p._0)
  | .EchoIncPayloadReq p => (8, "EchoIncPayloadReq", "EchoIncPayloadReqPayload", p._0)
  | .RxAppCntReq _ => (9, "RxAppCntReq", "RxAppCntReqPayload", [])
  | .LinkCheckReq _ => (32, "LinkCheckReq", "LinkCheckReqPayload", [])
  | .DutVersionsReq _ => (127, "DutVersionsReq", "DutVersionsReqPayload", [])

def errOf : Gen.MacCmdFnDownlinkDUTCommand.ParseError → MacCmd.ParseError
  | .UnknownCid c => .unknownCid c.toNat
  | .Truncated c => .truncated c.toNat

def oneOf : Gen.MacCmdFnDownlinkDUTCommand.ParseOne → POne
  | .Ok c n => .ok (infoOf c, n)
  | .Err e => .error (errOf e)

def itemOf : Gen.MacCmdFnDownlinkDUTCommand.NextItem → GItem
  | .Ok c => .ok (infoOf c)
  | .Err e => .error (errOf e)

def stOf (g : Gen.MacCmdFnDownlinkDUTCommand.MacCommands) : GSt := (g.data, g.errored)

/-- the regenerated `parse_one` in set-independent vocabulary -/
def P (d : List Int) : Option POne := (Gen.MacCmdFnDownlinkDUTCommand.DownlinkDUTCommand.parse_one d).map oneOf

attribute [local simp] infoOf errOf oneOf Gen.MacCmdFnDownlinkDUTCommand.DutResetReqPayload.new_from_raw Gen.MacCmdFnDownlinkDUTCommand.DutResetReqPayload.max_len Gen.MacCmdFnDownlinkDUTCommand.DutJoinReqPayload.new_from_raw Gen.MacCmdFnDownlinkDUTCommand.DutJoinReqPayload.max_len Gen.MacCmdFnDownlinkDUTCommand.AdrBitChangeReqPayload.new_from_raw Gen.MacCmdFnDownlinkDUTCommand.AdrBitChangeReqPayload.max_len Gen.MacCmdFnDownlinkDUTCommand.TxPeriodicityChangeReqPayload.new_from_raw Gen.MacCmdFnDownlinkDUTCommand.TxPeriodicityChangeReqPayload.max_len Gen.MacCmdFnDownlinkDUTCommand.TxFramesCtrlReqPayload.new_from_raw Gen.MacCmdFnDownlinkDUTCommand.TxFramesCtrlReqPayload.len Gen.MacCmdFnDownlinkDUTCommand.TxFramesCtrlReqPayload.min_len Gen.MacCmdFnDownlinkDUTCommand.EchoIncPayloadReqPayload.new_from_raw Gen.MacCmdFnDownlinkDUTCommand.EchoIncPayloadReqPayload.len Gen.MacCmdFnDownlinkDUTCommand.EchoIncPayloadReqPayload.min_len Gen.MacCmdFnDownlinkDUTCommand.RxAppCntReqPayload.new_from_raw Gen.MacCmdFnDownlinkDUTCommand.RxAppCntReqPayload.max_len Gen.MacCmdFnDownlinkDUTCommand.LinkCheckReqPayload.new_from_raw Gen.MacCmdFnDownlinkDUTCommand.LinkCheckReqPayload.max_len Gen.MacCmdFnDownlinkDUTCommand.DutVersionsReqPayload.new_from_raw Gen.MacCmdFnDownlinkDUTCommand.DutVersionsReqPayload.max_len

theorem arm1 : ∀ rest : List Nat, (Gen.MacCmdFnDownlinkDUTCommand.DownlinkDUTCommand.parse_one (ints (1 :: rest))).map oneOf
    = (toOpt (parseOne TS varLen (1 :: rest))).map oneUp := by
  arm_fixed Gen.MacCmdFnDownlinkDUTCommand.DownlinkDUTCommand.parse_one 0

theorem arm2 : ∀ rest : List Nat, (Gen.MacCmdFnDownlinkDUTCommand.DownlinkDUTCommand.parse_one (ints (2 :: rest))).map oneOf
    = (toOpt (parseOne TS varLen (2 :: rest))).map oneUp := by
  arm_fixed Gen.MacCmdFnDownlinkDUTCommand.DownlinkDUTCommand.parse_one 0

theorem arm4 : ∀ rest : List Nat, (Gen.MacCmdFnDownlinkDUTCommand.DownlinkDUTCommand.parse_one (ints (4 :: rest))).map oneOf
    = (toOpt (parseOne TS varLen (4 :: rest))).map oneUp := by
  arm_fixed Gen.MacCmdFnDownlinkDUTCommand.DownlinkDUTCommand.parse_one 1

theorem arm6 : ∀ rest : List Nat, (Gen.MacCmdFnDownlinkDUTCommand.DownlinkDUTCommand.parse_one (ints (6 :: rest))).map oneOf
    = (toOpt (parseOne TS varLen (6 :: rest))).map oneUp := by
  arm_fixed Gen.MacCmdFnDownlinkDUTCommand.DownlinkDUTCommand.parse_one 1

theorem arm7 : ∀ rest : List Nat, (7 :: rest).length < 2 ^ 64 → (Gen.MacCmdFnDownlinkDUTCommand.DownlinkDUTCommand.parse_one (ints (7 :: rest))).map oneOf
    = (toOpt (parseOne TS varLen (7 :: rest))).map oneUp := by
  arm_toEnd Gen.MacCmdFnDownlinkDUTCommand.DownlinkDUTCommand.parse_one

theorem arm8 : ∀ rest : List Nat, (8 :: rest).length < 2 ^ 64 → (Gen.MacCmdFnDownlinkDUTCommand.DownlinkDUTCommand.parse_one (ints (8 :: rest))).map oneOf
    = (toOpt (parseOne TS varLen (8 :: rest))).map oneUp := by
  arm_toEnd Gen.MacCmdFnDownlinkDUTCommand.DownlinkDUTCommand.parse_one

theorem arm9 : ∀ rest : List Nat, (Gen.MacCmdFnDownlinkDUTCommand.DownlinkDUTCommand.parse_one (ints (9 :: rest))).map oneOf
    = (toOpt (parseOne TS varLen (9 :: rest))).map oneUp := by
  arm_fixed Gen.MacCmdFnDownlinkDUTCommand.DownlinkDUTCommand.parse_one 0

theorem arm32 : ∀ rest : List Nat, (Gen.MacCmdFnDownlinkDUTCommand.DownlinkDUTCommand.parse_one (ints (32 :: rest))).map oneOf
    = (toOpt (parseOne TS varLen (32 :: rest))).map oneUp := by
  arm_fixed Gen.MacCmdFnDownlinkDUTCommand.DownlinkDUTCommand.parse_one 0

theorem arm127 : ∀ rest : List Nat, (Gen.MacCmdFnDownlinkDUTCommand.DownlinkDUTCommand.parse_one (ints (127 :: rest))).map oneOf
    = (toOpt (parseOne TS varLen (127 :: rest))).map oneUp := by
  arm_fixed Gen.MacCmdFnDownlinkDUTCommand.DownlinkDUTCommand.parse_one 0

theorem lookup_none (cid : Nat) (h : cid ∉ [1, 2, 4, 6, 7, 8, 9, 32, 127]) : TS.lookup cid = none := by
  simp only [List.mem_cons, List.not_mem_nil, or_false, not_or] at h
  obtain ⟨h1, h2, h4, h6, h7, h8, h9, h32, h127⟩ := h
  have e : ∀ k : Nat, cid ≠ k → (k == cid) = false := fun k hk => by simp; omega
  simp [TS, C03.T, Table.ofRows, Gen.CmdTables.downlinkDUTCommand, Table.lookup, Entry.ofRow, List.find?, e _ h1, e _ h2, e _ h4, e _ h6, e _ h7, e _ h8, e _ h9, e _ h32, e _ h127]

theorem arm_unknown (cid : Nat) (h : cid ∉ [1, 2, 4, 6, 7, 8, 9, 32, 127]) (rest : List Nat) :
    (Gen.MacCmdFnDownlinkDUTCommand.DownlinkDUTCommand.parse_one (ints (cid :: rest))).map oneOf = (toOpt (parseOne TS varLen (cid :: rest))).map oneUp := by
  rw [model_unknown' TS varLen cid rest (lookup_none cid h)]
  simp only [List.mem_cons, List.not_mem_nil, or_false, not_or] at h
  obtain ⟨h1, h2, h4, h6, h7, h8, h9, h32, h127⟩ := h
  unfold Gen.MacCmdFnDownlinkDUTCommand.DownlinkDUTCommand.parse_one
  simp only [idx0', Option.bind_eq_bind, Option.bind_some]
  have e1 : ¬ ((cid : Int) = 1) := by omega
  have e2 : ¬ ((cid : Int) = 2) := by omega
  have e4 : ¬ ((cid : Int) = 4) := by omega
  have e6 : ¬ ((cid : Int) = 6) := by omega
  have e7 : ¬ ((cid : Int) = 7) := by omega
  have e8 : ¬ ((cid : Int) = 8) := by omega
  have e9 : ¬ ((cid : Int) = 9) := by omega
  have e32 : ¬ ((cid : Int) = 32) := by omega
  have e127 : ¬ ((cid : Int) = 127) := by omega
  simp [e1, e2, e4, e6, e7, e8, e9, e32, e127, h1, h2, h4, h6, h7, h8, h9, h32, h127, toOpt, oneUp]

/-- the regenerated `parse_one` of `DownlinkDUTCommand` IS the model's `parseOne` over the regenerated table, on every octet string -/
theorem parse_one_tie (data : List Nat) (hlen : data.length < 2 ^ 64) :
    (Gen.MacCmdFnDownlinkDUTCommand.DownlinkDUTCommand.parse_one (ints data)).map oneOf = (toOpt (parseOne TS varLen data)).map oneUp := by
  cases data with
  | nil => rfl
  | cons cid rest =>
    by_cases h : cid ∈ [1, 2, 4, 6, 7, 8, 9, 32, 127]
    · simp only [List.mem_cons, List.not_mem_nil, or_false] at h
      rcases h with rfl | rfl | rfl | rfl | rfl | rfl | rfl | rfl | rfl
      · exact arm1 rest
      · exact arm2 rest
      · exact arm4 rest
      · exact arm6 rest
      · exact arm7 rest hlen
      · exact arm8 rest hlen
      · exact arm9 rest
      · exact arm32 rest
      · exact arm127 rest
    · exact arm_unknown cid h rest

/-- the length bound under which the regenerated `parse_one` cannot overflow `1 + len` -/
def Q (n : Nat) : Prop := n < 2 ^ 64

theorem Q_down (a b : Nat) (h : a ≤ b) (hb : Q b) : Q a := by
  unfold Q at *; omega

theorem P_tie (data : List Nat) (hq : Q data.length) : P (ints data) = (toOpt (parseOne TS varLen data)).map oneUp :=
  parse_one_tie data hq

/-- the unit's `MacCommands::next` (for `T = DownlinkDUTCommand`), read through `itemOf` / `stOf`, is `gNext` of the unit's `parse_one` -/
theorem next_bridge (s : Gen.MacCmdFnDownlinkDUTCommand.MacCommands) :
    (Gen.MacCmdFnDownlinkDUTCommand.MacCommands.next s).map (fun r => (r.1.map itemOf, stOf r.2)) = gNext P (stOf s) := by
  obtain ⟨d, e⟩ := s
  unfold Gen.MacCmdFnDownlinkDUTCommand.MacCommands.next gNext P
  cases e with
  | true => simp [stOf]
  | false =>
    cases d with
    | nil => simp [stOf]
    | cons a t =>
      simp only [stOf, List.isEmpty_cons, Bool.or_self, Bool.or_false, Bool.false_or, Bool.false_eq_true, if_false,
        Option.bind_eq_bind]
      cases hp : Gen.MacCmdFnDownlinkDUTCommand.DownlinkDUTCommand.parse_one (a :: t) with
      | none => simp
      | some r =>
        cases r with
        | Err x => simp [itemOf, stOf]
        | Ok c n =>
          simp only [Option.bind_some, Option.map_some, oneOf]
          cases hs : Rt.sliceFrom (a :: t) n with
          | none => simp
          | some d' => simp [itemOf, stOf]

def runOf (r : List Gen.MacCmdFnDownlinkDUTCommand.NextItem × Gen.MacCmdFnDownlinkDUTCommand.MacCommands × Bool) := (r.1.map itemOf, stOf r.2.1, r.2.2)

end TieA.FrameDownlinkDUTCommand

namespace C03
open MacCmd TieA.MacCmdFrame TieA.FrameGen TieA.FrameDownlinkDUTCommand

/-- builder F — the derive-generated `parse_one` of `DownlinkDUTCommand` (expanded from the `quote!` templates of the `CommandHandler`
derive with the `#[cmd(cid, len)]` attributes of the current source, with the hand-written `len()` helpers of the variable-length payloads) IS the
model's `parseOne` over the regenerated table, for EVERY octet string (of a length a Rust slice can have): same variant, payload type, payload octets and
consumed count, `UnknownCid` / `Truncated` with the same CID on the same inputs, a panic exactly on the empty slice. -/
theorem tieA_parse_one_DownlinkDUTCommand (data : List Nat) (hlen : data.length < 2 ^ 64) :
    (Gen.MacCmdFnDownlinkDUTCommand.DownlinkDUTCommand.parse_one (ints data)).map TieA.FrameDownlinkDUTCommand.oneOf = (toOpt (parseOne TieA.FrameDownlinkDUTCommand.TS varLen data)).map oneUp :=
  TieA.FrameDownlinkDUTCommand.parse_one_tie data hlen

/-- builder F — the source's `MacCommands::next` for `T = DownlinkDUTCommand` IS the model's `next` in every state. -/
theorem tieA_next_DownlinkDUTCommand (data : List Nat) (err : Bool) (hlen : data.length < 2 ^ 64) :
    (Gen.MacCmdFnDownlinkDUTCommand.MacCommands.next ⟨ints data, err⟩).map (fun r => (r.1.map TieA.FrameDownlinkDUTCommand.itemOf, TieA.FrameDownlinkDUTCommand.stOf r.2))
      = (toOpt (MacCmd.next TieA.FrameDownlinkDUTCommand.TS varLen ⟨data, err⟩)).map (fun r => (r.1.map itemUp, stUp r.2)) := by
  rw [TieA.FrameDownlinkDUTCommand.next_bridge]
  exact gNext_tie _ _ _ TieA.FrameDownlinkDUTCommand.Q TieA.FrameDownlinkDUTCommand.P_tie data err hlen

/-- builder F — the `DownlinkDUTCommand` iterator over `data`, drained through the REGENERATED `next` (`MacCommands::new(data)`, then
`next` until `None`, budget `data.len() + 2`), is the model's run, for every octet stream: the same items in the same order,
the same final state, within the same budget. -/
theorem tieA_iterator_DownlinkDUTCommand (data : List Nat) (hlen : data.length < 2 ^ 64) :
    (runFuelOf Gen.MacCmdFnDownlinkDUTCommand.MacCommands.next (data.length + 2) ⟨ints data, false⟩).map TieA.FrameDownlinkDUTCommand.runOf
      = (toOpt (run TieA.FrameDownlinkDUTCommand.TS varLen data)).map runUp := by
  have h := runFuelOf_sim Gen.MacCmdFnDownlinkDUTCommand.MacCommands.next (gNext TieA.FrameDownlinkDUTCommand.P) TieA.FrameDownlinkDUTCommand.itemOf TieA.FrameDownlinkDUTCommand.stOf
    TieA.FrameDownlinkDUTCommand.next_bridge (data.length + 2) ⟨ints data, false⟩
  unfold TieA.FrameDownlinkDUTCommand.runOf
  rw [h]
  exact gRun_tie _ _ _ TieA.FrameDownlinkDUTCommand.Q TieA.FrameDownlinkDUTCommand.Q_down TieA.FrameDownlinkDUTCommand.P_tie _ data false hlen

/-! non-vacuity: a concrete stream through the regenerated iterator (CID and payload octets of every item, `none` = the
error item; the unread rest and the `errored` flag; budget not exhausted); the length hypothesis holds of it -/
example : (runFuelOf Gen.MacCmdFnDownlinkDUTCommand.MacCommands.next (6 + 2) ⟨[6, 5, 7, 1, 2, 3], false⟩).map
    (fun r => (r.1.map (fun i => (TieA.FrameDownlinkDUTCommand.itemOf i).toOption.map (fun c => (c.1, c.2.2.2))), TieA.FrameDownlinkDUTCommand.stOf r.2.1, r.2.2))
    = some ([some (6, [5]), some (7, [1, 2, 3])], ([], false), false) := by decide
example : ([6, 5, 7, 1, 2, 3] : List Nat).length < 2 ^ 64 := by decide

#print axioms tieA_parse_one_DownlinkDUTCommand
#print axioms tieA_next_DownlinkDUTCommand
#print axioms tieA_iterator_DownlinkDUTCommand
end C03
