import LoraVerif.Props.TieA.C14
/-!
# Tie A for the `LoRa<RK, DLY>` state machine, part 2: the prepare methods, `listen`, `init`, and the
methods with loops and error paths (`tx`, `complete_rx`, `rx`, `cad`).  See `Props/TieA/C14.lean`.
-/
open Model.Phy Model.Phy.M

namespace C14
open LoRaTie
variable {σ μ BW : Type}

/-- a tied method in tail position on both sides -/
theorem sim_tail {α β : Type} {g : Rt.LoRa.LM (Gen.LoRaApiFn.LoRa σ RxMode) World RadioError Halt β} {m : M σ α}
    {c : α → β} {s : Gen.LoRaApiFn.LoRa σ RxMode} {d : DriverState σ} {w : World}
    (hm : ∀ d w, g (toG d, w) = lift c (m (d, w))) (hs : s = toG d) : g (s, w) = lift c (m (d, w)) := by
  subst hs; exact hm d w

/-- `LoRa::prepare_for_cad` -/
theorem tieA_lora_prepare_for_cad (rk : RadioKindOps σ μ) (cmp : BW → Int → Except RadioError μ) (m : μ)
    (d : DriverState σ) (w : World) :
    Gen.LoRaApiFn.prepare_for_cad (opsOf rk cmp) m (toG d, w)
      = lift id (Model.Phy.prepareForCad rk m (d, w)) := by
  unfold Gen.LoRaApiFn.prepare_for_cad Model.Phy.prepareForCad
  lora_eval
  lora_sub (tieA_lora_prepare_modem rk cmp _)
  intro _ d' _; obtain ⟨rk1, mode1, sw1, cs1, ci1⟩ := d'
  lora_tie

/-- `LoRa::prepare_for_rx` -/
theorem tieA_lora_prepare_for_rx (rk : RadioKindOps σ μ) (cmp : BW → Int → Except RadioError μ)
    (mode : RxMode) (m : μ) (pkt : PacketParams) (d : DriverState σ) (w : World) :
    Gen.LoRaApiFn.prepare_for_rx (opsOf rk cmp) mode m pkt (toG d, w)
      = lift id (Model.Phy.prepareForRx rk mode m pkt (d, w)) := by
  unfold Gen.LoRaApiFn.prepare_for_rx Model.Phy.prepareForRx
  lora_eval
  lora_sub (tieA_lora_prepare_modem rk cmp _)
  intro _ d' _; obtain ⟨rk1, mode1, sw1, cs1, ci1⟩ := d'
  lora_tie

/-- the loop of `LoRa::tx` -/
theorem tieA_lora_tx_loop (rk : RadioKindOps σ μ) (cmp : BW → Int → Except RadioError μ) :
    ∀ (fuel : Nat) (d : DriverState σ) (w : World),
      Gen.LoRaApiFn.tx_loop (opsOf rk cmp) fuel (toG d, w) = lift id (Model.Phy.txLoop rk fuel (d, w))
  | 0, d, w => by
    unfold Gen.LoRaApiFn.tx_loop Model.Phy.txLoop
    lora_tie
  | fuel + 1, d, w => by
    obtain ⟨rk0, mode, sw, cs, ci⟩ := d
    unfold Gen.LoRaApiFn.tx_loop Model.Phy.txLoop Model.Phy.failToStandby
    lora_eval
    lora_step
    lora_eval
    refine sim_attempt (fun a w' => ?_) (fun e w' => ?_) (by first | rfl | lora_leaf)
    · rcases a with ⟨(_ | (_ | _)), o⟩
      · lora_eval
        exact tieA_lora_tx_loop rk cmp fuel ⟨rk0, mode, sw, cs, ci⟩ w'
      · lora_tie
      · lora_tie
    · lora_tie

/-- `LoRa::tx` (the fuel of the loop is a parameter on both sides) -/
theorem tieA_lora_tx (rk : RadioKindOps σ μ) (cmp : BW → Int → Except RadioError μ) (fuel : Nat)
    (d : DriverState σ) (w : World) :
    Gen.LoRaApiFn.tx (opsOf rk cmp) fuel (toG d, w) = lift id (Model.Phy.tx rk fuel (d, w)) := by
  obtain ⟨rk0, mode, sw, cs, ci⟩ := d
  unfold Gen.LoRaApiFn.tx Model.Phy.tx
  cases mode <;> lora_tie
  exact sim_tail (tieA_lora_tx_loop rk cmp fuel) rfl

/-- `LoRa::prepare_for_tx`; the regenerated method also returns the `&mut PacketParams` it updated -/
theorem tieA_lora_prepare_for_tx (rk : RadioKindOps σ μ) (cmp : BW → Int → Except RadioError μ)
    (m : μ) (pkt : PacketParams) (power : Int) (payload : Bytes) (d : DriverState σ) (w : World) :
    Gen.LoRaApiFn.prepare_for_tx (opsOf rk cmp) m pkt power payload (toG d, w)
      = lift (fun u => (u, { pkt with payloadLength := payload.length }))
          (Model.Phy.prepareForTx rk m pkt power payload (d, w)) := by
  unfold Gen.LoRaApiFn.prepare_for_tx Model.Phy.prepareForTx Model.Phy.toStandby
  lora_eval
  lora_sub (tieA_lora_prepare_modem rk cmp _)
  intro _ d' _; obtain ⟨rk1, mode1, sw1, cs1, ci1⟩ := d'
  by_cases hl : payload.length > 255
  · have hl' : (payload.length : Int) > 255 := by omega
    cases mode1 <;> simp only [hl, hl', if_true] <;> lora_tie
  · have hl' : ¬ (payload.length : Int) > 255 := by omega
    cases mode1 <;> simp only [hl, hl', if_false] <;> lora_tie

/-- `LoRa::init` -/
theorem tieA_lora_init (rk : RadioKindOps σ μ) (cmp : BW → Int → Except RadioError μ)
    (d : DriverState σ) (w : World) :
    Gen.LoRaApiFn.init (opsOf rk cmp) (toG d, w) = lift id (Model.Phy.init rk (d, w)) := by
  obtain ⟨rk0, mode, sw, cs, ci⟩ := d
  unfold Gen.LoRaApiFn.init Model.Phy.init
  lora_tie

/-- `LoRa::cad` -/
theorem tieA_lora_cad (rk : RadioKindOps σ μ) (cmp : BW → Int → Except RadioError μ) (m : μ)
    (d : DriverState σ) (w : World) :
    Gen.LoRaApiFn.cad (opsOf rk cmp) m (toG d, w)
      = lift id (Model.Phy.cad rk m (d, w)) := by
  obtain ⟨rk0, mode, sw, cs, ci⟩ := d
  unfold Gen.LoRaApiFn.cad Model.Phy.cad Model.Phy.failToStandby
  cases mode <;> lora_tie
  rename_i a _
  rcases a with ⟨(_ | (_ | _)), (_ | (_ | _))⟩ <;> lora_tie
  all_goals (first | rfl | lora_tie)

end C14
