import LoraVerif.Props.TieA.HandleMacsRxParam
import LoraVerif.Props.TieA.MatchTactics
/-!
# Tie A for `Session::handle_downlink_macs` — the LinkADRReq block arm (builder S)

One iteration of the regenerated dispatch loop (`Gen/SessionMacs.lean`) on a LinkADRReq is the model's handling of
that command inside its block (`adrStepModel` = the `0x03` arm of `handleCmds`, `handleCmds_adr_cons`): the command
counter goes up, the working copy of the channel mask is updated by the region (an RFU ChMaskCntl raises the flag
of the WHOLE block and leaves the copy), and when the next command (`cmd_iter.peek()`) is another LinkADRReq nothing
else happens; on the last command of the block the data rate, the power and the mask are validated, applied all
together or not at all, `n` identical answers are pushed (`Rt.forRangeM` = the model's `foldl` over `List.range n`)
and the block state is reset (counter 0, flag down, working copy = the mask in force).
-/
set_option linter.unusedSimpArgs false
set_option linter.unusedVariables false
namespace TieA.Macs
open Model Gen.Region TieA.Rx

/-! ## the model side: the `0x03` arm of `handleCmds` as a step -/

/-- does the command stream go on with a LinkADRReq? (the model's `match rest with | (0x03, _) :: _`) -/
def startsAdr : List (Nat × List Nat) → Bool
  | (0x03, _) :: _ => true
  | _ => false

/-- the model's handling of one LinkADRReq; `more`: the next command is a LinkADRReq too -/
def adrStepModel (p : List Nat) (more : Bool) (c : MacCtx) (mask : Mask) (rfu : Bool) (nAdr : Nat) : M (MacCtx × Mask × Bool × Nat) := do
  let cntl := ((← byteAt p 3) / 16) % 8
  let upd ← channelMaskUpdate c.region mask cntl (← byteAt p 1) (← byteAt p 2)
  let (mask, rfu) := match upd with
    | some m => (m, rfu)
    | none => (mask, true)
  let nAdr := nAdr + 1
  if more then pure (c, mask, rfu, nAdr)
  else do
    let c ← finishLinkAdrBlock c mask rfu nAdr p
    pure (c, channelMaskGet c.region, false, 0)

/-- `handleCmds` on a LinkADRReq: that step, then the rest with the block state the step left -/
theorem handleCmds_adr_cons (snr : Int) (p : List Nat) (rest : List (Nat × List Nat)) (c : MacCtx) (mask : Mask) (rfu : Bool) (n : Nat) :
    handleCmds snr ((3, p) :: rest) c mask rfu n
      = (adrStepModel p (startsAdr rest) c mask rfu n).bind fun r => handleCmds snr rest r.1 r.2.1 r.2.2.1 r.2.2.2 := by
  simp only [handleCmds, adrStepModel, bind, Except.bind, pure, Except.pure]
  cases byteAt p 3 <;> simp only []
  cases byteAt p 1 <;> simp only []
  cases byteAt p 2 <;> simp only []
  rename_i a b d
  cases channelMaskUpdate c.region mask (a / 16 % 8) b d <;> simp only []
  rename_i upd
  match rest with
  | [] => simp only [startsAdr, Bool.false_eq_true, if_false]; cases finishLinkAdrBlock c _ _ (n + 1) p <;> rfl
  | (cid, q) :: rest' =>
    by_cases h : cid = 3
    · subst h; simp only [startsAdr, if_true]; cases upd <;> rfl
    · have : startsAdr ((cid, q) :: rest') = false := by
        unfold startsAdr; split
        · rename_i heq; simp only [List.cons.injEq, Prod.mk.injEq] at heq; exact absurd heq.1.1 h
        · rfl
      rw [this]
      simp only [Bool.false_eq_true, if_false]
      split
      · rename_i heq; simp only [List.cons.injEq, Prod.mk.injEq] at heq; exact absurd heq.1.1 h
      · cases finishLinkAdrBlock c _ _ (n + 1) p <;> rfl

/-! ## the `for _ in 0..num_adrreq` loop of identical answers -/

theorem foldl_range_succ {α} (f : α → α) (k : Nat) (a : α) :
    (List.range (k + 1)).foldl (fun c _ => f c) a = (List.range k).foldl (fun c _ => f c) (f a) := by
  rw [List.range_succ_eq_map, List.foldl_cons, List.foldl_map]

/-- `n` pushes of the same one-byte answer through `Rt.forRangeM` = the model's fold over `List.range n` -/
theorem push_loop (cid b : Int) (cidN ansN : Nat) (hc : cid.toNat = cidN) (hb : b.toNat = ansN)
    (f : Int → Gen.SessionRx.Session × Bool → Option (Gen.SessionRx.Session × Bool))
    (hf : ∀ i s fl, f i (s, fl) = (Gen.SessionMacs.push_answer s.uplink fl ⟨cid, [b], 1⟩).bind fun x => some ({ s with uplink := x.1 }, x.2)) :
    ∀ (k : Nat) (i : Int) (gs : Gen.SessionRx.Session) (full : Bool) (c : MacCtx),
      c.pending = Rx.natsOf gs.uplink.pending → c.full = full → gs.uplink.pending.length ≤ 15 →
      ∃ pend', Rt.forRangeM.go f k i (gs, full)
          = some ({ gs with uplink := { gs.uplink with pending := pend' } }, ((List.range k).foldl (fun c _ => c.push cidN [ansN]) c).full) ∧
        ((List.range k).foldl (fun c _ => c.push cidN [ansN]) c).pending = Rx.natsOf pend' ∧ pend'.length ≤ 15 ∧
        ((List.range k).foldl (fun c _ => c.push cidN [ansN]) c).cfg = c.cfg ∧
        ((List.range k).foldl (fun c _ => c.push cidN [ansN]) c).region = c.region := by
  intro k
  induction k with
  | zero =>
    intro i gs full c hp hfl hq
    exact ⟨gs.uplink.pending, by simp [Rt.forRangeM.go, hfl], by simpa using hp, hq, rfl, rfl⟩
  | succ k ih =>
    intro i gs full c hp hfl hq
    obtain ⟨u', h1, h2, h3, h4, h5, h6⟩ := push_tie gs.uplink full
      (⟨cid, [b], 1⟩ : Gen.SessionMacs.SerializableMacCommand) rfl hq (by simp) c hp hfl
    have e : Rx.natsOf [b] = [ansN] := by simp [Rx.natsOf, hb]
    simp only [e, hc] at h1 h2 h5 h6
    obtain ⟨pend', g1, g2, g3, g4, g5⟩ := ih (i + 1) { gs with uplink := u' } (c.push cidN [ansN]).full (c.push cidN [ansN]) h2 rfl h4
    refine ⟨pend', ?_, ?_, g3, ?_, ?_⟩
    · rw [Rt.forRangeM.go, hf, h1]
      simp only [Option.bind_some]
      rw [g1, foldl_range_succ]
      simp only [h3]
    · rw [foldl_range_succ]; exact g2
    · rw [foldl_range_succ, g4, h5]
    · rw [foldl_range_succ, g5, h6]

/-! ## the model's decision of a block, in closed form -/

/-- configuration after the decision: data rate and power stored iff all three acknowledged -/
def decideCfg (cfg : Config) : Bool → Option Nat → Option (Option Nat) → Config
  | true, some d, some p => { cfg with dataRate := d, txPower := p }
  | _, _, _ => cfg

/-- region after the decision: the working copy becomes the mask in force iff all three acknowledged -/
def decideReg (region : RegionState) (mask : Mask) : Bool → Option Nat → Option (Option Nat) → RegionState
  | true, some _, some _ => channelMaskSet region mask
  | _, _, _ => region

def adrAns (cm dr pw : Bool) : Nat := (if cm then 1 else 0) + (if dr then 2 else 0) + (if pw then 4 else 0)

theorem linkAdrDecide_ok (cfg : Config) (region : RegionState) (mask : Mask) (rfu : Bool) (drRaw pwRaw : Nat)
    (pw : Option (Option Nat)) (ack : Bool) (hpw : linkAdrPw cfg region.id pwRaw = .ok pw)
    (hack : linkAdrCmAck region mask rfu (linkAdrDr cfg region.id drRaw) = .ok ack) :
    linkAdrDecide cfg region mask rfu drRaw pwRaw
      = .ok (adrAns ack (linkAdrDr cfg region.id drRaw).isSome pw.isSome,
          decideCfg cfg ack (linkAdrDr cfg region.id drRaw) pw, decideReg region mask ack (linkAdrDr cfg region.id drRaw) pw) := by
  simp only [linkAdrDecide, hpw, hack, bind, Except.bind, pure, Except.pure]
  cases ack <;> cases linkAdrDr cfg region.id drRaw <;> cases pw <;> rfl

theorem linkAdrDecide_err_pw (cfg : Config) (region : RegionState) (mask : Mask) (rfu : Bool) (drRaw pwRaw : Nat) (e : Fault)
    (hpw : linkAdrPw cfg region.id pwRaw = .error e) :
    linkAdrDecide cfg region mask rfu drRaw pwRaw = .error e := by
  simp only [linkAdrDecide, hpw, bind, Except.bind]

theorem linkAdrDecide_err_ack (cfg : Config) (region : RegionState) (mask : Mask) (rfu : Bool) (drRaw pwRaw : Nat)
    (pw : Option (Option Nat)) (e : Fault) (hpw : linkAdrPw cfg region.id pwRaw = .ok pw)
    (hack : linkAdrCmAck region mask rfu (linkAdrDr cfg region.id drRaw) = .error e) :
    linkAdrDecide cfg region mask rfu drRaw pwRaw = .error e := by
  simp only [linkAdrDecide, hpw, hack, bind, Except.bind]

theorem drOfNat_toInt (x : DR) : drOfNat x.toInt.toNat = .ok x := by cases x <;> rfl

/-- the mask verdict on a data rate that came from a `DR` -/
theorem cmAck_tie (region : RegionState) (mask : Mask) (rfu : Bool) (dr : Option DR) :
    linkAdrCmAck region mask rfu (dr.map fun d => d.toInt.toNat) = if rfu then .ok false else channelMaskValidate region mask dr := by
  cases dr with
  | none => simp [linkAdrCmAck, bind, Except.bind, pure, Except.pure]
  | some d => simp [linkAdrCmAck, drOfNat_toInt, bind, Except.bind, pure, Except.pure]

/-- the data rate selected for a DataRate field other than 15 -/
theorem drg_post (x : DR) (hx : x ≠ ._15) (cfg : Config) (r : RegionId) :
    (if isUplinkDatarate r x.toInt.toNat = true then some x else none).map (fun d => d.toInt.toNat) = linkAdrDr cfg r x.toInt.toNat := by
  have h : (x.toInt.toNat == 15) = false := by cases x <;> first | rfl | exact absurd rfl hx
  simp only [linkAdrDr, h, Bool.false_eq_true, if_false]
  split <;> rfl

/-- the power selected for a TXPower field other than 15 -/
theorem pw_post (x : DR) (hx : x ≠ ._15) (cfg : Config) (r : RegionId) :
    (((txPowerAdjust r x.toInt.toNat).toOption.map fun r => r.map fun v => some (v : Int)).map
        fun r => r.map (fun o => o.map Int.toNat)) = (linkAdrPw cfg r x.toInt.toNat).toOption := by
  have h : (x.toInt.toNat == 15) = false := by cases x <;> first | rfl | exact absurd rfl hx
  simp only [linkAdrPw, h, Bool.false_eq_true, if_false, bind, Except.bind]
  cases txPowerAdjust r x.toInt.toNat with
  | error e => rfl
  | ok v => cases v <;> simp [Except.toOption, pure, Except.pure]

/-! ## the generated arm -/

/-- `if let Some(LinkADRReq(..)) = cmd_iter.peek()` -/
def isAdr : Option Gen.SessionMacs.DownlinkMacCommand → Bool
  | some (.LinkADRReq _) => true
  | _ => false

/-- closing step of the block arm: the `for` loop of identical answers, then the reset of the block state -/
theorem adr_close (gs : Gen.SessionRx.Session) (full : Bool) (c : MacCtx) (hp : c.pending = Rx.natsOf gs.uplink.pending)
    (hf : c.full = full) (hq : gs.uplink.pending.length ≤ 15) (b : Int) (ansN : Nat) (hb : b.toNat = ansN) (k : Nat)
    (F : Int → Gen.SessionRx.Session × Bool → Option (Gen.SessionRx.Session × Bool))
    (hF : ∀ i s fl, F i (s, fl) = (Gen.SessionMacs.push_answer s.uplink fl ⟨3, [b], 1⟩).bind fun x => some ({ s with uplink := x.1 }, x.2))
    (g' : Gen.SessionRx.Configuration) (hg : c.cfg = Rx.cfgOf g') (rs' : RegionState) (hr : c.region = rs') :
    ∃ pend' g'', ((Rt.forRangeM 0 ((k : Int) + 1) F (gs, full)).bind fun x =>
        some (x.fst, g', rs', x.snd, Gen.SessionMacs.MacRegionOps.channel_mask_get rs', (0 : Int), false))
          = some ({ gs with uplink := { gs.uplink with pending := pend' } }, g'',
              ((List.range (k + 1)).foldl (fun c _ => c.push 3 [ansN]) c).region,
              ((List.range (k + 1)).foldl (fun c _ => c.push 3 [ansN]) c).full,
              maskOf (channelMaskGet ((List.range (k + 1)).foldl (fun c _ => c.push 3 [ansN]) c).region), ((0 : Nat) : Int), false) ∧
      ((List.range (k + 1)).foldl (fun c _ => c.push 3 [ansN]) c).pending = Rx.natsOf pend' ∧
      ((List.range (k + 1)).foldl (fun c _ => c.push 3 [ansN]) c).cfg = Rx.cfgOf g'' ∧ pend'.length ≤ 15 := by
  obtain ⟨pend', h1, h2, h3, h4, h5⟩ := push_loop 3 b 3 ansN rfl hb F hF (k + 1) 0 gs full c hp hf hq
  have hk : ((k : Int) + 1 - 0).toNat = k + 1 := by omega
  refine ⟨pend', g', ?_, h2, by rw [h4]; exact hg, h3⟩
  simp only [Rt.forRangeM, hk, h1, Option.bind_some, Option.pure_def, h5, hr]
  rfl

/-- what one iteration of the generated loop must do on a LinkADRReq with lookahead `peek`: the model's step on the
context and the block state (working mask, counter, RFU flag), nothing of the session touched but the answer
queue, a panic on one side iff on the other -/
def AdrStepTie (snr : Int) (p : List Nat) (peek : Option Gen.SessionMacs.DownlinkMacCommand) : Prop :=
  ∀ (gs : Gen.SessionRx.Session) (g : Gen.SessionRx.Configuration) (full : Bool) (mask : Mask) (nA : Nat) (rfu : Bool) (c : MacCtx),
    Rel gs g full c → gs.uplink.pending.length ≤ 15 → nA < 2147483647 →
    match adrStepModel p (isAdr peek) c mask rfu nA with
    | .error _ => Gen.SessionMacs.Session.handle_downlink_macs.while_step snr gs g c.region full (maskOf mask) nA rfu (decCmd (3, p)) peek = none
    | .ok r => ∃ pend' g', Gen.SessionMacs.Session.handle_downlink_macs.while_step snr gs g c.region full (maskOf mask) nA rfu (decCmd (3, p)) peek
          = some ({ gs with uplink := { gs.uplink with pending := pend' } }, g', r.1.region, r.1.full, maskOf r.2.1, (r.2.2.2 : Int), r.2.2.1) ∧
        r.1.pending = Rx.natsOf pend' ∧ r.1.cfg = Rx.cfgOf g' ∧ pend'.length ≤ 15

-- common start of the two arm proofs: unfold both sides up to the region's `channel_mask_update`
set_option hygiene false in
macro "adr_open" : tactic => `(tactic| (
  intro gs g full mask nA rfu c hrel hq hn
  have hck : Rt.ck .i32 ((nA : Int) + 1) = some ((nA : Int) + 1) := Rt.ck_i32 (by omega) (by omega)
  simp only [adrStepModel, byteAt, bind, Except.bind, pure, Except.pure, List.getElem?_cons_zero, List.getElem?_cons_succ]
  unfold Gen.SessionMacs.Session.handle_downlink_macs.while_step
  simp only [decCmd, hck, Option.bind_eq_bind, Option.bind_some, Gen.SessionMacs.MacRegionOps.channel_mask_update,
    Int.toNat_natCast, natsOf_maskOf]))

/-- normalisation after the case split on the update's verdict and on the RFU flag (both literals then) -/
macro "adr_norm" : tactic => `(tactic|
  simp only [isAdr, Option.isNone_none, Option.isNone_some, Bool.false_eq_true, if_false, if_true, Bool.not_true, Bool.not_false,
    Gen.SessionMacs.LinkADRAnsCreator.new, Gen.SessionMacs.LinkADRAnsCreator.set_channel_mask_ack,
    Gen.SessionMacs.LinkADRAnsCreator.set_data_rate_ack, Gen.SessionMacs.LinkADRAnsCreator.set_tx_power_ack])

-- the end of a block with working mask `m1` and RFU flag `r` (a literal) after the update
set_option hygiene false in
macro "adr_tail " m1:term:max r:term:max : tactic => `(tactic| (
  adr_norm
  gen_match (drOfNatT (b0 % 16)) as PW hPW
  gen_match (drOfNatT (b0 / 16)) as DRG hDRG
  -- the data rate and the power the generated code selected are the model's
  have hDm : DRG.map (fun d => d.toInt.toNat) = linkAdrDr c.cfg c.region.id (b0 / 16) := by
    have hxk := drOfNatT_toInt (b0 / 16) (by omega)
    generalize drOfNatT (b0 / 16) = x at hDRG hxk
    rw [← hDRG, ← hxk]
    cases x <;> first
      | (simp only [Gen.SessionMacs.MacRegionOps.is_uplink_datarate, wrap_u8_dr]; exact drg_post _ (by decide) _ _)
      | (simp [linkAdrDr, hrel.cfg, Rx.cfgOf, show DR._15.toInt.toNat = 15 from rfl]; done)
  have hPm : PW.map (fun r => r.map (fun o => o.map Int.toNat)) = (linkAdrPw c.cfg c.region.id (b0 % 16)).toOption := by
    have hxk := drOfNatT_toInt (b0 % 16) (by omega)
    generalize drOfNatT (b0 % 16) = x at hPW hxk
    rw [← hPW, ← hxk]
    cases x <;> first
      | (simp only [Gen.SessionMacs.MacRegionOps.check_tx_power, wrap_u8_dr]; exact pw_post _ (by decide) _ _)
      | (simp [linkAdrPw, hrel.cfg, Rx.cfgOf, Except.toOption, pure, Except.pure, show DR._15.toInt.toNat = 15 from rfl]; done)
  clear hPW hDRG
  have hack0 := cmAck_tie c.region $m1 $r DRG
  rw [hDm] at hack0
  simp only [Bool.false_eq_true, if_false, if_true] at hack0
  simp only [Gen.SessionMacs.MacRegionOps.channel_mask_validate, natsOf_maskOf, Option.pure_def, Option.bind_some,
    finishLinkAdrBlock, byteAt, List.getElem?_cons_zero, bind, Except.bind, pure, Except.pure]
  cases hpw : linkAdrPw c.cfg c.region.id (b0 % 16) with
  | error e =>
    rw [hpw] at hPm
    have : PW = none := by simpa [Except.toOption] using hPm
    simp only [linkAdrDecide_err_pw _ _ _ _ _ _ e hpw, this, Option.bind_none]
  | ok pwm =>
    rw [hpw] at hPm
    obtain ⟨pw, rfl, hpwm⟩ : ∃ pw, PW = some pw ∧ pw.map (fun o => o.map Int.toNat) = pwm := by
      cases PW with
      | none => simp [Except.toOption] at hPm
      | some pw => exact ⟨pw, rfl, by simpa [Except.toOption] using hPm⟩
    simp only [Option.bind_some]
    cases hack : linkAdrCmAck c.region $m1 $r (linkAdrDr c.cfg c.region.id (b0 / 16)) with
    | error e =>
      rw [hack] at hack0
      first
        | cases hack0
        | simp only [← hack0, linkAdrDecide_err_ack _ _ _ _ _ _ pwm e hpw hack, Except.toOption, Option.bind_none]
    | ok t11 =>
      rw [hack] at hack0
      first
        | (cases hack0)
        | rw [← hack0]
      all_goals (
        simp only [linkAdrDecide_ok _ _ _ _ _ _ pwm _ hpw hack, Except.toOption, Option.bind_some]
        refine adr_close gs full
          { cfg := decideCfg c.cfg _ (linkAdrDr c.cfg c.region.id (b0 / 16)) pwm,
            region := decideReg c.region $m1 _ (linkAdrDr c.cfg c.region.id (b0 / 16)) pwm, pending := c.pending, full := c.full }
          hrel.pending hrel.full hq _ _ ?_ nA _ (fun i s fl => rfl) _ ?_ _ ?_
        · rw [← hDm, ← hpwm]
          first
            | (cases DRG <;> cases pw <;> rfl)
            | (cases t11 <;> cases DRG <;> cases pw <;> rfl)
        · dsimp only
          rw [← hDm, ← hpwm]
          first
            | (cases DRG <;> cases pw <;> simp [decideCfg, Rx.cfgOf, hrel.cfg]; done)
            | (cases t11 <;> cases DRG <;> cases pw <;> simp [decideCfg, Rx.cfgOf, hrel.cfg])
        · dsimp only
          rw [← hDm, ← hpwm]
          first
            | (cases DRG <;> cases pw <;> simp [decideReg, Gen.SessionMacs.MacRegionOps.channel_mask_set, natsOf_maskOf]; done)
            | (cases t11 <;> cases DRG <;> cases pw <;>
                simp [decideReg, Gen.SessionMacs.MacRegionOps.channel_mask_set, natsOf_maskOf]))))

/-- the last LinkADRReq of a block (the next command is not a LinkADRReq; here: there is none) -/
theorem adr_step_last (snr : Int) (b0 b1 b2 b3 : Nat) (h0 : b0 < 256) : AdrStepTie snr [b0, b1, b2, b3] none := by
  adr_open
  cases hU : channelMaskUpdate c.region mask (b3 / 16 % 8) b1 b2 with
  | error e => simp [Except.toOption]
  | ok upd =>
    simp only [Except.toOption, Option.map_some, Option.bind_some]
    clear hU
    cases upd with
    | none => adr_tail mask true
    | some m' =>
      cases rfu with
      | false => adr_tail m' false
      | true => adr_tail m' true

/-- a LinkADRReq followed by another one: counter, working mask and RFU flag move, nothing else -/
theorem adr_step_more (snr : Int) (b0 b1 b2 b3 : Nat) (a : Gen.SessionMacs.LinkADRReqPayload) :
    AdrStepTie snr [b0, b1, b2, b3] (some (.LinkADRReq a)) := by
  adr_open
  cases hU : channelMaskUpdate c.region mask (b3 / 16 % 8) b1 b2 with
  | error e => simp [Except.toOption]
  | ok upd =>
    simp only [Except.toOption, Option.map_some, Option.bind_some]
    cases upd <;> cases rfu <;> adr_norm <;>
      exact ⟨gs.uplink.pending, g, by rw [hrel.full]; simp, hrel.pending, hrel.cfg, hq⟩

/-- the LinkADRReq arm for every lookahead: a lookahead that is not a LinkADRReq is the end of the block -/
theorem tieA_step_link_adr (snr : Int) (b0 b1 b2 b3 : Nat) (h0 : b0 < 256) (peek : Option Gen.SessionMacs.DownlinkMacCommand) :
    AdrStepTie snr [b0, b1, b2, b3] peek := by
  cases peek with
  | none => exact adr_step_last snr b0 b1 b2 b3 h0
  | some cmd =>
    cases cmd with
    | LinkADRReq a => exact adr_step_more snr b0 b1 b2 b3 a
    | _ => exact adr_step_last snr b0 b1 b2 b3 h0

#print axioms handleCmds_adr_cons
#print axioms tieA_step_link_adr
#print axioms push_loop
end TieA.Macs
