import LoraVerif.Model.Region
import LoraVerif.Gen.PlanSelectFn
import LoraVerif.Lemmas.RtLemmas
import LoraVerif.Props.TieA.ChannelMask
/-!
# Tie A for the channel selection: bridges and the generic lemmas about the translator's loop combinators

`Rt.rangeAnyM` against the model's `anyM`, `Rt.forRangeM` against `List.foldlM`, `Rt.rposition`, the mask
tests on natural indices, the draw of the abstract generator.
-/
set_option linter.unusedSimpArgs false
set_option linter.unusedVariables false
namespace TieA.Select
open Model Gen.Region TieA.CMask

/-! ## bridges -/

def chanOf (c : Gen.PlanSelectFn.Channel) : Channel :=
  { freq := c.frequency.toNat, drRange := c._datarates._0.toNat, dlFreq := c.dl_frequency.map Int.toNat }

/-- the model plan a generated `DynamicChannelPlan` stands for -/
def planOf (p : Gen.PlanSelectFn.DynamicChannelPlan) : DynPlan :=
  { channels := p.channels.map (Option.map chanOf), mask := natsOf p.channel_mask._0 }

/-- the region parameters of the generated code, from the model's tables (tied to the source by `Props/TieA/C09.lean`) -/
def regOf (r : RegionId) : Gen.PlanSelectFn.DynRegion := ⟨numJoinChannels r, datarates r⟩

/-- the generator of the generated code: the model's `draw` on the same stream -/
@[reducible] def rngOf {σ} (g : Rng σ) : Gen.PlanSelectFn.RngCore σ := ⟨fun s => (((draw g s).1 : Nat), (draw g s).2)⟩

theorem next_rngOf {σ} (g : Rng σ) (s : σ) :
    @Gen.PlanSelectFn.RngCore.next_u32 σ (rngOf g) s = ((((draw g s).1 : Nat) : Int), (draw g s).2) := rfl

@[reducible] def fuelOf (n : Nat) : Gen.PlanSelectFn.LoopFuel := ⟨n⟩

def txOf (t : Gen.PlanSelectFn.TxChannel) : TxChannel :=
  { dr := t.dr, datarate := t.datarate, frequency := t.frequency.toNat, rx1Frequency := t.rx1_frequency.toNat }

def frameOf : Gen.PlanSelectFn.Frame → FrameKind
  | .Join => .join
  | .Data => .data

/-- 16 slots, 9 mask bytes, each an octet, frequencies not negative: what the Rust types `[Option<Channel>; 16]`,
`ChannelMask<9>`, `u32` guarantee -/
def PlanWF (p : Gen.PlanSelectFn.DynamicChannelPlan) : Prop :=
  p.channels.length = 16 ∧ p.channel_mask._0.length = 9 ∧ Octets p.channel_mask._0 ∧
  ∀ c, some c ∈ p.channels → 0 ≤ c.frequency ∧ ∀ f, c.dl_frequency = some f → 0 ≤ f

/-! ## `Option` / `Except` plumbing -/

theorem bind_none_right {α β} (x : Option α) : (x.bind fun _ => (none : Option β)) = none := by
  cases x <;> rfl

theorem toOption_bind {α β} (x : M α) (f : α → M β) :
    (x >>= f).toOption = x.toOption.bind (fun a => (f a).toOption) := by
  cases x <;> rfl

theorem toOption_ok {α} (a : α) : (Except.ok a : M α).toOption = some a := rfl
theorem toOption_pure {α} (a : α) : (pure a : M α).toOption = some a := rfl
theorem toOption_error {α} (e : Fault) : (Except.error e : M α).toOption = none := rfl
theorem toOption_panic {α} (s : String) : (panic s : M α).toOption = none := rfl
theorem toOption_hang {α} (s : String) : (hang s : M α).toOption = none := rfl

/-! ## the loop combinators -/

theorem anyM_go {f : Int → Option Bool} {f' : Nat → M Bool} (n : Nat) :
    ∀ (k i : Nat), i + k = n → (∀ j, j < n → f (j : Int) = (f' j).toOption) →
      Rt.rangeAnyM.go f k (i : Int) = (anyM f' (List.range' i k)).toOption := by
  intro k
  induction k with
  | zero => intro i _ _; rfl
  | succ k ih =>
    intro i hi hf
    rw [List.range'_succ]
    simp only [Rt.rangeAnyM.go, anyM]
    rw [hf i (by omega)]
    cases hfi : f' i with
    | error e => rfl
    | ok b =>
      cases b
      · have := ih (i + 1) (by omega) hf
        simp only [Except.toOption, bind, Except.bind, Bool.false_eq_true, if_false]
        rw [show ((i : Int) + 1) = ((i + 1 : Nat) : Int) by omega, this]; rfl
      · rfl

/-- `(0..n).any(f)` of the translation is the model's `anyM` over `List.range n` when the bodies agree -/
theorem rangeAny_tie {f : Int → Option Bool} {f' : Nat → M Bool} (n : Nat)
    (hf : ∀ j, j < n → f (j : Int) = (f' j).toOption) :
    Rt.rangeAnyM 0 (n : Int) f = (anyM f' (List.range n)).toOption := by
  have := anyM_go (f := f) (f' := f') n n 0 (by omega) hf
  rw [List.range_eq_range']
  simpa [Rt.rangeAnyM] using this

theorem forRange_go {σ τ} {f : Int → σ → Option σ} {f' : τ → Nat → M τ} (br : σ → τ) (Inv : σ → Prop) (n : Nat)
    (hf : ∀ j s, j < n → Inv s → (f (j : Int) s).map br = (f' (br s) j).toOption ∧ ∀ s', f (j : Int) s = some s' → Inv s') :
    ∀ (k i : Nat) (s : σ), i + k = n → Inv s →
      (Rt.forRangeM.go f k (i : Int) s).map br = ((List.range' i k).foldlM f' (br s)).toOption ∧
      ∀ s', Rt.forRangeM.go f k (i : Int) s = some s' → Inv s' := by
  intro k
  induction k with
  | zero => intro i s _ hs; exact ⟨rfl, by intro s' h; cases h; exact hs⟩
  | succ k ih =>
    intro i s hi hs
    obtain ⟨h1, h2⟩ := hf i s (by omega) hs
    rw [List.range'_succ]
    simp only [Rt.forRangeM.go, List.foldlM_cons]
    cases hfi : f (i : Int) s with
    | none =>
      rw [hfi] at h1
      refine ⟨?_, by intro s' h; cases h⟩
      cases hm : f' (br s) i with
      | error e => rfl
      | ok t => rw [hm] at h1; cases h1
    | some s1 =>
      rw [hfi] at h1
      cases hm : f' (br s) i with
      | error e => rw [hm] at h1; cases h1
      | ok t =>
        rw [hm] at h1
        have ht : br s1 = t := by simpa [Except.toOption] using h1
        have := ih (i + 1) s1 (by omega) (h2 s1 hfi)
        simp only [bind, Except.bind]
        rw [show ((i : Int) + 1) = ((i + 1 : Nat) : Int) by omega, ← ht]
        exact this

/-- `for i in 0..n { body }` of the translation is the model's `foldlM` over `List.range n` when the bodies agree
under an invariant of the loop-carried state -/
theorem forRange_tie {σ τ} {f : Int → σ → Option σ} {f' : τ → Nat → M τ} (br : σ → τ) (Inv : σ → Prop) (n : Nat) (s : σ)
    (hs : Inv s)
    (hf : ∀ j s, j < n → Inv s → (f (j : Int) s).map br = (f' (br s) j).toOption ∧ ∀ s', f (j : Int) s = some s' → Inv s') :
    (Rt.forRangeM 0 (n : Int) f s).map br = ((List.range n).foldlM f' (br s)).toOption ∧
    ∀ s', Rt.forRangeM 0 (n : Int) f s = some s' → Inv s' := by
  have := forRange_go br Inv n hf n 0 s (by omega) hs
  rw [List.range_eq_range']
  simpa [Rt.forRangeM] using this

/-! ## masks and draws on natural indices -/

theorem natsOf_length (l : List Int) : (natsOf l).length = l.length := by simp [natsOf]

/-- `is_enabled(i).unwrap()` on a 9-byte mask of octets, at a natural index -/
theorem is_enabled_nat9 (m : Gen.ChannelMaskFn.ChannelMask) (hm : Octets m._0) (hl : m._0.length = 9) (i : Nat) :
    (Gen.ChannelMaskFn.ChannelMask.is_enabled m (i : Int)).bind id = (Mask.isEnabled (natsOf m._0) i).toOption := by
  by_cases hi : i ≤ 18446744073709551615
  · have := (is_enabled_tie m hm (by omega) (by unfold LenOk; omega) (i : Int) (by omega) (by omega)).1
    simpa using this
  · -- past `usize`: never produced by the code (an index is a `usize`); both sides answer "invalid index"
    have h1 : Mask.isEnabled (natsOf m._0) i = panic "ChannelMask::is_enabled unwrap" := by
      unfold Mask.isEnabled; rw [if_pos (by rw [natsOf_length]; omega)]
    rw [h1]
    unfold Gen.ChannelMaskFn.ChannelMask.is_enabled
    have e1 : Rt.ck .usize ((Int.ofNat m._0.length) * 8) = some 72 := by rw [hl]; decide
    have e2 : Rt.ck .usize ((72 : Int) - 1) = some 71 := by decide
    simp only [e1, e2, Option.bind_eq_bind, Option.bind_some]
    rw [if_pos (by simp; omega)]; rfl

theorem set_channel_nat9 (m : Gen.ChannelMaskFn.ChannelMask) (hm : Octets m._0) (i : Nat) (hi : i ≤ 18446744073709551615) (b : Bool) :
    (Gen.ChannelMaskFn.ChannelMask.set_channel m (i : Int) b).map (fun m' => natsOf m'._0) = (Mask.setChannel (natsOf m._0) i b).toOption := by
  have := set_channel_tie m hm (i : Int) (by omega) (by omega) b
  simpa using this

theorem idx_nat {α} (l : List α) (i : Nat) : Rt.idx l (i : Int) = l[i]? := by
  simp only [Rt.idx]; rw [if_neg (by omega), Int.toNat_natCast]

theorem andI_mask (e : Nat) (k : Nat) (hk : k < 64) : Rt.andI (e : Int) ((2 ^ k - 1 : Nat) : Int) = ((e % 2 ^ k : Nat) : Int) := by
  have h0 : (0 : Int) ≤ (e : Int) := by omega
  have h1 : (0 : Int) ≤ ((2 ^ k - 1 : Nat) : Int) := by omega
  simp only [Rt.andI, h0, h1, and_self, if_true, Int.toNat_natCast]
  rw [Nat.and_two_pow_sub_one_eq_mod]

theorem andI_3 (e : Nat) : Rt.andI (e : Int) 3 = ((e % 4 : Nat) : Int) := andI_mask e 2 (by decide)
theorem andI_7 (e : Nat) : Rt.andI (e : Int) 7 = ((e % 8 : Nat) : Int) := andI_mask e 3 (by decide)
theorem andI_15 (e : Nat) : Rt.andI (e : Int) 15 = ((e % 16 : Nat) : Int) := andI_mask e 4 (by decide)
theorem andI_31 (e : Nat) : Rt.andI (e : Int) 31 = ((e % 32 : Nat) : Int) := andI_mask e 5 (by decide)
theorem andI_63 (e : Nat) : Rt.andI (e : Int) 63 = ((e % 64 : Nat) : Int) := andI_mask e 6 (by decide)

theorem wrap_u8_nat (n : Nat) (h : n ≤ 255) : Rt.wrap .u8 (n : Int) = (n : Int) := Rt.wrap_id_u8 (by omega) (by omega)

theorem fuel_fuelOf (n : Nat) : @Gen.PlanSelectFn.LoopFuel.fuel (fuelOf n) = n := rfl

theorem loopM_zero {σ β} (step : σ → Option (σ ⊕ β)) (s : σ) : Rt.loopM 0 step s = none := rfl
theorem loopM_succ {σ β} (k : Nat) (step : σ → Option (σ ⊕ β)) (s : σ) :
    Rt.loopM (k + 1) step s = (match step s with | none => none | some (Sum.inl s') => Rt.loopM k step s' | some (Sum.inr b) => some b) := rfl

theorem bind_bind_id {α β} (x : Option (Option α)) (f : α → Option β) :
    (x.bind fun a => a.bind f) = (x.bind id).bind f := by
  cases x with
  | none => rfl
  | some a => rfl

/-- the join loop of the dynamic plans: `index = draw & 3; while index >= n { index = draw & 3 }` -/
theorem joinLoop_tie {σ} (g : Rng σ) (n : Nat) (step : σ × Int → Option ((σ × Int) ⊕ (σ × Int)))
    (hstep : ∀ s (i : Nat), step (s, (i : Int)) =
      some (if n ≤ i then Sum.inl ((draw g s).2, (((draw g s).1 % 4 : Nat) : Int)) else Sum.inr (s, (i : Int)))) :
    ∀ k s, Rt.loopM k step ((draw g s).2, (((draw g s).1 % 4 : Nat) : Int))
      = ((dynJoinLoop g n k s).toOption).map (fun o => (o.2, (o.1 : Int))) := by
  intro k
  induction k with
  | zero => intro s; rfl
  | succ k ih =>
    intro s
    rw [loopM_succ, hstep]
    unfold dynJoinLoop
    by_cases h : n ≤ (draw g s).1 % 4
    · have h' : (draw g s).1 % 4 ≥ n := h
      simp only [h, h', if_true]
      exact ih (draw g s).2
    · have h' : ¬ (draw g s).1 % 4 ≥ n := h
      simp only [h, h', if_false]
      rfl

/-- the data loop of the dynamic plans: `channel = random(); loop { if usable(channel) { return .. } channel = random() }`;
`fin` is what the code does with the channel found (it may still fail), `drawR` the regenerated `get_random_in_range` -/
theorem dataLoop_tie {σ P β γ} (g : Rng σ) (p : DynPlan) (gp : P) (drawR : σ → Option (Int × σ))
    (hdraw : ∀ s, drawR s = ((p.randomInRange g s).toOption).map (fun o => ((o.1 : Int), o.2)))
    (fin : Channel → σ → Option β)
    (step : P × σ × Int → Option ((P × σ × Int) ⊕ β))
    (hstep : ∀ s (i : Nat), step (gp, s, (i : Int)) =
      (match (p.usable i).toOption with
       | none => none
       | some (some c) => (fin c s).map Sum.inr
       | some none => (drawR s).map (fun o => Sum.inl (gp, o.2, o.1))))
    (K : Int × σ → Option γ) (K2 : β → Option γ) (k : Nat)
    (hK : ∀ c s1, K (c, s1) = (Rt.loopM k step (gp, s1, c)).bind K2) :
    ∀ s, (drawR s).bind K = (((dynDataLoop g p k s).toOption).bind (fun o => fin o.1 o.2)).bind K2 := by
  have main : ∀ k s, (drawR s).bind (fun o => Rt.loopM k step (gp, o.2, o.1))
      = ((dynDataLoop g p k s).toOption).bind (fun o => fin o.1 o.2) := by
    intro k
    induction k with
    | zero => intro s; simp only [loopM_zero, bind_none_right]; rfl
    | succ k ih =>
      intro s
      have ihs := ih
      rw [hdraw]
      unfold dynDataLoop
      cases hr : p.randomInRange g s with
      | error e => rfl
      | ok o =>
        obtain ⟨i, s1⟩ := o
        simp only [Except.toOption, Option.map_some, Option.bind_some, bind, Except.bind]
        rw [loopM_succ, hstep]
        cases hu : p.usable i with
        | error e => rfl
        | ok oc =>
          cases oc with
          | some c =>
            simp only [Except.toOption]
            cases hf : fin c s1 <;> simp [hf, pure, Except.pure]
          | none =>
            simp only [Except.toOption]
            have := ihs s1
            cases hd : drawR s1 with
            | none => rw [hd] at this; simp only [Option.map_none]; exact this
            | some o2 => rw [hd] at this; simp only [Option.map_some]; exact this
  intro s
  rw [← main k s, Option.bind_assoc]
  congr 1
  funext o
  obtain ⟨c, s1⟩ := o
  exact hK c s1

/-! ## robustness against harmless re-spellings of the source -/

theorem draw_lt {σ} (g : Rng σ) (s : σ) : (draw g s).1 < 4294967296 := by
  unfold draw; exact Nat.mod_lt _ (by decide)

theorem andI_comm (a b : Int) : Rt.andI a b = Rt.andI b a := by
  unfold Rt.andI
  by_cases h : 0 ≤ a ∧ 0 ≤ b
  · rw [if_pos h, if_pos ⟨h.2, h.1⟩, Nat.and_comm]
  · rw [if_neg h, if_neg (fun h' => h ⟨h'.2, h'.1⟩), Nat.and_comm]

theorem andI_3' (e : Nat) : Rt.andI 3 (e : Int) = ((e % 4 : Nat) : Int) := by rw [andI_comm]; exact andI_3 e
theorem andI_7' (e : Nat) : Rt.andI 7 (e : Int) = ((e % 8 : Nat) : Int) := by rw [andI_comm]; exact andI_7 e
theorem andI_15' (e : Nat) : Rt.andI 15 (e : Int) = ((e % 16 : Nat) : Int) := by rw [andI_comm]; exact andI_15 e
theorem andI_31' (e : Nat) : Rt.andI 31 (e : Int) = ((e % 32 : Nat) : Int) := by rw [andI_comm]; exact andI_31 e
theorem andI_63' (e : Nat) : Rt.andI 63 (e : Int) = ((e % 64 : Nat) : Int) := by rw [andI_comm]; exact andI_63 e

/-- `draw % 2^k` spelt with `%` instead of `&` -/
theorem remC_u32_pow (e : Nat) (he : e < 4294967296) (m : Nat) (hm : 0 < m) (hm2 : m ≤ 4294967296) :
    Rt.remC .u32 (e : Int) (m : Int) = some ((e % m : Nat) : Int) := by
  have hne : ((m : Int) ≠ 0) := by omega
  simp only [Rt.remC, hne, if_false]
  have : Int.tmod (e : Int) (m : Int) = (e : Int) % (m : Int) := by rw [Int.tmod_eq_emod_of_nonneg (by omega)]
  rw [this]
  have hlt : (e : Int) % (m : Int) < m := Int.emod_lt_of_pos _ (by omega)
  have hge : 0 ≤ (e : Int) % (m : Int) := Int.emod_nonneg _ hne
  rw [Rt.ck_u32 hge (by omega)]
  congr 1

theorem remC_u32_4 {σ} (g : Rng σ) (s : σ) : Rt.remC .u32 (((draw g s).1 : Nat) : Int) 4 = some (((draw g s).1 % 4 : Nat) : Int) :=
  remC_u32_pow _ (draw_lt g s) 4 (by decide) (by decide)

end TieA.Select
