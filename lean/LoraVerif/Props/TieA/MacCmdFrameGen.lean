import LoraVerif.Props.TieA.MacCmdFrame
import LoraVerif.RtBits
/-!
# Tie A for the framing step of ANY `CommandHandler` set: the set-independent part (builder F, C03)

Every unit `Gen.MacCmdFn<Set>` declares its own command enum, `ParseOne`, `NextItem`, `ParseError`, `MacCommands` and
its own copy of the source's `MacCommands::next` (for `T = <Set>`).  This file holds what does not depend on the set:

* `gNext P`: `MacCommands::next` in set-independent vocabulary over an arbitrary `parse_one` `P`; a per-set file
  proves in a dozen lines that its regenerated `next`, read through its `itemOf` / `stOf`, IS `gNext` of its regenerated
  `parse_one` (`next_bridge`);
* `gNext_tie`: if `P` is the model's `parseOne` over a table `T` (for every octet string whose length satisfies a
  downward-closed bound `Q` — `True` for the fixed-length sets, `< 2^64` where the arm computes `1 + rest.len()`), then
  `gNext P` is the model's `next` in every state;
* `runFuelOf`: the drain of ANY `next` function (type-generic), `runFuelOf_sim`: a step simulation lifts to the drain,
  `gRun_tie`: the drain of `gNext P` is the model's `runFuel`.
* the model's `parse_one` on a fixed-length / to-the-end command over ANY table (`model_fixed'`, `model_toEnd`).
-/
set_option linter.unusedSimpArgs false
set_option linter.unusedVariables false
namespace TieA.FrameGen
open MacCmd TieA.MacCmdFrame

abbrev Info := Nat × String × String × List Int
abbrev POne := Except MacCmd.ParseError (Info × Int)
abbrev GItem := Except MacCmd.ParseError Info
abbrev GSt := List Int × Bool

/-- `MacCommands::next` in set-independent vocabulary, over an arbitrary `parse_one` -/
def gNext (P : List Int → Option POne) (s : GSt) : Option (Option GItem × GSt) :=
  if s.2 || s.1.isEmpty then some (none, s)
  else
    match P s.1 with
    | none => none
    | some (.ok (c, n)) => (Rt.sliceFrom s.1 n).map (fun d' => (some (.ok c), (d', s.2)))
    | some (.error e) => some (some (.error e), (s.1, true))

/-- what a `for` loop over an iterator observes: `next` until it returns `None`, at most `fuel` times (items, final
state, budget exhausted); `none` = a panic -/
def runFuelOf {S I : Type} (next : S → Option (Option I × S)) : Nat → S → Option (List I × S × Bool)
  | 0, s => some ([], s, true)
  | fuel + 1, s =>
    match next s with
    | none => none
    | some (none, s') => some ([], s', false)
    | some (some it, s') =>
      match runFuelOf next fuel s' with
      | none => none
      | some r => some (it :: r.1, r.2.1, r.2.2)

/-- a step simulation (items through `f`, states through `g`) lifts to the drain -/
theorem runFuelOf_sim {S I S' I' : Type} (next : S → Option (Option I × S)) (next' : S' → Option (Option I' × S'))
    (f : I → I') (g : S → S') (h : ∀ s, (next s).map (fun r => (r.1.map f, g r.2)) = next' (g s)) :
    ∀ n s, (runFuelOf next n s).map (fun r => (r.1.map f, g r.2.1, r.2.2)) = runFuelOf next' n (g s) := by
  intro n
  induction n with
  | zero => intro s; simp [runFuelOf]
  | succ n ih =>
    intro s
    have hs := h s
    unfold runFuelOf
    cases hn : next s with
    | none => rw [hn] at hs; simp only [Option.map_none] at hs; rw [← hs]; rfl
    | some r =>
      obtain ⟨o, s'⟩ := r
      rw [hn] at hs
      simp only [Option.map_some] at hs
      rw [← hs]
      cases o with
      | none => rfl
      | some it =>
        have ih' := ih s'
        simp only [Option.map_some]
        cases hr : runFuelOf next n s' with
        | none => rw [hr] at ih'; simp only [Option.map_none] at ih'; rw [← ih']; rfl
        | some y => rw [hr] at ih'; simp only [Option.map_some] at ih'; rw [← ih']; rfl

/-- the model's `parse_one` on a fixed-length command, over any table -/
theorem model_fixed' (T : Table) (vl : VarLen) (cid len : Nat) (v pt : String) (rest : List Nat)
    (h : T.lookup cid = some ⟨cid, some len, v, pt⟩) :
    parseOne T vl (cid :: rest) =
      if rest.length < len then .ok (.error (.truncated cid)) else .ok (.ok (⟨cid, v, pt, rest.take len⟩, 1 + len)) := by
  unfold parseOne
  simp only [index, List.getElem?_cons_zero, Outcome.ok_bind, h, List.length_cons]
  by_cases hl : rest.length < len
  · have : rest.length + 1 < 1 + len := by omega
    simp only [hl, this, if_true]
  · have h1 : ¬ rest.length + 1 < 1 + len := by omega
    have h2 : 1 ≤ 1 + len ∧ 1 + len ≤ rest.length + 1 := by omega
    simp only [hl, h1, if_false, slice, List.length_cons, h2, and_self, if_true, Outcome.ok_bind, List.drop_succ_cons, List.drop_zero,
      Nat.add_sub_cancel_left]

theorem model_unknown' (T : Table) (vl : VarLen) (cid : Nat) (rest : List Nat) (h : T.lookup cid = none) :
    parseOne T vl (cid :: rest) = .ok (.error (.unknownCid cid)) := by
  unfold parseOne
  simp only [index, List.getElem?_cons_zero, Outcome.ok_bind, h]

/-- the model's `parse_one` on a variable-length command whose `len()` is `max(1, rest.len())` (the TS009 commands
that run to the end of the frame): a lone CID is `Truncated`, otherwise the whole rest is the payload -/
theorem model_toEnd (T : Table) (vl : VarLen) (cid : Nat) (v pt : String) (rest : List Nat)
    (h : T.lookup cid = some ⟨cid, none, v, pt⟩) (hv : ∀ r, vl pt r = .ok (max 1 r.length)) :
    parseOne T vl (cid :: rest) =
      if rest = [] then .ok (.error (.truncated cid)) else .ok (.ok (⟨cid, v, pt, rest⟩, 1 + rest.length)) := by
  unfold parseOne
  simp only [index, List.getElem?_cons_zero, Outcome.ok_bind, h, sliceFrom, List.length_cons]
  cases rest with
  | nil => simp
  | cons b t =>
    have h1 : 1 ≤ t.length + 1 + 1 := by omega
    have h2 : max 1 (t.length + 1) = t.length + 1 := by omega
    simp [h1, hv, h2, slice]

/-- the model's `next` never lengthens the slice -/
theorem next_len (T : Table) (vl : VarLen) (data : List Nat) (err : Bool) (o : Option Item) (s' : Iter)
    (h : MacCmd.next T vl ⟨data, err⟩ = .ok (o, s')) : s'.data.length ≤ data.length := by
  unfold MacCmd.next at h
  by_cases hc : (err || data.isEmpty) = true
  · simp only [hc, if_true, Outcome.ok.injEq, Prod.mk.injEq] at h
    rw [← h.2]; exact Nat.le_refl _
  · simp only [hc, Bool.false_eq_true, if_false] at h
    cases hm : parseOne T vl data with
    | panic s => rw [hm] at h; simp [bind, Outcome.bind] at h
    | ok x =>
      rw [hm] at h
      cases x with
      | error e =>
        simp only [bind, Outcome.bind, Outcome.ok.injEq, Prod.mk.injEq] at h
        rw [← h.2]; exact Nat.le_refl _
      | ok y =>
        obtain ⟨c, k⟩ := y
        simp only [bind, Outcome.bind, MacCmd.sliceFrom] at h
        by_cases hk : k ≤ data.length
        · simp only [hk, if_true, Outcome.ok.injEq, Prod.mk.injEq] at h
          rw [← h.2]; simp only [List.length_drop]; omega
        · simp [hk] at h

section tie
variable (T : Table) (vl : VarLen) (P : List Int → Option POne) (Q : Nat → Prop)

/-- if `P` is the model's `parseOne` over `T`, `gNext P` is the model's `next`, in every state -/
theorem gNext_tie (hP : ∀ data, Q data.length → P (ints data) = (toOpt (parseOne T vl data)).map oneUp)
    (data : List Nat) (err : Bool) (hq : Q data.length) :
    gNext P (ints data, err) = (toOpt (MacCmd.next T vl ⟨data, err⟩)).map (fun r => (r.1.map itemUp, stUp r.2)) := by
  unfold gNext MacCmd.next
  cases err with
  | true => simp [toOpt, stUp]
  | false =>
    cases data with
    | nil => simp [toOpt, stUp]
    | cons cid rest =>
      have he : (ints (cid :: rest)).isEmpty = false := by simp [ints]
      simp only [he, Bool.or_self, Bool.false_eq_true, if_false, List.isEmpty_cons]
      rw [hP _ hq]
      cases hm : parseOne T vl (cid :: rest) with
      | panic s => simp [toOpt, bind, Outcome.bind]
      | ok x =>
        cases x with
        | error e => simp [toOpt, bind, Outcome.bind, oneUp, itemUp, stUp]
        | ok y =>
          obtain ⟨mc, k⟩ := y
          simp only [toOpt, Option.map_some, oneUp, sliceFrom_ints, bind, Outcome.bind, MacCmd.sliceFrom, List.length_cons]
          by_cases hk : k ≤ rest.length + 1
          · simp [hk, toOpt, itemUp, stUp]
          · simp [hk, toOpt]

/-- … and the drain of `gNext P` is the model's `runFuel` -/
theorem gRun_tie (hQ : ∀ a b, a ≤ b → Q b → Q a)
    (hP : ∀ data, Q data.length → P (ints data) = (toOpt (parseOne T vl data)).map oneUp) :
    ∀ (fuel : Nat) (data : List Nat) (err : Bool), Q data.length →
      runFuelOf (gNext P) fuel (ints data, err) = (toOpt (runFuel T vl fuel ⟨data, err⟩)).map runUp := by
  intro fuel
  induction fuel with
  | zero => intro data err _; simp [runFuelOf, runFuel, toOpt, runUp, stUp]
  | succ fuel ih =>
    intro data err hq
    have h := gNext_tie T vl P Q hP data err hq
    unfold runFuelOf runFuel
    rw [h]
    cases hm : MacCmd.next T vl ⟨data, err⟩ with
    | panic s => simp [toOpt, bind, Outcome.bind]
    | ok x =>
      obtain ⟨o', s'⟩ := x
      have hl := next_len T vl data err o' s' hm
      cases o' with
      | none => simp [toOpt, bind, Outcome.bind, runUp, stUp]
      | some it' =>
        have ih' := ih s'.data s'.errored (hQ _ _ hl hq)
        simp only [toOpt, Option.map_some, stUp, bind, Outcome.bind]
        rw [ih']
        cases hr' : runFuel T vl fuel ⟨s'.data, s'.errored⟩ with
        | panic s => simp [toOpt, hr']
        | ok y' => simp [toOpt, runUp, hr']

end tie

theorem idx0' (cid : Nat) (rest : List Nat) : Rt.idx (ints (cid :: rest)) 0 = some (cid : Int) := idx0 cid rest

theorem sliceFrom1 (cid : Nat) (rest : List Nat) : Rt.sliceFrom (ints (cid :: rest)) 1 = some (ints rest) := by
  have := sliceFrom_ints (cid :: rest) 1
  simpa using this

theorem slice0 (r : List Nat) (k : Int) (hk : k = (r.length : Int)) : Rt.slice (ints r) 0 k = some (ints r) := by
  have := slice_ints r 0 r.length
  subst hk
  simpa using this

theorem ints_cons (a : Nat) (t : List Nat) : ints (a :: t) = (a : Int) :: ints t := rfl

end TieA.FrameGen

/-- one fixed-length arm of a regenerated `parse_one` against the model (`n`: the payload length of the arm); the
set's own readings (`infoOf`, `errOf`, `oneOf`) and the derive's `max_len` / `new_from_raw` are `[local simp]` at the call site -/
macro "arm_fixed" po:ident n:term : tactic =>
  `(tactic| (
    intro rest
    rw [TieA.FrameGen.model_fixed' _ _ _ _ _ _ rest (by rfl)]
    unfold $po
    simp only [TieA.FrameGen.idx0', Option.bind_eq_bind, Option.bind_some]
    by_cases hl : rest.length < $n
    · simp (disch := omega) [hl, Rt.ck_usize]
      rw [if_pos (by omega)]
      simp [TieA.MacCmdFrame.toOpt, TieA.MacCmdFrame.oneUp]
    · simp (disch := omega) [hl, Rt.ck_usize, TieA.MacCmdFrame.slice1 _ _ $n]
      rw [if_neg (by omega)]
      simp [TieA.MacCmdFrame.toOpt, TieA.MacCmdFrame.oneUp, TieA.MacCmdFrame.cmdUp]))

namespace TieA.FrameGen
theorem max1 (n : Nat) : max (1 : Int) ((n + 1 : Nat) : Int) = ((n + 1 : Nat) : Int) := by omega
end TieA.FrameGen

/-- one to-the-end arm (TS009: `len()` = `max(min_len(), self.0.len())`) of a regenerated `parse_one` against the model;
the hand-written `len` / `min_len` are `[local simp]` at the call site -/
macro "arm_toEnd" po:ident : tactic =>
  `(tactic| (
    intro rest hlen
    rw [TieA.FrameGen.model_toEnd _ _ _ _ _ rest (by rfl) (by intro r; rfl)]
    unfold $po
    simp only [TieA.FrameGen.idx0', TieA.FrameGen.sliceFrom1, Option.bind_eq_bind, Option.bind_some]
    cases rest with
    | nil => simp [TieA.MacCmdFrame.toOpt, TieA.MacCmdFrame.oneUp]
    | cons b t =>
      simp only [List.length_cons] at hlen
      simp (disch := omega) [TieA.FrameGen.ints_cons, Rt.ck_usize]
      have hm : max (1 : Int) ((t.length : Int) + 1) = (((b :: t).length : Nat) : Int) := by
        simp only [List.length_cons]; omega
      have hm' : max ((t.length : Int) + 1) (1 : Int) = (((b :: t).length : Nat) : Int) := by
        simp only [List.length_cons]; omega
      rw [if_neg (by omega)]
      simp only [hm, hm']
      have hs := TieA.FrameGen.slice0 (b :: t) (((b :: t).length : Nat) : Int) rfl
      simp only [TieA.FrameGen.ints_cons] at hs
      rw [hs]
      simp [TieA.MacCmdFrame.toOpt, TieA.MacCmdFrame.oneUp, TieA.MacCmdFrame.cmdUp, TieA.FrameGen.ints_cons]
      try omega))

namespace TieA.FrameGen
open MacCmd TieA.MacCmdFrame

/-- the model's `parse_one` on a lone CID of a variable-length command: `Truncated` (no `len()` helper is called) -/
theorem model_var_nil (T : Table) (vl : VarLen) (cid : Nat) (v pt : String)
    (h : T.lookup cid = some ⟨cid, none, v, pt⟩) :
    parseOne T vl [cid] = .ok (.error (.truncated cid)) := by
  unfold parseOne
  simp [index, h, sliceFrom]

/-- the model's `parse_one` on a TS005 `McGroupStatusAns`: the status octet decides the length -/
theorem model_status (T : Table) (vl : VarLen) (cid : Nat) (v pt : String) (b : Nat) (t : List Nat)
    (h : T.lookup cid = some ⟨cid, none, v, pt⟩)
    (hv : ∀ b t, vl pt (b :: t) = .ok (1 + mcGroupStatusRequiredLen b)) :
    parseOne T vl (cid :: b :: t) =
      if t.length + 1 < 1 + mcGroupStatusRequiredLen b then .ok (.error (.truncated cid))
      else .ok (.ok (⟨cid, v, pt, (b :: t).take (1 + mcGroupStatusRequiredLen b)⟩, 1 + (1 + mcGroupStatusRequiredLen b))) := by
  unfold parseOne
  have h1 : 1 ≤ t.length + 1 + 1 := by omega
  simp only [index, List.getElem?_cons_zero, Outcome.ok_bind, h, sliceFrom, List.length_cons, h1, if_true, List.drop_succ_cons,
    List.drop_zero, List.isEmpty_cons, Bool.false_eq_true, if_false, hv]
  by_cases hl : t.length + 1 < 1 + mcGroupStatusRequiredLen b
  · simp only [hl, if_true]
  · have h2 : 0 ≤ 1 + mcGroupStatusRequiredLen b ∧ 1 + mcGroupStatusRequiredLen b ≤ t.length + 1 := by omega
    simp only [hl, if_false, slice, List.length_cons, h2, and_self, if_true, Outcome.ok_bind, List.drop_zero, Nat.sub_zero]

theorem countOnesNat_zero : ∀ k, Rt.countOnesNat k 0 = 0 := by
  intro k
  induction k with
  | zero => rfl
  | succ k ih => simp [Rt.countOnesNat, ih]

theorem countOnes16 (m : Nat) (h : m < 16) : Rt.countOnesNat 128 m = popcount4 m := by
  have e : (128 : Nat) = 124 + 1 + 1 + 1 + 1 := rfl
  have st : ∀ k n, Rt.countOnesNat (k + 1) n = n % 2 + Rt.countOnesNat k (n / 2) := by
    intro k n
    by_cases hn : n = 0
    · subst hn; simp [Rt.countOnesNat, countOnesNat_zero]
    · simp [Rt.countOnesNat, hn]
  rw [e, st, st, st, st]
  unfold popcount4
  have h0 : m / 2 / 2 / 2 / 2 = 0 := by omega
  have h4 : m / 2 / 2 = m / 4 := by omega
  have h8 : m / 2 / 2 / 2 = m / 8 := by omega
  rw [h0, countOnesNat_zero]
  omega

/-- `(status & 0b1111).count_ones()` as generated is the model's `popcount4` of the low nibble -/
theorem countOnes_and15 (b : Nat) : Rt.countOnes (Rt.andI (b : Int) 15) = ((popcount4 (b &&& 0b1111) : Nat) : Int) := by
  have hm : b &&& 15 < 16 := Nat.lt_of_le_of_lt Nat.and_le_right (by decide)
  have hp : (0 : Int) ≤ (b : Int) ∧ (0 : Int) ≤ 15 := by omega
  unfold Rt.countOnes Rt.andI
  rw [if_pos hp]
  have := countOnes16 (b &&& 15) hm
  simp [this]

end TieA.FrameGen

namespace TieA.FrameGen
open TieA.MacCmdFrame
theorem slice0take (r : List Nat) (n : Nat) (k : Int) (hk : k = (n : Int)) (h : n ≤ r.length) :
    Rt.slice (ints r) 0 k = some (ints (r.take n)) := by
  have := slice_ints r 0 n
  subst hk
  simpa [h] using this
end TieA.FrameGen

namespace TieA.FrameGen
/-- `x + 1` and `1 + x` are the same checked sum (a re-spelling of the source must not matter) -/
theorem ck_add_one (t : Rt.ITy) (x : Int) : Rt.ck t (x + 1) = Rt.ck t (1 + x) := by rw [Int.add_comm]
end TieA.FrameGen

/-- the arm of TS005 `McGroupStatusAns` (`len()` = `1 + required_len(self.0[0])`) of a regenerated `parse_one` against the
model; the hand-written `len` / `required_len` / `McGroupStatusItem::len` are `[local simp]` at the call site -/
macro "arm_status" po:ident : tactic =>
  `(tactic| (
    intro rest hlen
    cases rest with
    | nil =>
      rw [TieA.FrameGen.model_var_nil _ _ _ _ _ (by rfl)]
      unfold $po
      simp [TieA.FrameGen.idx0', TieA.FrameGen.sliceFrom1, TieA.MacCmdFrame.toOpt, TieA.MacCmdFrame.oneUp]
    | cons b t =>
      rw [TieA.FrameGen.model_status _ _ _ _ _ b t (by rfl) (by intro b t; rfl)]
      unfold $po
      have hk : MacCmd.popcount4 (b &&& 0b1111) ≤ 4 := by unfold MacCmd.popcount4; omega
      simp only [MacCmd.mcGroupStatusRequiredLen, TieA.FrameGen.idx0', TieA.FrameGen.sliceFrom1, Option.bind_eq_bind, Option.bind_some]
      simp [TieA.FrameGen.ints_cons, TieA.FrameGen.countOnes_and15, Rt.idx, TieA.FrameGen.ck_add_one]
      by_cases hl : t.length + 1 < 1 + MacCmd.popcount4 (b &&& 15) * 5
      · simp (disch := omega) [Rt.ck_usize, hl]
        rw [if_pos (by omega)]
        simp [TieA.MacCmdFrame.toOpt, TieA.MacCmdFrame.oneUp]
      · have hs := TieA.FrameGen.slice0take (b :: t) (1 + MacCmd.popcount4 (b &&& 15) * 5)
          (1 + (MacCmd.popcount4 (b &&& 15) : Int) * 5) (by omega) (by simp only [List.length_cons]; omega)
        simp only [TieA.FrameGen.ints_cons] at hs
        simp (disch := omega) [Rt.ck_usize, hl]
        try rw [Int.add_comm ((MacCmd.popcount4 (b &&& 15) : Int) * 5) 1]
        rw [if_neg (by omega), hs]
        simp [TieA.MacCmdFrame.toOpt, TieA.MacCmdFrame.oneUp, TieA.MacCmdFrame.cmdUp, TieA.FrameGen.ints_cons]
        try omega))
