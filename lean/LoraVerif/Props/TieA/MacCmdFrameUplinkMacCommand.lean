import LoraVerif.Props.TieA.MacCmdFrameGen
import LoraVerif.Gen.MacCmdFnUplinkMacCommand
/-!
# Tie A for the framing step of `UplinkMacCommand` (builder F, C03)

`Gen/MacCmdFnUplinkMacCommand.lean` holds what `#[derive(CommandHandler)]` generates for `UplinkMacCommand` (payload structs,
`new_from_raw` / `max_len`, `MacCommandSet::parse_one`, expanded from the `quote!` templates with the `#[cmd]` attributes of
the current source), the hand-written `len()` helpers of its variable-length payloads, and the source's
`MacCommands::next` for `T = UplinkMacCommand`.  Here: the regenerated framing IS the hand model `Model/MacCmd.lean` over the
regenerated table `Gen.CmdTables.uplinkMacCommand`, for every octet stream.  The set-independent part of the argument is
`Props/TieA/MacCmdFrameGen.lean`; this file supplies the reading of the set's own types (`infoOf` …), one lemma per
`match` arm, and the bridge `next_bridge` (the unit's `next` is `gNext` of the unit's `parse_one`).
-/
set_option linter.unusedSimpArgs false
set_option linter.unusedVariables false
namespace TieA.FrameUplinkMacCommand
open MacCmd TieA.MacCmdFrame TieA.FrameGen

/-- the table of the set, regenerated from the `#[cmd]` attributes (C03's `T`) -/
def TS : Table := C03.T Gen.CmdTables.uplinkMacCommand

/-- what a yielded command is: CID, variant, payload type, the octets its payload view borrows -/
def infoOf : Gen.MacCmdFnUplinkMacCommand.UplinkMacCommand → Info
  | .LinkCheckReq _ => (2, "LinkCheckReq", "LinkCheckReqPayload", [])
  | .LinkADRAns p => (3, "LinkADRAns", "LinkADRAnsPayload", p._0)
  | .DutyCycleAns _ => (4, "DutyCycleAns", "DutyCycleAnsPayload", [])
  | .RXParamSetupAns p => (5, "RXParamSetupAns", "RXParamSetupAnsPayload", p._0)
  | .DevStatusAns p => (6, "DevStatusAns", "DevStatusAnsPayload", p._0)
  | .NewChannelAns p => (7, "NewChannelAns", "NewChannelAnsPayload", p._0)
  | .RXTimingSetupAns _ => (8, "RXTimingSetupAns", "RXTimingSetupAnsPayload", [])
  | .TXParamSetupAns _ => (9, "TXParamSetupAns", "TXParamSetupAnsPayload", [])
  | .DlChannelAns p => (10, "DlChannelAns", "DlChannelAnsPayload", p._0)
  | .DeviceTimeReq _ => (13, "DeviceTimeReq", "DeviceTimeReqPayload", [])

def errOf : Gen.MacCmdFnUplinkMacCommand.ParseError → MacCmd.ParseError
  | .UnknownCid c => .unknownCid c.toNat
  | .Truncated c => .truncated c.toNat

def oneOf : Gen.MacCmdFnUplinkMacCommand.ParseOne → POne
  | .Ok c n => .ok (infoOf c, n)
  | .Err e => .error (errOf e)

def itemOf : Gen.MacCmdFnUplinkMacCommand.NextItem → GItem
  | .Ok c => .ok (infoOf c)
  | .Err e => .error (errOf e)

def stOf (g : Gen.MacCmdFnUplinkMacCommand.MacCommands) : GSt := (g.data, g.errored)

/-- the regenerated `parse_one` in set-independent vocabulary -/
def P (d : List Int) : Option POne := (Gen.MacCmdFnUplinkMacCommand.UplinkMacCommand.parse_one d).map oneOf

attribute [local simp] infoOf errOf oneOf Gen.MacCmdFnUplinkMacCommand.LinkCheckReqPayload.new_from_raw Gen.MacCmdFnUplinkMacCommand.LinkCheckReqPayload.max_len Gen.MacCmdFnUplinkMacCommand.LinkADRAnsPayload.new_from_raw Gen.MacCmdFnUplinkMacCommand.LinkADRAnsPayload.max_len Gen.MacCmdFnUplinkMacCommand.DutyCycleAnsPayload.new_from_raw Gen.MacCmdFnUplinkMacCommand.DutyCycleAnsPayload.max_len Gen.MacCmdFnUplinkMacCommand.RXParamSetupAnsPayload.new_from_raw Gen.MacCmdFnUplinkMacCommand.RXParamSetupAnsPayload.max_len Gen.MacCmdFnUplinkMacCommand.DevStatusAnsPayload.new_from_raw Gen.MacCmdFnUplinkMacCommand.DevStatusAnsPayload.max_len Gen.MacCmdFnUplinkMacCommand.NewChannelAnsPayload.new_from_raw Gen.MacCmdFnUplinkMacCommand.NewChannelAnsPayload.max_len Gen.MacCmdFnUplinkMacCommand.RXTimingSetupAnsPayload.new_from_raw Gen.MacCmdFnUplinkMacCommand.RXTimingSetupAnsPayload.max_len Gen.MacCmdFnUplinkMacCommand.TXParamSetupAnsPayload.new_from_raw Gen.MacCmdFnUplinkMacCommand.TXParamSetupAnsPayload.max_len Gen.MacCmdFnUplinkMacCommand.DlChannelAnsPayload.new_from_raw Gen.MacCmdFnUplinkMacCommand.DlChannelAnsPayload.max_len Gen.MacCmdFnUplinkMacCommand.DeviceTimeReqPayload.new_from_raw Gen.MacCmdFnUplinkMacCommand.DeviceTimeReqPayload.max_len

theorem arm2 : ∀ rest : List Nat, (Gen.MacCmdFnUplinkMacCommand.UplinkMacCommand.parse_one (ints (2 :: rest))).map oneOf
    = (toOpt (parseOne TS varLen (2 :: rest))).map oneUp := by
  arm_fixed Gen.MacCmdFnUplinkMacCommand.UplinkMacCommand.parse_one 0

theorem arm3 : ∀ rest : List Nat, (Gen.MacCmdFnUplinkMacCommand.UplinkMacCommand.parse_one (ints (3 :: rest))).map oneOf
    = (toOpt (parseOne TS varLen (3 :: rest))).map oneUp := by
  arm_fixed Gen.MacCmdFnUplinkMacCommand.UplinkMacCommand.parse_one 1

theorem arm4 : ∀ rest : List Nat, (Gen.MacCmdFnUplinkMacCommand.UplinkMacCommand.parse_one (ints (4 :: rest))).map oneOf
    = (toOpt (parseOne TS varLen (4 :: rest))).map oneUp := by
  arm_fixed Gen.MacCmdFnUplinkMacCommand.UplinkMacCommand.parse_one 0

theorem arm5 : ∀ rest : List Nat, (Gen.MacCmdFnUplinkMacCommand.UplinkMacCommand.parse_one (ints (5 :: rest))).map oneOf
    = (toOpt (parseOne TS varLen (5 :: rest))).map oneUp := by
  arm_fixed Gen.MacCmdFnUplinkMacCommand.UplinkMacCommand.parse_one 1

theorem arm6 : ∀ rest : List Nat, (Gen.MacCmdFnUplinkMacCommand.UplinkMacCommand.parse_one (ints (6 :: rest))).map oneOf
    = (toOpt (parseOne TS varLen (6 :: rest))).map oneUp := by
  arm_fixed Gen.MacCmdFnUplinkMacCommand.UplinkMacCommand.parse_one 2

theorem arm7 : ∀ rest : List Nat, (Gen.MacCmdFnUplinkMacCommand.UplinkMacCommand.parse_one (ints (7 :: rest))).map oneOf
    = (toOpt (parseOne TS varLen (7 :: rest))).map oneUp := by
  arm_fixed Gen.MacCmdFnUplinkMacCommand.UplinkMacCommand.parse_one 1

theorem arm8 : ∀ rest : List Nat, (Gen.MacCmdFnUplinkMacCommand.UplinkMacCommand.parse_one (ints (8 :: rest))).map oneOf
    = (toOpt (parseOne TS varLen (8 :: rest))).map oneUp := by
  arm_fixed Gen.MacCmdFnUplinkMacCommand.UplinkMacCommand.parse_one 0

theorem arm9 : ∀ rest : List Nat, (Gen.MacCmdFnUplinkMacCommand.UplinkMacCommand.parse_one (ints (9 :: rest))).map oneOf
    = (toOpt (parseOne TS varLen (9 :: rest))).map oneUp := by
  arm_fixed Gen.MacCmdFnUplinkMacCommand.UplinkMacCommand.parse_one 0

theorem arm10 : ∀ rest : List Nat, (Gen.MacCmdFnUplinkMacCommand.UplinkMacCommand.parse_one (ints (10 :: rest))).map oneOf
    = (toOpt (parseOne TS varLen (10 :: rest))).map oneUp := by
  arm_fixed Gen.MacCmdFnUplinkMacCommand.UplinkMacCommand.parse_one 1

theorem arm13 : ∀ rest : List Nat, (Gen.MacCmdFnUplinkMacCommand.UplinkMacCommand.parse_one (ints (13 :: rest))).map oneOf
    = (toOpt (parseOne TS varLen (13 :: rest))).map oneUp := by
  arm_fixed Gen.MacCmdFnUplinkMacCommand.UplinkMacCommand.parse_one 0

theorem lookup_none (cid : Nat) (h : cid ∉ [2, 3, 4, 5, 6, 7, 8, 9, 10, 13]) : TS.lookup cid = none := by
  simp only [List.mem_cons, List.not_mem_nil, or_false, not_or] at h
  obtain ⟨h2, h3, h4, h5, h6, h7, h8, h9, h10, h13⟩ := h
  have e : ∀ k : Nat, cid ≠ k → (k == cid) = false := fun k hk => by simp; omega
  simp [TS, C03.T, Table.ofRows, Gen.CmdTables.uplinkMacCommand, Table.lookup, Entry.ofRow, List.find?, e _ h2, e _ h3, e _ h4, e _ h5, e _ h6, e _ h7, e _ h8, e _ h9, e _ h10, e _ h13]

theorem arm_unknown (cid : Nat) (h : cid ∉ [2, 3, 4, 5, 6, 7, 8, 9, 10, 13]) (rest : List Nat) :
    (Gen.MacCmdFnUplinkMacCommand.UplinkMacCommand.parse_one (ints (cid :: rest))).map oneOf = (toOpt (parseOne TS varLen (cid :: rest))).map oneUp := by
  rw [model_unknown' TS varLen cid rest (lookup_none cid h)]
  simp only [List.mem_cons, List.not_mem_nil, or_false, not_or] at h
  obtain ⟨h2, h3, h4, h5, h6, h7, h8, h9, h10, h13⟩ := h
  unfold Gen.MacCmdFnUplinkMacCommand.UplinkMacCommand.parse_one
  simp only [idx0', Option.bind_eq_bind, Option.bind_some]
  have e2 : ¬ ((cid : Int) = 2) := by omega
  have e3 : ¬ ((cid : Int) = 3) := by omega
  have e4 : ¬ ((cid : Int) = 4) := by omega
  have e5 : ¬ ((cid : Int) = 5) := by omega
  have e6 : ¬ ((cid : Int) = 6) := by omega
  have e7 : ¬ ((cid : Int) = 7) := by omega
  have e8 : ¬ ((cid : Int) = 8) := by omega
  have e9 : ¬ ((cid : Int) = 9) := by omega
  have e10 : ¬ ((cid : Int) = 10) := by omega
  have e13 : ¬ ((cid : Int) = 13) := by omega
  simp [e2, e3, e4, e5, e6, e7, e8, e9, e10, e13, h2, h3, h4, h5, h6, h7, h8, h9, h10, h13, toOpt, oneUp]

/-- the regenerated `parse_one` of `UplinkMacCommand` IS the model's `parseOne` over the regenerated table, on every octet string -/
theorem parse_one_tie (data : List Nat) :
    (Gen.MacCmdFnUplinkMacCommand.UplinkMacCommand.parse_one (ints data)).map oneOf = (toOpt (parseOne TS varLen data)).map oneUp := by
  cases data with
  | nil => rfl
  | cons cid rest =>
    by_cases h : cid ∈ [2, 3, 4, 5, 6, 7, 8, 9, 10, 13]
    · simp only [List.mem_cons, List.not_mem_nil, or_false] at h
      rcases h with rfl | rfl | rfl | rfl | rfl | rfl | rfl | rfl | rfl | rfl
      · exact arm2 rest
      · exact arm3 rest
      · exact arm4 rest
      · exact arm5 rest
      · exact arm6 rest
      · exact arm7 rest
      · exact arm8 rest
      · exact arm9 rest
      · exact arm10 rest
      · exact arm13 rest
    · exact arm_unknown cid h rest

/-- the length bound under which the regenerated `parse_one` cannot overflow `1 + len` -/
def Q (n : Nat) : Prop := True

theorem Q_down (a b : Nat) (h : a ≤ b) (hb : Q b) : Q a := by
  trivial

theorem P_tie (data : List Nat) (hq : Q data.length) : P (ints data) = (toOpt (parseOne TS varLen data)).map oneUp :=
  parse_one_tie data

/-- the unit's `MacCommands::next` (for `T = UplinkMacCommand`), read through `itemOf` / `stOf`, is `gNext` of the unit's `parse_one` -/
theorem next_bridge (s : Gen.MacCmdFnUplinkMacCommand.MacCommands) :
    (Gen.MacCmdFnUplinkMacCommand.MacCommands.next s).map (fun r => (r.1.map itemOf, stOf r.2)) = gNext P (stOf s) := by
  obtain ⟨d, e⟩ := s
  unfold Gen.MacCmdFnUplinkMacCommand.MacCommands.next gNext P
  cases e with
  | true => simp [stOf]
  | false =>
    cases d with
    | nil => simp [stOf]
    | cons a t =>
      simp only [stOf, List.isEmpty_cons, Bool.or_self, Bool.or_false, Bool.false_or, Bool.false_eq_true, if_false,
        Option.bind_eq_bind]
      cases hp : Gen.MacCmdFnUplinkMacCommand.UplinkMacCommand.parse_one (a :: t) with
      | none => simp
      | some r =>
        cases r with
        | Err x => simp [itemOf, stOf]
        | Ok c n =>
          simp only [Option.bind_some, Option.map_some, oneOf]
          cases hs : Rt.sliceFrom (a :: t) n with
          | none => simp
          | some d' => simp [itemOf, stOf]

def runOf (r : List Gen.MacCmdFnUplinkMacCommand.NextItem × Gen.MacCmdFnUplinkMacCommand.MacCommands × Bool) := (r.1.map itemOf, stOf r.2.1, r.2.2)

end TieA.FrameUplinkMacCommand

namespace C03
open MacCmd TieA.MacCmdFrame TieA.FrameGen TieA.FrameUplinkMacCommand

/-- builder F — the derive-generated `parse_one` of `UplinkMacCommand` (expanded from the `quote!` templates of the `CommandHandler`
derive with the `#[cmd(cid, len)]` attributes of the current source) IS the
model's `parseOne` over the regenerated table, for EVERY octet string: same variant, payload type, payload octets and
consumed count, `UnknownCid` / `Truncated` with the same CID on the same inputs, a panic exactly on the empty slice. -/
theorem tieA_parse_one_UplinkMacCommand (data : List Nat) :
    (Gen.MacCmdFnUplinkMacCommand.UplinkMacCommand.parse_one (ints data)).map TieA.FrameUplinkMacCommand.oneOf = (toOpt (parseOne TieA.FrameUplinkMacCommand.TS varLen data)).map oneUp :=
  TieA.FrameUplinkMacCommand.parse_one_tie data

/-- builder F — the source's `MacCommands::next` for `T = UplinkMacCommand` IS the model's `next` in every state. -/
theorem tieA_next_UplinkMacCommand (data : List Nat) (err : Bool) :
    (Gen.MacCmdFnUplinkMacCommand.MacCommands.next ⟨ints data, err⟩).map (fun r => (r.1.map TieA.FrameUplinkMacCommand.itemOf, TieA.FrameUplinkMacCommand.stOf r.2))
      = (toOpt (MacCmd.next TieA.FrameUplinkMacCommand.TS varLen ⟨data, err⟩)).map (fun r => (r.1.map itemUp, stUp r.2)) := by
  rw [TieA.FrameUplinkMacCommand.next_bridge]
  exact gNext_tie _ _ _ TieA.FrameUplinkMacCommand.Q TieA.FrameUplinkMacCommand.P_tie data err trivial

/-- builder F — the `UplinkMacCommand` iterator over `data`, drained through the REGENERATED `next` (`MacCommands::new(data)`, then
`next` until `None`, budget `data.len() + 2`), is the model's run, for every octet stream: the same items in the same order,
the same final state, within the same budget. -/
theorem tieA_iterator_UplinkMacCommand (data : List Nat) :
    (runFuelOf Gen.MacCmdFnUplinkMacCommand.MacCommands.next (data.length + 2) ⟨ints data, false⟩).map TieA.FrameUplinkMacCommand.runOf
      = (toOpt (run TieA.FrameUplinkMacCommand.TS varLen data)).map runUp := by
  have h := runFuelOf_sim Gen.MacCmdFnUplinkMacCommand.MacCommands.next (gNext TieA.FrameUplinkMacCommand.P) TieA.FrameUplinkMacCommand.itemOf TieA.FrameUplinkMacCommand.stOf
    TieA.FrameUplinkMacCommand.next_bridge (data.length + 2) ⟨ints data, false⟩
  unfold TieA.FrameUplinkMacCommand.runOf
  rw [h]
  exact gRun_tie _ _ _ TieA.FrameUplinkMacCommand.Q TieA.FrameUplinkMacCommand.Q_down TieA.FrameUplinkMacCommand.P_tie _ data false trivial

/-! non-vacuity: a concrete stream through the regenerated iterator (CID and payload octets of every item, `none` = the
error item; the unread rest and the `errored` flag; budget not exhausted) -/
example : (runFuelOf Gen.MacCmdFnUplinkMacCommand.MacCommands.next (4 + 2) ⟨[3, 7, 6, 85], false⟩).map
    (fun r => (r.1.map (fun i => (TieA.FrameUplinkMacCommand.itemOf i).toOption.map (fun c => (c.1, c.2.2.2))), TieA.FrameUplinkMacCommand.stOf r.2.1, r.2.2))
    = some ([some (3, [7]), none], ([6, 0x55], true), false) := by decide


#print axioms tieA_parse_one_UplinkMacCommand
#print axioms tieA_next_UplinkMacCommand
#print axioms tieA_iterator_UplinkMacCommand
end C03
