import LoraVerif.Props.TieA.PlanSelectFixed
import LoraVerif.Gen.JoinWalkFn
import LoraVerif.Lemmas.MacWFSelect
/-!
# Tie A for the bank walk of the fixed plans (C09 / C04): `JoinChannels::get_next_channel` and
`AvailableChannels::{is_exhausted, reset, get_next_channel_inner, get_next}` regenerated in `Gen/JoinWalkFn.lean`
(the entropy loop on `Rt.loopM`) EQUAL the model's walk (`Model/Region.lean`: `getNextChannel`, `availGetNext`,
`availGetNextInner`, `entropyLoop`); this discharges `JcOk` of `PlanSelectFixed.lean`.
-/
set_option linter.unusedSimpArgs false
set_option linter.unusedVariables false
namespace C09
open Model Gen.Region Gen.Modulation TieA.Select TieA.CMask

/-- what the Rust types and the walk's own invariant guarantee of an `AvailableChannels`: 9 mask octets, the previous
channel (a `u8`) one of the 72 channels -/
def AvWF (a : Gen.PlanSelectFn.AvailableChannels) : Prop :=
  a.data._0.length = 9 ∧ Octets a.data._0 ∧ ∀ p, a.previous = some p → 0 ≤ p ∧ p ≤ 71

theorem any_ne_zero (l : List Int) (h : Octets l) :
    l.any (fun b => decide (b ≠ 0)) = !((natsOf l).all (· == 0)) := by
  induction l with
  | nil => rfl
  | cons a t ih =>
    have ha := h a (by simp)
    have := ih (fun x hx => h x (by simp [hx]))
    simp only [natsOf, List.map_cons, List.any_cons, List.all_cons, Bool.not_and] at this ⊢
    rw [this]
    congr 1
    by_cases h0 : a = 0
    · subst h0; rfl
    · have : a.toNat ≠ 0 := by omega
      simp [h0, this]

/-- `AvailableChannels::is_exhausted` -/
theorem tieA_is_exhausted (a : Gen.PlanSelectFn.AvailableChannels) (h : Octets a.data._0) :
    Gen.JoinWalkFn.AvailableChannels.is_exhausted a = availIsExhausted (natsOf a.data._0) := by
  unfold Gen.JoinWalkFn.AvailableChannels.is_exhausted availIsExhausted Gen.JoinWalkFn.ChannelMask.as_ref
  rw [any_ne_zero _ h]
  cases (natsOf a.data._0).all (· == 0) <;> rfl

/-- the redraw of the entropy loop: a fresh draw after ten uses -/
def entNext {σ} (g : Rng σ) (e used : Nat) (s : σ) : Nat × Nat × σ :=
  if used == 10 then ((draw g s).1, 0, (draw g s).2) else (e, used, s)

theorem entNext_bound {σ} (g : Rng σ) (e used : Nat) (s : σ) (he : e < 4294967296) (hu : used ≤ 10) :
    (entNext g e used s).1 / 8 < 4294967296 ∧ (entNext g e used s).2.1 + 1 ≤ 10 := by
  unfold entNext
  by_cases h : used = 10
  · subst h
    have := draw_lt g s
    simp only [beq_self_eq_true, if_true]
    omega
  · have : (used == 10) = false := by simp [h]
    simp only [this]
    simp only [Bool.false_eq_true, if_false]
    omega

/-- the entropy loop: the carried variables are (self, rng, entropy, channel, entropy_used) with
`channel = entropy % 8 + bank * 8`; `step` is one turn of the regenerated loop -/
theorem entropyLoop_tie {σ A} (g : Rng σ) (avail : Mask) (bank : Nat) (a : A)
    (step : A × σ × Int × Int × Int → Option ((A × σ × Int × Int × Int) ⊕ (Int × A × σ)))
    (hstep : ∀ (s : σ) (e used : Nat), e < 4294967296 → used ≤ 10 →
      step (a, s, (e : Int), ((e % 8 + bank * 8 : Nat) : Int), (used : Int)) =
      (match (Mask.isEnabled avail (e % 8 + bank * 8)).toOption with
       | none => none
       | some true => some (Sum.inr (((e % 8 + bank * 8 : Nat) : Int), a, s))
       | some false =>
          some (Sum.inl (a, (entNext g e used s).2.2, (((entNext g e used s).1 / 8 : Nat) : Int),
            ((((entNext g e used s).1 / 8) % 8 + bank * 8 : Nat) : Int), (((entNext g e used s).2.1 + 1 : Nat) : Int))))) :
    ∀ k s (e used : Nat), e < 4294967296 → used ≤ 10 →
      Rt.loopM k step (a, s, (e : Int), ((e % 8 + bank * 8 : Nat) : Int), (used : Int))
        = ((entropyLoop g avail bank k e used s).toOption).map (fun o => ((o.1 : Int), a, o.2)) := by
  intro k
  induction k with
  | zero => intro s e used _ _; rfl
  | succ k ih =>
    intro s e used he hu
    rw [loopM_succ, hstep s e used he hu]
    unfold entropyLoop
    dsimp only
    cases hen : Mask.isEnabled avail (e % 8 + bank * 8) with
    | error err => rfl
    | ok b =>
      cases b with
      | true => rfl
      | false =>
        simp only [Except.toOption, bind, Except.bind, Bool.false_eq_true, if_false]
        obtain ⟨hb1, hb2⟩ := entNext_bound g e used s he hu
        have := ih (entNext g e used s).2.2 ((entNext g e used s).1 / 8) ((entNext g e used s).2.1 + 1) hb1 hb2
        rw [this]
        unfold entNext
        by_cases h : used = 10
        · subst h; rfl
        · have h' : (used == 10) = false := by simp [h]
          simp only [h', Bool.false_eq_true, if_false]
          rfl

theorem remC_u8_nat (n m : Nat) (hn : n ≤ 255) (hm : 0 < m) : Rt.remC .u8 (n : Int) (m : Int) = some ((n % m : Nat) : Int) := by
  have hne : ((m : Int) ≠ 0) := by omega
  simp only [Rt.remC, hne, if_false]
  have : Int.tmod (n : Int) (m : Int) = (n : Int) % (m : Int) := by rw [Int.tmod_eq_emod_of_nonneg (by omega)]
  rw [this]
  have hlt : (n : Int) % (m : Int) < m := Int.emod_lt_of_pos _ (by omega)
  have hge : 0 ≤ (n : Int) % (m : Int) := Int.emod_nonneg _ hne
  have hle : (n : Int) % (m : Int) ≤ n := by
    have := Nat.mod_le n m
    rw [show (n : Int) % (m : Int) = ((n % m : Nat) : Int) from rfl]; omega
  rw [Rt.ck_u8 hge (by omega)]
  congr 1

theorem wrap_u8_mod (n : Nat) : Rt.wrap .u8 (n : Int) = ((n % 256 : Nat) : Int) := by
  simp [Rt.wrap, Rt.ITy.bits, Rt.ITy.signed]

theorem shr3_u32 (e : Nat) : Rt.shrC .u32 (e : Int) 3 = some ((e / 8 : Nat) : Int) := by
  have : (0 : Int) ≤ 3 ∧ (3 : Int) < ((Rt.ITy.u32.bits : Nat) : Int) := by decide
  simp only [Rt.shrC, this, and_self, if_true]
  have : ((2 : Int) ^ (3 : Int).toNat) = 8 := by decide
  rw [this]; congr 1

theorem ok_bind {α β} (a : α) (f : α → M β) : ((Except.ok a : M α) >>= f) = f a := rfl

theorem wrap_and7 (n : Nat) : Rt.wrap .u8 (Rt.andI (n : Int) 7) = ((n % 8 : Nat) : Int) := by
  rw [andI_7, wrap_u8_nat _ (by omega)]

theorem ck_chan (n b : Nat) (hb : b ≤ 8) :
    Rt.ck .u8 (((n % 8 : Nat) : Int) + ((b * 8 : Nat) : Int)) = some ((n % 8 + b * 8 : Nat) : Int) := by
  rw [Rt.ck_u8 (by omega) (by omega)]; congr 1

theorem ck_i32_succ (u : Nat) (hu : u ≤ 10) : Rt.ck .i32 ((u : Int) + 1) = some ((u + 1 : Nat) : Int) := by
  rw [Rt.ck_i32 (by omega) (by omega)]; congr 1

/-- `AvailableChannels::get_next_channel_inner` (it leaves `self` as it was) -/
theorem tieA_get_next_channel_inner {σ} (g : Rng σ) (a : Gen.PlanSelectFn.AvailableChannels) (ha : AvWF a) (s : σ) :
    @Gen.JoinWalkFn.AvailableChannels.get_next_channel_inner σ (rngOf g) (fuelOf loopFuel) a s
      = ((availGetNextInner g (natsOf a.data._0) (a.previous.map Int.toNat) s).toOption).map (fun o => ((o.1 : Int), a, o.2)) := by
  obtain ⟨hl, ho, hp⟩ := ha
  unfold Gen.JoinWalkFn.AvailableChannels.get_next_channel_inner availGetNextInner
  generalize loopFuel = fuel
  cases hprev : a.previous with
  | none =>
    simp only [Option.map_none, next_rngOf, Option.pure_def, wrap_u8_mod, andI_63]
    rfl
  | some p =>
    obtain ⟨hp0, hp1⟩ := hp p hprev
    obtain ⟨pn, rfl⟩ : ∃ pn : Nat, p = (pn : Int) := ⟨p.toNat, by omega⟩
    have e1 : Rt.ck .u8 ((pn : Int) + 8) = some (((pn + 8 : Nat)) : Int) := by
      rw [Rt.ck_u8 (by omega) (by omega)]; rfl
    have e2 := remC_u8_nat (pn + 8) 72 (by omega) (by decide)
    simp only [Option.map_some, Int.toNat_natCast, Option.bind_eq_bind, Option.pure_def, e1, Option.bind_some, bind_bind_id]
    rw [show (72 : Int) = ((72 : Nat) : Int) from rfl, e2]
    simp only [Option.bind_some, is_enabled_nat9 a.data ho hl]
    generalize hnx : (pn + 8) % 72 = nx
    have hnx71 : nx ≤ 71 := by omega
    cases hen : Mask.isEnabled (natsOf a.data._0) nx with
    | error err => rfl
    | ok b =>
      cases b with
      | true => rfl
      | false =>
        have eb : Rt.ck .u8 (((nx / 8 : Nat) : Int) * 8) = some (((nx / 8 * 8 : Nat)) : Int) := by
          rw [Rt.ck_u8 (by omega) (by omega)]; congr 1
        have ec : Rt.ck .u8 ((((draw g s).1 % 8 : Nat) : Int) + ((nx / 8 * 8 : Nat) : Int))
            = some ((((draw g s).1 % 8 + nx / 8 * 8 : Nat)) : Int) := by
          rw [Rt.ck_u8 (by omega) (by omega)]; congr 1
        simp only [toOption_bind, toOption_ok, Option.bind_some, Bool.false_eq_true, if_false, next_rngOf,
          div8_u8 _ (Int.natCast_nonneg nx) (by omega : (nx : Int) ≤ 255), Int.toNat_natCast, eb, andI_7,
          wrap_u8_nat _ (by omega : (draw g s).1 % 8 ≤ 255), ec, fuel_fuelOf]
        have key : ∀ step hs, Rt.loopM fuel step
              (a, (draw g s).2, (((draw g s).1 : Nat) : Int), (((draw g s).1 % 8 + nx / 8 * 8 : Nat) : Int), (1 : Int))
            = ((entropyLoop g (natsOf a.data._0) (nx / 8) fuel (draw g s).1 1 (draw g s).2).toOption).map
                (fun o => ((o.1 : Int), a, o.2)) :=
          fun step hs => entropyLoop_tie g (natsOf a.data._0) (nx / 8) a step hs fuel (draw g s).2 (draw g s).1 1
            (draw_lt g s) (by decide)
        rw [key _ _]
        · cases (entropyLoop g (natsOf a.data._0) (nx / 8) fuel (draw g s).fst 1 (draw g s).snd).toOption <;> rfl
        · intro s' e used he hu
          simp only [is_enabled_nat9 a.data ho hl]
          cases hen2 : Mask.isEnabled (natsOf a.data._0) (e % 8 + nx / 8 * 8) with
          | error err => rfl
          | ok b =>
            cases b with
            | true => rfl
            | false =>
              unfold entNext
              by_cases h10 : used = 10
              · subst h10
                have hd : decide ((((10 : Nat)) : Int) = 10) = true := by decide
                have hd2 : decide ((10 : Int) = (((10 : Nat)) : Int)) = true := by decide
                have h01 : Rt.ck .i32 (0 + 1) = some (((0 + 1 : Nat)) : Int) := by decide
                simp only [Except.toOption, Option.bind_some, Bool.false_eq_true, if_false, beq_self_eq_true, if_true,
                  hd, hd2, shr3_u32, wrap_and7, ck_chan _ _ (by omega : nx / 8 ≤ 8), h01]
              · have h10' : ¬ ((used : Int) = 10) := by omega
                have h10'' : (used == 10) = false := by simp [h10]
                have h10r : ¬ ((10 : Int) = (used : Int)) := by omega
                simp only [Except.toOption, Option.bind_some, Bool.false_eq_true, if_false, h10', h10r, h10'', decide_false,
                  shr3_u32, wrap_and7, ck_chan _ _ (by omega : nx / 8 ≤ 8), ck_i32_succ used hu]

theorem reset_wf (a : Gen.PlanSelectFn.AvailableChannels) : AvWF (Gen.JoinWalkFn.AvailableChannels.reset a) := by
  refine ⟨rfl, ?_, fun p h => by cases h⟩
  intro x hx
  have : x = 255 := List.eq_of_mem_replicate hx
  omega

/-- `AvailableChannels::get_next`, for the `AvailableChannels` of any `JoinChannels` -/
theorem tieA_avail_get_next {σ} (g : Rng σ) (J : Gen.PlanSelectFn.JoinChannels) (ha : AvWF J.available_channels) (s : σ) :
    (@Gen.JoinWalkFn.AvailableChannels.get_next σ (rngOf g) (fuelOf loopFuel) J.available_channels s).map
        (fun o => (o.1.toNat, jcOf { J with available_channels := o.2.1 }, o.2.2))
      = (availGetNext g (jcOf J) s).toOption ∧
    ∀ o, @Gen.JoinWalkFn.AvailableChannels.get_next σ (rngOf g) (fuelOf loopFuel) J.available_channels s = some o →
      0 ≤ o.1 ∧ o.1 ≤ 71 ∧ AvWF o.2.1 := by
  have key : ∀ a0 : Gen.PlanSelectFn.AvailableChannels, AvWF a0 →
      (((@Gen.JoinWalkFn.AvailableChannels.get_next_channel_inner σ (rngOf g) (fuelOf loopFuel) a0 s).bind fun x =>
          (Gen.ChannelMaskFn.ChannelMask.set_channel x.2.1.data x.1 false).bind fun t2 =>
            some (x.1, ({ ({ x.2.1 with data := t2 } : Gen.PlanSelectFn.AvailableChannels) with previous := some x.1 } : Gen.PlanSelectFn.AvailableChannels), x.2.2)).map
        (fun o => (o.1.toNat, jcOf { J with available_channels := o.2.1 }, o.2.2))
      = (do
          let (ch, s) ← availGetNextInner g (natsOf a0.data._0) (a0.previous.map Int.toNat) s
          let avail ← Mask.setChannel (natsOf a0.data._0) ch false
          pure (ch, { jcOf J with avail := avail, availPrev := some ch }, s) : M _).toOption) ∧
      ∀ o, ((@Gen.JoinWalkFn.AvailableChannels.get_next_channel_inner σ (rngOf g) (fuelOf loopFuel) a0 s).bind fun x =>
          (Gen.ChannelMaskFn.ChannelMask.set_channel x.2.1.data x.1 false).bind fun t2 =>
            some (x.1, ({ ({ x.2.1 with data := t2 } : Gen.PlanSelectFn.AvailableChannels) with previous := some x.1 } : Gen.PlanSelectFn.AvailableChannels), x.2.2)) = some o →
        0 ≤ o.1 ∧ o.1 ≤ 71 ∧ AvWF o.2.1 := by
    intro a0 h0
    have hin := tieA_get_next_channel_inner g a0 h0 s
    obtain ⟨hl0, ho0, hp0⟩ := h0
    have hsafe := Model.availGetNextInner_safe g (natsOf a0.data._0) (a0.previous.map Int.toNat) s (by rw [natsOf_length]; exact hl0)
    rw [hin, toOption_bind]
    cases hm : availGetNextInner g (natsOf a0.data._0) (a0.previous.map Int.toNat) s with
    | error e => exact ⟨rfl, fun o h => by cases h⟩
    | ok v =>
      obtain ⟨ch, s1⟩ := v
      rw [hm] at hsafe
      have hch : ch < 72 := hsafe.1
      have hsc := set_channel_nat9 a0.data ho0 ch (by omega) false
      simp only [toOption_ok, Option.map_some, Option.bind_some, toOption_bind]
      cases hset : Gen.ChannelMaskFn.ChannelMask.set_channel a0.data (ch : Int) false with
      | none =>
        rw [hset] at hsc
        refine ⟨?_, fun o h => by cases h⟩
        simp only [Option.map_none] at hsc
        simp only [Option.bind_none, Option.map_none, ← hsc]
      | some m' =>
        rw [hset] at hsc
        simp only [Option.map_some] at hsc
        obtain ⟨hoct, hlen⟩ := set_channel_octets a0.data m' ho0 (ch : Int) (by omega) (by omega) false hset
        refine ⟨?_, ?_⟩
        · simp only [Option.bind_some, Option.map_some, ← hsc, toOption_pure, Int.toNat_natCast]
          rfl
        · intro o h
          simp only [Option.bind_some, Option.some.injEq] at h
          subst h
          refine ⟨by simp only; omega, by simp only; omega, hlen.trans hl0, hoct, ?_⟩
          intro p hp
          simp only [Option.some.injEq] at hp
          omega
  obtain ⟨hl, ho, hp⟩ := ha
  unfold Gen.JoinWalkFn.AvailableChannels.get_next availGetNext
  rw [tieA_is_exhausted _ ho]
  by_cases hex : availIsExhausted (natsOf J.available_channels.data._0) = true
  · have := key _ (reset_wf J.available_channels)
    have hj : availIsExhausted (jcOf J).avail = true := hex
    simp only [hex, hj, if_true, Option.bind_eq_bind, Option.pure_def]
    exact this
  · have := key _ ⟨hl, ho, hp⟩
    have hj : ¬ availIsExhausted (jcOf J).avail = true := hex
    simp only [hex, hj, if_false, Option.bind_eq_bind, Option.pure_def]
    exact this

/-- the instance of the abstract walk of `Gen.PlanSelectFn` that the regenerated walk provides -/
@[reducible] def walkOps {σ} (g : Rng σ) : Gen.PlanSelectFn.JcOps σ :=
  ⟨fun j s => @Gen.JoinWalkFn.JoinChannels.get_next_channel σ (rngOf g) (fuelOf loopFuel) j s⟩

/-- what the walk needs beyond `JcWF`: the attempt counter below `usize::MAX` (one more attempt does not overflow; the
model counts in `Nat`), and the walk's own invariant `AvWF` -/
def WalkWF (j : Gen.PlanSelectFn.JoinChannels) : Prop :=
  JcWF j ∧ j.num_retries < 18446744073709551615 ∧ AvWF j.available_channels

/-- the walk outside the biased phase: one more attempt, then `AvailableChannels::get_next` -/
theorem walk_nobias {σ} (g : Rng σ) (j : Gen.PlanSelectFn.JoinChannels) (hw : WalkWF j) (s : σ) :
    (((@Gen.JoinWalkFn.AvailableChannels.get_next σ (rngOf g) (fuelOf loopFuel) j.available_channels s).bind fun x =>
        some (x.1, ({ ({ j with num_retries := j.num_retries + 1 } : Gen.PlanSelectFn.JoinChannels) with available_channels := x.2.1 } : Gen.PlanSelectFn.JoinChannels), x.2.2)).map
          (fun o => (o.1.toNat, jcOf o.2.1, o.2.2))
      = (availGetNext g { jcOf j with numRetries := (jcOf j).numRetries + 1 } s).toOption) ∧
    ∀ o, ((@Gen.JoinWalkFn.AvailableChannels.get_next σ (rngOf g) (fuelOf loopFuel) j.available_channels s).bind fun x =>
        some (x.1, ({ ({ j with num_retries := j.num_retries + 1 } : Gen.PlanSelectFn.JoinChannels) with available_channels := x.2.1 } : Gen.PlanSelectFn.JoinChannels), x.2.2)) = some o →
      0 ≤ o.1 ∧ o.1 ≤ 255 ∧ JcWF o.2.1 := by
  obtain ⟨⟨h1, h2, h3, h4⟩, hn, ha⟩ := hw
  have := tieA_avail_get_next g ({ j with num_retries := j.num_retries + 1 } : Gen.PlanSelectFn.JoinChannels) ha s
  obtain ⟨t1, t2⟩ := this
  have hjc : jcOf ({ j with num_retries := j.num_retries + 1 } : Gen.PlanSelectFn.JoinChannels)
      = { jcOf j with numRetries := (jcOf j).numRetries + 1 } := by
    simp only [jcOf]
    congr 1
    omega
  rw [hjc] at t1
  simp only at t1 t2
  cases hgn : @Gen.JoinWalkFn.AvailableChannels.get_next σ (rngOf g) (fuelOf loopFuel) j.available_channels s with
  | none =>
    rw [hgn] at t1
    exact ⟨by simpa using t1, fun o h => by cases h⟩
  | some x =>
    rw [hgn] at t1
    obtain ⟨c0, c1, _⟩ := t2 x hgn
    refine ⟨by simpa using t1, fun o h => ?_⟩
    simp only [Option.bind_some, Option.some.injEq] at h
    subst h
    exact ⟨c0, by omega, h1, by simp only; omega, h3, h4⟩

/-- **the bank walk** `JoinChannels::get_next_channel` -/
theorem tieA_join_channels_walk {σ} (g : Rng σ) (j : Gen.PlanSelectFn.JoinChannels) (hw : WalkWF j) (s : σ) :
    JcOk g (walkOps g) j s := by
  have hnb := walk_nobias g j hw s
  obtain ⟨⟨h1, h2, h3, h4⟩, hn, ha⟩ := hw
  have eck : Rt.ck .usize (j.num_retries + 1) = some (j.num_retries + 1) := Rt.ck_usize (by omega) (by omega)
  unfold JcOk
  have eops : @Gen.PlanSelectFn.JcOps.get_next_channel σ (walkOps g) j s
      = @Gen.JoinWalkFn.JoinChannels.get_next_channel σ (rngOf g) (fuelOf loopFuel) j s := rfl
  rw [eops]
  unfold Gen.JoinWalkFn.JoinChannels.get_next_channel JoinChannels.getNextChannel
  cases hps : j.preferred_subband with
  | none =>
    simp only [jcOf, hps, Option.map_none, eck, Option.bind_eq_bind, Option.bind_some, Option.pure_def] at hnb ⊢
    exact hnb
  | some sb =>
    by_cases hlt : j.num_retries < j.max_retries
    · have hlt' : j.num_retries.toNat < j.max_retries.toNat := by omega
      have er : Rt.remC .u32 (((draw g s).1 : Nat) : Int) 8 = some ((((draw g s).1 % 8 : Nat)) : Int) :=
        remC_u32_pow _ (draw_lt g s) 8 (by decide) (by decide)
      have l1 : Rt.ck .usize (Rt.wrap .usize sb.toInt - 1) = some (((sb.toInt.toNat - 1) % 256 : Nat) : Int) := by
        cases sb <;> decide
      have l2 : Rt.ck .u8 (Rt.wrap .u8 ((((sb.toInt.toNat - 1) % 256 : Nat)) : Int) * 8)
          = some ((((sb.toInt.toNat - 1) % 256 * 8 : Nat)) : Int) := by
        cases sb <;> decide
      have l3 : (sb.toInt.toNat - 1) % 256 * 8 ≤ 56 := by cases sb <;> decide
      have l4 : Rt.ck .u8 ((((draw g s).1 % 8 : Nat) : Int) + ((((sb.toInt.toNat - 1) % 256 * 8 : Nat)) : Int))
          = some ((((draw g s).1 % 8 + (sb.toInt.toNat - 1) % 256 * 8 : Nat)) : Int) := by
        rw [Rt.ck_u8 (by omega) (by omega)]; congr 1
      have l5 : ¬ ((draw g s).1 % 8 + (sb.toInt.toNat - 1) % 256 * 8 > 255) := by omega
      simp only [jcOf, hps, Option.map_some, hlt, hlt', decide_true, if_true, eck, Option.bind_eq_bind, Option.bind_some,
        Option.pure_def, next_rngOf, er, l1, l2, wrap_u8_nat _ (by omega : (draw g s).1 % 8 ≤ 255), l4, l5, if_false]
      have hnn : (j.num_retries + 1).toNat = j.num_retries.toNat + 1 := by omega
      have hch63 : (draw g s).1 % 8 + (sb.toInt.toNat - 1) % 256 * 8 ≤ 63 := by omega
      generalize (draw g s).1 % 8 + (sb.toInt.toNat - 1) % 256 * 8 = ch at hch63 ⊢
      by_cases heq : j.num_retries + 1 = j.max_retries
      · have heq' : (j.num_retries.toNat + 1 == j.max_retries.toNat) = true := by
          have : j.num_retries.toNat + 1 = j.max_retries.toNat := by omega
          simp [this]
        simp only [heq, heq', decide_true, if_true]
        obtain ⟨hal, hao, hap⟩ := ha
        have hsc := set_channel_nat9 j.available_channels.data hao ch (by omega) false
        cases hset : Gen.ChannelMaskFn.ChannelMask.set_channel j.available_channels.data (ch : Int) false with
        | none =>
          rw [hset] at hsc
          simp only [Option.map_none] at hsc
          refine ⟨?_, fun o h => by simp at h⟩
          simp only [Option.bind_none, Option.map_none, toOption_bind, ← hsc]
        | some m' =>
          rw [hset] at hsc
          simp only [Option.map_some] at hsc
          refine ⟨?_, fun o h => ?_⟩
          · simp only [Option.bind_some, Option.map_some, toOption_bind, ← hsc, toOption_pure, Int.toNat_natCast,
              ← heq, hnn]
          · simp only [Option.bind_some, Option.some.injEq] at h
            subst h
            exact ⟨by simp only; omega, by simp only; omega, h1, by simp only; omega, by simp only; omega, by simp only; omega⟩
      · have heq' : (j.num_retries.toNat + 1 == j.max_retries.toNat) = false := by
          have : ¬ j.num_retries.toNat + 1 = j.max_retries.toNat := by omega
          simp [this]
        simp only [heq, heq', decide_false, Bool.false_eq_true, if_false, Option.bind_some, Option.map_some, toOption_bind,
          toOption_pure, Int.toNat_natCast, hnn]
        refine ⟨trivial, fun o h => ?_⟩
        simp only [Option.some.injEq] at h
        subst h
        exact ⟨by simp only; omega, by simp only; omega, h1, by simp only; omega, by simp only; omega, by simp only; omega⟩
    · have hlt' : ¬ j.num_retries.toNat < j.max_retries.toNat := by omega
      simp only [jcOf, hps, Option.map_some, hlt, hlt', decide_false, Bool.false_eq_true, if_false, eck, Option.bind_eq_bind,
        Option.bind_some, Option.pure_def] at hnb ⊢
      exact hnb

/-- the walk keeps its own invariant `AvWF` (so that `WalkWF` can be re-established for the next call; the counter
bound `num_retries < usize::MAX` is the caller's) -/
theorem tieA_walk_keeps_avwf {σ} (g : Rng σ) (j : Gen.PlanSelectFn.JoinChannels) (hw : WalkWF j) (s : σ) :
    ∀ o, @Gen.JoinWalkFn.JoinChannels.get_next_channel σ (rngOf g) (fuelOf loopFuel) j s = some o →
      AvWF o.2.1.available_channels := by
  obtain ⟨⟨h1, h2, h3, h4⟩, hn, ha⟩ := hw
  have hav := (tieA_avail_get_next g j ha s).2
  have eck : Rt.ck .usize (j.num_retries + 1) = some (j.num_retries + 1) := Rt.ck_usize (by omega) (by omega)
  have nb : ∀ (mk : Int × Gen.PlanSelectFn.AvailableChannels × σ → Gen.PlanSelectFn.JoinChannels)
      (hmk : ∀ x, (mk x).available_channels = x.2.1) (o : Int × Gen.PlanSelectFn.JoinChannels × σ),
      ((@Gen.JoinWalkFn.AvailableChannels.get_next σ (rngOf g) (fuelOf loopFuel) j.available_channels s).bind fun x =>
        some (x.1, mk x, x.2.2)) = some o → AvWF o.2.1.available_channels := by
    intro mk hmk o h
    cases hg : @Gen.JoinWalkFn.AvailableChannels.get_next σ (rngOf g) (fuelOf loopFuel) j.available_channels s with
    | none => rw [hg] at h; cases h
    | some x =>
      rw [hg] at h
      simp only [Option.bind_some, Option.some.injEq] at h
      subst h
      simp only [hmk]
      exact (hav x hg).2.2
  intro o
  unfold Gen.JoinWalkFn.JoinChannels.get_next_channel
  cases hps : j.preferred_subband with
  | none =>
    simp only [eck, Option.bind_eq_bind, Option.bind_some, Option.pure_def]
    refine nb _ ?_ o
    intro x; rfl
  | some sb =>
    by_cases hlt : j.num_retries < j.max_retries
    · have er : Rt.remC .u32 (((draw g s).1 : Nat) : Int) 8 = some ((((draw g s).1 % 8 : Nat)) : Int) :=
        remC_u32_pow _ (draw_lt g s) 8 (by decide) (by decide)
      have l1 : Rt.ck .usize (Rt.wrap .usize sb.toInt - 1) = some (((sb.toInt.toNat - 1) % 256 : Nat) : Int) := by
        cases sb <;> decide
      have l2 : Rt.ck .u8 (Rt.wrap .u8 ((((sb.toInt.toNat - 1) % 256 : Nat)) : Int) * 8)
          = some ((((sb.toInt.toNat - 1) % 256 * 8 : Nat)) : Int) := by
        cases sb <;> decide
      have l3 : (sb.toInt.toNat - 1) % 256 * 8 ≤ 56 := by cases sb <;> decide
      have l4 : Rt.ck .u8 ((((draw g s).1 % 8 : Nat) : Int) + ((((sb.toInt.toNat - 1) % 256 * 8 : Nat)) : Int))
          = some ((((draw g s).1 % 8 + (sb.toInt.toNat - 1) % 256 * 8 : Nat)) : Int) := by
        rw [Rt.ck_u8 (by omega) (by omega)]; congr 1
      simp only [hlt, decide_true, if_true, eck, Option.bind_eq_bind, Option.bind_some,
        Option.pure_def, next_rngOf, er, l1, l2, wrap_u8_nat _ (by omega : (draw g s).1 % 8 ≤ 255), l4]
      have hch63 : (draw g s).1 % 8 + (sb.toInt.toNat - 1) % 256 * 8 ≤ 63 := by omega
      generalize (draw g s).1 % 8 + (sb.toInt.toNat - 1) % 256 * 8 = ch at hch63 ⊢
      obtain ⟨hal, hao, hap⟩ := ha
      by_cases heq : j.num_retries + 1 = j.max_retries
      · simp only [heq, decide_true, if_true]
        cases hset : Gen.ChannelMaskFn.ChannelMask.set_channel j.available_channels.data (ch : Int) false with
        | none => intro h; simp at h
        | some m' =>
          obtain ⟨hoct, hlen⟩ := set_channel_octets j.available_channels.data m' hao (ch : Int) (by omega) (by omega) false hset
          intro h
          simp only [Option.bind_some, Option.some.injEq] at h
          subst h
          refine ⟨hlen.trans hal, hoct, ?_⟩
          intro p hp
          simp only [Option.some.injEq] at hp
          omega
      · simp only [heq, decide_false, Bool.false_eq_true, if_false, Option.bind_some, Option.some.injEq]
        intro h
        subst h
        exact ⟨hal, hao, hap⟩
    · simp only [hlt, decide_false, Bool.false_eq_true, if_false, eck, Option.bind_eq_bind, Option.bind_some, Option.pure_def]
      refine nb _ ?_ o
      intro x; rfl

/-! ## `JcOk` discharged: `FixedChannelPlan::select_tx_channel` run on the REGENERATED walk -/

/-- **the join request of a fixed plan, walk included**: `FixedChannelPlan::select_tx_channel(.., Frame::Join)` with the
regenerated `JoinChannels::get_next_channel` plugged in EQUALS the model's `selectTxChannel` — every plan, bias, used-set,
data rate, generator and stream (panic and fuel exhaustion agree up to `Except.toOption`) -/
theorem tieA_fixed_select_join {σ} (g : Rng σ) (rs : RegionState) (p : Gen.PlanSelectFn.FixedChannelPlan)
    (hplan : rs.plan = .fix (fixOf p)) (hw : WalkWF p.join_channels) (dr : DR) (s : σ) :
    (@Gen.PlanSelectFn.FixedChannelPlan.select_tx_channel σ (rngOf g) (fuelOf loopFuel) (fregOf rs.id) (walkOps g) p s dr .Join).map
        (fun o => (txOf o.1, { rs with plan := .fix (fixOf o.2.1) }, o.2.2))
      = (selectTxChannel g rs dr .join s).toOption :=
  tieA_fixed_select_join_partial g (walkOps g) rs p hplan hw.1 dr s (tieA_join_channels_walk g _ hw s)

/-- the data frame while the join bias is in force, walk included (the mask does not disable the biased channel) -/
theorem tieA_fixed_select_data_biased {σ} (g : Rng σ) (rs : RegionState) (p : Gen.PlanSelectFn.FixedChannelPlan)
    (hplan : rs.plan = .fix (fixOf p)) (hw : WalkWF p.join_channels) (hm : MaskWF p) (dr : DR) (s : σ)
    (hb : (jcOf p.join_channels).hasBiasAndNotExhausted = true)
    (hen : ∀ ch jc' s1, (jcOf p.join_channels).getNextChannel g s = .ok (ch, jc', s1) →
      Mask.isEnabled (natsOf p.channel_mask._0) ch ≠ .ok false) :
    (@Gen.PlanSelectFn.FixedChannelPlan.select_tx_channel σ (rngOf g) (fuelOf loopFuel) (fregOf rs.id) (walkOps g) p s dr .Data).map
        (fun o => (txOf o.1, { rs with plan := .fix (fixOf o.2.1) }, o.2.2))
      = (selectTxChannel g rs dr .data s).toOption :=
  tieA_fixed_select_data_biased_partial g (walkOps g) rs p hplan hw.1 hm dr s (tieA_join_channels_walk g _ hw s) hb hen

/-- **`C09.selectTxChannel_legal` carried over to the regenerated fixed-plan method, join requests**: whatever the
current source returns carries the region's data-rate entry for `tx.dr` and a legal channel of the plan it leaves -/
theorem tieA_fixed_select_join_legal {σ} (g : Rng σ) (rs : RegionState) (p p' : Gen.PlanSelectFn.FixedChannelPlan)
    (hplan : rs.plan = .fix (fixOf p)) (hw : WalkWF p.join_channels) (hwf : regionWF rs = true) (dr : DR)
    (s s' : σ) (tx : Gen.PlanSelectFn.TxChannel)
    (hsel : @Gen.PlanSelectFn.FixedChannelPlan.select_tx_channel σ (rngOf g) (fuelOf loopFuel) (fregOf rs.id) (walkOps g) p s dr .Join
      = some (tx, p', s')) :
    getDatarate rs.id tx.dr.toInt.toNat = some tx.datarate ∧
    ChannelLegal { rs with plan := .fix (fixOf p') } .join (txOf tx) ∧
    (isUplinkDatarate rs.id dr.toInt.toNat = true → isUplinkDatarate rs.id tx.dr.toInt.toNat = true) := by
  have h := tieA_fixed_select_join g rs p hplan hw dr s
  rw [hsel, Option.map_some] at h
  have hm := toOption_eq_some h.symm
  obtain ⟨_, h2, h3, h4⟩ := selectTxChannel_legal g rs _ dr .join s s' (txOf tx) hwf hm
  exact ⟨h2, h3, h4⟩

/-- **never spins, on the regenerated code (C04), join requests of a fixed plan**: in every well-formed state there is a
draw value under which the current source — walk and entropy loop included — returns: no panic, fuel not used up -/
theorem tieA_fixed_join_accept_nonempty (rs : RegionState) (p : Gen.PlanSelectFn.FixedChannelPlan)
    (hplan : rs.plan = .fix (fixOf p)) (hw : WalkWF p.join_channels) (hwf : regionWF rs = true) (dr : DR)
    (hdr : isUplinkDatarate rs.id dr.toInt.toNat = true) :
    ∃ v, v < 64 ∧ ∀ {σ : Type} (s : σ),
      (@Gen.PlanSelectFn.FixedChannelPlan.select_tx_channel σ (rngOf (constGen v)) (fuelOf loopFuel) (fregOf rs.id) (walkOps (constGen v)) p s dr .Join).isSome = true := by
  obtain ⟨v, hv, h⟩ := select_accept_nonempty rs dr .join hwf hdr
  refine ⟨v, hv, ?_⟩
  intro σ s
  obtain ⟨a, ha, _⟩ := h (σ := σ) s
  have ht := tieA_fixed_select_join (constGen v) rs p hplan hw dr s
  rw [ha] at ht
  cases hsel : @Gen.PlanSelectFn.FixedChannelPlan.select_tx_channel σ (rngOf (constGen v)) (fuelOf loopFuel) (fregOf rs.id) (walkOps (constGen v)) p s dr .Join with
  | none => rw [hsel] at ht; cases ht
  | some o => rfl

/-! ## non-vacuity, through the regenerated walk -/

/-- `WalkWF` holds of the example plan (bias on sub-band 2) and of a plan in the middle of an unbiased walk; the
regenerated walk, run on the counting generator, yields channel 13; with previous channel 11 and channel 19 used, the
entropy loop redraws in bank 2 (19 again, then 16) -/
example :
    WalkWF exPlanFix.join_channels ∧
    (@Gen.JoinWalkFn.JoinChannels.get_next_channel Nat (rngOf exGen) (fuelOf loopFuel) exPlanFix.join_channels 5).map
      (fun o => (o.1, o.2.1.num_retries, o.2.2)) = some (13, 1, 6) ∧
    (@Gen.JoinWalkFn.AvailableChannels.get_next Nat (rngOf exGen) (fuelOf 16)
        ⟨⟨[255, 255, 0xF7, 255, 255, 255, 255, 255, 255]⟩, some 11⟩ 3).map (fun o => (o.1, o.2.2)) = some (16, 4) := by
  refine ⟨⟨⟨by decide, by decide, by decide, by decide⟩, by decide, rfl, ?_, ?_⟩, ?_, ?_⟩
  · intro x hx
    have : x = 255 := List.eq_of_mem_replicate hx
    omega
  · intro p h; cases h
  all_goals decide +kernel

#print axioms tieA_is_exhausted
#print axioms tieA_get_next_channel_inner
#print axioms tieA_avail_get_next
#print axioms tieA_join_channels_walk
#print axioms tieA_walk_keeps_avwf
#print axioms tieA_fixed_select_join
#print axioms tieA_fixed_select_data_biased
#print axioms tieA_fixed_select_join_legal
#print axioms tieA_fixed_join_accept_nonempty

end C09
