import LoraVerif.Props.TieA.PlanSelectFixed
import LoraVerif.Gen.JoinWalkFn
/-!
# Tie A for the bank walk of the fixed plans (C09 / C04): `JoinChannels::get_next_channel` and
`AvailableChannels::{is_exhausted, reset, get_next_channel_inner, get_next}` regenerated in `Gen/JoinWalkFn.lean`
(the entropy loop on `Rt.loopM`) EQUAL the model's walk (`Model/Region.lean`: `getNextChannel`, `availGetNext`,
`availGetNextInner`, `entropyLoop`); this discharges `JcOk` of `PlanSelectFixed.lean`.
-/
set_option linter.unusedSimpArgs false
set_option linter.unusedVariables false
namespace C09
open Model Gen.Region Gen.Modulation TieA.Select TieA.CMask

/-- what the Rust types and the walk's own invariant guarantee of an `AvailableChannels`: 9 mask octets, the previous
channel (a `u8`) one of the 72 channels -/
def AvWF (a : Gen.PlanSelectFn.AvailableChannels) : Prop :=
  a.data._0.length = 9 ∧ Octets a.data._0 ∧ ∀ p, a.previous = some p → 0 ≤ p ∧ p ≤ 71

theorem any_ne_zero (l : List Int) (h : Octets l) :
    l.any (fun b => decide (b ≠ 0)) = !((natsOf l).all (· == 0)) := by
  induction l with
  | nil => rfl
  | cons a t ih =>
    have ha := h a (by simp)
    have := ih (fun x hx => h x (by simp [hx]))
    simp only [natsOf, List.map_cons, List.any_cons, List.all_cons, Bool.not_and] at this ⊢
    rw [this]
    congr 1
    by_cases h0 : a = 0
    · subst h0; rfl
    · have : a.toNat ≠ 0 := by omega
      simp [h0, this]

/-- `AvailableChannels::is_exhausted` -/
theorem tieA_is_exhausted (a : Gen.PlanSelectFn.AvailableChannels) (h : Octets a.data._0) :
    Gen.JoinWalkFn.AvailableChannels.is_exhausted a = availIsExhausted (natsOf a.data._0) := by
  unfold Gen.JoinWalkFn.AvailableChannels.is_exhausted availIsExhausted Gen.JoinWalkFn.ChannelMask.as_ref
  rw [any_ne_zero _ h]
  cases (natsOf a.data._0).all (· == 0) <;> rfl

/-- the redraw of the entropy loop: a fresh draw after ten uses -/
def entNext {σ} (g : Rng σ) (e used : Nat) (s : σ) : Nat × Nat × σ :=
  if used == 10 then ((draw g s).1, 0, (draw g s).2) else (e, used, s)

theorem entNext_bound {σ} (g : Rng σ) (e used : Nat) (s : σ) (he : e < 4294967296) (hu : used ≤ 10) :
    (entNext g e used s).1 / 8 < 4294967296 ∧ (entNext g e used s).2.1 + 1 ≤ 10 := by
  unfold entNext
  by_cases h : used = 10
  · subst h
    have := draw_lt g s
    simp only [beq_self_eq_true, if_true]
    omega
  · have : (used == 10) = false := by simp [h]
    simp only [this]
    simp only [Bool.false_eq_true, if_false]
    omega

/-- the entropy loop: the carried variables are (self, rng, entropy, channel, entropy_used) with
`channel = entropy % 8 + bank * 8`; `step` is one turn of the regenerated loop -/
theorem entropyLoop_tie {σ A} (g : Rng σ) (avail : Mask) (bank : Nat) (a : A)
    (step : A × σ × Int × Int × Int → Option ((A × σ × Int × Int × Int) ⊕ (Int × A × σ)))
    (hstep : ∀ (s : σ) (e used : Nat), e < 4294967296 → used ≤ 10 →
      step (a, s, (e : Int), ((e % 8 + bank * 8 : Nat) : Int), (used : Int)) =
      (match (Mask.isEnabled avail (e % 8 + bank * 8)).toOption with
       | none => none
       | some true => some (Sum.inr (((e % 8 + bank * 8 : Nat) : Int), a, s))
       | some false =>
          some (Sum.inl (a, (entNext g e used s).2.2, (((entNext g e used s).1 / 8 : Nat) : Int),
            ((((entNext g e used s).1 / 8) % 8 + bank * 8 : Nat) : Int), (((entNext g e used s).2.1 + 1 : Nat) : Int))))) :
    ∀ k s (e used : Nat), e < 4294967296 → used ≤ 10 →
      Rt.loopM k step (a, s, (e : Int), ((e % 8 + bank * 8 : Nat) : Int), (used : Int))
        = ((entropyLoop g avail bank k e used s).toOption).map (fun o => ((o.1 : Int), a, o.2)) := by
  intro k
  induction k with
  | zero => intro s e used _ _; rfl
  | succ k ih =>
    intro s e used he hu
    rw [loopM_succ, hstep s e used he hu]
    unfold entropyLoop
    dsimp only
    cases hen : Mask.isEnabled avail (e % 8 + bank * 8) with
    | error err => rfl
    | ok b =>
      cases b with
      | true => rfl
      | false =>
        simp only [Except.toOption, bind, Except.bind, Bool.false_eq_true, if_false]
        obtain ⟨hb1, hb2⟩ := entNext_bound g e used s he hu
        have := ih (entNext g e used s).2.2 ((entNext g e used s).1 / 8) ((entNext g e used s).2.1 + 1) hb1 hb2
        rw [this]
        unfold entNext
        by_cases h : used = 10
        · subst h; rfl
        · have h' : (used == 10) = false := by simp [h]
          simp only [h', Bool.false_eq_true, if_false]
          rfl

theorem remC_u8_nat (n m : Nat) (hn : n ≤ 255) (hm : 0 < m) : Rt.remC .u8 (n : Int) (m : Int) = some ((n % m : Nat) : Int) := by
  have hne : ((m : Int) ≠ 0) := by omega
  simp only [Rt.remC, hne, if_false]
  have : Int.tmod (n : Int) (m : Int) = (n : Int) % (m : Int) := by rw [Int.tmod_eq_emod_of_nonneg (by omega)]
  rw [this]
  have hlt : (n : Int) % (m : Int) < m := Int.emod_lt_of_pos _ (by omega)
  have hge : 0 ≤ (n : Int) % (m : Int) := Int.emod_nonneg _ hne
  have hle : (n : Int) % (m : Int) ≤ n := by
    have := Nat.mod_le n m
    rw [show (n : Int) % (m : Int) = ((n % m : Nat) : Int) from rfl]; omega
  rw [Rt.ck_u8 hge (by omega)]
  congr 1

theorem wrap_u8_mod (n : Nat) : Rt.wrap .u8 (n : Int) = ((n % 256 : Nat) : Int) := by
  simp [Rt.wrap, Rt.ITy.bits, Rt.ITy.signed]

theorem shr3_u32 (e : Nat) : Rt.shrC .u32 (e : Int) 3 = some ((e / 8 : Nat) : Int) := by
  have : (0 : Int) ≤ 3 ∧ (3 : Int) < ((Rt.ITy.u32.bits : Nat) : Int) := by decide
  simp only [Rt.shrC, this, and_self, if_true]
  have : ((2 : Int) ^ (3 : Int).toNat) = 8 := by decide
  rw [this]; congr 1

theorem ok_bind {α β} (a : α) (f : α → M β) : ((Except.ok a : M α) >>= f) = f a := rfl

theorem wrap_and7 (n : Nat) : Rt.wrap .u8 (Rt.andI (n : Int) 7) = ((n % 8 : Nat) : Int) := by
  rw [andI_7, wrap_u8_nat _ (by omega)]

theorem ck_chan (n b : Nat) (hb : b ≤ 8) :
    Rt.ck .u8 (((n % 8 : Nat) : Int) + ((b * 8 : Nat) : Int)) = some ((n % 8 + b * 8 : Nat) : Int) := by
  rw [Rt.ck_u8 (by omega) (by omega)]; congr 1

theorem ck_i32_succ (u : Nat) (hu : u ≤ 10) : Rt.ck .i32 ((u : Int) + 1) = some ((u + 1 : Nat) : Int) := by
  rw [Rt.ck_i32 (by omega) (by omega)]; congr 1

/-- `AvailableChannels::get_next_channel_inner` (it leaves `self` as it was) -/
theorem tieA_get_next_channel_inner {σ} (g : Rng σ) (a : Gen.PlanSelectFn.AvailableChannels) (ha : AvWF a) (s : σ) :
    @Gen.JoinWalkFn.AvailableChannels.get_next_channel_inner σ (rngOf g) (fuelOf loopFuel) a s
      = ((availGetNextInner g (natsOf a.data._0) (a.previous.map Int.toNat) s).toOption).map (fun o => ((o.1 : Int), a, o.2)) := by
  obtain ⟨hl, ho, hp⟩ := ha
  unfold Gen.JoinWalkFn.AvailableChannels.get_next_channel_inner availGetNextInner
  generalize loopFuel = fuel
  cases hprev : a.previous with
  | none =>
    simp only [Option.map_none, next_rngOf, Option.pure_def, wrap_u8_mod, andI_63]
    rfl
  | some p =>
    obtain ⟨hp0, hp1⟩ := hp p hprev
    obtain ⟨pn, rfl⟩ : ∃ pn : Nat, p = (pn : Int) := ⟨p.toNat, by omega⟩
    have e1 : Rt.ck .u8 ((pn : Int) + 8) = some (((pn + 8 : Nat)) : Int) := by
      rw [Rt.ck_u8 (by omega) (by omega)]; rfl
    have e2 := remC_u8_nat (pn + 8) 72 (by omega) (by decide)
    simp only [Option.map_some, Int.toNat_natCast, Option.bind_eq_bind, Option.pure_def, e1, Option.bind_some, bind_bind_id]
    rw [show (72 : Int) = ((72 : Nat) : Int) from rfl, e2]
    simp only [Option.bind_some, is_enabled_nat9 a.data ho hl]
    generalize hnx : (pn + 8) % 72 = nx
    have hnx71 : nx ≤ 71 := by omega
    cases hen : Mask.isEnabled (natsOf a.data._0) nx with
    | error err => rfl
    | ok b =>
      cases b with
      | true => rfl
      | false =>
        have eb : Rt.ck .u8 (((nx / 8 : Nat) : Int) * 8) = some (((nx / 8 * 8 : Nat)) : Int) := by
          rw [Rt.ck_u8 (by omega) (by omega)]; congr 1
        have ec : Rt.ck .u8 ((((draw g s).1 % 8 : Nat) : Int) + ((nx / 8 * 8 : Nat) : Int))
            = some ((((draw g s).1 % 8 + nx / 8 * 8 : Nat)) : Int) := by
          rw [Rt.ck_u8 (by omega) (by omega)]; congr 1
        simp only [toOption_bind, toOption_ok, Option.bind_some, Bool.false_eq_true, if_false, next_rngOf,
          div8_u8 _ (Int.natCast_nonneg nx) (by omega : (nx : Int) ≤ 255), Int.toNat_natCast, eb, andI_7,
          wrap_u8_nat _ (by omega : (draw g s).1 % 8 ≤ 255), ec, fuel_fuelOf]
        have key : ∀ step hs, Rt.loopM fuel step
              (a, (draw g s).2, (((draw g s).1 : Nat) : Int), (((draw g s).1 % 8 + nx / 8 * 8 : Nat) : Int), (1 : Int))
            = ((entropyLoop g (natsOf a.data._0) (nx / 8) fuel (draw g s).1 1 (draw g s).2).toOption).map
                (fun o => ((o.1 : Int), a, o.2)) :=
          fun step hs => entropyLoop_tie g (natsOf a.data._0) (nx / 8) a step hs fuel (draw g s).2 (draw g s).1 1
            (draw_lt g s) (by decide)
        rw [key _ _]
        · cases (entropyLoop g (natsOf a.data._0) (nx / 8) fuel (draw g s).fst 1 (draw g s).snd).toOption <;> rfl
        · intro s' e used he hu
          simp only [is_enabled_nat9 a.data ho hl]
          cases hen2 : Mask.isEnabled (natsOf a.data._0) (e % 8 + nx / 8 * 8) with
          | error err => rfl
          | ok b =>
            cases b with
            | true => rfl
            | false =>
              unfold entNext
              by_cases h10 : used = 10
              · subst h10
                have hd : decide ((((10 : Nat)) : Int) = 10) = true := by decide
                have h01 : Rt.ck .i32 (0 + 1) = some (((0 + 1 : Nat)) : Int) := by decide
                simp only [Except.toOption, Option.bind_some, Bool.false_eq_true, if_false, beq_self_eq_true, if_true,
                  hd, shr3_u32, wrap_and7, ck_chan _ _ (by omega : nx / 8 ≤ 8), h01]
              · have h10' : ¬ ((used : Int) = 10) := by omega
                have h10'' : (used == 10) = false := by simp [h10]
                simp only [Except.toOption, Option.bind_some, Bool.false_eq_true, if_false, h10', h10'', decide_false,
                  shr3_u32, wrap_and7, ck_chan _ _ (by omega : nx / 8 ≤ 8), ck_i32_succ used hu]

end C09
