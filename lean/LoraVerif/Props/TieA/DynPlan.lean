import LoraVerif.Model.Mac
import LoraVerif.Gen.DynPlanFn
import LoraVerif.Lemmas.RtLemmas
import LoraVerif.Props.TieA.Tactics
/-!
# Tie A for whole stateful methods: `DynamicChannelPlan::handle_new_channel` and `channel_dl_update`
(NewChannelReq / DlChannelReq on dynamic plans, C08 / C10)

`Gen/DynPlanFn.lean` holds the state-passing translation of the CURRENT source of the two handlers
(`RegionHandler for DynamicChannelPlan<R>`), with `DataRateRange::{min,max}_data_rate` and
`Channel::new_with_dr`.  Abstract in the translation: the region type's parameters (`R::NUM_JOIN_CHANNELS`,
`R::datarates()`, the band test behind `frequency_valid` — instantiated here with the model's, which
`Props/TieA/C09.lean`, `Band.lean`, `NewChannel.lean` tie to the source) and the two `ChannelMask` methods
(`set_channel`, `is_enabled` — assumed to be the model's `Mask.setChannel` / `Mask.isEnabled`, hypothesis
`MaskOk`).

`tieA_handle_new_channel`, `tieA_channel_dl_update`: on a plan with 16 slots and a 9-byte mask the
generated handlers are the model's `handleNewChannel` / `channelDlUpdate`: same two answer bits, same plan
afterwards, a panic on one side iff on the other.
-/
set_option linter.unusedSimpArgs false
set_option linter.unusedVariables false
namespace TieA.Dyn
open Model Gen.Region

def natsOf (l : List Int) : List Nat := l.map Int.toNat

def chanOf (c : Gen.DynPlanFn.Channel) : Channel :=
  { freq := c.frequency.toNat, drRange := c._datarates._0.toNat, dlFreq := c.dl_frequency.map Int.toNat }

/-- the model plan a generated `DynamicChannelPlan` stands for -/
def planOf (p : Gen.DynPlanFn.DynamicChannelPlan) : DynPlan :=
  { channels := p.channels.map (Option.map chanOf), mask := natsOf p.channel_mask.bytes }

/-- the region parameters of the generated code, from the model's tables -/
def regOf (r : RegionId) : Gen.DynPlanFn.DynRegion :=
  ⟨numJoinChannels r, datarates r, fun f => frequencyValid r f.toNat⟩

/-- the `ChannelMask` methods are the model's, on a 9-byte mask (of octets) and a channel index below 16;
discharged for the regenerated `ChannelMask` methods by `TieA.DynMask.genMops_ok` (builder R) -/
def MaskOk (mops : Gen.DynPlanFn.MaskFns) : Prop :=
  ∀ (m : Gen.DynPlanFn.ChannelMask) (i : Int), 0 ≤ i → i < 16 → m.bytes.length = 9 → (∀ x ∈ m.bytes, 0 ≤ x ∧ x ≤ 255) →
    mops.is_enabled m i = (Mask.isEnabled (natsOf m.bytes) i.toNat).toOption ∧
    ∀ b, (mops.set_channel m i b).map (fun m' => natsOf m'.bytes) = (Mask.setChannel (natsOf m.bytes) i.toNat b).toOption

/-- 16 slots, 9 mask bytes (octets), non-negative frequencies -/
def PlanWF (p : Gen.DynPlanFn.DynamicChannelPlan) : Prop :=
  p.channels.length = 16 ∧ p.channel_mask.bytes.length = 9 ∧
  (∀ c, some c ∈ p.channels → 0 ≤ c.frequency) ∧ ∀ x ∈ p.channel_mask.bytes, 0 ≤ x ∧ x ≤ 255

/-- `DataRateRange::max_data_rate` / `min_data_rate`: the high and the low nibble, for every byte -/
theorem dr_range_fields : ∀ k : Fin 256,
    Gen.DynPlanFn.DataRateRange.max_data_rate ⟨(k.val : Int)⟩ = some ((k.val / 16 : Nat) : Int) ∧
    Gen.DynPlanFn.DataRateRange.min_data_rate ⟨(k.val : Int)⟩ = ((k.val % 16 : Nat) : Int) := by
  decide +kernel

/-- every rate of `lo..=hi` is defined in the region's table: the generated loop (`Rt.rangeAllM` over
`R::datarates()[c]`, which panics past the table) is the model's, for every dynamic region and all nibbles -/
theorem all_rates_defined : ∀ (r : RegionId) (lo hi : Fin 16), r.isFixed = false →
    Rt.rangeAllM (lo.val : Int) (hi.val : Int) (fun c => (Rt.idx (datarates r) c).bind fun t => some t.isSome)
      = (allM (fun c => do pure (← indexDatarate r c).isSome) ((List.range (hi.val + 1)).filter (· ≥ lo.val))).toOption := by
  intro r
  cases r <;> first | (intro lo hi h; exact absurd h (by decide)) | (intro lo hi _; revert lo hi; decide +kernel)

theorem getElem?_map_chan (l : List (Option Gen.DynPlanFn.Channel)) (i : Nat) :
    (l.map (Option.map chanOf))[i]? = l[i]?.map (Option.map chanOf) := by
  simp

theorem isEnabled_ok (m : Mask) (i : Nat) (hl : m.length = 9) (hi : i < 16) : ∃ b, Mask.isEnabled m i = .ok b := by
  unfold Mask.isEnabled
  rw [if_neg (by omega)]
  have : i / 8 < m.length := by omega
  rw [List.getElem?_eq_getElem this]
  exact ⟨_, rfl⟩

/-- `channel_dl_update` (DlChannelReq) as the current source has it is the model's `channelDlUpdate`: the
frequency bit, the channel bit (index below 16, channel enabled in the mask, defined, frequency non-zero),
and the downlink frequency stored only when both are set (`None` when it equals the uplink frequency) -/
theorem tieA_channel_dl_update (mops : Gen.DynPlanFn.MaskFns) (hm : MaskOk mops) (rs : RegionState)
    (p : Gen.DynPlanFn.DynamicChannelPlan) (hplan : rs.plan = .dyn (planOf p)) (hw : PlanWF p)
    (index freq : Int) (hi : 0 ≤ index) (hf : 0 ≤ freq) :
    (Gen.DynPlanFn.DynamicChannelPlan.channel_dl_update (regOf rs.id) mops p index freq).map
        (fun o => (o.1, { rs with plan := .dyn (planOf o.2) }))
      = (channelDlUpdate rs index.toNat freq.toNat).toOption := by
  obtain ⟨hc, hmk, hfr, hoct⟩ := hw
  have hN : Gen.DynPlanFn.NUM_CHANNELS_DYNAMIC = 16 := rfl
  unfold Gen.DynPlanFn.DynamicChannelPlan.channel_dl_update
  simp only [channelDlUpdate, hplan, hN, Gen.DynPlanFn.DynamicChannelPlan.frequency_valid, regOf]
  by_cases h16 : index ≥ 16
  · have h16' : index.toNat ≥ 16 := by omega
    simp [h16, h16', Except.toOption, pure, Except.pure, hplan]
    cases rs; simp_all
  · have h16' : ¬ index.toNat ≥ 16 := by omega
    obtain ⟨hen, _⟩ := hm p.channel_mask index hi (by omega) hmk hoct
    simp only [h16, h16', decide_false, Bool.false_eq_true, if_false, hen, planOf]
    obtain ⟨en, hen'⟩ := isEnabled_ok (natsOf p.channel_mask.bytes) index.toNat (by simp [natsOf, hmk]) (by omega)
    have hidx : Rt.idx p.channels index = p.channels[index.toNat]? := by simp [Rt.idx]; omega
    have hlt : index.toNat < p.channels.length := by omega
    simp only [hen', Except.toOption, Option.isSome_some, if_true, Option.bind_eq_bind, Option.bind_some, hidx,
      getElem?_map_chan, List.getElem?_eq_getElem hlt, Option.map_some, bind, Except.bind]
    cases en
    · cases hs : p.channels[index.toNat] <;> simp [pure, Except.pure, hplan, planOf] <;> (cases rs; simp_all [planOf])
    · cases hs : p.channels[index.toNat] with
      | none => simp [pure, Except.pure, hplan, planOf]; cases rs; simp_all [planOf]
      | some c =>
        have hcf : 0 ≤ c.frequency := hfr c (by rw [← hs]; exact List.getElem_mem hlt)
        have hz : (c.frequency ≠ 0) = ((chanOf c).freq ≠ 0) := by apply propext; simp [chanOf]; omega
        have he : (freq = c.frequency) = (freq.toNat = (chanOf c).freq) := by apply propext; simp [chanOf]; omega
        have hset : ∀ v, Rt.setIdx p.channels index v = some (p.channels.set index.toNat v) := by
          intro v; simp only [Rt.setIdx]; rw [if_pos ⟨hi, hlt⟩]
        by_cases hfz : c.frequency = 0
        · have : (chanOf c).freq = 0 := by simp [chanOf, hfz]
          simp [hfz, this, pure, Except.pure, hplan, planOf]; cases rs; simp_all [planOf]
        · have hfz' : ¬ (chanOf c).freq = 0 := by rw [← ne_eq, ← hz]; exact hfz
          by_cases hfv : frequencyValid rs.id freq.toNat = true
          · by_cases heq : freq = c.frequency
            · subst heq
              have hpos : 0 < c.frequency := by omega
              simp [hfz, hfz', hfv, pure, Except.pure, hplan, planOf, hset, List.map_set, chanOf, hpos]
            · have heq' : ¬ freq.toNat = (chanOf c).freq := by rw [← he]; exact heq
              have heq'' : ¬ freq.toNat = c.frequency.toNat := heq'
              have hpos : 0 < c.frequency := by omega
              have heqs : ¬ c.frequency = freq := fun h => heq h.symm
              simp [hpos, heq'', heqs, hfz, hfz', hfv, pure, Except.pure, hplan, planOf, hset, heq, heq', List.map_set, chanOf]
          · have hfv : frequencyValid rs.id freq.toNat = false := by simpa using hfv
            simp [hfz, hfz', hfv, pure, Except.pure, hplan, planOf]; cases rs; simp_all [planOf]

/-- `handle_new_channel` (NewChannelReq) as the current source has it is the model's `handleNewChannel`: join
channels and indices from 16 up are refused, frequency 0 removes the channel and clears its mask bit,
otherwise the channel is created and enabled iff the frequency is in the band and every data rate of
the range is defined (maximum below 15) -/
theorem tieA_handle_new_channel (mops : Gen.DynPlanFn.MaskFns) (hm : MaskOk mops) (rs : RegionState)
    (hfix : rs.id.isFixed = false)
    (p : Gen.DynPlanFn.DynamicChannelPlan) (hplan : rs.plan = .dyn (planOf p)) (hw : PlanWF p)
    (index freq : Int) (dr : Option Gen.DynPlanFn.DataRateRange) (hi : 0 ≤ index) (hf : 0 ≤ freq)
    (hdr : ∀ d, dr = some d → 0 ≤ d._0 ∧ d._0 ≤ 255) :
    (Gen.DynPlanFn.DynamicChannelPlan.handle_new_channel (regOf rs.id) mops p index freq dr).map
        (fun o => (o.1, { rs with plan := .dyn (planOf o.2) }))
      = (handleNewChannel rs index.toNat freq.toNat (dr.map (fun d => d._0.toNat))).toOption := by
  obtain ⟨hc, hmk, hfr, hoct⟩ := hw
  have hN : Gen.DynPlanFn.NUM_CHANNELS_DYNAMIC = 16 := rfl
  unfold Gen.DynPlanFn.DynamicChannelPlan.handle_new_channel
  simp only [handleNewChannel, hplan, hN, Gen.DynPlanFn.DynamicChannelPlan.frequency_valid, regOf]
  by_cases hj : index < (numJoinChannels rs.id : Int)
  · have hj' : index.toNat < numJoinChannels rs.id := by omega
    simp [hj, hj', Except.toOption, pure, Except.pure]; cases rs; simp_all [planOf]
  · have hj' : ¬ index.toNat < numJoinChannels rs.id := by omega
    by_cases h16 : index ≥ 16
    · have h16' : index.toNat ≥ 16 := by omega
      simp [hj, hj', h16, h16', Except.toOption, pure, Except.pure]; cases rs; simp_all [planOf]
    · have h16' : ¬ index.toNat ≥ 16 := by omega
      have hlt : index.toNat < p.channels.length := by omega
      obtain ⟨_, hsetc⟩ := hm p.channel_mask index hi (by omega) hmk hoct
      have hsi : ∀ v, Rt.setIdx p.channels index v = some (p.channels.set index.toNat v) := by
        intro v; simp only [Rt.setIdx]; rw [if_pos ⟨hi, hlt⟩]
      simp only [hj, hj', h16, h16', decide_false, Bool.false_eq_true, if_false]
      by_cases hz : freq = 0
      · subst hz
        have := hsetc false
        cases hmc : Mask.setChannel (natsOf p.channel_mask.bytes) index.toNat false with
        | error er =>
          rw [hmc] at this
          cases hg : mops.set_channel p.channel_mask index false with
          | none => simp [hsi, hg, Except.toOption, bind, Except.bind, planOf, hmc]
          | some m' => rw [hg] at this; simp [Except.toOption] at this
        | ok mm =>
          rw [hmc] at this
          cases hg : mops.set_channel p.channel_mask index false with
          | none => rw [hg] at this; simp [Except.toOption] at this
          | some m' =>
            rw [hg] at this
            simp only [Option.map_some, Except.toOption, Option.some.injEq] at this
            simp [hsi, hg, Except.toOption, bind, Except.bind, planOf, hmc, pure, Except.pure, List.map_set, this]
      · have hz' : ¬ freq.toNat = 0 := by omega
        simp only [hz, hz', decide_false, Bool.false_eq_true, if_false, beq_iff_eq]
        cases dr with
        | none => simp [Except.toOption, pure, Except.pure]; cases rs; simp_all [planOf]
        | some d =>
          obtain ⟨hd0, hd1⟩ := hdr d rfl
          obtain ⟨dv⟩ := d
          simp only at hd0 hd1
          obtain ⟨k, rfl⟩ : ∃ k : Nat, dv = (k : Int) := ⟨dv.toNat, by omega⟩
          have hk : k < 256 := by omega
          obtain ⟨e1, e2⟩ := dr_range_fields ⟨k, hk⟩
          simp only at e1 e2
          have hND : Gen.DynPlanFn.NUM_DATARATES = 15 := rfl
          simp only [Option.map_some, Int.toNat_natCast, e1, e2, hND, Option.bind_eq_bind, Option.bind_some, Option.pure_def]
          -- the support test, on both sides
          have hsup : (if decide (((k / 16 : Nat) : Int) < 15) = true then
                Rt.rangeAllM ((k % 16 : Nat) : Int) ((k / 16 : Nat) : Int) (fun c => (Rt.idx (datarates rs.id) c).bind fun t3 => some t3.isSome)
              else some false)
            = (if k / 16 < 15 then
                allM (fun c => do pure (← indexDatarate rs.id c).isSome) ((List.range (k / 16 + 1)).filter (· ≥ k % 16))
               else pure false).toOption := by
            by_cases h15 : k / 16 < 15
            · have h15' : ((k / 16 : Nat) : Int) < 15 := by omega
              rw [if_pos (by simpa using h15'), if_pos h15]
              exact all_rates_defined rs.id ⟨k % 16, by omega⟩ ⟨k / 16, by omega⟩ hfix
            · have h15' : ¬ ((k / 16 : Nat) : Int) < 15 := by omega
              rw [if_neg (by simpa using h15'), if_neg h15]; rfl
          rw [hsup]
          generalize (if k / 16 < 15 then
                allM (fun c => do pure (← indexDatarate rs.id c).isSome) ((List.range (k / 16 + 1)).filter (· ≥ k % 16))
               else pure false) = sup
          cases sup with
          | error er => simp [Except.toOption, bind, Except.bind]
          | ok b =>
            simp only [Except.toOption, Option.bind_some, bind, Except.bind]
            by_cases hgo : (frequencyValid rs.id freq.toNat && b) = true
            · have := hsetc true
              simp only [hgo, if_true, hsi, Option.bind_some, planOf]
              cases hmc : Mask.setChannel (natsOf p.channel_mask.bytes) index.toNat true with
              | error er =>
                rw [hmc] at this
                cases hg : mops.set_channel p.channel_mask index true with
                | none => simp
                | some m' => rw [hg] at this; simp [Except.toOption] at this
              | ok mm =>
                rw [hmc] at this
                cases hg : mops.set_channel p.channel_mask index true with
                | none => rw [hg] at this; simp [Except.toOption] at this
                | some m' =>
                  rw [hg] at this
                  simp only [Option.map_some, Except.toOption, Option.some.injEq] at this
                  simp [pure, Except.pure, List.map_set, this, chanOf, Gen.DynPlanFn.Channel.new_with_dr, planOf]
            · simp only [hgo, Bool.false_eq_true, if_false, Option.bind_some, Option.map_some, pure, Except.pure]
              cases rs; simp_all [planOf]

/-! ## non-vacuity -/

theorem natsOf_ofNat (l : List Nat) : natsOf (l.map Int.ofNat) = l := by
  induction l with
  | nil => rfl
  | cons a t ih => simp only [natsOf, List.map_cons, List.map_map] at ih ⊢; rw [ih]; rfl

/-- the model's mask operations as `MaskFns` -/
def exMops : Gen.DynPlanFn.MaskFns where
  set_channel m i b := (Mask.setChannel (natsOf m.bytes) i.toNat b).toOption.map (fun m' => ⟨m'.map Int.ofNat⟩)
  is_enabled m i := (Mask.isEnabled (natsOf m.bytes) i.toNat).toOption

theorem exMops_ok : MaskOk exMops := by
  intro m i _ _ _ _
  refine ⟨rfl, fun b => ?_⟩
  simp only [exMops, Option.map_map]
  cases Mask.setChannel (natsOf m.bytes) i.toNat b with
  | error e => rfl
  | ok mm => simp [Except.toOption, natsOf_ofNat]

/-- an EU868 plan: three default channels, all 72 mask bits set -/
def exPlan : Gen.DynPlanFn.DynamicChannelPlan :=
  ⟨[some ⟨868100000, ⟨0x50⟩, none⟩, some ⟨868300000, ⟨0x50⟩, none⟩, some ⟨868500000, ⟨0x50⟩, none⟩] ++ List.replicate 13 none,
   ⟨List.replicate 9 255⟩⟩

example : PlanWF exPlan := by
  refine ⟨by decide, by decide, ?_, ?_⟩
  rotate_left
  · intro x hx
    have := (List.mem_replicate.mp hx).2
    omega
  intro c hc
  simp only [exPlan, List.mem_append, List.mem_cons, List.mem_replicate, Option.some.injEq] at hc
  rcases hc with (h | h | h | h) | h
  · subst h; decide
  · subst h; decide
  · subst h; decide
  · cases h
  · exact absurd h.2 (by simp)

/-- NewChannelReq: index 3, 867.1 MHz, DR0..DR5 is accepted and creates the channel; index 1 (a join
channel) and 900 MHz (outside the band) are refused -/
example :
    ((Gen.DynPlanFn.DynamicChannelPlan.handle_new_channel (regOf .EU868) exMops exPlan 3 867100000 (some ⟨0x50⟩)).map
        (fun o => (o.1, o.2.channels[3]?))) = some ((true, true), some (some ⟨867100000, ⟨0x50⟩, none⟩)) ∧
    ((Gen.DynPlanFn.DynamicChannelPlan.handle_new_channel (regOf .EU868) exMops exPlan 1 867100000 (some ⟨0x50⟩)).map (·.1))
        = some (false, false) ∧
    ((Gen.DynPlanFn.DynamicChannelPlan.handle_new_channel (regOf .EU868) exMops exPlan 3 900000000 (some ⟨0x50⟩)).map (·.1))
        = some (false, true) := by
  refine ⟨by rfl, by rfl, by rfl⟩

/-- DlChannelReq: channel 0 gets the downlink frequency 869.525 MHz; slot 5 is not defined -/
example :
    ((Gen.DynPlanFn.DynamicChannelPlan.channel_dl_update (regOf .EU868) exMops exPlan 0 869525000).map
        (fun o => (o.1, (o.2.channels[0]?.bind id).map (·.dl_frequency)))) = some ((true, true), some (some 869525000)) ∧
    ((Gen.DynPlanFn.DynamicChannelPlan.channel_dl_update (regOf .EU868) exMops exPlan 5 869525000).map (·.1))
        = some (true, false) := by
  refine ⟨by rfl, by rfl⟩

#print axioms tieA_channel_dl_update
#print axioms tieA_handle_new_channel
#print axioms exMops_ok
end TieA.Dyn
