import LoraVerif.Props.TieA.MacRfC05
/-!
# Tie A: `RxWindows::get` (builder H) — which of the two RF configurations computed at TX time a receive window uses

`Gen.MacRfFn.RxWindows.get` is regenerated from `mac/mod.rs`.  Together with `C05.tieA_rx_windows` it says: the
configuration the radio is given for window 1 (2) is the first (second) component of the model's `rxWindows`.
-/
namespace C10
open Model TieA Gen.Region

/-- `RxWindows::get`: window 1 ↦ `rx1`, window 2 ↦ `rx2`, for every pair of configurations -/
theorem tieA_rx_windows_get (w : Gen.MacRfFn.RxWindows) (win : Window) :
    Gen.MacRfFn.RxWindows.get w win = (match win with | ._1 => w.rx1 | ._2 => w.rx2) := by
  cases win <;> rfl

/-- the two facts separately (the form the composition below uses) -/
theorem tieA_rx_windows_get_1 (w : Gen.MacRfFn.RxWindows) : Gen.MacRfFn.RxWindows.get w ._1 = w.rx1 := rfl
theorem tieA_rx_windows_get_2 (w : Gen.MacRfFn.RxWindows) : Gen.MacRfFn.RxWindows.get w ._2 = w.rx2 := rfl

example (a b : Gen.MacRfFn.RfConfig) (h : a ≠ b) :
    Gen.MacRfFn.RxWindows.get ⟨a, b⟩ ._2 = b ∧ Gen.MacRfFn.RxWindows.get ⟨a, b⟩ ._1 ≠ b := ⟨rfl, h⟩

#print axioms tieA_rx_windows_get
end C10
