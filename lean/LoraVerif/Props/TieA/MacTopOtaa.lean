import LoraVerif.Props.TieA.MacTop
import LoraVerif.Props.TieA.OtaaHandleRx
/-!
# Tie A: the joining arm of `Mac::handle_rx` with the operation INSTANTIATED by the regenerated `Otaa::handle_rx`
(builder C; the `Otaa` arm of `C07.tieA_mac_handle_rx_partial` with no simulation hypothesis)

Carriers: the GENERATED `Otaa`, `Session` and radio buffer of `Gen.OtaaFn` (`K3`), the model's region; `genOtaaRx` is
the operation `otaa_handle_rx` of the dispatch built from the regenerated `Otaa::handle_rx`; `macM3` the total map from
the generated `Mac` to the model's state (`TieA.OtaaRx.sessOf`, `cfgM`).  For a joining device the regenerated
`Mac::handle_rx` is the model's `macHandleRx` on the decrypted view (`TieA.OtaaRx.viewOf`): `JoinSuccess` and
`Joined(session)` iff the buffer verifies under the AppKey, else `NoUpdate` with the join state kept; buffer and downlink
queue untouched; a panic iff a panic.  Hypothesis: `ViewWF` only (wire widths of the decrypted fields), as in
`C11.tieA_otaa_handle_rx`.
-/
set_option linter.unusedSimpArgs false
set_option linter.unusedVariables false
namespace TieA.MacTop.Otaa
open Model Gen.Region TieA.OtaaRx

/-- the carriers: the generated join state / session / buffer of `Gen.OtaaFn`, the model's region -/
@[reducible] def K3 : Gen.MacTopFn.Carriers :=
  { Session := Gen.OtaaFn.Session, Otaa := Gen.OtaaFn.Otaa, RegionCfg := RegionState, RadioBuffer := Gen.OtaaFn.RadioBuffer,
    Downlink := Nat × List Nat, RNG := Nat, NetworkCredentials := Unit, NwkSKey := Nat, AppSKey := Nat, DevAddr := Nat,
    TxConfig := Int × Model.RfConfig, TxChannel := Model.TxChannel, RxWindows := Model.RfConfig × Model.RfConfig,
    SendData := List Nat × Nat × Bool, fcnt_up := fun s => s.fcnt_up }

attribute [local instance 2000] K3

abbrev GMac3 := @Gen.MacTopFn.Mac K3
abbrev GOps3 := @Gen.MacTopFn.Ops K3

/-- `Configuration` as `Gen.MacTopFn` and as `Gen.OtaaFn` regenerate it (the same Rust struct, field by field) -/
def cfgS3 (c : Gen.MacTopFn.Configuration) : Gen.OtaaFn.Configuration :=
  { data_rate := c.data_rate, rx1_delay := c.rx1_delay, join_accept_delay1 := c.join_accept_delay1,
    join_accept_delay2 := c.join_accept_delay2, tx_power := c.tx_power, rx1_dr_offset := c.rx1_dr_offset,
    rx2_data_rate := c.rx2_data_rate, rx2_frequency := c.rx2_frequency, adr_enabled := c.adr_enabled }

def cfgT3 (c : Gen.OtaaFn.Configuration) : Gen.MacTopFn.Configuration :=
  { data_rate := c.data_rate, rx1_delay := c.rx1_delay, join_accept_delay1 := c.join_accept_delay1,
    join_accept_delay2 := c.join_accept_delay2, tx_power := c.tx_power, rx1_dr_offset := c.rx1_dr_offset,
    rx2_data_rate := c.rx2_data_rate, rx2_frequency := c.rx2_frequency, adr_enabled := c.adr_enabled }

theorem cfgM_cfgT3 (c : Gen.OtaaFn.Configuration) : cfgM (cfgT3 c) = TieA.OtaaRx.cfgOf c := rfl
theorem cfgOf_cfgS3 (c : Gen.MacTopFn.Configuration) : TieA.OtaaRx.cfgOf (cfgS3 c) = cfgM c := rfl

/-- the operation of the dispatch built from the regenerated `Otaa::handle_rx` -/
def genOtaaRx (o : Gen.OtaaFn.Otaa) (reg : RegionState) (cfg : Gen.MacTopFn.Configuration) (buf : Gen.OtaaFn.RadioBuffer) :
    Option (Option Gen.OtaaFn.Session × Gen.OtaaFn.Otaa × RegionState × Gen.MacTopFn.Configuration × Gen.OtaaFn.RadioBuffer) :=
  (Gen.OtaaFn.Otaa.handle_rx o reg (cfgS3 cfg) buf).map (fun (so, o', reg', c', b') => (so, o', reg', cfgT3 c', b'))

/-- the model's join state of a generated `Otaa`: the DevNonce of the pending request -/
def otaaM (o : Gen.OtaaFn.Otaa) : OtaaState := { devNonce := o.dev_nonce.value.toNat }

def stateM3 : @Gen.MacTopFn.State K3 → JoinState
  | .Joined s => .joined (TieA.OtaaRx.sessOf s)
  | .Otaa o => .otaa (otaaM o)
  | .Unjoined => .unjoined

/-- total map from the generated `Mac` (generated join state / session inside) to the model's state -/
def macM3 (g : GMac3) : MacState :=
  { cfg := cfgM g.configuration, region := g.region, maxPower := g.board_eirp.max_power.toNat,
    antennaGain := g.board_eirp.antenna_gain, st := stateM3 g.state }

/-- re-reading the model's answer: from (response, state, otaa, buffer) to (response, state, buffer, queue) -/
theorem rebind {σ β : Type} (X : Option (Option RxOut × MacState)) (o : σ) (rx : β) (dl : List (Nat × List Nat)) :
    (∀ a b c d, X.bind (fun r => r.1.map (fun ro => (ro.resp, r.2, o, rx))) = some (a, b, c, d) →
      c = o ∧ d = rx ∧ X.bind (fun r => r.1.map (fun ro => (respG ro.resp, r.2, rx, dl))) = some (respG a, b, rx, dl)) ∧
    (X.bind (fun r => r.1.map (fun ro => (ro.resp, r.2, o, rx))) = none →
      X.bind (fun r => r.1.map (fun ro => (respG ro.resp, r.2, rx, dl))) = none) := by
  cases X with
  | none => simp
  | some r =>
    obtain ⟨ro, m⟩ := r
    cases ro with
    | none => simp
    | some ro =>
      simp only [Option.bind_some, Option.map_some, Option.some.injEq, Prod.mk.injEq]
      refine ⟨?_, by simp⟩
      rintro a b c d ⟨h1, h2, h3, h4⟩
      subst h1 h2 h3 h4
      simp

theorem handle_rx_otaa_gen (D : Int) (ops : GOps3) (hs : ops.otaa_handle_rx = genOtaaRx)
    (cfg : Gen.MacTopFn.Configuration) (rs : RegionState) (eirp : Gen.MacTopFn.BoardEirp) (o : Gen.OtaaFn.Otaa)
    (rx : Gen.OtaaFn.RadioBuffer) (dl : List (Nat × List Nat)) (snr : Int) (rf : Gen.MacTopFn.RfConfig)
    (hwf : ViewWF o rx) :
    (@Gen.MacTopFn.Mac.handle_rx K3 ops D ⟨cfg, rs, eirp, .Otaa o⟩ rx dl snr rf).map
        (fun (r, g', b', dl') => (r, macM3 g', b', dl'))
      = (macHandleRx (macM3 ⟨cfg, rs, eirp, .Otaa o⟩) (viewOf o rx) rf.max_payload_len.toNat snr false).toOption.bind
          (fun r => r.1.map (fun ro => (respG ro.resp, r.2, rx, dl))) := by
  have ht := tieA_otaa_handle_rx (macM3 ⟨cfg, rs, eirp, .Otaa o⟩) (otaaM o) o (cfgS3 cfg) rx rf.max_payload_len.toNat snr rfl rfl hwf
  obtain ⟨hb1, hb2⟩ := rebind (macHandleRx (macM3 ⟨cfg, rs, eirp, .Otaa o⟩) (viewOf o rx) rf.max_payload_len.toNat snr false).toOption o rx dl
  simp only [macM3, stateM3] at ht hb1 hb2 ⊢
  simp only [Gen.MacTopFn.Mac.handle_rx, hs, genOtaaRx]
  cases hx : Gen.OtaaFn.Otaa.handle_rx o rs (cfgS3 cfg) rx with
  | none =>
    rw [hx] at ht
    simp only [Option.map_none] at ht
    rw [hb2 ht.symm]
    rfl
  | some v =>
    obtain ⟨so, o', reg', c', b'⟩ := v
    rw [hx] at ht
    simp only [Option.map_some] at ht
    obtain ⟨e1, e2, e3⟩ := hb1 _ _ _ _ ht.symm
    try simp only at e1 e2
    subst e1 e2
    rw [e3]
    cases so with
    | none => simp [macAfter, macM3, stateM3, respG, cfgM_cfgT3]
    | some s => simp [macAfter, macM3, stateM3, respG, cfgM_cfgT3]

end TieA.MacTop.Otaa

namespace C11
open Model TieA.OtaaRx TieA.MacTop TieA.MacTop.Otaa
attribute [local instance 2000] K3

/-- **Tie A.**  `Mac::handle_rx` of a JOINING device = the model's `macHandleRx` on the decrypted view, the join step
being the REGENERATED `Otaa::handle_rx` (`Gen.OtaaFn`, through `genOtaaRx`): `JoinSuccess` and `Joined(session)` (every
session field, configuration and region as the JoinAccept defines) iff the buffer verifies under the AppKey, else
`NoUpdate` with the join state, configuration and region kept; buffer and downlink queue untouched; a panic iff a panic
of the model.  No simulation hypothesis (only `ViewWF`: wire widths of the decrypted fields). -/
theorem tieA_mac_handle_rx_joining (D : Int) (ops : GOps3) (hs : ops.otaa_handle_rx = genOtaaRx)
    (cfg : Gen.MacTopFn.Configuration) (rs : RegionState) (eirp : Gen.MacTopFn.BoardEirp) (o : Gen.OtaaFn.Otaa)
    (rx : Gen.OtaaFn.RadioBuffer) (dl : List (Nat × List Nat)) (snr : Int) (rf : Gen.MacTopFn.RfConfig)
    (hwf : ViewWF o rx) :
    (@Gen.MacTopFn.Mac.handle_rx K3 ops D ⟨cfg, rs, eirp, .Otaa o⟩ rx dl snr rf).map
        (fun (r, g', b', dl') => (r, macM3 g', b', dl'))
      = (macHandleRx (macM3 ⟨cfg, rs, eirp, .Otaa o⟩) (viewOf o rx) rf.max_payload_len.toNat snr false).toOption.bind
          (fun r => r.1.map (fun ro => (respG ro.resp, r.2, rx, dl))) :=
  handle_rx_otaa_gen D ops hs cfg rs eirp o rx dl snr rf hwf

end C11

/-! Non-vacuity: the JoinAccept of `Props/TieA/OtaaHandleRx.lean` (DLSettings 0x23, RxDelay 0, verifies under key 7)
through the regenerated `Mac::handle_rx` with the regenerated `Otaa::handle_rx` inside, EU868. -/
namespace TieA.MacTop.Otaa.Example
open Model TieA.OtaaRx TieA.MacTop TieA.MacTop.Otaa
attribute [local instance 2000] K3
def ops7 : GOps3 :=
  { session_new := fun _ _ _ => Gen.OtaaFn.Session.new ⟨0⟩ ⟨0⟩ ⟨0⟩, session_prepare_buffer := fun _ _ _ _ _ => none,
    session_handle_rx := fun _ _ _ _ _ _ _ _ => none, session_rx2_complete := fun _ _ _ => none,
    otaa_new := fun _ => ⟨⟨0⟩, ⟨⟨⟨0⟩⟩⟩⟩, otaa_prepare_buffer := fun _ _ _ => none, otaa_handle_rx := genOtaaRx,
    otaa_rx2_complete := fun o => (.NoJoinAccept, o), create_tx_config := fun _ _ _ _ => none,
    adjust_power := fun _ _ _ => none, rx_windows := fun _ _ _ => none }
def cfgJ : Gen.MacTopFn.Configuration := ⟨._0, 5000, 5000, 6000, none, 0, none, none, true⟩

example :
    (@Gen.MacTopFn.Mac.handle_rx K3 ops7 4 ⟨cfgJ, RegionState.init .EU868, ⟨14, 0⟩, .Otaa ⟨⟨100⟩, ⟨⟨⟨7⟩⟩⟩⟩⟩ exRx [] 0 ⟨51⟩).map
      (fun x => (x.1, Gen.MacTopFn.Mac.is_joined x.2.1, x.2.1.configuration.rx1_delay, x.2.1.configuration.rx2_data_rate))
      = some (.JoinSuccess, true, 1000, some Gen.Region.DR._3) := by rfl

/-- a wrong key: `NoUpdate`, still joining -/
example :
    (@Gen.MacTopFn.Mac.handle_rx K3 ops7 4 ⟨cfgJ, RegionState.init .EU868, ⟨14, 0⟩, .Otaa ⟨⟨100⟩, ⟨⟨⟨8⟩⟩⟩⟩⟩ exRx [] 0 ⟨51⟩).map
      (fun x => (x.1, Gen.MacTopFn.Mac.is_joined x.2.1)) = some (.NoUpdate, false) := by rfl

/-- the hypothesis of `C11.tieA_mac_handle_rx_joining` holds on that input -/
example : ViewWF ⟨⟨100⟩, ⟨⟨⟨7⟩⟩⟩⟩ exRx := by
  intro d hd
  have : d = exView := by
    simp only [exRx, cryptoOf] at hd
    simpa using hd.symm
  subst this
  decide
end TieA.MacTop.Otaa.Example

#print axioms C11.tieA_mac_handle_rx_joining
